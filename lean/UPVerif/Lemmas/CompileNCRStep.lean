import UPVerif.Lemmas.CompileNCRState
import UPVerif.Lemmas.CompileSIR
/-!
One step of an action compiled by NegativeConditionsRemover against the step of the original action
(`ncr_step`): related pre-states give related successors or no successor on either side.

The decidable hypotheses on an action (`ncrEffOK`, `noDoubleB`; fragment and reasons in `Props/C06NCR.lean`).
-/
namespace UPVerif.Compile
open UPVerif UPVerif.Expr UPVerif.Sim UPVerif.Spec

theorem CtxRel_of_StRel {M : NMap} {c' c : EvalCtx} (hobjs : c.objs = c'.objs) (hfn : c.fn = c'.fn)
    (h : StRel M c'.get c.get) : CtxRel M c' c :=
  ⟨⟨hobjs, hfn, fun f vs hf => (h.agree (f, vs) hf).symm⟩, h.mirror⟩

theorem evL_agreeL {L : List FluentRef} {c c' : EvalCtx} (h : AgreeOffL L c c') (args : List Expr) (ρ : VEnv)
    (hm : mentionsAnyList L args = false) : evL c' ρ args = evL c ρ args := by
  unfold evL; rw [(eval_agreeL h).2 args ρ hm]

theorem ev_agreeL {L : List FluentRef} {c c' : EvalCtx} (h : AgreeOffL L c c') (e : Expr) (ρ : VEnv)
    (hm : mentionsAny L e = false) : ev c' ρ e = ev c ρ e := by
  unfold ev; rw [(eval_agreeL h).1 e ρ hm]

/-! ### the hypotheses on the effects of an action -/

/-- an instance of a forall effect: writes a fluent without complementary fluent, mentions no complementary fluent -/
def instOK (M : NMap) (x : Effect) : Bool :=
  match x.fluent with
  | .app (.fluent g) as =>
    (M.lookup g).isNone && !decide (g ∈ M.fresh) && !mentionsAnyList M.fresh as && !mentionsAny M.fresh x.value &&
      !mentionsAny M.fresh x.cond
  | _ => false

/-- an effect the step lemma covers: its target is a fluent application that is not a complementary fluent; target
    arguments and value mention no complementary fluent; a plain effect has a condition `nfrRemove_ev` covers and, when
    its fluent has a complementary fluent, is an assignment; a forall effect is unconditional and writes a fluent
    without complementary fluent (its instances are checked one by one) -/
def ncrEffOK (simp : Expr → Expr) (P : Problem) (M : NMap) (e : Effect) : Bool :=
  match e.fluent with
  | .app (.fluent f) args =>
    if e.forall_.isEmpty then
      !decide (f ∈ M.fresh) && !mentionsAnyList M.fresh args && !mentionsAny M.fresh e.value &&
        (!e.isConditional || condOK simp M e.cond) && ((M.lookup f).isNone || decide (e.kind = .assign))
    else
      !e.isConditional && (M.lookup f).isNone && (expandEffect P e).all (instOK M)
  | _ => false

theorem ncrEffCond_uncond {simp : Expr → Expr} {P : Problem} {m : NMap} {e : Effect} (h : e.isConditional = false) :
    ncrEffCond simp P m e = some (e, m) := by
  unfold ncrEffCond; simp [h]

theorem ncrEffCond_cond {simp : Expr → Expr} {P : Problem} {m m' : NMap} {e e1 : Effect} (h : e.isConditional = true)
    (h1 : ncrEffCond simp P m e = some (e1, m')) :
    ∃ c1, nfrRemove simp P m e.cond = some (c1, m') ∧ e1 = { e with cond := c1 } := by
  unfold ncrEffCond at h1
  simp only [h, if_true] at h1
  cases hr : nfrRemove simp P m e.cond with
  | none => rw [hr] at h1; cases h1
  | some r =>
    obtain ⟨c1, m1⟩ := r
    rw [hr] at h1
    injection h1 with h1; injection h1 with h2 h3; subst h3
    exact ⟨c1, rfl, h2.symm⟩

theorem ncrEffCond_le {simp : Expr → Expr} {P : Problem} {m m' : NMap} {e e1 : Effect}
    (h1 : ncrEffCond simp P m e = some (e1, m')) : NMap.le m m' := by
  by_cases h : e.isConditional = true
  · obtain ⟨c1, hr, _⟩ := ncrEffCond_cond h h1
    exact nfrRemove_le hr
  · have h' : e.isConditional = false := by simpa using h
    rw [ncrEffCond_uncond h'] at h1
    injection h1 with h1; injection h1 with _ h3; subst h3
    exact NMap.le_refl m

theorem mkEffect_nil {fl v c : Expr} {k : EffKind} {m : Effect} (h : mkEffect fl v c k [] = some m) :
    m = ⟨fl, v, c, k, []⟩ := by
  unfold mkEffect at h
  dsimp only at h
  split at h
  · injection h with h; exact h.symm
  · cases h

/-- the mirrored effect, with `mirFired M` (the whole mapping) instead of `mir1 nf` -/
theorem effO_mirrorM {simp : Expr → Expr} (hs : SimpExact simp) {M : NMap} {c' c : EvalCtx} (f nf : FluentRef)
    (hl : M.lookup f = some nf) (hf : f.ty = .bool) (hnf : nf.ty = .bool) {args args' : List Expr} {v cond cond' : Expr}
    (fa fa' : List Var) (hargs : evL c' [] args' = evL c [] args) (hcond : ev c' [] cond' = ev c [] cond)
    (hv : ev c' [] v = ev c [] v) :
    effO c' ⟨.app (.fluent nf) args', simp (mkNot v), cond', .assign, fa'⟩ =
      (effO c ⟨.app (.fluent f) args, v, cond, .assign, fa⟩).map (fun o => o.bind (mirFired M)) := by
  rw [effO_mirror hs f nf hf hnf fa fa' hargs hcond hv, effO_fluent]
  cases evL c [] args with
  | none => rfl
  | some vs =>
    simp only [Option.bind_some]
    cases ev c [] cond with
    | none => rfl
    | some cv =>
      simp only [Option.bind_some]
      by_cases hcv : cv = .b true
      · simp only [hcv, if_true]
        rw [bind_firedOf_bool f hf]
        cases toB (ev c [] v) with
        | none => rfl
        | some b => simp [mir1, mirFired, hl]
      · simp only [hcv, if_false]; rfl

/-- a fired Boolean assignment, read back -/
theorem effO_setB {c : EvalCtx} {f : FluentRef} {args : List Expr} {v cond : Expr} {kd : EffKind} {fa : List Var}
    {k : GKey} {b : Bool} (h : effO c ⟨.app (.fluent f) args, v, cond, kd, fa⟩ = some (some (.setB k b))) :
    k.1 = f ∧ evL c [] args = some k.2 ∧ ev c [] v = some (.b b) := by
  rw [effO_fluent] at h
  cases ha : evL c [] args with
  | none => rw [ha] at h; cases h
  | some vs =>
    rw [ha, Option.bind_some] at h
    cases hc : ev c [] cond with
    | none => rw [hc] at h; cases h
    | some cv =>
      rw [hc, Option.bind_some] at h
      by_cases hcv : cv = .b true
      · simp only [hcv, if_true] at h
        cases hv : ev c [] v with
        | none => rw [hv] at h; cases h
        | some w =>
          rw [hv, Option.bind_some] at h
          unfold firedOf at h
          cases kd with
          | assign =>
            dsimp only at h
            split at h
            · cases w with
              | b x =>
                simp only [Option.map_some, Option.some.injEq, Fired.setB.injEq] at h
                obtain ⟨rfl, rfl⟩ := h
                exact ⟨rfl, rfl, rfl⟩
              | n q => simp at h
              | o s => simp at h
            · simp at h
          | increase => cases w <;> simp at h
          | decrease => cases w <;> simp at h
      · simp only [hcv, if_false] at h
        cases h

/-- a fired effect on a Boolean fluent by an assignment is a Boolean assignment -/
theorem effO_bool_assign {c : EvalCtx} {f : FluentRef} (hf : f.ty = .bool) {args : List Expr} {v cond : Expr} {fa : List Var}
    {x : Fired} (h : effO c ⟨.app (.fluent f) args, v, cond, .assign, fa⟩ = some (some x)) : ∃ b, x = .setB x.key b := by
  rw [effO_fluent] at h
  cases ha : evL c [] args with
  | none => rw [ha] at h; cases h
  | some vs =>
    rw [ha, Option.bind_some] at h
    cases hc : ev c [] cond with
    | none => rw [hc] at h; cases h
    | some cv =>
      rw [hc, Option.bind_some] at h
      by_cases hcv : cv = .b true
      · simp only [hcv, if_true] at h
        rw [bind_firedOf_bool f hf] at h
        cases hb : toB (ev c [] v) with
        | none => rw [hb] at h; cases h
        | some b =>
          rw [hb] at h
          simp only [Option.map_some, Option.some.injEq] at h
          exact ⟨b, by rw [← h]; rfl⟩
      · simp only [hcv, if_false] at h
        cases h

theorem ncr_fired_single (c : EvalCtx) (e : Effect) :
    fired c [e] = (match effO c e with
      | some none => some []
      | some (some x) => some [x]
      | none => none) := by
  rw [fired_cons_effO, fired_nil]
  cases effO c e with
  | none => rfl
  | some o => cases o <;> rfl

/-- every fired effect comes from an effect of the list -/
theorem ncr_fired_mem {c : EvalCtx} {E : List Effect} {F : List Fired} (h : fired c E = some F) {x : Fired} (hx : x ∈ F) :
    ∃ e ∈ E, effO c e = some (some x) := by
  rw [fired_eq] at h
  split at h
  · cases h
    obtain ⟨e, he, hsel⟩ := List.mem_filterMap.1 hx
    refine ⟨e, he, ?_⟩
    unfold effSel at hsel
    unfold effO
    cases hev : evalEff c e with
    | error y => rw [hev] at hsel; cases hsel
    | ok o =>
      cases o with
      | none => rw [hev] at hsel; cases hsel
      | some f' => rw [hev] at hsel; cases hsel; rfl
  · cases h

theorem effO_key {c : EvalCtx} {e : Effect} {x : Fired} (h : effO c e = some (some x)) :
    ∃ ref args, e.fluent = .app (.fluent ref) args ∧ x.key.1 = ref := by
  unfold effO at h
  cases hev : evalEff c e with
  | error y => rw [hev] at h; cases h
  | ok o =>
    rw [hev] at h
    simp only [toO, Option.some.injEq] at h
    subst h
    exact evalEff_key hev

theorem All2_of_forall {α : Type} {R : α → α → Prop} : ∀ {l : List α}, (∀ x ∈ l, R x x) → All2 R l l
  | [], _ => .nil
  | x :: xs, h => .cons (h x (List.mem_cons_self ..)) (All2_of_forall (fun y hy => h y (List.mem_cons_of_mem _ hy)))

theorem mirFired_none_of_lookup {M : NMap} {x : Fired} (h : M.lookup x.key.1 = none) : mirFired M x = none := by
  cases x with
  | setB k b => simp only [Fired.key] at h; simp [mirFired, h]
  | setV k v => rfl
  | delta k d => rfl

theorem mirList_append (M : NMap) (A B : List Fired) : mirList M (A ++ B) = mirList M A ++ mirList M B := by
  unfold mirList; rw [List.filterMap_append]

/-! ### one effect -/

section
variable {simp : Expr → Expr} {P : Problem} {M : NMap} {c' c : EvalCtx}

/-- an instance of a forall effect contributes the same on both sides and is never mirrored -/
theorem inst_step (hR : CtxRel M c' c) {x : Effect} (hok : instOK M x = true) :
    effO c' x = effO c x ∧ ∀ y, effO c x = some (some y) → mirFired M y = none := by
  obtain ⟨fl, v, cnd, k, fa⟩ := x
  unfold instOK at hok
  cases fl with
  | leaf l => simp at hok
  | quant q vs b => simp at hok
  | app op as =>
    cases op with
    | fluent g =>
      simp only [Bool.and_eq_true, Bool.not_eq_true', Option.isNone_iff_eq_none, decide_eq_false_iff_not] at hok
      obtain ⟨⟨⟨⟨h1, _⟩, h3⟩, h4⟩, h5⟩ := hok
      refine ⟨effO_congr g k fa fa (evL_agreeL hR.agree as [] h3) (ev_agreeL hR.agree cnd [] h5) (ev_agreeL hR.agree v [] h4), ?_⟩
      intro y hy
      obtain ⟨ref, args, hfl, hkey⟩ := effO_key hy
      injection hfl with hop _
      injection hop with hop
      apply mirFired_none_of_lookup
      rw [hkey, ← hop]; exact h1
    | _ => simp at hok

/-- a plain (non-forall) effect: the rewritten effect contributes the same; its mirrored effect, when the fluent has a
    complementary fluent, contributes the mirror image -/
theorem plain_step (hs : SimpExact simp) (hR : CtxRel M c' c) (hM : MapOK M) {e e1 : Effect}
    (hok : ncrEffOK simp P M e = true) (hfa : e.forall_ = [])
    (h1 : ∃ mi mi', ncrEffCond simp P mi e = some (e1, mi') ∧ NMap.le mi' M) :
    ∃ f args, e.fluent = .app (.fluent f) args ∧ f ∉ M.fresh ∧ e1.fluent = e.fluent ∧ e1.value = e.value ∧ e1.kind = e.kind ∧
      e1.forall_ = [] ∧ effO c' e1 = effO c e ∧
      (∀ nf, M.lookup f = some nf → e.kind = .assign ∧
        effO c' ⟨.app (.fluent nf) args, simp (mkNot e.value), e1.cond, e.kind, []⟩ =
          (effO c e).map (fun o => o.bind (mirFired M))) := by
  obtain ⟨fl, v, cnd, k, fa⟩ := e
  simp only at hfa
  subst hfa
  unfold ncrEffOK at hok
  cases fl with
  | leaf l => simp at hok
  | quant q vs b => simp at hok
  | app op args =>
    cases op with
    | fluent f =>
      simp only [List.isEmpty_nil, if_true, Bool.and_eq_true, Bool.not_eq_true', Bool.or_eq_true,
        Option.isNone_iff_eq_none, decide_eq_true_eq, decide_eq_false_iff_not] at hok
      obtain ⟨⟨⟨⟨hfr, hargs⟩, hval⟩, hcond⟩, hkind⟩ := hok
      obtain ⟨mi, mi', hec, hle⟩ := h1
      have hA : evL c' [] args = evL c [] args := evL_agreeL hR.agree args [] hargs
      have hV : ev c' [] v = ev c [] v := ev_agreeL hR.agree v [] hval
      -- the condition
      have hC : ∃ c1, e1 = ⟨.app (.fluent f) args, v, c1, k, []⟩ ∧ ev c' [] c1 = ev c [] cnd := by
        by_cases hic : (Effect.isConditional ⟨.app (.fluent f) args, v, cnd, k, []⟩) = true
        · obtain ⟨c1, hr, he1⟩ := ncrEffCond_cond hic hec
          refine ⟨c1, he1, ?_⟩
          rcases hcond with hcond | hcond
          · rw [hic] at hcond; cases hcond
          · exact nfrRemove_ev hs hR hcond hr hle
        · have hic' : (Effect.isConditional ⟨.app (.fluent f) args, v, cnd, k, []⟩) = false := by simpa using hic
          rw [ncrEffCond_uncond hic'] at hec
          injection hec with hec; injection hec with h2 _
          refine ⟨cnd, h2.symm, ?_⟩
          have : cnd = Expr.tt := by
            apply isTrue_eq_tt
            simpa [Effect.isConditional] using hic'
          subst this; rfl
      obtain ⟨c1, rfl, hcv⟩ := hC
      refine ⟨f, args, rfl, hfr, rfl, rfl, rfl, rfl, effO_congr f k [] [] hA hcv hV, ?_⟩
      intro nf hl
      have hk : k = .assign := by
        rcases hkind with h | h
        · rw [hl] at h; cases h
        · exact h
      subst hk
      obtain ⟨hb1, hb2⟩ := hM.bool (f, nf) (nmap_lookup_mem hl)
      exact ⟨rfl, effO_mirrorM hs f nf hl hb1 hb2 [] [] hA hcv hV⟩
    | _ => simp at hok

end

/-! ### the list of effects of an action -/

/-- the relation between the effects of the original action and those after the first loop of `_compile` -/
def EffRel1 (simp : Expr → Expr) (P : Problem) (M : NMap) (e e1 : Effect) : Prop :=
  ∃ mi mi', ncrEffCond simp P mi e = some (e1, mi') ∧ NMap.le mi' M

theorem expandEffect_nil (P : Problem) {e : Effect} (h : e.forall_ = []) : expandEffect P e = [e] := by
  unfold expandEffect; simp [h]

theorem mapOpt_cons {α β : Type} {f : α → Option β} {x : α} {xs : List α} {l : List β} (h : mapOpt f (x :: xs) = some l) :
    ∃ y ys, f x = some y ∧ mapOpt f xs = some ys ∧ l = y :: ys := by
  simp only [mapOpt] at h
  cases hx : f x with
  | none => rw [hx] at h; simp at h
  | some y =>
    cases hxs : mapOpt f xs with
    | none => rw [hx, hxs] at h; simp at h
    | some ys =>
      rw [hx, hxs] at h
      injection h with h
      exact ⟨y, ys, rfl, rfl, h.symm⟩

section
variable {simp : Expr → Expr} {P : Problem} {M : NMap} {c' c : EvalCtx}

/-- the effects of the compiled action fire like those of the original action, followed by the mirror images -/
theorem effs_step (hs : SimpExact simp) (hR : CtxRel M c' c) (hM : MapOK M) :
    ∀ {effs effs1 : List Effect} {ms : List (Option Effect)}, All2 (EffRel1 simp P M) effs effs1 →
      (∀ e ∈ effs, ncrEffOK simp P M e = true) → mapOpt (ncrMirror simp M) effs1 = some ms →
      fired c' (effs1.flatMap (expandEffect P)) = fired c (effs.flatMap (expandEffect P)) ∧
      (∀ F, fired c (effs.flatMap (expandEffect P)) = some F →
        fired c' ((ms.filterMap id).flatMap (expandEffect P)) = some (mirList M F)) := by
  intro effs effs1 ms hall
  induction hall generalizing ms with
  | nil =>
    intro _ hm
    simp only [mapOpt] at hm
    injection hm with hm; subst hm
    exact ⟨rfl, fun F hF => by simp [fired_nil] at hF ⊢; subst hF; rfl⟩
  | @cons e e1 es es1 h1 _ ih =>
    intro hok hm
    obtain ⟨mo, ms', hmo, hms', rfl⟩ := mapOpt_cons hm
    obtain ⟨ih1, ih2⟩ := ih (fun x hx => hok x (List.mem_cons_of_mem _ hx)) hms'
    have hoke := hok e (List.mem_cons_self ..)
    simp only [List.flatMap_cons]
    rw [ncr_fired_append, ncr_fired_append, ih1]
    by_cases hfa : e.forall_ = []
    · -- a plain effect
      obtain ⟨f, args, hfl, _, hfl1, hv1, hk1, hfa1, heq, hmir⟩ := plain_step hs hR hM hoke hfa h1
      rw [expandEffect_nil P hfa, expandEffect_nil P hfa1]
      have hf1 : fired c' [e1] = fired c [e] := by rw [ncr_fired_single, ncr_fired_single, heq]
      rw [hf1]
      refine ⟨rfl, ?_⟩
      intro F hF
      -- split the fired effects of the original
      cases hfe : fired c [e] with
      | none => rw [hfe] at hF; simp at hF
      | some Fa =>
        cases hft : fired c (es.flatMap (expandEffect P)) with
        | none => rw [hfe, hft] at hF; simp at hF
        | some Fb =>
          rw [hfe, hft] at hF
          simp only [Option.some.injEq] at hF
          subst hF
          rw [mirList_append]
          -- the mirror of this effect
          unfold ncrMirror at hmo
          rw [hfl1, hfl] at hmo
          dsimp only at hmo
          cases hl : M.lookup f with
          | none =>
            rw [hl] at hmo
            injection hmo with hmo; subst hmo
            simp only [List.filterMap_cons_none (f := id) rfl]
            rw [ih2 Fb hft]
            have : mirList M Fa = [] := by
              unfold mirList
              rw [List.filterMap_eq_nil_iff]
              intro x hx
              obtain ⟨e', he', hxe⟩ := ncr_fired_mem hfe hx
              have : e' = e := by simpa using he'
              subst this
              obtain ⟨ref, args', hfl', hkey⟩ := effO_key hxe
              rw [hfl] at hfl'
              injection hfl' with hop _
              injection hop with hop
              apply mirFired_none_of_lookup
              rw [hkey, ← hop]; exact hl
            rw [this, List.nil_append]
          | some nf =>
            rw [hl] at hmo
            dsimp only at hmo
            rw [hv1, hk1, hfa1] at hmo
            cases hmk : mkEffect (.app (.fluent nf) args) (simp (mkNot e.value)) e1.cond e.kind [] with
            | none => rw [hmk] at hmo; cases hmo
            | some m =>
              rw [hmk] at hmo
              injection hmo with hmo; subst hmo
              have hm := mkEffect_nil hmk
              subst hm
              simp only [List.filterMap_cons_some (f := id) rfl, List.flatMap_cons]
              rw [expandEffect_nil P rfl, ncr_fired_append, ih2 Fb hft, ncr_fired_single, (hmir nf hl).2]
              rw [ncr_fired_single] at hfe
              cases heo : effO c e with
              | none => rw [heo] at hfe; cases hfe
              | some o =>
                rw [heo] at hfe
                cases o with
                | none =>
                  injection hfe with hfe; subst hfe
                  rfl
                | some x =>
                  injection hfe with hfe; subst hfe
                  simp only [Option.map_some, Option.bind_some, mirList, List.filterMap_cons, List.filterMap_nil]
                  cases mirFired M x <;> rfl
    · -- a forall effect: unconditional, no complementary fluent; it is left as it is
      unfold ncrEffOK at hoke
      cases hfl : e.fluent with
      | leaf l => rw [hfl] at hoke; simp at hoke
      | quant q vs b => rw [hfl] at hoke; simp at hoke
      | app op args =>
        cases op with
        | fluent f =>
          rw [hfl] at hoke
          have hne : e.forall_.isEmpty = false := by
            cases hh : e.forall_ with
            | nil => exact absurd hh hfa
            | cons _ _ => rfl
          simp only [hne, Bool.false_eq_true, if_false, Bool.and_eq_true, Bool.not_eq_true',
            Option.isNone_iff_eq_none, List.all_eq_true] at hoke
          obtain ⟨⟨hnc, hl⟩, hinst⟩ := hoke
          obtain ⟨mi, mi', hec, _⟩ := h1
          rw [ncrEffCond_uncond hnc] at hec
          injection hec with hec; injection hec with h2 _
          subst h2
          have hsame : fired c' (expandEffect P e) = fired c (expandEffect P e) :=
            ncr_fired_congr (All2_of_forall (fun x hx => (inst_step hR (hinst x hx)).1))
          rw [hsame]
          refine ⟨rfl, ?_⟩
          intro F hF
          cases hfe : fired c (expandEffect P e) with
          | none => rw [hfe] at hF; simp at hF
          | some Fa =>
            cases hft : fired c (es.flatMap (expandEffect P)) with
            | none => rw [hfe, hft] at hF; simp at hF
            | some Fb =>
              rw [hfe, hft] at hF
              simp only [Option.some.injEq] at hF
              subst hF
              rw [mirList_append]
              unfold ncrMirror at hmo
              rw [hfl] at hmo
              dsimp only at hmo
              rw [hl] at hmo
              injection hmo with hmo; subst hmo
              simp only [List.filterMap_cons_none (f := id) rfl]
              rw [ih2 Fb hft]
              have : mirList M Fa = [] := by
                unfold mirList
                rw [List.filterMap_eq_nil_iff]
                intro x hx
                obtain ⟨e', he', hxe⟩ := ncr_fired_mem hfe hx
                exact (inst_step hR (hinst e' he')).2 x hxe
              rw [this, List.nil_append]
        | _ => rw [hfl] at hoke; simp at hoke

end

end UPVerif.Compile
