import UPVerif.Lemmas.SimFold
/-!
Helper lemmas for `Props/C01.lean` and `Props/C02.lean`: the simulator's methods unfolded into the
declarative successor semantics.
-/
namespace UPVerif.Sim
open UPVerif UPVerif.Spec

theorem lookup_append' (l m : List (GKey × Val)) (k : GKey) :
    (l ++ m).lookup k = match l.lookup k with | some v => some v | none => m.lookup k := by
  induction l with
  | nil => simp
  | cons p l ih =>
    obtain ⟨k', v⟩ := p
    simp only [List.cons_append, List.lookup]
    cases k == k' with
    | true => simp
    | false => simpa using ih

/-- the child state read as a map is the order-free successor map -/
theorem child_get {W : World} {s : SimState} {acc : Acc} {F : List Fired}
    (hv : ∀ k, acc.upd.lookup k = newVal (ctx W s).get F k) :
    (s.child acc.upd).get W.P = succGet (ctx W s).get F := by
  funext k
  have h := hv k
  show (s.child acc.upd).get W.P k = succGet (s.get W.P) F k
  change List.lookup k acc.upd = newVal (s.get W.P) F k at h
  unfold succGet
  rw [← h]
  simp only [SimState.get, SimState.child, lookup_append']
  cases acc.upd.lookup k <;> rfl

theorem checkPre_true {c : EvalCtx} : ∀ {pre : List Expr}, checkPre c pre = .ok true ↔ preOK c pre = true
  | [] => by simp [checkPre, preOK]
  | p :: ps => by
    have ih := @checkPre_true c ps
    simp only [checkPre, preOK, List.all_cons, Bool.and_eq_true] at ih ⊢
    cases hx : eval c [] p with
    | error x => simp [Spec.isTrue]
    | ok v =>
      cases v with
      | b x => cases x <;> simp [Spec.isTrue, ih]
      | n q => simp [Spec.isTrue]
      | o n => simp [Spec.isTrue]

theorem checkInvariants_true {c : EvalCtx} : ∀ {l : List Expr},
    checkInvariants c l = .ok true ↔ l.all (fun si => isTrueB (evalBool c si)) = true
  | [] => by simp [checkInvariants]
  | si :: sis => by
    have ih := @checkInvariants_true c sis
    simp only [checkInvariants, List.all_cons, Bool.and_eq_true]
    split
    · rename_i x hx; simp [hx, isTrueB]
    · rename_i hx; simp [hx, isTrueB]
    · rename_i hx; simp [hx, isTrueB, ih]

theorem checkInvariants_invOK {W : World} {c : EvalCtx} : checkInvariants c (invariants W) = .ok true ↔ invOK W c = true :=
  checkInvariants_true

/-- `apply_unsafe` against the declarative successor (no precondition part) -/
theorem applyUnsafe_spec (W : World) (s : SimState) (g : GAction) :
    match applyUnsafe W s g with
    | .ok s' => ∃ F, fired (ctx W s) (expandAll W.P g) = some F ∧ Cons (ctx W s).get F ∧
        s'.get W.P = succGet (ctx W s).get F ∧ invOK W (withGet (ctx W s) (succGet (ctx W s).get F)) = true
    | .error .conflict | .error .invalid | .error (.eval .missing) =>
        ∀ F, fired (ctx W s) (expandAll W.P g) = some F →
          ¬ (Cons (ctx W s).get F ∧ invOK W (withGet (ctx W s) (succGet (ctx W s).get F)) = true)
    | .error _ => True := by
  unfold applyUnsafe
  cases hf : foldEffects (ctx W s) (expandAll W.P g) Acc.empty with
  | error x =>
    have key : ∀ F, fired (ctx W s) (expandAll W.P g) = some F → ¬ Cons (ctx W s).get F := by
      intro F hF
      have h1 := foldEffects_of_fired (c := ctx W s) Acc.empty hF
      rw [hf] at h1
      have h2 := foldFired_spec (cur := (ctx W s).get) (fired_sorted hF)
      rw [← h1] at h2
      exact h2
    cases x with
    | conflict => intro F hF hC; exact key F hF hC.1
    | invalid => intro F hF hC; exact key F hF hC.1
    | eval e =>
      cases e with
      | missing => intro F hF hC; exact key F hF hC.1
      | zeroDiv => trivial
      | other => trivial
  | ok acc =>
    obtain ⟨F, hF⟩ := fired_of_foldEffects hf
    have h1 := foldEffects_of_fired (c := ctx W s) Acc.empty hF
    rw [hf] at h1
    have h2 := foldFired_spec (cur := (ctx W s).get) (fired_sorted hF)
    rw [← h1] at h2
    obtain ⟨hC, hv⟩ := h2
    have hget : (s.child acc.upd).get W.P = succGet (ctx W s).get F := child_get hv
    have hctx : ctx W (s.child acc.upd) = withGet (ctx W s) (succGet (ctx W s).get F) := by
      simp only [withGet, ← hget]; rfl
    dsimp only
    cases hi : checkInvariants (ctx W (s.child acc.upd)) (invariants W) with
    | error x =>
      have hn : ¬ (invOK W (withGet (ctx W s) (succGet (ctx W s).get F)) = true) := by
        rw [← hctx, ← checkInvariants_invOK, hi]; simp
      cases x with
      | missing =>
        intro F' hF' hh
        rw [hF] at hF'; cases hF'
        exact hn hh.2
      | zeroDiv => trivial
      | other => trivial
    | ok b =>
      cases b with
      | false =>
        have hn : ¬ (invOK W (withGet (ctx W s) (succGet (ctx W s).get F)) = true) := by
          rw [← hctx, ← checkInvariants_invOK, hi]; simp
        intro F' hF' hh
        rw [hF] at hF'; cases hF'
        exact hn hh.2
      | true =>
        refine ⟨F, hF, hC, hget, ?_⟩
        rw [← hctx, ← checkInvariants_invOK, hi]

theorem successorOf_some {W : World} {s : SimState} {pre : List Expr} {E : List Effect} {F : List Fired}
    (hp : preOK (ctx W s) pre = true) (hF : fired (ctx W s) E = some F)
    (hC : Cons (ctx W s).get F ∧ invOK W (withGet (ctx W s) (succGet (ctx W s).get F)) = true) :
    successorOf W s pre E = some (succGet (ctx W s).get F) := by
  unfold successorOf
  simp only [hp, hF, if_true]
  rw [if_pos hC]

theorem successorOf_none_pre {W : World} {s : SimState} {pre : List Expr} {E : List Effect}
    (hp : ¬ preOK (ctx W s) pre = true) : successorOf W s pre E = none := by
  unfold successorOf
  simp only [hp]; rfl

theorem successorOf_none_eff {W : World} {s : SimState} {pre : List Expr} {E : List Effect}
    (h : ∀ F, fired (ctx W s) E = some F →
      ¬ (Cons (ctx W s).get F ∧ invOK W (withGet (ctx W s) (succGet (ctx W s).get F)) = true)) :
    successorOf W s pre E = none := by
  unfold successorOf
  dsimp only
  split
  · cases hF : fired (ctx W s) E with
    | none => rfl
    | some F => dsimp only; rw [if_neg (h F hF)]
  · rfl

/-- `_apply` on a grounded action returns exactly the declarative successor whenever it returns -/
theorem applyGround_spec (W : World) (s : SimState) (g : GAction) (r : Option SimState)
    (h : catchFail none (applyGround W s g) = .ok r) : r.map (SimState.get W.P) = successor W s g := by
  unfold applyGround at h
  unfold successor
  cases hp : checkPre (ctx W s) g.pre with
  | error x =>
    rw [hp] at h
    have hnp : ¬ (preOK (ctx W s) g.pre = true) := by
      rw [← checkPre_true, hp]; simp
    rw [successorOf_none_pre hnp]
    cases x <;> simp [catchFail] at h
    subst h; rfl
  | ok b =>
    rw [hp] at h
    cases b with
    | false =>
      have hnp : ¬ (preOK (ctx W s) g.pre = true) := by
        rw [← checkPre_true, hp]; simp
      rw [successorOf_none_pre hnp]
      simp [catchFail] at h
      subst h; rfl
    | true =>
      have hpt := checkPre_true.1 hp
      have hu := applyUnsafe_spec W s g
      dsimp only at h
      cases ha : applyUnsafe W s g with
      | ok s' =>
        rw [ha] at h hu
        simp [catchFail] at h
        subst h
        obtain ⟨F, hF, hC, hget, hinv⟩ := hu
        rw [successorOf_some hpt hF ⟨hC, hinv⟩, Option.map_some, hget]
      | error x =>
        rw [ha] at h hu
        cases x with
        | conflict =>
          rw [successorOf_none_eff hu]
          simp [catchFail] at h; subst h; rfl
        | invalid =>
          rw [successorOf_none_eff hu]
          simp [catchFail] at h; subst h; rfl
        | eval e =>
          cases e with
          | missing =>
            rw [successorOf_none_eff hu]
            simp [catchFail] at h; subst h; rfl
          | zeroDiv => simp [catchFail] at h
          | other => simp [catchFail] at h

/-- `Sim.apply` returns exactly the declarative successor whenever it returns -/
theorem apply_eq_spec' (W : World) (s : SimState) (a : Action) (args : List String) (r : Option SimState)
    (h : Sim.apply W s a args = .ok r) : r.map (SimState.get W.P) = Spec.apply W s a args := by
  unfold Sim.apply applyRaw at h
  unfold Spec.apply
  cases hg : ground W a args with
  | error x =>
    rw [hg] at h
    cases x <;> simp [catchFail] at h
    subst h; rfl
  | ok og =>
    rw [hg] at h
    cases og with
    | none =>
      simp [catchFail] at h
      subst h; rfl
    | some g => exact applyGround_spec W s g r h

/-- the only exceptions that escape are the non-caught ones -/
theorem catchFail_not_missing {α : Type} {d : α} {x : Except Fail α} {e : EvalErr}
    (h : catchFail d x = .error e) : e ≠ .missing := by
  cases x with
  | ok v => simp [catchFail] at h
  | error f =>
    cases f with
    | conflict => simp [catchFail] at h
    | invalid => simp [catchFail] at h
    | eval e' =>
      cases e' <;> simp [catchFail] at h <;> (subst h; simp)

end UPVerif.Sim
