import UPVerif.Lemmas.LinearSpec
import UPVerif.Lemmas.SimplifyBasic
/-!
Helper lemmas for `Props/C17.lean`, part 4: the product / quotient clause.
* a linear result for an expression that contains a fluent application reports at least one fluent
  (`linWalk_good`);
* `is_linear` of a node implies `is_linear` of every sub-expression (`sub_lin`);
* `walk_times` answers "not linear" as soon as two arguments report fluents (`timesLoop_lin`), and
  `walk_div` as soon as the divisor does.
No Mathlib.
-/
namespace UPVerif.Lin
open Expr

/-- the result reports at least one fluent (`len(spf) > 0 or len(snf) > 0`) -/
def nonempty (r : LinRes) : Bool := !r.pos.isEmpty || !r.neg.isEmpty

theorem union_ne_nil_left {a b : List Expr} (h : a ≠ []) : union a b ≠ [] := by
  cases a with
  | nil => exact absurd rfl h
  | cons x xs => simp [union]

theorem union_ne_nil_right {a b : List Expr} (h : b ≠ []) : union a b ≠ [] := by
  cases a with
  | nil =>
    cases b with
    | nil => exact absurd rfl h
    | cons y ys => simp [union]
  | cons x xs => simp [union]

theorem isEmpty_false_iff {l : List Expr} : (!l.isEmpty) = true ↔ l ≠ [] := by
  cases l <;> simp

theorem nonempty_iff {r : LinRes} : nonempty r = true ↔ r.pos ≠ [] ∨ r.neg ≠ [] := by
  simp only [nonempty, Bool.or_eq_true, isEmpty_false_iff]

theorem unions_ne_nil : ∀ {ls : List (List Expr)} {l : List Expr}, l ∈ ls → l ≠ [] → unions ls ≠ []
  | [], _, h, _ => by cases h
  | x :: xs, l, h, hl => by
    simp only [unions]
    rcases List.mem_cons.1 h with rfl | hm
    · exact union_ne_nil_left hl
    · exact union_ne_nil_right (unions_ne_nil hm hl)

theorem nonempty_walkDefault {rs : List LinRes} {r : LinRes} (hm : r ∈ rs) (hn : nonempty r = true) :
    nonempty (walkDefault rs) = true := by
  rw [nonempty_iff] at hn ⊢
  simp only [walkDefault]
  rcases hn with h | h
  · exact .inl (unions_ne_nil (List.mem_map.2 ⟨r, hm, rfl⟩) h)
  · exact .inr (unions_ne_nil (List.mem_map.2 ⟨r, hm, rfl⟩) h)

theorem nonempty_bySign {s : Sign} {P N : List Expr} (h : P ≠ [] ∨ N ≠ []) :
    nonempty (bySign s P N) = true := by
  rw [nonempty_iff]
  cases s <;> simp only [bySign]
  · exact h
  · exact h.symm
  · rcases h with h | h
    · exact .inl (union_ne_nil_left h)
    · exact .inl (union_ne_nil_right h)

section
variable {E : TypeEnv}

/-- what the induction carries for a (sub-expression, result) pair -/
def Good (E : TypeEnv) (a : Expr) (r : LinRes) : Prop :=
  linWalk E a = .ok r ∧ (hasFluent a = true → r.lin = true → nonempty r = true)

theorem hasFluentList_mem : ∀ {es : List Expr}, hasFluentList es = true → ∃ e, e ∈ es ∧ hasFluent e = true
  | [], h => by simp [hasFluentList] at h
  | x :: xs, h => by
    simp only [hasFluentList, Bool.or_eq_true] at h
    rcases h with h | h
    · exact ⟨x, by simp, h⟩
    · obtain ⟨e, he, hf⟩ := hasFluentList_mem h
      exact ⟨e, List.mem_cons_of_mem _ he, hf⟩

theorem forall₂_mem_left {α β : Type} {R : α → β → Prop} : ∀ {as : List α} {bs : List β},
    Simp.All₂ R as bs → ∀ a, a ∈ as → ∃ b, b ∈ bs ∧ R a b
  | _, _, .nil, a, h => by cases h
  | _, _, .cons hab hrest, a, h => by
    rcases List.mem_cons.1 h with rfl | hm
    · exact ⟨_, by simp, hab⟩
    · obtain ⟨b, hb, hr⟩ := forall₂_mem_left hrest a hm
      exact ⟨b, List.mem_cons_of_mem _ hb, hr⟩

/-! ### `walk_times`: linear only if at most one argument reports fluents -/

theorem timesLoop_lin : ∀ {args : List Expr} {rs : List LinRes} {st st' : TimesSt},
    Simp.All₂ (Good E) args rs → timesLoop E st args rs = .ok st' → st'.lin = true →
    st.lin = true ∧ (if st.found then 1 else 0) + rs.countP nonempty ≤ 1 ∧ (∀ r, r ∈ rs → r.lin = true) ∧
      ((st.pos ≠ [] ∨ st.neg ≠ [] ∨ ∃ r, r ∈ rs ∧ nonempty r = true) → (st'.pos ≠ [] ∨ st'.neg ≠ []))
  | _, _, st, st', .nil, h, hl => by
    simp only [timesLoop, Except.ok.injEq] at h
    subst h
    refine ⟨hl, ?_, ?_, ?_⟩
    · cases st.found <;> simp
    · intro r hr; exact absurd hr (by simp)
    · rintro (h | h | ⟨r, hr, _⟩)
      · exact .inl h
      · exact .inr h
      · exact absurd hr (by simp)
  | _, _, st, st', .cons (a := a) (b := r) (as := as) (bs := rs) _ hrest, h, hl => by
    simp only [timesLoop] at h
    split at h
    · cases h
    · rename_i st1 hstep
      obtain ⟨h1, hc, hall, hne⟩ := timesLoop_lin hrest h hl
      unfold timesStep at hstep
      simp only [] at hstep
      split at hstep
      · rename_i hn
        simp only [Except.ok.injEq] at hstep
        subst hstep
        simp only [] at h1 hc hne
        have hn' : nonempty r = true := hn
        cases hf : st.found with
        | true => simp [hf] at h1
        | false =>
          simp only [hf, Bool.false_eq_true, ↓reduceIte, Bool.and_eq_true] at h1
          simp only [↓reduceIte] at hc
          refine ⟨h1.1, ?_, ?_, ?_⟩
          · simp only [Bool.false_eq_true, ↓reduceIte, List.countP_cons, hn']
            omega
          · intro r' hr'
            rcases List.mem_cons.1 hr' with rfl | hm
            · exact h1.2
            · exact hall r' hm
          · intro _
            apply hne
            rcases nonempty_iff.1 hn' with hp | hp
            · exact .inl (union_ne_nil_right hp)
            · exact .inr (.inl (union_ne_nil_right hp))
      · rename_i hn
        have hn' : nonempty r = false := by simpa [nonempty] using hn
        have key : ∀ st2 : TimesSt, st1 = st2 → st2.lin = (st.lin && r.lin) → st2.found = st.found →
            st2.pos = st.pos → st2.neg = st.neg →
            st.lin = true ∧ (if st.found then 1 else 0) + (r :: rs).countP nonempty ≤ 1 ∧
              (∀ r', r' ∈ r :: rs → r'.lin = true) ∧
              ((st.pos ≠ [] ∨ st.neg ≠ [] ∨ ∃ r', r' ∈ r :: rs ∧ nonempty r' = true) →
                (st'.pos ≠ [] ∨ st'.neg ≠ [])) := by
          intro st2 e5 e1 e2 e3 e4
          subst e5
          rw [e1, Bool.and_eq_true] at h1
          rw [e2] at hc
          rw [e3, e4] at hne
          refine ⟨h1.1, ?_, ?_, ?_⟩
          · simp only [List.countP_cons, hn']
            simpa using hc
          · intro r' hr'
            rcases List.mem_cons.1 hr' with rfl | hm
            · exact h1.2
            · exact hall r' hm
          · rintro (hp | hp | ⟨r', hr', hnr'⟩)
            · exact hne (.inl hp)
            · exact hne (.inr (.inl hp))
            · rcases List.mem_cons.1 hr' with rfl | hm
              · rw [hn'] at hnr'; cases hnr'
              · exact hne (.inr (.inr ⟨r', hm, hnr'⟩))
        split at hstep
        · cases hstep
        · simp only [Except.ok.injEq] at hstep
          exact key _ hstep.symm rfl rfl rfl rfl
        · simp only [Except.ok.injEq] at hstep
          exact key _ hstep.symm rfl rfl rfl rfl
        · simp only [Except.ok.injEq] at hstep
          exact key _ hstep.symm rfl rfl rfl rfl

/-- the final state of a linear `walk_times` -/
theorem walkTimes_lin {args : List Expr} {rs : List LinRes} {r : LinRes}
    (hg : Simp.All₂ (Good E) args rs) (hw : walkTimes E args rs = .ok r) (hl : r.lin = true) :
    rs.countP nonempty ≤ 1 ∧ (∀ r', r' ∈ rs → r'.lin = true) ∧
      ((∃ r', r' ∈ rs ∧ nonempty r' = true) → nonempty r = true) := by
  unfold walkTimes at hw
  split at hw
  · cases hw
  · rename_i st hloop
    cases hsl : st.lin with
    | false =>
      simp only [hsl, Bool.not_false, ↓reduceIte, Except.ok.injEq] at hw
      subst hw; cases hl
    | true =>
      obtain ⟨_, hc, hall, hne⟩ := timesLoop_lin hg hloop hsl
      refine ⟨by simpa [TimesSt.init] using hc, hall, ?_⟩
      intro hex
      have hst := hne (.inr (.inr hex))
      simp only [hsl, Bool.not_true, Bool.false_eq_true, ↓reduceIte] at hw
      split at hw
      · simp only [Except.ok.injEq] at hw; subst hw; exact nonempty_bySign hst
      · split at hw <;> (simp only [Except.ok.injEq] at hw; subst hw; exact nonempty_bySign hst)

/-! ### every node function: linear parent ⇒ linear children, fluents are reported -/

theorem walkOp_lin {op : Op} {args : List Expr} {rs : List LinRes} {r : LinRes}
    (hg : Simp.All₂ (Good E) args rs) (hw : walkOp E op args rs = .ok r) (hl : r.lin = true) :
    (∀ r', r' ∈ rs → r'.lin = true) ∧
      ((∃ r', r' ∈ rs ∧ nonempty r' = true) → nonempty r = true) := by
  have hdefault : walkDefault rs = r → (∀ r', r' ∈ rs → r'.lin = true) ∧
      ((∃ r', r' ∈ rs ∧ nonempty r' = true) → nonempty r = true) := by
    intro h
    subst h
    simp only [walkDefault, List.all_eq_true] at hl
    exact ⟨hl, fun ⟨r', hr', hn⟩ => nonempty_walkDefault hr' hn⟩
  cases op with
  | times =>
    simp only [walkOp] at hw
    obtain ⟨_, h2, h3⟩ := walkTimes_lin hg hw hl
    exact ⟨h2, h3⟩
  | div =>
    simp only [walkOp] at hw
    unfold walkDiv at hw
    split at hw
    · rename_i a d rn rd
      cases hb : (rn.lin && rd.lin && rd.pos.isEmpty && rd.neg.isEmpty) with
      | false =>
        simp only [hb, Bool.not_false, ↓reduceIte, Except.ok.injEq] at hw; subst hw; cases hl
      | true =>
        simp only [hb, Bool.not_true, Bool.false_eq_true, ↓reduceIte] at hw
        simp only [Bool.and_eq_true] at hb
        obtain ⟨⟨⟨hln, hld⟩, hdp⟩, hdn⟩ := hb
        split at hw
        · cases hw
        · simp only [Except.ok.injEq] at hw; subst hw
          refine ⟨?_, ?_⟩
          · intro r' hr'
            simp only [List.mem_cons, List.not_mem_nil, or_false] at hr'
            rcases hr' with rfl | rfl
            · exact hln
            · exact hld
          · rintro ⟨r', hr', hn⟩
            apply nonempty_bySign
            simp only [List.mem_cons, List.not_mem_nil, or_false] at hr'
            rcases hr' with rfl | rfl
            · rcases nonempty_iff.1 hn with h | h
              · exact .inl (union_ne_nil_left h)
              · exact .inr (union_ne_nil_left h)
            · exfalso
              simp [nonempty, hdp, hdn] at hn
    · cases hw
  | minus =>
    simp only [walkOp] at hw
    unfold walkMinus at hw
    split at hw
    · rename_i a b
      cases hb : (a.lin && b.lin) with
      | false =>
        simp only [hb, Bool.not_false, ↓reduceIte, Except.ok.injEq] at hw; subst hw; cases hl
      | true =>
        simp only [hb, Bool.not_true, Bool.false_eq_true, ↓reduceIte, Except.ok.injEq] at hw
        subst hw
        simp only [Bool.and_eq_true] at hb
        refine ⟨?_, ?_⟩
        · intro r' hr'
          simp only [List.mem_cons, List.not_mem_nil, or_false] at hr'
          rcases hr' with rfl | rfl
          · exact hb.1
          · exact hb.2
        · rintro ⟨r', hr', hn⟩
          rw [nonempty_iff]
          simp only [List.mem_cons, List.not_mem_nil, or_false] at hr'
          rcases hr' with rfl | rfl
          · rcases nonempty_iff.1 hn with h | h
            · exact .inl (union_ne_nil_left h)
            · exact .inr (union_ne_nil_left h)
          · rcases nonempty_iff.1 hn with h | h
            · exact .inr (union_ne_nil_right h)
            · exact .inl (union_ne_nil_right h)
    · cases hw
  | fluent f =>
    simp only [walkOp, Except.ok.injEq] at hw; subst hw
    simp only [walkFluent, List.all_eq_true] at hl
    exact ⟨hl, fun _ => by simp [nonempty, walkFluent]⟩
  | _ =>
    simp only [walkOp, Except.ok.injEq] at hw
    exact hdefault hw

mutual
theorem linWalk_good : ∀ (e : Expr) (r : LinRes), linWalk E e = .ok r → Good E e r
  | .leaf l, r, h => ⟨h, fun hf => by simp [hasFluent] at hf⟩
  | .app op args, r, h => by
    refine ⟨h, ?_⟩
    simp only [linWalk] at h
    split at h
    · cases h
    · rename_i rs hrs
      have hg := linWalkList_good args rs hrs
      intro hf hl
      obtain ⟨hall, hne⟩ := walkOp_lin hg h hl
      have hargs : hasFluentList args = true → nonempty r = true := by
        intro hfl
        obtain ⟨a, ha, hfa⟩ := hasFluentList_mem hfl
        obtain ⟨ra, hra, hga⟩ := forall₂_mem_left hg a ha
        exact hne ⟨ra, hra, hga.2 hfa (hall ra hra)⟩
      cases op with
      | fluent f =>
        simp only [walkOp, Except.ok.injEq] at h; subst h
        simp [nonempty, walkFluent]
      | _ => exact hargs (by simpa [hasFluent] using hf)
  | .quant q vs b, r, h => by
    refine ⟨h, ?_⟩
    simp only [linWalk] at h
    split at h
    · cases h
    · rename_i rb hrb
      simp only [Except.ok.injEq] at h; subst h
      intro hf hl
      have hg := linWalk_good b rb hrb
      simp only [walkDefault, List.all_cons, List.all_nil, Bool.and_true] at hl
      exact nonempty_walkDefault (r := rb) (by simp) (hg.2 (by simpa [hasFluent] using hf) hl)
theorem linWalkList_good : ∀ (es : List Expr) (rs : List LinRes), linWalkList E es = .ok rs →
    Simp.All₂ (Good E) es rs
  | [], rs, h => by
    simp only [linWalkList, Except.ok.injEq] at h
    subst h; exact .nil
  | e :: es, rs, h => by
    simp only [linWalkList] at h
    split at h
    · rename_i r rs' hr hrs'
      simp only [Except.ok.injEq] at h
      subst h
      exact .cons (linWalk_good e r hr) (linWalkList_good es rs' hrs')
    · cases h
    · cases h
end

/-- `is_linear` of an expression implies `is_linear` of each of its sub-expressions -/
theorem sub_lin {s e : Expr} (hs : Sub s e) : ∀ {r : LinRes}, linWalk E e = .ok r → r.lin = true →
    ∃ r', linWalk E s = .ok r' ∧ r'.lin = true := by
  induction hs with
  | refl => intro r h hl; exact ⟨r, h, hl⟩
  | app ha _ ih =>
    intro r h hl
    simp only [linWalk] at h
    split at h
    · cases h
    · rename_i rs hrs
      have hg := linWalkList_good _ rs hrs
      obtain ⟨hall, _⟩ := walkOp_lin hg h hl
      obtain ⟨ra, hra, hga⟩ := forall₂_mem_left hg _ ha
      exact ih hga.1 (hall ra hra)
  | quant _ ih =>
    intro r h hl
    simp only [linWalk] at h
    split at h
    · cases h
    · rename_i rb hrb
      simp only [Except.ok.injEq] at h; subst h
      simp only [walkDefault, List.all_cons, List.all_nil, Bool.and_true] at hl
      exact ih hrb hl

theorem forall₂_append_left {α β : Type} {R : α → β → Prop} : ∀ {xs ys : List α} {bs : List β},
    Simp.All₂ R (xs ++ ys) bs → ∃ b1 b2, bs = b1 ++ b2 ∧ Simp.All₂ R xs b1 ∧ Simp.All₂ R ys b2
  | [], ys, bs, h => ⟨[], bs, rfl, .nil, h⟩
  | x :: xs, ys, _, .cons hab hrest => by
    obtain ⟨b1, b2, rfl, h1, h2⟩ := forall₂_append_left hrest
    exact ⟨_ :: b1, b2, rfl, .cons hab h1, h2⟩

/-- a product node with two fluent-dependent factors is not linear -/
theorem times_two_not_lin {pre mid post : List Expr} {a b : Expr} {r : LinRes}
    (h : linWalk E (.app .times (pre ++ a :: (mid ++ b :: post))) = .ok r)
    (ha : hasFluent a = true) (hb : hasFluent b = true) : r.lin = false := by
  rw [Bool.eq_false_iff]
  intro hl
  simp only [linWalk] at h
  split at h
  · cases h
  · rename_i rs hrs
    have hg := linWalkList_good _ rs hrs
    simp only [walkOp] at h
    obtain ⟨hc, hall, _⟩ := walkTimes_lin hg h hl
    obtain ⟨r1, r2, rfl, _, h2⟩ := forall₂_append_left hg
    cases h2 with
    | cons hga h2' =>
      obtain ⟨r3, r4, rfl, _, h4⟩ := forall₂_append_left h2'
      cases h4 with
      | cons hgb _ =>
        have hna := hga.2 ha (hall _ (by simp))
        have hnb := hgb.2 hb (hall _ (by simp))
        simp only [List.countP_append, List.countP_cons, hna, hnb, ↓reduceIte] at hc
        omega

/-- a quotient node with a fluent-dependent divisor is not linear -/
theorem div_divisor_not_lin {a d : Expr} {r : LinRes}
    (h : linWalk E (.app .div [a, d]) = .ok r) (hd : hasFluent d = true) : r.lin = false := by
  rw [Bool.eq_false_iff]
  intro hl
  simp only [linWalk] at h
  split at h
  · cases h
  · rename_i rs hrs
    have hg := linWalkList_good _ rs hrs
    cases hg with
    | cons hga hrest =>
      cases hrest with
      | cons hgd hnil =>
        cases hnil
        rename_i rn rd
        simp only [walkOp] at h
        unfold walkDiv at h
        simp only [] at h
        cases hb : (rn.lin && rd.lin && rd.pos.isEmpty && rd.neg.isEmpty) with
        | false =>
          simp only [hb, Bool.not_false, ↓reduceIte, Except.ok.injEq] at h; subst h; cases hl
        | true =>
          simp only [Bool.and_eq_true] at hb
          obtain ⟨⟨⟨_, hld⟩, hdp⟩, hdn⟩ := hb
          have := hgd.2 hd hld
          simp [nonempty, hdp, hdn] at this

end
end UPVerif.Lin
