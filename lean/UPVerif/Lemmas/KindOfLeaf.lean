import UPVerif.Lemmas.KindOfLift
/-! Helper lemmas for `Props/C10.lean`: the innermost statement that sets each feature. -/
namespace UPVerif.KindOf
open UPVerif UPVerif.Spec

variable {F : Facts} {P : KProblem} {S : SU} {u : List FluentDecl} {f : Feature}

/-! #### types and parameters -/

theorem updType_flat {n : String} : Sets "FLAT_TYPING" (updType P (.user n)) :=
  .seq (p := .set "FLAT_TYPING") (by mem_lit) .set

theorem updType_hier {n : String} (h : P.types.father n ≠ none) : Sets "HIERARCHICAL_TYPING" (updType P (.user n)) :=
  .seq (p := .when (P.types.father n).isSome (.set "HIERARCHICAL_TYPING")) (by mem_lit)
    (.when' (by cases hf : P.types.father n with
                | none => exact absurd hf h
                | some _ => rfl) .set)

theorem updParam_bool : Sets "BOOL_ACTION_PARAMETERS" (updParam P .bool) :=
  .seq (p := .set "BOOL_ACTION_PARAMETERS") (by mem_lit) .set

theorem updParam_real {lb ub : Option Rat} : Sets "REAL_ACTION_PARAMETERS" (updParam P (.real lb ub)) :=
  .seq (p := .set "REAL_ACTION_PARAMETERS") (by mem_lit) .set

theorem updParam_bounded {lb ub : Int} :
    Sets "BOUNDED_INT_ACTION_PARAMETERS" (updParam P (.int (some lb) (some ub))) :=
  .seq (p := .set "BOUNDED_INT_ACTION_PARAMETERS") (by mem_lit) .set

theorem updParam_unbounded {lb ub : Option Int} (h : lb = none ∨ ub = none) :
    Sets "UNBOUNDED_INT_ACTION_PARAMETERS" (updParam P (.int lb ub)) := by
  have hc : (lb.isNone || ub.isNone) = true := by rcases h with rfl | rfl <;> simp
  refine .seq (p := .set "UNBOUNDED_INT_ACTION_PARAMETERS") ?_ .set
  simp only [updParam, hc, if_true]
  mem_lit

/-! #### fluents -/

theorem updFluent_int {d : FluentDecl} {lb ub : Option Int} (ht : d.ref.ty = .int lb ub)
    (hg : (!S.unused.contains d.ref || (!S.inDurations.contains d.ref && !S.inCosts.contains d.ref)) = true) :
    Sets "INT_FLUENTS" (updFluent P S d) := by
  refine .seq (p := .seq [.when (lb.isSome || ub.isSome) (.set "BOUNDED_TYPES"),
    .when (!S.unused.contains d.ref || (!S.inDurations.contains d.ref && !S.inCosts.contains d.ref)) (.set "INT_FLUENTS")]) ?_
    (.seq (p := .when _ (.set "INT_FLUENTS")) (by mem_lit) (.when' hg .set))
  simp only [ht]
  mem_lit

theorem updFluent_real {d : FluentDecl} {lb ub : Option Rat} (ht : d.ref.ty = .real lb ub)
    (hg : (!S.unused.contains d.ref || (!S.inDurations.contains d.ref && !S.inCosts.contains d.ref)) = true) :
    Sets "REAL_FLUENTS" (updFluent P S d) := by
  refine .seq (p := .seq [.when (lb.isSome || ub.isSome) (.set "BOUNDED_TYPES"),
    .when (!S.unused.contains d.ref || (!S.inDurations.contains d.ref && !S.inCosts.contains d.ref)) (.set "REAL_FLUENTS")]) ?_
    (.seq (p := .when _ (.set "REAL_FLUENTS")) (by mem_lit) (.when' hg .set))
  simp only [ht]
  mem_lit

theorem isSome_or_of_ne {α : Type} {lb ub : Option α} (h : lb ≠ none ∨ ub ≠ none) : (lb.isSome || ub.isSome) = true := by
  rcases h with h | h
  · cases lb with
    | none => exact absurd rfl h
    | some _ => rfl
  · cases ub with
    | none => exact absurd rfl h
    | some _ => simp

theorem updFluent_boundedInt {d : FluentDecl} {lb ub : Option Int} (ht : d.ref.ty = .int lb ub)
    (hb : lb ≠ none ∨ ub ≠ none) : Sets "BOUNDED_TYPES" (updFluent P S d) := by
  refine .seq (p := .seq [.when (lb.isSome || ub.isSome) (.set "BOUNDED_TYPES"),
    .when (!S.unused.contains d.ref || (!S.inDurations.contains d.ref && !S.inCosts.contains d.ref)) (.set "INT_FLUENTS")]) ?_
    (.seq (p := .when _ (.set "BOUNDED_TYPES")) (by mem_lit) (.when' (isSome_or_of_ne hb) .set))
  simp only [ht]
  mem_lit

theorem updFluent_boundedReal {d : FluentDecl} {lb ub : Option Rat} (ht : d.ref.ty = .real lb ub)
    (hb : lb ≠ none ∨ ub ≠ none) : Sets "BOUNDED_TYPES" (updFluent P S d) := by
  refine .seq (p := .seq [.when (lb.isSome || ub.isSome) (.set "BOUNDED_TYPES"),
    .when (!S.unused.contains d.ref || (!S.inDurations.contains d.ref && !S.inCosts.contains d.ref)) (.set "REAL_FLUENTS")]) ?_
    (.seq (p := .when _ (.set "BOUNDED_TYPES")) (by mem_lit) (.when' (isSome_or_of_ne hb) .set))
  simp only [ht]
  mem_lit

theorem updFluent_object {d : FluentDecl} {n : String} (ht : d.ref.ty = .user n) :
    Sets "OBJECT_FLUENTS" (updFluent P S d) := by
  refine .seq (p := .set "OBJECT_FLUENTS") ?_ .set
  simp only [ht]
  mem_lit

theorem updFluent_boolParam {d : FluentDecl} (h : Ty.bool ∈ d.ref.sig) :
    Sets "BOOL_FLUENT_PARAMETERS" (updFluent P S d) :=
  .seq (p := .seq (d.ref.sig.map (fun pt => .seq [updType P pt,
      (match pt with
       | .bool => .set "BOOL_FLUENT_PARAMETERS"
       | .int _ _ => .set "BOUNDED_INT_FLUENT_PARAMETERS"
       | _ => .skip)]))) (by mem_lit)
    (.seq (List.mem_map.2 ⟨.bool, h, rfl⟩) (.seq (p := .set "BOOL_FLUENT_PARAMETERS") (by mem_lit) .set))

theorem updFluent_intParam {d : FluentDecl} {lb ub : Option Int} (h : Ty.int lb ub ∈ d.ref.sig) :
    Sets "BOUNDED_INT_FLUENT_PARAMETERS" (updFluent P S d) :=
  .seq (p := .seq (d.ref.sig.map (fun pt => .seq [updType P pt,
      (match pt with
       | .bool => .set "BOOL_FLUENT_PARAMETERS"
       | .int _ _ => .set "BOUNDED_INT_FLUENT_PARAMETERS"
       | _ => .skip)]))) (by mem_lit)
    (.seq (List.mem_map.2 ⟨.int lb ub, h, rfl⟩) (.seq (p := .set "BOUNDED_INT_FLUENT_PARAMETERS") (by mem_lit) .set))

/-! #### conditions -/

theorem contains_of_mem {t : NodeKind} {l : List NodeKind} (h : t ∈ l) : l.contains t = true := by
  simpa using h

theorem updExpr_eq {e : Expr} (h : NodeKind.equals ∈ opsOf e) : Sets "EQUALITIES" (updExpr F e) :=
  .seq (p := .when ((opsOf e).contains .equals) (.set "EQUALITIES")) (by mem_lit) (.when' (contains_of_mem h) .set)

theorem updExpr_not {e : Expr} (h : NodeKind.not ∈ opsOf e) : Sets "NEGATIVE_CONDITIONS" (updExpr F e) :=
  .seq (p := .when ((opsOf e).contains .not) (.set "NEGATIVE_CONDITIONS")) (by mem_lit) (.when' (contains_of_mem h) .set)

theorem updExpr_disj {e : Expr} (h : NodeKind.or ∈ opsOf e ∨ NodeKind.implies ∈ opsOf e) :
    Sets "DISJUNCTIVE_CONDITIONS" (updExpr F e) :=
  .seq (p := .when ((opsOf e).contains .or || (opsOf e).contains .implies) (.set "DISJUNCTIVE_CONDITIONS")) (by mem_lit)
    (.when' (by rcases h with h | h <;> rw [contains_of_mem h] <;> simp) .set)

theorem updExpr_ex {e : Expr} (h : NodeKind.exists ∈ opsOf e) : Sets "EXISTENTIAL_CONDITIONS" (updExpr F e) :=
  .seq (p := .when ((opsOf e).contains .exists) (.set "EXISTENTIAL_CONDITIONS")) (by mem_lit)
    (.when' (contains_of_mem h) .set)

theorem updExpr_all {e : Expr} (h : NodeKind.forall ∈ opsOf e) : Sets "UNIVERSAL_CONDITIONS" (updExpr F e) :=
  .seq (p := .when ((opsOf e).contains .forall) (.set "UNIVERSAL_CONDITIONS")) (by mem_lit)
    (.when' (contains_of_mem h) .set)

/-! #### effects -/

theorem updEffect_conditional {e : Effect} (hc : e.cond ≠ Expr.tt) : Sets "CONDITIONAL_EFFECTS" (updEffect F P S e) :=
  .seq (p := .when e.isConditional (.seq [updExpr F e.cond, .set "CONDITIONAL_EFFECTS",
      .when (targetIsNum e.fluent) .unsetSNP])) (by mem_lit)
    (.when' (isConditional_of_ne hc) (.seq (p := .set "CONDITIONAL_EFFECTS") (by mem_lit) .set))

theorem updEffect_forall {e : Effect} (h : e.forall_ ≠ []) : Sets "FORALL_EFFECTS" (updEffect F P S e) :=
  .seq (p := .when (!e.forall_.isEmpty) (.seq (.set "FORALL_EFFECTS" :: e.forall_.map (fun v => updType P v.ty))))
    (by mem_lit) (.when' (by simpa using h) (.seq List.mem_cons_self .set))

/-- the kind-specific third statement of `updEffect` -/
def effKindProg (S : SU) (e : Effect) : Prog :=
  let value := e.value
  let fiv := fluentRefs value
  let ops := opsOf value
  let numAssign : Prog := fluentsIn S fiv "STATIC_FLUENTS_IN_NUMERIC_ASSIGNMENTS" "FLUENTS_IN_NUMERIC_ASSIGNMENTS"
  let incdec (feat : Feature) : Prog := .seq [
      .set feat,
      .when (ops.contains .ifun) (.seq [.unsetSNP, .set "INTERPRETED_FUNCTIONS_IN_NUMERIC_ASSIGNMENTS"]),
      .when (!isNumConst value) (.seq [.unsetSNP, numAssign]) ]
  match e.kind with
  | .increase => incdec "INCREASE_EFFECTS"
  | .decrease => incdec "DECREASE_EFFECTS"
  | .assign =>
    match tcOf value with
    | .int | .real => .seq [
        .when (ops.contains .ifun) (.seq [.unsetSNP, .set "INTERPRETED_FUNCTIONS_IN_NUMERIC_ASSIGNMENTS"]),
        .when (!value.isConstant) .unsetSNP,
        numAssign ]
    | .bool => .seq [
        .when (ops.contains .ifun) (.set "INTERPRETED_FUNCTIONS_IN_BOOLEAN_ASSIGNMENTS"),
        fluentsIn S fiv "STATIC_FLUENTS_IN_BOOLEAN_ASSIGNMENTS" "FLUENTS_IN_BOOLEAN_ASSIGNMENTS" ]
    | .user => .seq [
        .when (ops.contains .ifun) (.set "INTERPRETED_FUNCTIONS_IN_OBJECT_ASSIGNMENTS"),
        fluentsIn S fiv "STATIC_FLUENTS_IN_OBJECT_ASSIGNMENTS" "FLUENTS_IN_OBJECT_ASSIGNMENTS" ]
    | _ => .skip

theorem updEffect_kind {e : Effect} (h : Sets f (effKindProg S e)) : Sets f (updEffect F P S e) :=
  .seq (p := effKindProg S e) (by unfold effKindProg; mem_lit) h

theorem updEffect_increase {e : Effect} (h : e.kind = .increase) : Sets "INCREASE_EFFECTS" (updEffect F P S e) := by
  refine updEffect_kind ?_
  simp only [effKindProg, h]
  exact .seq (p := .set "INCREASE_EFFECTS") (by mem_lit) .set

theorem updEffect_decrease {e : Effect} (h : e.kind = .decrease) : Sets "DECREASE_EFFECTS" (updEffect F P S e) := by
  refine updEffect_kind ?_
  simp only [effKindProg, h]
  exact .seq (p := .set "DECREASE_EFFECTS") (by mem_lit) .set

theorem fluentsIn_dyn {fs : List FluentRef} {g : FluentRef} {a b : Feature} (hm : g ∈ fs)
    (hs : S.static.contains g = false) : Sets b (fluentsIn S fs a b) :=
  .seq (p := .when (fs.any (fun f => !S.static.contains f)) (.set b)) (by mem_lit)
    (.when' (List.any_eq_true.2 ⟨g, hm, by rw [hs]; rfl⟩) .set)

theorem fluentsIn_static {fs : List FluentRef} {g : FluentRef} {a b : Feature} (hm : g ∈ fs)
    (hs : S.static.contains g = true) : Sets a (fluentsIn S fs a b) :=
  .seq (p := .when (fs.any (fun f => S.static.contains f)) (.set a)) (by mem_lit)
    (.when' (List.any_eq_true.2 ⟨g, hm, hs⟩) .set)

theorem isNumConst_false_of_mem {v : Expr} {g : FluentRef} (h : g ∈ fluentRefs v) : isNumConst v = false := by
  cases v with
  | leaf l => simp [fluentRefs] at h
  | app _ _ => rfl
  | quant _ _ _ => rfl

/-- numeric assignments: either fluent feature, given where the `fluentsIn` pair sets it -/
theorem updEffect_numeric {e : Effect} {g : FluentRef} (hn : NumericAssignment e) (hm : g ∈ fluentRefs e.value)
    (h : Sets f (fluentsIn S (fluentRefs e.value) "STATIC_FLUENTS_IN_NUMERIC_ASSIGNMENTS" "FLUENTS_IN_NUMERIC_ASSIGNMENTS")) :
    Sets f (updEffect F P S e) := by
  refine updEffect_kind ?_
  have hc : (!isNumConst e.value) = true := by simp [isNumConst_false_of_mem hm]
  rcases hn with hk | hk | ⟨hk, ht | ht⟩
  · simp only [effKindProg, hk]
    exact .seq (p := .when (!isNumConst e.value) (.seq [.unsetSNP, fluentsIn S (fluentRefs e.value) _ _])) (by mem_lit)
      (.when' hc (.seq (p := fluentsIn S (fluentRefs e.value) _ _) (by mem_lit) h))
  · simp only [effKindProg, hk]
    exact .seq (p := .when (!isNumConst e.value) (.seq [.unsetSNP, fluentsIn S (fluentRefs e.value) _ _])) (by mem_lit)
      (.when' hc (.seq (p := fluentsIn S (fluentRefs e.value) _ _) (by mem_lit) h))
  · simp only [effKindProg, hk, ht]
    exact .seq (p := fluentsIn S (fluentRefs e.value) _ _) (by mem_lit) h
  · simp only [effKindProg, hk, ht]
    exact .seq (p := fluentsIn S (fluentRefs e.value) _ _) (by mem_lit) h

theorem updEffect_boolean {e : Effect} (hk : e.kind = .assign) (ht : tcOf e.value = .bool)
    (h : Sets f (fluentsIn S (fluentRefs e.value) "STATIC_FLUENTS_IN_BOOLEAN_ASSIGNMENTS" "FLUENTS_IN_BOOLEAN_ASSIGNMENTS")) :
    Sets f (updEffect F P S e) := by
  refine updEffect_kind ?_
  simp only [effKindProg, hk, ht]
  exact .seq (p := fluentsIn S (fluentRefs e.value) _ _) (by mem_lit) h

theorem updEffect_object {e : Effect} (hk : e.kind = .assign) (ht : tcOf e.value = .user)
    (h : Sets f (fluentsIn S (fluentRefs e.value) "STATIC_FLUENTS_IN_OBJECT_ASSIGNMENTS" "FLUENTS_IN_OBJECT_ASSIGNMENTS")) :
    Sets f (updEffect F P S e) := by
  refine updEffect_kind ?_
  simp only [effKindProg, hk, ht]
  exact .seq (p := fluentsIn S (fluentRefs e.value) _ _) (by mem_lit) h

/-! #### continuous effects -/

theorem contLoop_inc {ces : List CEff} {e : CEff} (he : e ∈ ces) (hk : e.kind = .inc) :
    Sets "INCREASE_CONTINUOUS_EFFECTS" (contLoop F ces) :=
  .seq (p := .seq (ces.map (fun e => match e.kind with
      | .inc => .set "INCREASE_CONTINUOUS_EFFECTS"
      | .dec => .set "DECREASE_CONTINUOUS_EFFECTS"))) (by mem_lit)
    (.seq (List.mem_map.2 ⟨e, he, rfl⟩) (by simp only [hk]; exact .set))

theorem contLoop_dec {ces : List CEff} {e : CEff} (he : e ∈ ces) (hk : e.kind = .dec) :
    Sets "DECREASE_CONTINUOUS_EFFECTS" (contLoop F ces) :=
  .seq (p := .seq (ces.map (fun e => match e.kind with
      | .inc => .set "INCREASE_CONTINUOUS_EFFECTS"
      | .dec => .set "DECREASE_CONTINUOUS_EFFECTS"))) (by mem_lit)
    (.seq (List.mem_map.2 ⟨e, he, rfl⟩) (by simp only [hk]; exact .set))

theorem sets_of_ceffect {e : CEff} (he : CEffectOf P e)
    (h : ∀ ces, e ∈ ces → Sets f (contLoop F ces)) : Sets f (kindProg F P S u) := by
  cases he with
  | daction ha hm => exact kind_dact ha (dact_cont (h _ (List.mem_map.2 ⟨_, hm, rfl⟩)))
  | process ha hm => exact kind_proc ha (proc_cont (h _ hm))

/-! #### durations -/

theorem updDuration_fluents {lo hi : Expr} {g : FluentRef} (hm : g ∈ fluentRefs lo ++ fluentRefs hi)
    (h : Sets f (fluentsIn S (fluentRefs lo ++ fluentRefs hi) "STATIC_FLUENTS_IN_DURATIONS" "FLUENTS_IN_DURATIONS")) :
    Sets f (updDuration S lo hi) :=
  .seq (p := .when (!(fluentRefs lo ++ fluentRefs hi).isEmpty) (fluentsIn S (fluentRefs lo ++ fluentRefs hi) _ _))
    (by mem_lit)
    (.when' (by cases hl : fluentRefs lo ++ fluentRefs hi with
                | nil => simp [hl] at hm
                | cons _ _ => rfl) h)

/-! #### trajectory constraints, metrics, initial state -/

theorem updTraj_always {args : List Expr} : Sets "STATE_INVARIANTS" (updTraj F (.app .always args)) :=
  .seq (p := .set "STATE_INVARIANTS") (by mem_lit) .set

theorem updTraj_other {tc : Expr} (h : ∀ args, tc ≠ .app .always args) :
    Sets "TRAJECTORY_CONSTRAINTS" (updTraj F tc) := by
  refine .seq (p := .set "TRAJECTORY_CONSTRAINTS") ?_ .set
  split
  · exact absurd rfl (h _)
  · mem_lit

theorem updMetric_cost {cs : List (String × Expr)} {d : Option Expr} :
    Sets "ACTIONS_COST" (updMetric F S (.minActionCosts cs d)) := .seq List.mem_cons_self .set
theorem updMetric_length : Sets "PLAN_LENGTH" (updMetric F S .minLength) := .set
theorem updMetric_makespan : Sets "MAKESPAN" (updMetric F S .makespan) := .set
theorem updMetric_minFinal {e : Expr} : Sets "FINAL_VALUE" (updMetric F S (.minFinal e)) :=
  .seq (p := .set "FINAL_VALUE") (by mem_lit) .set
theorem updMetric_maxFinal {e : Expr} : Sets "FINAL_VALUE" (updMetric F S (.maxFinal e)) :=
  .seq (p := .set "FINAL_VALUE") (by mem_lit) .set
theorem updMetric_oversub {gs : List (Expr × Rat)} : Sets "OVERSUBSCRIPTION" (updMetric F S (.oversub gs)) :=
  .seq (p := .set "OVERSUBSCRIPTION") (by mem_lit) .set
theorem updMetric_toversub {gs : List (Interval × Expr × Rat)} :
    Sets "TEMPORAL_OVERSUBSCRIPTION" (updMetric F S (.toversub gs)) :=
  .seq (p := .set "TEMPORAL_OVERSUBSCRIPTION") (by mem_lit) .set

theorem undefFluents_mem {d : FluentDecl} {g : Int} (hd0 : d.default = none)
    (hg : groundSize P d.ref.sig = some g) (hne : g ≠ initCount P d.ref) :
    ∀ (ds us : List FluentDecl), undefFluents P ds = some us → d ∈ ds → d ∈ us
  | [], _, _, hm => by cases hm
  | x :: xs, us, hu, hm => by
    unfold undefFluents at hu
    by_cases hx : x.default.isSome = true
    · rw [if_pos hx] at hu
      rcases List.mem_cons.1 hm with rfl | hm'
      · simp [hd0] at hx
      · exact undefFluents_mem hd0 hg hne xs us hu hm'
    · rw [if_neg hx] at hu
      cases hgx : groundSize P x.ref.sig with
      | none => simp [hgx] at hu
      | some gx =>
        cases hr : undefFluents P xs with
        | none => simp [hgx, hr] at hu
        | some rest =>
          simp only [hgx, hr, Option.bind_eq_bind, Option.bind_some, Option.some.injEq] at hu
          rcases List.mem_cons.1 hm with rfl | hm'
          · rw [hg] at hgx
            cases hgx
            have : (g != initCount P d.ref) = true := by simpa using hne
            rw [this] at hu
            subst hu
            exact List.mem_cons_self
          · have ih := undefFluents_mem hd0 hg hne xs rest hr hm'
            subst hu
            split
            · exact List.mem_cons_of_mem _ ih
            · exact ih

theorem updInit_num {d : FluentDecl} (hd : d ∈ u) (ht : tyIsNum d.ref.ty = true) :
    Sets "UNDEFINED_INITIAL_NUMERIC" (updInit u) :=
  .seq (List.mem_map.2 ⟨d, hd, rfl⟩) (by simp only [ht, if_true]; exact .set)

theorem updInit_sym {d : FluentDecl} (hd : d ∈ u) (ht : tyIsNum d.ref.ty = false) :
    Sets "UNDEFINED_INITIAL_SYMBOLIC" (updInit u) :=
  .seq (List.mem_map.2 ⟨d, hd, rfl⟩) (by simp only [ht]; exact .set)

end UPVerif.KindOf
