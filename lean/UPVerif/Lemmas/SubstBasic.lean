import UPVerif.Core.Walkers.Substitute
/-!
Basic facts about the substitution walker (Core/Walkers/Substitute.lean) that do not need the
declarative spec: association-list lookups (`Subst` is a Python dict as a list) and the unfolding
equations of `subst` — use these instead of unfolding the definition.
-/
namespace UPVerif.Expr

/-! ### association lists -/

theorem lookup_filter_key (p : Expr → Bool) (k : Expr) : ∀ σ : Subst,
    (σ.filter (fun kv => p kv.1)).lookup k = if p k then σ.lookup k else none
  | [] => by simp [List.lookup]
  | (k', v') :: σ => by
    have ih := lookup_filter_key p k σ
    by_cases hk : (k == k') = true
    · have hkk : k = k' := by simpa using hk
      subst hkk
      by_cases hp : p k = true
      · simp [List.filter, hp, List.lookup]
      · have hp' : p k = false := by simpa using hp
        simp only [List.filter, hp', ih]
        simp
    · have hk' : (k == k') = false := by simpa using hk
      by_cases hp : p k' = true
      · simp only [List.filter, hp, List.lookup, hk', ih]
      · have hp' : p k' = false := by simpa using hp
        simp only [List.filter, hp', List.lookup, hk', ih]

theorem lookup_eq_none_iff_forall (σ : Subst) (k : Expr) :
    σ.lookup k = none ↔ ∀ kv ∈ σ, kv.1 ≠ k := by
  induction σ with
  | nil => simp [List.lookup]
  | cons p σ ih =>
    obtain ⟨k', v'⟩ := p
    by_cases hk : (k == k') = true
    · have hkk : k = k' := by simpa using hk
      subst hkk
      simp [List.lookup]
    · have hk' : (k == k') = false := by simpa using hk
      have hne : k' ≠ k := fun h => by subst h; simp at hk'
      simp only [List.lookup, hk', ih, List.mem_cons, forall_eq_or_imp]
      exact ⟨fun h => ⟨hne, h⟩, fun h => h.2⟩

theorem mem_of_lookup_eq_some (σ : Subst) (k v : Expr) (h : σ.lookup k = some v) : (k, v) ∈ σ := by
  induction σ with
  | nil => simp [List.lookup] at h
  | cons p σ ih =>
    obtain ⟨k', v'⟩ := p
    by_cases hk : (k == k') = true
    · have hkk : k = k' := by simpa using hk
      subst hkk
      simp only [List.lookup, beq_self_eq_true, Option.some.injEq] at h
      subst h
      exact List.mem_cons_self
    · have hk' : (k == k') = false := by simpa using hk
      simp only [List.lookup, hk'] at h
      exact List.mem_cons_of_mem _ (ih h)

/-! ### unfolding equations of the walker -/

theorem subst_of_lookup_some (σ : Subst) (e v : Expr) (h : σ.lookup e = some v) : subst σ e = v := by
  cases e <;> simp [subst, h]

theorem subst_leaf_none (σ : Subst) (l : Leaf) (h : σ.lookup (.leaf l) = none) :
    subst σ (.leaf l) = .leaf l := by
  simp [subst, h, walkReplaceOrIdentity, identityNode]

theorem subst_app_none (σ : Subst) (op : Op) (args : List Expr) (h : σ.lookup (.app op args) = none) :
    subst σ (.app op args) = rebuild op (substList σ args) := by
  simp [subst, h, walkReplaceOrIdentity, identityNode]

theorem subst_quant_none (σ : Subst) (q : Quant) (vs : List Var) (b : Expr)
    (h : σ.lookup (.quant q vs b) = none) :
    subst σ (.quant q vs b)
      = .quant q vs (if (keptUnder vs σ).isEmpty then b else subst (keptUnder vs σ) b) := by
  simp [subst, h, walkReplaceOrIdentity, identityNode]

theorem substList_nil (σ : Subst) : substList σ [] = [] := by rw [substList]
theorem substList_cons (σ : Subst) (e : Expr) (es : List Expr) :
    substList σ (e :: es) = subst σ e :: substList σ es := by rw [substList]

end UPVerif.Expr
