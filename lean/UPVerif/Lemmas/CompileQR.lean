import UPVerif.Lemmas.CompileQREff
import UPVerif.Lemmas.CompileBTRInit
/-!
`QuantifiersRemover` as an identity simulation: under strict definedness of the original problem's expressions in
its reachable states, every step of a compiled action IS the step of the original action (same state, same
successor), both ways — soundness and completeness with the same plan length.
-/
namespace UPVerif.Compile
open UPVerif UPVerif.Expr UPVerif.Sim UPVerif.Spec UPVerif.Simp UPVerif.Simulation

/-- strict definedness of an action in a state: its preconditions have values, and — where they hold — so do the
    instances of its effects -/
structure DefAct (simp : Expr → Expr) (W : World) (g : St) (a : Action) : Prop where
  pre : ∀ p ∈ a.pre, DefAt W g p
  effs : preOK (ctxOf W g) a.pre = true → ∀ x ∈ expandEffs W.P a.effs, DefEff simp W g x

/-- the states the original problem can reach -/
def Reach (W : World) (g : St) : Prop := ∃ g0 π, initOf W = some g0 ∧ (tsOf W).run g0 π = some g

theorem Reach.init {W : World} {g : St} (h : initOf W = some g) : Reach W g := ⟨g, [], h, rfl⟩

theorem Reach.step {W : World} {g g' : St} {i : Nat} (h : Reach W g) (hs : (tsOf W).step g i = some g') :
    Reach W g' := by
  obtain ⟨g0, π, h0, hr⟩ := h
  refine ⟨g0, π ++ [i], h0, ?_⟩
  rw [run_append, hr]
  simp [TS.run, hs]

/-- an invariant of the original problem's transition system holds in every reachable state -/
theorem Reach.inv {W : World} {D : St → Prop} (h0 : ∀ g, initOf W = some g → D g)
    (hstep : ∀ g i g', D g → (tsOf W).step g i = some g' → D g') {g : St} (h : Reach W g) : D g := by
  obtain ⟨g0, π, hi, hr⟩ := h
  have : ∀ (π : List Nat) (g1 g2 : St), D g1 → (tsOf W).run g1 π = some g2 → D g2 := by
    intro π
    induction π with
    | nil => intro g1 g2 h1 hr; simp [TS.run] at hr; subst hr; exact h1
    | cons i π ih =>
      intro g1 g2 h1 hr
      simp only [TS.run] at hr
      cases hs : (tsOf W).step g1 i with
      | none => rw [hs] at hr; cases hr
      | some g' => rw [hs] at hr; exact ih g' g2 (hstep g1 i g' h1 hs) hr
  exact this π g0 g (h0 g0 hi) hr

/-- hypotheses of the QuantifiersRemover theorems -/
structure QrOK (simp : Expr → Expr) (W : World) (c : Compiled) : Prop where
  /-- the simplifier preserves defined values (the form C11 proves) and introduces no quantifier -/
  simpOK : SimpDen simp
  /-- no quantifier binds a variable twice -/
  nodupPre : ∀ a ∈ W.P.actions, ∀ p ∈ a.pre, qNodup p = true
  nodupEff : ∀ a ∈ W.P.actions, ∀ x ∈ expandEffs W.P a.effs, qNodup x.cond = true ∧ qNodup x.value = true
  nodupGoal : ∀ e ∈ W.P.goals, qNodup e = true
  /-- no `Always` constraint, before or after (StateInvariantsRemover's subject) -/
  noAlways : stateInvariants W.P = []
  noAlwaysC : stateInvariants c.prob = []
  /-- in every reachable state of the original problem the actions and the goals are strictly defined -/
  defined : ∀ g, Reach W g → (∀ a ∈ W.P.actions, a.params.isEmpty = true → DefAct simp W g a) ∧
    ∀ e ∈ W.P.goals, DefAt W g e

theorem mapM_getElem {α β : Type} {f : α → Option β} : ∀ {l : List α} {r : List β}, l.mapM f = some r →
    ∀ i : Nat, (l[i]?).bind f = r[i]? ∧ (r[i]?.isSome → l[i]?.isSome) ∧ (l[i]?.isSome → r[i]?.isSome)
  | [], r, h, i => by
    simp at h; subst h; simp
  | x :: xs, r, h, i => by
    rw [List.mapM_cons] at h
    cases hx : f x with
    | none => rw [hx] at h; cases h
    | some b =>
      cases hxs : xs.mapM f with
      | none => rw [hx, hxs] at h; cases h
      | some bs =>
        rw [hx, hxs] at h
        have : r = b :: bs := by cases h; rfl
        subst this
        cases i with
        | zero => simp [hx]
        | succ j => simpa using mapM_getElem hxs j

/-- what `qrCompile` returns -/
theorem qrCompile_some {simp : Expr → Expr} {P : Problem} {c : Compiled} (h : qrCompile simp P = some c) :
    SameSig c.prob P ∧ c.prob.init = P.init ∧
    c.prob.goals = (P.goals.map (removeQuantifiers P)).foldl addGoal [] ∧
    (∀ (i : Nat) (a' : Action), c.prob.actions[i]? = some a' → ∃ a : Action, backOf c i = some i ∧
        P.actions[i]? = some a ∧ qrAction simp P a = some a') ∧
    (∀ (i : Nat) (a : Action), P.actions[i]? = some a → ∃ a' : Action, c.prob.actions[i]? = some a' ∧
        backOf c i = some i ∧ qrAction simp P a = some a') := by
  unfold qrCompile at h
  split at h
  · cases h
  rename_i acts hm
  cases h
  have hback : ∀ (i : Nat) (a' : Action), acts[i]? = some a' →
      backOf ⟨{ P with actions := acts,
                       goals := (P.goals.map (removeQuantifiers P)).foldl addGoal [],
                       traj := (P.traj.flatMap (fun tc => splitAnd (removeQuantifiers P tc))).map simp },
              (List.range acts.length).map some⟩ i = some i := by
    intro i a' hi
    have hlt : i < acts.length := by
      rcases Nat.lt_or_ge i acts.length with h | h
      · exact h
      · rw [List.getElem?_eq_none h] at hi; cases hi
    unfold backOf
    simp [hlt]
  refine ⟨⟨rfl, rfl, rfl⟩, rfl, rfl, ?_, ?_⟩
  · intro i a' hi
    obtain ⟨h1, h2, _⟩ := mapM_getElem hm i
    have hi' : acts[i]? = some a' := hi
    rw [hi'] at h1 h2
    cases ha : P.actions[i]? with
    | none => rw [ha] at h2; exact absurd (h2 rfl) (by simp)
    | some a =>
      rw [ha] at h1
      exact ⟨a, hback i a' hi', rfl, h1⟩
  · intro i a ha
    obtain ⟨h1, _, h3⟩ := mapM_getElem hm i
    rw [ha] at h1 h3
    simp only [Option.bind_some] at h1
    cases hacts : acts[i]? with
    | none => rw [hacts] at h3; exact absurd (h3 rfl) (by simp)
    | some a' =>
      rw [hacts] at h1
      exact ⟨a', rfl, hback i a' hacts, h1⟩

/-- what `qrAction` returns -/
theorem qrAction_some {simp : Expr → Expr} {P : Problem} {a a' : Action} (h : qrAction simp P a = some a') :
    a' = { a with pre := (a.pre.map (removeQuantifiers P)).foldl addPre [], effs := qrEffects simp P a.effs } := by
  unfold qrAction at h
  dsimp only at h
  split at h
  · cases h
  · cases h; rfl

theorem expandEffect_forall (P : Problem) (e : Effect) : ∀ x ∈ expandEffect P e, x.forall_ = [] := by
  intro x hx
  unfold expandEffect at hx
  split at hx
  · rename_i he
    simp only [List.mem_singleton] at hx
    subst hx
    simpa using he
  · rw [List.mem_map] at hx
    obtain ⟨objs, _, rfl⟩ := hx
    rfl

theorem qrEffects_forall (simp : Expr → Expr) (P : Problem) (effs : List Effect) :
    ∀ y ∈ qrEffects simp P effs, y.forall_ = [] := by
  intro y hy
  rw [qrEffects_eq, List.mem_filterMap] at hy
  obtain ⟨x, hx, hq⟩ := hy
  unfold expandEffs at hx
  rw [List.mem_flatMap] at hx
  obtain ⟨e, _, hxe⟩ := hx
  have hfx := expandEffect_forall P e x hxe
  unfold qrEff at hq
  dsimp only at hq
  by_cases hf : (if x.isConditional = true then simp (removeQuantifiers P x.cond) else x.cond).isFalse = true
  · rw [if_pos hf] at hq; cases hq
  · rw [if_neg hf] at hq
    cases hq
    exact hfx

section
variable {simp : Expr → Expr} {W : World} {c : Compiled}

/-- the invariants checked on successors are the same before and after (the bounded types) -/
theorem qr_invOK (hok : QrOK simp W c) (hsig : SameSig c.prob W.P) (g : St) :
    invOK (withProblem W c.prob) (ctxOf (withProblem W c.prob) g) = invOK W (ctxOf W g) := by
  rw [invOK_compiled hsig hok.noAlwaysC, invOK_bounds hok.noAlways]

/-- THE STEP LEMMA: in a state where the original action is strictly defined, the compiled action's step is the
    original action's step -/
theorem qr_step_eq (hok : QrOK simp W c) (hsig : SameSig c.prob W.P) {a a' : Action} (ha : a ∈ W.P.actions)
    (hq : qrAction simp W.P a = some a') {g : St} (hd : DefAct simp W g a) :
    stepAct (withProblem W c.prob) g a' = stepAct W g a := by
  rw [qrAction_some hq]
  unfold stepAct
  dsimp only
  by_cases hp : a.params.isEmpty = true
  · simp only [hp, if_true]
    have hQ : (withProblem W c.prob).P = c.prob := rfl
    rw [hQ, expandEffs_noForall c.prob _ (qrEffects_forall simp W.P a.effs)]
    have hpre : preOK (ctxOf W g) ((a.pre.map (removeQuantifiers W.P)).foldl addPre []) = preOK (ctxOf W g) a.pre := by
      rw [preOK_foldl_addPre, preOK_rq (fun p hp' => ⟨hok.nodupPre a ha p hp', hd.pre p hp'⟩)]
      simp [preOK]
    unfold succOf
    dsimp only
    rw [hsig.ctxOf W rfl, hpre]
    by_cases hpo : preOK (ctxOf W g) a.pre = true
    · simp only [hpo, if_true]
      rw [qrEffects_eq, fired_qr hok.simpOK _ (fun x hx => ⟨hok.nodupEff a ha x hx, hd.effs hpo x hx⟩)]
      cases fired (ctxOf W g) (expandEffs W.P a.effs) with
      | none => rfl
      | some F =>
        dsimp only
        rw [qr_invOK hok hsig]
    · simp [hpo]
  · simp [hp]

theorem qr_goal_eq (hok : QrOK simp W c) (hsig : SameSig c.prob W.P)
    (hg : c.prob.goals = (W.P.goals.map (removeQuantifiers W.P)).foldl addGoal []) {g : St}
    (hd : ∀ e ∈ W.P.goals, DefAt W g e) : goalOK (withProblem W c.prob) g = goalOK W g := by
  unfold goalOK
  have hQ : (withProblem W c.prob).P = c.prob := rfl
  rw [hQ, hg]
  have e1 : ∀ e, holdsG (withProblem W c.prob) g e = Spec.isTrue (eval (ctxOf W g) [] e) := by
    intro e; unfold holdsG; rw [isTrueB_evalBool, hsig.ctxOf W rfl]
  have e2 : ∀ e, holdsG W g e = Spec.isTrue (eval (ctxOf W g) [] e) := by
    intro e; unfold holdsG; rw [isTrueB_evalBool]
  rw [List.all_congr rfl e1, List.all_congr rfl e2, all_foldl_addGoal _ (isTrue_tt _), List.all_nil, Bool.true_and]
  have := preOK_rq (W := W) (g := g) (l := W.P.goals) (fun p hp => ⟨hok.nodupGoal p hp, hd p hp⟩)
  unfold preOK at this
  exact this

theorem qr_init_eq (hok : QrOK simp W c) (hsig : SameSig c.prob W.P) (hi : c.prob.init = W.P.init) :
    initOf (withProblem W c.prob) = initOf W := by
  unfold initOf
  have e1 : initialState? (withProblem W c.prob).P = initialState? W.P := by
    unfold initialState?
    have : (withProblem W c.prob).P = c.prob := rfl
    rw [this, hi]
  rw [e1]
  cases initialState? W.P with
  | none => rfl
  | some s0 =>
    dsimp only
    have e2 : s0.get (withProblem W c.prob).P = s0.get W.P := by
      funext k
      unfold SimState.get
      have : (withProblem W c.prob).P = c.prob := rfl
      rw [this, defaultOf_congr hsig.fluents]
    rw [e2, qr_invOK hok hsig]

/-- QuantifiersRemover is a FORWARD simulation (identity on states): soundness -/
theorem qr_fwd (W : World) {c : Compiled} (hc : qrCompile simp W.P = some c) (hok : QrOK simp W c) :
    Fwd (tsOf W) (tsOf (withProblem W c.prob)) (backOf c) (fun gB gA => gB = gA ∧ Reach W gA) (fun _ => True) := by
  obtain ⟨hsig, hinit, hgoals, hfw, _⟩ := qrCompile_some hc
  refine ⟨?_, ?_, ?_, ?_, ?_, ?_⟩
  · intro sB hB _
    have : initOf W = some sB := by rw [← qr_init_eq hok hsig hinit]; exact hB
    exact ⟨sB, this, rfl, Reach.init this⟩
  · intro _ _; trivial
  · intro _ _ _ _; trivial
  · intro sB sA b sB' ao hR hstep _ hb
    obtain ⟨rfl, hreach⟩ := hR
    obtain ⟨a', ha', hst⟩ := tsOf_step hstep
    obtain ⟨a, hbi, hao, hq⟩ := hfw b a' ha'
    rw [hb] at hbi; cases hbi
    have hmem := List.mem_of_getElem? hao
    have hpar : a.params.isEmpty = true := by
      have hp' : a'.params = a.params := by rw [qrAction_some hq]
      unfold stepAct at hst
      rw [hp'] at hst
      cases hpe : a.params.isEmpty with
      | true => rfl
      | false => rw [hpe] at hst; simp at hst
    have hd := (hok.defined sB hreach).1 a hmem hpar
    rw [qr_step_eq hok hsig hmem hq hd] at hst
    have hA : (tsOf W).step sB b = some sB' := by rw [tsOf_step_intro hao]; exact hst
    exact ⟨sB', hA, rfl, hreach.step hA⟩
  · intro sB sA b sB' hR hstep _ hb
    obtain ⟨a', ha', _⟩ := tsOf_step hstep
    obtain ⟨a, hbi, _⟩ := hfw b a' ha'
    rw [hb] at hbi; cases hbi
  · intro sB sA hR hg
    obtain ⟨rfl, hreach⟩ := hR
    have : goalOK (withProblem W c.prob) sB = true := hg
    rw [qr_goal_eq hok hsig hgoals (hok.defined sB hreach).2] at this
    exact this

/-- QuantifiersRemover is a BACKWARD simulation: completeness with the same plan length -/
theorem qr_bwd (W : World) {c : Compiled} (hc : qrCompile simp W.P = some c) (hok : QrOK simp W c) :
    Bwd (tsOf W) (tsOf (withProblem W c.prob)) (backOf c) (fun gB gA => gB = gA ∧ Reach W gA) 0 := by
  obtain ⟨hsig, hinit, hgoals, _, hbw⟩ := qrCompile_some hc
  refine ⟨?_, ?_, ?_⟩
  · intro sA hA
    refine ⟨sA, ?_, rfl, Reach.init hA⟩
    show initOf (withProblem W c.prob) = some sA
    rw [qr_init_eq hok hsig hinit]; exact hA
  · intro sB sA i sA' hR hstep
    obtain ⟨rfl, hreach⟩ := hR
    obtain ⟨a, ha, hst⟩ := tsOf_step hstep
    obtain ⟨a', ha', hbi, hq⟩ := hbw i a ha
    have hmem := List.mem_of_getElem? ha
    have hpar : a.params.isEmpty = true := by
      unfold stepAct at hst
      cases hpe : a.params.isEmpty with
      | true => rfl
      | false => rw [hpe] at hst; simp at hst
    have hd := (hok.defined sB hreach).1 a hmem hpar
    refine ⟨i, sA', hbi, ?_, rfl, hreach.step hstep⟩
    rw [tsOf_step_intro ha', qr_step_eq hok hsig hmem hq hd]
    exact hst
  · intro sB sA hR hg
    obtain ⟨rfl, hreach⟩ := hR
    refine ⟨[], sB, Nat.le_refl _, rfl, rfl, ?_⟩
    show goalOK (withProblem W c.prob) sB = true
    rw [qr_goal_eq hok hsig hgoals (hok.defined sB hreach).2]
    exact hg

end

end UPVerif.Compile
