import UPVerif.Lemmas.KindOfComplete
import UPVerif.Spec.UsesExt
/-! Helper lemmas for `Props/C10Ext.lean`, shared by the four subclasses:
    * `uses_sets_of` — `uses_sets` for ANY static / unused-fluent table that is sound for the problem
      (the subclasses compute their own);
    * inversion of `Sets` (which `set` statement a program certainly executes), used to carry a
      `set` from one program to another one that contains the same statements. -/
namespace UPVerif.KindOf
open UPVerif UPVerif.Spec

/-- what `kindProg` needs of the static / unused-fluent table to be complete -/
structure SoundSU (P : KProblem) (S : SU) : Prop where
  static_of : ∀ {f : FluentRef}, Static P f → S.static.contains f = true
  written_of : ∀ {f : FluentRef}, Written P f → S.static.contains f = false
  guard : ∀ {f : FluentRef}, NeedsFluentType P f →
    (!S.unused.contains f || (!S.inDurations.contains f && !S.inCosts.contains f)) = true

theorem soundSU_staticUnused (P : KProblem) : SoundSU P (staticUnused P) :=
  ⟨static_of_Static, not_static_of_Written, fluentType_guard⟩

/-- removing fluents from `unused` keeps the table sound -/
theorem SoundSU.shrink_unused {P : KProblem} {S : SU} (h : SoundSU P S) (p : FluentRef → Bool) :
    SoundSU P { S with unused := S.unused.filter p } := by
  refine ⟨h.static_of, h.written_of, ?_⟩
  intro f hn
  have hg := h.guard hn
  by_cases hu : S.unused.contains f = true
  · simp only [hu, Bool.not_true, Bool.false_or] at hg
    show (!(S.unused.filter p).contains f || (!S.inDurations.contains f && !S.inCosts.contains f)) = true
    rw [hg]
    exact Bool.or_true _
  · have : (S.unused.filter p).contains f = false := by
      simp only [List.contains_eq_mem, List.mem_filter, decide_eq_false_iff_not, not_and]
      intro hm
      exact absurd (by simpa using hm) hu
    show (!(S.unused.filter p).contains f || (!S.inDurations.contains f && !S.inCosts.contains f)) = true
    rw [this]
    rfl

/-- a fluent that was removed from `unused` passes the INT/REAL_FLUENTS guard -/
theorem guard_of_removed {S : SU} {p : FluentRef → Bool} {f : FluentRef} (hp : p f = false) :
    (!(S.unused.filter p).contains f || (!S.inDurations.contains f && !S.inCosts.contains f)) = true := by
  have : (S.unused.filter p).contains f = false := by
    simp only [List.contains_eq_mem, List.mem_filter, decide_eq_false_iff_not, not_and]
    intro _
    simp [hp]
  rw [this]
  rfl

variable {F : Facts} {P : KProblem} {S : SU} {u : List FluentDecl} {f : Feature}

/-- `uses_sets` for any sound table; `hU` is only asked for the two undefined-initial-value features -/
theorem uses_sets_of (hS : SoundSU P S)
    (hU : ∀ {d : FluentDecl} {g : Int}, d ∈ P.fluents → d.default = none → groundSize P d.ref.sig = some g →
      g ≠ initCount P d.ref → d ∈ u)
    (h : Uses P f) : Sets f (kindProg F P S u) := by
  cases h with
  | flatTyping ht => exact sets_of_typeUse ht updType_flat
  | hierarchicalTyping ht hf => exact sets_of_typeUse ht (updType_hier hf)
  | intFluents hd ht hn => exact kind_fluent hd (updFluent_int ht (hS.guard hn))
  | realFluents hd ht hn => exact kind_fluent hd (updFluent_real ht (hS.guard hn))
  | objectFluents hd ht => exact kind_fluent hd (updFluent_object ht)
  | boolFluentParameters hd hs => exact kind_fluent hd (updFluent_boolParam hs)
  | boundedIntFluentParameters hd hs => exact kind_fluent hd (updFluent_intParam hs)
  | boolActionParameters hp => exact sets_of_param hp updParam_bool
  | realActionParameters hp => exact sets_of_param hp updParam_real
  | boundedIntActionParameters hp => exact sets_of_param hp updParam_bounded
  | unboundedIntActionParameters hp hb => exact sets_of_param hp (updParam_unbounded hb)
  | boundedIntType hd ht hb => exact kind_fluent hd (updFluent_boundedInt ht hb)
  | boundedRealType hd ht hb => exact kind_fluent hd (updFluent_boundedReal ht hb)
  | negativeConditions hc hs => exact sets_of_cond hc (updExpr_not (sub_ops hs))
  | disjunctiveConditionsOr hc hs => exact sets_of_cond hc (updExpr_disj (Or.inl (sub_ops hs)))
  | disjunctiveConditionsImplies hc hs => exact sets_of_cond hc (updExpr_disj (Or.inr (sub_ops hs)))
  | equalities hc hs => exact sets_of_cond hc (updExpr_eq (sub_ops hs))
  | existentialConditions hc hs => exact sets_of_cond hc (updExpr_ex (sub_ops hs))
  | universalConditions hc hs => exact sets_of_cond hc (updExpr_all (sub_ops hs))
  | conditionalEffects he hc => exact sets_of_effect he (updEffect_conditional hc)
  | forallEffects he hf => exact sets_of_effect he (updEffect_forall hf)
  | increaseEffects he hk => exact sets_of_effect he (updEffect_increase hk)
  | decreaseEffects he hk => exact sets_of_effect he (updEffect_decrease hk)
  | increaseContinuousEffects he hk => exact sets_of_ceffect he (fun _ hm => contLoop_inc hm hk)
  | decreaseContinuousEffects he hk => exact sets_of_ceffect he (fun _ hm => contLoop_dec hm hk)
  | fluentsInNumericAssignments he hn hm hw =>
    have hm' := mentions_fluentRefs hm
    exact sets_of_effect he (updEffect_numeric hn hm' (fluentsIn_dyn hm' (hS.written_of hw)))
  | staticFluentsInNumericAssignments he hn hm hs =>
    have hm' := mentions_fluentRefs hm
    exact sets_of_effect he (updEffect_numeric hn hm' (fluentsIn_static hm' (hS.static_of hs)))
  | fluentsInBooleanAssignments he hk ht hm hw =>
    exact sets_of_effect he (updEffect_boolean hk ht (fluentsIn_dyn (mentions_fluentRefs hm) (hS.written_of hw)))
  | staticFluentsInBooleanAssignments he hk ht hm hs =>
    exact sets_of_effect he (updEffect_boolean hk ht (fluentsIn_static (mentions_fluentRefs hm) (hS.static_of hs)))
  | fluentsInObjectAssignments he hk ht hm hw =>
    exact sets_of_effect he (updEffect_object hk ht (fluentsIn_dyn (mentions_fluentRefs hm) (hS.written_of hw)))
  | staticFluentsInObjectAssignments he hk ht hm hs =>
    exact sets_of_effect he (updEffect_object hk ht (fluentsIn_static (mentions_fluentRefs hm) (hS.static_of hs)))
  | fluentsInDurations hd hw =>
    obtain ⟨a, ha, hm⟩ := hd
    have hm' := durationMem hm
    exact kind_dact ha (dact_duration (updDuration_fluents hm' (fluentsIn_dyn hm' (hS.written_of hw))))
  | staticFluentsInDurations hd hs =>
    obtain ⟨a, ha, hm⟩ := hd
    have hm' := durationMem hm
    exact kind_dact ha (dact_duration (updDuration_fluents hm' (fluentsIn_static hm' (hS.static_of hs))))
  | timedEffects h => exact kind_timedEffects h
  | timedGoals h => exact kind_timedGoals h
  | stateInvariants hm => exact kind_traj hm updTraj_always
  | trajectoryConstraints hm hn => exact kind_traj hm (updTraj_other hn)
  | actionsCost hm => exact kind_metric hm updMetric_cost
  | planLength hm => exact kind_metric hm updMetric_length
  | finalValueMin hm => exact kind_metric hm updMetric_minFinal
  | finalValueMax hm => exact kind_metric hm updMetric_maxFinal
  | oversubscription hm => exact kind_metric hm updMetric_oversub
  | makespan hm => exact kind_metric hm updMetric_makespan
  | temporalOversubscription hm => exact kind_metric hm updMetric_toversub
  | undefinedInitialNumeric hd h0 hg hne ht => exact kind_init (updInit_num (hU hd h0 hg hne) ht)
  | undefinedInitialSymbolic hd h0 hg hne ht => exact kind_init (updInit_sym (hU hd h0 hg hne) ht)

/-- the undefined fluents the model computes contain every fluent the specification calls undefined -/
theorem undef_complete (hu : undefFluents P P.fluents = some u) {d : FluentDecl} {g : Int} (hd : d ∈ P.fluents)
    (h0 : d.default = none) (hg : groundSize P d.ref.sig = some g) (hne : g ≠ initCount P d.ref) : d ∈ u :=
  undefFluents_mem h0 hg hne _ _ hu hd

/-! ### inversion of `Sets` -/

theorem Sets.set_inv {g : Feature} (h : Sets f (.set g)) : f = g := by
  cases h; rfl

theorem Sets.unset_inv (h : Sets f .unsetSNP) : False := by
  cases h

theorem Sets.when_inv {c : Bool} {p : Prog} (h : Sets f (.when c p)) : c = true ∧ Sets f p := by
  cases h with
  | when hp => exact ⟨rfl, hp⟩

theorem Sets.seq_inv {ps : List Prog} (h : Sets f (.seq ps)) : ∃ p, p ∈ ps ∧ Sets f p := by
  cases h with
  | seq hm hp => exact ⟨_, hm, hp⟩

theorem Sets.skip_inv (h : Sets f Prog.skip) : False := by
  obtain ⟨p, hm, _⟩ := Sets.seq_inv h
  cases hm

theorem Sets.map_inv {α : Type} {l : List α} {g : α → Prog} (h : Sets f (.seq (l.map g))) :
    ∃ a, a ∈ l ∧ Sets f (g a) := by
  obtain ⟨p, hm, hp⟩ := Sets.seq_inv h
  obtain ⟨a, ha, rfl⟩ := List.mem_map.1 hm
  exact ⟨a, ha, hp⟩

theorem Sets.cons_inv {p : Prog} {ps : List Prog} (h : Sets f (.seq (p :: ps))) : Sets f p ∨ Sets f (.seq ps) := by
  obtain ⟨q, hm, hq⟩ := Sets.seq_inv h
  rcases List.mem_cons.1 hm with rfl | hm'
  · exact Or.inl hq
  · exact Or.inr (.seq hm' hq)

theorem Sets.nil_inv (h : Sets f (.seq [])) : False := Sets.skip_inv h

theorem Sets.ite_inv {c : Prop} [Decidable c] {p q : Prog} (h : Sets f (if c then p else q)) :
    Sets f p ∨ Sets f q := by
  split at h
  · exact Or.inl h
  · exact Or.inr h

/-- building: the head / the tail of a `seq` -/
theorem Sets.head {p : Prog} {ps : List Prog} (h : Sets f p) : Sets f (.seq (p :: ps)) := .seq List.mem_cons_self h

theorem Sets.tail {p : Prog} {ps : List Prog} (h : Sets f (.seq ps)) : Sets f (.seq (p :: ps)) := by
  obtain ⟨q, hm, hq⟩ := Sets.seq_inv h
  exact .seq (List.mem_cons_of_mem _ hm) hq

theorem Sets.map_of {α : Type} {l : List α} {g : α → Prog} {a : α} (ha : a ∈ l) (h : Sets f (g a)) :
    Sets f (.seq (l.map g)) := .seq (List.mem_map.2 ⟨a, ha, rfl⟩) h

/-! ### the statements of `updExpr` that set a feature of the statement -/

/-- the five condition features, as `_update_problem_kind_condition` / the first five `if`s of
    `update_problem_kind_expression` set them -/
def condProg (e : Expr) : Prog :=
  let ops := opsOf e
  .seq [
    .when (ops.contains .equals) (.set "EQUALITIES"),
    .when (ops.contains .not) (.set "NEGATIVE_CONDITIONS"),
    .when (ops.contains .or || ops.contains .implies) (.set "DISJUNCTIVE_CONDITIONS"),
    .when (ops.contains .exists) (.set "EXISTENTIAL_CONDITIONS"),
    .when (ops.contains .forall) (.set "UNIVERSAL_CONDITIONS") ]

/-- `updExpr` sets nothing but the five condition features and INTERPRETED_FUNCTIONS_IN_CONDITIONS -/
theorem updExpr_inv {e : Expr} (h : Sets f (updExpr F e)) :
    Sets f (condProg e) ∨ f = "INTERPRETED_FUNCTIONS_IN_CONDITIONS" := by
  unfold updExpr at h
  rcases Sets.cons_inv h with h | h
  · exact Or.inl (Sets.head h)
  rcases Sets.cons_inv h with h | h
  · exact Or.inl (Sets.tail (Sets.head h))
  rcases Sets.cons_inv h with h | h
  · exact Or.inl (Sets.tail (Sets.tail (Sets.head h)))
  rcases Sets.cons_inv h with h | h
  · exact Or.inl (Sets.tail (Sets.tail (Sets.tail (Sets.head h))))
  rcases Sets.cons_inv h with h | h
  · exact Or.inl (Sets.tail (Sets.tail (Sets.tail (Sets.tail (Sets.head h)))))
  rcases Sets.cons_inv h with h | h
  · obtain ⟨_, h⟩ := Sets.when_inv h
    rcases Sets.cons_inv h with h | h
    · exact (Sets.unset_inv h).elim
    rcases Sets.cons_inv h with h | h
    · exact Or.inr (Sets.set_inv h)
    · exact (Sets.nil_inv h).elim
  rcases Sets.cons_inv h with h | h
  · obtain ⟨_, h⟩ := Sets.when_inv h
    exact (Sets.unset_inv h).elim
  · exact (Sets.nil_inv h).elim

theorem condProg_updExpr {e : Expr} (h : Sets f (condProg e)) : Sets f (updExpr F e) := by
  unfold condProg at h
  unfold updExpr
  rcases Sets.cons_inv h with h | h
  · exact Sets.head h
  rcases Sets.cons_inv h with h | h
  · exact Sets.tail (Sets.head h)
  rcases Sets.cons_inv h with h | h
  · exact Sets.tail (Sets.tail (Sets.head h))
  rcases Sets.cons_inv h with h | h
  · exact Sets.tail (Sets.tail (Sets.tail (Sets.head h)))
  rcases Sets.cons_inv h with h | h
  · exact Sets.tail (Sets.tail (Sets.tail (Sets.tail (Sets.head h))))
  · exact (Sets.nil_inv h).elim

/-! ### stability of the features of the specifications -/

theorem classFeatures_stable : ∀ g ∈ classFeatures, g ≠ SNP ∧ g ≠ "CONTINUOUS_TIME" := by
  decide

theorem statementFeatures_not_class : ∀ g ∈ statementFeatures,
    g ≠ "ACTION_BASED" ∧ g ≠ "INTERPRETED_FUNCTIONS_IN_CONDITIONS" := by
  decide

end UPVerif.KindOf
