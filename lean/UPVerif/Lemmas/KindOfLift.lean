import UPVerif.Lemmas.KindOfStatic
/-! Helper lemmas for `Props/C10.lean`: where each `set` of the kind program sits (`Sets`), lifted
    from the innermost statement to `kindProg` along the positions of the specification. -/
namespace UPVerif.KindOf
open UPVerif UPVerif.Spec

variable {F : Facts} {P : KProblem} {S : SU} {u : List FluentDecl} {f : Feature}

/-! #### slots of `kindProg` -/

theorem kind_metric {m : KMetric} (hm : m ∈ P.metrics) (h : Sets f (updMetric F S m)) : Sets f (kindProg F P S u) :=
  .seq (p := .seq (P.metrics.map (updMetric F S))) (by mem_lit) (.seq (List.mem_map_of_mem hm) h)

theorem kind_fluent {d : FluentDecl} (hd : d ∈ P.fluents) (h : Sets f (updFluent P S d)) : Sets f (kindProg F P S u) :=
  .seq (p := .seq (P.fluents.map (updFluent P S))) (by mem_lit) (.seq (List.mem_map_of_mem hd) h)

theorem kind_object {o : String × String} (ho : o ∈ P.objects) (h : Sets f (updType P (.user o.2))) :
    Sets f (kindProg F P S u) :=
  .seq (p := .seq (P.objects.map (fun o => updType P (.user o.2)))) (by mem_lit)
    (.seq (List.mem_map.2 ⟨o, ho, rfl⟩) h)

theorem kind_iact {a : IAct} (ha : a ∈ P.iactions) (h : Sets f (updIAct F P S a)) : Sets f (kindProg F P S u) :=
  .seq (p := .seq (P.iactions.map (updIAct F P S))) (by mem_lit) (.seq (List.mem_map_of_mem ha) h)

theorem kind_dact {a : DAct} (ha : a ∈ P.dactions) (h : Sets f (updDAct F P S a)) : Sets f (kindProg F P S u) :=
  .seq (p := .seq (P.dactions.map (updDAct F P S))) (by mem_lit) (.seq (List.mem_map_of_mem ha) h)

theorem kind_proc {p : Proc} (ha : p ∈ P.processes) (h : Sets f (updProc F P p)) : Sets f (kindProg F P S u) :=
  .seq (p := .seq (P.processes.map (updProc F P))) (by mem_lit) (.seq (List.mem_map_of_mem ha) h)

theorem kind_evt {ev : Evt} (ha : ev ∈ P.events) (h : Sets f (updEvt F P S ev)) : Sets f (kindProg F P S u) :=
  .seq (p := .seq (P.events.map (updEvt F P S))) (by mem_lit) (.seq (List.mem_map_of_mem ha) h)

theorem kind_teff {te : Timing × Effect} (ha : te ∈ P.timedEffects) (h : Sets f (updEffect F P S te.2)) :
    Sets f (kindProg F P S u) :=
  .seq (p := .seq (P.timedEffects.map (fun te => updEffect F P S te.2))) (by mem_lit)
    (.seq (List.mem_map.2 ⟨te, ha, rfl⟩) h)

theorem kind_timedEffects (h : P.timedEffects ≠ []) : Sets "TIMED_EFFECTS" (kindProg F P S u) :=
  .seq (p := .when (!P.timedEffects.isEmpty) (.seq [.set "CONTINUOUS_TIME", .set "TIMED_EFFECTS"])) (by mem_lit)
    (.when' (by simpa using h) (.seq (p := .set "TIMED_EFFECTS") (by mem_lit) .set))

theorem kind_timedGoals (h : P.timedGoals ≠ []) : Sets "TIMED_GOALS" (kindProg F P S u) :=
  .seq (p := .when (!P.timedGoals.isEmpty) (.seq [.set "TIMED_GOALS", .set "CONTINUOUS_TIME"])) (by mem_lit)
    (.when' (by simpa using h) (.seq (p := .set "TIMED_GOALS") (by mem_lit) .set))

theorem kind_traj {tc : Expr} (ha : tc ∈ P.traj) (h : Sets f (updTraj F tc)) : Sets f (kindProg F P S u) :=
  .seq (p := .seq (P.traj.map (updTraj F))) (by mem_lit) (.seq (List.mem_map_of_mem ha) h)

theorem kind_goalExpr {c : Expr} (ha : c ∈ P.timedGoals.map (·.2) ++ P.goals) (h : Sets f (updExpr F c)) :
    Sets f (kindProg F P S u) :=
  .seq (p := .seq ((P.timedGoals.map (·.2) ++ P.goals).map (updExpr F))) (by mem_lit)
    (.seq (List.mem_map_of_mem ha) h)

theorem kind_init (h : Sets f (updInit u)) : Sets f (kindProg F P S u) :=
  .seq (p := updInit u) (by mem_lit) h

/-! #### inside actions, processes, events -/

theorem iact_param {a : IAct} {p : String × Ty} (hp : p ∈ a.params) (h : Sets f (updParam P p.2)) :
    Sets f (updIAct F P S a) :=
  .seq (p := .seq (a.params.map (fun p => updParam P p.2))) (by mem_lit) (.seq (List.mem_map.2 ⟨p, hp, rfl⟩) h)

theorem iact_pre {a : IAct} {c : Expr} (hc : c ∈ a.pre) (h : Sets f (updExpr F c)) : Sets f (updIAct F P S a) :=
  .seq (p := .seq (a.pre.map (updExpr F))) (by mem_lit) (.seq (List.mem_map_of_mem hc) h)

theorem iact_eff {a : IAct} {e : Effect} (he : e ∈ a.effs) (h : Sets f (updEffect F P S e)) :
    Sets f (updIAct F P S a) :=
  .seq (p := .seq (a.effs.map (updEffect F P S))) (by mem_lit) (.seq (List.mem_map_of_mem he) h)

theorem dact_param {a : DAct} {p : String × Ty} (hp : p ∈ a.params) (h : Sets f (updParam P p.2)) :
    Sets f (updDAct F P S a) :=
  .seq (p := .seq (a.params.map (fun p => updParam P p.2))) (by mem_lit) (.seq (List.mem_map.2 ⟨p, hp, rfl⟩) h)

theorem dact_duration {a : DAct} (h : Sets f (updDuration S a.durLo a.durHi)) : Sets f (updDAct F P S a) :=
  .seq (p := updDuration S a.durLo a.durHi) (by mem_lit) h

theorem dact_cond {a : DAct} {c : Interval × Expr} (hc : c ∈ a.conds) (h : Sets f (updExpr F c.2)) :
    Sets f (updDAct F P S a) :=
  .seq (p := .seq (a.conds.map (updTimedCond F))) (by mem_lit)
    (.seq (List.mem_map_of_mem hc) (.seq (p := updExpr F c.2) (by mem_lit) h))

theorem dact_eff {a : DAct} {te : Timing × Effect} (he : te ∈ a.effs) (h : Sets f (updEffect F P S te.2)) :
    Sets f (updDAct F P S a) :=
  .seq (p := .seq (a.effs.map (updTimedEff F P S))) (by mem_lit)
    (.seq (List.mem_map_of_mem he) (.seq (p := updEffect F P S te.2) (by mem_lit) h))

theorem dact_cont {a : DAct} (h : Sets f (contLoop F (a.ceffs.map (·.2)))) : Sets f (updDAct F P S a) :=
  .seq (p := contLoop F (a.ceffs.map (·.2))) (by mem_lit) h

theorem proc_param {p : Proc} {q : String × Ty} (hp : q ∈ p.params) (h : Sets f (updParam P q.2)) :
    Sets f (updProc F P p) :=
  .seq (p := .seq (p.params.map (fun q => updParam P q.2))) (by mem_lit) (.seq (List.mem_map.2 ⟨q, hp, rfl⟩) h)

theorem proc_pre {p : Proc} {c : Expr} (hc : c ∈ p.pre) (h : Sets f (updExpr F c)) : Sets f (updProc F P p) :=
  .seq (p := .seq (p.pre.map (updExpr F))) (by mem_lit) (.seq (List.mem_map_of_mem hc) h)

theorem proc_cont {p : Proc} (h : Sets f (contLoop F p.effs)) : Sets f (updProc F P p) :=
  .seq (p := contLoop F p.effs) (by mem_lit) h

theorem evt_param {ev : Evt} {q : String × Ty} (hp : q ∈ ev.params) (h : Sets f (updParam P q.2)) :
    Sets f (updEvt F P S ev) :=
  .seq (p := .seq (ev.params.map (fun q => updParam P q.2))) (by mem_lit) (.seq (List.mem_map.2 ⟨q, hp, rfl⟩) h)

theorem evt_pre {ev : Evt} {c : Expr} (hc : c ∈ ev.pre) (h : Sets f (updExpr F c)) : Sets f (updEvt F P S ev) :=
  .seq (p := .seq (ev.pre.map (updExpr F))) (by mem_lit) (.seq (List.mem_map_of_mem hc) h)

theorem evt_eff {ev : Evt} {e : Effect} (he : e ∈ ev.effs) (h : Sets f (updEffect F P S e)) :
    Sets f (updEvt F P S ev) :=
  .seq (p := .seq (ev.effs.map (updEffect F P S))) (by mem_lit) (.seq (List.mem_map_of_mem he) h)

/-! #### positions of the specification -/

theorem sets_of_effect {e : Effect} (he : EffectOf P e) (h : Sets f (updEffect F P S e)) :
    Sets f (kindProg F P S u) := by
  cases he with
  | iaction ha hm => exact kind_iact ha (iact_eff hm h)
  | daction ha hm => exact kind_dact ha (dact_eff hm h)
  | event ha hm => exact kind_evt ha (evt_eff hm h)
  | timed hm => exact kind_teff hm h

theorem isTrue_false_of_ne {c : Expr} (h : c ≠ Expr.tt) : c.isTrue = false := by
  unfold Expr.isTrue
  split
  · exact absurd rfl h
  · rfl

theorem isConditional_of_ne {e : Effect} (h : e.cond ≠ Expr.tt) : e.isConditional = true := by
  simp [Effect.isConditional, isTrue_false_of_ne h]

theorem updEffect_cond {e : Effect} (hc : e.cond ≠ Expr.tt) (h : Sets f (updExpr F e.cond)) :
    Sets f (updEffect F P S e) :=
  .seq (p := .when e.isConditional (.seq [updExpr F e.cond, .set "CONDITIONAL_EFFECTS",
      .when (targetIsNum e.fluent) .unsetSNP])) (by mem_lit)
    (.when' (isConditional_of_ne hc) (.seq (p := updExpr F e.cond) (by mem_lit) h))

theorem sets_of_cond {c : Expr} (hc : CondOf P c) (h : Sets f (updExpr F c)) : Sets f (kindProg F P S u) := by
  cases hc with
  | precondition ha hm => exact kind_iact ha (iact_pre hm h)
  | durativeCondition ha hm => exact kind_dact ha (dact_cond hm h)
  | processPrecondition ha hm => exact kind_proc ha (proc_pre hm h)
  | eventPrecondition ha hm => exact kind_evt ha (evt_pre hm h)
  | effectCondition he hne => exact sets_of_effect he (updEffect_cond hne h)
  | goal hm => exact kind_goalExpr (List.mem_append_right _ hm) h
  | timedGoal hm => exact kind_goalExpr (List.mem_append_left _ (List.mem_map.2 ⟨_, hm, rfl⟩)) h
  | trajectoryConstraint hm => exact kind_traj hm (.seq (p := updExpr F _) (by mem_lit) h)
  | oversubscriptionGoal hm hg =>
    exact kind_metric hm (.seq (p := .seq (List.map (fun g => updExpr F g.1) _)) (by mem_lit)
      (.seq (List.mem_map.2 ⟨_, hg, rfl⟩) h))
  | temporalOversubscriptionGoal hm hg =>
    exact kind_metric hm (.seq (p := .seq (List.map (fun g => updExpr F g.2.1) _)) (by mem_lit)
      (.seq (List.mem_map.2 ⟨_, hg, rfl⟩) h))

theorem sets_of_param {t : Ty} (hp : ParamTy P t) (h : Sets f (updParam P t)) : Sets f (kindProg F P S u) := by
  cases hp with
  | iaction ha hm => exact kind_iact ha (iact_param hm h)
  | daction ha hm => exact kind_dact ha (dact_param hm h)
  | process ha hm => exact kind_proc ha (proc_param hm h)
  | event ha hm => exact kind_evt ha (evt_param hm h)

theorem updParam_type {t : Ty} (h : Sets f (updType P t)) : Sets f (updParam P t) :=
  .seq (p := updType P t) (by mem_lit) h

theorem updEffect_forallVar {e : Effect} {v : Var} (hv : v ∈ e.forall_) (h : Sets f (updType P v.ty)) :
    Sets f (updEffect F P S e) :=
  .seq (p := .when (!e.forall_.isEmpty) (.seq (.set "FORALL_EFFECTS" :: e.forall_.map (fun v => updType P v.ty))))
    (by mem_lit)
    (.when' (by cases hl : e.forall_ with
                | nil => simp [hl] at hv
                | cons _ _ => rfl)
      (.seq (List.mem_cons_of_mem _ (List.mem_map.2 ⟨v, hv, rfl⟩)) h))

theorem updFluent_type {d : FluentDecl} {n : String} (ht : d.ref.ty = .user n) (h : Sets f (updType P (.user n))) :
    Sets f (updFluent P S d) :=
  .seq (p := .when (!S.unused.contains d.ref || !tyIsNum d.ref.ty) (updType P d.ref.ty)) (by mem_lit)
    (.when' (by simp [ht, tyIsNum, tcOfTy, TC.isNum]) (by rw [ht]; exact h))

theorem updFluent_sigType {d : FluentDecl} {t : Ty} (ht : t ∈ d.ref.sig) (h : Sets f (updType P t)) :
    Sets f (updFluent P S d) :=
  .seq (p := .seq (d.ref.sig.map (fun pt => .seq [updType P pt,
      (match pt with
       | .bool => .set "BOOL_FLUENT_PARAMETERS"
       | .int _ _ => .set "BOUNDED_INT_FLUENT_PARAMETERS"
       | _ => .skip)]))) (by mem_lit)
    (.seq (List.mem_map.2 ⟨t, ht, rfl⟩) (.seq (p := updType P t) (by mem_lit) h))

theorem sets_of_typeUse {n : String} (ht : TypeUse P (.user n)) (h : Sets f (updType P (.user n))) :
    Sets f (kindProg F P S u) := by
  generalize hty : Ty.user n = ty at ht
  cases ht with
  | object ho =>
    cases hty
    exact kind_object ho h
  | fluent hd => exact kind_fluent hd (updFluent_type hty.symm h)
  | fluentParameter hd hs => subst hty; exact kind_fluent hd (updFluent_sigType hs h)
  | parameter hp => subst hty; exact sets_of_param hp (updParam_type h)
  | forallVariable he hv => exact sets_of_effect he (updEffect_forallVar hv (by rw [← hty]; exact h))

end UPVerif.KindOf
