import UPVerif.Core.HashCons
/-! Helper lemmas for `Props/C16.lean`. -/
namespace UPVerif.HashCons

/-! ### the memo table as the enumeration of the heap -/

def entries (h : List FNode) (off : Nat) : List (Content × Ref) :=
  (h.zipIdx off).map fun p => (p.1.content, p.2)

theorem entries_nil (off : Nat) : entries [] off = [] := rfl

theorem entries_cons (a : FNode) (h : List FNode) (off : Nat) :
    entries (a :: h) off = (a.content, off) :: entries h (off + 1) := by
  simp [entries, List.zipIdx_cons]

theorem entries_append (h : List FNode) (a : FNode) (off : Nat) :
    entries (h ++ [a]) off = entries h off ++ [(a.content, off + h.length)] := by
  induction h generalizing off with
  | nil => simp [entries]
  | cons b t ih =>
    simp only [List.cons_append, entries_cons, ih, List.length_cons, List.cons_append]
    rw [show off + 1 + t.length = off + (t.length + 1) by omega]

theorem lookup_entries_none (h : List FNode) (off : Nat) (c : Content) :
    (entries h off).lookup c = none ↔ ∀ n ∈ h, n.content ≠ c := by
  induction h generalizing off with
  | nil => simp [entries]
  | cons a t ih =>
    rw [entries_cons, List.lookup_cons]
    by_cases hc : c = a.content
    · subst hc; simp
    · have : (c == a.content) = false := by simpa using hc
      simp only [this, ih, List.mem_cons, forall_eq_or_imp]
      constructor
      · intro h2; exact ⟨fun e => hc e.symm, h2⟩
      · intro h2; exact h2.2

theorem lookup_entries_some (h : List FNode) (off : Nat) (c : Content) (r : Nat) :
    (entries h off).lookup c = some r → ∃ n, off ≤ r ∧ h[r - off]? = some n ∧ n.content = c := by
  induction h generalizing off with
  | nil => simp [entries]
  | cons a t ih =>
    rw [entries_cons, List.lookup_cons]
    by_cases hc : c = a.content
    · subst hc; simp only [BEq.rfl, Option.some.injEq]
      intro e; subst e
      exact ⟨a, Nat.le_refl _, by simp, rfl⟩
    · have : (c == a.content) = false := by simpa using hc
      simp only [this]
      intro h2
      obtain ⟨n, h3, h4, h5⟩ := ih (off + 1) h2
      refine ⟨n, by omega, ?_, h5⟩
      have : r - off = (r - (off + 1)) + 1 := by omega
      rw [this, List.getElem?_cons_succ]; exact h4

theorem getElem?_snoc {α} (l : List α) (x n : α) (r : Nat) :
    (l ++ [x])[r]? = some n ↔ (l[r]? = some n) ∨ (r = l.length ∧ n = x) := by
  rw [List.getElem?_append]
  by_cases h : r < l.length
  · simp only [h, if_true]
    constructor
    · intro h1; exact Or.inl h1
    · rintro (h1 | ⟨h1, _⟩)
      · exact h1
      · omega
  · simp only [h, if_false]
    have hn : l[r]? = none := by simp; omega
    by_cases h2 : r = l.length
    · subst h2; simp [eq_comm]
    · have : r - l.length ≠ 0 := by omega
      have : [x][r - l.length]? = none := by
        cases hk : r - l.length with
        | zero => omega
        | succ k => simp
      simp [this, hn, h2]

theorem Inv.lookup_none {m : Mgr} (hI : Inv m) (c : Content) :
    m.expressions.lookup c = none ↔ ∀ n ∈ m.heap, n.content ≠ c := by
  rw [hI.table]; exact lookup_entries_none m.heap 0 c

theorem Inv.lookup_some {m : Mgr} (hI : Inv m) {c : Content} {r : Nat}
    (h : m.expressions.lookup c = some r) : ∃ n, m.heap[r]? = some n ∧ n.content = c := by
  rw [hI.table] at h
  obtain ⟨n, _, h2, h3⟩ := lookup_entries_some m.heap 0 c r h
  exact ⟨n, by simpa using h2, h3⟩

theorem Inv.lookup_of_mem {m : Mgr} (hI : Inv m) {r : Nat} {n : FNode} (h : m.heap[r]? = some n) :
    m.expressions.lookup n.content = some r := by
  cases hl : m.expressions.lookup n.content with
  | none =>
    have := (hI.lookup_none n.content).1 hl n (List.mem_of_getElem? h)
    exact absurd rfl this
  | some r' =>
    obtain ⟨n', h1, h2⟩ := hI.lookup_some hl
    rw [hI.distinct r' r n' n h1 h h2]

theorem createNode_of_some {m : Mgr} {op : Op} {args : List Ref} {p : Payload} {r : Ref}
    (h : m.expressions.lookup ⟨op, args, p⟩ = some r) : createNode m op args p = (m, r) := by
  simp [createNode, h]

theorem createNode_of_none {m : Mgr} {op : Op} {args : List Ref} {p : Payload}
    (h : m.expressions.lookup ⟨op, args, p⟩ = none) :
    createNode m op args p =
      ({ m with heap := m.heap ++ [⟨⟨op, args, p⟩, m.nextFreeId⟩],
                nextFreeId := m.nextFreeId + 1,
                expressions := m.expressions ++ [(⟨op, args, p⟩, m.heap.length)] }, m.heap.length) := by
  simp [createNode, h]

theorem Ext.refl (m : Mgr) : Ext m m := ⟨List.prefix_refl _, rfl, rfl⟩

theorem Ext.trans {a b c : Mgr} (h1 : Ext a b) (h2 : Ext b c) : Ext a c :=
  ⟨h1.heap.trans h2.heap, h2.true_.trans h1.true_, h2.false_.trans h1.false_⟩

theorem Ext.length_le {m m' : Mgr} (h : Ext m m') : m.heap.length ≤ m'.heap.length := h.heap.length_le

theorem Ext.getElem? {m m' : Mgr} (h : Ext m m') {r : Nat} (hr : r < m.heap.length) :
    m'.heap[r]? = m.heap[r]? := by
  obtain ⟨t, ht⟩ := h.heap
  rw [← ht, List.getElem?_append_left hr]

theorem Ext.getElem?_some {m m' : Mgr} (h : Ext m m') {r : Nat} {n : FNode} (hn : m.heap[r]? = some n) :
    m'.heap[r]? = some n := by
  have hr : r < m.heap.length := by
    rcases Nat.lt_or_ge r m.heap.length with h1 | h1
    · exact h1
    · rw [List.getElem?_eq_none h1] at hn; cases hn
  rw [h.getElem? hr, hn]

/-- `create_node` keeps the invariant, only adds nodes, and returns a node with the requested content -/
theorem createNode_good {m : Mgr} (hI : Inv m) (op : Op) (args : List Ref) (p : Payload)
    (hv : ∀ a ∈ args, a < m.heap.length) :
    Inv (createNode m op args p).1 ∧ Ext m (createNode m op args p).1 ∧
    ∃ n, (createNode m op args p).1.heap[(createNode m op args p).2]? = some n ∧ n.content = ⟨op, args, p⟩ := by
  cases hl : m.expressions.lookup ⟨op, args, p⟩ with
  | some r =>
    rw [createNode_of_some hl]
    exact ⟨hI, Ext.refl m, hI.lookup_some hl⟩
  | none =>
    rw [createNode_of_none hl]
    have hnone := (hI.lookup_none _).1 hl
    refine ⟨?_, ⟨List.prefix_append _ _, rfl, rfl⟩, ⟨⟨op, args, p⟩, m.nextFreeId⟩, by simp, rfl⟩
    constructor
    · simp [hI.next]
    · intro r n h
      rcases (getElem?_snoc _ _ _ _).1 h with h1 | ⟨h1, h2⟩
      · exact hI.ids r n h1
      · subst h1 h2; exact hI.next
    · show m.expressions ++ _ = entries (m.heap ++ _) 0
      rw [entries_append, hI.table]; simp [entries]
    · intro i j a b ha hb hab
      rcases (getElem?_snoc _ _ _ _).1 ha with h1 | ⟨h1, h2⟩ <;>
      rcases (getElem?_snoc _ _ _ _).1 hb with h3 | ⟨h3, h4⟩
      · exact hI.distinct i j a b h1 h3 hab
      · subst h4; exact absurd hab (hnone a (List.mem_of_getElem? h1))
      · subst h2; exact absurd hab.symm (hnone b (List.mem_of_getElem? h3))
      · exact h1.trans h3.symm
    · intro r n h a ha
      rcases (getElem?_snoc _ _ _ _).1 h with h1 | ⟨h1, h2⟩
      · exact hI.older r n h1 a ha
      · subst h1 h2; exact hv a ha
    · obtain ⟨k, hk⟩ := hI.true_
      exact ⟨k, (getElem?_snoc _ _ _ _).2 (Or.inl hk)⟩
    · obtain ⟨k, hk⟩ := hI.false_
      exact ⟨k, (getElem?_snoc _ _ _ _).2 (Or.inl hk)⟩

theorem lt_of_getElem?_some {α} {l : List α} {r : Nat} {n : α} (h : l[r]? = some n) : r < l.length := by
  rcases Nat.lt_or_ge r l.length with h1 | h1
  · exact h1
  · rw [List.getElem?_eq_none h1] at h; cases h

theorem createNode_valid {m : Mgr} (hI : Inv m) (op : Op) (args : List Ref) (p : Payload)
    (hv : ∀ a ∈ args, a < m.heap.length) :
    (createNode m op args p).2 < (createNode m op args p).1.heap.length := by
  obtain ⟨_, _, n, hn, _⟩ := createNode_good hI op args p hv
  exact lt_of_getElem?_some hn

theorem Arg.valid_mono {m m' : Mgr} (h : Ext m m') {a : Arg} (ha : a.valid m) : a.valid m' := by
  cases a <;> simp only [Arg.valid] at *
  exact Nat.lt_of_lt_of_le ha h.length_le

theorem Inv.true_valid {m : Mgr} (hI : Inv m) : m.trueExpr < m.heap.length := by
  obtain ⟨k, hk⟩ := hI.true_; exact lt_of_getElem?_some hk

theorem Inv.false_valid {m : Mgr} (hI : Inv m) : m.falseExpr < m.heap.length := by
  obtain ⟨k, hk⟩ := hI.false_; exact lt_of_getElem?_some hk

theorem mkBool_valid {m : Mgr} (hI : Inv m) (b : Bool) : mkBool m b < m.heap.length := by
  unfold mkBool; split
  · exact hI.true_valid
  · exact hI.false_valid

/-- the shape of what every state-threading function guarantees -/
structure Good (m m' : Mgr) : Prop where
  inv : Inv m'
  ext : Ext m m'

theorem Good.refl {m : Mgr} (hI : Inv m) : Good m m := ⟨hI, Ext.refl m⟩
theorem Good.trans {a b c : Mgr} (h1 : Good a b) (h2 : Good b c) : Good a c := ⟨h2.inv, h1.ext.trans h2.ext⟩

theorem createNode_Good {m : Mgr} (hI : Inv m) (op : Op) (args : List Ref) (p : Payload)
    (hv : ∀ a ∈ args, a < m.heap.length) : Good m (createNode m op args p).1 :=
  let h := createNode_good hI op args p hv
  ⟨h.1, h.2.1⟩

theorem promote_good {m : Mgr} (hI : Inv m) (a : Arg) (ha : a.valid m) :
    Good m (promote m a).1 ∧ ∀ r, (promote m a).2 = .ok r → r < (promote m a).1.heap.length := by
  have nil : ∀ x ∈ ([] : List Ref), x < m.heap.length := by simp
  cases a with
  | node r => exact ⟨Good.refl hI, by intro r' h; simp only [promote, Except.ok.injEq] at h; subst h; exact ha⟩
  | bool b => exact ⟨Good.refl hI, by intro r' h; simp only [promote, Except.ok.injEq] at h; subst h; exact mkBool_valid hI b⟩
  | fluent key arity =>
    simp only [promote]
    split
    · exact ⟨Good.refl hI, by intro r h; cases h⟩
    · exact ⟨createNode_Good hI _ _ _ nil, by intro r h; simp only [Except.ok.injEq] at h; subst h; exact createNode_valid hI _ _ _ nil⟩
  | param key =>
    exact ⟨createNode_Good hI _ _ _ nil, by intro r h; simp only [promote, Except.ok.injEq] at h; subst h; exact createNode_valid hI _ _ _ nil⟩
  | var key =>
    exact ⟨createNode_Good hI _ _ _ nil, by intro r h; simp only [promote, Except.ok.injEq] at h; subst h; exact createNode_valid hI _ _ _ nil⟩
  | obj key =>
    exact ⟨createNode_Good hI _ _ _ nil, by intro r h; simp only [promote, Except.ok.injEq] at h; subst h; exact createNode_valid hI _ _ _ nil⟩
  | num l =>
    simp only [promote]
    split
    · exact ⟨Good.refl hI, by intro r h; cases h⟩
    · exact ⟨createNode_Good hI _ _ _ nil, by intro r h; simp only [Except.ok.injEq] at h; subst h; exact createNode_valid hI _ _ _ nil⟩
    · exact ⟨createNode_Good hI _ _ _ nil, by intro r h; simp only [Except.ok.injEq] at h; subst h; exact createNode_valid hI _ _ _ nil⟩

theorem autoPromote_cons_err {m m1 : Mgr} {a : Arg} {as : List Arg} {e : Err}
    (h : promote m a = (m1, .error e)) : autoPromote m (a :: as) = (m1, .error e) := by
  simp [autoPromote, h]

theorem autoPromote_cons_ok_err {m m1 m2 : Mgr} {a : Arg} {as : List Arg} {r : Ref} {e : Err}
    (h : promote m a = (m1, .ok r)) (h2 : autoPromote m1 as = (m2, .error e)) :
    autoPromote m (a :: as) = (m2, .error e) := by
  simp [autoPromote, h, h2]

theorem autoPromote_cons_ok_ok {m m1 m2 : Mgr} {a : Arg} {as : List Arg} {r : Ref} {rs : List Ref}
    (h : promote m a = (m1, .ok r)) (h2 : autoPromote m1 as = (m2, .ok rs)) :
    autoPromote m (a :: as) = (m2, .ok (r :: rs)) := by
  simp [autoPromote, h, h2]

theorem autoPromote_good {m : Mgr} (hI : Inv m) (args : List Arg) (ha : ∀ a ∈ args, a.valid m)
    {m' : Mgr} {res : Except Err (List Ref)} (h : autoPromote m args = (m', res)) :
    Good m m' ∧ ∀ rs, res = .ok rs → ∀ r ∈ rs, r < m'.heap.length := by
  induction args generalizing m m' res with
  | nil =>
    simp only [autoPromote, Prod.mk.injEq] at h
    obtain ⟨h1, h2⟩ := h; subst h1 h2
    exact ⟨Good.refl hI, by intro rs h; simp only [Except.ok.injEq] at h; subst h; simp⟩
  | cons a as ih =>
    obtain ⟨g1, v1⟩ := promote_good hI a (ha a (List.mem_cons_self ..))
    rcases hp : promote m a with ⟨m1, e | r⟩
    · rw [autoPromote_cons_err hp, Prod.mk.injEq] at h
      obtain ⟨h1, h2⟩ := h; subst h1 h2
      rw [hp] at g1; exact ⟨g1, by intro rs h; cases h⟩
    · rw [hp] at g1 v1
      have ha' : ∀ x ∈ as, x.valid m1 := fun x hx => Arg.valid_mono g1.ext (ha x (List.mem_cons_of_mem _ hx))
      rcases hq : autoPromote m1 as with ⟨m2, e | rs⟩
      · obtain ⟨g2, _⟩ := ih g1.inv ha' hq
        rw [autoPromote_cons_ok_err hp hq, Prod.mk.injEq] at h
        obtain ⟨h1, h2⟩ := h; subst h1 h2
        exact ⟨g1.trans g2, by intro rs h; cases h⟩
      · obtain ⟨g2, v2⟩ := ih g1.inv ha' hq
        rw [autoPromote_cons_ok_ok hp hq, Prod.mk.injEq] at h
        obtain ⟨h1, h2⟩ := h; subst h1 h2
        refine ⟨g1.trans g2, ?_⟩
        intro rs' h; simp only [Except.ok.injEq] at h; subst h
        intro x hx
        rcases List.mem_cons.1 hx with h1 | h1
        · subst h1; exact Nat.lt_of_lt_of_le (v1 _ rfl) g2.ext.length_le
        · exact v2 rs rfl x h1

theorem polymorph_valid {m : Mgr} (ps : List (PArg Arg)) (h : ∀ p ∈ ps, p.valid m) :
    ∀ a ∈ polymorph ps, a.valid m := by
  induction ps with
  | nil => simp [polymorph]
  | cons p ps ih =>
    have h1 := h p (List.mem_cons_self ..)
    have h2 := ih (fun q hq => h q (List.mem_cons_of_mem _ hq))
    cases p with
    | one a =>
      intro x hx; simp only [polymorph, List.mem_cons] at hx
      rcases hx with hx | hx
      · subst hx; exact h1
      · exact h2 x hx
    | many as =>
      intro x hx; simp only [polymorph, List.mem_append] at hx
      rcases hx with hx | hx
      · exact h1 x hx
      · exact h2 x hx

theorem mkVia_good {m : Mgr} (hI : Inv m) (args : List Arg) (ha : ∀ a ∈ args, a.valid m)
    (post : List Ref → Option (Except Err Content))
    (hpost : ∀ rs c, post rs = some (.ok c) → ∀ a ∈ c.args, a ∈ rs)
    {m' : Mgr} {res : Res} (h : mkVia m args post = some (m', res)) : Good m m' ∧ res.valid m' := by
  unfold mkVia at h
  rcases hp : autoPromote m args with ⟨m1, e | rs⟩
  · obtain ⟨g1, _⟩ := autoPromote_good hI args ha hp
    simp only [hp, Option.some.injEq, Prod.mk.injEq] at h
    obtain ⟨h1, h2⟩ := h; subst h1 h2
    exact ⟨g1, trivial⟩
  · obtain ⟨g1, v1⟩ := autoPromote_good hI args ha hp
    simp only [hp] at h
    rcases hq : post rs with _ | ⟨e | c⟩
    · simp [hq] at h
    · simp only [hq, Option.some.injEq, Prod.mk.injEq] at h
      obtain ⟨h1, h2⟩ := h; subst h1 h2
      exact ⟨g1, trivial⟩
    · simp only [hq, Option.some.injEq, Prod.mk.injEq] at h
      obtain ⟨h1, h2⟩ := h; subst h1 h2
      have hv : ∀ a ∈ c.args, a < m1.heap.length := fun a ha => v1 rs rfl a (hpost rs c hq a ha)
      exact ⟨g1.trans (createNode_Good g1.inv _ _ _ hv), createNode_valid g1.inv _ _ _ hv⟩

/-- what the unit of an n-ary constructor must guarantee -/
def UnitGood (unit : Mgr → Mgr × Ref) : Prop :=
  ∀ m, Inv m → Good m (unit m).1 ∧ (unit m).2 < (unit m).1.heap.length

theorem unitTrue_good : UnitGood unitTrue := fun _ hI => ⟨Good.refl hI, hI.true_valid⟩
theorem unitFalse_good : UnitGood unitFalse := fun _ hI => ⟨Good.refl hI, hI.false_valid⟩
theorem unitInt_good (z : Int) : UnitGood (fun m => mkInt m z) := fun _ hI =>
  ⟨createNode_Good hI _ _ _ (by simp), createNode_valid hI _ _ _ (by simp)⟩

theorem naryRefs_good {m : Mgr} (hI : Inv m) (op : Op) {unit : Mgr → Mgr × Ref} (hu : UnitGood unit)
    (rs : List Ref) (hv : ∀ r ∈ rs, r < m.heap.length) :
    Good m (naryRefs m op unit rs).1 ∧ (naryRefs m op unit rs).2 < (naryRefs m op unit rs).1.heap.length := by
  unfold naryRefs
  split
  · exact hu m hI
  · exact ⟨Good.refl hI, hv _ (by simp)⟩
  · exact ⟨createNode_Good hI _ _ _ hv, createNode_valid hI _ _ _ hv⟩

theorem mkNary_good {m : Mgr} (hI : Inv m) (op : Op) {unit : Mgr → Mgr × Ref} (hu : UnitGood unit)
    (args : List Arg) (ha : ∀ a ∈ args, a.valid m) :
    Good m (mkNary m op unit args).1 ∧ (mkNary m op unit args).2.valid (mkNary m op unit args).1 := by
  unfold mkNary
  rcases hp : autoPromote m args with ⟨m1, e | rs⟩
  · obtain ⟨g1, _⟩ := autoPromote_good hI args ha hp
    exact ⟨g1, trivial⟩
  · obtain ⟨g1, v1⟩ := autoPromote_good hI args ha hp
    obtain ⟨g2, v2⟩ := naryRefs_good g1.inv op hu rs (v1 rs rfl)
    exact ⟨g1.trans g2, v2⟩

theorem notRef_good {m : Mgr} (hI : Inv m) (e : Ref) {m' : Mgr} {r : Ref}
    (h : notRef m e = some (m', r)) : Good m m' ∧ r < m'.heap.length := by
  unfold notRef at h
  rcases hn : m.heap[e]? with _ | n
  · simp [hn] at h
  · simp only [hn] at h
    have he := lt_of_getElem?_some hn
    split at h
    · rcases hargs : n.content.args with _ | ⟨x, xs⟩
      · simp [hargs] at h
      · simp only [hargs, Option.some.injEq, Prod.mk.injEq] at h
        obtain ⟨h1, h2⟩ := h; subst h1 h2
        have := hI.older e n hn x (by simp [hargs])
        exact ⟨Good.refl hI, Nat.lt_trans this he⟩
    · simp only [Option.some.injEq] at h
      have hv : ∀ a ∈ [e], a < m.heap.length := by simpa using he
      have g := createNode_Good hI .not [e] .none hv
      have v := createNode_valid hI .not [e] .none hv
      rw [h] at g v
      exact ⟨g, v⟩

theorem xorNots_good {m : Mgr} (hI : Inv m) (a : Ref) (os : List Ref)
    {m' : Mgr} {ns : List Ref} (h : xorNots m a os = some (m', ns)) :
    Good m m' ∧ ∀ n ∈ ns, n < m'.heap.length := by
  induction os generalizing m m' ns with
  | nil =>
    simp only [xorNots, Option.some.injEq, Prod.mk.injEq] at h
    obtain ⟨h1, h2⟩ := h; subst h1 h2
    exact ⟨Good.refl hI, by simp⟩
  | cons o os ih =>
    simp only [xorNots] at h
    split at h
    · exact ih hI h
    · rcases hn : notRef m o with _ | ⟨m1, n⟩
      · simp [hn] at h
      · obtain ⟨g1, v1⟩ := notRef_good hI o hn
        simp only [hn] at h
        rcases hx : xorNots m1 a os with _ | ⟨m2, ns2⟩
        · simp [hx] at h
        · obtain ⟨g2, v2⟩ := ih g1.inv hx
          simp only [hx, Option.some.injEq, Prod.mk.injEq] at h
          obtain ⟨h1, h2⟩ := h; subst h1 h2
          refine ⟨g1.trans g2, ?_⟩
          intro x hx'
          rcases List.mem_cons.1 hx' with h3 | h3
          · subst h3; exact Nat.lt_of_lt_of_le v1 g2.ext.length_le
          · exact v2 x h3

theorem xorTerms_good {m : Mgr} (hI : Inv m) (all : List Ref) (as : List Ref)
    (hv : ∀ a ∈ as, a < m.heap.length)
    {m' : Mgr} {ts : List Ref} (h : xorTerms m all as = some (m', ts)) :
    Good m m' ∧ ∀ t ∈ ts, t < m'.heap.length := by
  induction as generalizing m m' ts with
  | nil =>
    simp only [xorTerms, Option.some.injEq, Prod.mk.injEq] at h
    obtain ⟨h1, h2⟩ := h; subst h1 h2
    exact ⟨Good.refl hI, by simp⟩
  | cons a as ih =>
    simp only [xorTerms] at h
    rcases hn : xorNots m a all with _ | ⟨m1, ns⟩
    · simp [hn] at h
    · obtain ⟨g1, v1⟩ := xorNots_good hI a all hn
      simp only [hn] at h
      have hva : ∀ r ∈ a :: ns, r < m1.heap.length := by
        intro r hr
        rcases List.mem_cons.1 hr with h3 | h3
        · subst h3; exact Nat.lt_of_lt_of_le (hv _ (List.mem_cons_self ..)) g1.ext.length_le
        · exact v1 r h3
      obtain ⟨g2, v2⟩ := naryRefs_good g1.inv .and unitTrue_good (a :: ns) hva
      have g12 := g1.trans g2
      rcases hx : xorTerms (naryRefs m1 .and unitTrue (a :: ns)).1 all as with _ | ⟨m3, ts3⟩
      · simp [hx] at h
      · have hvas : ∀ r ∈ as, r < (naryRefs m1 .and unitTrue (a :: ns)).1.heap.length :=
          fun r hr => Nat.lt_of_lt_of_le (hv r (List.mem_cons_of_mem _ hr)) g12.ext.length_le
        obtain ⟨g3, v3⟩ := ih g2.inv hvas hx
        simp only [hx, Option.some.injEq, Prod.mk.injEq] at h
        obtain ⟨h1, h2⟩ := h; subst h1 h2
        refine ⟨g12.trans g3, ?_⟩
        intro x hx'
        rcases List.mem_cons.1 hx' with h3 | h3
        · subst h3; exact Nat.lt_of_lt_of_le v2 g3.ext.length_le
        · exact v3 x h3

theorem mkNot_good {m : Mgr} (hI : Inv m) (args : List Arg) (ha : ∀ a ∈ args, a.valid m)
    {m' : Mgr} {res : Res} (h : mkNot m args = some (m', res)) : Good m m' ∧ res.valid m' := by
  unfold mkNot at h
  rcases hp : autoPromote m args with ⟨m1, e | rs⟩
  · obtain ⟨g1, _⟩ := autoPromote_good hI args ha hp
    simp only [hp, Option.some.injEq, Prod.mk.injEq] at h
    obtain ⟨h1, h2⟩ := h; subst h1 h2
    exact ⟨g1, trivial⟩
  · obtain ⟨g1, v1⟩ := autoPromote_good hI args ha hp
    simp only [hp] at h
    match rs, h with
    | [e], h =>
      simp only [Option.map_eq_some_iff] at h
      obtain ⟨⟨m2, r⟩, hn, h2⟩ := h
      simp only [Prod.mk.injEq] at h2
      obtain ⟨h3, h4⟩ := h2; subst h3 h4
      obtain ⟨g2, v2⟩ := notRef_good g1.inv e hn
      exact ⟨g1.trans g2, v2⟩
    | [], h => simp at h
    | _ :: _ :: _, h => simp at h

theorem mkXOr_good {m : Mgr} (hI : Inv m) (args : List Arg) (ha : ∀ a ∈ args, a.valid m)
    {m' : Mgr} {res : Res} (h : mkXOr m args = some (m', res)) : Good m m' ∧ res.valid m' := by
  unfold mkXOr at h
  rcases hp : autoPromote m args with ⟨m1, e | rs⟩
  · obtain ⟨g1, _⟩ := autoPromote_good hI args ha hp
    simp only [hp, Option.some.injEq, Prod.mk.injEq] at h
    obtain ⟨h1, h2⟩ := h; subst h1 h2
    exact ⟨g1, trivial⟩
  · obtain ⟨g1, v1⟩ := autoPromote_good hI args ha hp
    simp only [hp] at h
    match rs, h with
    | [], h =>
      simp only [Option.some.injEq, Prod.mk.injEq] at h
      obtain ⟨h1, h2⟩ := h; subst h1 h2
      exact ⟨g1, g1.inv.false_valid⟩
    | [a], h =>
      simp only [Option.some.injEq, Prod.mk.injEq] at h
      obtain ⟨h1, h2⟩ := h; subst h1 h2
      exact ⟨g1, v1 _ rfl a (by simp)⟩
    | a :: b :: rs, h =>
      simp only at h
      rcases hx : xorTerms m1 (a :: b :: rs) (a :: b :: rs) with _ | ⟨m2, ts⟩
      · simp [hx] at h
      · obtain ⟨g2, v2⟩ := xorTerms_good g1.inv _ _ (v1 _ rfl) hx
        simp only [hx, Option.some.injEq, Prod.mk.injEq] at h
        obtain ⟨h1, h2⟩ := h; subst h1 h2
        obtain ⟨g3, v3⟩ := naryRefs_good g2.inv .or unitFalse_good ts v2
        exact ⟨(g1.trans g2).trans g3, v3⟩

theorem post2_sub (op : Op) : ∀ rs c, post2 op rs = some (.ok c) → ∀ a ∈ c.args, a ∈ rs := by
  intro rs c h
  match rs, h with
  | [l, r], h => simp only [post2, Option.some.injEq, Except.ok.injEq] at h; subst h; simp

theorem post2swap_sub (op : Op) : ∀ rs c, post2swap op rs = some (.ok c) → ∀ a ∈ c.args, a ∈ rs := by
  intro rs c h
  match rs, h with
  | [l, r], h => simp only [post2swap, Option.some.injEq, Except.ok.injEq] at h; subst h; simp

theorem postAll_sub (op : Op) (p : Payload) : ∀ rs c, postAll op p rs = some (.ok c) → ∀ a ∈ c.args, a ∈ rs := by
  intro rs c h
  simp only [postAll, Option.some.injEq, Except.ok.injEq] at h; subst h; simp

theorem postQuant_sub (op : Op) (vs : List String) :
    ∀ rs c, postQuant op vs rs = some (.ok c) → ∀ a ∈ c.args, a ∈ rs := by
  intro rs c h
  unfold postQuant at h
  split at h
  · simp at h
  · simp only [Option.some.injEq, Except.ok.injEq] at h; subst h; simp

theorem postFluent_sub (k : String) (ar : Nat) :
    ∀ rs c, postFluent k ar rs = some (.ok c) → ∀ a ∈ c.args, a ∈ rs := by
  intro rs c h
  unfold postFluent at h
  split at h
  · simp at h
  · simp only [Option.some.injEq, Except.ok.injEq] at h; subst h; simp

theorem mkNary_good' {m : Mgr} (hI : Inv m) (op : Op) {unit : Mgr → Mgr × Ref} (hu : UnitGood unit)
    (args : List Arg) (ha : ∀ a ∈ args, a.valid m) {m' : Mgr} {res : Res}
    (h : mkNary m op unit args = (m', res)) : Good m m' ∧ res.valid m' := by
  have g := mkNary_good hI op hu args ha
  rw [h] at g; exact g

theorem mapM_option_mem {α β} {f : α → Option β} {l : List α} {l' : List β} (h : l.mapM f = some l') :
    ∀ y ∈ l', ∃ x ∈ l, f x = some y := by
  induction l generalizing l' with
  | nil => simp at h; subst h; simp
  | cons a l ih =>
    rw [List.mapM_cons] at h
    rcases hf : f a with _ | b
    · simp [hf] at h
    · rcases hl : l.mapM f with _ | bs
      · simp [hf, hl] at h
      · simp [hf, hl] at h
        subst h
        intro y hy
        rcases List.mem_cons.1 hy with h1 | h1
        · subst h1; exact ⟨a, List.mem_cons_self .., hf⟩
        · obtain ⟨x, hx, hfx⟩ := ih hl y h1
          exact ⟨x, List.mem_cons_of_mem _ hx, hfx⟩

theorem apply_good {m : Mgr} (hI : Inv m) (c : Ctor) (ps : List (PArg Arg)) (hp : ∀ p ∈ ps, p.valid m)
    {m' : Mgr} {res : Res} (h : apply m c ps = some (m', res)) : Good m m' ∧ res.valid m' := by
  have nil : ∀ x ∈ ([] : List Ref), x < m.heap.length := by simp
  unfold apply at h
  split at h
  all_goals first
    | exact mkVia_good hI _ (polymorph_valid _ hp) _ (post2_sub _) h
    | exact mkVia_good hI _ (polymorph_valid _ hp) _ (post2swap_sub _) h
    | exact mkVia_good hI _ (polymorph_valid _ hp) _ (postAll_sub _ _) h
    | exact mkVia_good hI _ (polymorph_valid _ hp) _ (postQuant_sub _ _) h
    | exact mkVia_good hI _ (polymorph_valid _ hp) _ (postFluent_sub _ _) h
    | exact mkNot_good hI _ (polymorph_valid _ hp) h
    | exact mkXOr_good hI _ (polymorph_valid _ hp) h
    | (simp only [Option.some.injEq, Prod.mk.injEq] at h
       obtain ⟨h1, h2⟩ := h; subst h1 h2
       first
         | exact ⟨Good.refl hI, hI.true_valid⟩
         | exact ⟨Good.refl hI, hI.false_valid⟩
         | exact ⟨Good.refl hI, mkBool_valid hI _⟩
         | exact ⟨Good.refl hI, trivial⟩
         | exact ⟨createNode_Good hI _ _ _ nil, createNode_valid hI _ _ _ nil⟩
         )
    | (simp only [Option.some.injEq] at h
       first
         | exact mkNary_good' hI _ unitTrue_good _ (polymorph_valid _ hp) h
         | exact mkNary_good' hI _ unitFalse_good _ (polymorph_valid _ hp) h
         | exact mkNary_good' hI _ (unitInt_good _) _ (polymorph_valid _ hp) h)
    | (split at h
       · cases h
       · simp only [Option.some.injEq, Prod.mk.injEq] at h
         obtain ⟨h1, h2⟩ := h; subst h1 h2
         exact ⟨createNode_Good hI _ _ _ nil, createNode_valid hI _ _ _ nil⟩)
    | cases h

theorem Res.valid_mono {m m' : Mgr} (h : Ext m m') {r : Res} (hr : r.valid m) : r.valid m' := by
  cases r <;> simp only [Res.valid] at *
  exact Nat.lt_of_lt_of_le hr h.length_le

theorem resolve_valid {m : Mgr} {rs : List Res} (hrs : ∀ r ∈ rs, r.valid m) {a : SArg} {a' : Arg}
    (h : a.resolve rs = some a') : a'.valid m := by
  cases a with
  | res k =>
    simp only [SArg.resolve] at h
    split at h
    · rename_i r hk
      simp only [Option.some.injEq] at h; subst h
      exact hrs _ (List.mem_of_getElem? hk)
    · cases h
  | _ => simp only [SArg.resolve, Option.some.injEq] at h; subst h; trivial

theorem resolveP_valid {m : Mgr} {rs : List Res} (hrs : ∀ r ∈ rs, r.valid m) {p : PArg SArg} {p' : PArg Arg}
    (h : resolveP rs p = some p') : p'.valid m := by
  cases p with
  | one a =>
    simp only [resolveP, Option.map_eq_some_iff] at h
    obtain ⟨a', h1, h2⟩ := h; subst h2
    exact resolve_valid hrs h1
  | many as =>
    simp only [resolveP, Option.map_eq_some_iff] at h
    obtain ⟨as', h1, h2⟩ := h; subst h2
    intro x hx
    obtain ⟨y, _, hy⟩ := mapM_option_mem h1 x hx
    exact resolve_valid hrs hy

theorem step_good {m : Mgr} (hI : Inv m) {rs : List Res} (hrs : ∀ r ∈ rs, r.valid m) (c : Cmd)
    {m' : Mgr} {res : Res} (h : step m rs c = some (m', res)) : Good m m' ∧ res.valid m' := by
  unfold step at h
  rcases hm : c.args.mapM (resolveP rs) with _ | as
  · simp [hm] at h
  · simp only [hm] at h
    refine apply_good hI c.ctor as ?_ h
    intro p hp
    obtain ⟨y, _, hy⟩ := mapM_option_mem hm p hp
    exact resolveP_valid hrs hy

theorem run_good {m : Mgr} (hI : Inv m) {rs : List Res} (hrs : ∀ r ∈ rs, r.valid m) (cs : List Cmd)
    {m' : Mgr} {rs' : List Res} (h : run m rs cs = some (m', rs')) :
    Good m m' ∧ (∀ r ∈ rs', r.valid m') ∧ rs <+: rs' := by
  induction cs generalizing m rs with
  | nil =>
    simp only [run, Option.some.injEq, Prod.mk.injEq] at h
    obtain ⟨h1, h2⟩ := h; subst h1 h2
    exact ⟨Good.refl hI, hrs, List.prefix_refl _⟩
  | cons c cs ih =>
    simp only [run] at h
    rcases hs : step m rs c with _ | ⟨m1, r⟩
    · simp [hs] at h
    · simp only [hs] at h
      obtain ⟨g1, v1⟩ := step_good hI hrs c hs
      have hrs1 : ∀ x ∈ rs ++ [r], x.valid m1 := by
        intro x hx
        rcases List.mem_append.1 hx with h1 | h1
        · exact Res.valid_mono g1.ext (hrs x h1)
        · simp only [List.mem_singleton] at h1; subst h1; exact v1
      obtain ⟨g2, v2, p2⟩ := ih g1.inv hrs1 h
      exact ⟨g1.trans g2, v2, (List.prefix_append _ _).trans p2⟩

theorem Mgr.new_eq : Mgr.new =
    { heap := [⟨⟨.boolC, [], .bool true⟩, 1⟩, ⟨⟨.boolC, [], .bool false⟩, 2⟩],
      expressions := [(⟨.boolC, [], .bool true⟩, 0), (⟨.boolC, [], .bool false⟩, 1)],
      nextFreeId := 3, trueExpr := 0, falseExpr := 1 } := by
  rfl

theorem Mgr.new_inv : Inv Mgr.new := by
  rw [Mgr.new_eq]
  constructor
  · rfl
  · intro r n h
    match r, h with
    | 0, h => simp at h; subst h; rfl
    | 1, h => simp at h; subst h; rfl
    | r + 2, h => simp at h
  · rfl
  · intro i j a b ha hb hab
    match i, j, ha, hb with
    | 0, 0, _, _ => rfl
    | 1, 1, _, _ => rfl
    | 0, 1, ha, hb => simp at ha hb; subst ha hb; simp at hab
    | 1, 0, ha, hb => simp at ha hb; subst ha hb; simp at hab
    | i + 2, _, ha, _ => simp at ha
    | _, j + 2, _, hb => simp at hb
  · intro r n h a ha
    match r, h with
    | 0, h => simp at h; subst h; simp at ha
    | 1, h => simp at h; subst h; simp at ha
    | r + 2, h => simp at h
  · exact ⟨1, rfl⟩
  · exact ⟨2, rfl⟩

/-! ### re-issuing a call later returns the same result and creates nothing -/

theorem createNode_of_mem {m M : Mgr} (hM : Inv M) (hext : Ext m M) {r : Nat} {n : FNode}
    (hn : m.heap[r]? = some n) :
    createNode M n.content.op n.content.args n.content.payload = (M, r) :=
  createNode_of_some (hM.lookup_of_mem (hext.getElem?_some hn))

theorem createNode_stable {m : Mgr} (hI : Inv m) (op : Op) (args : List Ref) (p : Payload)
    (hv : ∀ a ∈ args, a < m.heap.length) {m' : Mgr} {r : Ref} (h : createNode m op args p = (m', r))
    {M : Mgr} (hM : Inv M) (hext : Ext m' M) : createNode M op args p = (M, r) := by
  obtain ⟨_, _, n, hn, hc⟩ := createNode_good hI op args p hv
  rw [h] at hn
  have := createNode_of_mem hM hext hn
  rw [hc] at this
  exact this

theorem mkBool_ext {m M : Mgr} (h : Ext m M) (b : Bool) : mkBool M b = mkBool m b := by
  simp [mkBool, h.true_, h.false_]

theorem leaf_stable {m : Mgr} (hI : Inv m) (op : Op) (p : Payload) {m' : Mgr} {res : Except Err Ref}
    (h : ((createNode m op [] p).1, (Except.ok (createNode m op [] p).2 : Except Err Ref)) = (m', res))
    {M : Mgr} (hM : Inv M) (hext : Ext m' M) :
    ((createNode M op [] p).1, (Except.ok (createNode M op [] p).2 : Except Err Ref)) = (M, res) := by
  rw [Prod.mk.injEq] at h
  obtain ⟨h1, h2⟩ := h
  have := createNode_stable hI op [] p (by simp) (Prod.ext h1 rfl) hM hext
  rw [this, ← h2]

theorem promote_stable {m : Mgr} (hI : Inv m) (a : Arg) {m' : Mgr} {res : Except Err Ref}
    (h : promote m a = (m', res)) {M : Mgr} (hM : Inv M) (hext : Ext m' M) : promote M a = (M, res) := by
  cases a with
  | node r =>
    have h' : (m, (Except.ok r : Except Err Ref)) = (m', res) := h
    rw [Prod.mk.injEq] at h'
    show (M, (Except.ok r : Except Err Ref)) = (M, res)
    rw [h'.2]
  | bool b =>
    have h' : (m, (Except.ok (mkBool m b) : Except Err Ref)) = (m', res) := h
    rw [Prod.mk.injEq] at h'
    obtain ⟨h1, h2⟩ := h'; subst h1
    show (M, (Except.ok (mkBool M b) : Except Err Ref)) = (M, res)
    rw [mkBool_ext hext, h2]
  | fluent key arity =>
    by_cases hne : arity ≠ 0
    · have h' : (m, (Except.error .arity : Except Err Ref)) = (m', res) := by
        simpa [promote, hne] using h
      rw [Prod.mk.injEq] at h'
      simp only [promote, hne, if_true, ne_eq, not_false_eq_true]
      rw [h'.2]
    · have h' : ((createNode m .fluent [] (.sym key)).1, (Except.ok (createNode m .fluent [] (.sym key)).2 : Except Err Ref)) = (m', res) := by
        simpa [promote, hne] using h
      have := leaf_stable hI _ _ h' hM hext
      simpa [promote, hne] using this
  | param key => exact leaf_stable hI .param (.sym key) h hM hext
  | var key => exact leaf_stable hI .var (.sym key) h hM hext
  | obj key => exact leaf_stable hI .obj (.sym key) h hM hext
  | num l =>
    rcases hu : uniformNumericConstant l with e | ⟨z | q⟩
    · have h' : (m, (Except.error e : Except Err Ref)) = (m', res) := by simpa [promote, hu] using h
      rw [Prod.mk.injEq] at h'
      simp only [promote, hu]
      rw [h'.2]
    · have h' : ((createNode m .intC [] (.int z)).1, (Except.ok (createNode m .intC [] (.int z)).2 : Except Err Ref)) = (m', res) := by
        simpa [promote, hu, mkInt] using h
      have := leaf_stable hI _ _ h' hM hext
      simpa [promote, hu, mkInt] using this
    · have h' : ((createNode m .realC [] (.real q)).1, (Except.ok (createNode m .realC [] (.real q)).2 : Except Err Ref)) = (m', res) := by
        simpa [promote, hu, mkReal] using h
      have := leaf_stable hI _ _ h' hM hext
      simpa [promote, hu, mkReal] using this

theorem autoPromote_stable {m : Mgr} (hI : Inv m) (args : List Arg) (ha : ∀ a ∈ args, a.valid m)
    {m' : Mgr} {res : Except Err (List Ref)} (h : autoPromote m args = (m', res))
    {M : Mgr} (hM : Inv M) (hext : Ext m' M) : autoPromote M args = (M, res) := by
  induction args generalizing m m' res with
  | nil =>
    simp only [autoPromote, Prod.mk.injEq] at h ⊢
    exact ⟨trivial, h.2⟩
  | cons a as ih =>
    obtain ⟨g1, _⟩ := promote_good hI a (ha a (List.mem_cons_self ..))
    rcases hp : promote m a with ⟨m1, e | r⟩
    · rw [autoPromote_cons_err hp, Prod.mk.injEq] at h
      obtain ⟨h1, h2⟩ := h; subst h1 h2
      exact autoPromote_cons_err (promote_stable hI a hp hM hext)
    · rw [hp] at g1
      have ha' : ∀ x ∈ as, x.valid m1 := fun x hx => Arg.valid_mono g1.ext (ha x (List.mem_cons_of_mem _ hx))
      rcases hq : autoPromote m1 as with ⟨m2, e | rs⟩
      · obtain ⟨g2, _⟩ := autoPromote_good g1.inv as ha' hq
        rw [autoPromote_cons_ok_err hp hq, Prod.mk.injEq] at h
        obtain ⟨h1, h2⟩ := h; subst h1 h2
        exact autoPromote_cons_ok_err (promote_stable hI a hp hM (g2.ext.trans hext)) (ih g1.inv ha' hq hext)
      · obtain ⟨g2, _⟩ := autoPromote_good g1.inv as ha' hq
        rw [autoPromote_cons_ok_ok hp hq, Prod.mk.injEq] at h
        obtain ⟨h1, h2⟩ := h; subst h1 h2
        exact autoPromote_cons_ok_ok (promote_stable hI a hp hM (g2.ext.trans hext)) (ih g1.inv ha' hq hext)

theorem mkVia_stable {m : Mgr} (hI : Inv m) (args : List Arg) (ha : ∀ a ∈ args, a.valid m)
    (post : List Ref → Option (Except Err Content))
    (hpost : ∀ rs c, post rs = some (.ok c) → ∀ a ∈ c.args, a ∈ rs)
    {m' : Mgr} {res : Res} (h : mkVia m args post = some (m', res))
    {M : Mgr} (hM : Inv M) (hext : Ext m' M) : mkVia M args post = some (M, res) := by
  unfold mkVia at h ⊢
  rcases hp : autoPromote m args with ⟨m1, e | rs⟩
  · simp only [hp, Option.some.injEq, Prod.mk.injEq] at h
    obtain ⟨h1, h2⟩ := h; subst h1 h2
    simp [autoPromote_stable hI args ha hp hM hext]
  · obtain ⟨g1, v1⟩ := autoPromote_good hI args ha hp
    simp only [hp] at h
    rcases hq : post rs with _ | ⟨e | c⟩
    · simp [hq] at h
    · simp only [hq, Option.some.injEq, Prod.mk.injEq] at h
      obtain ⟨h1, h2⟩ := h; subst h1 h2
      simp [autoPromote_stable hI args ha hp hM hext, hq]
    · simp only [hq, Option.some.injEq, Prod.mk.injEq] at h
      obtain ⟨h1, h2⟩ := h
      have hv : ∀ a ∈ c.args, a < m1.heap.length := fun a ha => v1 rs rfl a (hpost rs c hq a ha)
      have g2 := createNode_Good g1.inv c.op c.args c.payload hv
      rw [h1] at g2
      have e1 := autoPromote_stable hI args ha hp hM (g2.ext.trans hext)
      have e2 := createNode_stable g1.inv c.op c.args c.payload hv (Prod.ext h1 rfl) hM hext
      simp [e1, hq, e2, ← h2]

/-- what the unit of an n-ary constructor must guarantee when re-issued later -/
def UnitStable (unit : Mgr → Mgr × Ref) : Prop :=
  ∀ m, Inv m → ∀ M, Inv M → Ext (unit m).1 M → unit M = (M, (unit m).2)

theorem unitTrue_stable : UnitStable unitTrue := by
  intro m _ M _ hext; simp [unitTrue, hext.true_]
theorem unitFalse_stable : UnitStable unitFalse := by
  intro m _ M _ hext; simp [unitFalse, hext.false_]
theorem unitInt_stable (z : Int) : UnitStable (fun m => mkInt m z) := by
  intro m hI M hM hext
  exact createNode_stable hI .intC [] (.int z) (by simp) rfl hM hext

theorem naryRefs_stable {m : Mgr} (hI : Inv m) (op : Op) {unit : Mgr → Mgr × Ref} (hu : UnitStable unit)
    (rs : List Ref) (hv : ∀ r ∈ rs, r < m.heap.length)
    {M : Mgr} (hM : Inv M) (hext : Ext (naryRefs m op unit rs).1 M) :
    naryRefs M op unit rs = (M, (naryRefs m op unit rs).2) := by
  match rs, hv, hext with
  | [], _, hext => exact hu m hI M hM hext
  | [a], _, _ => rfl
  | a :: b :: t, hv, hext => exact createNode_stable hI op _ .none hv rfl hM hext

theorem mkNary_stable {m : Mgr} (hI : Inv m) (op : Op) {unit : Mgr → Mgr × Ref} (hg : UnitGood unit)
    (hu : UnitStable unit) (args : List Arg) (ha : ∀ a ∈ args, a.valid m)
    {m' : Mgr} {res : Res} (h : mkNary m op unit args = (m', res))
    {M : Mgr} (hM : Inv M) (hext : Ext m' M) : mkNary M op unit args = (M, res) := by
  unfold mkNary at h ⊢
  rcases hp : autoPromote m args with ⟨m1, e | rs⟩
  · simp only [hp, Prod.mk.injEq] at h
    obtain ⟨h1, h2⟩ := h; subst h1 h2
    simp [autoPromote_stable hI args ha hp hM hext]
  · obtain ⟨g1, v1⟩ := autoPromote_good hI args ha hp
    simp only [hp, Prod.mk.injEq] at h
    obtain ⟨h1, h2⟩ := h
    obtain ⟨g2, _⟩ := naryRefs_good g1.inv op hg rs (v1 rs rfl)
    rw [h1] at g2
    have e1 := autoPromote_stable hI args ha hp hM (g2.ext.trans hext)
    have e2 := naryRefs_stable g1.inv op hu rs (v1 rs rfl) hM (by rw [h1]; exact hext)
    simp [e1, e2, ← h2]

theorem notRef_stable {m : Mgr} (hI : Inv m) (e : Ref) {m' : Mgr} {r : Ref}
    (h : notRef m e = some (m', r)) {M : Mgr} (hM : Inv M) (hext : Ext m' M) :
    notRef M e = some (M, r) := by
  obtain ⟨g, _⟩ := notRef_good hI e h
  unfold notRef at h ⊢
  rcases hn : m.heap[e]? with _ | n
  · simp [hn] at h
  · simp only [hn] at h
    rw [(g.ext.trans hext).getElem?_some hn]
    simp only
    split at h
    · rename_i hop
      rcases hargs : n.content.args with _ | ⟨x, xs⟩
      · simp [hargs] at h
      · simp only [hargs, Option.some.injEq, Prod.mk.injEq] at h
        simp [hop, h.2]
    · rename_i hop
      simp only [Option.some.injEq] at h
      have hv : ∀ a ∈ [e], a < m.heap.length := by simpa using lt_of_getElem?_some hn
      have e2 := createNode_stable hI .not [e] .none hv h hM hext
      simp [hop, e2]

theorem mkNot_stable {m : Mgr} (hI : Inv m) (args : List Arg) (ha : ∀ a ∈ args, a.valid m)
    {m' : Mgr} {res : Res} (h : mkNot m args = some (m', res))
    {M : Mgr} (hM : Inv M) (hext : Ext m' M) : mkNot M args = some (M, res) := by
  unfold mkNot at h ⊢
  rcases hp : autoPromote m args with ⟨m1, e | rs⟩
  · simp only [hp, Option.some.injEq, Prod.mk.injEq] at h
    obtain ⟨h1, h2⟩ := h; subst h1 h2
    simp [autoPromote_stable hI args ha hp hM hext]
  · obtain ⟨g1, v1⟩ := autoPromote_good hI args ha hp
    simp only [hp] at h
    match rs, hp, h with
    | [e], hp, h =>
      simp only [Option.map_eq_some_iff] at h
      obtain ⟨⟨m2, r⟩, hn, h2⟩ := h
      simp only [Prod.mk.injEq] at h2
      obtain ⟨h3, h4⟩ := h2; subst h3 h4
      obtain ⟨g2, _⟩ := notRef_good g1.inv e hn
      have e1 := autoPromote_stable hI args ha hp hM (g2.ext.trans hext)
      have e2 := notRef_stable g1.inv e hn hM hext
      simp [e1, e2]
    | [], _, h => simp at h
    | _ :: _ :: _, _, h => simp at h

theorem xorNots_stable {m : Mgr} (hI : Inv m) (a : Ref) (os : List Ref)
    {m' : Mgr} {ns : List Ref} (h : xorNots m a os = some (m', ns))
    {M : Mgr} (hM : Inv M) (hext : Ext m' M) : xorNots M a os = some (M, ns) := by
  induction os generalizing m m' ns with
  | nil =>
    simp only [xorNots, Option.some.injEq, Prod.mk.injEq] at h ⊢
    exact ⟨trivial, h.2⟩
  | cons o os ih =>
    simp only [xorNots] at h ⊢
    split
    · rename_i ho; simp only [ho, if_true] at h; exact ih hI h hext
    · rename_i ho
      simp only [ho, if_false] at h
      rcases hn : notRef m o with _ | ⟨m1, n⟩
      · simp [hn] at h
      · obtain ⟨g1, _⟩ := notRef_good hI o hn
        simp only [hn] at h
        rcases hx : xorNots m1 a os with _ | ⟨m2, ns2⟩
        · simp [hx] at h
        · obtain ⟨g2, _⟩ := xorNots_good g1.inv a os hx
          simp only [hx, Option.some.injEq, Prod.mk.injEq] at h
          obtain ⟨h1, h2⟩ := h; subst h1 h2
          have e1 := notRef_stable hI o hn hM (g2.ext.trans hext)
          have e2 := ih g1.inv hx hext
          simp [e1, e2]

theorem xorTerms_stable {m : Mgr} (hI : Inv m) (all : List Ref) (as : List Ref)
    (hv : ∀ a ∈ as, a < m.heap.length)
    {m' : Mgr} {ts : List Ref} (h : xorTerms m all as = some (m', ts))
    {M : Mgr} (hM : Inv M) (hext : Ext m' M) : xorTerms M all as = some (M, ts) := by
  induction as generalizing m m' ts with
  | nil =>
    simp only [xorTerms, Option.some.injEq, Prod.mk.injEq] at h ⊢
    exact ⟨trivial, h.2⟩
  | cons a as ih =>
    simp only [xorTerms] at h ⊢
    rcases hn : xorNots m a all with _ | ⟨m1, ns⟩
    · simp [hn] at h
    · obtain ⟨g1, v1⟩ := xorNots_good hI a all hn
      simp only [hn] at h
      have hva : ∀ r ∈ a :: ns, r < m1.heap.length := by
        intro r hr
        rcases List.mem_cons.1 hr with h3 | h3
        · subst h3; exact Nat.lt_of_lt_of_le (hv _ (List.mem_cons_self ..)) g1.ext.length_le
        · exact v1 r h3
      obtain ⟨g2, _⟩ := naryRefs_good g1.inv .and unitTrue_good (a :: ns) hva
      have g12 := g1.trans g2
      rcases hx : xorTerms (naryRefs m1 .and unitTrue (a :: ns)).1 all as with _ | ⟨m3, ts3⟩
      · simp [hx] at h
      · have hvas : ∀ r ∈ as, r < (naryRefs m1 .and unitTrue (a :: ns)).1.heap.length :=
          fun r hr => Nat.lt_of_lt_of_le (hv r (List.mem_cons_of_mem _ hr)) g12.ext.length_le
        obtain ⟨g3, _⟩ := xorTerms_good g2.inv all as hvas hx
        simp only [hx, Option.some.injEq, Prod.mk.injEq] at h
        obtain ⟨h1, h2⟩ := h; subst h1 h2
        have e1 := xorNots_stable hI a all hn hM ((g2.ext.trans g3.ext).trans hext)
        have e2 := naryRefs_stable g1.inv .and unitTrue_stable (a :: ns) hva hM (g3.ext.trans hext)
        have e3 := ih g2.inv hvas hx hext
        simp [e1, e2, e3]

theorem mkXOr_stable {m : Mgr} (hI : Inv m) (args : List Arg) (ha : ∀ a ∈ args, a.valid m)
    {m' : Mgr} {res : Res} (h : mkXOr m args = some (m', res))
    {M : Mgr} (hM : Inv M) (hext : Ext m' M) : mkXOr M args = some (M, res) := by
  unfold mkXOr at h ⊢
  rcases hp : autoPromote m args with ⟨m1, e | rs⟩
  · simp only [hp, Option.some.injEq, Prod.mk.injEq] at h
    obtain ⟨h1, h2⟩ := h; subst h1 h2
    simp [autoPromote_stable hI args ha hp hM hext]
  · obtain ⟨g1, v1⟩ := autoPromote_good hI args ha hp
    simp only [hp] at h
    match rs, hp, v1, h with
    | [], hp, _, h =>
      simp only [Option.some.injEq, Prod.mk.injEq] at h
      obtain ⟨h1, h2⟩ := h; subst h1 h2
      simp [autoPromote_stable hI args ha hp hM hext, hext.false_]
    | [a], hp, _, h =>
      simp only [Option.some.injEq, Prod.mk.injEq] at h
      obtain ⟨h1, h2⟩ := h; subst h1 h2
      simp [autoPromote_stable hI args ha hp hM hext]
    | a :: b :: rs, hp, v1, h =>
      simp only at h
      rcases hx : xorTerms m1 (a :: b :: rs) (a :: b :: rs) with _ | ⟨m2, ts⟩
      · simp [hx] at h
      · obtain ⟨g2, v2⟩ := xorTerms_good g1.inv _ _ (v1 _ rfl) hx
        simp only [hx, Option.some.injEq, Prod.mk.injEq] at h
        obtain ⟨h1, h2⟩ := h
        obtain ⟨g3, _⟩ := naryRefs_good g2.inv .or unitFalse_good ts v2
        rw [h1] at g3
        have e1 := autoPromote_stable hI args ha hp hM ((g2.ext.trans g3.ext).trans hext)
        have e2 := xorTerms_stable g1.inv _ _ (v1 _ rfl) hx hM (g3.ext.trans hext)
        have e3 := naryRefs_stable g2.inv .or unitFalse_stable ts v2 hM (by rw [h1]; exact hext)
        simp [e1, e2, e3, ← h2]

theorem mkNary_stable' {m : Mgr} (hI : Inv m) (op : Op) {unit : Mgr → Mgr × Ref} (hg : UnitGood unit)
    (hu : UnitStable unit) (args : List Arg) (ha : ∀ a ∈ args, a.valid m)
    {m' : Mgr} {res : Res} (h : mkNary m op unit args = (m', res))
    {M : Mgr} (hM : Inv M) (hext : Ext m' M) : some (mkNary M op unit args) = some (M, res) := by
  rw [mkNary_stable hI op hg hu args ha h hM hext]

theorem apply_real_stable {m : Mgr} (hI : Inv m) (n : Int) (d : Nat)
    {m' : Mgr} {res : Res} (h : apply m (.real n d) [] = some (m', res))
    {M : Mgr} (hM : Inv M) (hext : Ext m' M) : apply M (.real n d) [] = some (M, res) := by
  have nil : ∀ x ∈ ([] : List Ref), x < m.heap.length := by simp
  simp only [apply] at h ⊢
  split at h
  · cases h
  · rename_i hd
    simp only [Option.some.injEq, Prod.mk.injEq] at h
    obtain ⟨h1, h2⟩ := h
    have e := createNode_stable hI .realC [] _ nil (Prod.ext h1 rfl) hM hext
    rw [if_neg hd]
    simp only [mkReal]
    rw [e, ← h2]
    rfl

theorem apply_stable {m : Mgr} (hI : Inv m) (c : Ctor) (ps : List (PArg Arg)) (hp : ∀ p ∈ ps, p.valid m)
    {m' : Mgr} {res : Res} (h : apply m c ps = some (m', res))
    {M : Mgr} (hM : Inv M) (hext : Ext m' M) : apply M c ps = some (M, res) := by
  have nil : ∀ x ∈ ([] : List Ref), x < m.heap.length := by simp
  unfold apply at h ⊢
  split at h
  all_goals first
    | exact mkVia_stable hI _ (polymorph_valid _ hp) _ (post2_sub _) h hM hext
    | exact mkVia_stable hI _ (polymorph_valid _ hp) _ (post2swap_sub _) h hM hext
    | exact mkVia_stable hI _ (polymorph_valid _ hp) _ (postAll_sub _ _) h hM hext
    | exact mkVia_stable hI _ (polymorph_valid _ hp) _ (postQuant_sub _ _) h hM hext
    | exact mkVia_stable hI _ (polymorph_valid _ hp) _ (postFluent_sub _ _) h hM hext
    | exact mkNot_stable hI _ (polymorph_valid _ hp) h hM hext
    | exact mkXOr_stable hI _ (polymorph_valid _ hp) h hM hext
    | (simp only [Option.some.injEq] at h
       first
         | exact mkNary_stable' hI _ unitTrue_good unitTrue_stable _ (polymorph_valid _ hp) h hM hext
         | exact mkNary_stable' hI _ unitFalse_good unitFalse_stable _ (polymorph_valid _ hp) h hM hext
         | exact mkNary_stable' hI _ (unitInt_good _) (unitInt_stable _) _ (polymorph_valid _ hp) h hM hext)
    | (simp only [Option.some.injEq, Prod.mk.injEq] at h
       obtain ⟨h1, h2⟩ := h
       first
         | (subst h1 h2; rfl)
         | (subst h1 h2; simp [mkBool_ext hext]; done)
         | (subst h1 h2; simp [hext.true_]; done)
         | (subst h1 h2; simp [hext.false_]; done)
         | (have e := createNode_stable hI _ [] _ nil (Prod.ext h1 rfl) hM hext
            simp only [mkInt, mkParameterExp, mkVariableExp, mkObjectExp]
            rw [e, ← h2]
            try rfl))
    | exact apply_real_stable hI _ _ h hM hext
    | cases h

theorem step_stable {m : Mgr} (hI : Inv m) {rs : List Res} (hrs : ∀ r ∈ rs, r.valid m) (c : Cmd)
    {m' : Mgr} {res : Res} (h : step m rs c = some (m', res))
    {M : Mgr} (hM : Inv M) (hext : Ext m' M) : step M rs c = some (M, res) := by
  unfold step at h ⊢
  rcases hm : c.args.mapM (resolveP rs) with _ | as
  · simp [hm] at h
  · simp only [hm] at h ⊢
    refine apply_stable hI c.ctor as ?_ h hM hext
    intro p hp
    obtain ⟨y, _, hy⟩ := mapM_option_mem hm p hp
    exact resolveP_valid hrs hy

theorem take_of_prefix {α} {l l' : List α} (h : l <+: l') : l'.take l.length = l := by
  obtain ⟨t, ht⟩ := h; subst ht; simp

theorem getElem?_of_prefix_snoc {α} {l l' : List α} {x : α} (h : l ++ [x] <+: l') : l'[l.length]? = some x := by
  obtain ⟨t, ht⟩ := h; subst ht; simp

/-- after a history, re-issuing its k-th call (with the results its arguments referred to) in any
    later state returns the k-th result again and changes nothing -/
theorem run_replay {m : Mgr} (hI : Inv m) {rs : List Res} (hrs : ∀ r ∈ rs, r.valid m) (cs : List Cmd)
    {m' : Mgr} {rs' : List Res} (h : run m rs cs = some (m', rs')) :
    ∀ k c, cs[k]? = some c → ∀ M, Inv M → Ext m' M →
      step M (rs'.take (rs.length + k)) c = (rs'[rs.length + k]?).map (fun r => (M, r)) := by
  induction cs generalizing m rs with
  | nil => intro k c hk; simp at hk
  | cons c0 cs ih =>
    simp only [run] at h
    rcases hs : step m rs c0 with _ | ⟨m1, r0⟩
    · simp [hs] at h
    · simp only [hs] at h
      obtain ⟨g1, v1⟩ := step_good hI hrs c0 hs
      have hrs1 : ∀ x ∈ rs ++ [r0], x.valid m1 := by
        intro x hx
        rcases List.mem_append.1 hx with h1 | h1
        · exact Res.valid_mono g1.ext (hrs x h1)
        · simp only [List.mem_singleton] at h1; subst h1; exact v1
      obtain ⟨g2, _, p2⟩ := run_good g1.inv hrs1 cs h
      intro k c hk M hM hext
      cases k with
      | zero =>
        simp only [List.getElem?_cons_zero, Option.some.injEq] at hk; subst hk
        have hp : rs <+: rs' := (List.prefix_append _ _).trans p2
        simp only [Nat.add_zero]
        rw [take_of_prefix hp, getElem?_of_prefix_snoc p2]
        exact step_stable hI hrs c0 hs hM (g2.ext.trans hext)
      | succ k =>
        simp only [List.getElem?_cons_succ] at hk
        have := ih g1.inv hrs1 h k c hk M hM hext
        simp only [List.length_append, List.length_singleton] at this
        rw [show rs.length + (k + 1) = rs.length + 1 + k by omega]
        exact this

/-! ### expression trees -/

def treeStep (acc : List Tree) (n : FNode) : List Tree :=
  acc ++ [Tree.node n.content.op (n.content.args.map (fun a => acc.getD a Tree.dflt)) n.content.payload]

theorem trees_eq_foldl (h : List FNode) : trees h = h.foldl treeStep [] := rfl

theorem foldl_treeStep_prefix (acc : List Tree) (h : List FNode) : acc <+: h.foldl treeStep acc := by
  induction h generalizing acc with
  | nil => exact List.prefix_refl _
  | cons a t ih => exact (List.prefix_append _ _).trans (ih (treeStep acc a))

theorem foldl_treeStep_length (acc : List Tree) (h : List FNode) :
    (h.foldl treeStep acc).length = acc.length + h.length := by
  induction h generalizing acc with
  | nil => simp
  | cons a t ih => rw [List.foldl_cons, ih]; simp [treeStep]; omega

theorem trees_length (h : List FNode) : (trees h).length = h.length := by
  rw [trees_eq_foldl, foldl_treeStep_length]; simp

theorem trees_append (h t : List FNode) : trees (h ++ t) = t.foldl treeStep (trees h) := by
  rw [trees_eq_foldl, List.foldl_append]; rfl

theorem trees_prefix (h t : List FNode) : trees h <+: trees (h ++ t) := by
  rw [trees_append]; exact foldl_treeStep_prefix _ _

theorem getD_of_prefix {α} {l l' : List α} (h : l <+: l') {r : Nat} (hr : r < l.length) (d : α) :
    l'.getD r d = l.getD r d := by
  obtain ⟨t, ht⟩ := h
  subst ht
  simp [List.getD_eq_getElem?_getD, List.getElem?_append_left hr]

/-- the tree of an old node does not change when the heap grows -/
theorem Ext.tree {m m' : Mgr} (h : Ext m m') {r : Nat} (hr : r < m.heap.length) : m'.tree r = m.tree r := by
  obtain ⟨t, ht⟩ := h.heap
  unfold Mgr.tree
  rw [← ht]
  exact getD_of_prefix (trees_prefix _ _) (by rw [trees_length]; exact hr) _

/-- the tree of a node is its operator and payload over the trees of its children -/
theorem Inv.tree_eq {m : Mgr} (hI : Inv m) {r : Nat} {n : FNode} (hn : m.heap[r]? = some n) :
    m.tree r = .node n.content.op (n.content.args.map m.tree) n.content.payload := by
  have hr := lt_of_getElem?_some hn
  -- split the heap at r
  have hsplit : m.heap = m.heap.take r ++ n :: m.heap.drop (r + 1) := by
    have : m.heap[r] = n := by
      rw [List.getElem?_eq_getElem hr] at hn; exact Option.some.inj hn
    rw [← this, List.getElem_cons_drop hr, List.take_append_drop]
  have hlen : (m.heap.take r).length = r := by rw [List.length_take]; omega
  have e1 : m.heap = (m.heap.take r ++ [n]) ++ m.heap.drop (r + 1) := by
    rw [List.append_assoc]; exact hsplit
  have p1 : trees (m.heap.take r ++ [n]) <+: trees m.heap := by
    conv => rhs; rw [e1]
    exact trees_prefix _ _
  have p0 : trees (m.heap.take r) <+: trees (m.heap.take r ++ [n]) := trees_prefix _ _
  have hstep : trees (m.heap.take r ++ [n]) = treeStep (trees (m.heap.take r)) n := by
    rw [trees_append]; rfl
  unfold Mgr.tree
  rw [getD_of_prefix p1 (by rw [trees_length]; simp [hlen]) _, hstep]
  have hl : (trees (m.heap.take r)).length = r := by rw [trees_length, hlen]
  unfold treeStep
  rw [List.getD_eq_getElem?_getD, List.getElem?_append_right (by omega)]
  simp only [hl, Nat.sub_self, List.getElem?_cons_zero, Option.getD_some, Tree.node.injEq, true_and, and_true]
  apply List.map_congr_left
  intro a ha
  have har : a < r := hI.older r n hn a ha
  exact (getD_of_prefix (p0.trans p1) (by omega) _).symm

theorem map_inj_on {α β} {f : α → β} {l1 l2 : List α}
    (hinj : ∀ a ∈ l1, ∀ b ∈ l2, f a = f b → a = b) (h : l1.map f = l2.map f) : l1 = l2 := by
  induction l1 generalizing l2 with
  | nil => cases l2 with
    | nil => rfl
    | cons b t => simp at h
  | cons a t ih =>
    cases l2 with
    | nil => simp at h
    | cons b t2 =>
      simp only [List.map_cons, List.cons.injEq] at h
      rw [hinj a (List.mem_cons_self ..) b (List.mem_cons_self ..) h.1,
        ih (fun x hx y hy => hinj x (List.mem_cons_of_mem _ hx) y (List.mem_cons_of_mem _ hy)) h.2]

/-- hash-consing: two nodes denoting the same expression are the same node -/
theorem Inv.tree_inj {m : Mgr} (hI : Inv m) : ∀ (i j : Nat), i < m.heap.length → j < m.heap.length →
    m.tree i = m.tree j → i = j := by
  intro i
  induction i using Nat.strongRecOn with
  | _ i ih =>
    intro j hi hj h
    obtain ⟨a, ha⟩ : ∃ a, m.heap[i]? = some a := ⟨_, List.getElem?_eq_getElem hi⟩
    obtain ⟨b, hb⟩ : ∃ b, m.heap[j]? = some b := ⟨_, List.getElem?_eq_getElem hj⟩
    rw [hI.tree_eq ha, hI.tree_eq hb, Tree.node.injEq] at h
    obtain ⟨h1, h2, h3⟩ := h
    have hargs : a.content.args = b.content.args := by
      apply map_inj_on _ h2
      intro x hx y hy hxy
      have hxi : x < i := hI.older i a ha x hx
      exact ih x hxi y (Nat.lt_trans hxi hi) (Nat.lt_trans (hI.older j b hb y hy) hj) hxy
    have hc : a.content = b.content := by
      cases ha' : a.content; cases hb' : b.content
      simp only [ha', hb'] at h1 h3 hargs
      simp [h1, h3, hargs]
    exact hI.distinct i j a b ha hb hc

/-! ### numeric literals -/

theorem collapse_value (r : Rat) : (collapse r).value = r := by
  unfold collapse
  split
  · rename_i h; exact Rat.ext rfl (by simp [Num.value, h])
  · rfl

theorem collapse_canonical (r : Rat) : (collapse r).canonical := by
  by_cases h : r.den = 1 <;> simp [collapse, h, Num.canonical]

theorem Num.eq_of_value {v1 v2 : Num} (h1 : v1.canonical) (h2 : v2.canonical)
    (h : v1.value = v2.value) : v1 = v2 := by
  cases v1 <;> cases v2 <;> simp only [Num.value, Num.canonical] at h h1 h2
  · rw [Rat.intCast_inj.mp h]
  · subst h; exact absurd (Rat.den_intCast _) h2
  · subst h; exact absurd (Rat.den_intCast _) h1
  · rw [h]

private def digStep (acc : Option Nat) (c : Char) : Option Nat :=
  match acc, digitVal? c with
  | some a, some d => some (10 * a + d)
  | _, _ => none

private theorem foldl_digStep_none (cs : List Char) : cs.foldl digStep none = none := by
  induction cs with
  | nil => rfl
  | cons c cs ih => simpa [List.foldl_cons, digStep] using ih

private theorem foldl_digStep_some {cs : List Char} {a n : Nat} (h : cs.foldl digStep (some a) = some n) :
    ∀ c ∈ cs, (digitVal? c).isSome := by
  induction cs generalizing a with
  | nil => simp
  | cons c cs ih =>
    rw [List.foldl_cons] at h
    rcases hd : digitVal? c with _ | d
    · simp [digStep, hd, foldl_digStep_none] at h
    · simp only [digStep, hd] at h
      intro x hx
      rcases List.mem_cons.1 hx with h1 | h1
      · subst h1; simp [hd]
      · exact ih h x h1

theorem digitsVal?_all_digits {cs : List Char} {n : Nat} (h : digitsVal? cs = some n) :
    ∀ c ∈ cs, (digitVal? c).isSome := by
  unfold digitsVal? at h
  split at h
  · cases h
  · exact foldl_digStep_some h

theorem digit_not_sep {c : Char} (h : (digitVal? c).isSome) : (c != '/' && c != '.') = true := by
  by_cases h1 : c = '/'
  · subst h1; simp [digitVal?] at h
  · by_cases h2 : c = '.'
    · subst h2; simp [digitVal?] at h
    · simp [h1, h2]

theorem span_loop_all {α} (p : α → Bool) (l acc : List α) (h : ∀ a ∈ l, p a = true) :
    List.span.loop p l acc = (acc.reverse ++ l, []) := by
  induction l generalizing acc with
  | nil => simp [List.span.loop]
  | cons a t ih =>
    simp only [List.span.loop, h a (List.mem_cons_self ..)]
    rw [ih _ (fun x hx => h x (List.mem_cons_of_mem _ hx))]
    simp

theorem span_all {α} (p : α → Bool) (l : List α) (h : ∀ a ∈ l, p a = true) : l.span p = (l, []) := by
  unfold List.span; rw [span_loop_all p l [] h]; simp

/-- when `int(s)` succeeds, `Fraction(s)` denotes the same number -/
theorem parseFrac_of_parseInt {s : String} {z : Int} (h : parseIntStr s = some z) :
    parseFracStr s = some (.ok (z : Rat)) := by
  unfold parseIntStr at h
  unfold parseFracStr
  rcases hs : splitSign s.toList with ⟨neg, r⟩
  simp only [hs] at h ⊢
  rcases hd : digitsVal? r with _ | n
  · simp [hd] at h
  · simp only [hd, Option.some.injEq] at h
    have hall := digitsVal?_all_digits hd
    rw [span_all _ r (fun c hc => digit_not_sep (hall c hc))]
    simp only [hd]
    subst h
    cases neg <;> simp

theorem uniform_spec {l : Lit} {v : Num} (h : uniformNumericConstant l = .ok v) :
    l.value = some v.value ∧ v.canonical := by
  cases l with
  | int z =>
    simp only [uniformNumericConstant, Except.ok.injEq] at h; subst h
    exact ⟨rfl, trivial⟩
  | frac n d =>
    simp only [uniformNumericConstant, Except.ok.injEq] at h; subst h
    exact ⟨by simp [Lit.value, collapse_value], collapse_canonical _⟩
  | float n d =>
    simp only [uniformNumericConstant, Except.ok.injEq] at h; subst h
    exact ⟨by simp [Lit.value, collapse_value], collapse_canonical _⟩
  | str s =>
    simp only [uniformNumericConstant] at h
    rcases hi : parseIntStr s with _ | z
    · simp only [hi] at h
      rcases hf : parseFracStr s with _ | ⟨e | r⟩
      · simp [hf] at h
      · simp [hf] at h
      · simp only [hf, Except.ok.injEq] at h; subst h
        exact ⟨by simp [Lit.value, hf, collapse_value], collapse_canonical _⟩
    · simp only [hi, Except.ok.injEq] at h; subst h
      exact ⟨by simp [Lit.value, parseFrac_of_parseInt hi, Num.value], trivial⟩

theorem promote_num_int {m : Mgr} {l : Lit} {z : Int} (h : uniformNumericConstant l = .ok (.i z)) :
    promote m (.num l) = ((mkInt m z).1, .ok (mkInt m z).2) := by
  simp [promote, h]

theorem promote_num_real {m : Mgr} {l : Lit} {r : Rat} (h : uniformNumericConstant l = .ok (.q r)) :
    promote m (.num l) = ((mkReal m r).1, .ok (mkReal m r).2) := by
  simp [promote, h]

end UPVerif.HashCons
