import UPVerif.Core.Declared
/-! substitution keeps every reference declared when the inserted values are declared -/
namespace UPVerif.Declared
open UPVerif UPVerif.Expr

theorem lookup_mem {σ : Subst} {k v : Expr} (h : σ.lookup k = some v) : ∃ kv ∈ σ, kv.2 = v := by
  induction σ with
  | nil => simp [List.lookup] at h
  | cons p ps ih =>
    obtain ⟨a, b⟩ := p
    simp only [List.lookup] at h
    split at h
    · exact ⟨(a, b), List.mem_cons_self .., by simpa using h⟩
    · obtain ⟨kv, hm, e⟩ := ih h
      exact ⟨kv, List.mem_cons_of_mem _ hm, e⟩

theorem declaredList_cons (D : Decls) (e : Expr) (es : List Expr) :
    declaredList D (e :: es) = (declared D e && declaredList D es) := by
  simp [declaredList]

theorem declared_rebuild (D : Decls) (op : Op) (as : List Expr)
    (hop : opDeclared D op = true) (has : declaredList D as = true) : declared D (rebuild op as) = true := by
  have happ : declared D (.app op as) = true := by simp [declared, hop, has]
  unfold rebuild
  split
  · -- and
    unfold mkAnd
    split
    · simp [tt, declared, leafDeclared]
    · simpa [declaredList] using has
    · simpa [declared, opDeclared] using has
  · unfold mkOr
    split
    · simp [ff, declared, leafDeclared]
    · simpa [declaredList] using has
    · simpa [declared, opDeclared] using has
  · -- not [x]
    rename_i x
    unfold mkNot
    split
    · simp [declaredList, declared, opDeclared] at has
      exact has
    · simpa [declared, opDeclared, declaredList] using has
  · unfold mkPlus
    split
    · simp [Expr.int, declared, leafDeclared]
    · simpa [declaredList] using has
    · simpa [declared, opDeclared] using has
  · unfold mkTimes
    split
    · simp [Expr.int, declared, leafDeclared]
    · simpa [declaredList] using has
    · simpa [declared, opDeclared] using has
  · exact happ

theorem declared_walkReplaceOrIdentity (D : Decls) (σ : Subst) (hσ : ∀ kv ∈ σ, declared D kv.2 = true)
    (e : Expr) (args : List Expr) (hid : declared D (identityNode e args) = true) :
    declared D (walkReplaceOrIdentity σ e args) = true := by
  unfold walkReplaceOrIdentity
  split
  · rename_i v hv
    obtain ⟨kv, hm, e'⟩ := lookup_mem hv
    rw [← e']; exact hσ kv hm
  · exact hid

mutual
theorem declared_subst (D : Decls) (σ : Subst) (hσ : ∀ kv ∈ σ, declared D kv.2 = true) :
    ∀ e, declared D e = true → declared D (subst σ e) = true
  | .leaf l, h => by
    unfold subst
    split
    · rename_i v hv
      obtain ⟨kv, hm, e⟩ := lookup_mem hv
      rw [← e]; exact hσ kv hm
    · exact declared_walkReplaceOrIdentity D σ hσ _ _ (by simpa [identityNode] using h)
  | .app op args, h => by
    unfold subst
    split
    · rename_i v hv
      obtain ⟨kv, hm, e⟩ := lookup_mem hv
      rw [← e]; exact hσ kv hm
    · simp only [declared, Bool.and_eq_true] at h
      exact declared_walkReplaceOrIdentity D σ hσ _ _
        (by simpa [identityNode] using declared_rebuild D op _ h.1 (declaredList_subst D σ hσ args h.2))
  | .quant q vs body, h => by
    unfold subst
    split
    · rename_i v hv
      obtain ⟨kv, hm, e⟩ := lookup_mem hv
      rw [← e]; exact hσ kv hm
    · simp only [declared, Bool.and_eq_true] at h
      apply declared_walkReplaceOrIdentity D σ hσ
      simp only [identityNode, declared, Bool.and_eq_true]
      refine ⟨h.1, ?_⟩
      split
      · exact h.2
      · exact declared_subst D _ (fun kv hm => hσ kv (List.mem_filter.1 hm).1) body h.2
theorem declaredList_subst (D : Decls) (σ : Subst) (hσ : ∀ kv ∈ σ, declared D kv.2 = true) :
    ∀ es, declaredList D es = true → declaredList D (substList σ es) = true
  | [], _ => by simp [substList, declaredList]
  | e :: es, h => by
    simp only [declaredList, Bool.and_eq_true] at h
    simp only [substList, declaredList, Bool.and_eq_true]
    exact ⟨declared_subst D σ hσ e h.1, declaredList_subst D σ hσ es h.2⟩
end

theorem groundSubst_values (D : Decls) (params : List (String × Ty)) (objs : List (String × String))
    (hobjs : ∀ o ∈ objs, D.objects.contains o = true ∧ D.types.contains o.2 = true) :
    ∀ kv ∈ groundSubst params objs, declared D kv.2 = true := by
  intro kv hm
  simp only [groundSubst, List.mem_map] at hm
  obtain ⟨po, hpo, e⟩ := hm
  have ho : po.2 ∈ objs := (List.of_mem_zip hpo).2
  have := hobjs po.2 ho
  rw [← e]
  have h1 := this.1
  have h2 := this.2
  simp only [List.contains_iff_mem] at h1 h2
  simp only [declared, leafDeclared, Bool.and_eq_true, List.contains_iff_mem]
  exact ⟨h1, h2⟩

end UPVerif.Declared
