import UPVerif.Lemmas.TypeOfSound
/-! Helper lemmas for `Props/C15Repeat.lean`: operand lists made of copies of one expression
    (`List.replicate n e`) under `typeOfList` / `denList`, and the sign of a power computed as the
    reference denotation computes it (left fold of `*` from `1`). -/
namespace UPVerif
namespace TypeOf

variable {E : TypeEnv} {ι : Interp} {ρ : VEnv}

theorem typeOfList_replicate {e : Expr} {t : Ty} (h : typeOf E e = some t) (n : Nat) :
    typeOfList E (List.replicate n e) = some (List.replicate n t) := by
  induction n with
  | zero => rfl
  | succ n ih => simp only [List.replicate_succ, typeOfList, h, ih]

/-- the types of a list of operands that all have the type `t` -/
theorem typeOfList_const {t : Ty} : ∀ (bs : List Expr), (∀ b, b ∈ bs → typeOf E b = some t) →
    typeOfList E bs = some (List.replicate bs.length t)
  | [], _ => rfl
  | b :: bs, h => by
    have hb := h b (by simp)
    have ih := typeOfList_const bs (fun c hc => h c (by simp [hc]))
    simp only [typeOfList, hb, ih, List.length_cons, List.replicate_succ]

/-- `qⁿ` as the reference denotation computes it (`denOp .times`: left fold from `1`) -/
def powR (q : Rat) (n : Nat) : Rat := (List.replicate n q).foldl (· * ·) 1

theorem denList_replicate {e : Expr} {v : Val} (h : den ι ρ e = some v) (n : Nat) :
    denList ι ρ (List.replicate n e) = some (List.replicate n v) := by
  induction n with
  | zero => rfl
  | succ n ih => simp only [List.replicate_succ, denList, h, ih]

theorem allNums_replicate (q : Rat) (n : Nat) :
    allNums (List.replicate n (.n q)) = some (List.replicate n q) := by
  induction n with
  | zero => rfl
  | succ n ih => simp only [List.replicate_succ, allNums, ih, Option.map_some]

/-- an even number of negative factors keeps the sign of the accumulator -/
theorem foldl_even_sign {q : Rat} (hq : q < 0) : ∀ (k : Nat) (a : Rat),
    (0 < a → 0 < (List.replicate (2 * k) q).foldl (· * ·) a) ∧
    (a < 0 → (List.replicate (2 * k) q).foldl (· * ·) a < 0)
  | 0, a => by simp
  | k + 1, a => by
    have hrep : List.replicate (2 * (k + 1)) q = q :: q :: List.replicate (2 * k) q := by
      have : 2 * (k + 1) = (2 * k + 1) + 1 := by omega
      rw [this, List.replicate_succ, List.replicate_succ]
    rw [hrep]
    simp only [List.foldl_cons]
    have ih := foldl_even_sign hq k (a * q * q)
    constructor
    · intro ha
      exact ih.1 (mul_pos_of_neg_of_neg (mul_neg_of_pos_of_neg ha hq) hq)
    · intro ha
      exact ih.2 (mul_neg_of_pos_of_neg (mul_pos_of_neg_of_neg ha hq) hq)

/-- an odd power of a negative number is negative -/
theorem powR_odd_neg {q : Rat} (hq : q < 0) (k : Nat) : powR q (2 * k + 1) < 0 := by
  unfold powR
  rw [List.replicate_succ]
  simp only [List.foldl_cons]
  exact (foldl_even_sign hq k (1 * q)).2 (by simpa using hq)

/-- an even power is never negative -/
theorem powR_even_nonneg (q : Rat) (k : Nat) : 0 ≤ powR q (2 * k) := by
  unfold powR
  rcases lt_trichotomy q 0 with hq | hq | hq
  · exact le_of_lt ((foldl_even_sign hq k 1).1 (by decide))
  · subst hq
    cases k with
    | zero => simp
    | succ k =>
      have : 2 * (k + 1) = (2 * k + 1) + 1 := by omega
      rw [this, List.replicate_succ]
      simp only [List.foldl_cons, mul_zero]
      have hz : ∀ (l : List Rat), l.foldl (· * ·) 0 = 0 := by
        intro l; induction l with
        | nil => rfl
        | cons x xs ih => simpa using ih
      rw [hz]
  · have hp : ∀ (n : Nat) (a : Rat), 0 < a → 0 < (List.replicate n q).foldl (· * ·) a := by
      intro n
      induction n with
      | zero => intro a ha; simpa using ha
      | succ n ih =>
        intro a ha
        rw [List.replicate_succ]
        simp only [List.foldl_cons]
        exact ih _ (mul_pos ha hq)
    exact le_of_lt (hp _ 1 (by decide))

theorem leaves_replicate {e : Expr} {l : Leaf} : ∀ (n : Nat),
    l ∈ Expr.leavesList (List.replicate n e) → l ∈ e.leaves
  | 0, h => by simp [Expr.leavesList] at h
  | n + 1, h => by
    rw [List.replicate_succ] at h
    simp only [Expr.leavesList, List.mem_append] at h
    rcases h with h | h
    · exact h
    · exact leaves_replicate n h

end TypeOf
end UPVerif
