import UPVerif.Lemmas.CompileBTRKey
import UPVerif.Lemmas.CompileFresh
/-!
BoundedTypesRemover, part 2: effects, fired effects, consistency and successor states commute with the renaming
of the fluent symbols (`Lemmas/CompileBTRKey.lean`), provided the renaming is injective on the declared fluents
(`Inj`: two declared fluents with the same unbounded copy are the same fluent) and the effects target declared fluents.
-/
namespace UPVerif.Compile
open UPVerif UPVerif.Expr UPVerif.Sim UPVerif.Spec

def mapFiredRes : Except EvalErr (Option Fired) → Except EvalErr (Option Fired)
  | .ok o => .ok (o.map rnFired)
  | .error x => .error x

theorem isTrue_rn (e : Expr) : (rn e).isTrue = e.isTrue := by
  cases e with
  | leaf l => rfl
  | app op args => rfl
  | quant q vs b => rfl

theorem ub_ty_bool (f : FluentRef) : ((unboundRef f).ty == Ty.bool) = (f.ty == Ty.bool) := by
  obtain ⟨n, ty, sig⟩ := f
  cases ty <;> rfl

/-- the body of `evalEff` as a function of the evaluated pieces -/
def effResult (k : GKey) (isBool : Bool) (kind : EffKind) (isCond : Bool) (rc rv : Except EvalErr Val) :
    Except EvalErr (Option Fired) :=
  let fires : Except EvalErr Bool :=
    if isCond then
      match rc with
      | .error x => .error x
      | .ok v => .ok (v == .b true)
    else .ok true
  match fires with
  | .error x => .error x
  | .ok false => .ok none
  | .ok true =>
    match rv with
    | .error x => .error x
    | .ok v =>
      match kind with
      | .assign =>
        if isBool then
          match v with
          | .b b => .ok (some (.setB k b))
          | _ => .error .other
        else .ok (some (.setV k v))
      | .increase => (match v with
        | .n d => .ok (some (.delta k d))
        | _ => .error .other)
      | .decrease => (match v with
        | .n d => .ok (some (.delta k (-d)))
        | _ => .error .other)

theorem evalEff_fluent (c : EvalCtx) (f : FluentRef) (args : List Expr) (v cnd : Expr) (k : EffKind) (fa : List Var) :
    evalEff c { fluent := .app (.fluent f) args, value := v, cond := cnd, kind := k, forall_ := fa } =
      match evalArgs c args with
      | .error x => .error x
      | .ok vs => effResult (f, vs) (f.ty == .bool) k (!cnd.isTrue) (eval c [] cnd) (eval c [] v) := rfl

theorem effResult_rn (k : GKey) (isBool : Bool) (kind : EffKind) (isCond : Bool) (rc rv : Except EvalErr Val) :
    effResult (rnKey k) isBool kind isCond rc rv = mapFiredRes (effResult k isBool kind isCond rc rv) := by
  unfold effResult
  cases isCond with
  | true =>
    cases rc with
    | error e => rfl
    | ok cv =>
      cases hcv : (cv == Val.b true) with
      | false => simp [hcv, mapFiredRes]
      | true =>
        simp only [hcv, if_true]
        cases rv with
        | error e => rfl
        | ok w =>
          cases kind with
          | assign => cases isBool <;> cases w <;> rfl
          | increase => cases w <;> rfl
          | decrease => cases w <;> rfl
  | false =>
    simp only [Bool.false_eq_true, if_false]
    cases rv with
    | error e => rfl
    | ok w =>
      cases kind with
      | assign => cases isBool <;> cases w <;> rfl
      | increase => cases w <;> rfl
      | decrease => cases w <;> rfl

theorem evalEff_rn {D : List FluentRef} {cB cA : EvalCtx} (h : RelCtx D cB cA) (x : Effect)
    (hx : effRefsIn D x = true) : evalEff cB (rnEff x) = mapFiredRes (evalEff cA x) := by
  obtain ⟨fl, v, cnd, k, fa⟩ := x
  unfold effRefsIn at hx
  simp only [Bool.and_eq_true] at hx
  obtain ⟨⟨h1, h2⟩, h3⟩ := hx
  cases fl with
  | leaf l => rfl
  | quant q vs b => rfl
  | app op args =>
    cases op <;> try rfl
    rename_i f
    have hargs : refsInList D args = true := by
      simp only [refsIn, Bool.and_eq_true] at h1; exact h1.2
    have e1 : rnEff { fluent := .app (.fluent f) args, value := v, cond := cnd, kind := k, forall_ := fa } =
        { fluent := .app (.fluent (unboundRef f)) (rnList args), value := rn v, cond := rn cnd, kind := k,
          forall_ := fa } := by
      simp only [rnEff, rn, rnOp]
    rw [e1, evalEff_fluent, evalEff_fluent, evalArgs_rn h args hargs, (eval_rn h).1 cnd [] h3,
      (eval_rn h).1 v [] h2, ub_ty_bool, isTrue_rn]
    cases evalArgs cA args with
    | error e => rfl
    | ok vs => exact effResult_rn (f, vs) _ _ _ _ _

theorem fired_rn {D : List FluentRef} {cB cA : EvalCtx} (h : RelCtx D cB cA) : ∀ (E : List Effect),
    (∀ e ∈ E, effRefsIn D e = true) → fired cB (E.map rnEff) = (fired cA E).map (fun F => F.map rnFired)
  | [], _ => rfl
  | e :: es, hE => by
    have e1 : fired cB ((e :: es).map rnEff) = (match evalEff cB (rnEff e), fired cB (es.map rnEff) with
      | .ok none, some Fs => some Fs
      | .ok (some f), some Fs => some (f :: Fs)
      | _, _ => none) := rfl
    have e2 : fired cA (e :: es) = (match evalEff cA e, fired cA es with
      | .ok none, some Fs => some Fs
      | .ok (some f), some Fs => some (f :: Fs)
      | _, _ => none) := rfl
    rw [e1, e2, evalEff_rn h e (hE e (List.mem_cons_self ..)),
        fired_rn h es (fun x hx => hE x (List.mem_cons_of_mem _ hx))]
    cases evalEff cA e with
    | error x => rfl
    | ok o =>
      cases o with
      | none => cases fired cA es <;> rfl
      | some f => cases fired cA es <;> rfl

/-- the fired effects of effects on declared fluents touch declared fluents only -/
theorem fired_keysIn {D : List FluentRef} {c : EvalCtx} {E : List Effect} {F : List Fired}
    (hE : ∀ e ∈ E, effRefsIn D e = true) (hF : fired c E = some F) : ∀ f ∈ F, f.key.1 ∈ D := by
  rw [fired_eq] at hF
  split at hF
  · cases hF
    intro f hf
    rw [List.mem_filterMap] at hf
    obtain ⟨e, he, hsel⟩ := hf
    unfold effSel at hsel
    cases hev : evalEff c e with
    | error x => rw [hev] at hsel; cases hsel
    | ok o =>
      cases o with
      | none => rw [hev] at hsel; cases hsel
      | some f' =>
        rw [hev] at hsel
        cases hsel
        obtain ⟨ref, args, hfl, hkey⟩ := evalEff_key hev
        rw [hkey]
        have hr := hE e he
        unfold effRefsIn at hr
        simp only [Bool.and_eq_true] at hr
        have hm := hr.1.1
        rw [hfl] at hm
        simp only [refsIn, Bool.and_eq_true] at hm
        simpa using hm.1
  · cases hF

/-! ### consistency and new values -/

theorem rnKey_eq_iff {D : List FluentRef} (hI : Inj D) {k k' : GKey} (hk : k.1 ∈ D) (hk' : k'.1 ∈ D) :
    rnKey k' = rnKey k ↔ k' = k := by
  obtain ⟨f, vs⟩ := k
  obtain ⟨f', vs'⟩ := k'
  unfold rnKey
  simp only [Prod.mk.injEq]
  constructor
  · rintro ⟨h1, h2⟩; exact ⟨hI f' hk' f hk h1, h2⟩
  · rintro ⟨h1, h2⟩; rw [h1, h2]; exact ⟨rfl, rfl⟩

theorem key_rnFired (f : Fired) : (rnFired f).key = rnKey f.key := by
  cases f <;> rfl

theorem sel_rn {D : List FluentRef} (hI : Inj D) {k : GKey} (hk : k.1 ∈ D) {f : Fired} (hf : f.key.1 ∈ D) :
    selB (rnKey k) (rnFired f) = selB k f ∧ selV (rnKey k) (rnFired f) = selV k f ∧
    selD (rnKey k) (rnFired f) = selD k f := by
  cases f with
  | setB k' b =>
    have hiff : rnKey k' = rnKey k ↔ k' = k := rnKey_eq_iff hI hk hf
    simp only [rnFired, selB, selV, selD, and_true]
    by_cases he : k' = k
    · rw [if_pos he, if_pos (hiff.2 he)]
    · rw [if_neg he, if_neg (fun x => he (hiff.1 x))]
  | setV k' v =>
    have hiff : rnKey k' = rnKey k ↔ k' = k := rnKey_eq_iff hI hk hf
    simp only [rnFired, selB, selV, selD, true_and, and_true]
    by_cases he : k' = k
    · rw [if_pos he, if_pos (hiff.2 he)]
    · rw [if_neg he, if_neg (fun x => he (hiff.1 x))]
  | delta k' d =>
    have hiff : rnKey k' = rnKey k ↔ k' = k := rnKey_eq_iff hI hk hf
    simp only [rnFired, selB, selV, selD, true_and]
    by_cases he : k' = k
    · rw [if_pos he, if_pos (hiff.2 he)]
    · rw [if_neg he, if_neg (fun x => he (hiff.1 x))]

theorem filterMap_congr_mem {α β : Type} {f g : α → Option β} : ∀ {l : List α}, (∀ x ∈ l, f x = g x) →
    l.filterMap f = l.filterMap g
  | [], _ => rfl
  | x :: xs, h => by
    rw [List.filterMap_cons, List.filterMap_cons, h x (List.mem_cons_self ..),
      filterMap_congr_mem (fun y hy => h y (List.mem_cons_of_mem _ hy))]

theorem asg_rn {D : List FluentRef} (hI : Inj D) {F : List Fired} (hF : ∀ f ∈ F, f.key.1 ∈ D) {k : GKey}
    (hk : k.1 ∈ D) :
    asgB (F.map rnFired) (rnKey k) = asgB F k ∧ asgV (F.map rnFired) (rnKey k) = asgV F k ∧
    deltas (F.map rnFired) (rnKey k) = deltas F k := by
  unfold asgB asgV deltas
  rw [List.filterMap_map, List.filterMap_map, List.filterMap_map]
  exact ⟨filterMap_congr_mem (fun f hf => (sel_rn hI hk (hF f hf)).1),
         filterMap_congr_mem (fun f hf => (sel_rn hI hk (hF f hf)).2.1),
         filterMap_congr_mem (fun f hf => (sel_rn hI hk (hF f hf)).2.2)⟩

theorem consK_rn {D : List FluentRef} (hI : Inj D) {gB gA : St} (hR : Rel D gB gA) {F : List Fired}
    (hF : ∀ f ∈ F, f.key.1 ∈ D) {k : GKey} (hk : k.1 ∈ D) :
    ConsK gB (F.map rnFired) (rnKey k) ↔ ConsK gA F k := by
  obtain ⟨h1, h2, h3⟩ := asg_rn hI hF hk
  unfold ConsK
  rw [h1, h2, h3]
  have : gB (rnKey k) = gA k := (hR k.1 hk k.2).symm
  rw [this]

theorem cons_rn {D : List FluentRef} (hI : Inj D) {gB gA : St} (hR : Rel D gB gA) {F : List Fired}
    (hF : ∀ f ∈ F, f.key.1 ∈ D) : Cons gB (F.map rnFired) ↔ Cons gA F := by
  unfold Cons
  constructor
  · intro h f hf
    have := h (rnFired f) (List.mem_map_of_mem hf)
    rw [key_rnFired] at this
    exact (consK_rn hI hR hF (hF f hf)).1 this
  · intro h f' hf'
    obtain ⟨f, hf, rfl⟩ := List.mem_map.1 hf'
    rw [key_rnFired]
    exact (consK_rn hI hR hF (hF f hf)).2 (h f hf)

theorem newVal_rn {D : List FluentRef} (hI : Inj D) {gB gA : St} (hR : Rel D gB gA) {F : List Fired}
    (hF : ∀ f ∈ F, f.key.1 ∈ D) {k : GKey} (hk : k.1 ∈ D) :
    newVal gB (F.map rnFired) (rnKey k) = newVal gA F k := by
  obtain ⟨h1, h2, h3⟩ := asg_rn hI hF hk
  unfold newVal
  rw [h1, h2, h3]
  have : gB (rnKey k) = gA k := (hR k.1 hk k.2).symm
  rw [this]

/-- related states have related successors -/
theorem succGet_rn {D : List FluentRef} (hI : Inj D) {gB gA : St} (hR : Rel D gB gA) {F : List Fired}
    (hF : ∀ f ∈ F, f.key.1 ∈ D) : Rel D (succGet gB (F.map rnFired)) (succGet gA F) := by
  intro f hf vs
  have hk : ((f, vs) : GKey).1 ∈ D := hf
  have := newVal_rn hI hR hF hk
  unfold succGet
  have e : rnKey (f, vs) = (unboundRef f, vs) := rfl
  rw [← e, this, hR f hf vs, e]

end UPVerif.Compile
