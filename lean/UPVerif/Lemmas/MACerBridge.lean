import UPVerif.Lemmas.MAConflict
import UPVerif.Lemmas.CompileCER
/-!
C37's own copy of the per-action powerset split (`Core/Compile/MACond.lean`, written before the
single-agent model existed) and the single-agent model of the SAME Python helper
(`ConditionalEffectsRemover._create_unconditional_actions`, `Core/Compile/CER.lean`, properties C06/C07)
are the same function: every ingredient is equal, hence the yielded variants are.  Also the forall
expansion, which C37 takes from `Core/Compile/CER.lean` as it is (`Compile.cerExpand`), with the lemma
C06/C07 prove about it.
-/
namespace UPVerif.MA
open UPVerif UPVerif.Expr UPVerif.Sim UPVerif.MASpec

theorem combinations_eq_combos {α : Type} : ∀ (l : List α) (r : Nat), combinations l r = Compile.combos l r
  | l, 0 => by cases l <;> rfl
  | [], _ + 1 => rfl
  | x :: xs, r + 1 => by
    simp only [combinations, Compile.combos]
    rw [combinations_eq_combos xs r, combinations_eq_combos xs (r + 1)]

theorem powerset_range_eq (n : Nat) : powerset (List.range n) = Compile.powerset n := by
  unfold powerset Compile.powerset
  rw [List.length_range]
  congr 1
  funext r
  exact combinations_eq_combos _ r

theorem staticAdd_eq_staticAll : ∀ (L : List Effect) (acc : StaticAcc), staticAdd L acc = Compile.staticAll acc L
  | [], _ => rfl
  | e :: L, acc => by
    simp only [staticAdd, Compile.staticAll]
    cases staticStep acc e with
    | none => rfl
    | some acc' => exact staticAdd_eq_staticAll L acc'

theorem addPre_eq (pre : List Expr) (e : Expr) : addPre pre e = Compile.addPre pre e := rfl

theorem simplifyPre_eq (simp : Expr → Expr) (pre : List Expr) :
    MA.simplifyPre simp pre = Compile.simplifyPreWith simp pre := by
  unfold MA.simplifyPre Compile.simplifyPreWith
  split
  · rfl
  · cases simp (mkAnd pre) with
    | leaf l => cases l <;> rfl
    | app op as => cases op <;> rfl
    | quant q vs b => rfl

theorem variantLoop_eq_cerLoop (p : List Nat) : ∀ (C : List Effect) (i : Nat) (pre : List Expr) (acc : StaticAcc)
    (effs : List Effect), variantLoop p (enumFrom i C) pre acc effs = Compile.cerLoop p C i pre effs acc
  | [], _, _, _, _ => rfl
  | e :: C, i, pre, acc, effs => by
    simp only [enumFrom, variantLoop, Compile.cerLoop]
    split
    · have hu : uncond e = { e with cond := Expr.tt } := rfl
      rw [hu]
      cases staticStep acc { e with cond := Expr.tt } with
      | none => rfl
      | some acc' => exact variantLoop_eq_cerLoop p C (i + 1) _ acc' _
    · exact variantLoop_eq_cerLoop p C (i + 1) _ acc _

/-- the body of a compiled action -/
def bodyOf (a : Action) : Body := ⟨a.pre, a.effs⟩

/-- ONE ITERATION: C37's `condVariant` is the single-agent `cerVariant` (the only difference: an action whose
    OWN unconditional effects are refused — which the library cannot build — makes `condVariant` answer
    "the exception escapes", `cerVariant` "nothing yielded") -/
theorem condVariant_eq_cerVariant (simp : Expr → Expr) (a : Action) (p : List Nat) :
    condVariant simp a p =
      if Accepted a then some ((Compile.cerVariant simp a p).map bodyOf) else none := by
  have hcer : Compile.cerVariant simp a p =
      (match Compile.staticAll ⟨[], []⟩ (uncondEffects a) with
       | none => none
       | some acc0 =>
         match Compile.cerLoop p (condEffects a) 0 a.pre (uncondEffects a) acc0 with
         | none => none
         | some (pre, effs) =>
           if effs.isEmpty then none
           else match Compile.simplifyPreWith simp pre with
             | none => none
             | some pre' => some { a with pre := pre', effs := effs }) := rfl
  rw [hcer, ← staticAdd_eq_staticAll]
  unfold condVariant
  by_cases h : Accepted a
  · rw [if_pos h]
    unfold Accepted at h
    cases h0 : staticAdd (uncondEffects a) ⟨[], []⟩ with
    | none => rw [h0] at h; cases h
    | some acc0 =>
      simp only
      rw [variantLoop_eq_cerLoop]
      cases Compile.cerLoop p (condEffects a) 0 a.pre (uncondEffects a) acc0 with
      | none => rfl
      | some r =>
        obtain ⟨pre, effs⟩ := r
        simp only
        split
        · rfl
        · rw [simplifyPre_eq]
          cases Compile.simplifyPreWith simp pre <;> rfl
  · rw [if_neg h]
    unfold Accepted at h
    cases h0 : staticAdd (uncondEffects a) ⟨[], []⟩ with
    | none => rfl
    | some acc0 => exact absurd (by rw [h0]; rfl) h

theorem collect_some_map {α β : Type} (f : α → Option β) : ∀ (l : List α),
    collect (l.map (fun x => some (f x))) = some (l.filterMap f)
  | [] => rfl
  | x :: l => by
    rw [List.map_cons, List.filterMap_cons]
    cases hx : f x with
    | none => simp only [collect]; exact collect_some_map f l
    | some b => simp only [collect, collect_some_map f l, Option.map_some]

/-- THE WHOLE HELPER: the bodies C37's model yields for an action are the variants of the single-agent model,
    in the same order -/
theorem condBodies_eq_cerVariants (simp : Expr → Expr) (a : Action) (h : Accepted a) :
    condBodies simp a = some ((Compile.cerVariants simp a).map bodyOf) := by
  unfold condBodies Compile.cerVariants
  have hC : condEffects a = a.effs.filter (fun e => e.isConditional) := rfl
  rw [← hC, powerset_range_eq]
  have : (Compile.powerset (condEffects a).length).map (condVariant simp a) =
      (Compile.powerset (condEffects a).length).map (fun p => some ((Compile.cerVariant simp a p).map bodyOf)) := by
    apply List.map_congr_left
    intro p _
    rw [condVariant_eq_cerVariant, if_pos h]
  rw [this, collect_some_map, List.map_filterMap]

end UPVerif.MA
