import UPVerif.Lemmas.KindOfExtBase
/-! Helper lemmas for `Props/C10Ext.lean`: multi-agent problems.  Every `set` of a statement feature
    that `_KindFactory` would certainly execute on the reading `MProblem.toK` is either a statement
    `MultiAgentProblem.kind` has too (`mProg`) or one of the statements it lacks (`mBlindProg`). -/
namespace UPVerif.KindOf
open UPVerif UPVerif.Spec

variable {F : Facts} {M : MProblem} {S : SU} {u : List FluentDecl} {f : Feature}

theorem updType_toK_env (t : Ty) : updType M.toK t = updType M.env t := by
  cases t <;> rfl

theorem condProg_eq_mCond (e : Expr) : condProg e = mCond e := rfl

/-- a feature that is not one of the statement's -/
theorem not_statement {g : Feature} (hf : f ∈ statementFeatures) (hg : g ∉ statementFeatures) (h : f = g) : False := by
  subst h; exact hg hf

/-! ### slots of `mProg` -/

theorem mProg_goal {c : Expr} (hc : c ∈ M.goals) (h : Sets f (mCond c)) : Sets f (mProg M) := by
  unfold mProg
  iterate 4 apply Sets.tail
  exact Sets.head (Sets.map_of hc h)

theorem mProg_agent {ag : MAgent} (ha : ag ∈ M.agents)
    (h : Sets f (.seq [mAgentGoals ag, .seq (ag.iactions.map (mIAct M)), .seq (ag.dactions.map (mDAct M))])) :
    Sets f (mProg M) := by
  unfold mProg
  iterate 3 apply Sets.tail
  exact Sets.head (Sets.map_of (g := fun ag => Prog.seq [mAgentGoals ag, .seq (ag.iactions.map (mIAct M)),
    .seq (ag.dactions.map (mDAct M))]) ha h)

theorem mProg_agentGoal {ag : MAgent} {c : Expr} (ha : ag ∈ M.agents) (hc : c ∈ ag.privateGoals ++ ag.publicGoals)
    (h : Sets f (mCond c)) : Sets f (mProg M) := by
  refine mProg_agent ha (Sets.head ?_)
  unfold mAgentGoals
  exact Sets.tail (Sets.tail (Sets.head (Sets.map_of hc h)))

theorem mProg_iact {ag : MAgent} {a : IAct} (ha : ag ∈ M.agents) (hm : a ∈ ag.iactions) (h : Sets f (mIAct M a)) :
    Sets f (mProg M) :=
  mProg_agent ha (Sets.tail (Sets.head (Sets.map_of hm h)))

theorem mProg_dact {ag : MAgent} {a : DAct} (ha : ag ∈ M.agents) (hm : a ∈ ag.dactions) (h : Sets f (mDAct M a)) :
    Sets f (mProg M) :=
  mProg_agent ha (Sets.tail (Sets.tail (Sets.head (Sets.map_of hm h))))

theorem mProg_fluent {d : FluentDecl} (hd : d ∈ M.toK.fluents) (h : Sets f (mFluent M d)) : Sets f (mProg M) := by
  unfold mProg
  rcases List.mem_append.1 (show d ∈ M.envFluents ++ M.agents.flatMap (·.fluents) from hd) with hd | hd
  · exact Sets.tail (Sets.tail (Sets.head (Sets.map_of hd h)))
  · obtain ⟨ag, ha, hdm⟩ := List.mem_flatMap.1 hd
    exact Sets.tail (Sets.head (Sets.map_of (g := fun ag => Prog.seq (ag.fluents.map (mFluent M))) ha (Sets.map_of hdm h)))

/-! ### slots of `mBlindProg` -/

theorem mBlind_object {o : String × String} (ho : o ∈ M.objects) (h : Sets f (updType M.toK (.user o.2))) :
    Sets f (mBlindProg F M S) := by
  unfold mBlindProg
  exact Sets.head (Sets.map_of ho h)

theorem mBlind_sig {d : FluentDecl} {pt : Ty} (hd : d ∈ M.toK.fluents) (hp : pt ∈ d.ref.sig) (h : Sets f (sigKindProg pt)) :
    Sets f (mBlindProg F M S) := by
  unfold mBlindProg
  exact Sets.tail (Sets.head (Sets.map_of (g := fun d => Prog.seq (d.ref.sig.map sigKindProg)) hd (Sets.map_of hp h)))

theorem mBlind_iact {a : IAct} (ha : a ∈ M.toK.iactions)
    (h : Sets f (.seq [.seq (a.params.map (fun p => paramKindProg p.2)), .seq (a.effs.map (mBlindEffect M.toK S))])) :
    Sets f (mBlindProg F M S) := by
  unfold mBlindProg
  exact Sets.tail (Sets.tail (Sets.head (Sets.map_of (g := fun a => Prog.seq [.seq (a.params.map (fun p => paramKindProg p.2)),
    .seq (a.effs.map (mBlindEffect M.toK S))]) ha h)))

theorem mBlind_dact {a : DAct} (ha : a ∈ M.toK.dactions)
    (h : Sets f (.seq [.seq (a.params.map (fun p => paramKindProg p.2)), updDuration S a.durLo a.durHi,
      .seq (a.conds.map (updTimedCond F)), .seq (a.effs.map (updTimedEff F M.toK S)), .seq (a.ceffs.map updTimedCEff),
      contLoop F (a.ceffs.map (·.2))])) :
    Sets f (mBlindProg F M S) := by
  unfold mBlindProg
  exact Sets.tail (Sets.tail (Sets.tail (Sets.head (Sets.map_of (g := fun a => Prog.seq [
    .seq (a.params.map (fun p => paramKindProg p.2)), updDuration S a.durLo a.durHi,
    .seq (a.conds.map (updTimedCond F)), .seq (a.effs.map (updTimedEff F M.toK S)), .seq (a.ceffs.map updTimedCEff),
    contLoop F (a.ceffs.map (·.2))]) ha h))))

/-! ### pieces -/

/-- `update_action_parameter` = the type, then the parameter kind -/
theorem updParam_inv {t : Ty} (h : Sets f (updParam M.toK t)) : Sets f (updType M.env t) ∨ Sets f (paramKindProg t) := by
  unfold updParam at h
  rcases Sets.cons_inv h with h | h
  · exact Or.inl (updType_toK_env (M := M) t ▸ h)
  rcases Sets.cons_inv h with h | h
  · right
    cases t <;> exact h
  · exact (Sets.nil_inv h).elim

/-- `update_problem_kind_fluent`: everything but the Boolean / integer parameter kinds is in `mFluent` -/
theorem updFluent_inv {d : FluentDecl} (h : Sets f (updFluent M.toK S d)) :
    Sets f (mFluent M d) ∨ ∃ pt, pt ∈ d.ref.sig ∧ Sets f (sigKindProg pt) := by
  unfold updFluent at h
  simp only [] at h
  rcases Sets.cons_inv h with h | h
  · obtain ⟨_, h⟩ := Sets.when_inv h
    left
    unfold mFluent
    exact Sets.head (updType_toK_env (M := M) _ ▸ h)
  rcases Sets.cons_inv h with h | h
  · left
    unfold mFluent
    refine Sets.tail (Sets.head ?_)
    cases hty : d.ref.ty with
    | int lb ub =>
      simp only [hty] at h ⊢
      rcases Sets.cons_inv h with h | h
      · exact Sets.head h
      rcases Sets.cons_inv h with h | h
      · obtain ⟨_, h⟩ := Sets.when_inv h
        exact Sets.tail (Sets.head h)
      · exact (Sets.nil_inv h).elim
    | real lb ub =>
      simp only [hty] at h ⊢
      rcases Sets.cons_inv h with h | h
      · exact Sets.head h
      rcases Sets.cons_inv h with h | h
      · obtain ⟨_, h⟩ := Sets.when_inv h
        exact Sets.tail (Sets.head h)
      · exact (Sets.nil_inv h).elim
    | user n => simp only [hty] at h ⊢; exact h
    | bool => simp only [hty] at h; exact (Sets.skip_inv h).elim
    | time => simp only [hty] at h; exact (Sets.skip_inv h).elim
  rcases Sets.cons_inv h with h | h
  · obtain ⟨pt, hp, h⟩ := Sets.map_inv h
    rcases Sets.cons_inv h with h | h
    · left
      unfold mFluent
      exact Sets.tail (Sets.tail (Sets.head (Sets.map_of hp (updType_toK_env (M := M) pt ▸ h))))
    rcases Sets.cons_inv h with h | h
    · right
      refine ⟨pt, hp, ?_⟩
      cases pt <;> exact h
    · exact (Sets.nil_inv h).elim
  · exact (Sets.nil_inv h).elim

/-- the value-dependent part of `updEffect`'s third statement -/
theorem effKindProg_inv {e : Effect} (h : Sets f (effKindProg S e)) :
    (e.kind = .increase ∧ f = "INCREASE_EFFECTS") ∨ (e.kind = .decrease ∧ f = "DECREASE_EFFECTS") ∨
      Sets f (effValueProg S e) := by
  unfold effKindProg at h
  unfold effValueProg
  simp only [] at h ⊢
  cases hk : e.kind with
  | increase =>
    simp only [hk] at h ⊢
    rcases Sets.cons_inv h with h | h
    · exact Or.inl ⟨trivial, Sets.set_inv h⟩
    rcases Sets.cons_inv h with h | h
    · obtain ⟨hc, h⟩ := Sets.when_inv h
      rcases Sets.cons_inv h with h | h
      · exact (Sets.unset_inv h).elim
      rcases Sets.cons_inv h with h | h
      · exact Or.inr (Or.inr (Sets.head (.when' hc h)))
      · exact (Sets.nil_inv h).elim
    rcases Sets.cons_inv h with h | h
    · obtain ⟨hc, h⟩ := Sets.when_inv h
      rcases Sets.cons_inv h with h | h
      · exact (Sets.unset_inv h).elim
      rcases Sets.cons_inv h with h | h
      · exact Or.inr (Or.inr (Sets.tail (Sets.head (.when' hc h))))
      · exact (Sets.nil_inv h).elim
    · exact (Sets.nil_inv h).elim
  | decrease =>
    simp only [hk] at h ⊢
    rcases Sets.cons_inv h with h | h
    · exact Or.inr (Or.inl ⟨trivial, Sets.set_inv h⟩)
    rcases Sets.cons_inv h with h | h
    · obtain ⟨hc, h⟩ := Sets.when_inv h
      rcases Sets.cons_inv h with h | h
      · exact (Sets.unset_inv h).elim
      rcases Sets.cons_inv h with h | h
      · exact Or.inr (Or.inr (Sets.head (.when' hc h)))
      · exact (Sets.nil_inv h).elim
    rcases Sets.cons_inv h with h | h
    · obtain ⟨hc, h⟩ := Sets.when_inv h
      rcases Sets.cons_inv h with h | h
      · exact (Sets.unset_inv h).elim
      rcases Sets.cons_inv h with h | h
      · exact Or.inr (Or.inr (Sets.tail (Sets.head (.when' hc h))))
      · exact (Sets.nil_inv h).elim
    · exact (Sets.nil_inv h).elim
  | assign =>
    simp only [hk] at h ⊢
    right; right
    cases ht : tcOf e.value with
    | int =>
      simp only [ht] at h ⊢
      rcases Sets.cons_inv h with h | h
      · obtain ⟨hc, h⟩ := Sets.when_inv h
        rcases Sets.cons_inv h with h | h
        · exact (Sets.unset_inv h).elim
        rcases Sets.cons_inv h with h | h
        · exact Sets.head (.when' hc h)
        · exact (Sets.nil_inv h).elim
      rcases Sets.cons_inv h with h | h
      · obtain ⟨_, h⟩ := Sets.when_inv h
        exact (Sets.unset_inv h).elim
      rcases Sets.cons_inv h with h | h
      · exact Sets.tail (Sets.head h)
      · exact (Sets.nil_inv h).elim
    | real =>
      simp only [ht] at h ⊢
      rcases Sets.cons_inv h with h | h
      · obtain ⟨hc, h⟩ := Sets.when_inv h
        rcases Sets.cons_inv h with h | h
        · exact (Sets.unset_inv h).elim
        rcases Sets.cons_inv h with h | h
        · exact Sets.head (.when' hc h)
        · exact (Sets.nil_inv h).elim
      rcases Sets.cons_inv h with h | h
      · obtain ⟨_, h⟩ := Sets.when_inv h
        exact (Sets.unset_inv h).elim
      rcases Sets.cons_inv h with h | h
      · exact Sets.tail (Sets.head h)
      · exact (Sets.nil_inv h).elim
    | bool => simp only [ht] at h ⊢; exact h
    | user => simp only [ht] at h ⊢; exact h
    | time => simp only [ht] at h; exact (Sets.skip_inv h).elim
    | other => simp only [ht] at h; exact (Sets.skip_inv h).elim

theorem updEffect_split {e : Effect} (h : Sets f (updEffect F M.toK S e)) :
    Sets f (effKindProg S e) ∨
    Sets f (.when e.isConditional (.seq [updExpr F e.cond, .set "CONDITIONAL_EFFECTS", .when (targetIsNum e.fluent) .unsetSNP])) ∨
    Sets f (.when (!e.forall_.isEmpty) (.seq (.set "FORALL_EFFECTS" :: e.forall_.map (fun v => updType M.toK v.ty)))) := by
  obtain ⟨p, hm, hp⟩ := Sets.seq_inv (by unfold updEffect at h; exact h)
  simp only [List.mem_cons, List.mem_nil_iff, or_false] at hm
  rcases hm with rfl | rfl | rfl
  · exact Or.inr (Or.inl hp)
  · exact Or.inr (Or.inr hp)
  · exact Or.inl (by unfold effKindProg; exact hp)

/-- `update_problem_kind_effect` = `_update_problem_kind_effect` + forall-variable types + the value -/
theorem updEffect_inv {e : Effect} (hf : f ∈ statementFeatures) (h : Sets f (updEffect F M.toK S e)) :
    Sets f (mEffect e) ∨ Sets f (mBlindEffect M.toK S e) := by
  rcases updEffect_split h with h | h | h
  · rcases effKindProg_inv h with ⟨hk, rfl⟩ | ⟨hk, rfl⟩ | h
    · left
      unfold mEffect
      refine Sets.tail (Sets.tail (Sets.head ?_))
      simp only [hk]; exact .set
    · left
      unfold mEffect
      refine Sets.tail (Sets.tail (Sets.head ?_))
      simp only [hk]; exact .set
    · right
      unfold mBlindEffect
      exact Sets.tail (Sets.head h)
  · obtain ⟨hc, h⟩ := Sets.when_inv h
    left
    unfold mEffect
    refine Sets.head (.when' hc ?_)
    rcases Sets.cons_inv h with h | h
    · rcases updExpr_inv h with h | h
      · exact Sets.head (condProg_eq_mCond e.cond ▸ h)
      · exact (not_statement hf (by decide) h).elim
    rcases Sets.cons_inv h with h | h
    · exact Sets.tail (Sets.head h)
    rcases Sets.cons_inv h with h | h
    · obtain ⟨_, h⟩ := Sets.when_inv h
      exact (Sets.unset_inv h).elim
    · exact (Sets.nil_inv h).elim
  · obtain ⟨hc, h⟩ := Sets.when_inv h
    rcases Sets.cons_inv h with h | h
    · left
      unfold mEffect
      exact Sets.tail (Sets.head (.when' hc h))
    · right
      unfold mBlindEffect
      exact Sets.head (.when' hc h)

theorem updIAct_inv {a : IAct} (hf : f ∈ statementFeatures) (h : Sets f (updIAct F M.toK S a)) :
    Sets f (mIAct M a) ∨
    Sets f (.seq [.seq (a.params.map (fun p => paramKindProg p.2)), .seq (a.effs.map (mBlindEffect M.toK S))]) := by
  unfold updIAct at h
  rcases Sets.cons_inv h with h | h
  · obtain ⟨p, hp, h⟩ := Sets.map_inv h
    rcases updParam_inv h with h | h
    · left; unfold mIAct; exact Sets.head (Sets.map_of hp h)
    · right; exact Sets.head (Sets.map_of hp h)
  rcases Sets.cons_inv h with h | h
  · obtain ⟨c, hc, h⟩ := Sets.map_inv h
    rcases updExpr_inv h with h | h
    · left; unfold mIAct; exact Sets.tail (Sets.head (Sets.map_of hc (condProg_eq_mCond c ▸ h)))
    · exact (not_statement hf (by decide) h).elim
  rcases Sets.cons_inv h with h | h
  · obtain ⟨e, he, h⟩ := Sets.map_inv h
    rcases updEffect_inv hf h with h | h
    · left; unfold mIAct; exact Sets.tail (Sets.tail (Sets.head (Sets.map_of he h)))
    · right; exact Sets.tail (Sets.head (Sets.map_of he h))
  rcases Sets.cons_inv h with h | h
  · obtain ⟨_, h⟩ := Sets.when_inv h
    exact (not_statement hf (by decide) (Sets.set_inv h)).elim
  · exact (Sets.nil_inv h).elim

theorem updDAct_inv {a : DAct} (hf : f ∈ statementFeatures) (h : Sets f (updDAct F M.toK S a)) :
    Sets f (mDAct M a) ∨
    Sets f (.seq [.seq (a.params.map (fun p => paramKindProg p.2)), updDuration S a.durLo a.durHi,
      .seq (a.conds.map (updTimedCond F)), .seq (a.effs.map (updTimedEff F M.toK S)), .seq (a.ceffs.map updTimedCEff),
      contLoop F (a.ceffs.map (·.2))]) := by
  unfold updDAct at h
  rcases Sets.cons_inv h with h | h
  · obtain ⟨p, hp, h⟩ := Sets.map_inv h
    rcases updParam_inv h with h | h
    · left; unfold mDAct; exact Sets.head (Sets.map_of hp h)
    · right; exact Sets.head (Sets.map_of hp h)
  rcases Sets.cons_inv h with h | h
  · right; exact Sets.tail (Sets.head h)
  rcases Sets.cons_inv h with h | h
  · right; exact Sets.tail (Sets.tail (Sets.head h))
  rcases Sets.cons_inv h with h | h
  · right; exact Sets.tail (Sets.tail (Sets.tail (Sets.head h)))
  rcases Sets.cons_inv h with h | h
  · right; exact Sets.tail (Sets.tail (Sets.tail (Sets.tail (Sets.head h))))
  rcases Sets.cons_inv h with h | h
  · obtain ⟨_, h⟩ := Sets.when_inv h
    exact (not_statement hf (by decide) (Sets.set_inv h)).elim
  rcases Sets.cons_inv h with h | h
  · exact (not_statement hf (by decide) (Sets.set_inv h)).elim
  rcases Sets.cons_inv h with h | h
  · right; exact Sets.tail (Sets.tail (Sets.tail (Sets.tail (Sets.tail (Sets.head h)))))
  · exact (Sets.nil_inv h).elim

/-! ### the whole program -/

theorem mem_agents_of_iact {a : IAct} (h : a ∈ M.toK.iactions) : ∃ ag, ag ∈ M.agents ∧ a ∈ ag.iactions :=
  List.mem_flatMap.1 h

theorem mem_agents_of_dact {a : DAct} (h : a ∈ M.toK.dactions) : ∃ ag, ag ∈ M.agents ∧ a ∈ ag.dactions :=
  List.mem_flatMap.1 h

theorem kindProg_mProg (hf : f ∈ statementFeatures) (hn1 : f ≠ "UNDEFINED_INITIAL_NUMERIC")
    (hn2 : f ≠ "UNDEFINED_INITIAL_SYMBOLIC") (h : Sets f (kindProg F M.toK S u)) :
    Sets f (mProg M) ∨ Sets f (mBlindProg F M S) := by
  unfold kindProg at h
  rcases Sets.cons_inv h with h | h
  · exact (not_statement hf (by decide) (Sets.set_inv h)).elim
  rcases Sets.cons_inv h with h | h
  · exact (not_statement hf (by decide) (Sets.set_inv h)).elim
  rcases Sets.cons_inv h with h | h
  · obtain ⟨_, hm, _⟩ := Sets.map_inv h
    simp [MProblem.toK] at hm
  rcases Sets.cons_inv h with h | h
  · obtain ⟨d, hd, h⟩ := Sets.map_inv h
    rcases updFluent_inv h with h | ⟨pt, hp, h⟩
    · exact Or.inl (mProg_fluent hd h)
    · exact Or.inr (mBlind_sig hd hp h)
  rcases Sets.cons_inv h with h | h
  · obtain ⟨o, ho, h⟩ := Sets.map_inv h
    exact Or.inr (mBlind_object ho h)
  rcases Sets.cons_inv h with h | h
  · obtain ⟨a, ha, h⟩ := Sets.map_inv h
    rcases updIAct_inv hf h with h | h
    · obtain ⟨ag, hag, hm⟩ := mem_agents_of_iact ha
      exact Or.inl (mProg_iact hag hm h)
    · exact Or.inr (mBlind_iact ha h)
  rcases Sets.cons_inv h with h | h
  · obtain ⟨a, ha, h⟩ := Sets.map_inv h
    rcases updDAct_inv hf h with h | h
    · obtain ⟨ag, hag, hm⟩ := mem_agents_of_dact ha
      exact Or.inl (mProg_dact hag hm h)
    · exact Or.inr (mBlind_dact ha h)
  rcases Sets.cons_inv h with h | h
  · obtain ⟨hc, _⟩ := Sets.when_inv h
    simp [MProblem.toK] at hc
  rcases Sets.cons_inv h with h | h
  · obtain ⟨_, hm, _⟩ := Sets.map_inv h
    simp [MProblem.toK] at hm
  rcases Sets.cons_inv h with h | h
  · obtain ⟨_, hm, _⟩ := Sets.map_inv h
    simp [MProblem.toK] at hm
  rcases Sets.cons_inv h with h | h
  · obtain ⟨_, hm, _⟩ := Sets.map_inv h
    simp [MProblem.toK] at hm
  rcases Sets.cons_inv h with h | h
  · obtain ⟨hc, _⟩ := Sets.when_inv h
    simp [MProblem.toK] at hc
  rcases Sets.cons_inv h with h | h
  · obtain ⟨_, hm, _⟩ := Sets.map_inv h
    simp [MProblem.toK] at hm
  rcases Sets.cons_inv h with h | h
  · obtain ⟨c, hm, h⟩ := Sets.map_inv h
    left
    rcases updExpr_inv h with h | h
    · have h' : Sets f (mCond c) := condProg_eq_mCond c ▸ h
      rcases List.mem_append.1 hm with hm | hm
      · simp [MProblem.toK] at hm
      · rcases List.mem_append.1 (show c ∈ M.goals ++ M.agents.flatMap (fun ag => ag.privateGoals ++ ag.publicGoals)
            from hm) with hm | hm
        · exact mProg_goal hm h'
        · obtain ⟨ag, hag, hc⟩ := List.mem_flatMap.1 hm
          exact mProg_agentGoal hag hc h'
    · exact (not_statement hf (by decide) h).elim
  rcases Sets.cons_inv h with h | h
  · obtain ⟨d, _, h⟩ := Sets.map_inv (show Sets f (.seq (u.map (fun d =>
        if tyIsNum d.ref.ty then Prog.set "UNDEFINED_INITIAL_NUMERIC" else .set "UNDEFINED_INITIAL_SYMBOLIC"))) from h)
    rcases Sets.ite_inv h with h | h
    · exact absurd (Sets.set_inv h) hn1
    · exact absurd (Sets.set_inv h) hn2
  rcases Sets.cons_inv h with h | h
  · obtain ⟨hc, _⟩ := Sets.when_inv h
    simp [MProblem.toK] at hc
  rcases Sets.cons_inv h with h | h
  · obtain ⟨hc, _⟩ := Sets.when_inv h
    simp [MProblem.toK] at hc
  · exact (Sets.nil_inv h).elim

/-- the class-level rules of `UsesM` -/
theorem usesM_class_sets (h : UsesM M f) :
    (Uses M.toK f ∧ f ≠ "UNDEFINED_INITIAL_NUMERIC" ∧ f ≠ "UNDEFINED_INITIAL_SYMBOLIC") ∨ Sets f (mProg M) := by
  cases h with
  | base hu h1 h2 => exact Or.inl ⟨hu, h1, h2⟩
  | multiAgent => exact Or.inr (by unfold mProg; exact Sets.head .set)
  | publicGoal ha hg =>
    refine Or.inr (mProg_agent ha (Sets.head ?_))
    unfold mAgentGoals
    exact Sets.head (.when' (by simpa using hg) .set)
  | privateGoal ha hg =>
    refine Or.inr (mProg_agent ha (Sets.head ?_))
    unfold mAgentGoals
    exact Sets.tail (Sets.head (.when' (by simpa using hg) .set))

theorem usesM_feature (h : UsesM M f) : f ∈ statementFeatures ∨ f ∈ classFeatures := by
  cases h with
  | base hb _ _ => exact Or.inl (uses_statementFeature hb)
  | _ => exact Or.inr (by simp [classFeatures])

end UPVerif.KindOf
