import UPVerif.Lemmas.CompileLiftSIR
/-!
Sufficient SYNTACTIC conditions for two of the decidable hypotheses of the lifted compiler theorems
(`condStable`, `sirLiftOK`): expressions in the expression manager's NORMAL FORM — what `ExpressionManager.And / Or /
Not / Plus / Times` build: no `And`/`Or`/`Plus`/`Times` node with fewer than two arguments, no double negation.

On such an expression `substitute` (which rebuilds every node through the manager) is the plain structural
replacement of the parameter leaves (`subst_eq_pmap`); hence instantiation keeps whether a condition is the constant
TRUE (`condStable_of_mgrNF`) and leaves an expression without parameters unchanged (`substE_of_noParam`).
-/
namespace UPVerif.Compile
open UPVerif UPVerif.Expr UPVerif.Sim UPVerif.Spec

/-- a node the manager's constructors would not normalise further -/
def nodeNF (op : Op) (args : List Expr) : Bool :=
  match op, args with
  | .and, as => decide (2 ≤ as.length)
  | .or, as => decide (2 ≤ as.length)
  | .plus, as => decide (2 ≤ as.length)
  | .times, as => decide (2 ≤ as.length)
  | .not, [.app .not [_]] => false
  | _, _ => true

mutual
/-- the expression is in the manager's normal form -/
def mgrNF : Expr → Bool
  | .leaf _ => true
  | .app op args => nodeNF op args && mgrNFList args
  | .quant _ _ b => mgrNF b
def mgrNFList : List Expr → Bool
  | [] => true
  | e :: es => mgrNF e && mgrNFList es
end

mutual
/-- plain structural replacement of the leaves that are keys of `σ` -/
def pmap (σ : Subst) : Expr → Expr
  | .leaf l => (σ.lookup (.leaf l)).getD (.leaf l)
  | .app op args => .app op (pmapList σ args)
  | .quant q vs b => .quant q vs (pmap σ b)
def pmapList (σ : Subst) : List Expr → List Expr
  | [] => []
  | e :: es => pmap σ e :: pmapList σ es
end

theorem pmapList_length (σ : Subst) : ∀ es : List Expr, (pmapList σ es).length = es.length
  | [] => by rw [pmapList]
  | e :: es => by rw [pmapList, List.length_cons, List.length_cons, pmapList_length σ es]

/-- `.app .not [_]` -/
def isNotNode : Expr → Bool
  | .app .not [_] => true
  | _ => false

theorem isNotNode_pmap {σ : Subst} (hσ : IsParamSubst σ) (x : Expr) : isNotNode (pmap σ x) = isNotNode x := by
  cases x with
  | leaf l =>
    rw [pmap]
    cases hl : σ.lookup (.leaf l) with
    | none => rfl
    | some v =>
      obtain ⟨_, ⟨o, t, hv⟩⟩ := hσ (.leaf l, v) (mem_of_lookup_eq_some σ _ _ hl)
      simp only at hv
      rw [hv]; rfl
  | app op args =>
    rw [pmap]
    cases op <;> try rfl
    match args with
    | [] => rfl
    | [a] => rw [pmapList, pmapList]; rfl
    | a :: b :: t => rw [pmapList, pmapList]; rfl
  | quant q vs b => rw [pmap]; rfl

/-- on a node in normal form the manager rebuilds exactly the node -/
theorem rebuild_of_nodeNF {σ : Subst} (hσ : IsParamSubst σ) {op : Op} {args : List Expr} (h : nodeNF op args = true) :
    rebuild op (pmapList σ args) = .app op (pmapList σ args) := by
  have hlen := pmapList_length σ args
  cases op with
  | and =>
    have h2 : 2 ≤ args.length := by simpa [nodeNF] using h
    match hm : pmapList σ args, hlen with
    | [], hl => simp at hl; omega
    | [x], hl => simp at hl; omega
    | x :: y :: t, _ => rfl
  | or =>
    have h2 : 2 ≤ args.length := by simpa [nodeNF] using h
    match hm : pmapList σ args, hlen with
    | [], hl => simp at hl; omega
    | [x], hl => simp at hl; omega
    | x :: y :: t, _ => rfl
  | plus =>
    have h2 : 2 ≤ args.length := by simpa [nodeNF] using h
    match hm : pmapList σ args, hlen with
    | [], hl => simp at hl; omega
    | [x], hl => simp at hl; omega
    | x :: y :: t, _ => rfl
  | times =>
    have h2 : 2 ≤ args.length := by simpa [nodeNF] using h
    match hm : pmapList σ args, hlen with
    | [], hl => simp at hl; omega
    | [x], hl => simp at hl; omega
    | x :: y :: t, _ => rfl
  | not =>
    match args, h with
    | [], _ => rfl
    | [x], h =>
      rw [pmapList, pmapList]
      show mkNot (pmap σ x) = _
      have hx : isNotNode x = false := by
        cases x with
        | leaf l => rfl
        | quant q vs b => rfl
        | app op as =>
          cases op <;> try rfl
          match as, h with
          | [], _ => rfl
          | [y], h => simp [nodeNF] at h
          | y :: z :: t, _ => rfl
      have hx' : isNotNode (pmap σ x) = false := by rw [isNotNode_pmap hσ]; exact hx
      unfold mkNot
      split
      · rename_i y hy; rw [hy] at hx'; cases hx'
      · rfl
    | x :: y :: t, _ => rw [pmapList, pmapList]; rfl
  | _ => rfl

mutual
/-- on a normal-form expression, substitution of parameters is the structural replacement -/
theorem subst_eq_pmap {σ : Subst} (hσ : IsParamSubst σ) : ∀ (e : Expr), mgrNF e = true → subst σ e = pmap σ e
  | .leaf l, _ => by
    rw [pmap]
    cases hl : σ.lookup (.leaf l) with
    | none => rw [subst_leaf_none σ l hl]; rfl
    | some v => rw [subst_of_lookup_some σ _ _ hl]; rfl
  | .app op args, h => by
    rw [mgrNF, Bool.and_eq_true] at h
    rw [subst_app_none σ op args (hσ.lookup_app op args), substList_eq_pmapList hσ args h.2, pmap,
      rebuild_of_nodeNF hσ h.1]
  | .quant q vs b, h => by
    rw [mgrNF] at h
    rw [subst_quant_none σ q vs b (hσ.lookup_quant q vs b), pmap]
    have hk : keptUnder vs σ = σ := by
      unfold keptUnder
      rw [List.filter_eq_self]
      intro kv hkv
      obtain ⟨⟨n, t, hk⟩, _⟩ := hσ kv hkv
      rw [hk]; simp [freeVars]
    rw [hk]
    cases hs : σ.isEmpty with
    | true =>
      have : σ = [] := by simpa using hs
      subst this
      simp only [if_true]
      congr 1
      exact (pmap_nil b).symm
    | false =>
      simp only [Bool.false_eq_true, if_false]
      rw [subst_eq_pmap hσ b h]
theorem substList_eq_pmapList {σ : Subst} (hσ : IsParamSubst σ) : ∀ (es : List Expr), mgrNFList es = true →
    substList σ es = pmapList σ es
  | [], _ => by rw [substList_nil, pmapList]
  | e :: es, h => by
    rw [mgrNFList, Bool.and_eq_true] at h
    rw [substList_cons, pmapList, subst_eq_pmap hσ e h.1, substList_eq_pmapList hσ es h.2]
theorem pmap_nil : ∀ (e : Expr), pmap [] e = e
  | .leaf l => by rw [pmap]; rfl
  | .app op args => by rw [pmap, pmapList_nil args]
  | .quant q vs b => by rw [pmap, pmap_nil b]
theorem pmapList_nil : ∀ (es : List Expr), pmapList [] es = es
  | [] => by rw [pmapList]
  | e :: es => by rw [pmapList, pmap_nil e, pmapList_nil es]
end

theorem substE_eq_pmap {σ : Subst} (hσ : IsParamSubst σ) {e : Expr} (h : mgrNF e = true) : substE σ e = pmap σ e := by
  cases hs : σ.isEmpty with
  | true =>
    have : σ = [] := by simpa using hs
    subst this
    rw [substE_nil, pmap_nil]
  | false => rw [substE_of_ne hs, subst_eq_pmap hσ e h]

/-- instantiation keeps whether a normal-form condition is the constant TRUE -/
theorem isTrue_pmap {σ : Subst} (hσ : IsParamSubst σ) (e : Expr) : (pmap σ e).isTrue = e.isTrue := by
  cases e with
  | leaf l =>
    rw [pmap]
    cases hl : σ.lookup (.leaf l) with
    | none => rfl
    | some v =>
      obtain ⟨⟨n, t, hk⟩, ⟨o, ty, hv⟩⟩ := hσ (.leaf l, v) (mem_of_lookup_eq_some σ _ _ hl)
      simp only at hk hv
      rw [hv, hk]; rfl
  | app op args => rw [pmap]; rfl
  | quant q vs b => rw [pmap]; rfl

theorem condStable_of_mgrNF {σ : Subst} (hσ : IsParamSubst σ) {e : Effect} (h : mgrNF e.cond = true) :
    condStable σ e = true := by
  unfold condStable
  rw [substE_eq_pmap hσ h, isTrue_pmap hσ]
  simp

mutual
/-- no action parameter occurs in the expression -/
def noParam : Expr → Bool
  | .leaf (.param _ _) => false
  | .leaf _ => true
  | .app _ args => noParamList args
  | .quant _ _ b => noParam b
def noParamList : List Expr → Bool
  | [] => true
  | e :: es => noParam e && noParamList es
end

mutual
theorem pmap_of_noParam {σ : Subst} (hσ : IsParamSubst σ) : ∀ (e : Expr), noParam e = true → pmap σ e = e
  | .leaf l, h => by
    rw [pmap]
    have : σ.lookup (.leaf l) = none := by
      apply hσ.lookup_leaf
      intro n t hl
      subst hl
      simp [noParam] at h
    rw [this]; rfl
  | .app op args, h => by
    rw [noParam] at h
    rw [pmap, pmapList_of_noParam hσ args h]
  | .quant q vs b, h => by
    rw [noParam] at h
    rw [pmap, pmap_of_noParam hσ b h]
theorem pmapList_of_noParam {σ : Subst} (hσ : IsParamSubst σ) : ∀ (es : List Expr), noParamList es = true →
    pmapList σ es = es
  | [], _ => by rw [pmapList]
  | e :: es, h => by
    rw [noParamList, Bool.and_eq_true] at h
    rw [pmapList, pmap_of_noParam hσ e h.1, pmapList_of_noParam hσ es h.2]
end

/-- instantiation leaves a normal-form expression without parameters unchanged -/
theorem substE_of_noParam {σ : Subst} (hσ : IsParamSubst σ) {e : Expr} (h1 : mgrNF e = true) (h2 : noParam e = true) :
    substE σ e = e := by
  rw [substE_eq_pmap hσ h1, pmap_of_noParam hσ e h2]

/-- state invariants in normal form and without parameters: `sirLiftOK` -/
theorem sirLiftOK_of_mgrNF {P : Problem} (h : ∀ si ∈ stateInvariants P, mgrNF si = true ∧ noParam si = true) :
    sirLiftOK P = true := by
  unfold sirLiftOK
  rw [List.all_eq_true]
  intro a _
  rw [List.all_eq_true]
  intro args _
  rw [List.all_eq_true]
  intro si hsi
  rw [substE_of_noParam (isParamSubst_paramSubst _ _ _) (h si hsi).1 (h si hsi).2]
  simp

end UPVerif.Compile
