import UPVerif.Core.Walkers.TypeOf
import Mathlib.Tactic.Linarith
import Mathlib.Algebra.Order.Field.Rat
import Mathlib.Tactic.Positivity
/-! Helper lemmas for `Props/C15.lean`: the order on extended bounds, interval arithmetic, and the
    per-operator soundness of `TypeOf.typeOp`. -/
namespace UPVerif

namespace Ext

@[simp] theorem le_refl (a : Ext) : le a a = true := by
  cases a <;> simp [le]

theorem le_trans {a b c : Ext} (h1 : le a b = true) (h2 : le b c = true) : le a c = true := by
  cases a <;> cases b <;> cases c <;> simp [le] at *
  linarith

theorem le_total (a b : Ext) : le a b = true ∨ le b a = true := by
  cases a <;> cases b <;> simp [le]
  exact _root_.le_total _ _

theorem min_le_left (a b : Ext) : le (min a b) a = true := by
  unfold min lt
  split
  · rename_i h
    rcases le_total a b with h' | h'
    · simp [h'] at h
    · exact h'
  · simp

theorem min_le_right (a b : Ext) : le (min a b) b = true := by
  unfold min lt
  split
  · simp
  · rename_i h; simpa using h

theorem le_max_left (a b : Ext) : le a (max a b) = true := by
  unfold max lt
  split
  · rename_i h
    rcases le_total a b with h' | h'
    · exact h'
    · simp [h'] at h
  · simp

theorem le_max_right (a b : Ext) : le b (max a b) = true := by
  unfold max lt
  split
  · simp
  · rename_i h; simpa using h

/-! `mul` by cases -/
@[simp] theorem mul_fin_fin (x y : Rat) : mul (fin x) (fin y) = fin (x * y) := by
  unfold mul
  split
  · rename_i h
    simp [isZero] at h
    rcases h with h | h <;> simp [h]
  · rfl

theorem mul_pinf_fin (y : Rat) :
    mul pinf (fin y) = if y = 0 then fin 0 else if 0 < y then pinf else ninf := by
  unfold mul
  by_cases h0 : y = 0
  · simp [isZero, h0]
  · by_cases hp : 0 < y <;> simp [isZero, pos, h0, hp]

theorem mul_ninf_fin (y : Rat) :
    mul ninf (fin y) = if y = 0 then fin 0 else if 0 < y then ninf else pinf := by
  unfold mul
  by_cases h0 : y = 0
  · simp [isZero, h0]
  · by_cases hp : 0 < y <;> simp [isZero, pos, h0, hp]

theorem mul_fin_pinf (y : Rat) :
    mul (fin y) pinf = if y = 0 then fin 0 else if 0 < y then pinf else ninf := by
  unfold mul
  by_cases h0 : y = 0
  · simp [isZero, h0]
  · by_cases hp : 0 < y <;> simp [isZero, pos, h0, hp]

theorem mul_fin_ninf (y : Rat) :
    mul (fin y) ninf = if y = 0 then fin 0 else if 0 < y then ninf else pinf := by
  unfold mul
  by_cases h0 : y = 0
  · simp [isZero, h0]
  · by_cases hp : 0 < y <;> simp [isZero, pos, h0, hp]

@[simp] theorem mul_pinf_pinf : mul pinf pinf = pinf := by simp [mul, isZero, pos]
@[simp] theorem mul_pinf_ninf : mul pinf ninf = ninf := by simp [mul, isZero, pos]
@[simp] theorem mul_ninf_pinf : mul ninf pinf = ninf := by simp [mul, isZero, pos]
@[simp] theorem mul_ninf_ninf : mul ninf ninf = pinf := by simp [mul, isZero, pos]

theorem mul_comm (a b : Ext) : mul a b = mul b a := by
  cases a <;> cases b <;>
    simp [mul_pinf_fin, mul_ninf_fin, mul_fin_pinf, mul_fin_ninf, _root_.mul_comm]

@[simp] theorem le_fin_fin (a b : Rat) : (le (fin a) (fin b) = true) ↔ a ≤ b := by simp [le]
@[simp] theorem ninf_le (a : Ext) : le ninf a = true := by cases a <;> simp [le]
@[simp] theorem le_pinf (a : Ext) : le a pinf = true := by cases a <;> simp [le]
@[simp] theorem not_fin_le_ninf (a : Rat) : le (fin a) ninf = false := by simp [le]
@[simp] theorem not_pinf_le_fin (a : Rat) : le pinf (fin a) = false := by simp [le]
@[simp] theorem not_pinf_le_ninf : le pinf ninf = false := by simp [le]

@[simp] theorem zero_mul (x : Ext) : mul (fin 0) x = fin 0 := by simp [mul, isZero]
@[simp] theorem mul_zero (x : Ext) : mul x (fin 0) = fin 0 := by simp [mul, isZero]

theorem mul_pos_fin {q : Rat} (hq : 0 < q) : ∀ x : Ext, mul (fin q) x =
    match x with | ninf => ninf | fin a => fin (q * a) | pinf => pinf
  | ninf => by simp [mul_fin_ninf, hq, hq.ne']
  | fin a => by simp
  | pinf => by simp [mul_fin_pinf, hq, hq.ne']

theorem mul_neg_fin {q : Rat} (hq : q < 0) : ∀ x : Ext, mul (fin q) x =
    match x with | ninf => pinf | fin a => fin (q * a) | pinf => ninf
  | ninf => by simp [mul_fin_ninf, hq.ne, not_lt.mpr hq.le]
  | fin a => by simp
  | pinf => by simp [mul_fin_pinf, hq.ne, not_lt.mpr hq.le]

theorem mul_pinf_mono {a b : Rat} (h : a ≤ b) : le (mul pinf (fin a)) (mul pinf (fin b)) = true := by
  rw [mul_pinf_fin, mul_pinf_fin]
  rcases lt_trichotomy a 0 with ha | ha | ha
  · simp [ha.ne, not_lt.mpr ha.le]
  · subst ha
    rcases h.lt_or_eq with hb | hb
    · simp [hb, hb.ne']
    · subst hb; simp
  · have hb : 0 < b := lt_of_lt_of_le ha h
    simp [ha, ha.ne', hb, hb.ne']

theorem mul_ninf_anti {a b : Rat} (h : a ≤ b) : le (mul ninf (fin b)) (mul ninf (fin a)) = true := by
  rw [mul_ninf_fin, mul_ninf_fin]
  rcases lt_trichotomy a 0 with ha | ha | ha
  · simp [ha.ne, not_lt.mpr ha.le]
  · subst ha
    rcases h.lt_or_eq with hb | hb
    · simp [hb, hb.ne']
    · subst hb; simp
  · have hb : 0 < b := lt_of_lt_of_le ha h
    simp [ha, ha.ne', hb, hb.ne']

/-- multiplication by a non-negative extended number is monotone … -/
theorem mul_mono {e x y : Ext} (he : le (fin 0) e = true) (h : le x y = true) :
    le (mul e x) (mul e y) = true := by
  cases e with
  | ninf => simp at he
  | pinf =>
    cases x with
    | ninf =>
      cases y with
      | ninf => simp
      | pinf => simp
      | fin b =>
        rw [mul_pinf_fin]; simp only [mul_pinf_ninf, ninf_le]
    | pinf =>
      cases y with
      | ninf => simp at h
      | pinf => simp
      | fin b => simp at h
    | fin a =>
      cases y with
      | ninf => simp at h
      | pinf => simp only [mul_pinf_pinf, le_pinf]
      | fin b => exact mul_pinf_mono (by simpa using h)
  | fin q =>
    have he' : 0 ≤ q := by simpa using he
    rcases he'.lt_or_eq with hq | hq
    · rw [mul_pos_fin hq, mul_pos_fin hq]
      cases x <;> cases y <;> simp at h ⊢
      exact mul_le_mul_of_nonneg_left h he'
    · subst hq; simp

/-- … and by a non-positive one antitone -/
theorem mul_anti {e x y : Ext} (he : le e (fin 0) = true) (h : le x y = true) :
    le (mul e y) (mul e x) = true := by
  cases e with
  | pinf => simp at he
  | ninf =>
    cases x with
    | ninf =>
      cases y with
      | ninf => simp
      | pinf => simp
      | fin b => simp only [mul_ninf_ninf, le_pinf]
    | pinf =>
      cases y with
      | ninf => simp at h
      | pinf => simp
      | fin b => simp at h
    | fin a =>
      cases y with
      | ninf => simp at h
      | pinf => simp only [mul_ninf_pinf, ninf_le]
      | fin b => exact mul_ninf_anti (by simpa using h)
  | fin q =>
    have he' : q ≤ 0 := by simpa using he
    rcases he'.lt_or_eq with hq | hq
    · rw [mul_neg_fin hq, mul_neg_fin hq]
      cases x <;> cases y <;> simp at h ⊢
      exact mul_le_mul_of_nonpos_left h he'
    · subst hq; simp

theorem le_min {x a b : Ext} (h1 : le x a = true) (h2 : le x b = true) : le x (min a b) = true := by
  unfold min; split <;> assumption
theorem max_le {x a b : Ext} (h1 : le a x = true) (h2 : le b x = true) : le (max a b) x = true := by
  unfold max; split <;> assumption

theorem min4_le_12 (a b c d : Ext) : le (min4 a b c d) (min a b) = true :=
  le_trans (min_le_left _ _) (min_le_left _ _)
theorem min4_le_34 (a b c d : Ext) : le (min4 a b c d) (min c d) = true :=
  le_min (le_trans (min_le_left _ _) (min_le_right _ _)) (min_le_right _ _)
theorem le_max4_12 (a b c d : Ext) : le (max a b) (max4 a b c d) = true :=
  le_trans (le_max_left _ _) (le_max_left _ _)
theorem le_max4_34 (a b c d : Ext) : le (max c d) (max4 a b c d) = true :=
  max_le (le_trans (le_max_right _ _) (le_max_left _ _)) (le_max_right _ _)

/-- `e * b` lies between the two corner products when `b` lies between `l` and `u` -/
theorem mul_between (e l u : Ext) (b : Rat) (hl : le l (fin b) = true) (hu : le (fin b) u = true) :
    le (min (mul e l) (mul e u)) (mul e (fin b)) = true ∧
    le (mul e (fin b)) (max (mul e l) (mul e u)) = true := by
  rcases le_total (fin 0) e with he | he
  · exact ⟨le_trans (min_le_left _ _) (mul_mono he hl), le_trans (mul_mono he hu) (le_max_right _ _)⟩
  · exact ⟨le_trans (min_le_right _ _) (mul_anti he hu), le_trans (mul_anti he hl) (le_max_left _ _)⟩

end Ext

namespace TypeOf
open Ext

/-- the rational `q` lies in the extended interval `I` -/
def Within (I : Ext × Ext) (q : Rat) : Prop := le I.1 (fin q) = true ∧ le (fin q) I.2 = true

/-- one step of `walk_times` is sound: interval multiplication with infinite corners -/
theorem mulInterval_sound {acc x : Ext × Ext} {a b : Rat} (ha : Within acc a) (hb : Within x b) :
    Within (mulInterval acc x) (a * b) := by
  obtain ⟨L, U⟩ := acc
  obtain ⟨l, u⟩ := x
  obtain ⟨hL, hU⟩ := ha
  obtain ⟨hl, hu⟩ := hb
  simp only at hL hU hl hu
  have h1 := mul_between L l u b hl hu
  have h2 := mul_between U l u b hl hu
  have h3 := mul_between (fin b) L U a hL hU
  rw [mul_comm (fin b) L, mul_comm (fin b) U, mul_fin_fin, _root_.mul_comm b a] at h3
  unfold mulInterval Within
  simp only
  constructor
  · refine le_trans (le_min ?_ ?_) h3.1
    · exact le_trans (min4_le_12 _ _ _ _) h1.1
    · exact le_trans (min4_le_34 _ _ _ _) h2.1
  · refine le_trans h3.2 (max_le ?_ ?_)
    · exact le_trans h1.2 (le_max4_12 _ _ _ _)
    · exact le_trans h2.2 (le_max4_34 _ _ _ _)

theorem foldl_mulInterval_sound : ∀ (xs : List (Ext × Ext)) (qs : List Rat),
    List.Forall₂ Within xs qs → ∀ (acc : Ext × Ext) (a : Rat), Within acc a →
    Within (xs.foldl mulInterval acc) (qs.foldl (· * ·) a)
  | _, _, .nil, _, _, h => h
  | _, _, .cons hx hxs, _, _, h =>
    foldl_mulInterval_sound _ _ hxs _ _ (mulInterval_sound h hx)

/-! ### bounds as `Option Rat` -/
def LowerOK (b : Option Rat) (q : Rat) : Prop := ∀ x, b = some x → x ≤ q
def UpperOK (b : Option Rat) (q : Rat) : Prop := ∀ x, b = some x → q ≤ x

theorem within_ext {l u : Option Rat} {q : Rat} (h1 : LowerOK l q) (h2 : UpperOK u q) :
    Within (ofLower l, ofUpper u) q := by
  constructor
  · cases l with
    | none => simp [ofLower]
    | some x => simpa [ofLower] using h1 x rfl
  · cases u with
    | none => simp [ofUpper]
    | some x => simpa [ofUpper] using h2 x rfl

theorem lowerOK_toLower {e : Ext} {q : Rat} (h : le e (fin q) = true) : LowerOK e.toLower q := by
  intro x hx
  cases e <;> simp [toLower] at hx
  subst hx; simpa using h
theorem upperOK_toUpper {e : Ext} {q : Rat} (h : le (fin q) e = true) : UpperOK e.toUpper q := by
  intro x hx
  cases e <;> simp [toUpper] at hx
  subst hx; simpa using h

theorem foldl_addBound_lower : ∀ (bs : List (Option Rat)) (qs : List Rat),
    List.Forall₂ LowerOK bs qs → ∀ (acc : Option Rat) (a : Rat), LowerOK acc a →
    LowerOK (bs.foldl addBound acc) (qs.foldl (· + ·) a)
  | _, _, .nil, _, _, h => h
  | _, _, .cons (a := b) (b := q) hx hxs, acc, a, h => by
    refine foldl_addBound_lower _ _ hxs _ _ ?_
    intro x hx'
    cases acc <;> cases b <;> simp [addBound] at hx'
    subst hx'
    have := h _ rfl
    have := hx _ rfl
    linarith

theorem foldl_addBound_upper : ∀ (bs : List (Option Rat)) (qs : List Rat),
    List.Forall₂ UpperOK bs qs → ∀ (acc : Option Rat) (a : Rat), UpperOK acc a →
    UpperOK (bs.foldl addBound acc) (qs.foldl (· + ·) a)
  | _, _, .nil, _, _, h => h
  | _, _, .cons (a := b) (b := q) hx hxs, acc, a, h => by
    refine foldl_addBound_upper _ _ hxs _ _ ?_
    intro x hx'
    cases acc <;> cases b <;> simp [addBound] at hx'
    subst hx'
    have := h _ rfl
    have := hx _ rfl
    linarith

end TypeOf
end UPVerif
