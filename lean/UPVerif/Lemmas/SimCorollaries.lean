import UPVerif.Lemmas.SimApply
import UPVerif.Lemmas.SimQueries
import UPVerif.Lemmas.SpecPerm
/-!
Helper lemmas for the clause-by-clause corollaries of `Props/C01.lean`.
-/
namespace UPVerif.Sim
open UPVerif UPVerif.Spec

theorem successorOf_inv {W : World} {s : SimState} {pre : List Expr} {E : List Effect} {g' : GKey → Option Val}
    (h : successorOf W s pre E = some g') :
    preOK (ctx W s) pre = true ∧ ∃ F, fired (ctx W s) E = some F ∧ Cons (ctx W s).get F ∧
      invOK W (withGet (ctx W s) (succGet (ctx W s).get F)) = true ∧ g' = succGet (ctx W s).get F := by
  unfold successorOf at h
  dsimp only at h
  split at h
  · rename_i hp
    refine ⟨hp, ?_⟩
    cases hF : fired (ctx W s) E with
    | none => rw [hF] at h; cases h
    | some F =>
      rw [hF] at h
      dsimp only at h
      split at h
      · rename_i hc
        cases h
        exact ⟨F, rfl, hc.1, hc.2, rfl⟩
      · cases h
  · cases h

/-- everything a successful `apply` tells: it is the unpacked form of `apply_eq_spec'` -/
theorem apply_some_unpack {W : World} {s s' : SimState} {a : Action} {args : List String}
    (h : Sim.apply W s a args = .ok (some s')) :
    ∃ g F, ground W a args = .ok (some g) ∧ preOK (ctx W s) g.pre = true ∧
      fired (ctx W s) (expandAll W.P g) = some F ∧ Cons (ctx W s).get F ∧
      s'.get W.P = succGet (ctx W s).get F ∧ invOK W (ctx W s') = true := by
  have hs := apply_eq_spec' W s a args (some s') h
  simp only [Option.map_some] at hs
  unfold Spec.apply at hs
  cases hg : ground W a args with
  | error x => rw [hg] at hs; cases hs
  | ok og =>
    rw [hg] at hs
    cases og with
    | none => cases hs
    | some g =>
      dsimp only at hs
      obtain ⟨hp, F, hF, hC, hI, hget⟩ := successorOf_inv hs.symm
      refine ⟨g, F, rfl, hp, hF, hC, hget, ?_⟩
      have : ctx W s' = withGet (ctx W s) (succGet (ctx W s).get F) := by
        rw [← hget]; rfl
      rw [this]; exact hI

theorem mem_asgB {F : List Fired} {k : GKey} {b : Bool} (h : Fired.setB k b ∈ F) : b ∈ asgB F k := by
  simp only [asgB, List.mem_filterMap]
  exact ⟨_, h, by simp [selB]⟩
theorem mem_asgV {F : List Fired} {k : GKey} {v : Val} (h : Fired.setV k v ∈ F) : v ∈ asgV F k := by
  simp only [asgV, List.mem_filterMap]
  exact ⟨_, h, by simp [selV]⟩

theorem succGet_bool_true {cur : GKey → Option Val} {F : List Fired} {k : GKey}
    (h : Fired.setB k true ∈ F) : succGet cur F k = some (.b true) := by
  have hm := mem_asgB h
  have hne : asgB F k ≠ [] := by intro e; rw [e] at hm; cases hm
  unfold succGet
  rw [newVal_B hne]
  have : (asgB F k).any id = true := by
    rw [List.any_eq_true]; exact ⟨true, hm, rfl⟩
  rw [this]

theorem not_cons_of_two_values {cur : GKey → Option Val} {F : List Fired} {k : GKey} {v w : Val}
    (hv : Fired.setV k v ∈ F) (hw : Fired.setV k w ∈ F) (hne : v ≠ w) : ¬ Cons cur F := by
  intro hc
  have := ((cons_iff cur F).1 hc k).1 v (mem_asgV hv) w (mem_asgV hw)
  exact hne this

theorem succGet_deltas {cur : GKey → Option Val} {F : List Fired} {k : GKey}
    (hc : Cons cur F) (hB : asgB F k = []) (hV : asgV F k = []) (hD : deltas F k ≠ []) :
    ∃ q, cur k = some (.n q) ∧ succGet cur F k = some (.n (q + sumR (deltas F k))) := by
  obtain ⟨q, hq⟩ := ((cons_iff cur F).1 hc k).2.2 hD
  refine ⟨q, hq, ?_⟩
  unfold succGet
  rw [newVal_D hB hV hD hq]

theorem succGet_untouched {cur : GKey → Option Val} {F : List Fired} {k : GKey}
    (h : ∀ f ∈ F, f.key ≠ k) : succGet cur F k = cur k := by
  have := untouched F k h
  unfold succGet
  rw [newVal_none this.1 this.2.1 this.2.2]

theorem invOK_all {W : World} {c : EvalCtx} (h : invOK W c = true) :
    ∀ si ∈ invariants W, evalBool c si = .ok true := by
  intro si hsi
  unfold invOK at h
  rw [List.all_eq_true] at h
  have := h si hsi
  unfold isTrueB at this
  split at this
  · assumption
  · cases this

theorem lower_bound_mem {W : World} {d : FluentDecl} {l : Expr} {ub : Option Expr} {fe : Expr}
    (hd : d ∈ W.P.fluents) (hb : boundsOf d.ref.ty = (some l, ub)) (hfe : fe ∈ allFluentExps W.P d.ref) :
    Expr.mkLE l fe ∈ invariants W := by
  unfold invariants
  apply List.mem_append_right
  rw [List.mem_flatMap]
  refine ⟨d, hd, ?_⟩
  rw [hb]
  apply List.mem_append_left
  exact List.mem_map.2 ⟨fe, hfe, rfl⟩

theorem upper_bound_mem {W : World} {d : FluentDecl} {lb : Option Expr} {u : Expr} {fe : Expr}
    (hd : d ∈ W.P.fluents) (hb : boundsOf d.ref.ty = (lb, some u)) (hfe : fe ∈ allFluentExps W.P d.ref) :
    Expr.mkLE fe u ∈ invariants W := by
  unfold invariants
  apply List.mem_append_right
  rw [List.mem_flatMap]
  refine ⟨d, hd, ?_⟩
  rw [hb]
  apply List.mem_append_right
  exact List.mem_map.2 ⟨fe, hfe, rfl⟩

/-! ### strictness of evaluation -/

theorem evalList_ok_mem {c : EvalCtx} {ρ : VEnv} : ∀ {args : List Expr} {vs : List Val},
    evalList c ρ args = .ok vs → ∀ a ∈ args, ∃ va, eval c ρ a = .ok va
  | [], _, _, a, ha => by cases ha
  | e :: es, vs, h, a, ha => by
    simp only [evalList] at h
    cases h1 : evalList c ρ es with
    | error x => rw [h1] at h; cases h
    | ok ws =>
      rw [h1] at h
      dsimp only at h
      cases h2 : eval c ρ e with
      | error x => rw [h2] at h; cases h
      | ok w =>
        simp at ha
        rcases ha with rfl | ha
        · exact ⟨w, h2⟩
        · exact evalList_ok_mem h1 a ha

theorem eval_app_strict {c : EvalCtx} {ρ : VEnv} {op : Op} {args : List Expr} {v : Val}
    (h : eval c ρ (.app op args) = .ok v) : ∀ a ∈ args, ∃ va, eval c ρ a = .ok va := by
  simp only [eval] at h
  cases h1 : evalList c ρ args with
  | error x => rw [h1] at h; cases h
  | ok vs => exact evalList_ok_mem h1

theorem eval_fluent_undefined {c : EvalCtx} {ρ : VEnv} {f : FluentRef} {args : List Expr} {vs : List Val}
    (h1 : evalList c ρ args = .ok vs) (h2 : c.get (f, vs) = none) :
    eval c ρ (.app (.fluent f) args) = .error .missing := by
  simp only [eval, h1, evalOp, h2]

theorem unsatInv_ok_all_defined {c : EvalCtx} (early : Bool) : ∀ (l : List Expr) (i : Nat) {r : List Nat},
    unsatInv c early l i = .ok r → r = [] → ∀ e ∈ l, evalBool c e = .ok true := by
  intro l i r h hr e he
  subst hr
  have := (unsatInv_nil early l i).1 h
  rw [List.all_eq_true] at this
  have h2 := this e he
  unfold isTrueB at h2
  split at h2
  · assumption
  · cases h2

/-- `is_goal` against the declarative reading -/
theorem isGoal_eq_spec {W : World} {s : SimState} {b : Bool} (h : Sim.isGoal W s = .ok b) : b = Spec.isGoal W s := by
  unfold Sim.isGoal unsatisfiedGoals at h
  unfold Spec.isGoal
  have key := unsatInv_nil (c := ctx W s) true W.P.goals 0
  cases hu : unsatInv (ctx W s) true W.P.goals 0 with
  | error x =>
    rw [hu] at h key
    have : ¬ (W.P.goals.all (fun e => isTrueB (evalBool (ctx W s) e)) = true) := by
      rw [← key]; simp
    cases x <;> simp at h
    subst h
    simpa [Spec.holds] using this
  | ok l =>
    rw [hu] at h key
    simp at h
    subst h
    cases l with
    | nil =>
      have := key.1 rfl
      simpa [Spec.holds] using this.symm
    | cons i is =>
      have : ¬ (W.P.goals.all (fun e => isTrueB (evalBool (ctx W s) e)) = true) := by
        rw [← key]; simp
      simpa [Spec.holds] using this

/-! ### forall effects -/

/-- the instance of a one-variable forall effect for object `o` -/
def instanceOf (P : Problem) (e : Effect) (v : Var) (o : String) : Effect :=
  let σ : Expr.Subst := [(.leaf (.var v), objExpr P o)]
  { fluent := substE σ e.fluent, value := substE σ e.value, cond := substE σ e.cond, kind := e.kind, forall_ := [] }

theorem expandEffect_single {P : Problem} {e : Effect} {v : Var} (h : e.forall_ = [v]) :
    expandEffect P e = (tyDomain P v.ty).map (instanceOf P e v) := by
  unfold expandEffect
  rw [h]
  simp only [List.isEmpty_cons, Bool.false_eq_true, if_false, List.map_cons, List.map_nil, cartesian]
  induction tyDomain P v.ty with
  | nil => rfl
  | cons o os ih =>
    simp only [List.flatMap_cons, List.map_cons, List.cons_append, List.nil_append] at ih ⊢
    rw [ih]
    rfl

end UPVerif.Sim
