import UPVerif.Lemmas.TTFinish
/-!
Helper lemmas for `Props/C05.lean` / `Props/C04.lean`: `TT.validate` returns VALID exactly when the
plan is valid in the sense of `Spec/Temporal.lean` for the action instances in processing order.
-/
namespace UPVerif.TT
open UPVerif UPVerif.Expr UPVerif.Sim UPVerif.Spec UPVerif.Spec.Temporal

/-! ### processing order -/

theorem insertAsc_perm (x : Step × Nat) : ∀ (l : List (Step × Nat)), (insertAsc x l).Perm (x :: l)
  | [] => List.Perm.refl _
  | y :: ys => by
    simp only [insertAsc]
    split
    · exact List.Perm.refl _
    · exact ((insertAsc_perm x ys).cons y).trans (List.Perm.swap x y ys)

theorem procOrder_perm : ∀ (l : List (Step × Nat)), (procOrder l).Perm l
  | [] => List.Perm.refl _
  | x :: xs => (insertAsc_perm x (procOrder xs)).trans ((procOrder_perm xs).cons x)

theorem insertAsc_sorted (x : Step × Nat) : ∀ {l : List (Step × Nat)}, ActsSorted l → ActsSorted (insertAsc x l)
  | [], _ => by simp [insertAsc, ActsSorted]
  | y :: ys, h => by
    unfold ActsSorted at h ⊢
    simp only [insertAsc]
    rw [List.pairwise_cons] at h
    split
    · rename_i hxy
      rw [List.pairwise_cons]
      refine ⟨?_, List.pairwise_cons.2 h⟩
      intro a ha
      simp only [List.mem_cons] at ha
      rcases ha with rfl | ha
      · show x.1.start ≤ a.1.start; grind
      · have : y.1.start ≤ a.1.start := h.1 a ha
        show x.1.start ≤ a.1.start; grind
    · rename_i hxy
      rw [List.pairwise_cons]
      refine ⟨?_, insertAsc_sorted x h.2⟩
      intro a ha
      have := (insertAsc_perm x ys).mem_iff.1 ha
      simp only [List.mem_cons] at this
      rcases this with rfl | this
      · show y.1.start ≤ a.1.start; grind
      · exact h.1 a this

theorem procOrder_sorted : ∀ (l : List (Step × Nat)), ActsSorted (procOrder l)
  | [] => by simp [procOrder, ActsSorted]
  | x :: xs => insertAsc_sorted x (procOrder_sorted xs)

/-! ### fuel -/

theorem timedSched_length : ∀ {l : List (Timing × List Effect)} {r : List Sched}, timedSched l = .ok r → r.length = l.length
  | [], r, h => by simp [timedSched] at h; subst h; rfl
  | (t, effs) :: l, r, h => by
    simp only [timedSched] at h
    split at h
    · cases h
    · cases h
    · split at h
      · cases h
      · rename_i l' hl
        cases h
        simp [timedSched_length hl]

theorem indexed_map_fst (π : List Step) : (indexed π).map (·.1) = π := by
  simp [indexed, List.zipIdx_map_fst]

theorem measure_init {T : TProblem} {π : List Step} {L : Loop}
    (ha : L.acts = procOrder (indexed π)) (hs : L.sched.length = T.timedEffs.length) :
    measure L < fuelFor T π := by
  unfold measure fuelFor
  have hp := procOrder_perm (indexed π)
  have h1 : L.acts.length = π.length := by
    rw [ha, hp.length_eq]; simp [indexed]
  have h2 : (L.acts.map (fun a => pushes a.1)).sum = (π.map pushes).sum := by
    rw [ha]
    have := (hp.map (fun a : Step × Nat => pushes a.1)).sum_nat
    rw [this]
    have e : (indexed π).map (fun a => pushes a.1) = ((indexed π).map (·.1)).map pushes := by simp
    rw [e, indexed_map_fst]
  omega

/-! ### an early return is never VALID -/

theorem run_inl_invalid {W : World} : ∀ (fuel : Nat) (L : Loop) (v : Verdict), run W fuel L = .ok (.inl v) → v ≠ .valid
  | 0, _, _, h => by simp [run] at h
  | fuel + 1, L, v, h => by
    have hstart : ∀ st idx rest, (match startStep W L st idx rest with
        | .ok (.inr L') => run W fuel L'
        | r => r) = .ok (.inl v) → v ≠ .valid := by
      intro st idx rest h
      cases hs : startStep W L st idx rest with
      | error e => rw [hs] at h; cases h
      | ok x =>
        rw [hs] at h
        cases x with
        | inr L' => exact run_inl_invalid fuel L' v h
        | inl v' =>
          simp only [Except.ok.injEq, Sum.inl.injEq] at h
          subst h
          unfold startStep at hs
          split at hs
          · cases hs
          · cases hs; simp
          · cases hs
    have heff : ∀ m, (match effectsStep W L m with
        | .ok (.inr L') => run W fuel L'
        | r => r) = .ok (.inl v) → v ≠ .valid := by
      intro m h
      cases hs : effectsStep W L m with
      | error e => rw [hs] at h; cases h
      | ok x =>
        rw [hs] at h
        cases x with
        | inr L' => exact run_inl_invalid fuel L' v h
        | inl v' =>
          simp only [Except.ok.injEq, Sum.inl.injEq] at h
          subst h
          unfold effectsStep at hs
          simp only at hs
          split at hs
          · cases hs; simp
          · cases hs; simp
          · cases hs
          · cases hs
          · cases hs
    unfold run at h
    split at h
    · cases h
    · exact hstart _ _ _ h
    · exact heff _ h
    · split at h
      · exact hstart _ _ _ h
      · exact heff _ h

/-! ### the main connection -/

/-- the plan's time data are sane: no event before time 0, conditions start at time >= 0 and their
    intervals contain a time point -/
def SaneItems (E : List Sched) (C : List DCond) : Prop :=
  (∀ ev ∈ E, 0 ≤ ev.time) ∧ ∀ dc ∈ C, 0 ≤ dc.start ∧ Proper dc.start dc.end dc.lopen dc.ropen

theorem strictAsc_nodup : ∀ {l : List Rat}, StrictAsc l → l.Nodup
  | [], _ => List.nodup_nil
  | x :: xs, h => by
    unfold StrictAsc at h
    rw [List.pairwise_cons] at h
    rw [List.nodup_cons]
    refine ⟨?_, strictAsc_nodup h.2⟩
    intro hx
    have := h.1 x hx
    grind

/-- the conditions checked on the trace `(-1, s0) :: tl` = the conditions of the specification on the
    time line read from `tl` -/
theorem checkConds_spec {W : World} {s0 : SimState} {tl : List (Rat × SimState)} {C : List DCond}
    (hasc : StrictAsc ((-1 : Rat) :: tl.map (·.1)))
    (hC : ∀ dc ∈ C, 0 ≤ dc.start ∧ Proper dc.start dc.end dc.lopen dc.ropen) :
    checkConds W ((-1, s0) :: tl) C = .ok none ↔
      ∀ dc ∈ C, ∀ p, InInterval dc.start dc.end dc.lopen dc.ropen p →
        HoldsIn W (stateAt (s0.get W.P) (readTl W tl) p) dc.cond := by
  rw [checkConds_none]
  have hnd : (Trace.keys ((-1, s0) :: tl)).Nodup := strictAsc_nodup hasc
  have h1 : (-1 : Rat) ∈ Trace.keys ((-1, s0) :: tl) := by simp [Trace.keys]
  constructor
  · intro h dc hdc p hp
    obtain ⟨sts, hsts, hall⟩ := h dc hdc
    obtain ⟨hs0, hprop⟩ := hC dc hdc
    obtain ⟨L, hL, hiff⟩ := statesInInterval_spec (ropen := dc.ropen) hnd h1 (by grind) hprop
    rw [hsts] at hL; cases hL
    have hpp : (-1 : Rat) < p := by
      have := hp.1
      split at this <;> grind
    obtain ⟨t, st, hpred, hlk, hst⟩ := pred_stateAt (W := W) (tl := tl) (s0 := s0) hasc hpp
    have := (hiff (fun st => evalBool (ctx W st) dc.cond = .ok true)).1 hall p hp t st hpred hlk
    unfold HoldsIn
    rw [← hst]
    exact this
  · intro h dc hdc
    obtain ⟨hs0, hprop⟩ := hC dc hdc
    obtain ⟨L, hL, hiff⟩ := statesInInterval_spec (ropen := dc.ropen) hnd h1 (by grind) hprop
    refine ⟨L, hL, ?_⟩
    apply (hiff (fun st => evalBool (ctx W st) dc.cond = .ok true)).2
    intro p hp t st hpred hlk
    have hpp : (-1 : Rat) < p := by
      have := hp.1
      split at this <;> grind
    obtain ⟨t', st', hpred', hlk', hst'⟩ := pred_stateAt (W := W) (tl := tl) (s0 := s0) hasc hpp
    have := isPred_unique hpred hpred'
    subst this
    rw [hlk] at hlk'; cases hlk'
    have := h dc hdc p hp
    unfold HoldsIn at this
    rw [← hst'] at this
    exact this

/-- the loop state `_validate` starts from -/
def loop0 (W : World) (π : List Step) (sch : List Sched) (gc : List DCond) (s0 : SimState) : Loop :=
  { acts := procOrder (indexed π), sched := sch, conds := gc ++ invariantConds W, last := s0, trace := [(-1, s0)] }

theorem initLoop_ok {W : World} {T : TProblem} {π : List Step} {L0 : Loop} :
    initLoop W T π = .ok L0 ↔ ∃ sch gc s0, timedSched T.timedEffs = .ok sch ∧ timedGoalConds T.timedGoals = .ok gc ∧
      initialState? W.P = some s0 ∧ L0 = loop0 W π sch gc s0 := by
  unfold initLoop loop0
  cases hte : timedSched T.timedEffs with
  | error x => simp
  | ok sch =>
    cases htg : timedGoalConds T.timedGoals with
    | error x => simp
    | ok gc =>
      cases hs0 : initialState? W.P with
      | none => simp
      | some s0 =>
        simp only [Except.ok.injEq, Option.some.injEq]
        constructor
        · intro h; exact ⟨sch, gc, s0, rfl, rfl, rfl, h.symm⟩
        · rintro ⟨_, _, _, rfl, rfl, rfl, h⟩; exact h.symm

theorem validate_eq {W : World} {T : TProblem} {π : List Step} :
    validate W T π = .ok .valid ↔ ∃ L0 Lf, initLoop W T π = .ok L0 ∧ run W (fuelFor T π) L0 = .ok (.inr Lf) ∧
      finish W Lf = .ok .valid := by
  unfold validate
  cases hL : initLoop W T π with
  | error x =>
    simp only
    constructor
    · intro h; cases h
    · rintro ⟨L0', Lf, h1, _, _⟩; cases h1
  | ok L0 =>
    simp only
    cases hr : run W (fuelFor T π) L0 with
    | error e =>
      simp only
      constructor
      · intro h; cases h
      · rintro ⟨L0', Lf, h1, h2, _⟩
        cases h1; rw [hr] at h2; cases h2
    | ok x =>
      cases x with
      | inl v =>
        simp only
        constructor
        · intro h
          have hv : v = .valid := by injection h
          exact absurd hv (run_inl_invalid _ _ _ hr)
        · rintro ⟨L0', Lf, h1, h2, _⟩
          cases h1; rw [hr] at h2; cases h2
      | inr Lf =>
        simp only
        constructor
        · intro h; exact ⟨L0, Lf, rfl, hr, h⟩
        · rintro ⟨L0', Lf', h1, h2, h3⟩
          cases h1; rw [hr] at h2; cases h2; exact h3

/-- MAIN CONNECTION: the validator accepts exactly the plans that are valid for the action instances
    taken in processing order -/
theorem validate_valid_iff (W : World) (T : TProblem) (π : List Step)
    (hwt : WellTimed W (procOrder (indexed π)))
    (hsane : ∀ E C, itemsOf W T (procOrder (indexed π)) = some (E, C) → SaneItems E C) :
    validate W T π = .ok .valid ↔ ValidOf W T (procOrder (indexed π)) := by
  rw [validate_eq]
  -- facts shared by both directions, for given events / conditions / time line
  have shared : ∀ sch gc s0 E' C' (tl : List (Rat × SimState)),
      timedSched T.timedEffs = .ok sch → timedGoalConds T.timedGoals = .ok gc →
      stepsItems W (procOrder (indexed π)) = some (E', C') →
      timelineS W (sch ++ E') s0 (happenings (sch ++ E')) = some tl →
      (finish W (finalLoop (loop0 W π sch gc s0) C' tl) = .ok .valid ↔
        (∀ dc ∈ gc ++ invariantConds W ++ C', ∀ p, InInterval dc.start dc.end dc.lopen dc.ropen p →
          HoldsIn W (stateAt (s0.get W.P) (readTl W tl) p) dc.cond) ∧
        (∀ g ∈ W.P.goals, HoldsIn W (lastState (s0.get W.P) (readTl W tl)) g)) := by
    intro sch gc s0 E' C' tl hte htg hE htl
    have hitems : itemsOf W T (procOrder (indexed π)) = some (sch ++ E', gc ++ invariantConds W ++ C') := by
      simp [itemsOf, hte, htg, hE]
    obtain ⟨hEv, hCs⟩ := hsane _ _ hitems
    have hkeys := timelineS_keys htl
    have hasc : StrictAsc ((-1 : Rat) :: tl.map (·.1)) := by
      rw [hkeys]
      unfold StrictAsc
      rw [List.pairwise_cons]
      refine ⟨?_, strictAsc_happenings _⟩
      intro t ht
      rw [mem_happenings] at ht
      obtain ⟨ev, hev, rfl⟩ := ht
      have := hEv ev hev
      grind
    have htrace : traceAfter [(-1, s0)] tl = (-1, s0) :: tl := by
      rw [traceAfter_fresh]
      · rfl
      · exact (strictAsc_nodup (List.pairwise_cons.1 hasc).2)
      · intro t ht
        simp only [Trace.keys, List.map_cons, List.map_nil, List.mem_singleton]
        have := (List.pairwise_cons.1 hasc).1 t ht
        grind
    rw [finish_valid]
    simp only [finalLoop, loop0, htrace]
    rw [checkConds_spec hasc (by simpa [List.append_assoc] using hCs), checkGoals_true]
    simp only [List.append_assoc]
    constructor
    · rintro ⟨h1, h2⟩
      refine ⟨h1, ?_⟩
      intro g hg
      unfold HoldsIn
      rw [← lastAfter_read]
      exact h2 g hg
    · rintro ⟨h1, h2⟩
      refine ⟨h1, ?_⟩
      intro g hg
      have := h2 g hg
      unfold HoldsIn at this
      rw [← lastAfter_read] at this
      exact this
  constructor
  · rintro ⟨L0, Lf, hL0, hr, hf⟩
    obtain ⟨sch, gc, s0, hte, htg, hs0, rfl⟩ := initLoop_ok.1 hL0
    have hrun := run_spec W (fuelFor T π) (loop0 W π sch gc s0)
      (measure_init rfl (timedSched_length hte)) (procOrder_sorted _) hwt
    obtain ⟨E', C', tl, hE, htl, rfl⟩ := (hrun Lf).1 hr
    obtain ⟨hc, hg⟩ := (shared sch gc s0 E' C' tl hte htg hE htl).1 hf
    refine ⟨sch ++ E', gc ++ invariantConds W ++ C', s0, ?_, hs0, ?_⟩
    · simp only [itemsOf, hte, htg]
      have : stepsItems W (procOrder (indexed π)) = some (E', C') := hE
      rw [this]
    · exact ⟨readTl W tl, timeline_of_timelineS htl, hc, hg⟩
  · rintro ⟨E, C, s0, hitems, hs0, tlσ, htlσ, hc, hg⟩
    unfold itemsOf at hitems
    cases hte : timedSched T.timedEffs with
    | error x => simp [hte] at hitems
    | ok sch =>
      cases htg : timedGoalConds T.timedGoals with
      | error x => simp [hte, htg] at hitems
      | ok gc =>
        cases hE : stepsItems W (procOrder (indexed π)) with
        | none => simp [hte, htg, hE] at hitems
        | some EC =>
          obtain ⟨E', C'⟩ := EC
          simp only [hte, htg, hE, Option.some.injEq, Prod.mk.injEq] at hitems
          obtain ⟨rfl, rfl⟩ := hitems
          obtain ⟨tl, htl, rfl⟩ := timelineS_of_timeline htlσ
          have hrun := run_spec W (fuelFor T π) (loop0 W π sch gc s0)
            (measure_init rfl (timedSched_length hte)) (procOrder_sorted _) hwt
          refine ⟨loop0 W π sch gc s0, _, initLoop_ok.2 ⟨sch, gc, s0, hte, htg, hs0, rfl⟩,
            (hrun _).2 ⟨E', C', tl, hE, htl, rfl⟩, ?_⟩
          exact (shared sch gc s0 E' C' tl hte htg hE htl).2 ⟨hc, hg⟩

end UPVerif.TT
