import UPVerif.Lemmas.SimplifyQuant
import UPVerif.Lemmas.WellFormedQR
/-!
Helper lemmas for `Props/C08Models.lean`, part 11: the simplifier of property C11 (`Core/Walkers/Simplify.lean`)
introduces no new symbol.  `Lemmas/SimplifyWF.lean` proves that the node functions of the simplifier only rearrange
what they are given for predicates that are compositional at EVERY operator (`Comp`); "every referenced fluent is
declared and applied to as many arguments as its signature has" is compositional at every operator except FLUENT_EXP
nodes, which the simplifier only rebuilds with the same fluent and as many arguments (`walkFluent`).  The first part of
this file is `SimplifyWF.lean` re-proved for predicates compositional away from fluent nodes (`CompF`, same proofs);
the second part instantiates it with the node-local tests `holds N` of `Core/WellFormed.lean`.  No Mathlib.
-/
namespace UPVerif.SimpF
open UPVerif UPVerif.Expr UPVerif.Simp

/-- closes `∀ f, op ≠ .fluent f` for a concrete operator `op` -/
macro "nofluent" : tactic => `(tactic| (intro f hf; cases hf))

/-- compositional at every operator except FLUENT_EXP -/
structure CompF (P : Expr → Prop) : Prop where
  bool : ∀ b, P (.leaf (.boolC b))
  int : ∀ z, P (.leaf (.intC z))
  real : ∀ r, P (.leaf (.realC r))
  app : ∀ op l, (∀ f, op ≠ .fluent f) → (P (.app op l) ↔ ∀ e, e ∈ l → P e)

section
variable {P : Expr → Prop}

theorem CompF.toExpr (hc : CompF P) (c : Num) : P c.toExpr := by
  cases c
  · exact hc.int _
  · exact hc.real _

theorem CompF.mkAnd (hc : CompF P) {l : List Expr} (h : ∀ e, e ∈ l → P e) : P (mkAnd l) := by
  match l, h with
  | [], _ => exact hc.bool true
  | [x], h => exact h x (by simp)
  | x :: y :: r, h => exact (hc.app _ _ (by nofluent)).2 h

theorem CompF.mkOr (hc : CompF P) {l : List Expr} (h : ∀ e, e ∈ l → P e) : P (mkOr l) := by
  match l, h with
  | [], _ => exact hc.bool false
  | [x], h => exact h x (by simp)
  | x :: y :: r, h => exact (hc.app _ _ (by nofluent)).2 h

theorem CompF.mkPlus (hc : CompF P) {l : List Expr} (h : ∀ e, e ∈ l → P e) : P (mkPlus l) := by
  match l, h with
  | [], _ => exact hc.int 0
  | [x], h => exact h x (by simp)
  | x :: y :: r, h => exact (hc.app _ _ (by nofluent)).2 h

theorem CompF.mkTimes (hc : CompF P) {l : List Expr} (h : ∀ e, e ∈ l → P e) : P (mkTimes l) := by
  match l, h with
  | [], _ => exact hc.int 1
  | [x], h => exact h x (by simp)
  | x :: y :: r, h => exact (hc.app _ _ (by nofluent)).2 h

theorem CompF.mkNot (hc : CompF P) {c : Expr} (h : P c) : P (mkNot c) := by
  unfold Expr.mkNot
  split
  · exact (hc.app _ _ (by nofluent)).1 h _ (by simp)
  · exact (hc.app _ _ (by nofluent)).2 (by simpa using h)

theorem CompF.app2 (hc : CompF P) {op : Op} {a b : Expr} (ha : P a) (hb : P b)
    (hop : ∀ f, op ≠ .fluent f := by nofluent) : P (.app op [a, b]) :=
  (hc.app _ _ hop).2 (by
    intro e he
    simp only [List.mem_cons, List.not_mem_nil, or_false] at he
    rcases he with rfl | rfl <;> assumption)

theorem CompF.app1 (hc : CompF P) {op : Op} {a : Expr} (ha : P a)
    (hop : ∀ f, op ≠ .fluent f := by nofluent) : P (.app op [a]) :=
  (hc.app _ _ hop).2 (by intro e he; simp only [List.mem_singleton] at he; subst he; exact ha)

theorem CompF.walkNot (hc : CompF P) {c : Expr} (h : P c) : P (walkNot c) := by
  unfold Simp.walkNot
  split
  · exact hc.bool _
  · exact (hc.app _ _ (by nofluent)).1 h _ (by simp)
  · exact hc.mkNot h

/-! ### and / or -/

theorem addLit_all {acc : List Expr} {s : Expr} {acc' : List Expr}
    (hacc : ∀ e, e ∈ acc → P e) (hs : P s) (h : addLit acc s = some acc') : ∀ e, e ∈ acc' → P e := by
  unfold addLit at h
  split at h
  · cases h
  · split at h <;> simp only [Option.some.injEq] at h <;> subst h
    · exact hacc
    · intro e he
      rcases List.mem_append.1 he with he | he
      · exact hacc e he
      · simp only [List.mem_singleton] at he; subst he; exact hs

theorem addLits_all : ∀ {ss acc acc' : List Expr},
    (∀ e, e ∈ acc → P e) → (∀ e, e ∈ ss → P e) → addLits acc ss = some acc' → ∀ e, e ∈ acc' → P e
  | [], acc, acc', hacc, _, h => by
    simp only [addLits, Option.some.injEq] at h; subst h; exact hacc
  | s :: ss, acc, acc', hacc, hss, h => by
    simp only [addLits] at h
    split at h
    · cases h
    · rename_i acc1 h1
      exact addLits_all (addLit_all hacc (hss s (by simp)) h1)
        (fun e he => hss e (List.mem_cons_of_mem _ he)) h

theorem sameJunc_eq {isAnd : Bool} {a : Expr} {ss : List Expr} (h : sameJunc? isAnd a = some ss) :
    a = .app (if isAnd then .and else .or) ss := by
  unfold sameJunc? at h
  split at h
  · split at h
    · rename_i hi; simp only [Option.some.injEq] at h; subst h; simp [hi]
    · cases h
  · split at h
    · cases h
    · rename_i hi; simp only [Option.some.injEq] at h; subst h; simp [hi]
  · cases h

/-- the loop of `walk_and`/`walk_or` only keeps arguments, or arguments of same-connective arguments -/
theorem juncLoop_all (isAnd : Bool)
    (hsub : ∀ a ss, P a → sameJunc? isAnd a = some ss → ∀ s, s ∈ ss → P s) : ∀ {args acc l : List Expr},
    (∀ e, e ∈ acc → P e) → (∀ a, a ∈ args → P a) →
    juncLoop isAnd acc args = some l → ∀ e, e ∈ l → P e
  | [], acc, l, hacc, _, h => by
    simp only [juncLoop, Option.some.injEq] at h; subst h; exact hacc
  | a :: rest, acc, l, hacc, hargs, h => by
    have hrest : ∀ a', a' ∈ rest → P a' := fun a' ha' => hargs a' (List.mem_cons_of_mem _ ha')
    simp only [juncLoop] at h
    split at h
    · exact juncLoop_all isAnd hsub hacc hrest h
    · split at h
      · cases h
      · split at h
        · rename_i ss hss
          have hpa := hargs a (by simp)
          split at h
          · cases h
          · rename_i acc1 h1
            exact juncLoop_all isAnd hsub (addLits_all hacc (hsub a ss hpa hss) h1) hrest h
        · split at h
          · cases h
          · rename_i acc1 h1
            exact juncLoop_all isAnd hsub (addLit_all hacc (hargs a (by simp)) h1) hrest h

theorem CompF.walkJunc (hc : CompF P) {isAnd : Bool} {args : List Expr}
    (h : ∀ e, e ∈ args → P e) : P (walkJunc isAnd args) := by
  have hg : P (juncGeneral isAnd args) := by
    unfold juncGeneral
    split
    · exact hc.bool _
    · rename_i l hl
      have hl' := juncLoop_all isAnd (fun a ss hpa hss => by
        rw [sameJunc_eq hss] at hpa; exact (hc.app _ _ (by intro f hf; cases isAnd <;> cases hf)).1 hpa) (acc := [])
        (fun e he => absurd he (by simp)) h hl
      unfold mkJunc; split
      · exact hc.mkAnd hl'
      · exact hc.mkOr hl'
  unfold Simp.walkJunc
  split
  · split
    · exact h _ (by simp)
    · exact hg
  · exact hg

theorem CompF.walkIff (hc : CompF P) {a b : Expr} (ha : P a) (hb : P b) : P (walkIff a b) := by
  unfold Simp.walkIff
  split
  · exact hc.bool _
  · split
    · exact hb
    · exact hc.mkNot hb
  · split
    · exact ha
    · exact hc.mkNot ha
  · split
    · exact hc.bool _
    · exact hc.app2 ha hb

theorem CompF.walkImplies (hc : CompF P) {a b : Expr} (ha : P a) (hb : P b) : P (walkImplies a b) := by
  unfold Simp.walkImplies
  split
  · split
    · exact hb
    · exact hc.bool _
  · split
    · split
      · exact hc.bool _
      · exact hc.mkNot ha
    · split
      · exact hc.bool _
      · exact hc.app2 ha hb

theorem CompF.walkEquals (hc : CompF P) {cfg : SimpCfg} {a b : Expr} (ha : P a) (hb : P b) :
    P (walkEquals cfg a b) := by
  unfold Simp.walkEquals
  split
  · exact hc.bool _
  · split
    · exact hc.bool _
    · split
      · split
        · exact hc.bool _
        · exact hc.app2 ha hb
      · exact hc.app2 ha hb

theorem CompF.walkCmp (hc : CompF P) {strict : Bool} {a b e' : Expr} (ha : P a) (hb : P b)
    (h : walkCmp strict a b = .ok e') : P e' := by
  unfold Simp.walkCmp at h
  split at h
  · split at h
    · simp only [pure, Except.pure, Except.ok.injEq] at h; subst h; exact hc.bool _
    · cases h
  · simp only [pure, Except.pure, Except.ok.injEq] at h; subst h
    split <;> exact hc.app2 ha hb

/-! ### arithmetic -/

theorem plusItem_all {st : Num × List Expr} {s : Expr} (hst : ∀ e, e ∈ st.2 → P e) (hs : P s) :
    ∀ e, e ∈ (plusItem st s).2 → P e := by
  unfold plusItem
  split
  · exact hst
  · intro e he
    rcases List.mem_append.1 he with he | he
    · exact hst e he
    · simp only [List.mem_singleton] at he; subst he; exact hs

theorem foldl_plusItem_all : ∀ {ss : List Expr} {st : Num × List Expr},
    (∀ e, e ∈ st.2 → P e) → (∀ s, s ∈ ss → P s) → ∀ e, e ∈ (ss.foldl plusItem st).2 → P e
  | [], st, hst, _ => by simpa using hst
  | s :: ss, st, hst, hss => by
    simp only [List.foldl_cons]
    exact foldl_plusItem_all (plusItem_all hst (hss s (by simp)))
      (fun s' hs' => hss s' (List.mem_cons_of_mem _ hs'))

theorem plusLoop_all (hsub : ∀ ss, P (.app .plus ss) → ∀ s, s ∈ ss → P s) :
    ∀ {args : List Expr} {st : Num × List Expr},
    (∀ e, e ∈ st.2 → P e) → (∀ a, a ∈ args → P a) → ∀ e, e ∈ (plusLoop st args).2 → P e
  | [], st, hst, _ => by simpa [plusLoop] using hst
  | a :: rest, st, hst, hargs => by
    have hrest : ∀ a', a' ∈ rest → P a' := fun a' ha' => hargs a' (List.mem_cons_of_mem _ ha')
    have hpa := hargs a (by simp)
    unfold plusLoop
    split
    · exact plusLoop_all hsub (st := (st.1.add _, st.2)) hst hrest
    · split
      · exact plusLoop_all hsub (foldl_plusItem_all hst (hsub _ hpa)) hrest
      · refine plusLoop_all hsub (st := (st.1, st.2 ++ [a])) ?_ hrest
        intro e he
        rcases List.mem_append.1 he with he | he
        · exact hst e he
        · simp only [List.mem_singleton] at he; subst he; exact hpa

theorem CompF.walkPlus (hc : CompF P) {args : List Expr} (h : ∀ a, a ∈ args → P a) :
    P (walkPlus args) := by
  have hl := plusLoop_all (fun ss hp => (hc.app _ _ (by nofluent)).1 hp) (st := (.i 0, []))
    (fun e he => absurd he (by simp)) h
  unfold Simp.walkPlus
  simp only []
  split
  · refine hc.mkPlus ?_
    intro e he
    rcases List.mem_append.1 he with he | he
    · exact hl e he
    · simp only [List.mem_singleton] at he; subst he; exact hc.toExpr _
  · split
    · exact hc.int 0
    · exact hc.mkPlus hl

theorem CompF.walkMinus (hc : CompF P) {a b : Expr} (ha : P a) (hb : P b) : P (walkMinus a b) := by
  unfold Simp.walkMinus
  split
  · exact hc.toExpr _
  · split
    · refine hc.walkPlus ?_
      intro e he
      simp only [List.mem_cons, List.not_mem_nil, or_false] at he
      rcases he with rfl | rfl
      · exact ha
      · exact hc.toExpr _
    · exact hc.app2 ha hb
  · exact hc.app2 ha hb

theorem timesItem_all {o : Option (Num × List Expr)} {s : Expr} {st' : Num × List Expr}
    (ho : ∀ st, o = some st → ∀ e, e ∈ st.2 → P e) (hs : P s) (h : timesItem o s = some st') :
    ∀ e, e ∈ st'.2 → P e := by
  unfold timesItem at h
  split at h
  · cases h
  · rename_i st
    split at h
    · split at h
      · cases h
      · simp only [Option.some.injEq] at h; subst h; exact ho st rfl
    · simp only [Option.some.injEq] at h; subst h
      intro e he
      rcases List.mem_append.1 he with he | he
      · exact ho st rfl e he
      · simp only [List.mem_singleton] at he; subst he; exact hs

theorem foldl_timesItem_all : ∀ {ss : List Expr} {o : Option (Num × List Expr)} {st' : Num × List Expr},
    (∀ st, o = some st → ∀ e, e ∈ st.2 → P e) → (∀ s, s ∈ ss → P s) →
    ss.foldl timesItem o = some st' → ∀ e, e ∈ st'.2 → P e
  | [], o, st', ho, _, h => by
    simp only [List.foldl_nil] at h; exact ho st' h
  | s :: ss, o, st', ho, hss, h => by
    simp only [List.foldl_cons] at h
    refine foldl_timesItem_all (o := timesItem o s) ?_ (fun s' hs' => hss s' (List.mem_cons_of_mem _ hs')) h
    intro st hst
    exact timesItem_all ho (hss s (by simp)) hst

theorem timesLoop_all (hsub : ∀ ss, P (.app .times ss) → ∀ s, s ∈ ss → P s) :
    ∀ {args : List Expr} {st st' : Num × List Expr},
    (∀ e, e ∈ st.2 → P e) → (∀ a, a ∈ args → P a) → timesLoop st args = some st' →
    ∀ e, e ∈ st'.2 → P e
  | [], st, st', hst, _, h => by
    simp only [timesLoop, Option.some.injEq] at h; subst h; exact hst
  | a :: rest, st, st', hst, hargs, h => by
    have hrest : ∀ a', a' ∈ rest → P a' := fun a' ha' => hargs a' (List.mem_cons_of_mem _ ha')
    have hpa := hargs a (by simp)
    unfold timesLoop at h
    split at h
    · split at h
      · cases h
      · exact timesLoop_all hsub (st := (st.1.mul _, st.2)) hst hrest h
    · split at h
      · split at h
        · cases h
        · rename_i st1 h1
          refine timesLoop_all hsub ?_ hrest h
          refine foldl_timesItem_all (o := some st) ?_ (hsub _ hpa) h1
          intro st0 h0; simp only [Option.some.injEq] at h0; subst h0; exact hst
      · refine timesLoop_all hsub (st := (st.1, st.2 ++ [a])) ?_ hrest h
        intro e he
        rcases List.mem_append.1 he with he | he
        · exact hst e he
        · simp only [List.mem_singleton] at he; subst he; exact hpa

theorem CompF.walkTimes (hc : CompF P) {args : List Expr} (h : ∀ a, a ∈ args → P a) :
    P (walkTimes args) := by
  unfold Simp.walkTimes
  split
  · exact hc.int 0
  · rename_i st hst
    have hl := timesLoop_all (fun ss hp => (hc.app _ _ (by nofluent)).1 hp) (st := (.i 1, []))
      (fun e he => absurd he (by simp)) h hst
    split
    · refine hc.mkTimes ?_
      intro e he
      rcases List.mem_append.1 he with he | he
      · exact hl e he
      · simp only [List.mem_singleton] at he; subst he; exact hc.toExpr _
    · split
      · exact hc.int 1
      · exact hc.mkTimes hl

theorem CompF.walkDiv (hc : CompF P) {a b e' : Expr} (ha : P a) (hb : P b)
    (h : walkDiv a b = .ok e') : P e' := by
  unfold Simp.walkDiv at h
  split at h
  · split at h
    · cases h
    · split at h <;> simp only [pure, Except.pure, Except.ok.injEq] at h <;> subst h
      · exact hc.int _
      · exact hc.real _
  · split at h
    · cases h
    · simp only [pure, Except.pure, Except.ok.injEq] at h; subst h; exact hc.real _
  · simp only [pure, Except.pure, Except.ok.injEq] at h; subst h; exact hc.app2 ha hb

/-! ### the dispatch -/

theorem walkApp_compF (hc : CompF P) {cfg : SimpCfg} (ht : TablesOK cfg P) {op : Op} {as : List Expr}
    {e' : Expr} (has : ∀ a, a ∈ as → P a) (hflu : ∀ f, op = .fluent f → P (.app (.fluent f) as))
    (h : walkApp cfg op as = .ok e') : P e' := by
  unfold walkApp at h
  split at h
  all_goals try (simp only [pure, Except.pure, Except.ok.injEq] at h)
  · subst h; exact hc.walkJunc has
  · subst h; exact hc.walkJunc has
  · subst h; exact hc.walkNot (has _ (by simp))
  · subst h; exact hc.walkIff (has _ (by simp)) (has _ (by simp))
  · subst h; exact hc.walkImplies (has _ (by simp)) (has _ (by simp))
  · subst h; exact hc.walkEquals (has _ (by simp)) (has _ (by simp))
  · exact hc.walkCmp (has _ (by simp)) (has _ (by simp)) h
  · exact hc.walkCmp (has _ (by simp)) (has _ (by simp)) h
  · subst h
    unfold walkFluent
    simp only [mkFluent]
    split
    · exact hflu _ rfl
    · split
      · exact hflu _ rfl
      · split
        · rename_i v hv; exact ht.init _ _ v hv
        · exact hflu _ rfl
  · unfold walkIfun at h
    split at h
    · simp only [pure, Except.pure, Except.ok.injEq] at h; subst h; exact (hc.app _ _ (by nofluent)).2 has
    · split at h
      · cases h
      · rename_i r hr; exact ht.funs _ _ r e' hr h
  · subst h; exact (hc.app _ _ (by nofluent)).2 has
  · subst h; exact hc.walkPlus has
  · subst h; exact hc.walkMinus (has _ (by simp)) (has _ (by simp))
  · subst h; exact hc.walkTimes has
  · exact hc.walkDiv (has _ (by simp)) (has _ (by simp)) h
  · subst h
    unfold walkAlwaysLike
    split
    · exact hc.bool _
    · split
      · exact hc.bool _
      · exact (hc.app _ _ (by nofluent)).2 has
  · subst h
    unfold walkAlwaysLike
    split
    · exact hc.bool _
    · split
      · exact hc.bool _
      · exact (hc.app _ _ (by nofluent)).2 has
  · subst h
    unfold walkAtMostOnce
    split
    · exact hc.bool _
    · exact (hc.app _ _ (by nofluent)).2 has
  · subst h
    unfold walkSometimeBefore
    split
    · exact hc.bool _
    · split
      · exact hc.bool _
      · exact (hc.app _ _ (by nofluent)).2 has
  · subst h
    unfold walkSometimeAfter
    split
    · exact hc.bool _
    · split
      · exact hc.bool _
      · split
        · exact hc.bool _
        · exact (hc.app _ _ (by nofluent)).2 has
  · cases h

end

/-! ### the node-local tests of `Core/WellFormed.lean` through the simplifier -/
section
open UPVerif.WF

/-- the test admits every operator other than FLUENT_EXP, with any number of arguments -/
def OpenOps (N : NodePred) : Prop := ∀ op n, (∀ f, op ≠ .fluent f) → N.op op n = true

/-- a quantifier over fewer of the same variables still passes -/
def QuantMono (N : NodePred) : Prop :=
  ∀ q (vs vs' : List Var), (∀ v ∈ vs', v ∈ vs) → N.quant q vs = true → N.quant q vs' = true

theorem compF_holds {N : NodePred} (hc : N.Consts) (ho : OpenOps N) : CompF (fun e => holds N e = true) where
  bool b := by rw [holds_leaf]; exact hc.bool b
  int z := by rw [holds_leaf]; exact hc.int z
  real r := by rw [holds_leaf]; exact hc.real r
  app op l hop := by
    rw [holds_app]
    exact ⟨fun h => h.2, fun h => ⟨ho op _ hop, h⟩⟩

theorem All₂.length_eq {α β : Type} {R : α → β → Prop} : ∀ {as : List α} {bs : List β}, All₂ R as bs →
    bs.length = as.length
  | _, _, .nil => rfl
  | _, _, .cons _ hrest => by simp [All₂.length_eq hrest]

theorem All₂.exists_left' {α β : Type} {R : α → β → Prop} :
    ∀ {as : List α} {bs : List β}, All₂ R as bs → ∀ b, b ∈ bs → ∃ a, a ∈ as ∧ R a b
  | _, _, .nil, b, hb => by cases hb
  | _, _, .cons hab hrest, b, hb => by
    rcases List.mem_cons.1 hb with rfl | hb
    · exact ⟨_, by simp, hab⟩
    · obtain ⟨a, ha, hr⟩ := All₂.exists_left' hrest b hb
      exact ⟨a, List.mem_cons_of_mem _ ha, hr⟩

/-- the simplifier only rearranges the nodes it is given: whatever node-local test they all pass, the result passes
    (the test must admit all non-fluent operators and the constants the tables of the configuration can insert) -/
theorem simpF_holds {N : NodePred} (hc : N.Consts) (ho : OpenOps N) (hq : QuantMono N) (cfg : SimpCfg)
    (ht : TablesOK cfg (fun e => holds N e = true)) :
    ∀ n e e', simpF cfg n e = .ok e' → holds N e = true → holds N e' = true := by
  apply simpF_induct cfg (fun e e' => holds N e = true → holds N e' = true)
  · intro l h; exact h
  · intro op args as e' hall hw h
    rw [holds_app] at h
    have has : ∀ a, a ∈ as → holds N a = true := by
      intro b hb
      obtain ⟨a, ha, hab⟩ := All₂.exists_left' hall b hb
      exact hab (h.2 a ha)
    refine walkApp_compF (compF_holds hc ho) ht has ?_ hw
    intro f hf
    subst hf
    rw [holds_app, All₂.length_eq hall]
    exact ⟨h.1, has⟩
  · intro vs b b' hb h
    rw [holds_quant] at h
    unfold walkForall
    simp only []
    split
    · exact hb h.2
    · rw [holds_quant]
      exact ⟨hq _ vs _ (fun v hv => (List.mem_filter.1 hv).1) h.1, hb h.2⟩
  · intro vs b b' e' resimp hb hres hw h
    rw [holds_quant] at h
    obtain ⟨vars', b'', hloop, rfl⟩ := walkExists_ok hw
    have hinv := elimLoop_inv (cfg := cfg) (resimp := resimp)
      (fun vars e => holds N e = true ∧ ∀ v, v ∈ vars → v ∈ vs) ?_ _ _ _ _ _
      ⟨hb h.2, fun v hv => (List.mem_filter.1 hv).1⟩ hloop
    · split
      · exact hinv.1
      · rw [holds_quant]
        exact ⟨hq _ vs _ hinv.2 h.1, hinv.1⟩
    · intro vars cs x value rest e1 hI hf hr
      obtain ⟨hcs, hvars⟩ := hI
      rw [holds_app] at hcs
      obtain ⟨pre, c, post, hsplit, hrest, hcand, _⟩ := findElim_some hf
      simp only [List.nil_append] at hsplit
      have hc' : holds N c = true := hcs.2 c (by rw [hsplit]; simp)
      have hval : holds N value = true := by
        obtain ⟨_, hform⟩ := elimCandidate_some hcand
        rcases hform with rfl | rfl
        · exact ((holds_app _ _ _).1 hc').2 value (by simp)
        · exact ((holds_app _ _ _).1 hc').2 value (by simp)
      have hrest' : holds N rest = true := by
        rw [hrest]
        refine holds_mkAnd hc (ho _ _ (by nofluent)) ?_
        intro y hy
        apply hcs.2 y
        rw [hsplit]
        rcases List.mem_append.1 hy with hy | hy
        · exact List.mem_append_left _ hy
        · exact List.mem_append_right _ (List.mem_cons_of_mem _ hy)
      refine ⟨hres _ _ hr (holds_subst hc rest _ ?_ hrest'), ?_⟩
      · intro kv hkv
        simp only [List.mem_singleton] at hkv
        subst hkv
        exact hval
      · intro v hv
        exact hvars v (List.mem_filter.1 (List.mem_filter.1 hv).1).1

/-- without tables (no problem: no static fluents, no interpreted functions) nothing can be inserted -/
theorem tablesOK_empty (E : TypeEnv) (P : Expr → Prop) : TablesOK (SimpCfg.empty E) P where
  init f args v hv := by simp [SimpCfg.initialValue, SimpCfg.empty, List.lookup] at hv
  funs g vs r e' hr _ := by simp [SimpCfg.funLookup, SimpCfg.empty] at hr

theorem simplify_holds {N : NodePred} (hc : N.Consts) (ho : OpenOps N) (hq : QuantMono N) (E : TypeEnv) {e e' : Expr}
    (h : simplify (SimpCfg.empty E) e = .ok e') (he : holds N e = true) : holds N e' = true :=
  simpF_holds hc ho hq _ (tablesOK_empty E _) _ e e' h he

theorem openOps_wfNode (D : Declared.Decls) (ps : List (String × Ty)) : OpenOps (wfNode D ps) := by
  intro op n hop
  cases op <;> first | rfl | exact absurd rfl (hop _)

theorem quantMono_wfNode (D : Declared.Decls) (ps : List (String × Ty)) : QuantMono (wfNode D ps) := by
  intro q vs vs' hsub h
  simp only [wfNode, List.all_eq_true] at h ⊢
  exact fun v hv => h v (hsub v hv)

theorem openOps_noQuant : OpenOps anyNode.noQuant := fun _ _ _ => rfl
theorem quantMono_noQuant : QuantMono anyNode.noQuant := fun _ _ _ _ h => h

end
end UPVerif.SimpF
