import UPVerif.Core.Sim
import UPVerif.Lemmas.DagCtxLemmas
import UPVerif.Lemmas.DagSubstLemmas
/-!
The quantifier remover as an instance of the machine (`Dag.qrmSpec`, `Core/DagCtx.lean`) computes the
shared core's `Sim.removeQuantifiers` — the function the simulator / compiler properties (C01, C06, …)
are stated with — on the objects the problem has, when the manager refuses nothing.
-/
namespace UPVerif.Dag
open UPVerif UPVerif.Expr

/-- `problem.objects(UserType t)` with the objects' types (what `QWorld.objects` is for one problem) -/
def objsOfProblem (P : Problem) : ObjView := fun t => P.objects.filter (fun o => P.types.isSubtype o.2 t)

theorem mapExcept_ok {α β ε : Type} (f : α → Except ε β) (g : α → β) :
    ∀ l : List α, (∀ x ∈ l, f x = .ok (g x)) → mapExcept f l = .ok (l.map g)
  | [], _ => rfl
  | x :: xs, h => by
    have h1 := h x (List.mem_cons_self ..)
    have h2 := mapExcept_ok f g xs (fun y hy => h y (List.mem_cons_of_mem _ hy))
    simp only [mapExcept, h1, h2, List.map_cons]

theorem product_map {α β : Type} (f : α → β) :
    ∀ ds : List (List α), (product ds).map (List.map f) = Sim.cartesian (ds.map (List.map f))
  | [] => rfl
  | d :: ds => by
    simp only [product, Sim.cartesian, List.map_cons, List.map_flatMap, List.flatMap_map, List.map_map,
      ← product_map f ds]
    rfl

theorem mem_product {α : Type} :
    ∀ (ds : List (List α)) (l : List α), l ∈ product ds → ∀ x ∈ l, ∃ d ∈ ds, x ∈ d
  | [], l, hl, x, hx => by
    simp only [product, List.mem_singleton] at hl
    subst hl; cases hx
  | d :: ds, l, hl, x, hx => by
    simp only [product, List.mem_flatMap, List.mem_map] at hl
    obtain ⟨y, hy, r, hr, rfl⟩ := hl
    rcases List.mem_cons.mp hx with rfl | hx'
    · exact ⟨d, List.mem_cons_self .., hy⟩
    · obtain ⟨d', hd', hxd⟩ := mem_product ds r hr x hx'
      exact ⟨d', List.mem_cons_of_mem _ hd', hxd⟩

theorem lookup_of_mem_nodup :
    ∀ (l : List (String × String)), (l.map (·.1)).Nodup → ∀ n t, (n, t) ∈ l → l.lookup n = some t
  | [], _, _, _, h => by cases h
  | (n', t') :: l, hN, n, t, h => by
    simp only [List.map_cons, List.nodup_cons] at hN
    rcases List.mem_cons.mp h with heq | hin
    · cases heq
      simp [List.lookup]
    · have hne : n ≠ n' := by
        intro he; subst he
        exact hN.1 (List.mem_map.mpr ⟨(n, t), hin, rfl⟩)
      have : (n == n') = false := by simpa using hne
      simp only [List.lookup, this]
      exact lookup_of_mem_nodup l hN.2 n t hin

theorem objExpr_of_mem (P : Problem) (hN : (P.objects.map (·.1)).Nodup) (o : Obj) (ho : o ∈ P.objects) :
    Sim.objExpr P o.1 = .leaf (.obj o.1 o.2) := by
  unfold Sim.objExpr
  rw [lookup_of_mem_nodup P.objects hN o.1 o.2 ho]; rfl

theorem qrmDomain_sub (P : Problem) (v : Var) : ∀ o ∈ qrmDomain (objsOfProblem P) v, o ∈ P.objects := by
  intro o ho
  unfold qrmDomain at ho
  split at ho
  · exact (List.mem_filter.mp ho).1
  · cases ho

theorem qrmDomain_names (P : Problem) (v : Var) :
    (qrmDomain (objsOfProblem P) v).map (·.1) = Sim.tyDomain P v.ty := by
  unfold qrmDomain Sim.tyDomain
  cases v.ty <;> simp [objsOfProblem, Problem.objectsOf]

/-- one instance of the loop body: `qrmInst` without refusals is the core's `substE` on the
    name-indexed substitution -/
theorem qrmInst_eq (P : Problem) (hN : (P.objects.map (·.1)).Nodup) (vs : List Var) (b' : Expr)
    (objs : List Obj) (ho : ∀ o ∈ objs, o ∈ P.objects) :
    qrmInst (fun _ => false) vs b' objs =
      .ok (Sim.substE ((vs.zip (objs.map (·.1))).map
        (fun vo => (Expr.leaf (.var vo.1), Sim.objExpr P vo.2))).reverse b') := by
  have hσ : (vs.zip (objs.map (·.1))).map (fun vo => (Expr.leaf (.var vo.1), Sim.objExpr P vo.2)) =
      (vs.zip objs).map (fun vo => (Expr.leaf (.var vo.1), Expr.leaf (.obj vo.2.1 vo.2.2))) := by
    rw [List.zip_map_right, List.map_map]
    apply List.map_congr_left
    intro vo hvo
    have : vo.2 ∈ objs := (List.of_mem_zip (a := vo.1) (b := vo.2) (by simpa using hvo)).2
    simp only [Function.comp, Prod.map, id]
    rw [objExpr_of_mem P hN vo.2 (ho _ this)]
  rw [hσ]
  unfold qrmInst Sim.substE
  simp only
  split
  · rfl
  · rw [substE_eq_subst]

mutual
theorem qrmPure_eq (P : Problem) (hN : (P.objects.map (·.1)).Nodup) :
    ∀ e, pureWalk (qrmSpec (fun _ => false)) (objsOfProblem P) e = .ok (Sim.removeQuantifiers P e)
  | .leaf l => by
    rw [pureWalk]
    simp [Sim.removeQuantifiers, nodeResult, qrmSpec, qrmFn, rebuildE]
  | .app op args => by
    rw [pureWalk, qrmPure_eqList P hN args]
    simp [Sim.removeQuantifiers, nodeResult, qrmSpec, qrmFn, rebuildE]
  | .quant q vs b => by
    rw [pureWalk, qrmPure_eq P hN b]
    simp only [Sim.removeQuantifiers, nodeResult, qrmSpec, qrmFn]
    have hall : ∀ objs ∈ product (vs.map (qrmDomain (objsOfProblem P))),
        qrmInst (fun _ => false) vs (Sim.removeQuantifiers P b) objs =
          .ok (Sim.substE ((vs.zip (objs.map (·.1))).map
            (fun vo => (Expr.leaf (.var vo.1), Sim.objExpr P vo.2))).reverse (Sim.removeQuantifiers P b)) := by
      intro objs hobjs
      apply qrmInst_eq P hN
      intro o ho
      obtain ⟨d, hd, hod⟩ := mem_product _ objs hobjs o ho
      obtain ⟨v, _, rfl⟩ := List.mem_map.mp hd
      exact qrmDomain_sub P v o hod
    rw [mapExcept_ok _ _ _ hall]
    have hprod : (product (vs.map (qrmDomain (objsOfProblem P)))).map (List.map (·.1)) =
        Sim.cartesian (vs.map (fun v => Sim.tyDomain P v.ty)) := by
      rw [product_map, List.map_map]
      congr 1
      apply List.map_congr_left
      intro v _
      exact qrmDomain_names P v
    rw [← hprod, List.map_map]
    cases q <;> rfl
theorem qrmPure_eqList (P : Problem) (hN : (P.objects.map (·.1)).Nodup) :
    ∀ es, pureList (qrmSpec (fun _ => false)) (objsOfProblem P) es = .ok (Sim.removeQuantifiersList P es)
  | [] => by simp only [pureList, Sim.removeQuantifiersList]
  | e :: es => by
    rw [pureList, qrmPure_eqList P hN es, qrmPure_eq P hN e]
    simp only [Sim.removeQuantifiersList]
end

end UPVerif.Dag
