import UPVerif.Lemmas.SimQueries
import UPVerif.Core.Validate
import UPVerif.Spec.Plan
/-!
Helper lemmas for `Props/C03.lean`, part 1: one iteration of the validator's loop against the
documented one-step semantics, and the spec-level facts (states are only seen through their readings;
runs are deterministic up to readings).
-/
namespace UPVerif.Validate
open UPVerif UPVerif.Sim UPVerif.Spec

/-! ### states are only seen through their readings -/

theorem ctx_congr {W : World} {s t : SimState} (h : s.get W.P = t.get W.P) : ctx W s = ctx W t := by
  simp [ctx, h]

theorem apply_congr {W : World} {s t : SimState} (h : s.get W.P = t.get W.P) (a : Action) (args : List String) :
    Spec.applyT W s a args = Spec.applyT W t a args := by
  simp only [Spec.applyT, successor, successorOf, ctx_congr h]

theorem isGoal_congr {W : World} {s t : SimState} (h : s.get W.P = t.get W.P) :
    Spec.isGoal W s = Spec.isGoal W t := by
  have : holds W s = holds W t := by funext e; simp only [holds, ctx_congr h]
  simp only [Spec.isGoal, this]

theorem numVal_congr {W : World} {s t : SimState} (h : s.get W.P = t.get W.P) (e : Expr) :
    numVal W s e = numVal W t e := by
  simp only [numVal, ctx_congr h]

theorem costOf_congr {W : World} {s t : SimState} (h : s.get W.P = t.get W.P) (costs : List (String × Expr))
    (dflt : Option Expr) (ai : Inst) : costOf W costs dflt ai s = costOf W costs dflt ai t := by
  simp only [costOf, numVal_congr h]

theorem gain_congr {W : World} {s t : SimState} (h : s.get W.P = t.get W.P) :
    ∀ gs : List (Expr × Rat), gain W s gs = gain W t gs
  | [] => rfl
  | (g, w) :: gs => by simp only [gain, boolVal, ctx_congr h, gain_congr h gs]

/-- same readings, state by state -/
inductive SameReadings (W : World) : List SimState → List SimState → Prop where
  | nil : SameReadings W [] []
  | cons {a b : SimState} {l l' : List SimState} : a.get W.P = b.get W.P → SameReadings W l l' →
      SameReadings W (a :: l) (b :: l')

theorem costSum_congr {W : World} (costs : List (String × Expr)) (dflt : Option Expr) :
    ∀ (π : List Inst) {l l' : List SimState}, SameReadings W l l' →
      costSum W costs dflt π l = costSum W costs dflt π l'
  | [], _, _, _ => by simp [costSum]
  | _ :: _, _, _, .nil => rfl
  | ai :: π, _, _, .cons hab hrest => by
    simp only [costSum, costOf_congr hab, costSum_congr costs dflt π hrest]

theorem metricValue_congr {W : World} (m : Metric) (π : List Inst) {l l' : List SimState} {s t : SimState}
    (hl : SameReadings W l l') (h : s.get W.P = t.get W.P) :
    metricValue W m π l s = metricValue W m π l' t := by
  cases m with
  | minActionCosts c d => exact costSum_congr c d π hl
  | minLength => rfl
  | minFinal e => exact numVal_congr h e
  | maxFinal e => exact numVal_congr h e
  | oversub gs => exact gain_congr h gs

theorem reported_congr {W : World} (m : Option Metric) (π : List Inst) {l l' : List SimState} {s t : SimState}
    (hl : SameReadings W l l') (h : s.get W.P = t.get W.P) :
    reported W m π l s = reported W m π l' t := by
  cases m with
  | none => rfl
  | some mt => simp only [reported, metricValue_congr mt π hl h]

/-! ### runs are deterministic up to readings -/

theorem stepOK_det {W : World} {s t s₁ t₁ : SimState} {ai : Inst} (h : s.get W.P = t.get W.P)
    (h1 : StepOK W s ai s₁) (h2 : StepOK W t ai t₁) : s₁.get W.P = t₁.get W.P := by
  have e1 := h1.2
  rw [apply_congr h, h2.2] at e1
  exact (Option.some.inj e1).symm

theorem stepOK_not_stuck {W : World} {s t s₁ : SimState} {ai : Inst} (h : s.get W.P = t.get W.P)
    (h1 : StepOK W s ai s₁) (h2 : Stuck W t ai) : False := by
  rcases h2 with h2 | h2
  · exact h2 h1.1
  · have e1 := h1.2
    rw [apply_congr h, h2] at e1
    cases e1

theorem exec_det {W : World} : ∀ {π : List Inst} {s t sf tf : SimState} {l l' : List SimState},
    s.get W.P = t.get W.P → Exec W s π l sf → Exec W t π l' tf →
    SameReadings W l l' ∧ sf.get W.P = tf.get W.P
  | [], _, _, _, _, _, _, h, .nil _, .nil _ => ⟨.nil, h⟩
  | _ :: _, _, _, _, _, _, _, h, .cons h1 r1, .cons h2 r2 =>
    have hn := stepOK_det h h1 h2
    have ih := exec_det hn r1 r2
    ⟨.cons h ih.1, ih.2⟩

/-- an executable plan has no stuck step: a run of a prefix cannot end in a state where the next
    step has no documented successor -/
theorem exec_prefix_not_stuck {W : World} : ∀ {π₁ : List Inst} {ai : Inst} {π₂ : List Inst} {s t sf sk : SimState}
    {l l₁ : List SimState}, s.get W.P = t.get W.P → Exec W s (π₁ ++ ai :: π₂) l sf → Exec W t π₁ l₁ sk →
    ¬ Stuck W sk ai
  | [], _, _, _, _, _, _, _, _, h, .cons h1 _, .nil _ => fun hs => stepOK_not_stuck h h1 hs
  | _ :: _, _, _, _, _, _, _, _, _, h, .cons h1 r1, .cons h2 r2 =>
    exec_prefix_not_stuck (stepOK_det h h1 h2) r1 r2

/-- … and the state in which the step after a prefix is taken is the one the prefix run ends in -/
theorem exec_prefix_state {W : World} : ∀ {π₁ : List Inst} {ai : Inst} {π₂ : List Inst} {s t sf sk : SimState}
    {l l₁ : List SimState}, s.get W.P = t.get W.P → Exec W s (π₁ ++ ai :: π₂) l sf → Exec W t π₁ l₁ sk →
    ∃ sk', l[π₁.length]? = some sk' ∧ sk'.get W.P = sk.get W.P
  | [], _, _, _, _, _, _, _, _, h, .cons _ _, .nil _ => ⟨_, rfl, h⟩
  | _ :: _, _, _, _, _, _, _, _, _, h, .cons h1 r1, .cons h2 r2 => by
    obtain ⟨sk', e1, e2⟩ := exec_prefix_state (stepOK_det h h1 h2) r1 r2
    exact ⟨sk', by simpa using e1, e2⟩

theorem exec_length {W : World} : ∀ {π : List Inst} {s sf : SimState} {l : List SimState},
    Exec W s π l sf → l.length = π.length
  | [], _, _, _, .nil _ => rfl
  | _ :: _, _, _, _, .cons _ r => by simp [exec_length r]

/-- a step whose cost is undefined makes the cost sum undefined -/
theorem costSum_none_of_step {W : World} (costs : List (String × Expr)) (dflt : Option Expr) :
    ∀ (π₁ : List Inst) (ai : Inst) (π₂ : List Inst) (l : List SimState) (sk : SimState),
      l.length = (π₁ ++ ai :: π₂).length → l[π₁.length]? = some sk → costOf W costs dflt ai sk = none →
      costSum W costs dflt (π₁ ++ ai :: π₂) l = none
  | [], ai, π₂, [], _, hl, _, _ => by simp at hl
  | [], ai, π₂, s :: l, sk, _, hk, hc => by
    simp at hk; subst hk
    simp [costSum, hc]
  | b :: π₁, ai, π₂, [], _, hl, _, _ => by simp at hl
  | b :: π₁, ai, π₂, s :: l, sk, hl, hk, hc => by
    have ih := costSum_none_of_step costs dflt π₁ ai π₂ l sk (by simpa using hl) (by simpa using hk) hc
    simp only [List.cons_append, costSum, ih]
    cases costOf W costs dflt b s <;> rfl

/-! ### the precondition loop without early termination -/

theorem unsatPre_nil {c : EvalCtx} (early : Bool) : ∀ (ps : List Expr) (i : Nat),
    unsatPre c early ps i = .ok [] ↔ preOK c ps = true
  | [], _ => by simp [unsatPre, preOK]
  | p :: ps, i => by
    have ih := unsatPre_nil (c := c) early ps (i + 1)
    simp only [unsatPre, preOK, List.all_cons, Bool.and_eq_true] at ih ⊢
    cases hx : eval c [] p with
    | error x => simp [Spec.isTrue]
    | ok v =>
      cases v with
      | b x =>
        cases x with
        | true => simpa [Spec.isTrue] using ih
        | false =>
          cases early with
          | true => simp [Spec.isTrue]
          | false =>
            simp only [Spec.isTrue, Bool.false_eq_true, if_false, false_and, iff_false]
            cases unsatPre c false ps (i + 1) <;> simp
      | n q =>
        cases early with
        | true => simp [Spec.isTrue]
        | false =>
          simp only [Spec.isTrue, Bool.false_eq_true, if_false, false_and, iff_false]
          cases unsatPre c false ps (i + 1) <;> simp
      | o n =>
        cases early with
        | true => simp [Spec.isTrue]
        | false =>
          simp only [Spec.isTrue, Bool.false_eq_true, if_false, false_and, iff_false]
          cases unsatPre c false ps (i + 1) <;> simp

/-! ### `get_unsatisfied_conditions` + `apply_unsafe` against the documented step -/

theorem spec_apply_of_ground {W : World} {s : SimState} {a : Action} {args : List String} {g : GAction}
    (hg : groundT W a args = .ok (some g)) : Spec.applyT W s a args = successor W s g := by
  simp [Spec.applyT, hg]

/-- the step succeeded: the new state reads as the documented successor -/
theorem simStep_go {W : World} {s s' : SimState} {ai : Inst} (h : simStep W s ai = .ok (.go s')) :
    StepOK W s ai s' := by
  unfold simStep at h
  by_cases hmem : ai.1 ∈ W.P.actions
  · simp only [hmem, not_true_eq_false, if_false] at h
    cases hg : groundT W ai.1 ai.2 with
    | error x => rw [hg] at h; cases h
    | ok og =>
      rw [hg] at h
      cases og with
      | none => cases h
      | some g =>
        dsimp only at h
        cases hp : unsatPre (ctx W s) false g.pre 0 with
        | error x => rw [hp] at h; cases x <;> cases h
        | ok l =>
          rw [hp] at h
          cases l with
          | cons _ _ => cases h
          | nil =>
            dsimp only at h
            have hpre := (unsatPre_nil false g.pre 0).1 hp
            have hu := applyUnsafe_spec W s g
            cases ha : applyUnsafe W s g with
            | error x =>
              rw [ha] at h
              cases x with
              | conflict => cases h
              | invalid => cases h
              | eval e => cases e <;> cases h
            | ok s'' =>
              rw [ha] at h hu
              simp only [catchStep, Except.ok.injEq, Out.go.injEq] at h
              subst h
              obtain ⟨F, hF, hC, hget, hinv⟩ := hu
              refine ⟨hmem, ?_⟩
              rw [spec_apply_of_ground hg]
              unfold successor
              rw [successorOf_some hpre hF ⟨hC, hinv⟩, hget]
  · simp [hmem] at h

/-- the step was refused: there is no documented successor -/
theorem simStep_stop {W : World} {s : SimState} {ai : Inst} {w : Why} (h : simStep W s ai = .ok (.stop w)) :
    Stuck W s ai := by
  unfold simStep at h
  by_cases hmem : ai.1 ∈ W.P.actions
  · simp only [hmem, not_true_eq_false, if_false] at h
    right
    cases hg : groundT W ai.1 ai.2 with
    | error x => rw [hg] at h; cases h
    | ok og =>
      rw [hg] at h
      cases og with
      | none => simp [Spec.applyT, hg]
      | some g =>
        dsimp only at h
        rw [spec_apply_of_ground hg]
        unfold successor
        cases hp : unsatPre (ctx W s) false g.pre 0 with
        | error x =>
          apply successorOf_none_pre
          rw [← unsatPre_nil false g.pre 0, hp]; simp
        | ok l =>
          rw [hp] at h
          cases l with
          | cons _ _ =>
            apply successorOf_none_pre
            rw [← unsatPre_nil false g.pre 0, hp]; simp
          | nil =>
            dsimp only at h
            have hu := applyUnsafe_spec W s g
            cases ha : applyUnsafe W s g with
            | ok s'' => rw [ha] at h; cases h
            | error x =>
              rw [ha] at h hu
              cases x with
              | conflict => exact successorOf_none_eff hu
              | invalid => exact successorOf_none_eff hu
              | eval e =>
                cases e with
                | missing => exact successorOf_none_eff hu
                | zeroDiv => cases h
                | other => cases h
  · left; exact hmem

/-! ### the metric accumulation of one step -/

theorem actionCost_eq (costs : List (String × Expr)) (dflt : Option Expr) (a : Action) :
    actionCost costs dflt a = costExpr costs dflt a := by
  unfold actionCost costExpr
  cases costs.lookup a.name <;> rfl

theorem costStep_go {W : World} {costs : List (String × Expr)} {dflt : Option Expr} {s : SimState} {acc acc' : Rat}
    {ai : Inst} (h : costStep W costs dflt s acc ai = .ok (.go acc')) :
    ∃ q, costOf W costs dflt ai s = some q ∧ acc' = q + acc := by
  unfold costStep at h
  unfold costOf
  rw [actionCost_eq] at h
  cases hc : costExpr costs dflt ai.1 with
  | none => rw [hc] at h; cases h
  | some c =>
    rw [hc] at h
    dsimp only at h ⊢
    by_cases hl : ai.1.params.length = ai.2.length
    · simp only [hl, ne_eq, not_true_eq_false, if_false, if_true] at h ⊢
      unfold numVal
      cases he : eval (ctx W s) [] (substE (paramSubstT W.P ai.1 ai.2) c) with
      | error x => rw [he] at h; cases x <;> cases h
      | ok v =>
        rw [he] at h
        cases v with
        | n q => simp only [Except.ok.injEq, Out.go.injEq] at h; exact ⟨q, rfl, h.symm⟩
        | b _ => cases h
        | o _ => cases h
    · simp [hl] at h

theorem costStep_stop {W : World} {costs : List (String × Expr)} {dflt : Option Expr} {s : SimState} {acc : Rat}
    {ai : Inst} {w : Why} (h : costStep W costs dflt s acc ai = .ok (.stop w)) :
    costOf W costs dflt ai s = none := by
  unfold costStep at h
  unfold costOf
  rw [actionCost_eq] at h
  cases hc : costExpr costs dflt ai.1 with
  | none => rfl
  | some c =>
    rw [hc] at h
    dsimp only at h ⊢
    by_cases hl : ai.1.params.length = ai.2.length
    · simp only [hl, ne_eq, not_true_eq_false, if_false, if_true] at h ⊢
      unfold numVal
      cases he : eval (ctx W s) [] (substE (paramSubstT W.P ai.1 ai.2) c) with
      | error x => rfl
      | ok v =>
        rw [he] at h
        cases v with
        | n q => cases h
        | b _ => cases h
        | o _ => cases h
    · simp [hl]

end UPVerif.Validate
