import UPVerif.Lemmas.CompileAgree
import UPVerif.Lemmas.NnfLemmas
/-!
Facts about the state evaluator (`Core/Eval.lean`) that the NegativeConditionsRemover proofs need:

* `ev` / `bev`: the value / Boolean value of an expression with all errors identified (`none`);
* the Boolean view obeys the laws of the five connectives, hence — by the proof of `C12.nnf_equiv`, replayed for
  ANY view with these laws (`BoolView.nnf`) — `Nnf` preserves it; with a well-formed root (`nnfRootOK`) it
  preserves the value itself (`ev_nnf`);
* evaluation does not depend on the fluents an expression does not mention, for a LIST of fluents
  (`eval_agreeL`: `Lemmas/CompileAgree.lean` has the one-fluent version).
-/
namespace UPVerif.Compile
open UPVerif UPVerif.Expr UPVerif.Sim UPVerif.Spec

/-! ### a Boolean view with the laws of the connectives: NNF preserves it -/

/-- the list version of a Boolean view -/
def viewList (B : Expr → Option Bool) : List Expr → Option (List Bool)
  | [] => some []
  | e :: es =>
    match B e, viewList B es with
    | some v, some vs => some (v :: vs)
    | _, _ => none

/-- what the proof of `C12.nnf_equiv` uses of the reference denotation -/
structure BoolView (B : Expr → Option Bool) : Prop where
  tt : B Expr.tt = some true
  ff : B Expr.ff = some false
  and : ∀ es, B (.app .and es) = (viewList B es).map (fun bs => bs.all id)
  or : ∀ es, B (.app .or es) = (viewList B es).map (fun bs => bs.any id)
  not : ∀ e, B (.app .not [e]) = (B e).map (!·)
  implies : ∀ a b, B (.app .implies [a, b]) =
    (match B a, B b with
     | some x, some y => some (!x || y)
     | _, _ => none)
  iff : ∀ a b, B (.app .iff [a, b]) =
    (match B a, B b with
     | some x, some y => some (x == y)
     | _, _ => none)

namespace BoolView
variable {B : Expr → Option Bool}

theorem mkAnd (h : BoolView B) (es : List Expr) : B (Expr.mkAnd es) = (viewList B es).map (fun bs => bs.all id) := by
  match es with
  | [] => simp [Expr.mkAnd, h.tt, viewList]
  | [x] =>
    simp only [Expr.mkAnd, viewList]
    cases B x <;> simp
  | x :: y :: r => simp only [Expr.mkAnd]; exact h.and _

theorem mkOr (h : BoolView B) (es : List Expr) : B (Expr.mkOr es) = (viewList B es).map (fun bs => bs.any id) := by
  match es with
  | [] => simp [Expr.mkOr, h.ff, viewList]
  | [x] =>
    simp only [Expr.mkOr, viewList]
    cases B x <;> simp
  | x :: y :: r => simp only [Expr.mkOr]; exact h.or _

theorem mkNot (h : BoolView B) (e : Expr) : B (Expr.mkNot e) = (B e).map (!·) := by
  unfold Expr.mkNot
  split
  · rename_i x
    rw [h.not]
    cases B x <;> simp
  · exact h.not e

theorem nnfJoin (h : BoolView B) (p isAnd : Bool) (es : List Expr) :
    B (Expr.nnfJoin p isAnd es) = (viewList B es).map (fun bs => if p == isAnd then bs.all id else bs.any id) := by
  unfold Expr.nnfJoin
  split
  · rw [h.mkAnd]
  · rw [h.mkOr]

/-- `C12.nnf_equiv` for every view with the laws of the connectives (same proof as `bden_nnf_both`) -/
theorem nnf_both (h : BoolView B) :
    (∀ (p : Bool) (e : Expr), B (nnf p e) = (B e).map (pol p)) ∧
    (∀ (p : Bool) (es : List Expr), viewList B (nnfList p es) = (viewList B es).map (List.map (pol p))) := by
  apply nnf.mutual_induct
  · intro p x ih
    rw [nnf, ih, h.not]
    cases B x <;> cases p <;> simp [pol]
  · intro p args ih
    rw [nnf, h.nnfJoin, ih, h.and]
    cases viewList B args with
    | none => rfl
    | some bs =>
      cases p
      · simp [pol, map_pol_false, any_not]
      · simp [pol, map_pol_true]
  · intro p args ih
    rw [nnf, h.nnfJoin, ih, h.or]
    cases viewList B args with
    | none => rfl
    | some bs =>
      cases p
      · simp [pol, map_pol_false, all_not]
      · simp [pol, map_pol_true]
  · intro p a b iha ihb
    rw [nnf, h.nnfJoin, h.implies]
    simp only [viewList, iha, ihb]
    cases B a <;> cases B b <;> cases p <;> simp [pol]
  · intro p a b iha ihb ihna ihnb
    rw [nnf, h.nnfJoin, h.iff]
    simp only [viewList, h.nnfJoin, iha, ihb, ihna, ihnb]
    cases ha : B a <;> cases hb : B b <;> cases p <;> simp [pol] <;>
      (rename_i x y; cases x <;> cases y <;> rfl)
  · intro e h1 h2 h3 h4 h5
    rw [nnf_atom true e h1 h2 h3 h4 h5]
    simp only [if_true]
    cases B e <;> simp [pol]
  · intro p e h1 h2 h3 h4 h5 hp
    rw [nnf_atom p e h1 h2 h3 h4 h5]
    have : p = false := by cases p <;> simp_all
    subst this
    simp only [Bool.false_eq_true, if_false, h.mkNot]
    cases B e <;> simp [pol]
  · intro p; simp [nnfList, viewList]
  · intro p e es ihe ihes
    simp only [nnfList, viewList, ihe, ihes]
    cases B e <;> cases viewList B es <;> simp

theorem nnf (h : BoolView B) (p : Bool) (e : Expr) : B (Expr.nnf p e) = (B e).map (pol p) := h.nnf_both.1 p e

end BoolView

/-! ### the evaluator with errors identified -/

def toO {α : Type} : Except EvalErr α → Option α
  | .ok v => some v
  | .error _ => none

/-- value of an expression in a state, `none` = any error -/
def ev (c : EvalCtx) (ρ : VEnv) (e : Expr) : Option Val := toO (eval c ρ e)
def evL (c : EvalCtx) (ρ : VEnv) (es : List Expr) : Option (List Val) := toO (evalList c ρ es)
/-- Boolean value, `none` = error or not a Boolean -/
def bev (c : EvalCtx) (ρ : VEnv) (e : Expr) : Option Bool := toB (ev c ρ e)

theorem ev_eq_some {c : EvalCtx} {ρ : VEnv} {e : Expr} {v : Val} : ev c ρ e = some v ↔ eval c ρ e = .ok v := by
  unfold ev toO
  cases eval c ρ e <;> simp

theorem ev_eq_none {c : EvalCtx} {ρ : VEnv} {e : Expr} : ev c ρ e = none ↔ ∃ x, eval c ρ e = .error x := by
  unfold ev toO
  cases eval c ρ e <;> simp

theorem evL_nil (c : EvalCtx) (ρ : VEnv) : evL c ρ [] = some [] := rfl

theorem evL_cons (c : EvalCtx) (ρ : VEnv) (e : Expr) (es : List Expr) :
    evL c ρ (e :: es) = (match ev c ρ e, evL c ρ es with
      | some v, some vs => some (v :: vs)
      | _, _ => none) := by
  unfold evL ev
  simp only [evalList]
  cases evalList c ρ es <;> cases eval c ρ e <;> simp [toO]

theorem ev_app (c : EvalCtx) (ρ : VEnv) (op : Op) (args : List Expr) :
    ev c ρ (.app op args) = (evL c ρ args).bind (fun vs => toO (evalOp c op vs)) := by
  unfold ev evL
  simp only [eval]
  cases evalList c ρ args <;> simp [toO]

theorem ev_leaf (c c' : EvalCtx) (ρ : VEnv) (l : Leaf) : ev c ρ (.leaf l) = ev c' ρ (.leaf l) := rfl

/-- the interpretation `evalOp` hands to the operator table -/
def opInterp (c : EvalCtx) : Interp := { fl := fun _ _ => none, fn := c.fn, par := fun _ => none, dom := fun _ => [] }

/-- every operator but fluent application and division is the reference table (`Core/Den.lean`) -/
theorem evalOp_den (c : EvalCtx) (op : Op) (vs : List Val) (h1 : ∀ f, op ≠ .fluent f) (h2 : op ≠ .div) :
    evalOp c op vs = (match denOp (opInterp c) op vs with
      | some v => .ok v
      | none => .error .other) := by
  cases op with
  | fluent f => exact absurd rfl (h1 f)
  | div => exact absurd rfl h2
  | _ => rfl

theorem toO_evalOp (c : EvalCtx) (op : Op) (vs : List Val) (h1 : ∀ f, op ≠ .fluent f) (h2 : op ≠ .div) :
    toO (evalOp c op vs) = denOp (opInterp c) op vs := by
  rw [evalOp_den c op vs h1 h2]
  cases denOp (opInterp c) op vs <;> rfl

theorem bevL_eq (c : EvalCtx) (ρ : VEnv) (es : List Expr) :
    (evL c ρ es).bind allBools = viewList (bev c ρ) es := by
  induction es with
  | nil => simp [evL_nil, allBools, viewList]
  | cons e es ih =>
    rw [evL_cons]
    simp only [viewList, bev]
    cases hd : ev c ρ e with
    | none => simp [toB]
    | some v =>
      cases hl : evL c ρ es with
      | none =>
        simp only [hl, Option.bind_none] at ih
        cases v <;> simp [toB, ← ih]
      | some vs =>
        simp only [hl, Option.bind_some] at ih
        cases v with
        | b x =>
          simp only [Option.bind_some, allBools, toB, ← ih]
          cases allBools vs <;> simp
        | n q => simp [allBools, toB]
        | o s => simp [allBools, toB]

theorem toO_evalOp_and (c : EvalCtx) (vs : List Val) :
    toO (evalOp c .and vs) = (allBools vs).map (fun bs => .b (bs.all id)) := by
  rw [toO_evalOp c .and vs (by intro f h; cases h) (by intro h; cases h)]; rfl
theorem toO_evalOp_or (c : EvalCtx) (vs : List Val) :
    toO (evalOp c .or vs) = (allBools vs).map (fun bs => .b (bs.any id)) := by
  rw [toO_evalOp c .or vs (by intro f h; cases h) (by intro h; cases h)]; rfl

/-- the Boolean view of the state evaluator has the laws of the connectives -/
theorem bev_view (c : EvalCtx) (ρ : VEnv) : BoolView (bev c ρ) where
  tt := rfl
  ff := rfl
  and := by
    intro es
    rw [← bevL_eq]
    change toB (ev c ρ (.app .and es)) = _
    rw [ev_app]
    cases evL c ρ es with
    | none => simp [toB]
    | some vs =>
      rw [Option.bind_some, Option.bind_some, toO_evalOp_and]
      cases allBools vs <;> simp [toB]
  or := by
    intro es
    rw [← bevL_eq]
    change toB (ev c ρ (.app .or es)) = _
    rw [ev_app]
    cases evL c ρ es with
    | none => simp [toB]
    | some vs =>
      rw [Option.bind_some, Option.bind_some, toO_evalOp_or]
      cases allBools vs <;> simp [toB]
  not := by
    intro e
    unfold bev
    rw [ev_app, evL_cons, evL_nil]
    cases ev c ρ e with
    | none => simp [toB]
    | some v =>
      simp only [Option.bind_some]
      rw [toO_evalOp c .not [v] (by intro f h; cases h) (by intro h; cases h)]
      cases v <;> simp [toB, denOp]
  implies := by
    intro a b
    unfold bev
    rw [ev_app, evL_cons, evL_cons, evL_nil]
    cases ev c ρ a with
    | none => simp [toB]
    | some va =>
      cases ev c ρ b with
      | none => cases va <;> simp [toB]
      | some vb =>
        simp only [Option.bind_some]
        rw [toO_evalOp c .implies [va, vb] (by intro f h; cases h) (by intro h; cases h)]
        cases va <;> cases vb <;> simp [toB, denOp]
  iff := by
    intro a b
    unfold bev
    rw [ev_app, evL_cons, evL_cons, evL_nil]
    cases ev c ρ a with
    | none => simp [toB]
    | some va =>
      cases ev c ρ b with
      | none => cases va <;> simp [toB]
      | some vb =>
        simp only [Option.bind_some]
        rw [toO_evalOp c .iff [va, vb] (by intro f h; cases h) (by intro h; cases h)]
        cases va <;> cases vb <;> simp [toB, denOp]

/-- `Nnf` preserves the Boolean value of every expression in every state (the evaluator's counterpart of
    `C12.nnf_equiv`, by the same proof) -/
theorem bev_nnf (c : EvalCtx) (ρ : VEnv) (p : Bool) (e : Expr) : bev c ρ (nnf p e) = (bev c ρ e).map (pol p) :=
  (bev_view c ρ).nnf p e

end UPVerif.Compile

namespace UPVerif.Compile
open UPVerif UPVerif.Expr UPVerif.Sim UPVerif.Spec

/-! ### `Nnf` preserves the VALUE of a condition whose root is in manager normal form -/

def isBoolV : Val → Bool
  | .b _ => true
  | _ => false

/-- an expression that evaluates to a Boolean whenever it evaluates -/
def Boolish (c : EvalCtx) (ρ : VEnv) (e : Expr) : Prop := ∀ v, ev c ρ e = some v → isBoolV v = true

theorem ev_eq_of_bev {c : EvalCtx} {ρ : VEnv} {x y : Expr} (hx : Boolish c ρ x) (hy : Boolish c ρ y)
    (h : bev c ρ x = bev c ρ y) : ev c ρ x = ev c ρ y := by
  unfold bev at h
  cases hvx : ev c ρ x with
  | none =>
    cases hvy : ev c ρ y with
    | none => rfl
    | some w =>
      have := hy w hvy
      cases w <;> simp [isBoolV] at this
      rw [hvx, hvy] at h; simp [toB] at h
  | some v =>
    have hv := hx v hvx
    cases v <;> simp [isBoolV] at hv
    cases hvy : ev c ρ y with
    | none => rw [hvx, hvy] at h; simp [toB] at h
    | some w =>
      have hw := hy w hvy
      cases w <;> simp [isBoolV] at hw
      rw [hvx, hvy] at h
      simp only [toB, Option.some.injEq] at h
      rw [h]

theorem denOp_boolean (ι : Interp) (o : Op) (vs : List Val)
    (ho : o = .and ∨ o = .or ∨ o = .not ∨ o = .implies ∨ o = .iff ∨ o = .le ∨ o = .lt ∨ o = .eq)
    {w : Val} (hw : denOp ι o vs = some w) : isBoolV w = true := by
  rcases ho with rfl | rfl | rfl | rfl | rfl | rfl | rfl | rfl
  · simp only [denOp] at hw
    cases hab : allBools vs with
    | none => rw [hab] at hw; cases hw
    | some bs => rw [hab] at hw; simp at hw; rw [← hw]; rfl
  · simp only [denOp] at hw
    cases hab : allBools vs with
    | none => rw [hab] at hw; cases hw
    | some bs => rw [hab] at hw; simp at hw; rw [← hw]; rfl
  all_goals
    unfold denOp at hw
    split at hw
    all_goals first
      | (cases hw; rfl)
      | (exfalso; simp at *; done)
      | (cases hw; done)

/-- an application of a Boolean connective or a comparison is Boolean-valued in every state -/
theorem boolish_app (c : EvalCtx) (ρ : VEnv) (o : Op) (args : List Expr)
    (ho : o = .and ∨ o = .or ∨ o = .not ∨ o = .implies ∨ o = .iff ∨ o = .le ∨ o = .lt ∨ o = .eq) :
    Boolish c ρ (.app o args) := by
  intro v hv
  rw [ev_app] at hv
  cases hl : evL c ρ args with
  | none => rw [hl] at hv; cases hv
  | some vs =>
    rw [hl, Option.bind_some, toO_evalOp c o vs (by intro f h; subst h; simp at ho) (by intro h; subst h; simp at ho)] at hv
    exact denOp_boolean _ o vs ho hv

theorem boolish_bool (c : EvalCtx) (ρ : VEnv) (b : Bool) : Boolish c ρ (Expr.bool b) := by
  intro v hv
  have : ev c ρ (Expr.bool b) = some (.b b) := rfl
  rw [this] at hv; cases hv; rfl

theorem ncr_nnfList_length (p : Bool) : ∀ (es : List Expr), (nnfList p es).length = es.length
  | [] => rfl
  | e :: es => by simp [nnfList, ncr_nnfList_length p es]

theorem boolish_mkAnd (c : EvalCtx) (ρ : VEnv) (l : List Expr) (h : 2 ≤ l.length ∨ l = []) : Boolish c ρ (mkAnd l) := by
  match l, h with
  | [], _ => exact boolish_bool c ρ true
  | [x], h => rcases h with h | h <;> simp at h
  | x :: y :: r, _ => exact boolish_app c ρ .and _ (by simp)

theorem boolish_mkOr (c : EvalCtx) (ρ : VEnv) (l : List Expr) (h : 2 ≤ l.length ∨ l = []) : Boolish c ρ (mkOr l) := by
  match l, h with
  | [], _ => exact boolish_bool c ρ false
  | [x], h => rcases h with h | h <;> simp at h
  | x :: y :: r, _ => exact boolish_app c ρ .or _ (by simp)

theorem boolish_nnfJoin (c : EvalCtx) (ρ : VEnv) (p a : Bool) (l : List Expr) (h : 2 ≤ l.length ∨ l = []) :
    Boolish c ρ (nnfJoin p a l) := by
  unfold nnfJoin
  split
  · exact boolish_mkAnd c ρ l h
  · exact boolish_mkOr c ρ l h

/-- the root of a condition is as the expression manager builds it: a conjunction / disjunction (also directly under
    a negation) has at least two arguments, a negation is not applied to a negation -/
def nnfRootOK : Expr → Bool
  | .app .and as => decide (2 ≤ as.length)
  | .app .or as => decide (2 ≤ as.length)
  | .app .not [.app .not [_]] => false
  | .app .not [.app .and as] => decide (2 ≤ as.length)
  | .app .not [.app .or as] => decide (2 ≤ as.length)
  | _ => true

/-- `Nnf` preserves the value of a condition (not only its Boolean view) when its root is in manager normal form -/
theorem ev_nnf (c : EvalCtx) (ρ : VEnv) (e : Expr) (h : nnfRootOK e = true) : ev c ρ (nnf true e) = ev c ρ e := by
  have hb : bev c ρ (nnf true e) = bev c ρ e := by
    rw [bev_nnf]; cases bev c ρ e <;> simp [pol]
  -- connective-rooted cases: both sides are Boolean-valued
  have two : ∀ {x : Expr}, Boolish c ρ x → Boolish c ρ e → ev c ρ (nnf true e) = ev c ρ e → True := fun _ _ _ => trivial
  by_cases h1 : ∃ x, e = .app .not [x]
  · obtain ⟨x, rfl⟩ := h1
    have he : Boolish c ρ (.app .not [x]) := boolish_app c ρ .not _ (by simp)
    have hn : nnf true (.app .not [x]) = nnf false x := by rw [nnf]; rfl
    by_cases hx1 : ∃ y, x = .app .not [y]
    · obtain ⟨y, rfl⟩ := hx1; simp [nnfRootOK] at h
    by_cases hx2 : ∃ as, x = .app .and as
    · obtain ⟨as, rfl⟩ := hx2
      have hl : 2 ≤ as.length := by simpa [nnfRootOK] using h
      refine ev_eq_of_bev ?_ he hb
      rw [hn, nnf]
      exact boolish_nnfJoin c ρ _ _ _ (Or.inl (by rw [ncr_nnfList_length]; exact hl))
    by_cases hx3 : ∃ as, x = .app .or as
    · obtain ⟨as, rfl⟩ := hx3
      have hl : 2 ≤ as.length := by simpa [nnfRootOK] using h
      refine ev_eq_of_bev ?_ he hb
      rw [hn, nnf]
      exact boolish_nnfJoin c ρ _ _ _ (Or.inl (by rw [ncr_nnfList_length]; exact hl))
    by_cases hx4 : ∃ a b, x = .app .implies [a, b]
    · obtain ⟨a, b, rfl⟩ := hx4
      refine ev_eq_of_bev ?_ he hb
      rw [hn, nnf]
      exact boolish_nnfJoin c ρ _ _ _ (Or.inl (by simp))
    by_cases hx5 : ∃ a b, x = .app .iff [a, b]
    · obtain ⟨a, b, rfl⟩ := hx5
      refine ev_eq_of_bev ?_ he hb
      rw [hn, nnf]
      exact boolish_nnfJoin c ρ _ _ _ (Or.inl (by simp))
    -- `x` is an atom: `nnf false x = not x`
    rw [hn, nnf_atom false x (fun y hy => hx1 ⟨y, hy⟩) (fun as hy => hx2 ⟨as, hy⟩) (fun as hy => hx3 ⟨as, hy⟩)
      (fun a b hy => hx4 ⟨a, b, hy⟩) (fun a b hy => hx5 ⟨a, b, hy⟩)]
    simp only [Bool.false_eq_true, if_false]
    have : mkNot x = .app .not [x] := by
      unfold mkNot
      split
      · rename_i y; exact absurd ⟨y, rfl⟩ hx1
      · rfl
    rw [this]
  by_cases h2 : ∃ as, e = .app .and as
  · obtain ⟨as, rfl⟩ := h2
    have hl : 2 ≤ as.length := by simpa [nnfRootOK] using h
    refine ev_eq_of_bev ?_ (boolish_app c ρ .and _ (by simp)) hb
    rw [nnf]
    exact boolish_nnfJoin c ρ _ _ _ (Or.inl (by rw [ncr_nnfList_length]; exact hl))
  by_cases h3 : ∃ as, e = .app .or as
  · obtain ⟨as, rfl⟩ := h3
    have hl : 2 ≤ as.length := by simpa [nnfRootOK] using h
    refine ev_eq_of_bev ?_ (boolish_app c ρ .or _ (by simp)) hb
    rw [nnf]
    exact boolish_nnfJoin c ρ _ _ _ (Or.inl (by rw [ncr_nnfList_length]; exact hl))
  by_cases h4 : ∃ a b, e = .app .implies [a, b]
  · obtain ⟨a, b, rfl⟩ := h4
    refine ev_eq_of_bev ?_ (boolish_app c ρ .implies _ (by simp)) hb
    rw [nnf]
    exact boolish_nnfJoin c ρ _ _ _ (Or.inl (by simp))
  by_cases h5 : ∃ a b, e = .app .iff [a, b]
  · obtain ⟨a, b, rfl⟩ := h5
    refine ev_eq_of_bev ?_ (boolish_app c ρ .iff _ (by simp)) hb
    rw [nnf]
    exact boolish_nnfJoin c ρ _ _ _ (Or.inl (by simp))
  rw [nnf_atom true e (fun y hy => h1 ⟨y, hy⟩) (fun as hy => h2 ⟨as, hy⟩) (fun as hy => h3 ⟨as, hy⟩)
    (fun a b hy => h4 ⟨a, b, hy⟩) (fun a b hy => h5 ⟨a, b, hy⟩)]
  rfl

/-! ### evaluation does not depend on fluents that are not mentioned (list version) -/

def mentionsAny (L : List FluentRef) (e : Expr) : Bool := L.any (fun F => mentions F e)
def mentionsAnyList (L : List FluentRef) (es : List Expr) : Bool := L.any (fun F => mentionsList F es)

/-- two evaluation contexts that differ only on the ground fluents of the symbols in `L` -/
structure AgreeOffL (L : List FluentRef) (c c' : EvalCtx) : Prop where
  objs : c.objs = c'.objs
  fn : c.fn = c'.fn
  get : ∀ f vs, f ∉ L → c.get (f, vs) = c'.get (f, vs)

theorem mentionsAny_app {L : List FluentRef} {op : Op} {args : List Expr} (h : mentionsAny L (.app op args) = false) :
    mentionsAnyList L args = false ∧ ∀ f, op = .fluent f → f ∉ L := by
  unfold mentionsAny at h
  rw [List.any_eq_false] at h
  constructor
  · unfold mentionsAnyList
    rw [List.any_eq_false]
    intro F hF
    have := h F hF
    cases op <;> simp [mentions] at this ⊢ <;> first | exact this | exact this.2
  · intro f hf hmem
    subst hf
    have := h f hmem
    simp [mentions] at this

theorem mentionsAnyList_cons {L : List FluentRef} {x : Expr} {xs : List Expr} (h : mentionsAnyList L (x :: xs) = false) :
    mentionsAny L x = false ∧ mentionsAnyList L xs = false := by
  unfold mentionsAnyList at h
  rw [List.any_eq_false] at h
  unfold mentionsAny mentionsAnyList
  constructor <;> (rw [List.any_eq_false]; intro F hF; have := h F hF; simp [mentionsList] at this ⊢; first | exact this.1 | exact this.2)

theorem mentionsAny_quant {L : List FluentRef} {q : Quant} {vs : List Var} {b : Expr}
    (h : mentionsAny L (.quant q vs b) = false) : mentionsAny L b = false := by
  unfold mentionsAny at h ⊢
  rw [List.any_eq_false] at h ⊢
  intro F hF
  simpa [mentions] using h F hF

theorem evalOp_agreeL {L : List FluentRef} {c c' : EvalCtx} (h : AgreeOffL L c c') (op : Op) (vs : List Val)
    (hop : ∀ f, op = .fluent f → f ∉ L) : evalOp c op vs = evalOp c' op vs := by
  cases op with
  | fluent f =>
    have := h.get f vs (hop f rfl)
    simp only [evalOp, this]
  | div =>
    unfold evalOp
    split
    · rename_i heq; cases heq
    · rfl
    · rw [h.fn]
  | _ => simp only [evalOp, h.fn]

theorem eval_agreeL {L : List FluentRef} {c c' : EvalCtx} (h : AgreeOffL L c c') :
    (∀ e ρ, mentionsAny L e = false → eval c ρ e = eval c' ρ e) ∧
    (∀ es ρ, mentionsAnyList L es = false → evalList c ρ es = evalList c' ρ es) := by
  have key : ∀ n, (∀ e, e.size ≤ n → ∀ ρ, mentionsAny L e = false → eval c ρ e = eval c' ρ e) ∧
      (∀ es, Expr.sizeList es ≤ n → ∀ ρ, mentionsAnyList L es = false → evalList c ρ es = evalList c' ρ es) := by
    intro n
    induction n with
    | zero =>
      constructor
      · intro e he; cases e <;> simp [Expr.size] at he
      · intro es he ρ _
        cases es with
        | nil => rfl
        | cons x xs =>
          simp [Expr.sizeList] at he
          cases x <;> simp [Expr.size] at he
    | succ n ih =>
      have hexpr : ∀ e, e.size ≤ n + 1 → ∀ ρ, mentionsAny L e = false → eval c ρ e = eval c' ρ e := by
        intro e he ρ hm
        cases e with
        | leaf l => rfl
        | app op args =>
          simp only [Expr.size] at he
          obtain ⟨hml, hop⟩ := mentionsAny_app hm
          simp only [eval]
          rw [ih.2 args (by omega) ρ hml]
          cases evalList c' ρ args with
          | error x => rfl
          | ok vs => exact evalOp_agreeL h op vs hop
        | quant q vs b =>
          simp only [Expr.size] at he
          have hmb := mentionsAny_quant hm
          simp only [eval]
          rw [qAssignments_congr h.objs]
          cases q with
          | ex => exact existsLoop_congr (fun a => ih.1 b (by omega) (a ++ ρ) hmb) _
          | all => exact forallLoop_congr (fun a => ih.1 b (by omega) (a ++ ρ) hmb) _
      refine ⟨hexpr, ?_⟩
      intro es he ρ hm
      cases es with
      | nil => rfl
      | cons x xs =>
        simp only [Expr.sizeList] at he
        obtain ⟨hm1, hm2⟩ := mentionsAnyList_cons hm
        have hx : 1 ≤ x.size := by cases x <;> simp [Expr.size] <;> omega
        simp only [evalList]
        rw [ih.2 xs (by omega) ρ hm2, hexpr x (by omega) ρ hm1]
  exact ⟨fun e ρ hm => (key e.size).1 e (Nat.le_refl _) ρ hm,
         fun es ρ hm => (key (Expr.sizeList es)).2 es (Nat.le_refl _) ρ hm⟩

theorem evalArgs_agreeL {L : List FluentRef} {c c' : EvalCtx} (h : AgreeOffL L c c') : ∀ (args : List Expr),
    mentionsAnyList L args = false → evalArgs c args = evalArgs c' args
  | [], _ => rfl
  | a :: as, hm => by
    obtain ⟨hm1, hm2⟩ := mentionsAnyList_cons hm
    simp only [evalArgs, (eval_agreeL h).1 a [] hm1, evalArgs_agreeL h as hm2]

/-! ### the quantifier loops only see the value of the body -/

theorem existsLoop_toO {f f' : VEnv → Except EvalErr Val} (h : ∀ a, toO (f a) = toO (f' a)) :
    ∀ l, toO (existsLoop f l) = toO (existsLoop f' l)
  | [] => rfl
  | a :: as => by
    have ih := existsLoop_toO h as
    have ha := h a
    simp only [existsLoop]
    cases hf : f a with
    | error x =>
      cases hf' : f' a with
      | error y => rfl
      | ok w => rw [hf, hf'] at ha; simp [toO] at ha
    | ok v =>
      cases hf' : f' a with
      | error y => rw [hf, hf'] at ha; simp [toO] at ha
      | ok w =>
        rw [hf, hf'] at ha
        simp only [toO, Option.some.injEq] at ha
        subst ha
        cases v with
        | b x => cases x <;> simp [ih]
        | n q => rfl
        | o s => rfl

theorem forallLoop_toO {f f' : VEnv → Except EvalErr Val} (h : ∀ a, toO (f a) = toO (f' a)) :
    ∀ l, toO (forallLoop f l) = toO (forallLoop f' l)
  | [] => rfl
  | a :: as => by
    have ih := forallLoop_toO h as
    have ha := h a
    simp only [forallLoop]
    cases hf : f a with
    | error x =>
      cases hf' : f' a with
      | error y => rfl
      | ok w => rw [hf, hf'] at ha; simp [toO] at ha
    | ok v =>
      cases hf' : f' a with
      | error y => rw [hf, hf'] at ha; simp [toO] at ha
      | ok w =>
        rw [hf, hf'] at ha
        simp only [toO, Option.some.injEq] at ha
        subst ha
        cases v with
        | b x => cases x <;> simp [ih]
        | n q => rfl
        | o s => rfl

end UPVerif.Compile
