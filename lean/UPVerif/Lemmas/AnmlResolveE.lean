import UPVerif.Lemmas.AnmlResolve
/-! stage 2 on expressions: `resolveE (toU ρ e) = respell (ρ.renE e)` -/
namespace UPVerif.Anml
open Tok

/-! ### shape facts about re-spelt renamed expressions -/

theorem leftNest_app (op : Op) : ∀ (rest : List Expr) (args : List Expr),
    ∃ args', leftNest op (.app op args) rest = .app op args'
  | [], args => ⟨args, rfl⟩
  | e :: rest, args => by
    rw [leftNest]; exact leftNest_app op rest _

theorem respellApp_shape (op : Op) (args : List Expr) : ∃ args', respellApp op args = .app op args' := by
  unfold respellApp
  split
  · split
    · exact leftNest_app op _ _
    · exact ⟨_, rfl⟩
  · exact ⟨_, rfl⟩

theorem renTy_eq_bool (ρ : Ren) (t : Ty) : (ρ.renTy t == Ty.bool) = (t == Ty.bool) := by
  cases t <;> simp [Ren.renTy]

theorem intExpr_not_bool (z : Int) : isBoolTyped (intExpr z) = false := by
  unfold intExpr; split <;> simp [isBoolTyped, Expr.int]

theorem isBoolTyped_app_congr (op : Op) (a b : List Expr) : isBoolTyped (.app op a) = isBoolTyped (.app op b) := by
  cases op <;> simp [isBoolTyped]

theorem isBoolTyped_respell_ren (ρ : Ren) (e : Expr) : isBoolTyped (respell (ρ.renE e)) = isBoolTyped e := by
  cases e with
  | leaf l =>
    rw [Ren.renE, respell]
    cases l with
    | intC z => simp only [Ren.renLeaf, respellLeaf]; rw [intExpr_not_bool]; simp [isBoolTyped]
    | _ => simp [Ren.renLeaf, respellLeaf, isBoolTyped, renTy_eq_bool, Ren.renVar]
  | app op args =>
    rw [Ren.renE, respell]
    obtain ⟨args', h⟩ := respellApp_shape (ρ.renOp op) (respellList (ρ.renEs args))
    rw [h]
    cases op <;> simp [Ren.renOp, isBoolTyped, Ren.renRef, renTy_eq_bool]
  | quant q vs b => rw [Ren.renE, respell]; simp [isBoolTyped]

theorem intExpr_not_not (z : Int) : isNot (intExpr z) = false := by
  unfold intExpr; split <;> simp [isNot, Expr.int]

theorem isNot_respell_ren (ρ : Ren) (e : Expr) : isNot (respell (ρ.renE e)) = isNot e := by
  cases e with
  | leaf l =>
    rw [Ren.renE, respell]
    cases l with
    | intC z => simp only [Ren.renLeaf, respellLeaf]; rw [intExpr_not_not]; simp [isNot]
    | _ => simp [Ren.renLeaf, respellLeaf, isNot]
  | app op args =>
    rw [Ren.renE, respell]
    obtain ⟨args', h⟩ := respellApp_shape (ρ.renOp op) (respellList (ρ.renEs args))
    rw [h]
    cases op <;> simp [Ren.renOp, isNot]
  | quant q vs b => rw [Ren.renE, respell]; simp [isNot]

theorem mkNot_of_not_isNot (x : Expr) (h : isNot x = false) : Expr.mkNot x = .app .not [x] := by
  unfold Expr.mkNot
  split
  · simp [isNot] at h
  · rfl

theorem renEs_length (ρ : Ren) : ∀ (es : List Expr), (ρ.renEs es).length = es.length
  | [] => by simp [Ren.renEs]
  | e :: es => by simp [Ren.renEs, renEs_length ρ es]

theorem respellList_length : ∀ (es : List Expr), (respellList es).length = es.length
  | [] => by simp [respellList]
  | e :: es => by simp [respellList, respellList_length es]

theorem leftNest_foldl (op : Op) : ∀ (xs : List Expr) (x : Expr),
    leftNest op x xs = xs.foldl (fun a e => .app op [a, e]) x
  | [], x => rfl
  | y :: xs, x => by rw [leftNest, List.foldl_cons]; exact leftNest_foldl op xs _

section
variable {ρ : Ren} {P : AProblem} {env : REnv}

/-- a left-nested chain of one binary operator resolves to the fold of its constructor -/
theorem resolveE_uNest (ps vs : List (String × Ty)) (tok : Tok) (g : Expr → Expr → Expr)
    (hmk : ∀ x y, mkBin tok x y = some (g x y)) : ∀ (us : List UExpr) (acc : UExpr) (x : Expr) (xs : List Expr),
    resolveE env ps vs acc = some x → resolveEs env ps vs us = some xs →
    resolveE env ps vs (uNest tok acc us) = some (xs.foldl g x)
  | [], acc, x, xs, ha, hus => by
    simp only [resolveEs, Option.some.injEq] at hus
    subst hus
    simpa [uNest] using ha
  | u :: us, acc, x, xs, ha, hus => by
    rw [resolveEs] at hus
    cases hu : resolveE env ps vs u with
    | none => simp [hu] at hus
    | some y =>
      cases hus' : resolveEs env ps vs us with
      | none => simp [hu, hus'] at hus
      | some ys =>
        simp only [hu, hus', Option.some.injEq] at hus
        subst hus
        rw [uNest, List.foldl_cons]
        refine resolveE_uNest ps vs tok g hmk us _ (g x y) ys ?_ hus'
        rw [resolveE, ha, hu]
        exact hmk x y

theorem contains_pair_mem {α} [DecidableEq α] {l : List α} {a : α} (h : l.contains a = true) : a ∈ l := by
  simpa using h

theorem resolve_leaf (C : RCtx ρ P env) (params : List (String × Ty)) (vars : List Var) (l : Leaf)
    (hwf : wfLeaf P params vars l = true) (S : ScopeOK P params vars) :
    resolveE env (ρ.renParams params) (renScope ρ vars) (leafU ρ l) = some (respellLeaf (ρ.renLeaf l)) := by
  cases l with
  | boolC b => simp [leafU, resolveE, Ren.renLeaf, respellLeaf, Expr.bool]
  | intC z =>
    simp only [leafU, Ren.renLeaf, respellLeaf]
    unfold uInt intExpr
    split
    · simp [resolveE]
    · rename_i h
      have : ((z.toNat : Nat) : Int) = z := by omega
      simp [resolveE, this]
  | realC q =>
    simp only [leafU, Ren.renLeaf, respellLeaf]
    have h1 : resolveE env (ρ.renParams params) (renScope ρ vars) (uInt q.num) = some (intExpr q.num) := by
      unfold uInt intExpr
      split
      · simp [resolveE]
      · rename_i h
        have : ((q.num.toNat : Nat) : Int) = q.num := by omega
        simp [resolveE, this]
    rw [resolveE, h1]
    simp [resolveE, mkBin]
  | obj n t =>
    have hm : (n, t) ∈ P.objects := contains_pair_mem (by simpa [wfLeaf] using hwf)
    have hi := mem_items_obj hm
    have h1 := scope_var_none C S (.obj n) hi (by intros; simp)
    have h2 := scope_par_none C S (.obj n) hi (by intros; simp)
    have h3 := fluents_none C (.obj n) hi (by intros; simp)
    have h4 := C.obj (n, t) hm
    simp only [Ren.name] at h1 h2 h3
    simp [leafU, resolveE, resolveEs, resolveRef, h1, h2, h3, h4, Ren.renLeaf, respellLeaf]
  | param n t =>
    have hm : (n, t) ∈ params := contains_pair_mem (by simpa [wfLeaf] using hwf)
    have hi := S.par (n, t) hm
    have h1 := scope_var_none C S (.par n t) hi (by intros; simp)
    have h2 := scope_par_lookup C S (n, t) hm
    simp only [Ren.name] at h1
    simp [leafU, resolveE, resolveEs, resolveRef, h1, h2, Ren.renLeaf, respellLeaf]
  | var v =>
    have hm : v ∈ vars := contains_pair_mem (by simpa [wfLeaf] using hwf)
    have h1 := scope_var_lookup C S v hm
    simp [leafU, resolveE, resolveEs, resolveRef, h1, Ren.renLeaf, respellLeaf, Ren.renVar]
  | timing s => simp [wfLeaf] at hwf
  | present s => simp [wfLeaf] at hwf

end

end UPVerif.Anml

namespace UPVerif.Anml
open Tok

section
variable {ρ : Ren} {P : AProblem} {env : REnv}

theorem resolveEs_cons {ps vs : List (String × Ty)} {u : UExpr} {us : List UExpr} {x : Expr} {xs : List Expr}
    (h : resolveEs env ps vs (u :: us) = some (x :: xs)) :
    resolveE env ps vs u = some x ∧ resolveEs env ps vs us = some xs := by
  rw [resolveEs] at h
  cases hu : resolveE env ps vs u with
  | none => simp [hu] at h
  | some y =>
    cases hus : resolveEs env ps vs us with
    | none => simp [hu, hus] at h
    | some ys =>
      simp only [hu, hus, Option.some.injEq, List.cons.injEq] at h
      rw [h.1, h.2]; exact ⟨rfl, rfl⟩

theorem resolveDecls_ren (C : RCtx ρ P env) (nm : String → Ty → String) : ∀ (ds : List (String × Ty)),
    (∀ d ∈ ds, wfTy P d.2 = true) → resolveDecls env (renDecls ρ nm ds) = some (renDecls ρ nm ds)
  | [], _ => by simp [renDecls, resolveDecls]
  | d :: ds, h => by
    have ih := resolveDecls_ren C nm ds (fun x hx => h x (by simp [hx]))
    have h1 := C.ty d.2 (h d (by simp))
    simp only [renDecls, List.map_cons] at ih ⊢
    rw [resolveDecls, h1, ih]

theorem renDecls_varDecls (ρ : Ren) (vs : List Var) : renDecls ρ ρ.var (varDecls vs) = renScope ρ vs := by
  simp [renDecls, varDecls, renScope, List.map_map, Function.comp_def]

theorem renScope_append (ρ : Ren) (a b : List Var) : renScope ρ (a ++ b) = renScope ρ a ++ renScope ρ b := by
  simp [renScope]

theorem renScope_vars (ρ : Ren) (vs : List Var) :
    (renScope ρ vs).map (fun p => ({ name := p.1, ty := p.2 } : Var)) = vs.map ρ.renVar := by
  simp [renScope, List.map_map, Function.comp_def, Ren.renVar]

def isUniform : Op → Bool
  | .and | .or | .implies | .plus | .minus | .times | .div | .le | .lt => true
  | _ => false

theorem mkBin_uniform {op : Op} (h : isUniform op = true) (x y : Expr) :
    mkBin (opTok op) x y = some (.app op [x, y]) := by
  cases op <;> simp_all [isUniform, opTok, mkBin]

mutual
/-- resolving the statement tree of a printed expression gives the re-spelt renamed expression -/
theorem resolveE_toU (C : RCtx ρ P env) : ∀ (e : Expr) (params : List (String × Ty)) (vars : List Var),
    wfE P params vars e = true → (∀ v ∈ varsOfE e, Item.var v.name v.ty ∈ P.items) → ScopeOK P params vars →
    resolveE env (ρ.renParams params) (renScope ρ vars) (toU ρ e) = some (respell (ρ.renE e))
  | .leaf l, params, vars, hwf, _, S => by
    rw [wfE] at hwf; rw [toU, Ren.renE, respell]; exact resolve_leaf C params vars l hwf S
  | .app op args, params, vars, hwf, hv, S => by
    rw [wfE, Bool.and_eq_true] at hwf
    obtain ⟨hop, hargs⟩ := hwf
    have ih := resolveEs_toUs C args params vars hargs (by simpa [varsOfE] using hv) S
    rw [toU, Ren.renE, respell]
    by_cases hinf : isInfix op = true
    · obtain ⟨hlen, hch⟩ := wfApp_infix hinf hop
      obtain ⟨a, b, rest, rfl⟩ : ∃ a b rest, args = a :: b :: rest := by
        rcases args with _ | ⟨a, _ | ⟨b, rest⟩⟩
        · simp at hlen
        · simp at hlen
        · exact ⟨a, b, rest, rfl⟩
      obtain ⟨_, _, _, _, _, hU, _⟩ := isInfix_facts hinf
      have hren : ρ.renOp op = op := by cases op <;> simp_all [isInfix, Ren.renOp]
      rw [toUs, toUs, hU, hren]
      simp only [toUs, Ren.renEs, respellList] at ih ⊢
      obtain ⟨ha, hrest⟩ := resolveEs_cons ih
      obtain ⟨hb, hrest'⟩ := resolveEs_cons hrest
      by_cases hun : isUniform op = true
      · have hmk := mkBin_uniform hun
        rw [resolveE_uNest _ _ (opTok op) (fun x y => .app op [x, y]) hmk (toUs ρ rest) _
          (.app op [respell (ρ.renE a), respell (ρ.renE b)]) _ (by rw [resolveE, ha, hb]; exact hmk _ _) hrest']
        unfold respellApp
        by_cases hn : isNary op = true
        · rw [if_pos hn]; simp [leftNest_foldl]
        · rw [if_neg hn]
          have hr : rest = [] := by
            cases rest with
            | nil => rfl
            | cons c rest' => exact absurd (hch (by simp)) hn
          subst hr
          simp [Ren.renEs, respellList]
      · -- `==`
        have hr : rest = [] := by
          cases rest with
          | nil => rfl
          | cons c rest' => cases op <;> simp_all [isInfix, isUniform, wfApp]
        subst hr
        have hbt := isBoolTyped_respell_ren ρ a
        simp only [toUs, uNest, Ren.renEs, respellList]
        rw [resolveE, ha, hb]
        cases op <;> simp_all [isInfix, isUniform, wfApp, opTok, mkBin, respellApp, isNary]
    · cases op with
      | fluent f0 =>
        simp only [wfApp, Bool.and_eq_true, beq_iff_eq] at hop
        obtain ⟨hmem, hlen⟩ := hop
        have hm := contains_pair_mem hmem
        simp only [List.mem_map] at hm
        obtain ⟨d, hd, rfl⟩ := hm
        have hi := mem_items_fl hd
        have h1 := scope_var_none C S (.fl d.ref.name) hi (by intros; simp)
        have h2 := scope_par_none C S (.fl d.ref.name) hi (by intros; simp)
        have h3 := C.fl d hd
        simp only [Ren.name] at h1 h2
        have hl : (respellList (ρ.renEs args)).length = (ρ.renFluent d).ref.sig.length := by
          simp [respellList_length, renEs_length, Ren.renFluent, Ren.renRef, hlen]
        simp only [appU, Ren.renOp]
        rw [resolveE, ih]
        simp only [resolveRef, h1, h2, h3, hl, beq_self_eq_true, if_true]
        simp [respellApp, isNary, Ren.renFluent]
      | not =>
        obtain ⟨a, rfl⟩ : ∃ a, args = [a] := by
          rcases args with _ | ⟨a, _ | ⟨b, rest⟩⟩
          · simp [wfApp] at hop
          · exact ⟨a, rfl⟩
          · simp [wfApp] at hop
        simp only [toUs, Ren.renEs, respellList] at ih ⊢
        obtain ⟨ha, _⟩ := resolveEs_cons ih
        have hn : isNot (respell (ρ.renE a)) = false := by
          rw [isNot_respell_ren]; simpa [wfApp] using hop
        simp only [appU, Ren.renOp]
        rw [resolveE, ha]
        simp [mkNot_of_not_isNot _ hn, respellApp, isNary]
      | _ => simp_all [wfApp, isInfix]
  | .quant q vs b, params, vars, hwf, hv, S => by
    rw [wfE] at hwf
    simp only [Bool.and_eq_true, Bool.not_eq_true', List.all_eq_true] at hwf
    obtain ⟨⟨hne, htys⟩, hb⟩ := hwf
    have hvs : ∀ v ∈ vs, Item.var v.name v.ty ∈ P.items := fun v h => hv v (by simp [varsOfE, h])
    have S' : ScopeOK P params (vs ++ vars) :=
      ⟨S.par, fun v h => by rcases List.mem_append.1 h with h | h; exact hvs v h; exact S.var v h⟩
    have ih := resolveE_toU C b params (vs ++ vars) hb (fun v h => hv v (by simp [varsOfE, h])) S'
    have hd := resolveDecls_ren C ρ.var (varDecls vs) (by
      intro d hd
      simp only [varDecls, List.mem_map] at hd
      obtain ⟨v, hv', rfl⟩ := hd
      exact htys v hv')
    rw [renDecls_varDecls] at hd
    rw [renScope_append] at ih
    rw [toU, Ren.renE, respell, renDecls_varDecls, resolveE, hd]
    simp only
    rw [ih]
    have hne' : (renScope ρ vs).isEmpty = false := by
      cases vs with
      | nil => simp at hne
      | cons v vs => simp [renScope]
    simp [hne', renScope_vars]
theorem resolveEs_toUs (C : RCtx ρ P env) : ∀ (es : List Expr) (params : List (String × Ty)) (vars : List Var),
    wfEs P params vars es = true → (∀ v ∈ varsOfEs es, Item.var v.name v.ty ∈ P.items) → ScopeOK P params vars →
    resolveEs env (ρ.renParams params) (renScope ρ vars) (toUs ρ es) = some (respellList (ρ.renEs es))
  | [], _, _, _, _, _ => by simp [toUs, resolveEs, Ren.renEs, respellList]
  | e :: es, params, vars, hwf, hv, S => by
    rw [wfEs, Bool.and_eq_true] at hwf
    have h1 := resolveE_toU C e params vars hwf.1 (fun v h => hv v (by simp [varsOfEs, h])) S
    have h2 := resolveEs_toUs C es params vars hwf.2 (fun v h => hv v (by simp [varsOfEs, h])) S
    rw [toUs, resolveEs, h1, h2, Ren.renEs, respellList]
end

end

end UPVerif.Anml
