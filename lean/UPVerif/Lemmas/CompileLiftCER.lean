import UPVerif.Lemmas.CompileLiftTS
/-!
`ConditionalEffectsRemover` on ALL instances: "compile, then instantiate" against "instantiate, then compile".

The instance `σ` of the variant `p` of a lifted action `a` is, up to the TRUTH of its preconditions, the variant `p`
of the instance of `a`:
* effects: selecting / making unconditional commutes with instantiation (`filter_*_substEff`, `selUncond_map`) as
  soon as instantiation does not turn a condition into the constant TRUE (`condStable`);
* preconditions: `condPre`, then instantiation, is true exactly when the instantiated preconditions are true and the
  instantiated conditions have the truth values `p` asks for (`preOK_map_condPre`) — the lists themselves differ
  (duplicates are detected before instantiation);
* the simplifier runs BEFORE instantiation, on open expressions: what is needed of it is stated on the one
  expression it is applied to, `And(preconditions of the variant)`, in one direction per theorem —
  soundness: if the instantiated simplified conjunction is TRUE then so is the instantiated conjunction;
  completeness: the converse.  `SimpExactOn simp σ` (the simplified expression, instantiated, evaluates like the
  expression, instantiated) gives both.
Static conflicts are judged on the LIFTED effects (`cerNoConflict a`): a variant yielded for the lifted action whose
instance conflicts (two parameters bound to one object) does not apply in any state, exactly like the instance of the
original action in the states that select it.
-/
namespace UPVerif.Compile
open UPVerif UPVerif.Expr UPVerif.Sim UPVerif.Spec UPVerif.Simulation

/-- the compile-time simplifier is exact on the instance `σ`: the simplified expression, instantiated, evaluates
    like the expression, instantiated (`SimpExact` is the case of the empty map) -/
def SimpExactOn (simp : Expr → Expr) (σ : Subst) : Prop :=
  ∀ (c : EvalCtx) (e : Expr), eval c [] (substE σ (simp e)) = eval c [] (substE σ e)

theorem simpExactOn_id (σ : Subst) : SimpExactOn id σ := fun _ _ => rfl

/-- … on ONE expression in ONE state: what the step lemmas use, and what C11 gives for the real simplifier where the
    instance of the expression is defined (`Lemmas/CompileLiftWalkers.lean`) -/
def SimpExactAt (simp : Expr → Expr) (c : EvalCtx) (σ : Subst) (e : Expr) : Prop :=
  eval c [] (substE σ (simp e)) = eval c [] (substE σ e)

theorem SimpExactOn.at {simp : Expr → Expr} {σ : Subst} (h : SimpExactOn simp σ) (c : EvalCtx) (e : Expr) :
    SimpExactAt simp c σ e := h c e

theorem simpExactOn_nil {simp : Expr → Expr} : SimpExactOn simp [] ↔ SimpExact simp := Iff.rfl

/-! ### effects -/

theorem filter_cond_substEff {σ : Subst} : ∀ (l : List Effect), (∀ e ∈ l, condStable σ e = true) →
    (l.map (substEff σ)).filter (fun e => e.isConditional) = (l.filter (fun e => e.isConditional)).map (substEff σ)
  | [], _ => rfl
  | e :: es, h => by
    have he := substEff_isConditional (h e (List.mem_cons_self ..))
    have ih := filter_cond_substEff es (fun x hx => h x (List.mem_cons_of_mem _ hx))
    rw [List.map_cons, List.filter_cons, List.filter_cons, he, ih]
    split <;> rfl

theorem filter_uncond_substEff {σ : Subst} : ∀ (l : List Effect), (∀ e ∈ l, condStable σ e = true) →
    (l.map (substEff σ)).filter (fun e => !e.isConditional) = (l.filter (fun e => !e.isConditional)).map (substEff σ)
  | [], _ => rfl
  | e :: es, h => by
    have he := substEff_isConditional (h e (List.mem_cons_self ..))
    have ih := filter_uncond_substEff es (fun x hx => h x (List.mem_cons_of_mem _ hx))
    rw [List.map_cons, List.filter_cons, List.filter_cons, he, ih]
    split <;> rfl

theorem substEff_uncond {σ : Subst} (hσ : IsParamSubst σ) (e : Effect) :
    substEff σ { e with cond := Expr.tt } = { substEff σ e with cond := Expr.tt } := by
  unfold substEff
  dsimp only
  rw [substE_tt hσ]

theorem selUncond_map {σ : Subst} (hσ : IsParamSubst σ) (p : List Nat) : ∀ (C : List Effect) (i : Nat),
    selUncond p (C.map (substEff σ)) i = (selUncond p C i).map (substEff σ)
  | [], _ => rfl
  | e :: es, i => by
    simp only [List.map_cons, selUncond]
    split
    · rw [List.map_cons, selUncond_map hσ p es (i + 1), substEff_uncond hσ]
    · exact selUncond_map hσ p es (i + 1)

/-! ### preconditions -/

theorem preOK_map_condPre {σ : Subst} (hσ : IsParamSubst σ) (c : EvalCtx) (p : List Nat) :
    ∀ (C : List Effect) (i : Nat) (pre : List Expr),
    preOK c ((condPre p C i pre).map (substE σ)) = true ↔
      (preOK c (pre.map (substE σ)) = true ∧ CondMatches c p (C.map (substEff σ)) i)
  | [], i, pre => by simp [condPre, CondMatches]
  | e :: es, i, pre => by
    simp only [condPre, List.map_cons, CondMatches]
    rw [preOK_map_condPre hσ c p es (i + 1), preOK_map_addPre hσ, Bool.and_eq_true]
    have hc : (substEff σ e).cond = substE σ e.cond := rfl
    rw [hc]
    by_cases hp : p.contains i = true
    · simp only [hp, if_true, isTrue_eq_true]
      constructor
      · rintro ⟨⟨h1, h2⟩, h3⟩; exact ⟨h1, h2, h3⟩
      · rintro ⟨h1, h2, h3⟩; exact ⟨⟨h1, h2⟩, h3⟩
    · simp only [hp, Bool.false_eq_true, if_false]
      constructor
      · rintro ⟨⟨h1, h2⟩, h3⟩; exact ⟨h1, (isTrue_substE_mkNot hσ c e.cond).1 h2, h3⟩
      · rintro ⟨h1, h2, h3⟩; exact ⟨⟨h1, (isTrue_substE_mkNot hσ c e.cond).2 h2⟩, h3⟩

/-- the conjunction the simplifier of variant `p` is applied to -/
def cerPreExpr (a : Action) (p : List Nat) : Expr :=
  mkAnd (condPre p (a.effs.filter (fun e => e.isConditional)) 0 a.pre)

/-- truth of the instantiated preconditions of a yielded variant, in terms of the simplified conjunction -/
theorem cer_variant_pre {σ : Subst} (hσ : IsParamSubst σ) (c : EvalCtx) {simp : Expr → Expr} {l pre' : List Expr}
    (hp : simplifyPreWith simp l = some pre') :
    preOK c (pre'.map (substE σ)) =
      (if l.isEmpty then true else Spec.isTrue (eval c [] (substE σ (simp (mkAnd l))))) := by
  have := preOK_map_simplifyPre hσ c simp l
  rw [hp] at this
  exact this

/-- the instance of a yielded variant -/
theorem instOf_cerVariant {σ : Subst} (hσ : IsParamSubst σ) {simp : Expr → Expr} {a a' : Action} {p : List Nat}
    (hst : ∀ e ∈ a.effs, condStable σ e = true) (hv : cerVariant simp a p = some a') :
    ∃ pre', simplifyPreWith simp (condPre p (a.effs.filter (fun e => e.isConditional)) 0 a.pre) = some pre' ∧
      (instOf σ a').pre = pre'.map (substE σ) ∧
      (instOf σ a').effs = (instOf σ a).effs.filter (fun e => !e.isConditional) ++
        selUncond p ((instOf σ a).effs.filter (fun e => e.isConditional)) 0 := by
  obtain ⟨pre', hp, rfl⟩ := cerVariant_some hv
  refine ⟨pre', hp, rfl, ?_⟩
  show (a.effs.filter (fun e => !e.isConditional) ++ selUncond p (a.effs.filter (fun e => e.isConditional)) 0).map
      (substEff σ) = _
  have e1 : (instOf σ a).effs = a.effs.map (substEff σ) := rfl
  rw [e1, filter_uncond_substEff a.effs hst, filter_cond_substEff a.effs hst, selUncond_map hσ, List.map_append]

/-- SOUNDNESS of one variant on one instance: whenever the instance of the variant applies, the instance of the
    original action applies with the same result.  `hrefl` is all that is asked of the simplifier here. -/
theorem cer_sound_stepI (W : World) {σ : Subst} (hσ : IsParamSubst σ) {simp : Expr → Expr} {a a' : Action}
    {p : List Nat} (hst : ∀ e ∈ a.effs, condStable σ e = true) (hok : cerOK (instOf σ a) = true)
    (hv : cerVariant simp a p = some a') {g g' : St}
    (hrefl : Spec.isTrue (eval (ctxOf W g) [] (substE σ (simp (cerPreExpr a p)))) = true →
      Spec.isTrue (eval (ctxOf W g) [] (substE σ (cerPreExpr a p))) = true)
    (h : stepI W g a' σ = some g') : stepI W g a σ = some g' := by
  obtain ⟨pre', hp, hpre', heffs⟩ := instOf_cerVariant hσ hst hv
  rw [← stepAct_instOf] at h ⊢
  have h' : succOf W g (pre'.map (substE σ)) (expandEffs W.P ((instOf σ a).effs.filter (fun e => !e.isConditional) ++
      selUncond p ((instOf σ a).effs.filter (fun e => e.isConditional)) 0)) = some g' := by
    rw [← hpre', ← heffs]; exact h
  have hpt := succOf_some_pre h'
  -- the instantiated variant preconditions are true: so are the instantiated `condPre`
  have hcp : preOK (ctxOf W g) ((condPre p (a.effs.filter (fun e => e.isConditional)) 0 a.pre).map (substE σ)) = true := by
    have hk := cer_variant_pre hσ (ctxOf W g) hp
    rw [hpt] at hk
    by_cases hemp : (condPre p (a.effs.filter (fun e => e.isConditional)) 0 a.pre).isEmpty = true
    · have : condPre p (a.effs.filter (fun e => e.isConditional)) 0 a.pre = [] := by simpa using hemp
      rw [this]; rfl
    · simp only [hemp, Bool.false_eq_true, if_false] at hk
      rw [← isTrue_substE_mkAnd hσ]
      exact hrefl hk.symm
  obtain ⟨hpa, hm⟩ := (preOK_map_condPre hσ _ p _ 0 a.pre).1 hcp
  have hm' : CondMatches (ctxOf W g) p ((instOf σ a).effs.filter (fun e => e.isConditional)) 0 := by
    have e1 : (instOf σ a).effs = a.effs.map (substEff σ) := rfl
    rw [e1, filter_cond_substEff a.effs hst]; exact hm
  have hpa' : preOK (ctxOf W g) (instOf σ a).pre = true := hpa
  have key := cer_successor_eq W g (instOf σ a) p (pre'.map (substE σ)) (cerOK_simple hok) hm' (by rw [hpt, hpa'])
  unfold stepAct
  simp only [instOf, List.isEmpty_nil, if_true]
  rw [← h', key]
  rfl

/-- COMPLETENESS of the split on one instance: whenever the instance of the original action applies, the variant
    selected by the truth values of the instantiated conditions is yielded (for the LIFTED action), its instance
    applies and gives the same result.  `hpres` is all that is asked of the simplifier here. -/
theorem cer_complete_stepI (W : World) {σ : Subst} (hσ : IsParamSubst σ) {simp : Expr → Expr} {a : Action}
    (hst : ∀ e ∈ a.effs, condStable σ e = true) (hok : cerOK (instOf σ a) = true)
    (hnc : cerNoConflict a = true) (hu : cerHasUncond a = true) {g g' : St}
    (hb : BoolConds (instOf σ a) (ctxOf W g))
    (hpres : ∀ p, Spec.isTrue (eval (ctxOf W g) [] (substE σ (cerPreExpr a p))) = true →
      Spec.isTrue (eval (ctxOf W g) [] (substE σ (simp (cerPreExpr a p)))) = true)
    (h : stepI W g a σ = some g') : ∃ a' ∈ cerVariants simp a, stepI W g a' σ = some g' := by
  let c := ctxOf W g
  let ai := instOf σ a
  let U := a.effs.filter (fun e => !e.isConditional)
  let C := a.effs.filter (fun e => e.isConditional)
  let Ci := ai.effs.filter (fun e => e.isConditional)
  have hCi : Ci = C.map (substEff σ) := filter_cond_substEff a.effs hst
  have h0 : succOf W g ai.pre (expandEffs W.P ai.effs) = some g' := h
  have hpa := succOf_some_pre h0
  obtain ⟨F, hF, _, _, _⟩ := succOf_some_fired h0
  have hall : (expandEffs W.P ai.effs).all (effOk c) = true := by
    rw [fired_eq] at hF
    split at hF
    · assumption
    · cases hF
  have hCb : ∀ e ∈ Ci, ∃ b, eval c [] e.cond = .ok (.b b) := by
    intro e he
    obtain ⟨hea, hec⟩ := List.mem_filter.1 he
    have hsimple := cerOK_simple hok e hea hec
    have hfa : e.forall_ = [] := by
      unfold simpleCond at hsimple
      rw [Bool.and_eq_true] at hsimple
      simpa using hsimple.1
    have hmem : e ∈ expandEffs W.P ai.effs := by
      unfold expandEffs
      rw [List.mem_flatMap]
      exact ⟨e, hea, by simp [expandEffect, hfa]⟩
    have hok' := List.all_eq_true.1 hall e hmem
    obtain ⟨v, hv⟩ := evalEff_ok_cond hec hok'
    obtain ⟨b, rfl⟩ := hb e hea v hv
    exact ⟨b, hv⟩
  let p := trueIdx c Ci 0
  have hm : CondMatches c p Ci 0 := CondMatches_trueIdx c Ci 0 hCb
  have hm' : CondMatches c p (C.map (substEff σ)) 0 := by rw [← hCi]; exact hm
  have hpre : preOK c ((condPre p C 0 a.pre).map (substE σ)) = true :=
    (preOK_map_condPre hσ c p C 0 a.pre).2 ⟨hpa, hm'⟩
  have hpin : p ∈ powerset C.length := by
    have := trueIdx_mem_powerset c Ci
    rw [hCi, List.length_map] at this
    rw [← hCi] at this
    exact this
  unfold cerNoConflict at hnc
  dsimp only at hnc
  split at hnc
  · cases hnc
  rename_i acc0 hacc
  have hloop := List.all_eq_true.1 hnc p hpin
  cases hl : cerLoop p C 0 a.pre U acc0 with
  | none => rw [hl] at hloop; cases hloop
  | some pe =>
    obtain ⟨pre, effs⟩ := pe
    obtain ⟨h1, h2⟩ := cerLoop_some _ _ _ _ _ hl
    have hsimpT : pre.isEmpty = false → Spec.isTrue (eval c [] (substE σ (simp (mkAnd pre)))) = true := by
      intro _
      have : mkAnd pre = cerPreExpr a p := by rw [h1]; rfl
      rw [this]
      apply hpres
      show Spec.isTrue (eval c [] (substE σ (mkAnd (condPre p C 0 a.pre)))) = true
      rw [isTrue_substE_mkAnd hσ]; exact hpre
    cases hsp : simplifyPreWith simp pre with
    | none =>
      exfalso
      have hk := preOK_map_simplifyPre hσ c simp pre
      rw [hsp] at hk
      dsimp only at hk
      by_cases hemp : pre.isEmpty = true
      · simp [hemp] at hk
      · have hemp' : pre.isEmpty = false := by simpa using hemp
        simp only [hemp', Bool.false_eq_true, if_false] at hk
        rw [hsimpT hemp'] at hk
        cases hk
    | some pre' =>
      have hk := cer_variant_pre hσ c hsp
      have hpt : preOK c (pre'.map (substE σ)) = true := by
        rw [hk]
        by_cases hemp : pre.isEmpty = true
        · simp [hemp]
        · have hemp' : pre.isEmpty = false := by simpa using hemp
          simp only [hemp', Bool.false_eq_true, if_false]
          exact hsimpT hemp'
      have hne : effs.isEmpty = false := by
        rw [h2]
        unfold cerHasUncond at hu
        have hu' : (a.effs.filter (fun e => !e.isConditional)).isEmpty = false := by simpa using hu
        cases hU : a.effs.filter (fun e => !e.isConditional) with
        | nil => rw [hU] at hu'; cases hu'
        | cons x xs => simp only [U, hU]; rfl
      let a' : Action := { a with pre := pre', effs := effs }
      have hv : cerVariant simp a p = some a' := by
        unfold cerVariant
        dsimp only
        rw [hacc]
        dsimp only
        rw [hl]
        dsimp only
        rw [hne]
        simp only [Bool.false_eq_true, if_false]
        rw [hsp]
      refine ⟨a', ?_, ?_⟩
      · unfold cerVariants
        rw [List.mem_filterMap]
        exact ⟨p, hpin, hv⟩
      · obtain ⟨pre'', hp'', hpre'', heffs''⟩ := instOf_cerVariant hσ hst hv
        have hm2 : CondMatches c p (ai.effs.filter (fun e => e.isConditional)) 0 := hm
        have key := cer_successor_eq W g ai p (pre'.map (substE σ)) (cerOK_simple hok) hm2 (by rw [hpt, hpa])
        rw [← stepAct_instOf]
        unfold stepAct
        simp only [instOf, List.isEmpty_nil, if_true]
        have e1 : (instOf σ a').effs = (a'.effs.map (substEff σ)) := rfl
        rw [← e1, heffs'', key]
        exact h0

/-! ### the expansion of conditional forall effects -/

/-- instantiation commutes with the expansion `cerExpand` of the conditional forall effects whose condition mentions
    the bound variable (a decidable syntactic equation on the concrete action and instance; it holds trivially for an
    action without such effects, `expandStable_of_noForall`) -/
def expandStable (P : Problem) (σ : Subst) (a : Action) : Prop :=
  expandEffs P ((a.effs.flatMap (cerInstances P)).map (substEff σ)) = expandEffs P (a.effs.map (substEff σ))

instance (P : Problem) (σ : Subst) (a : Action) : Decidable (expandStable P σ a) := by
  unfold expandStable; infer_instance

/-- no effect of the action is a conditional forall effect whose condition mentions the bound variable -/
def noCondForall (a : Action) : Bool :=
  a.effs.all (fun e => !(e.isConditional && !e.forall_.isEmpty && !(freeVars e.cond).isEmpty))

theorem cerExpand_of_noCondForall (P : Problem) {a : Action} (h : noCondForall a = true) : cerExpand P a = a := by
  unfold cerExpand
  have : ∀ l : List Effect, l.all (fun e => !(e.isConditional && !e.forall_.isEmpty && !(freeVars e.cond).isEmpty)) = true →
      l.flatMap (cerInstances P) = l := by
    intro l
    induction l with
    | nil => intro _; rfl
    | cons x xs ih =>
      intro hl
      rw [List.all_cons, Bool.and_eq_true] at hl
      rw [List.flatMap_cons, ih hl.2]
      unfold cerInstances
      have : (x.isConditional && !x.forall_.isEmpty && !(freeVars x.cond).isEmpty) = false := by
        have h1 := hl.1
        cases hb : (x.isConditional && !x.forall_.isEmpty && !(freeVars x.cond).isEmpty) with
        | false => rfl
        | true => rw [hb] at h1; simp at h1
      rw [this]
      rfl
  rw [this a.effs h]

theorem expandStable_of_noCondForall (P : Problem) (σ : Subst) {a : Action} (h : noCondForall a = true) :
    expandStable P σ a := by
  unfold expandStable
  have := cerExpand_of_noCondForall P h
  unfold cerExpand at this
  have e : a.effs.flatMap (cerInstances P) = a.effs := congrArg Action.effs this
  rw [e]

theorem stepI_cerExpand (W : World) (g : St) (a : Action) (σ : Subst) (h : expandStable W.P σ a) :
    stepI W g (cerExpand W.P a) σ = stepI W g a σ := by
  unfold stepI cerExpand
  dsimp only
  rw [h]

end UPVerif.Compile
