import UPVerif.Lemmas.CompileLiftCERSim
/-!
`StateInvariantsRemover` on ALL instances: a forward simulation up to viability and a backward simulation between
the lifted transition systems.

The compiled action is the lifted action with the preconditions
`split(simplify(And(pre₁ … preₙ, simplify(And(invariants)))))`; the invariants have no parameters, so the instance of
the compiled action asks for the instantiated original preconditions and the invariants (`sir_inst_pre`).  What is
needed:
* `SirLiftOK` — the state-independent hypotheses of the parameterless theorems (quantifier-free invariants, effects
  rebuilt unchanged, no `Always` left) and: instantiation leaves the invariants themselves unchanged (`sirLiftOK`:
  decidable; an invariant has no action parameter, and `substitute` rebuilds an expression in the manager's normal form
  into itself);
* `SirWalkAt` — in the states of an invariant `T` of the runs, the compile-time simplifier is exact on the (instances
  of the) conjunctions it is applied to, and the simulator's simplifier on the invariants.  `SirOK` + `SimpExactInst`
  (exactness in every state) give it with `T = True`.
-/
namespace UPVerif.Compile
open UPVerif UPVerif.Expr UPVerif.Sim UPVerif.Spec UPVerif.Simulation

/-- instantiation (of any action, for any argument tuple) leaves the state invariants unchanged -/
def sirLiftOK (P : Problem) : Bool :=
  P.actions.all (fun a => (instancesOf P a).all (fun args =>
    (stateInvariants P).all (fun si => substE (paramSubst P a args) si == si)))

theorem sirLiftOK_at {P : Problem} (h : sirLiftOK P = true) {a : Action} (ha : a ∈ P.actions) {args : List String}
    (hin : args ∈ instancesOf P a) : (stateInvariants P).map (substE (paramSubst P a args)) = stateInvariants P := by
  have h1 := List.all_eq_true.1 (List.all_eq_true.1 (List.all_eq_true.1 h a ha) args hin)
  rw [List.map_congr_left (g := id) (fun si hsi => by simpa using h1 si hsi), List.map_id]

theorem substE_of_isFalse {σ : Subst} (hσ : IsParamSubst σ) {e : Expr} (h : e.isFalse = true) : substE σ e = Expr.ff := by
  cases e with
  | leaf l =>
    cases l with
    | boolC b => cases b with
      | false => exact substE_ff hσ
      | true => simp [Expr.isFalse] at h
    | _ => simp [Expr.isFalse] at h
  | app op as => simp [Expr.isFalse] at h
  | quant q vs b => simp [Expr.isFalse] at h

/-- the state-independent hypotheses of the lifted StateInvariantsRemover theorems -/
structure SirLiftOK (W : World) (c : Compiled) : Prop where
  /-- the state invariants contain no quantifier to expand -/
  rq : ∀ si ∈ stateInvariants W.P, removeQuantifiers W.P si = si
  /-- effects are well-formed (`Effect.__init__` rebuilds them unchanged) -/
  effs : ∀ a ∈ W.P.actions, ∀ e ∈ a.effs, applyFnEffect id e = some e
  /-- no `Always` constraint is left in the compiled problem -/
  noAlways : stateInvariants c.prob = []
  /-- instantiation leaves the invariants unchanged -/
  lift : sirLiftOK W.P = true

/-- the invariant condition `And(state_invariants).simplify()` -/
def sirCond (simp : Expr → Expr) (P : Problem) : Expr := simp (mkAnd (stateInvariants P))

/-- what the lifted theorems ask of the two simplifiers in ONE state -/
structure SirWalkIn (simp : Expr → Expr) (W : World) (g : St) : Prop where
  /-- the compile-time simplifier on the invariant conjunction … -/
  inv : SimpExactAt simp (ctxOf W g) [] (mkAnd (stateInvariants W.P))
  /-- … on the goal conjunction … -/
  goal : SimpExactAt simp (ctxOf W g) [] (mkAnd (W.P.goals.map id ++ [sirCond simp W.P]))
  /-- … and on the instances of the precondition conjunctions -/
  acts : ∀ a ∈ W.P.actions, ∀ args ∈ instancesOf W.P a,
    SimpExactAt simp (ctxOf W g) (paramSubst W.P a args) (mkAnd (a.pre.map id ++ [sirCond simp W.P])) ∧
    SimpExactAt simp (ctxOf W g) (paramSubst W.P a args) (mkAnd (stateInvariants W.P))
  /-- the simulator's simplifier on the invariants -/
  wsimp : ∀ si ∈ stateInvariants W.P, eval (ctxOf W g) [] (W.simp si) = eval (ctxOf W g) [] si

def SirWalkAt (simp : Expr → Expr) (W : World) (T : St → Prop) : Prop := ∀ g, T g → SirWalkIn simp W g

/-- simplifiers that are exact in every state -/
theorem sirWalkAt_of_exact {simp : Expr → Expr} {W : World} (hs : SimpExact simp) (hw : SimpExact W.simp)
    (hi : SimpExactInst simp W.P) (T : St → Prop) : SirWalkAt simp W T := by
  intro g _
  exact ⟨hs _ _, hs _ _, fun a ha args hin => ⟨hi a ha args hin _ _, hi a ha args hin _ _⟩, fun si _ => hw _ si⟩

theorem invOK_split_in {W : World} {g : St} (hw : ∀ si ∈ stateInvariants W.P, eval (ctxOf W g) [] (W.simp si) =
      eval (ctxOf W g) [] si) (hrq : ∀ si ∈ stateInvariants W.P, removeQuantifiers W.P si = si) :
    invOK W (ctxOf W g) = (invA W g && invB W (ctxOf W g)) := by
  unfold invOK invariants invA invB boundInvs preOK
  rw [List.all_append, List.all_map]
  congr 1
  apply all_congr_mem
  intro si hsi
  simp only [Function.comp]
  rw [isTrueB_evalBool, hrq si hsi, hw si hsi]

/-- the invariant condition is TRUE exactly where the invariants hold -/
theorem sir_cond_in {simp : Expr → Expr} {W : World} {g : St}
    (h : SimpExactAt simp (ctxOf W g) [] (mkAnd (stateInvariants W.P))) :
    Spec.isTrue (eval (ctxOf W g) [] (sirCond simp W.P)) = invA W g := by
  have h' : eval (ctxOf W g) [] (simp (mkAnd (stateInvariants W.P))) =
      eval (ctxOf W g) [] (mkAnd (stateInvariants W.P)) := h
  unfold sirCond
  rw [h', isTrue_mkAnd]; rfl

/-- the preconditions of the instance of a compiled action: the instantiated original preconditions and the
    invariants -/
theorem sir_inst_pre {simp : Expr → Expr} {σ : Subst} (hσ : IsParamSubst σ) (W : World) (g : St) (pre : List Expr)
    (h1 : SimpExactAt simp (ctxOf W g) σ (mkAnd (pre.map id ++ [sirCond simp W.P])))
    (h2 : SimpExactAt simp (ctxOf W g) σ (mkAnd (stateInvariants W.P)))
    (hinv : (stateInvariants W.P).map (substE σ) = stateInvariants W.P) :
    Spec.isTrue (eval (ctxOf W g) [] (substE σ (simp (mkAnd (pre.map id ++ [sirCond simp W.P]))))) =
      (preOK (ctxOf W g) (pre.map (substE σ)) && invA W g) := by
  unfold SimpExactAt at h1 h2
  rw [h1, isTrue_substE_mkAnd hσ, List.map_id, preOK_map_append]
  congr 1
  rw [List.map_cons, List.map_nil, preOK_singleton']
  unfold sirCond
  rw [h2, isTrue_substE_mkAnd hσ, hinv]
  rfl

theorem sir_inst_preOK {simp : Expr → Expr} {σ : Subst} (hσ : IsParamSubst σ) (W : World) (g : St) (pre : List Expr)
    (h1 : SimpExactAt simp (ctxOf W g) σ (mkAnd (pre.map id ++ [sirCond simp W.P])))
    (h2 : SimpExactAt simp (ctxOf W g) σ (mkAnd (stateInvariants W.P)))
    (hinv : (stateInvariants W.P).map (substE σ) = stateInvariants W.P) :
    preOK (ctxOf W g) (((splitAnd (simp (mkAnd (pre.map id ++ [sirCond simp W.P])))).foldl addPre []).map
        (substE σ)) = (preOK (ctxOf W g) (pre.map (substE σ)) && invA W g) := by
  rw [preOK_map_foldl_addPre hσ, preOK_map_splitAnd hσ, sir_inst_pre hσ W g pre h1 h2 hinv]
  simp [preOK]

/-- one step of the instance `σ` of a compiled action -/
theorem sir_stepI_iff {simp : Expr → Expr} {σ : Subst} (hσ : IsParamSubst σ) (W : World)
    (hinvs : (stateInvariants W.P).map (substE σ) = stateInvariants W.P) {Q : Problem} (hsig : SameSig Q W.P)
    (hna : stateInvariants Q = []) {a a' : Action} (heff : ∀ e ∈ a.effs, applyFnEffect id e = some e)
    (hinv : invAction simp id (sirCond simp W.P) a = some (some a')) (g g' : St)
    (h1 : SimpExactAt simp (ctxOf W g) σ (mkAnd (a.pre.map id ++ [sirCond simp W.P])))
    (h2 : SimpExactAt simp (ctxOf W g) σ (mkAnd (stateInvariants W.P))) :
    stepI (withProblem W Q) g a' σ = some g' ↔
      (preOK (ctxOf W g) (a.pre.map (substE σ)) = true ∧ invA W g = true ∧
        ∃ F, fired (ctxOf W g) (expandEffs W.P (a.effs.map (substEff σ))) = some F ∧ Cons g F ∧
          invB W (ctxOf W (succGet g F)) = true ∧ g' = succGet g F) := by
  obtain ⟨_, rfl⟩ := invAction_some heff hinv
  unfold stepI
  dsimp only
  have hQ : (withProblem W Q).P = Q := rfl
  rw [succOf_iff, hsig.ctxOf W rfl, sir_inst_preOK hσ W g a.pre h1 h2 hinvs, hQ, hsig.expandEffs, Bool.and_eq_true]
  constructor
  · rintro ⟨⟨h1, h2⟩, F, hF, hc, hi, rfl⟩
    rw [invOK_compiled hsig hna] at hi
    exact ⟨h1, h2, F, hF, hc, hi, rfl⟩
  · rintro ⟨h1, h2, F, hF, hc, hi, rfl⟩
    refine ⟨⟨h1, h2⟩, F, hF, hc, ?_, rfl⟩
    rw [invOK_compiled hsig hna]; exact hi

/-- one step of the instance `σ` of an original action into a state where the simulator's simplifier is exact -/
theorem orig_stepI_intro {W : World} (hrq : ∀ si ∈ stateInvariants W.P, removeQuantifiers W.P si = si)
    (a : Action) (σ : Subst) (g : St) {F : List Fired}
    (hw : ∀ si ∈ stateInvariants W.P, eval (ctxOf W (succGet g F)) [] (W.simp si) = eval (ctxOf W (succGet g F)) [] si)
    (hp : preOK (ctxOf W g) (a.pre.map (substE σ)) = true)
    (hF : fired (ctxOf W g) (expandEffs W.P (a.effs.map (substEff σ))) = some F) (hc : Cons g F)
    (hia : invA W (succGet g F) = true) (hib : invB W (ctxOf W (succGet g F)) = true) :
    stepI W g a σ = some (succGet g F) := by
  unfold stepI
  refine succOf_intro hp hF hc ?_
  rw [invOK_split_in hw hrq, hia, hib]; rfl

theorem orig_stepI_elim {W : World} (hrq : ∀ si ∈ stateInvariants W.P, removeQuantifiers W.P si = si)
    (a : Action) (σ : Subst) (g g' : St)
    (hw : ∀ si ∈ stateInvariants W.P, eval (ctxOf W g') [] (W.simp si) = eval (ctxOf W g') [] si)
    (h : stepI W g a σ = some g') :
    preOK (ctxOf W g) (a.pre.map (substE σ)) = true ∧
      ∃ F, fired (ctxOf W g) (expandEffs W.P (a.effs.map (substEff σ))) = some F ∧ Cons g F ∧
        invA W g' = true ∧ invB W (ctxOf W g') = true ∧ g' = succGet g F := by
  unfold stepI at h
  obtain ⟨hp, F, hF, hc, hi, rfl⟩ := succOf_iff.1 h
  rw [invOK_split_in hw hrq, Bool.and_eq_true] at hi
  exact ⟨hp, F, hF, hc, hi.1, hi.2, rfl⟩

theorem invAction_params {simp : Expr → Expr} {cond : Expr} {a a' : Action}
    (h : invAction simp id cond a = some (some a')) : a'.params = a.params := by
  unfold invAction at h
  dsimp only at h
  split at h
  · cases h
  · split at h
    · cases h
    · simp only [Option.some.injEq] at h
      rw [← h]

/-- the compiled goal test: original goals and invariants -/
theorem sir_goal_in {simp : Expr → Expr} (W : World) {Q : Problem} (hsig : SameSig Q W.P)
    (hg : Q.goals = invGoals simp id (sirCond simp W.P) W.P.goals) (g : St) (hw : SirWalkIn simp W g) :
    goalOK (withProblem W Q) g = (goalOK W g && invA W g) := by
  unfold goalOK
  have : (withProblem W Q).P = Q := rfl
  rw [this, hg]
  unfold invGoals
  have hf : holdsG (withProblem W Q) g Expr.tt = true := rfl
  rw [all_foldl_addGoal _ hf, List.all_nil, Bool.true_and]
  have e1 : ∀ e, holdsG (withProblem W Q) g e = Spec.isTrue (eval (ctxOf W g) [] e) := by
    intro e; unfold holdsG; rw [isTrueB_evalBool, hsig.ctxOf W rfl]
  have e2 : ∀ e, holdsG W g e = Spec.isTrue (eval (ctxOf W g) [] e) := by
    intro e; unfold holdsG; rw [isTrueB_evalBool]
  rw [List.all_congr rfl e1]
  have e3 : W.P.goals.all (holdsG W g) = preOK (ctxOf W g) W.P.goals := by
    unfold preOK; exact all_congr_mem (fun e _ => e2 e)
  rw [e3]
  have := preOK_splitAnd (ctxOf W g) (simp (mkAnd (W.P.goals.map id ++ [sirCond simp W.P])))
  unfold preOK at this
  have hgo : eval (ctxOf W g) [] (simp (mkAnd (W.P.goals.map id ++ [sirCond simp W.P]))) =
      eval (ctxOf W g) [] (mkAnd (W.P.goals.map id ++ [sirCond simp W.P])) := hw.goal
  rw [this, hgo, isTrue_mkAnd, preOK_append, List.map_id, ← sir_cond_in hw.inv]
  simp [preOK]

theorem sirCompile_some' {simp : Expr → Expr} {P : Problem} {c : Compiled} (h : sirCompile simp P = some c) :
    SameSig c.prob P ∧ c.prob.init = P.init ∧
    c.prob.goals = invGoals simp id (sirCond simp P) P.goals ∧
    (∀ (i : Nat) (a' : Action), c.prob.actions[i]? = some a' → ∃ (j : Nat) (a : Action), backOf c i = some j ∧
        P.actions[j]? = some a ∧ invAction simp id (sirCond simp P) a = some (some a')) ∧
    (∀ (j : Nat) (a a' : Action), P.actions[j]? = some a →
        invAction simp id (sirCond simp P) a = some (some a') →
        ∃ i : Nat, c.prob.actions[i]? = some a' ∧ backOf c i = some j) := sirCompile_some h

/-- StateInvariantsRemover is a FORWARD simulation up to viability on all instances: soundness.  `T`: an invariant of
    the runs of the compiled problem under which the simplifiers are exact. -/
theorem sir_fwd_lifted {simp : Expr → Expr} (W : World) {c : Compiled} (hc : sirCompile simp W.P = some c)
    (hok : SirLiftOK W c) (T : St → Prop)
    (hT0 : ∀ g, (tsLifted (withProblem W c.prob)).init = some g → T g)
    (hTs : ∀ g ia g', T g → (tsLifted (withProblem W c.prob)).step g ia = some g' → T g')
    (hw : SirWalkAt simp W T) :
    Fwd (tsLifted W) (tsLifted (withProblem W c.prob)) (backLifted c) (fun gB gA => gB = gA ∧ T gA)
      (fun g => T g → invA W g = true) := by
  obtain ⟨hsig, hinit, hgoals, hfw, _⟩ := sirCompile_some' hc
  have hQ : (withProblem W c.prob).P = c.prob := rfl
  -- every compiled step from a state of `T`, unpacked
  have unpack : ∀ (sB sB' : St) (b : Nat) (args : List String), T sB →
      (tsLifted (withProblem W c.prob)).step sB (b, args) = some sB' →
      ∃ (j : Nat) (a : Action), backOf c b = some j ∧ W.P.actions[j]? = some a ∧
        (instancesOf W.P a).contains args = true ∧
        preOK (ctxOf W sB) (a.pre.map (substE (paramSubst W.P a args))) = true ∧ invA W sB = true ∧
        ∃ F, fired (ctxOf W sB) (expandEffs W.P (a.effs.map (substEff (paramSubst W.P a args)))) = some F ∧
          Cons sB F ∧ invB W (ctxOf W (succGet sB F)) = true ∧ sB' = succGet sB F := by
    intro sB sB' b args hT hstep
    obtain ⟨a', ha', hin, hst⟩ := tsLifted_step hstep
    rw [hQ] at ha' hin hst
    dsimp only at ha' hin hst
    obtain ⟨j, a, hbj, hao, hinv⟩ := hfw b a' ha'
    have hpar := invAction_params hinv
    have hmem := List.mem_of_getElem? hao
    rw [paramSubst_congr hsig.objExpr hpar] at hst
    rw [instancesOf_congr hsig.tyDomain hpar] at hin
    have hin' := mem_instancesOf.1 hin
    obtain ⟨k1, k2⟩ := (hw sB hT).acts a hmem args hin'
    have := (sir_stepI_iff (isParamSubst_paramSubst _ _ _) W (sirLiftOK_at hok.lift hmem hin') hsig
      hok.noAlways (hok.effs a hmem) hinv sB sB' k1 k2).1 hst
    exact ⟨j, a, hbj, hao, hin, this⟩
  refine ⟨?_, ?_, ?_, ?_, ?_, ?_⟩
  · intro sB hB hV
    have hT := hT0 sB hB
    refine ⟨sB, ?_, rfl, hT⟩
    obtain ⟨s0, hs0, hg, hi⟩ := initOf_eq hB
    rw [invOK_compiled hsig hok.noAlways] at hi
    have e1 : initialState? W.P = some s0 := by
      unfold initialState? at hs0 ⊢
      rw [hQ, hinit] at hs0; exact hs0
    have e2 : s0.get c.prob = s0.get W.P := by
      funext k; unfold SimState.get; rw [defaultOf_congr hsig.fluents]
    rw [hQ, e2] at hg
    show initOf W = some sB
    unfold initOf
    rw [e1]
    dsimp only
    rw [← hg, invOK_split_in (hw sB hT).wsimp hok.rq, hV hT, hi]
    rfl
  · intro sB hg hT
    have : goalOK (withProblem W c.prob) sB = true := hg
    rw [sir_goal_in W hsig hgoals sB (hw sB hT), Bool.and_eq_true] at this
    exact this.2
  · rintro sB ⟨b, args⟩ sB' hstep hT
    obtain ⟨_, _, _, _, _, _, h, _⟩ := unpack sB sB' b args hT hstep
    exact h
  · rintro sB sA ⟨b, args⟩ sB' x hR hstep hV hb
    obtain ⟨rfl, hT⟩ := hR
    have hT' := hTs sB (b, args) sB' hT hstep
    obtain ⟨j, a, hbj, hao, hin, h1, _, F, hF, hcons, hib, rfl⟩ := unpack sB sB' b args hT hstep
    obtain ⟨j', hbj', rfl⟩ := backLifted_some hb
    rw [hbj] at hbj'; cases hbj'
    refine ⟨_, ?_, rfl, hT'⟩
    rw [tsLifted_step_intro hao hin]
    exact orig_stepI_intro hok.rq a _ sB (hw _ hT').wsimp h1 hF hcons (hV hT') hib
  · rintro sB sA ⟨b, args⟩ sB' hR hstep _ hb
    obtain ⟨rfl, hT⟩ := hR
    obtain ⟨j, a, hbj, _⟩ := unpack sB sB' b args hT hstep
    rw [backLifted_none hb] at hbj; cases hbj
  · intro sB sA hR hg
    obtain ⟨rfl, hT⟩ := hR
    have : goalOK (withProblem W c.prob) sB = true := hg
    rw [sir_goal_in W hsig hgoals sB (hw sB hT), Bool.and_eq_true] at this
    exact this.1

/-- StateInvariantsRemover is a BACKWARD simulation on all instances: completeness with the same plan length.  `T`: an
    invariant of the runs of the ORIGINAL problem under which the simplifiers are exact. -/
theorem sir_bwd_lifted {simp : Expr → Expr} (W : World) {c : Compiled} (hc : sirCompile simp W.P = some c)
    (hok : SirLiftOK W c) (T : St → Prop) (hT0 : ∀ g, (tsLifted W).init = some g → T g)
    (hTs : ∀ g ia g', T g → (tsLifted W).step g ia = some g' → T g') (hw : SirWalkAt simp W T) :
    Bwd (tsLifted W) (tsLifted (withProblem W c.prob)) (backLifted c)
      (fun gB gA => gB = gA ∧ T gA ∧ invA W gA = true) 0 := by
  obtain ⟨hsig, hinit, hgoals, _, hbw⟩ := sirCompile_some' hc
  have hQ : (withProblem W c.prob).P = c.prob := rfl
  refine ⟨?_, ?_, ?_⟩
  · intro sA hA
    have hT := hT0 sA hA
    obtain ⟨s0, hs0, hg, hi⟩ := initOf_eq hA
    rw [invOK_split_in (hw sA hT).wsimp hok.rq, Bool.and_eq_true] at hi
    refine ⟨sA, ?_, rfl, hT, hi.1⟩
    show initOf (withProblem W c.prob) = some sA
    have e1 : initialState? (withProblem W c.prob).P = some s0 := by
      unfold initialState? at hs0 ⊢
      rw [hQ, hinit]; exact hs0
    have e2 : s0.get c.prob = s0.get W.P := by
      funext k; unfold SimState.get; rw [defaultOf_congr hsig.fluents]
    unfold initOf
    rw [e1]
    dsimp only
    rw [hQ, e2, ← hg, invOK_compiled hsig hok.noAlways, hi.2]
    rfl
  · rintro sB sA ⟨j, args⟩ sA' hR hstep
    obtain ⟨rfl, hT, hV⟩ := hR
    have hT' := hTs sB (j, args) sA' hT hstep
    obtain ⟨a, ha, hin, hst⟩ := tsLifted_step hstep
    dsimp only at ha hin hst
    have hmem := List.mem_of_getElem? ha
    have hin' := mem_instancesOf.1 hin
    have hσ := isParamSubst_paramSubst W.P a args
    obtain ⟨k1, k2⟩ := (hw sB hT).acts a hmem args hin'
    have hinvs := sirLiftOK_at hok.lift hmem hin'
    obtain ⟨h2, F, hF, hcons, hia, hib, rfl⟩ := orig_stepI_elim hok.rq a _ sB sA' (hw _ hT').wsimp hst
    -- the action is not dropped: its compiled condition, instantiated, is true here
    have hpre := sir_inst_pre hσ W sB a.pre k1 k2 hinvs
    rw [h2, hV] at hpre
    have hm : a.effs.mapM (applyFnEffect id) = some a.effs := by
      have : ∀ l : List Effect, (∀ e ∈ l, applyFnEffect id e = some e) → l.mapM (applyFnEffect id) = some l := by
        intro l
        induction l with
        | nil => intro _; rfl
        | cons x xs ih =>
          intro hl
          rw [List.mapM_cons, hl x (List.mem_cons_self ..), ih (fun e he => hl e (List.mem_cons_of_mem _ he))]
          rfl
      exact this a.effs (hok.effs a hmem)
    have hnf : (simp (mkAnd (a.pre.map id ++ [sirCond simp W.P]))).isFalse = false := by
      cases hf : (simp (mkAnd (a.pre.map id ++ [sirCond simp W.P]))).isFalse with
      | false => rfl
      | true =>
        rw [substE_of_isFalse hσ hf] at hpre
        cases hpre
    have hinv : ∃ a', invAction simp id (sirCond simp W.P) a = some (some a') := by
      unfold invAction
      dsimp only
      rw [hnf, hm]
      simp
    obtain ⟨a', hinv⟩ := hinv
    obtain ⟨i, hi, hbi⟩ := hbw j a a' ha hinv
    have hpar := invAction_params hinv
    refine ⟨(i, args), _, backLifted_intro args hbi, ?_, rfl, hT', hia⟩
    have hin2 : (instancesOf (withProblem W c.prob).P a').contains args = true := by
      rw [hQ, instancesOf_congr hsig.tyDomain hpar]; exact hin
    rw [tsLifted_step_intro (W := withProblem W c.prob) hi hin2, hQ, paramSubst_congr hsig.objExpr hpar]
    exact (sir_stepI_iff hσ W hinvs hsig hok.noAlways (hok.effs a hmem) hinv sB _ k1 k2).2
      ⟨h2, hV, F, hF, hcons, hib, rfl⟩
  · intro sB sA hR hg
    obtain ⟨rfl, hT, hV⟩ := hR
    refine ⟨[], sB, Nat.le_refl _, rfl, rfl, ?_⟩
    show goalOK (withProblem W c.prob) sB = true
    have hg' : goalOK W sB = true := hg
    rw [sir_goal_in W hsig hgoals sB (hw sB hT), hg', hV]
    rfl

/-- the hypotheses of the parameterless theorems (`SirOK`) and `sirLiftOK` give the state-independent part … -/
theorem SirOK.liftOK {simp : Expr → Expr} {W : World} {c : Compiled} (h : SirOK simp W c) (hl : sirLiftOK W.P = true) :
    SirLiftOK W c := ⟨h.rq, h.effs, h.noAlways, hl⟩

/-- … and, with a simplifier exact on every instance, the walker part in every state -/
theorem SirOK.walkAt {simp : Expr → Expr} {W : World} {c : Compiled} (h : SirOK simp W c)
    (hi : SimpExactInst simp W.P) (T : St → Prop) : SirWalkAt simp W T :=
  sirWalkAt_of_exact h.simp h.wsimp hi T

end UPVerif.Compile
