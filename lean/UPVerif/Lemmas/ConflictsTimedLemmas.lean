import UPVerif.Lemmas.ConflictsLemmas
import UPVerif.Core.ConflictsTimed

namespace UPVerif.Conflicts

theorem upd_same {α : Type} (f : TimeExpr → α) (k : TimeExpr) (v : α) : upd f k v k = v := by
  simp [upd]

theorem upd_other {α : Type} (f : TimeExpr → α) {k u : TimeExpr} (v : α) (h : u ≠ k) :
    upd f k v u = f u := by
  simp [upd, h]

theorem upd_self {α : Type} (f : TimeExpr → α) (k : TimeExpr) : upd f k (f k) = f := by
  funext u
  by_cases h : u = k
  · subst h; simp [upd]
  · simp [upd, h]

theorem Tables.ext_slot {a b : Tables} (h : ∀ k, a.slot k = b.slot k) : a = b := by
  obtain ⟨e1, s1, a1, i1⟩ := a
  obtain ⟨e2, s2, a2, i2⟩ := b
  have he : e1 = e2 := by funext k; have := h k; simp [Tables.slot] at this; exact this.1
  have hs : s1 = s2 := by funext k; have := h k; simp [Tables.slot] at this; exact this.2.1
  have ha : a1 = a2 := by funext k; have := h k; simp [Tables.slot] at this; exact this.2.2.1
  have hi : i1 = i2 := by funext k; have := h k; simp [Tables.slot] at this; exact this.2.2.2
  subst he hs ha hi; rfl

/-- a raising `check_conflicting_effects` (repaired order) hands the containers back unchanged -/
theorem cce_noop (e : Eff) (sim : Option (List String)) (bk : Book)
    (h : (checkConflictingEffects e sim bk).2 = true) : (checkConflictingEffects e sim bk).1 = bk := by
  have := step_noop ⟨[], sim, bk⟩ (.eff e)
  simp only [Slot.step, Slot.addEffectInstance] at this
  cases hr : checkConflictingEffects e sim bk with
  | mk bk' r =>
    rw [hr] at h this
    simp only at h
    subst h
    simp at this
    exact this

/-! ### one step on the four dictionaries = one step on the slot of the canonical key -/

theorem Slot.addEffectInstance_eq (s : Slot) (e : Eff) :
    s.addEffectInstance e =
      if (checkConflictingEffects e s.sim s.book).2 = true
      then ({ s with book := (checkConflictingEffects e s.sim s.book).1 }, true)
      else ({ s with book := (checkConflictingEffects e s.sim s.book).1, effects := s.effects ++ [e] }, false) := by
  unfold Slot.addEffectInstance
  cases hr : checkConflictingEffects e s.sim s.book with
  | mk bk r => cases r <;> simp

theorem addEffectInstance_snd (tb : Tables) (te : TimeExpr) (e : Eff) :
    (tb.addEffectInstance te e).2 =
      ((tb.slot (.timing (Timing.fromTime te))).addEffectInstance e).2 := by
  rw [Slot.addEffectInstance_eq]
  simp only [Tables.addEffectInstance, Tables.slot]
  by_cases hr : (checkConflictingEffects e (tb.sims (.timing (Timing.fromTime te)))
      ⟨tb.assigned (.timing (Timing.fromTime te)), tb.incDec (.timing (Timing.fromTime te))⟩).2 = true
  · simp [hr]
  · simp [hr]

theorem addEffectInstance_slot (tb : Tables) (te : TimeExpr) (e : Eff) (k : TimeExpr) :
    (tb.addEffectInstance te e).1.slot k =
      if k = .timing (Timing.fromTime te)
      then ((tb.slot (.timing (Timing.fromTime te))).addEffectInstance e).1 else tb.slot k := by
  rw [Slot.addEffectInstance_eq]
  simp only [Tables.addEffectInstance, Tables.slot]
  by_cases hr : (checkConflictingEffects e (tb.sims (.timing (Timing.fromTime te)))
      ⟨tb.assigned (.timing (Timing.fromTime te)), tb.incDec (.timing (Timing.fromTime te))⟩).2 = true
  · by_cases hk : k = .timing (Timing.fromTime te)
    · subst hk; simp [hr, upd]
    · simp [hr, upd, hk]
  · by_cases hk : k = .timing (Timing.fromTime te)
    · subst hk; simp [hr, upd]
    · simp [hr, upd, hk]

theorem addTimedEffectInstance_snd (tb : Tables) (t : Timing) (e : Eff) (hs : tb.sims (.timing t) = none) :
    (tb.addTimedEffectInstance t e).2 = ((tb.slot (.timing t)).addEffectInstance e).2 := by
  rw [Slot.addEffectInstance_eq]
  simp only [Tables.addTimedEffectInstance, Tables.slot, hs]
  by_cases hr : (checkConflictingEffects e none ⟨tb.assigned (.timing t), tb.incDec (.timing t)⟩).2 = true
  · simp [hr]
  · simp [hr]

theorem addTimedEffectInstance_slot (tb : Tables) (t : Timing) (e : Eff) (k : TimeExpr)
    (hs : tb.sims (.timing t) = none) :
    (tb.addTimedEffectInstance t e).1.slot k =
      if k = .timing t then ((tb.slot (.timing t)).addEffectInstance e).1 else tb.slot k := by
  rw [Slot.addEffectInstance_eq]
  simp only [Tables.addTimedEffectInstance, Tables.slot, hs]
  by_cases hr : (checkConflictingEffects e none ⟨tb.assigned (.timing t), tb.incDec (.timing t)⟩).2 = true
  · by_cases hk : k = .timing t
    · subst hk; simp [hr, upd, hs]
    · simp [hr, upd, hk]
  · by_cases hk : k = .timing t
    · subst hk; simp [hr, upd, hs]
    · simp [hr, upd, hk]

theorem setSimulatedEffect_snd (tb : Tables) (t : Timing) (fl : List String) :
    (tb.setSimulatedEffect t fl).2 = ((tb.slot (.timing t)).setSimulatedEffect fl).2 := by
  simp only [Tables.setSimulatedEffect, Slot.setSimulatedEffect, Tables.slot]
  by_cases hc : checkConflictingSimulated fl ⟨tb.assigned (.timing t), tb.incDec (.timing t)⟩ = true
  · simp [hc]
  · simp [hc]

theorem setSimulatedEffect_slot (tb : Tables) (t : Timing) (fl : List String) (k : TimeExpr) :
    (tb.setSimulatedEffect t fl).1.slot k =
      if k = .timing t then ((tb.slot (.timing t)).setSimulatedEffect fl).1 else tb.slot k := by
  simp only [Tables.setSimulatedEffect, Slot.setSimulatedEffect, Tables.slot]
  by_cases hc : checkConflictingSimulated fl ⟨tb.assigned (.timing t), tb.incDec (.timing t)⟩ = true
  · by_cases hk : k = .timing t
    · subst hk; simp [hc]
    · simp [hc, hk]
  · by_cases hk : k = .timing t
    · subst hk; simp [hc, upd]
    · simp [hc, upd, hk]

/-- side condition of the projection: a `Problem` insertion is only read as a slot insertion when no
    simulated effect is stored under its key (the code hands `None` to the check) -/
def TOp.okFor (tb : Tables) (x : TOp) : Prop := x.isPeff = true → tb.sims x.key = none

theorem step_snd (tb : Tables) (x : TOp) (h : x.okFor tb) :
    (tb.step x).2 = ((tb.slot x.key).step x.op).2 := by
  cases x with
  | eff te e => exact addEffectInstance_snd tb te e
  | sim t fl => exact setSimulatedEffect_snd tb t fl
  | peff t e => exact addTimedEffectInstance_snd tb t e (h rfl)

theorem step_slot (tb : Tables) (x : TOp) (h : x.okFor tb) (k : TimeExpr) :
    (tb.step x).1.slot k = if k = x.key then ((tb.slot x.key).step x.op).1 else tb.slot k := by
  cases x with
  | eff te e => exact addEffectInstance_slot tb te e k
  | sim t fl => exact setSimulatedEffect_slot tb t fl k
  | peff t e => exact addTimedEffectInstance_slot tb t e k (h rfl)

/-! ### histories -/

theorem step_sims_of_not_isSim (tb : Tables) (x : TOp) (h : x.isSim = false) :
    (tb.step x).1.sims = tb.sims := by
  cases x with
  | eff te e =>
    simp only [Tables.step, Tables.addEffectInstance]
    by_cases hr : (checkConflictingEffects e (tb.sims (.timing (Timing.fromTime te)))
      ⟨tb.assigned (.timing (Timing.fromTime te)), tb.incDec (.timing (Timing.fromTime te))⟩).2 = true
    · simp [hr]
    · simp [hr]
  | sim t fl => simp [TOp.isSim] at h
  | peff t e =>
    simp only [Tables.step, Tables.addTimedEffectInstance]
    by_cases hr : (checkConflictingEffects e none ⟨tb.assigned (.timing t), tb.incDec (.timing t)⟩).2 = true
    · simp [hr]
    · simp [hr]

theorem wf_cons (tb : Tables) (x : TOp) (l : List TOp) (h : tb.WF (x :: l)) :
    x.okFor tb ∧ (tb.step x).1.WF l := by
  rcases h with h | ⟨hs, hn⟩
  · refine ⟨?_, Or.inl (fun y hy => h y (List.mem_cons_of_mem _ hy))⟩
    intro hp
    have := h x (List.mem_cons_self)
    rw [this] at hp; cases hp
  · refine ⟨fun _ => hs _, Or.inr ⟨?_, fun y hy => hn y (List.mem_cons_of_mem _ hy)⟩⟩
    intro k
    rw [step_sims_of_not_isSim tb x (hn x (List.mem_cons_self))]
    exact hs k

theorem tables_run_cons (tb : Tables) (x : TOp) (l : List TOp) :
    tb.run (x :: l) = ((Tables.run (tb.step x).1 l).1, (tb.step x).2 :: (Tables.run (tb.step x).1 l).2) := rfl

theorem tables_raises_cons (tb : Tables) (x : TOp) (l : List TOp) :
    tb.raises (x :: l) = ((tb.step x).2 || Tables.raises (tb.step x).1 l) := by
  simp [Tables.raises, tables_run_cons]

theorem atTime_cons_eq (t : Timing) (x : TOp) (l : List TOp) (h : x.point = t) :
    atTime t (x :: l) = x.op :: atTime t l := by
  simp [atTime, h]

theorem atTime_cons_ne (t : Timing) (x : TOp) (l : List TOp) (h : x.point ≠ t) :
    atTime t (x :: l) = atTime t l := by
  simp [atTime, h]

/-- frame property: what is stored under the key of time point `t` after a history is what the slot of `t`
    gets from the insertions made at `t` (however `t` was written) -/
theorem run_slot_timing (l : List TOp) : ∀ (tb : Tables), tb.WF l → ∀ t : Timing,
    (tb.run l).1.slot (.timing t) = ((tb.slot (.timing t)).run (atTime t l)).1 := by
  induction l with
  | nil => intro tb _ t; rfl
  | cons x l ih =>
    intro tb hwf t
    obtain ⟨hok, hwf'⟩ := wf_cons tb x l hwf
    rw [tables_run_cons]
    simp only []
    rw [ih _ hwf' t, step_slot tb x hok]
    by_cases e : x.point = t
    · subst e
      rw [atTime_cons_eq _ x l rfl, run_cons]
      simp [TOp.key]
    · rw [atTime_cons_ne t x l e]
      have : ¬ (TimeExpr.timing t = x.key) := by
        intro hh; simp [TOp.key] at hh; exact e hh.symm
      simp [this]

/-- nothing is ever stored under a key that is not a `Timing` -/
theorem run_slot_other (l : List TOp) : ∀ (tb : Tables), tb.WF l → ∀ k : TimeExpr, k.isTiming = false →
    (tb.run l).1.slot k = tb.slot k := by
  induction l with
  | nil => intro tb _ k _; rfl
  | cons x l ih =>
    intro tb hwf k hk
    obtain ⟨hok, hwf'⟩ := wf_cons tb x l hwf
    rw [tables_run_cons]
    simp only []
    rw [ih _ hwf' k hk, step_slot tb x hok]
    have : ¬ (k = x.key) := by
      intro hh; subst hh; simp [TOp.key, TimeExpr.isTiming] at hk
    simp [this]

theorem tables_raises_iff (l : List TOp) : ∀ (tb : Tables), tb.WF l →
    (tb.raises l = true ↔ ∃ t : Timing, (tb.slot (.timing t)).raises (atTime t l) = true) := by
  induction l with
  | nil => intro tb _; simp [Tables.raises, Tables.run, atTime, raises_nil]
  | cons x l ih =>
    intro tb hwf
    obtain ⟨hok, hwf'⟩ := wf_cons tb x l hwf
    rw [tables_raises_cons, Bool.or_eq_true, ih _ hwf', step_snd tb x hok]
    have hu : (tb.step x).1.slot (.timing x.point) = ((tb.slot x.key).step x.op).1 := by
      rw [step_slot tb x hok]; simp [TOp.key]
    have hne : ∀ t : Timing, t ≠ x.point → (tb.step x).1.slot (.timing t) = tb.slot (.timing t) := by
      intro t ht
      rw [step_slot tb x hok]
      have : ¬ (TimeExpr.timing t = x.key) := by
        intro hh; simp [TOp.key] at hh; exact ht hh
      simp [this]
    constructor
    · rintro (h1 | ⟨t, ht⟩)
      · refine ⟨x.point, ?_⟩
        rw [atTime_cons_eq _ x l rfl, raises_cons]
        have : tb.slot (.timing x.point) = tb.slot x.key := rfl
        rw [this, h1]; rfl
      · by_cases e : t = x.point
        · subst e
          refine ⟨x.point, ?_⟩
          rw [atTime_cons_eq _ x l rfl, raises_cons]
          have : tb.slot (.timing x.point) = tb.slot x.key := rfl
          rw [this, ← hu, ht]; simp
        · refine ⟨t, ?_⟩
          rw [atTime_cons_ne t x l (fun hh => e hh.symm), ← hne t e]; exact ht
    · rintro ⟨t, ht⟩
      by_cases e : t = x.point
      · subst e
        rw [atTime_cons_eq _ x l rfl, raises_cons, Bool.or_eq_true] at ht
        rcases ht with ht | ht
        · exact Or.inl ht
        · exact Or.inr ⟨x.point, by rw [hu]; exact ht⟩
      · rw [atTime_cons_ne t x l (fun hh => e hh.symm)] at ht
        exact Or.inr ⟨t, by rw [hne t e]; exact ht⟩

/-! ### exception safety on the dictionaries themselves -/

theorem tables_step_noop (tb : Tables) (x : TOp) (h : (tb.step x).2 = true) : (tb.step x).1 = tb := by
  cases x with
  | eff te e =>
    simp only [Tables.step, Tables.addEffectInstance] at h ⊢
    by_cases hr : (checkConflictingEffects e (tb.sims (.timing (Timing.fromTime te)))
      ⟨tb.assigned (.timing (Timing.fromTime te)), tb.incDec (.timing (Timing.fromTime te))⟩).2 = true
    · have hb := cce_noop _ _ _ hr
      simp only [hr, if_true]
      rw [hb]
      simp [upd_self]
    · simp [hr] at h
  | sim t fl =>
    simp only [Tables.step, Tables.setSimulatedEffect] at h ⊢
    by_cases hc : checkConflictingSimulated fl ⟨tb.assigned (.timing t), tb.incDec (.timing t)⟩ = true
    · simp [hc]
    · simp [hc] at h
  | peff t e =>
    simp only [Tables.step, Tables.addTimedEffectInstance] at h ⊢
    by_cases hr : (checkConflictingEffects e none ⟨tb.assigned (.timing t), tb.incDec (.timing t)⟩).2 = true
    · have hb := cce_noop _ _ _ hr
      simp only [hr, if_true]
      rw [hb]
      simp [upd_self]
    · simp [hr] at h

theorem tables_run_length (l : List TOp) : ∀ tb : Tables, (tb.run l).2.length = l.length := by
  induction l with
  | nil => intro tb; rfl
  | cons x l ih => intro tb; rw [tables_run_cons]; simp [ih]

theorem tables_run_append (l l' : List TOp) : ∀ tb : Tables,
    tb.run (l ++ l') = ((Tables.run (tb.run l).1 l').1, (tb.run l).2 ++ (Tables.run (tb.run l).1 l').2) := by
  induction l with
  | nil => intro tb; simp [Tables.run]
  | cons x l ih => intro tb; rw [List.cons_append, tables_run_cons, ih, tables_run_cons]; simp

theorem tables_run_accepted (l : List TOp) : ∀ tb : Tables,
    tb.run (acceptedT l (tb.run l).2) =
      ((tb.run l).1, (acceptedT l (tb.run l).2).map (fun _ => false)) := by
  induction l with
  | nil => intro tb; rfl
  | cons x l ih =>
    intro tb
    rw [tables_run_cons]
    simp only [acceptedT]
    cases hr : (tb.step x).2 with
    | true =>
      have hn := tables_step_noop tb x hr
      simp only [if_true]
      rw [hn]
      exact ih tb
    | false =>
      simp only [Bool.false_eq_true, if_false]
      rw [tables_run_cons, hr, ih]
      simp

/-! ### how the time point is written does not matter -/

theorem fromTime_timing (t : Timing) : Timing.fromTime (.timing t) = t := rfl

theorem step_canon (tb : Tables) (x : TOp) : tb.step x.canon = tb.step x := by
  cases x with
  | eff te e => rfl
  | sim t fl => rfl
  | peff t e => rfl

theorem run_map_canon (l : List TOp) : ∀ tb : Tables, tb.run (l.map TOp.canon) = tb.run l := by
  induction l with
  | nil => intro tb; rfl
  | cons x l ih => intro tb; rw [List.map_cons, tables_run_cons, tables_run_cons, step_canon, ih]

theorem point_canon (x : TOp) : x.canon.point = x.point := by
  cases x <;> simp [TOp.canon, TOp.point, fromTime_timing]

theorem op_canon (x : TOp) : x.canon.op = x.op := by
  cases x <;> simp [TOp.canon, TOp.op]

theorem isPeff_canon (x : TOp) : x.canon.isPeff = x.isPeff := by
  cases x <;> simp [TOp.canon, TOp.isPeff]

theorem isSim_canon (x : TOp) : x.canon.isSim = x.isSim := by
  cases x <;> simp [TOp.canon, TOp.isSim]

theorem atTime_map_canon (t : Timing) (l : List TOp) : atTime t (l.map TOp.canon) = atTime t l := by
  induction l with
  | nil => rfl
  | cons x l ih =>
    rw [List.map_cons]
    by_cases e : x.point = t
    · rw [atTime_cons_eq t x l e, atTime_cons_eq t x.canon _ (by rw [point_canon]; exact e), ih, op_canon]
    · rw [atTime_cons_ne t x l e, atTime_cons_ne t x.canon _ (by rw [point_canon]; exact e), ih]

theorem atTime_perm (t : Timing) {l₁ l₂ : List TOp} (p : l₁.Perm l₂) :
    (atTime t l₁).Perm (atTime t l₂) := by
  unfold atTime
  exact (p.filter _).map _

theorem wf_of_canon_perm (tb : Tables) {l₁ l₂ : List TOp}
    (p : (l₁.map TOp.canon).Perm (l₂.map TOp.canon)) (h : tb.WF l₁) : tb.WF l₂ := by
  have key : ∀ x ∈ l₂, ∃ y ∈ l₁, y.canon = x.canon := by
    intro x hx
    have : x.canon ∈ l₁.map TOp.canon := p.symm.subset (List.mem_map_of_mem hx)
    obtain ⟨y, hy, e⟩ := List.mem_map.1 this
    exact ⟨y, hy, e⟩
  rcases h with h | ⟨hs, hn⟩
  · left
    intro x hx
    obtain ⟨y, hy, e⟩ := key x hx
    rw [← isPeff_canon x, ← e, isPeff_canon]; exact h y hy
  · right
    refine ⟨hs, ?_⟩
    intro x hx
    obtain ⟨y, hy, e⟩ := key x hx
    rw [← isSim_canon x, ← e, isSim_canon]; exact hn y hy

/-- order independence on the dictionaries, for histories whose time points are written in any mixture
    of forms: `l₂` is a permutation of `l₁` up to the way the time points are written -/
theorem tables_raises_perm (tb : Tables) {l₁ l₂ : List TOp}
    (p : (l₁.map TOp.canon).Perm (l₂.map TOp.canon)) (hwf : tb.WF l₁)
    (hload : ∀ t : Timing, simLoad (tb.slot (.timing t)) (atTime t l₁) ≤ 1) :
    tb.raises l₁ = tb.raises l₂ := by
  have hwf2 := wf_of_canon_perm tb p hwf
  have pt : ∀ t, (atTime t l₁).Perm (atTime t l₂) := by
    intro t
    have := atTime_perm t p
    rwa [atTime_map_canon, atTime_map_canon] at this
  have key : tb.raises l₁ = true ↔ tb.raises l₂ = true := by
    rw [tables_raises_iff l₁ tb hwf, tables_raises_iff l₂ tb hwf2]
    constructor
    · rintro ⟨t, ht⟩
      exact ⟨t, by rw [← raises_perm _ (pt t) (hload t)]; exact ht⟩
    · rintro ⟨t, ht⟩
      exact ⟨t, by rw [raises_perm _ (pt t) (hload t)]; exact ht⟩
  cases h1 : tb.raises l₁ <;> cases h2 : tb.raises l₂ <;> simp_all

theorem op_isSim (x : TOp) : x.op.isSim = x.isSim := by
  cases x <;> rfl

theorem countP_atTime_le (t : Timing) (l : List TOp) :
    (atTime t l).countP Op.isSim ≤ l.countP TOp.isSim := by
  induction l with
  | nil => simp [atTime]
  | cons x l ih =>
    by_cases e : x.point = t
    · rw [atTime_cons_eq t x l e, List.countP_cons, List.countP_cons, op_isSim]
      omega
    · rw [atTime_cons_ne t x l e, List.countP_cons]
      omega

/-- a history with at most one `set_simulated_effect` on an object without simulated effects meets the
    load hypothesis of the order-independence theorems at every time point -/
theorem simLoad_of_countP (tb : Tables) (l : List TOp) (hs : ∀ k, tb.sims k = none)
    (h : l.countP TOp.isSim ≤ 1) : ∀ t : Timing, simLoad (tb.slot (.timing t)) (atTime t l) ≤ 1 := by
  intro t
  have := countP_atTime_le t l
  simp only [simLoad, Tables.slot, hs]
  simp
  omega

theorem keysCanonical_run (tb : Tables) (l : List TOp) (hwf : tb.WF l) (h : tb.KeysCanonical) :
    (tb.run l).1.KeysCanonical := by
  intro k hk
  rw [run_slot_other l tb hwf k hk]
  exact h k hk

end UPVerif.Conflicts
