/-
The common frame of the compiler soundness / completeness properties (C06 / C07), proved once for
abstract transition systems.

`A` is the original system, `B` the compiled one, `β : ActB → Option ActA` the map-back of action
instances (`none` = the compiled action has no counterpart and disappears from the mapped-back plan,
e.g. the goal actions of DisjunctiveConditionsRemover), `R ⊆ S_B × S_A` the relation between states.

* forward simulation  ⇒ SOUNDNESS   (`Fwd.sound`): every valid plan of `B`, of any length, maps back
  to a valid plan of `A`.  The simulation only has to match `B`-steps that end in a VIABLE state
  (`V`: every goal state and every state some step leaves from is viable) — this is what lets
  "invariant added to every precondition and to the goal" (StateInvariantsRemover, BoundedTypesRemover)
  be a simulation although a single compiled step may leave the invariant.
* backward simulation ⇒ COMPLETENESS (`Bwd.complete`): every valid plan of `A` of length `k` has a
  valid plan of `B` of length `≤ k + extra` mapping back to it (`extra` = number of final goal
  actions the compilation needs, `0` or `1`); hence an unsolvable `B` implies an unsolvable `A`.
* simulations compose (`Fwd.comp`, `Bwd.comp`): pipelines.

No Mathlib.
-/
namespace UPVerif.Simulation

/-- a deterministic transition system with an optional initial state and a goal predicate -/
structure TS (S A : Type) where
  init : Option S
  step : S → A → Option S
  goal : S → Prop

variable {SA SB SC AA AB AC : Type}

/-- run a plan from a state -/
def TS.run (T : TS S A) : S → List A → Option S
  | s, [] => some s
  | s, a :: π => match T.step s a with
    | some s' => T.run s' π
    | none => none

/-- the states visited by a run (the trace `s₀ … sₙ`), `none` if some step is not applicable -/
def TS.trace (T : TS S A) : S → List A → Option (List S)
  | s, [] => some [s]
  | s, a :: π => match T.step s a with
    | some s' => (T.trace s' π).map (s :: ·)
    | none => none

/-- plan validity: applicable step by step from the initial state, goal in the final state -/
def TS.Valid (T : TS S A) (π : List A) : Prop :=
  ∃ s0 sf, T.init = some s0 ∧ T.run s0 π = some sf ∧ T.goal sf

def TS.Solvable (T : TS S A) : Prop := ∃ π, T.Valid π

/-- `Plan.replace_action_instances(map_back)`: instances mapped to `None` are dropped -/
def mapBack (β : AB → Option AA) (π : List AB) : List AA := π.filterMap β

theorem run_append (T : TS S A) (s : S) (π ρ : List A) :
    T.run s (π ++ ρ) = (T.run s π).bind (fun s' => T.run s' ρ) := by
  induction π generalizing s with
  | nil => simp [TS.run]
  | cons a π ih =>
    simp only [List.cons_append, TS.run]
    cases T.step s a with
    | none => simp
    | some s' => simp [ih]

/-! ## forward simulation ⇒ soundness -/

/-- forward simulation of `B` by `A` through `β`, up to viability `V` -/
structure Fwd (A : TS SA AA) (B : TS SB AB) (β : AB → Option AA) (R : SB → SA → Prop) (V : SB → Prop) : Prop where
  /-- initial states are related (if `B` has a viable one, `A` has one) -/
  init : ∀ sB, B.init = some sB → V sB → ∃ sA, A.init = some sA ∧ R sB sA
  /-- goal states are viable -/
  goalV : ∀ sB, B.goal sB → V sB
  /-- a state some step leaves from is viable -/
  stepV : ∀ sB b sB', B.step sB b = some sB' → V sB
  /-- every `B`-step from a related state INTO a viable state is matched by the mapped `A`-step … -/
  step : ∀ sB sA b sB' a, R sB sA → B.step sB b = some sB' → V sB' → β b = some a →
    ∃ sA', A.step sA a = some sA' ∧ R sB' sA'
  /-- … or by no step at all when the action maps back to nothing -/
  skip : ∀ sB sA b sB', R sB sA → B.step sB b = some sB' → V sB' → β b = none → R sB' sA
  /-- `B`-goal ⇒ `A`-goal on related states -/
  goal : ∀ sB sA, R sB sA → B.goal sB → A.goal sA

/-- in a run that ends in a goal state every visited state is viable -/
theorem Fwd.viable {A : TS SA AA} {B : TS SB AB} {β : AB → Option AA} {R : SB → SA → Prop} {V : SB → Prop}
    (h : Fwd A B β R V) (sB sf : SB) (π : List AB) (hr : B.run sB π = some sf) (hg : B.goal sf) : V sB := by
  cases π with
  | nil => simp [TS.run] at hr; subst hr; exact h.goalV _ hg
  | cons b π =>
    simp only [TS.run] at hr
    cases hs : B.step sB b with
    | none => rw [hs] at hr; cases hr
    | some sB' => exact h.stepV _ _ _ hs

theorem Fwd.run {A : TS SA AA} {B : TS SB AB} {β : AB → Option AA} {R : SB → SA → Prop} {V : SB → Prop}
    (h : Fwd A B β R V) (π : List AB) : ∀ (sB sf : SB) (sA : SA), R sB sA → B.run sB π = some sf → B.goal sf →
      ∃ sfA, A.run sA (mapBack β π) = some sfA ∧ R sf sfA := by
  induction π with
  | nil =>
    intro sB sf sA hR hr _
    simp [TS.run] at hr; subst hr
    exact ⟨sA, rfl, hR⟩
  | cons b π ih =>
    intro sB sf sA hR hr hg
    simp only [TS.run] at hr
    cases hs : B.step sB b with
    | none => rw [hs] at hr; cases hr
    | some sB' =>
      rw [hs] at hr
      have hV : V sB' := h.viable sB' sf π hr hg
      cases hb : β b with
      | none =>
        have hR' := h.skip sB sA b sB' hR hs hV hb
        obtain ⟨sfA, hrun, hRf⟩ := ih sB' sf sA hR' hr hg
        refine ⟨sfA, ?_, hRf⟩
        simp only [mapBack, List.filterMap_cons, hb]
        exact hrun
      | some a =>
        obtain ⟨sA', hsA, hR'⟩ := h.step sB sA b sB' a hR hs hV hb
        obtain ⟨sfA, hrun, hRf⟩ := ih sB' sf sA' hR' hr hg
        refine ⟨sfA, ?_, hRf⟩
        simp only [mapBack, List.filterMap_cons, hb, TS.run, hsA]
        exact hrun

/-- SOUNDNESS: a forward simulation maps every valid plan of the compiled system, of any length,
    back to a valid plan of the original system -/
theorem Fwd.sound {A : TS SA AA} {B : TS SB AB} {β : AB → Option AA} {R : SB → SA → Prop} {V : SB → Prop}
    (h : Fwd A B β R V) (π : List AB) (hv : B.Valid π) : A.Valid (mapBack β π) := by
  obtain ⟨s0, sf, hi, hr, hg⟩ := hv
  obtain ⟨sA, hiA, hR⟩ := h.init s0 hi (h.viable s0 sf π hr hg)
  obtain ⟨sfA, hrA, hRf⟩ := h.run π s0 sf sA hR hr hg
  exact ⟨sA, sfA, hiA, hrA, h.goal sf sfA hRf hg⟩

/-- two traces related state by state -/
inductive TraceRel (R : SB → SA → Prop) : List SB → List SA → Prop
  | nil : TraceRel R [] []
  | cons {b : SB} {a : SA} {tb : List SB} {ta : List SA} : R b a → TraceRel R tb ta → TraceRel R (b :: tb) (a :: ta)

/-- the traces are related state by state when no action is dropped by the map-back -/
theorem Fwd.trace {A : TS SA AA} {B : TS SB AB} {β : AB → Option AA} {R : SB → SA → Prop} {V : SB → Prop}
    (h : Fwd A B β R V) (π : List AB) (hβ : ∀ b ∈ π, (β b).isSome) :
    ∀ (sB sf : SB) (sA : SA) (tB : List SB), R sB sA → B.run sB π = some sf → B.goal sf → B.trace sB π = some tB →
      ∃ tA, A.trace sA (mapBack β π) = some tA ∧ TraceRel R tB tA := by
  induction π with
  | nil =>
    intro sB sf sA tB hR _ _ ht
    simp [TS.trace] at ht; subst ht
    exact ⟨[sA], rfl, TraceRel.cons hR TraceRel.nil⟩
  | cons b π ih =>
    intro sB sf sA tB hR hr hg ht
    simp only [TS.run] at hr
    simp only [TS.trace] at ht
    cases hs : B.step sB b with
    | none => rw [hs] at hr; cases hr
    | some sB' =>
      rw [hs] at hr ht
      simp only at hr ht
      have hV : V sB' := h.viable sB' sf π hr hg
      have hb := hβ b (List.mem_cons_self ..)
      cases hbb : β b with
      | none => rw [hbb] at hb; cases hb
      | some a =>
        obtain ⟨sA', hsA, hR'⟩ := h.step sB sA b sB' a hR hs hV hbb
        cases htr : B.trace sB' π with
        | none => rw [htr] at ht; cases ht
        | some tB' =>
          rw [htr] at ht
          simp at ht; subst ht
          obtain ⟨tA', htA, hF⟩ := ih (fun b' hb' => hβ b' (List.mem_cons_of_mem _ hb')) sB' sf sA' tB' hR' hr hg htr
          refine ⟨sA :: tA', ?_, TraceRel.cons hR hF⟩
          simp only [mapBack, List.filterMap_cons, hbb, TS.trace, hsA]
          simp only [mapBack] at htA
          rw [htA]; rfl

/-! ## backward simulation ⇒ completeness -/

/-- backward simulation: every `A`-step is matched by a `B`-step that maps back to it; an `A`-goal
    state is matched by at most `extra` further `B`-steps that map back to nothing and reach a `B`-goal -/
structure Bwd (A : TS SA AA) (B : TS SB AB) (β : AB → Option AA) (R : SB → SA → Prop) (extra : Nat) : Prop where
  init : ∀ sA, A.init = some sA → ∃ sB, B.init = some sB ∧ R sB sA
  step : ∀ sB sA a sA', R sB sA → A.step sA a = some sA' →
    ∃ b sB', β b = some a ∧ B.step sB b = some sB' ∧ R sB' sA'
  goal : ∀ sB sA, R sB sA → A.goal sA →
    ∃ ρ sf, ρ.length ≤ extra ∧ mapBack β ρ = [] ∧ B.run sB ρ = some sf ∧ B.goal sf

theorem Bwd.run {A : TS SA AA} {B : TS SB AB} {β : AB → Option AA} {R : SB → SA → Prop} {extra : Nat}
    (h : Bwd A B β R extra) (π : List AA) : ∀ (sB : SB) (sA sfA : SA), R sB sA → A.run sA π = some sfA →
      ∃ π' sfB, mapBack β π' = π ∧ π'.length = π.length ∧ B.run sB π' = some sfB ∧ R sfB sfA := by
  induction π with
  | nil =>
    intro sB sA sfA hR hr
    simp [TS.run] at hr; subst hr
    exact ⟨[], sB, rfl, rfl, rfl, hR⟩
  | cons a π ih =>
    intro sB sA sfA hR hr
    simp only [TS.run] at hr
    cases hs : A.step sA a with
    | none => rw [hs] at hr; cases hr
    | some sA' =>
      rw [hs] at hr
      obtain ⟨b, sB', hb, hsB, hR'⟩ := h.step sB sA a sA' hR hs
      obtain ⟨π', sfB, hm, hl, hrun, hRf⟩ := ih sB' sA' sfA hR' hr
      refine ⟨b :: π', sfB, ?_, ?_, ?_, hRf⟩
      · simp only [mapBack, List.filterMap_cons, hb]; simp only [mapBack] at hm; rw [hm]
      · simp [hl]
      · simp only [TS.run, hsB]; exact hrun

/-- COMPLETENESS: every valid plan of the original system of length `k` has a valid plan of the
    compiled system, of length at most `k + extra`, that maps back to exactly the same sequence -/
theorem Bwd.complete {A : TS SA AA} {B : TS SB AB} {β : AB → Option AA} {R : SB → SA → Prop} {extra : Nat}
    (h : Bwd A B β R extra) (π : List AA) (hv : A.Valid π) :
    ∃ π', B.Valid π' ∧ mapBack β π' = π ∧ π'.length ≤ π.length + extra := by
  obtain ⟨s0, sf, hi, hr, hg⟩ := hv
  obtain ⟨sB, hiB, hR⟩ := h.init s0 hi
  obtain ⟨π', sfB, hm, hl, hrun, hRf⟩ := h.run π sB s0 sf hR hr
  obtain ⟨ρ, sf', hρl, hρm, hρr, hρg⟩ := h.goal sfB sf hRf hg
  refine ⟨π' ++ ρ, ⟨sB, sf', hiB, ?_, hρg⟩, ?_, ?_⟩
  · rw [run_append, hrun]; exact hρr
  · simp only [mapBack, List.filterMap_append]
    simp only [mapBack] at hm hρm
    rw [hm, hρm, List.append_nil]
  · simp [hl]; omega

/-- an unsolvable compiled problem implies an unsolvable original problem -/
theorem Bwd.unsolvable {A : TS SA AA} {B : TS SB AB} {β : AB → Option AA} {R : SB → SA → Prop} {extra : Nat}
    (h : Bwd A B β R extra) (hB : ¬ B.Solvable) : ¬ A.Solvable := by
  rintro ⟨π, hv⟩
  obtain ⟨π', hv', _, _⟩ := h.complete π hv
  exact hB ⟨π', hv'⟩

/-! ## composition (pipelines) -/

/-- map-back of a pipeline: last compiler first (`compilers_pipeline.map_back_action_instance`) -/
def compBack (β₁ : AB → Option AA) (β₂ : AC → Option AB) : AC → Option AA := fun c => (β₂ c).bind β₁

theorem mapBack_comp (β₁ : AB → Option AA) (β₂ : AC → Option AB) (π : List AC) :
    mapBack (compBack β₁ β₂) π = mapBack β₁ (mapBack β₂ π) := by
  induction π with
  | nil => rfl
  | cons c π ih =>
    simp only [mapBack, List.filterMap_cons, compBack] at *
    cases h2 : β₂ c with
    | none => simpa using ih
    | some b =>
      simp only [Option.bind_some, List.filterMap_cons]
      cases β₁ b <;> simp [ih]

/-- SOUNDNESS of a pipeline from the soundness of its stages (no simulation needed) -/
theorem sound_comp {A : TS SA AA} {B : TS SB AB} {C : TS SC AC} {β₁ : AB → Option AA} {β₂ : AC → Option AB}
    (h₁ : ∀ π, B.Valid π → A.Valid (mapBack β₁ π)) (h₂ : ∀ π, C.Valid π → B.Valid (mapBack β₂ π))
    (π : List AC) (hv : C.Valid π) : A.Valid (mapBack (compBack β₁ β₂) π) := by
  rw [mapBack_comp]; exact h₁ _ (h₂ _ hv)

/-- COMPLETENESS of a pipeline from the completeness of its stages: the bounds add up -/
theorem complete_comp {A : TS SA AA} {B : TS SB AB} {C : TS SC AC} {β₁ : AB → Option AA} {β₂ : AC → Option AB}
    {e₁ e₂ : Nat}
    (h₁ : ∀ π, A.Valid π → ∃ π', B.Valid π' ∧ mapBack β₁ π' = π ∧ π'.length ≤ π.length + e₁)
    (h₂ : ∀ π, B.Valid π → ∃ π', C.Valid π' ∧ mapBack β₂ π' = π ∧ π'.length ≤ π.length + e₂)
    (π : List AA) (hv : A.Valid π) :
    ∃ π', C.Valid π' ∧ mapBack (compBack β₁ β₂) π' = π ∧ π'.length ≤ π.length + (e₁ + e₂) := by
  obtain ⟨πB, hvB, hmB, hlB⟩ := h₁ π hv
  obtain ⟨πC, hvC, hmC, hlC⟩ := h₂ πB hvB
  refine ⟨πC, hvC, ?_, by omega⟩
  rw [mapBack_comp, hmC, hmB]

end UPVerif.Simulation
