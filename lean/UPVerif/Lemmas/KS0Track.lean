import UPVerif.Core.KS0
/-!
Helper lemmas for `Props/C30.lean`, part 1: the tracking invariant of the K_S0 translation.
-/
set_option linter.unusedSectionVars false
namespace UPVerif.KS0
open UPVerif.Conformant

variable {α : Type} [DecidableEq α]

/-! ### literals -/

@[simp] theorem Lit.neg_neg (l : Lit α) : l.neg.neg = l := by
  cases l; simp [Lit.neg]

theorem Lit.neg_inj {a b : Lit α} : a.neg = b.neg ↔ a = b := by
  constructor
  · intro h; have := congrArg Lit.neg h; simpa using this
  · intro h; rw [h]

theorem Lit.neg_eq_iff {a b : Lit α} : a.neg = b ↔ a = b.neg := by
  constructor
  · intro h; rw [← h]; simp
  · intro h; rw [h]; simp

theorem Lit.ne_neg (l : Lit α) : l ≠ l.neg := by
  cases l with
  | mk a p => cases p <;> simp [Lit.neg]

theorem holds_neg (σ : State α) (l : Lit α) : holds σ l.neg = !holds σ l := by
  cases l with
  | mk a p => cases p <;> cases h : σ a <;> simp [holds, Lit.neg, h]

theorem holds_pos (σ : State α) (x : α) : holds σ ⟨x, true⟩ = σ x := by
  cases h : σ x <;> simp [holds, h]

theorem holds_negl (σ : State α) (x : α) : holds σ ⟨x, false⟩ = !σ x := by
  cases h : σ x <;> simp [holds, h]

/-! ### the successor function of the spec, at literal level -/

/-- no action may carry two rules with complementary targets (the property's "at most one effect per
ground fluent per action", generalised: several rules with the *same* target are fine) -/
def Consistent (a : Action α) : Prop :=
  ∀ r1 ∈ a.rules, ∀ r2 ∈ a.rules, r1.target ≠ r2.target.neg

instance (a : Action α) : Decidable (Consistent a) := by
  unfold Consistent; infer_instance

/-- some rule of `a` with target `L` fires in `σ` -/
def Produces (a : Action α) (σ : State α) (L : Lit α) : Prop :=
  ∃ r ∈ a.rules, fires σ r = true ∧ r.target = L

theorem adds_iff (a : Action α) (σ : State α) (x : α) :
    adds a σ x = true ↔ Produces a σ ⟨x, true⟩ := by
  simp [adds, Produces, List.any_eq_true]

theorem dels_iff (a : Action α) (σ : State α) (x : α) :
    dels a σ x = true ↔ Produces a σ ⟨x, false⟩ := by
  simp [dels, Produces, List.any_eq_true]

theorem produces_excl {a : Action α} (hc : Consistent a) {σ : State α} {L : Lit α}
    (h1 : Produces a σ L) (h2 : Produces a σ L.neg) : False := by
  obtain ⟨r1, m1, _, t1⟩ := h1
  obtain ⟨r2, m2, _, t2⟩ := h2
  apply hc r1 m1 r2 m2
  rw [t1, t2]; simp

/-- a literal holds after the action iff a firing rule produces it, or it held before and no firing
rule produces its complement -/
theorem holds_step {a : Action α} (hc : Consistent a) (σ : State α) (L : Lit α) :
    holds (step a σ) L = true ↔ Produces a σ L ∨ (¬ Produces a σ L.neg ∧ holds σ L = true) := by
  cases L with
  | mk x p =>
    have hadd := adds_iff a σ x
    have hdel := dels_iff a σ x
    cases p
    · -- negative literal
      have hex : Produces a σ ⟨x, false⟩ → ¬ Produces a σ ⟨x, true⟩ := fun h1 h2 =>
        produces_excl hc (L := ⟨x, false⟩) h1 (by simpa [Lit.neg] using h2)
      simp only [holds_negl, Lit.neg, Bool.not_false, step]
      by_cases h1 : adds a σ x = true
      · have p1 := hadd.1 h1
        simp only [h1, if_true, Bool.not_true]
        constructor
        · intro h; cases h
        · rintro (h | ⟨h, _⟩)
          · exact absurd p1 (hex h)
          · exact absurd p1 h
      · have np1 : ¬ Produces a σ ⟨x, true⟩ := fun h => h1 (hadd.2 h)
        have h1' : adds a σ x = false := by simpa using h1
        by_cases h2 : dels a σ x = true
        · simp [h1', h2, hdel.1 h2]
        · have np2 : ¬ Produces a σ ⟨x, false⟩ := fun h => h2 (hdel.2 h)
          have h2' : dels a σ x = false := by simpa using h2
          simp [h1', h2', np1, np2]
    · -- positive literal
      simp only [holds_pos, Lit.neg, Bool.not_true, step]
      by_cases h1 : adds a σ x = true
      · simp [h1, hadd.1 h1]
      · have np1 : ¬ Produces a σ ⟨x, true⟩ := fun h => h1 (hadd.2 h)
        have h1' : adds a σ x = false := by simpa using h1
        by_cases h2 : dels a σ x = true
        · simp [h1', h2, np1, hdel.1 h2]
        · have np2 : ¬ Produces a σ ⟨x, false⟩ := fun h => h2 (hdel.2 h)
          have h2' : dels a σ x = false := by simpa using h2
          simp [h1', h2', np1, np2]

/-! ### the compiled action, at knowledge-fluent level -/

theorem mem_tags {n : Nat} {t : Tag} : t ∈ tags n ↔ t = Tag.empty ∨ ∃ i, i < n ∧ t = Tag.st i := by
  simp only [tags, List.mem_cons, List.mem_map, List.mem_range]
  constructor
  · rintro (h | ⟨i, hi, rfl⟩)
    · exact Or.inl h
    · exact Or.inr ⟨i, hi, rfl⟩
  · rintro (h | ⟨i, hi, rfl⟩)
    · exact Or.inl h
    · exact Or.inr ⟨i, hi, rfl⟩

/-- the support rule of some rule with target `L` fires under tag `t` -/
def KSupport (a : Action α) (κ : State (KAtom α)) (L : Lit α) (t : Tag) : Prop :=
  ∃ r ∈ a.rules, r.target = L ∧ ∀ c ∈ r.cond, κ ⟨c, t⟩ = true

/-- the cancellation rule of some rule with target `¬L` fires under tag `t` -/
def KCancel (a : Action α) (κ : State (KAtom α)) (L : Lit α) (t : Tag) : Prop :=
  ∃ r ∈ a.rules, r.target = L.neg ∧ ∀ c ∈ r.cond, κ ⟨c.neg, t⟩ = false

theorem fires_support (κ : State (KAtom α)) (r : Rule α) (t : Tag) :
    fires κ ⟨r.cond.map (fun c => kpos c t), kpos r.target t⟩ = true ↔ ∀ c ∈ r.cond, κ ⟨c, t⟩ = true := by
  simp [fires, holds, kpos, List.all_eq_true]

theorem fires_cancel (κ : State (KAtom α)) (r : Rule α) (t : Tag) :
    fires κ ⟨r.cond.map (fun c => knot c t), knot r.target t⟩ = true ↔ ∀ c ∈ r.cond, κ ⟨c.neg, t⟩ = false := by
  simp [fires, holds, knot, List.all_eq_true]

theorem adds_compileAct (n : Nat) (a : Action α) (κ : State (KAtom α)) (L : Lit α) (t : Tag) :
    adds (compileAct n a) κ ⟨L, t⟩ = true ↔ t ∈ tags n ∧ KSupport a κ L t := by
  simp only [adds, compileAct, List.any_flatMap, List.any_eq_true, ruleK, List.any_cons, List.any_nil,
    Bool.or_false, Bool.and_eq_true, Bool.or_eq_true, decide_eq_true_eq, KSupport]
  constructor
  · rintro ⟨t', ht', r, hr, h⟩
    rcases h with ⟨hf, he⟩ | ⟨_, he⟩
    · simp only [kpos, Lit.mk.injEq, KAtom.mk.injEq, and_true] at he
      obtain ⟨h1, h2⟩ := he
      subst h2
      exact ⟨ht', r, hr, h1, (fires_support κ r t').1 hf⟩
    · simp [knot] at he
  · rintro ⟨ht, r, hr, h1, h2⟩
    refine ⟨t, ht, r, hr, Or.inl ⟨(fires_support κ r t).2 h2, ?_⟩⟩
    simp [kpos, h1]

theorem dels_compileAct (n : Nat) (a : Action α) (κ : State (KAtom α)) (L : Lit α) (t : Tag) :
    dels (compileAct n a) κ ⟨L, t⟩ = true ↔ t ∈ tags n ∧ KCancel a κ L t := by
  simp only [dels, compileAct, List.any_flatMap, List.any_eq_true, ruleK, List.any_cons, List.any_nil,
    Bool.or_false, Bool.and_eq_true, Bool.or_eq_true, decide_eq_true_eq, KCancel]
  constructor
  · rintro ⟨t', ht', r, hr, h⟩
    rcases h with ⟨_, he⟩ | ⟨hf, he⟩
    · simp [kpos] at he
    · simp only [knot, Lit.mk.injEq, KAtom.mk.injEq, and_true] at he
      obtain ⟨h1, h2⟩ := he
      subst h2
      exact ⟨ht', r, hr, Lit.neg_eq_iff.1 h1, (fires_cancel κ r t').1 hf⟩
  · rintro ⟨ht, r, hr, h1, h2⟩
    refine ⟨t, ht, r, hr, Or.inr ⟨(fires_cancel κ r t).2 h2, ?_⟩⟩
    simp [knot, h1]

/-- value of a knowledge fluent after a compiled action -/
theorem step_compileAct {n : Nat} (a : Action α) (κ : State (KAtom α)) (L : Lit α) {t : Tag}
    (ht : t ∈ tags n) :
    step (compileAct n a) κ ⟨L, t⟩ = true ↔
      KSupport a κ L t ∨ (¬ KCancel a κ L t ∧ κ ⟨L, t⟩ = true) := by
  have hadd := adds_compileAct n a κ L t
  have hdel := dels_compileAct n a κ L t
  simp only [step]
  by_cases h1 : adds (compileAct n a) κ ⟨L, t⟩ = true
  · simp [h1, (hadd.1 h1).2]
  · have n1 : ¬ KSupport a κ L t := fun h => h1 (hadd.2 ⟨ht, h⟩)
    have h1' : adds (compileAct n a) κ ⟨L, t⟩ = false := by simpa using h1
    by_cases h2 : dels (compileAct n a) κ ⟨L, t⟩ = true
    · simp [h1', h2, n1, (hdel.1 h2).2]
    · have n2 : ¬ KCancel a κ L t := fun h => h2 (hdel.2 ⟨ht, h⟩)
      have h2' : dels (compileAct n a) κ ⟨L, t⟩ = false := by simpa using h2
      simp [h1', h2', n1, n2]

/-- value of a knowledge fluent after a merge action -/
theorem step_mergeAct (n : Nat) (l : Lit α) (κ : State (KAtom α)) (k : KAtom α) :
    step (mergeAct n l) κ k = if k = ⟨l, Tag.empty⟩ then true else κ k := by
  by_cases h : k = ⟨l, Tag.empty⟩
  · subst h
    simp [step, adds, mergeAct, fires, kpos]
  · have : ¬ (⟨l, Tag.empty⟩ : KAtom α) = k := fun e => h e.symm
    simp [step, adds, dels, mergeAct, fires, kpos, h, this]

theorem applicable_mergeAct (n : Nat) (l : Lit α) (κ : State (KAtom α)) :
    applicable (mergeAct n l) κ = true ↔ ∀ i, i < n → κ ⟨l, Tag.st i⟩ = true := by
  simp [applicable, mergeAct, holds, kpos, List.all_eq_true]

theorem applicable_compileAct (n : Nat) (a : Action α) (κ : State (KAtom α)) :
    applicable (compileAct n a) κ = true ↔ ∀ l ∈ a.pre, κ ⟨l, Tag.empty⟩ = true := by
  simp [applicable, compileAct, holds, kpos, List.all_eq_true]

/-! ### the tracking invariant -/

/-- **Tracking invariant** between a compiled state `κ` and the family `σ i` of original states reached
from the `i`-th tag state (`i < n`): knowledge under a state tag is *exactly* truth in that state;
knowledge under the empty tag implies truth in all of them. -/
structure Track (n : Nat) (κ : State (KAtom α)) (σ : Nat → State α) : Prop where
  tag : ∀ i, i < n → ∀ l, κ ⟨l, Tag.st i⟩ = holds (σ i) l
  empty : ∀ l, κ ⟨l, Tag.empty⟩ = true → ∀ i, i < n → holds (σ i) l = true

theorem bool_eq_of_iff {a b : Bool} (h : a = true ↔ b = true) : a = b := by
  cases a <;> cases b <;> simp_all

theorem track_act {n : Nat} {κ : State (KAtom α)} {σ : Nat → State α} (a : Action α)
    (hc : Consistent a) (h : Track n κ σ) :
    Track n (step (compileAct n a) κ) (fun i => step a (σ i)) := by
  constructor
  · intro i hi L
    apply bool_eq_of_iff
    have ht : Tag.st i ∈ tags n := mem_tags.2 (Or.inr ⟨i, hi, rfl⟩)
    rw [step_compileAct a κ L ht, holds_step hc]
    have hsup : ∀ M, KSupport a κ M (Tag.st i) ↔ Produces a (σ i) M := by
      intro M
      constructor
      · rintro ⟨r, hr, h1, h2⟩
        refine ⟨r, hr, ?_, h1⟩
        simp only [fires, List.all_eq_true]
        intro c hcm
        rw [← h.tag i hi c]; exact h2 c hcm
      · rintro ⟨r, hr, h1, h2⟩
        refine ⟨r, hr, h2, ?_⟩
        intro c hcm
        simp only [fires, List.all_eq_true] at h1
        rw [h.tag i hi c]; exact h1 c hcm
    have hcan : KCancel a κ L (Tag.st i) ↔ Produces a (σ i) L.neg := by
      constructor
      · rintro ⟨r, hr, h1, h2⟩
        refine ⟨r, hr, ?_, h1⟩
        simp only [fires, List.all_eq_true]
        intro c hcm
        have := h2 c hcm
        rw [h.tag i hi c.neg, holds_neg] at this
        simpa using this
      · rintro ⟨r, hr, h1, h2⟩
        refine ⟨r, hr, h2, ?_⟩
        intro c hcm
        simp only [fires, List.all_eq_true] at h1
        rw [h.tag i hi c.neg, holds_neg, h1 c hcm]; rfl
    rw [hsup L, hcan, h.tag i hi L]
  · intro L hL i hi
    have ht : Tag.empty ∈ tags n := mem_tags.2 (Or.inl rfl)
    rw [step_compileAct a κ L ht] at hL
    rw [holds_step hc]
    rcases hL with ⟨r, hr, h1, h2⟩ | ⟨hnc, hk⟩
    · left
      refine ⟨r, hr, ?_, h1⟩
      simp only [fires, List.all_eq_true]
      intro c hcm
      exact h.empty c (h2 c hcm) i hi
    · right
      refine ⟨?_, h.empty L hk i hi⟩
      rintro ⟨r, hr, h1, h2⟩
      apply hnc
      refine ⟨r, hr, h2, ?_⟩
      intro c hcm
      -- otherwise `K ¬c` would hold under the empty tag, so `c` would be false in `σ i`
      cases hv : κ ⟨c.neg, Tag.empty⟩
      · rfl
      · exfalso
        have hf := h.empty c.neg hv i hi
        simp only [fires, List.all_eq_true] at h1
        rw [holds_neg, h1 c hcm] at hf
        cases hf

theorem track_merge {n : Nat} {κ : State (KAtom α)} {σ : Nat → State α} (l : Lit α)
    (h : Track n κ σ) (happ : applicable (mergeAct n l) κ = true) :
    Track n (step (mergeAct n l) κ) σ := by
  constructor
  · intro i hi L
    rw [step_mergeAct]
    simp only [KAtom.mk.injEq, reduceCtorEq, and_false, if_false]
    exact h.tag i hi L
  · intro L hL i hi
    rw [step_mergeAct] at hL
    by_cases e : (⟨L, Tag.empty⟩ : KAtom α) = ⟨l, Tag.empty⟩
    · have : L = l := by simpa using e
      subst this
      rw [← h.tag i hi L]
      exact (applicable_mergeAct n L κ).1 happ i hi
    · simp only [e, if_false] at hL
      exact h.empty L hL i hi

/-- the initial knowledge satisfies the invariant for the tag states themselves -/
theorem track_init (S : List (State α)) :
    Track S.length (kinit S) (fun i => S.getD i (fun _ => false)) := by
  constructor
  · intro i hi L
    simp [kinit, List.getD, List.getElem?_eq_getElem hi]
  · intro L hL i hi
    have hmem : S[i] ∈ S := List.getElem_mem hi
    simp only [List.getD, List.getElem?_eq_getElem hi, Option.getD_some]
    cases L with
    | mk x p =>
      cases p
      · simp only [kinit, Bool.false_eq_true, if_false, Bool.and_eq_true, Bool.not_eq_true',
          List.any_eq_false] at hL
        rw [holds_negl]
        have := hL.2 S[i] hmem
        simpa using this
      · simp only [kinit, if_true, List.all_eq_true] at hL
        rw [holds_pos]
        exact hL S[i] hmem

end UPVerif.KS0
