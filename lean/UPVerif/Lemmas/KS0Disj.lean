import UPVerif.Lemmas.KS0Plans
/-!
Helper lemmas for `Props/C30.lean`, part 5: problems with disjunctive preconditions and their
split into one action variant per disjunct.
-/
set_option linter.unusedSectionVars false
namespace UPVerif.KS0
open UPVerif.Conformant

variable {α : Type} [DecidableEq α]

theorem step_congr {a b : Action α} (h : a.rules = b.rules) (σ : State α) : step a σ = step b σ := by
  funext x
  simp [step, adds, dels, h]

theorem mem_splitDisj {d : DAction α} {a : Action α} (h : a ∈ splitDisj d) :
    a.pre ∈ d.pre ∧ a.rules = d.rules := by
  simp only [splitDisj, List.mem_map] at h
  obtain ⟨c, hc, rfl⟩ := h
  exact ⟨hc, rfl⟩

theorem mem_normD_actions {P : DProblem α} {a : Action α} :
    a ∈ (normD P).actions ↔ ∃ d, d ∈ P.actions ∧ a ∈ splitDisj d := by
  simp [normD, List.mem_flatMap]

theorem exists_origins {P : DProblem α} (l : List (Action α)) (h : ∀ a ∈ l, a ∈ (normD P).actions) :
    ∃ π, Origins P π l := by
  induction l with
  | nil => exact ⟨[], Origins.nil⟩
  | cons a l ih =>
    obtain ⟨π, hπ⟩ := ih (fun b hb => h b (List.mem_cons_of_mem _ hb))
    obtain ⟨d, hd1, hd2⟩ := mem_normD_actions.1 (h a List.mem_cons_self)
    exact ⟨d :: π, Origins.cons hd1 hd2 hπ⟩

/-- a variant plan that is valid from `σ` makes its origin plan valid from `σ` -/
theorem dvalid_of_valid {P : DProblem α} {π : List (DAction α)} {l : List (Action α)}
    (h : Origins P π l) :
    ∀ σ : State α, validFrom P.goals l σ = true → dvalidFrom P.goals π σ = true := by
  induction h with
  | nil => intro σ hv; simpa [validFrom, executable, run, dvalidFrom] using hv
  | @cons d a π' l' _ hd _ ih =>
    intro σ hv
    obtain ⟨hp, hr⟩ := mem_splitDisj hd
    simp only [validFrom, executable, run, Bool.and_eq_true] at hv
    simp only [dvalidFrom, Bool.and_eq_true]
    refine ⟨?_, ?_⟩
    · simp only [dapplicable, List.any_eq_true]
      exact ⟨a.pre, hp, hv.1.1⟩
    · have e : step d.effects σ = step a σ := step_congr (by simp [DAction.effects, hr]) σ
      rw [e]
      apply ih
      simp only [validFrom, Bool.and_eq_true]
      exact ⟨hv.1.2, hv.2⟩

theorem origins_mem_left {P : DProblem α} {π : List (DAction α)} {l : List (Action α)}
    (h : Origins P π l) : ∀ d ∈ π, d ∈ P.actions := by
  induction h with
  | nil => intro d hd; cases hd
  | cons hd _ _ ih =>
    intro d' hd'
    rcases List.mem_cons.1 hd' with rfl | hd'
    · exact hd
    · exact ih d' hd'

/-- the single variant of an action whose precondition has exactly one disjunct -/
def soleVariant (d : DAction α) : Action α := { name := d.name, pre := d.pre.headD [], rules := d.rules }

theorem splitDisj_single {d : DAction α} (h : d.pre.length = 1) : splitDisj d = [soleVariant d] := by
  cases hp : d.pre with
  | nil => rw [hp] at h; cases h
  | cons c rest =>
    cases rest with
    | nil => simp [splitDisj, soleVariant, hp]
    | cons c' r => rw [hp] at h; simp at h

theorem valid_of_dvalid {goals : List (Lit α)} (π : List (DAction α))
    (h1 : ∀ d ∈ π, d.pre.length = 1) :
    ∀ σ : State α, dvalidFrom goals π σ = true → validFrom goals (π.map soleVariant) σ = true := by
  induction π with
  | nil => intro σ hv; simpa [validFrom, executable, run, dvalidFrom] using hv
  | cons d π ih =>
    intro σ hv
    simp only [dvalidFrom, Bool.and_eq_true] at hv
    have hrec := ih (fun e he => h1 e (List.mem_cons_of_mem _ he)) (step d.effects σ) hv.2
    have e : step d.effects σ = step (soleVariant d) σ := step_congr (by simp [DAction.effects, soleVariant]) σ
    rw [e] at hrec
    simp only [validFrom, Bool.and_eq_true] at hrec
    simp only [List.map_cons, validFrom, executable, run, Bool.and_eq_true]
    refine ⟨⟨?_, hrec.1⟩, hrec.2⟩
    have hl := h1 d List.mem_cons_self
    cases hp : d.pre with
    | nil => rw [hp] at hl; cases hl
    | cons c rest =>
      cases rest with
      | nil =>
        have := hv.1
        simp only [dapplicable, hp, List.any_cons, List.any_nil, Bool.or_false] at this
        simpa [applicable, soleVariant, hp] using this
      | cons c' r => rw [hp] at hl; simp at hl

theorem origins_soleVariant {P : DProblem α} (π : List (DAction α)) (hm : ∀ d ∈ π, d ∈ P.actions)
    (h1 : ∀ d ∈ π, d.pre.length = 1) : Origins P π (π.map soleVariant) := by
  induction π with
  | nil => exact Origins.nil
  | cons d π ih =>
    refine Origins.cons (hm d List.mem_cons_self) ?_
      (ih (fun e he => hm e (List.mem_cons_of_mem _ he)) (fun e he => h1 e (List.mem_cons_of_mem _ he)))
    rw [splitDisj_single (h1 d List.mem_cons_self)]; simp

end UPVerif.KS0
