import UPVerif.Core.Deorder
/-!
Evaluation side of C27: `eval` looks the state up only at the keys `rkeys` lists (so two states that
agree there give the same result, errors included), and without fluents inside fluent arguments
`rkeys` does not depend on the state at all.
-/
namespace UPVerif.Deorder
open UPVerif UPVerif.Expr UPVerif.Sim

theorem existsLoop_congr {f g : VEnv → Except EvalErr Val} : ∀ (l : List VEnv),
    (∀ a ∈ l, f a = g a) → existsLoop f l = existsLoop g l
  | [], _ => rfl
  | a :: as, h => by
    simp only [existsLoop]
    rw [h a (by simp), existsLoop_congr as (fun b hb => h b (by simp [hb]))]

theorem forallLoop_congr {f g : VEnv → Except EvalErr Val} : ∀ (l : List VEnv),
    (∀ a ∈ l, f a = g a) → forallLoop f l = forallLoop g l
  | [], _ => rfl
  | a :: as, h => by
    simp only [forallLoop]
    rw [h a (by simp), forallLoop_congr as (fun b hb => h b (by simp [hb]))]

/-- an evaluation context with another state -/
def setGet (c : EvalCtx) (g : GKey → Option Val) : EvalCtx := { get := g, objs := c.objs, fn := c.fn }

theorem qAssignments_setGet (c : EvalCtx) (g : GKey → Option Val) : ∀ (vs : List Var),
    qAssignments (setGet c g) vs = qAssignments c vs
  | [] => rfl
  | v :: vs => by
    simp only [qAssignments]
    rw [qAssignments_setGet c g vs]
    rfl

theorem evalOp_setGet (c : EvalCtx) (g : GKey → Option Val) (op : Op) (vs : List Val)
    (h : ∀ f, op = .fluent f → g (f, vs) = c.get (f, vs)) :
    evalOp (setGet c g) op vs = evalOp c op vs := by
  cases op with
  | fluent f =>
    simp only [evalOp, setGet]
    rw [h f rfl]
  | div =>
    unfold evalOp
    split
    · rename_i hx; cases hx
    · rfl
    · rfl
  | _ => rfl

mutual
/-- two states that agree on `rkeys c ρ e` give `e` the same value (or the same error) -/
theorem eval_agree (c : EvalCtx) (g : GKey → Option Val) : ∀ (e : Expr) (ρ : VEnv),
    (∀ k ∈ rkeys c ρ e, g k = c.get k) → eval (setGet c g) ρ e = eval c ρ e
  | .leaf _, _, _ => rfl
  | .app op args, ρ, h => by
    have hl : evalList (setGet c g) ρ args = evalList c ρ args :=
      evalList_agree c g args ρ (fun k hk => h k (by simp only [rkeys, List.mem_append]; exact .inl hk))
    simp only [eval, hl]
    cases hv : evalList c ρ args with
    | error x => rfl
    | ok vs =>
      dsimp only
      apply evalOp_setGet
      intro f hf
      subst hf
      apply h
      simp only [rkeys, hv, List.mem_append, List.mem_singleton]
      exact .inr trivial
  | .quant q vs body, ρ, h => by
    have hb : ∀ a ∈ qAssignments c vs, eval (setGet c g) (a ++ ρ) body = eval c (a ++ ρ) body := by
      intro a ha
      apply eval_agree c g body (a ++ ρ)
      intro k hk
      apply h
      simp only [rkeys, List.mem_flatMap]
      exact ⟨a, ha, hk⟩
    simp only [eval, qAssignments_setGet]
    cases q with
    | ex => exact existsLoop_congr _ hb
    | all => exact forallLoop_congr _ hb
theorem evalList_agree (c : EvalCtx) (g : GKey → Option Val) : ∀ (es : List Expr) (ρ : VEnv),
    (∀ k ∈ rkeysList c ρ es, g k = c.get k) → evalList (setGet c g) ρ es = evalList c ρ es
  | [], _, _ => rfl
  | e :: es, ρ, h => by
    have h1 := eval_agree c g e ρ (fun k hk => h k (by simp only [rkeysList, List.mem_append]; exact .inl hk))
    have h2 := evalList_agree c g es ρ (fun k hk => h k (by simp only [rkeysList, List.mem_append]; exact .inr hk))
    simp only [evalList, h1, h2]
end

mutual
/-- an expression without fluents reads nothing -/
theorem rkeys_fluentFree (c : EvalCtx) : ∀ (e : Expr) (ρ : VEnv), fluentExps e = [] → rkeys c ρ e = []
  | .leaf _, _, _ => rfl
  | .app op args, ρ, h => by
    cases op with
    | fluent f => simp [fluentExps] at h
    | _ =>
      simp only [fluentExps] at h
      simp only [rkeys, rkeysList_fluentFree c args ρ h, List.append_nil]
  | .quant q vs body, ρ, h => by
    simp only [fluentExps] at h
    simp only [rkeys, List.flatMap_eq_nil_iff]
    intro a _
    exact rkeys_fluentFree c body (a ++ ρ) h
theorem rkeysList_fluentFree (c : EvalCtx) : ∀ (es : List Expr) (ρ : VEnv),
    fluentExpsList es = [] → rkeysList c ρ es = []
  | [], _, _ => rfl
  | e :: es, ρ, h => by
    simp only [fluentExpsList, List.append_eq_nil_iff] at h
    simp only [rkeysList, rkeys_fluentFree c e ρ h.1, rkeysList_fluentFree c es ρ h.2, List.append_nil]
end

/-- arguments without fluents evaluate the same way in every state -/
theorem evalList_fluentFree (c : EvalCtx) (g : GKey → Option Val) (es : List Expr) (ρ : VEnv)
    (h : fluentExpsList es = []) : evalList (setGet c g) ρ es = evalList c ρ es := by
  apply evalList_agree
  rw [rkeysList_fluentFree c es ρ h]
  intro k hk; cases hk

theorem eval_fluentFree (c : EvalCtx) (g : GKey → Option Val) (e : Expr) (ρ : VEnv)
    (h : fluentExps e = []) : eval (setGet c g) ρ e = eval c ρ e := by
  apply eval_agree
  rw [rkeys_fluentFree c e ρ h]
  intro k hk; cases hk

mutual
/-- without fluents inside fluent arguments the keys an evaluation reads do not depend on the state -/
theorem rkeys_indep (c : EvalCtx) (g : GKey → Option Val) : ∀ (e : Expr) (ρ : VEnv),
    noNested e = true → rkeys (setGet c g) ρ e = rkeys c ρ e
  | .leaf _, _, _ => rfl
  | .app op args, ρ, h => by
    cases op with
    | fluent f =>
      simp only [noNested, List.isEmpty_iff] at h
      simp only [rkeys, rkeysList_fluentFree _ args ρ h, evalList_fluentFree c g args ρ h]
    | _ =>
      simp only [noNested] at h
      simp only [rkeys, rkeysList_indep c g args ρ h]
  | .quant q vs body, ρ, h => by
    simp only [noNested] at h
    simp only [rkeys, qAssignments_setGet]
    congr 1
    funext a
    exact rkeys_indep c g body (a ++ ρ) h
theorem rkeysList_indep (c : EvalCtx) (g : GKey → Option Val) : ∀ (es : List Expr) (ρ : VEnv),
    noNestedList es = true → rkeysList (setGet c g) ρ es = rkeysList c ρ es
  | [], _, _ => rfl
  | e :: es, ρ, h => by
    simp only [noNestedList, Bool.and_eq_true] at h
    simp only [rkeysList, rkeys_indep c g e ρ h.1, rkeysList_indep c g es ρ h.2]
end

/-- `evalArgs` (left to right) and `evalList` (right to left) compute the same values -/
theorem evalArgs_ok_iff (c : EvalCtx) : ∀ (args : List Expr) (vs : List Val),
    evalArgs c args = .ok vs ↔ evalList c [] args = .ok vs
  | [], vs => by simp [evalArgs, evalList]
  | a :: as, vs => by
    simp only [evalArgs, evalList]
    cases h1 : eval c [] a with
    | error x =>
      cases h2 : evalList c [] as <;> simp
    | ok v =>
      cases h2 : evalList c [] as with
      | error x =>
        have : ∀ ws, evalArgs c as ≠ .ok ws := fun ws hw => by
          rw [(evalArgs_ok_iff c as ws).1 hw] at h2; cases h2
        cases h3 : evalArgs c as with
        | error y => simp
        | ok ws => exact absurd h3 (this ws)
      | ok ws =>
        rw [(evalArgs_ok_iff c as ws).2 h2]

end UPVerif.Deorder
