import UPVerif.Core.STN
/-!
Helper lemmas for `Props/C25.lean`.

Everything is an invariant of the relaxation loop of `_inc_check`, phrased semantically (no
explicit walks): with potentials `p = -t`,
* A (`*_feas`)  : every edge violated by the current distances starts at a queued node
                  ⇒ on exit (`queue = []`) the distances are a feasible potential;
* B (`*_pres`)  : any predicate on distances preserved by one successful relaxation survives the
                  loop (used for `d ≤ 0` and for `p ≤ d` with `p` any non-positive solution);
* C (`*_no_neg`): for any solution `p`, `p v - d v ≤ p y - d y` for every queued `v`
                  ⇒ a relaxation can never lower `d y`, in particular `return False` is unreachable.
-/
namespace UPVerif.STN

variable {Ev : Type} [DecidableEq Ev] {α : Type}

/-! ### dictionaries -/

theorem lookup_assign (k k' : Ev) (v : α) (l : List (Ev × α)) :
    lookup k (assign k' v l) = if k' = k then some v else lookup k l := by
  induction l with
  | nil => simp [assign, lookup]
  | cons p r ih =>
    obtain ⟨a, w⟩ := p
    by_cases h : a = k'
    · subst h
      by_cases h2 : a = k <;> simp [assign, lookup, h2]
    · by_cases h2 : a = k
      · subst h2
        have : ¬ k' = a := fun e => h e.symm
        simp [assign, lookup, h, this]
      · simp [assign, lookup, h, h2, ih]

theorem get_assign (d : Dist Ev) (v u : Ev) (r : Rat) :
    get (assign v r d) u = if v = u then r else get d u := by
  unfold get
  rw [lookup_assign]
  split <;> rfl

theorem get_setDefault (d : Dist Ev) (v u : Ev) : get (setDefault v 0 d) u = get d u := by
  unfold setDefault
  cases h : lookup v d with
  | some _ => rfl
  | none =>
    simp only [get_assign]
    split
    · rename_i e; subst e; simp [get, h]
    · rfl

theorem nbrs_assign (c : Cons Ev) (v u : Ev) (l : Nbrs Ev) :
    nbrs (assign v l c) u = if v = u then l else nbrs c u := by
  unfold nbrs
  rw [lookup_assign]
  split <;> rfl

theorem nbrs_setDefault (c : Cons Ev) (v u : Ev) : nbrs (setDefault v [] c) u = nbrs c u := by
  unfold setDefault
  cases h : lookup v c with
  | some _ => rfl
  | none =>
    simp only [nbrs_assign]
    split
    · rename_i e; subst e; simp [nbrs, h]
    · rfl

theorem firstBound_mem (y : Ev) (l : Nbrs Ev) (w : Rat) (h : firstBound y l = some w) : (y, w) ∈ l := by
  induction l with
  | nil => simp [firstBound] at h
  | cons p r ih =>
    obtain ⟨v, w'⟩ := p
    simp only [firstBound] at h
    split at h
    · rename_i e; subst e; cases h; simp
    · exact List.mem_cons_of_mem _ (ih h)


/-! ### B — predicates preserved by every successful relaxation -/

theorem relax_pres (Q : Dist Ev → Prop) (y : Ev) (b : Rat) (c : Ev) (all : Nbrs Ev)
    (hstep : ∀ d v w, (v, w) ∈ all → Q d → get d c + w < get d v → Q (assign v (get d c + w) d)) :
    ∀ (ns : Nbrs Ev) (d : Dist Ev) (q : List Ev) (d' : Dist Ev) (q' : List Ev),
      (∀ e ∈ ns, e ∈ all) → Q d → relax y b c ns d q = .ok d' q' → Q d' := by
  intro ns
  induction ns with
  | nil => intro d q d' q' _ hq h; simp only [relax] at h; cases h; exact hq
  | cons e r ih =>
    obtain ⟨v, w⟩ := e
    intro d q d' q' hsub hq h
    simp only [relax] at h
    have hr : ∀ e ∈ r, e ∈ all := fun e he => hsub e (List.mem_cons_of_mem _ he)
    split at h
    · rename_i hlt
      split at h
      · cases h
      · exact ih _ _ _ _ hr (hstep d v w (hsub _ (List.mem_cons_self ..)) hq hlt) h
    · exact ih _ _ _ _ hr hq h

theorem loop_pres (Q : Dist Ev → Prop) (cs : Cons Ev) (y : Ev) (b : Rat)
    (hstep : ∀ c d v w, (v, w) ∈ nbrs cs c → Q d → get d c + w < get d v → Q (assign v (get d c + w) d)) :
    ∀ (fuel : Nat) (d : Dist Ev) (q : List Ev) (d' : Dist Ev),
      Q d → loop cs y b fuel d q = .ok d' → Q d' := by
  intro fuel
  induction fuel with
  | zero =>
    intro d q d' hq h
    cases q with
    | nil => simp only [loop] at h; cases h; exact hq
    | cons c q => simp [loop] at h
  | succ n ih =>
    intro d q d' hq h
    cases q with
    | nil => simp only [loop] at h; cases h; exact hq
    | cons c q =>
      simp only [loop] at h
      split at h
      · rename_i d1 q1 hrel
        exact ih _ _ _ (relax_pres Q y b c (nbrs cs c) (hstep c) _ _ _ _ _ (fun _ h => h) hq hrel) h
      · cases h

/-! ### A — violated edges start at queued nodes ⇒ feasible on exit -/

/-- every edge is satisfied by `d`, or starts at a queued node, or is a not-yet-scanned neighbour
of the node `c` being processed -/
def Pending (cs : Cons Ev) (d : Dist Ev) (q : List Ev) (c : Ev) (rem : Nbrs Ev) : Prop :=
  ∀ u v w, (v, w) ∈ nbrs cs u → get d v ≤ get d u + w ∨ u ∈ q ∨ (u = c ∧ (v, w) ∈ rem)

theorem relax_feas (cs : Cons Ev) (y : Ev) (b : Rat) (c : Ev) :
    ∀ (ns : Nbrs Ev) (d : Dist Ev) (q : List Ev) (d' : Dist Ev) (q' : List Ev),
      Pending cs d q c ns → relax y b c ns d q = .ok d' q' → Pending cs d' q' c [] := by
  intro ns
  induction ns with
  | nil => intro d q d' q' hp h; simp only [relax] at h; cases h; exact hp
  | cons e r ih =>
    obtain ⟨v, w⟩ := e
    intro d q d' q' hp h
    simp only [relax] at h
    split at h
    · rename_i hlt
      split at h
      · cases h
      · refine ih _ _ _ _ ?_ h
        intro u' v' w' he
        have hv' : get (assign v (get d c + w) d) v' ≤ get d v' := by
          rw [get_assign]; split
          · rename_i e; subst e; exact Rat.le_of_lt hlt
          · exact Rat.le_refl
        by_cases hu : u' = v
        · right; left; subst hu; simp
        · have hu' : get (assign v (get d c + w) d) u' = get d u' := by
            rw [get_assign, if_neg (fun e : v = u' => hu e.symm)]
          rcases hp u' v' w' he with h1 | h1 | ⟨h1, h2⟩
          · left; rw [hu']; exact Rat.le_trans hv' h1
          · right; left; exact List.mem_append_left _ h1
          · rcases List.mem_cons.1 h2 with h3 | h3
            · left
              cases h3
              rw [hu', h1, get_assign]; simp
            · right; right; exact ⟨h1, h3⟩
    · rename_i hnlt
      refine ih _ _ _ _ ?_ h
      intro u' v' w' he
      rcases hp u' v' w' he with h1 | h1 | ⟨h1, h2⟩
      · left; exact h1
      · right; left; exact h1
      · rcases List.mem_cons.1 h2 with h3 | h3
        · left; cases h3; rw [h1]; exact Rat.not_lt.1 hnlt
        · right; right; exact ⟨h1, h3⟩

theorem loop_feas (cs : Cons Ev) (y : Ev) (b : Rat) :
    ∀ (fuel : Nat) (d : Dist Ev) (q : List Ev) (d' : Dist Ev),
      (∀ u v w, (v, w) ∈ nbrs cs u → get d v ≤ get d u + w ∨ u ∈ q) →
      loop cs y b fuel d q = .ok d' →
      ∀ u v w, (v, w) ∈ nbrs cs u → get d' v ≤ get d' u + w := by
  intro fuel
  induction fuel with
  | zero =>
    intro d q d' hp h
    cases q with
    | nil =>
      simp only [loop] at h; cases h
      intro u v w he; rcases hp u v w he with h1 | h1
      · exact h1
      · cases h1
    | cons c q => simp [loop] at h
  | succ n ih =>
    intro d q d' hp h
    cases q with
    | nil =>
      simp only [loop] at h; cases h
      intro u v w he; rcases hp u v w he with h1 | h1
      · exact h1
      · cases h1
    | cons c q =>
      simp only [loop] at h
      split at h
      · rename_i d1 q1 hrel
        have hpend : Pending cs d q c (nbrs cs c) := by
          intro u v w he
          rcases hp u v w he with h1 | h1
          · left; exact h1
          · rcases List.mem_cons.1 h1 with h2 | h2
            · right; right; subst h2; exact ⟨rfl, he⟩
            · right; left; exact h2
        have h2 := relax_feas cs y b c _ _ _ _ _ hpend hrel
        refine ih _ _ _ ?_ h
        intro u v w he
        rcases h2 u v w he with h3 | h3 | ⟨_, h3⟩
        · left; exact h3
        · right; exact h3
        · cases h3
      · cases h

/-! ### C — a solution rules out `return False` -/

theorem relax_no_neg (p : Ev → Rat) (y : Ev) (b : Rat) (c : Ev) (all : Nbrs Ev)
    (hsol : ∀ v w, (v, w) ∈ all → p v ≤ p c + w) :
    ∀ (ns : Nbrs Ev) (d : Dist Ev) (q : List Ev),
      (∀ e ∈ ns, e ∈ all) →
      (∀ v ∈ q, p v - get d v ≤ p y - get d y) → p c - get d c ≤ p y - get d y →
      (∀ d', relax y b c ns d q ≠ .neg d') ∧
      (∀ d' q', relax y b c ns d q = .ok d' q' → ∀ v ∈ q', p v - get d' v ≤ p y - get d' y) := by
  intro ns
  induction ns with
  | nil =>
    intro d q _ hq _
    refine ⟨by simp [relax], ?_⟩
    intro d' q' h; simp only [relax] at h; cases h; exact hq
  | cons e r ih =>
    obtain ⟨v, w⟩ := e
    intro d q hsub hq hc
    have hr : ∀ e ∈ r, e ∈ all := fun e he => hsub e (List.mem_cons_of_mem _ he)
    have hvw : p v ≤ p c + w := hsol v w (hsub _ (List.mem_cons_self ..))
    by_cases hlt : get d c + w < get d v
    · have hvy : ¬ v = y := by
        intro e; subst e; grind
      have hny : get (assign v (get d c + w) d) y = get d y := by
        rw [get_assign]; simp [hvy]
      have hrel : relax y b c ((v, w) :: r) d q
          = relax y b c r (assign v (get d c + w) d) (q ++ [v]) := by
        simp only [relax, if_pos hlt, if_neg (fun h : v = y ∧ w = b => hvy h.1)]
      rw [hrel]
      apply ih _ _ hr
      · intro u hu
        rw [hny, get_assign]
        rcases List.mem_append.1 hu with h1 | h1
        · split
          · rename_i e; subst e; grind
          · exact hq u h1
        · simp at h1; subst h1; simp; grind
      · rw [hny, get_assign]
        split
        · grind
        · exact hc
    · have hrel : relax y b c ((v, w) :: r) d q = relax y b c r d q := by
        simp only [relax, if_neg hlt]
      rw [hrel]
      exact ih _ _ hr hq hc

theorem loop_no_neg (p : Ev → Rat) (cs : Cons Ev) (y : Ev) (b : Rat)
    (hsol : ∀ u v w, (v, w) ∈ nbrs cs u → p v ≤ p u + w) :
    ∀ (fuel : Nat) (d : Dist Ev) (q : List Ev) (d' : Dist Ev),
      (∀ v ∈ q, p v - get d v ≤ p y - get d y) → loop cs y b fuel d q ≠ .neg d' := by
  intro fuel
  induction fuel with
  | zero => intro d q d' _; cases q <;> simp [loop]
  | succ n ih =>
    intro d q d' hq
    cases q with
    | nil => simp [loop]
    | cons c q =>
      simp only [loop]
      have h := relax_no_neg p y b c (nbrs cs c) (hsol c) (nbrs cs c) d q (fun _ h => h)
        (fun v hv => hq v (List.mem_cons_of_mem _ hv)) (hq c (List.mem_cons_self ..))
      split
      · rename_i d1 q1 hrel
        exact ih _ _ _ (h.2 _ _ hrel)
      · rename_i d1 hrel
        exact (h.1 _ hrel).elim

/-! ### `_inc_check` -/

theorem incCheck_feas (fuel : Nat) (cs : Cons Ev) (d d' : Dist Ev) (x y : Ev) (b : Rat)
    (hold : ∀ u v w, (v, w) ∈ nbrs cs u → (u = x ∧ v = y ∧ w = b) ∨ get d v ≤ get d u + w)
    (h : incCheck fuel cs d x y b = .ok d') :
    ∀ u v w, (v, w) ∈ nbrs cs u → get d' v ≤ get d' u + w := by
  unfold incCheck at h
  simp only at h
  split at h
  · rename_i hlt
    refine loop_feas cs y b fuel _ _ _ ?_ h
    intro u v w he
    by_cases huy : u = y
    · right; simp [huy]
    · left
      have hu : get (assign y (get d x + b) d) u = get d u := by
        rw [get_assign, if_neg (fun e : y = u => huy e.symm)]
      rw [hu]
      rcases hold u v w he with ⟨h1, h2, h3⟩ | h1
      · subst h1; subst h2; subst h3
        rw [get_assign]; simp
      · rw [get_assign]; split
        · rename_i e; subst e; grind
        · exact h1
  · rename_i hnlt
    cases h
    intro u v w he
    rcases hold u v w he with ⟨h1, h2, h3⟩ | h1
    · subst h1; subst h2; subst h3; exact Rat.not_lt.1 hnlt
    · exact h1

theorem incCheck_pres (Q : Dist Ev → Prop) (fuel : Nat) (cs : Cons Ev) (d d' : Dist Ev) (x y : Ev) (b : Rat)
    (hstep : ∀ c d v w, (v, w) ∈ nbrs cs c → Q d → get d c + w < get d v → Q (assign v (get d c + w) d))
    (hnew : (y, b) ∈ nbrs cs x) (hq : Q d)
    (h : incCheck fuel cs d x y b = .ok d') : Q d' := by
  unfold incCheck at h
  simp only at h
  split at h
  · rename_i hlt
    exact loop_pres Q cs y b hstep fuel _ _ _ (hstep x d y b hnew hq hlt) h
  · cases h; exact hq

theorem incCheck_no_neg (p : Ev → Rat) (fuel : Nat) (cs : Cons Ev) (d d' : Dist Ev) (x y : Ev) (b : Rat)
    (hsol : ∀ u v w, (v, w) ∈ nbrs cs u → p v ≤ p u + w) :
    incCheck fuel cs d x y b ≠ .neg d' := by
  unfold incCheck
  simp only
  split
  · exact loop_no_neg p cs y b hsol fuel _ _ _ (by intro v hv; simp at hv; subst hv; exact Rat.le_refl)
  · simp

/-! ### the invariant of `add` -/

/-- potentials `p = -t`: `p` satisfies every inserted constraint -/
def Pot (p : Ev → Rat) (ins : List (Con Ev)) : Prop := ∀ c ∈ ins, p c.y ≤ p c.x + c.b

omit [DecidableEq Ev] in
theorem Pot_append_left {p : Ev → Rat} {l1 l2 : List (Con Ev)} (h : Pot p (l1 ++ l2)) : Pot p l1 :=
  fun c hc => h c (List.mem_append_left _ hc)

/-- what is known about a network that has received exactly the insertions `ins` -/
structure Inv (s : Net Ev) (ins : List (Con Ev)) : Prop where
  /-- every stored edge is an inserted constraint -/
  edge_ins : ∀ u v w, (v, w) ∈ nbrs s.cons u → ∃ c ∈ ins, c.x = u ∧ c.y = v ∧ c.b = w
  /-- while sat: every inserted constraint is stored or subsumed by a stored, tighter one -/
  ins_edge : s.sat = true → ∀ c ∈ ins, ∃ w, w ≤ c.b ∧ (c.y, w) ∈ nbrs s.cons c.x
  /-- while sat: the distances are a feasible potential for the stored edges -/
  feas : s.sat = true → ∀ u v w, (v, w) ∈ nbrs s.cons u → get s.dist v ≤ get s.dist u + w
  nonpos : s.sat = true → ∀ v, get s.dist v ≤ 0
  /-- while sat: the distances dominate every non-positive potential solving the insertions -/
  least : s.sat = true → ∀ p, Pot p ins → (∀ v, p v ≤ 0) → ∀ v, p v ≤ get s.dist v
  /-- once unsat: the insertions have no solution -/
  unsat : s.sat = false → ∀ p, ¬ Pot p ins

theorem inv_empty : Inv (empty : Net Ev) [] := by
  constructor <;> simp [empty, nbrs, get, lookup, Pot]

theorem isSubsumed_spec (c : Cons Ev) (x y : Ev) (b : Rat) (h : isSubsumed c x y b = true) :
    ∃ w, w ≤ b ∧ (y, w) ∈ nbrs c x := by
  unfold isSubsumed at h
  split at h
  · rename_i w hw
    exact ⟨w, by simpa using h, firstBound_mem _ _ _ hw⟩
  · cases h

theorem add_inv (fuel : Nat) (s s' : Net Ev) (ins : List (Con Ev)) (x y : Ev) (b : Rat)
    (hinv : Inv s ins) (h : add fuel s x y b = some s') : Inv s' (ins ++ [⟨x, y, b⟩]) := by
  unfold add at h
  cases hsat : s.sat with
  | false =>
    simp only [hsat] at h
    cases h
    exact {
      edge_ins := fun u v w he => by
        obtain ⟨c, hc, hh⟩ := hinv.edge_ins u v w he
        exact ⟨c, List.mem_append_left _ hc, hh⟩
      ins_edge := fun hs => by rw [hsat] at hs; cases hs
      feas := fun hs => by rw [hsat] at hs; cases hs
      nonpos := fun hs => by rw [hsat] at hs; cases hs
      least := fun hs => by rw [hsat] at hs; cases hs
      unsat := fun _ p hp => hinv.unsat hsat p (Pot_append_left hp) }
  | true =>
    simp only [hsat, if_true] at h
    have hd1 : ∀ u, get (setDefault y 0 (setDefault x 0 s.dist)) u = get s.dist u := by
      intro u; rw [get_setDefault, get_setDefault]
    split at h
    · -- subsumed
      rename_i hsub
      cases h
      obtain ⟨w0, hw0, hmem0⟩ := isSubsumed_spec _ _ _ _ hsub
      rw [nbrs_setDefault] at hmem0
      exact {
        edge_ins := fun u v w he => by
          simp only [nbrs_setDefault] at he
          obtain ⟨c, hc, hh⟩ := hinv.edge_ins u v w he
          exact ⟨c, List.mem_append_left _ hc, hh⟩
        ins_edge := fun _ c hc => by
          simp only [nbrs_setDefault]
          rcases List.mem_append.1 hc with h1 | h1
          · exact hinv.ins_edge hsat c h1
          · simp at h1; subst h1; exact ⟨w0, hw0, hmem0⟩
        feas := fun _ u v w he => by
          simp only [nbrs_setDefault] at he
          simp only [hd1]
          exact hinv.feas hsat u v w he
        nonpos := fun _ v => by simp only [hd1]; exact hinv.nonpos hsat v
        least := fun _ p hp hneg v => by
          simp only [hd1]; exact hinv.least hsat p (Pot_append_left hp) hneg v
        unsat := fun hs => by simp at hs }
    · -- a new edge is stored and propagated
      rename_i hnsub
      have hE : ∀ u v w, (v, w) ∈ nbrs (assign x ((y, b) :: nbrs s.cons x) (setDefault y [] s.cons)) u ↔
          ((u = x ∧ v = y ∧ w = b) ∨ (v, w) ∈ nbrs s.cons u) := by
        intro u v w
        rw [nbrs_assign, nbrs_setDefault]
        split
        · rename_i e; subst e
          simp only [List.mem_cons, Prod.mk.injEq, true_and]
        · rename_i e
          constructor
          · intro h1; exact Or.inr h1
          · rintro (⟨h1, _⟩ | h1)
            · exact (e h1.symm).elim
            · exact h1
      have hedge : ∀ u v w, (v, w) ∈ nbrs (assign x ((y, b) :: nbrs s.cons x) (setDefault y [] s.cons)) u →
          ∃ c ∈ ins ++ [(⟨x, y, b⟩ : Con Ev)], c.x = u ∧ c.y = v ∧ c.b = w := by
        intro u v w he
        rcases (hE u v w).1 he with ⟨h1, h2, h3⟩ | h1
        · exact ⟨⟨x, y, b⟩, by simp, h1.symm, h2.symm, h3.symm⟩
        · obtain ⟨c, hc, hh⟩ := hinv.edge_ins u v w h1
          exact ⟨c, List.mem_append_left _ hc, hh⟩
      have hsolE : ∀ p, Pot p (ins ++ [(⟨x, y, b⟩ : Con Ev)]) → ∀ u v w,
          (v, w) ∈ nbrs (assign x ((y, b) :: nbrs s.cons x) (setDefault y [] s.cons)) u → p v ≤ p u + w := by
        intro p hp u v w he
        obtain ⟨c, hc, h1, h2, h3⟩ := hedge u v w he
        have := hp c hc
        rw [h1, h2, h3] at this; exact this
      split at h
      · -- _inc_check returned True
        rename_i d hres
        cases h
        exact {
          edge_ins := hedge
          ins_edge := fun _ c hc => by
            rcases List.mem_append.1 hc with h1 | h1
            · obtain ⟨w, hw, hm⟩ := hinv.ins_edge hsat c h1
              exact ⟨w, hw, (hE _ _ _).2 (Or.inr hm)⟩
            · simp at h1; subst h1
              exact ⟨b, Rat.le_refl, (hE _ _ _).2 (Or.inl ⟨rfl, rfl, rfl⟩)⟩
          feas := fun _ => by
            refine incCheck_feas fuel _ _ _ x y b ?_ hres
            intro u v w he
            rcases (hE u v w).1 he with h1 | h1
            · exact Or.inl h1
            · right; simp only [hd1]; exact hinv.feas hsat u v w h1
          nonpos := fun _ => by
            refine incCheck_pres (fun d => ∀ v, get d v ≤ 0) fuel _ _ _ x y b ?_
              ((hE _ _ _).2 (Or.inl ⟨rfl, rfl, rfl⟩)) ?_ hres
            · intro c d0 v w _ hq hlt u
              rw [get_assign]; split
              · have := hq v; grind
              · exact hq u
            · intro v; simp only [hd1]; exact hinv.nonpos hsat v
          least := fun _ p hp hneg => by
            refine incCheck_pres (fun d => ∀ v, p v ≤ get d v) fuel _ _ _ x y b ?_
              ((hE _ _ _).2 (Or.inl ⟨rfl, rfl, rfl⟩)) ?_ hres
            · intro c d0 v w he hq hlt u
              rw [get_assign]; split
              · rename_i e; subst e
                have h1 := hsolE p hp c v w he
                have h2 := hq c
                grind
              · exact hq u
            · intro v; simp only [hd1]; exact hinv.least hsat p (Pot_append_left hp) hneg v
          unsat := fun hs => by simp at hs }
      · -- _inc_check returned False
        rename_i d hres
        cases h
        exact {
          edge_ins := hedge
          ins_edge := fun hs => by simp at hs
          feas := fun hs => by simp at hs
          nonpos := fun hs => by simp at hs
          least := fun hs => by simp at hs
          unsat := fun _ p hp => incCheck_no_neg p fuel _ _ d x y b (hsolE p hp) hres }
      · cases h

theorem addAll_inv (fuel : Nat) : ∀ (cs : List (Con Ev)) (s s' : Net Ev) (ins : List (Con Ev)),
    Inv s ins → addAll fuel s cs = some s' → Inv s' (ins ++ cs) := by
  intro cs
  induction cs with
  | nil => intro s s' ins hinv h; simp only [addAll] at h; cases h; simpa using hinv
  | cons c r ih =>
    intro s s' ins hinv h
    simp only [addAll] at h
    split at h
    · rename_i s1 h1
      have := ih s1 s' (ins ++ [c]) (add_inv fuel s s1 ins c.x c.y c.b hinv h1) h
      simpa using this
    · cases h

/-! ### keys: every inserted event has a distance while the network is consistent -/

def HasKey (d : Dist Ev) (v : Ev) : Prop := (lookup v d).isSome = true

theorem hasKey_assign (d : Dist Ev) (v u : Ev) (r : Rat) (h : HasKey d u) : HasKey (assign v r d) u := by
  unfold HasKey at *; rw [lookup_assign]; split <;> simp [h]

theorem hasKey_assign_self (d : Dist Ev) (v : Ev) (r : Rat) : HasKey (assign v r d) v := by
  unfold HasKey; rw [lookup_assign]; simp

theorem hasKey_setDefault (d : Dist Ev) (v u : Ev) (r : Rat) (h : HasKey d u) : HasKey (setDefault v r d) u := by
  unfold setDefault; split
  · exact h
  · exact hasKey_assign _ _ _ _ h

theorem hasKey_setDefault_self (d : Dist Ev) (v : Ev) (r : Rat) : HasKey (setDefault v r d) v := by
  unfold setDefault; split
  · rename_i h; unfold HasKey; rw [h]; rfl
  · exact hasKey_assign_self _ _ _

theorem add_keys (fuel : Nat) (s s' : Net Ev) (x y : Ev) (b : Rat) (K : Ev → Prop)
    (hk : s.sat = true → ∀ v, K v → HasKey s.dist v) (h : add fuel s x y b = some s') :
    s'.sat = true → ∀ v, (K v ∨ v = x ∨ v = y) → HasKey s'.dist v := by
  unfold add at h
  cases hsat : s.sat with
  | false => simp only [hsat] at h; cases h; intro hs; rw [hsat] at hs; cases hs
  | true =>
    simp only [hsat, if_true] at h
    have hd1 : ∀ v, (K v ∨ v = x ∨ v = y) → HasKey (setDefault y 0 (setDefault x 0 s.dist)) v := by
      intro v hv
      rcases hv with h1 | h1 | h1
      · exact hasKey_setDefault _ _ _ _ (hasKey_setDefault _ _ _ _ (hk hsat v h1))
      · subst h1; exact hasKey_setDefault _ _ _ _ (hasKey_setDefault_self _ _ _)
      · subst h1; exact hasKey_setDefault_self _ _ _
    split at h
    · cases h; intro _; exact hd1
    · split at h
      · rename_i d hres
        cases h
        intro _ v hv
        unfold incCheck at hres
        simp only at hres
        split at hres
        · exact loop_pres (fun d => HasKey d v) _ y b (fun _ _ _ _ _ hq _ => hasKey_assign _ _ _ _ hq)
            fuel _ _ _ (hasKey_assign _ _ _ _ (hd1 v hv)) hres
        · cases hres; exact hd1 v hv
      · cases h; intro hs; simp at hs
      · cases h

theorem addAll_keys (fuel : Nat) : ∀ (cs : List (Con Ev)) (s s' : Net Ev) (K : Ev → Prop),
    (s.sat = true → ∀ v, K v → HasKey s.dist v) → addAll fuel s cs = some s' →
    s'.sat = true → ∀ v, (K v ∨ v ∈ events cs) → HasKey s'.dist v := by
  intro cs
  induction cs with
  | nil =>
    intro s s' K hk h hs v hv
    simp only [addAll] at h; cases h
    rcases hv with h1 | h1
    · exact hk hs v h1
    · simp [events] at h1
  | cons c r ih =>
    intro s s' K hk h hs v hv
    simp only [addAll] at h
    split at h
    · rename_i s1 h1
      refine ih s1 s' (fun v => K v ∨ v = c.x ∨ v = c.y) (add_keys fuel s s1 c.x c.y c.b K hk h1) h hs v ?_
      rcases hv with h2 | h2
      · exact Or.inl (Or.inl h2)
      · simp only [events, List.flatMap_cons, List.mem_append, List.mem_cons, List.not_mem_nil, or_false] at h2
        rcases h2 with (h3 | h3) | h3
        · exact Or.inl (Or.inr (Or.inl h3))
        · exact Or.inl (Or.inr (Or.inr h3))
        · exact Or.inr h3
    · cases h

/-! ### fuel is irrelevant for runs that return -/

theorem loop_fuel_mono (cs : Cons Ev) (y : Ev) (b : Rat) :
    ∀ (fuel : Nat) (d : Dist Ev) (q : List Ev) (k : Nat),
      loop cs y b fuel d q ≠ .fuel → loop cs y b (fuel + k) d q = loop cs y b fuel d q := by
  intro fuel
  induction fuel with
  | zero =>
    intro d q k h
    cases q with
    | nil => cases k <;> simp [loop]
    | cons c q => simp [loop] at h
  | succ n ih =>
    intro d q k h
    cases q with
    | nil => simp [loop]
    | cons c q =>
      have e : n + 1 + k = (n + k) + 1 := by omega
      rw [e]
      simp only [loop] at h ⊢
      split
      · rename_i d1 q1 hrel
        rw [hrel] at h
        exact ih _ _ _ h
      · rfl

theorem incCheck_fuel_mono (fuel k : Nat) (cs : Cons Ev) (d : Dist Ev) (x y : Ev) (b : Rat)
    (hne : incCheck fuel cs d x y b ≠ .fuel) :
    incCheck (fuel + k) cs d x y b = incCheck fuel cs d x y b := by
  unfold incCheck at hne ⊢
  simp only at hne ⊢
  split
  · rename_i hlt
    rw [if_pos hlt] at hne
    exact loop_fuel_mono _ _ _ _ _ _ _ hne
  · rfl

theorem add_fuel_mono (fuel k : Nat) (s s' : Net Ev) (x y : Ev) (b : Rat)
    (h : add fuel s x y b = some s') : add (fuel + k) s x y b = some s' := by
  unfold add at h ⊢
  cases hsat : s.sat with
  | false => simp only [hsat] at h ⊢; exact h
  | true =>
    simp only [hsat, if_true] at h ⊢
    by_cases hsub : isSubsumed (setDefault y [] s.cons) x y b = true
    · simp only [hsub, if_true] at h ⊢; exact h
    · simp only [hsub] at h ⊢
      have hne : incCheck fuel (assign x ((y, b) :: nbrs s.cons x) (setDefault y [] s.cons))
          (setDefault y 0 (setDefault x 0 s.dist)) x y b ≠ .fuel := by
        intro e; rw [e] at h; simp at h
      rw [incCheck_fuel_mono fuel k _ _ _ _ _ hne]; exact h

theorem addAll_fuel_mono (fuel k : Nat) : ∀ (cs : List (Con Ev)) (s s' : Net Ev),
    addAll fuel s cs = some s' → addAll (fuel + k) s cs = some s' := by
  intro cs
  induction cs with
  | nil => intro s s' h; simpa [addAll] using h
  | cons c r ih =>
    intro s s' h
    simp only [addAll] at h ⊢
    split at h
    · rename_i s1 h1
      rw [add_fuel_mono fuel k s s1 c.x c.y c.b h1]
      exact ih s1 s' h
    · cases h

/-! ### histories with copies -/

omit [DecidableEq Ev] in
theorem copy_eq (s : Net Ev) : copy s = s := by cases s; rfl

theorem addAll_snoc (fuel : Nat) : ∀ (l : List (Con Ev)) (s s1 s2 : Net Ev) (c : Con Ev),
    addAll fuel s l = some s1 → add fuel s1 c.x c.y c.b = some s2 → addAll fuel s (l ++ [c]) = some s2 := by
  intro l
  induction l with
  | nil => intro s s1 s2 c h1 h2; simp only [addAll] at h1; cases h1; simp [addAll, h2]
  | cons a r ih =>
    intro s s1 s2 c h1 h2
    simp only [addAll, List.cons_append] at h1 ⊢
    split at h1
    · exact ih _ _ _ _ h1 h2
    · cases h1

/-- every live network is the fresh network fed with its own lineage -/
def Lineage (fuel : Nat) (nets : List (Net Ev)) (lines : List (List (Con Ev))) : Prop :=
  nets.length = lines.length ∧
  ∀ (j : Nat) s l, nets[j]? = some s → lines[j]? = some l → addAll fuel empty l = some s

theorem step_lineage (fuel : Nat) (nets nets' : List (Net Ev)) (lines : List (List (Con Ev))) (o : Op Ev)
    (hl : Lineage fuel nets lines) (h : step fuel nets o = some nets') :
    Lineage fuel nets' (stepLines lines o) := by
  obtain ⟨hlen, hall⟩ := hl
  cases o with
  | add i c =>
    simp only [step] at h
    split at h
    · rename_i s hs
      split at h
      · rename_i s1 h1
        cases h
        have hi : i < nets.length := by
          rcases Nat.lt_or_ge i nets.length with h2 | h2
          · exact h2
          · rw [List.getElem?_eq_none h2] at hs; cases hs
        have hil : i < lines.length := hlen ▸ hi
        have hli : lines[i]? = some lines[i] := List.getElem?_eq_getElem hil
        simp only [stepLines, hli]
        refine ⟨by simp [hlen], ?_⟩
        intro j s2 l2 hj hlj
        by_cases hij : i = j
        · subst hij
          rw [List.getElem?_set_self hi] at hj
          rw [List.getElem?_set_self hil] at hlj
          cases hj; cases hlj
          exact addAll_snoc fuel _ _ _ _ _ (hall i s _ hs hli) h1
        · rw [List.getElem?_set_ne hij] at hj
          rw [List.getElem?_set_ne hij] at hlj
          exact hall j s2 l2 hj hlj
      · cases h
    · cases h
  | copy i =>
    simp only [step] at h
    split at h
    · rename_i s hs
      cases h
      have hi : i < nets.length := by
        rcases Nat.lt_or_ge i nets.length with h2 | h2
        · exact h2
        · rw [List.getElem?_eq_none h2] at hs; cases hs
      have hil : i < lines.length := hlen ▸ hi
      have hli : lines[i]? = some lines[i] := List.getElem?_eq_getElem hil
      simp only [stepLines, hli]
      refine ⟨by simp [hlen], ?_⟩
      intro j s2 l2 hj hlj
      rcases Nat.lt_or_ge j nets.length with hjl | hjl
      · rw [List.getElem?_append_left hjl] at hj
        rw [List.getElem?_append_left (hlen ▸ hjl)] at hlj
        exact hall j s2 l2 hj hlj
      · rw [List.getElem?_append_right hjl] at hj
        rw [List.getElem?_append_right (hlen ▸ hjl)] at hlj
        rw [hlen] at hj
        cases hk : j - lines.length with
        | zero =>
          rw [hk] at hj hlj
          simp at hj hlj
          subst hj; subst hlj
          rw [copy_eq]
          exact hall i s _ hs hli
        | succ m => rw [hk] at hj; simp at hj
    · cases h

theorem run_lineage (fuel : Nat) : ∀ (ops : List (Op Ev)) (nets nets' : List (Net Ev)) (lines : List (List (Con Ev))),
    Lineage fuel nets lines → run fuel nets ops = some nets' → Lineage fuel nets' (runLines lines ops) := by
  intro ops
  induction ops with
  | nil => intro nets nets' lines hl h; simp only [run] at h; cases h; simpa [runLines] using hl
  | cons o r ih =>
    intro nets nets' lines hl h
    simp only [run] at h
    split at h
    · rename_i n1 h1
      have := ih n1 nets' (stepLines lines o) (step_lineage fuel nets n1 lines o hl h1) h
      simpa [runLines] using this
    · cases h

theorem lineage_init (fuel : Nat) : Lineage fuel [(empty : Net Ev)] [[]] := by
  refine ⟨rfl, ?_⟩
  intro j s l hj hlj
  cases j with
  | zero => simp at hj hlj; subst hj; subst hlj; rfl
  | succ n => simp at hj

end UPVerif.STN
