import UPVerif.Lemmas.WellFormedModel
import UPVerif.Lemmas.DeclaredLemmas
/-!
Helper lemmas for `Props/C08Models.lean`, part 13: the link to the clause "every referenced fluent, object and type
is declared" as `Props/C08.lean` states it (`Declared.declared`, `C08_references_declared_full`): every expression
of a well-formed problem is `declared` in the problem's declarations.  No Mathlib.
-/
namespace UPVerif.WF
open UPVerif UPVerif.Expr UPVerif.Declared UPVerif.Compile

/-- all expressions of a problem: preconditions, the three expressions of every effect, goals, trajectory
    constraints, both sides of the explicit initial values, default initial values -/
def problemExprs (P : Problem) : List Expr :=
  P.actions.flatMap (fun a => a.pre ++ a.effs.flatMap (fun e => [e.fluent, e.value, e.cond])) ++
  P.goals ++ P.traj ++ P.init.flatMap (fun kv => [kv.1, kv.2]) ++
  P.fluents.filterMap (fun d => d.default)

mutual
theorem declared_of_wfExpr {D : Decls} {ps : List (String × Ty)} (hobj : ∀ o ∈ D.objects, o.2 ∈ D.types)
    (hps : ∀ p ∈ ps, tyDeclared D p.2 = true) : ∀ e, wfExpr D ps e = true → declared D e = true
  | .leaf l, h => by
    unfold wfExpr at h
    rw [holds_leaf] at h
    rw [declared]
    cases l with
    | obj n t =>
      have hm : (n, t) ∈ D.objects := List.contains_iff_mem.1 h
      simp only [leafDeclared, Bool.and_eq_true, List.contains_iff_mem]
      exact ⟨hm, hobj _ hm⟩
    | param n ty => exact hps (n, ty) (List.contains_iff_mem.1 h)
    | var v => exact h
    | boolC b => rfl
    | intC z => rfl
    | realC r => rfl
    | timing s => rfl
    | present s => rfl
  | .app op args, h => by
    unfold wfExpr at h
    rw [holds_app] at h
    rw [declared, Bool.and_eq_true]
    refine ⟨?_, declaredList_of_wf hobj hps args h.2⟩
    cases op with
    | fluent f =>
      have : (D.fluents.contains f && (args.length == f.sig.length)) = true := h.1
      rw [Bool.and_eq_true] at this
      exact this.1
    | _ => rfl
  | .quant q vs b, h => by
    unfold wfExpr at h
    rw [holds_quant] at h
    rw [declared, Bool.and_eq_true]
    exact ⟨h.1, declared_of_wfExpr hobj hps b h.2⟩
theorem declaredList_of_wf {D : Decls} {ps : List (String × Ty)} (hobj : ∀ o ∈ D.objects, o.2 ∈ D.types)
    (hps : ∀ p ∈ ps, tyDeclared D p.2 = true) : ∀ es, (∀ e ∈ es, holds (wfNode D ps) e = true) →
    declaredList D es = true
  | [], _ => by rw [declaredList]
  | e :: es, h => by
    rw [declaredList, Bool.and_eq_true]
    exact ⟨declared_of_wfExpr hobj hps e (h e (by simp)),
      declaredList_of_wf hobj hps es (fun x hx => h x (List.mem_cons_of_mem _ hx))⟩
end

/-- every expression of a well-formed problem only mentions declared fluents, objects and types -/
theorem wellFormed_declared {P : Problem} (hP : WellFormed P) :
    ∀ e ∈ problemExprs P, declared (declsOf P) e = true := by
  intro e he
  have hobj : ∀ o ∈ (declsOf P).objects, o.2 ∈ (declsOf P).types := hP.objects
  have hclosed : ∀ x, wfExpr (declsOf P) [] x = true → declared (declsOf P) x = true :=
    declared_of_wfExpr hobj (fun p hp => by cases hp)
  unfold problemExprs at he
  simp only [List.mem_append, List.mem_flatMap, List.mem_filterMap] at he
  rcases he with (((⟨a, ha, hea⟩ | hg) | ht) | ⟨kv, hkv, hek⟩) | ⟨d, hd, hed⟩
  · have hwa := (wfAction_iff _ _).1 (hP.actions a ha)
    have hparams : ∀ x, wfExpr (declsOf P) a.params x = true → declared (declsOf P) x = true :=
      declared_of_wfExpr hobj hwa.1
    rcases hea with hpre | ⟨eff, heffm, hex⟩
    · exact hparams e (hwa.2.1 e hpre)
    · have hwe := (wfEffect_iff _ _ _).1 (hwa.2.2 eff heffm)
      simp only [List.mem_cons, List.not_mem_nil, or_false] at hex
      rcases hex with rfl | rfl | rfl
      · exact hparams _ hwe.2.1
      · exact hparams _ hwe.2.2.1
      · exact hparams _ hwe.2.2.2
  · exact hclosed e (hP.goals e hg)
  · exact hclosed e (hP.traj e ht)
  · simp only [List.mem_cons, List.not_mem_nil, or_false] at hek
    rcases hek with rfl | rfl
    · exact hclosed _ (hP.init kv hkv).1
    · exact hclosed _ (hP.init kv hkv).2
  · have hw := hP.fluents d hd
    unfold wfFluentDecl at hw
    rw [hed] at hw
    simp only [Bool.and_eq_true] at hw
    exact hclosed e hw.2

end UPVerif.WF
