import UPVerif.Core.FromPddl
/-!
DEFINITIONS ONLY — the decidable side conditions of the C21 theorems (this file is part of the statement of
`Props/C21.lean`; the proofs are in the other `Lemmas/FromPddl*.lean` files).

The two readers are NOT equivalent on every text both accept, because of three behaviours of the external `pddl`
package (findings D-C21a, D-C21b, D-C21c).  The predicates below exclude exactly those causes, on the token trees:

* `fexpOK`   — in a numeric expression no operator node loses an operand when the package drops repeated operands of
               `+`, `*`, `/` (after splicing nested nodes of the same operator): D-C21a;
* `gdOK`     — in a condition: `fexpOK` for the numeric expressions; no two variables of one quantifier share a name;
               every atom is a predicate (a Boolean fluent) — a text that uses a numeric function as an atom is ill typed
               and both REAL readers reject it (the models do not model the type checker);
* `effOK`    — in an effect: `gdOK` / `fexpOK` below, and no conjunction of effects loses a conjunct (D-C21c);
* an empty precondition `()` (D-C21b) is excluded in `Props/C21.lean` directly.
-/
namespace UPVerif.FromPddl
open UPVerif UPVerif.Pddl

/-- not a node of class `k` -/
def notOp (k : OpK) : Form → Bool
  | .op k' _ => k' != k
  | _ => true

/-- a node of class `k` has at least two operands, none of them of class `k` (what `mkOp` builds) -/
def wfK (k : OpK) : Form → Bool
  | .op k' χs => k' != k || (decide (2 ≤ χs.length) && χs.all (notOp k))
  | _ => true

mutual
/-- no operand of `+`, `*`, `/` is dropped by the external parser -/
def fexpOK (C : PCtx) : Sexp → Bool
  | .atom _ => true
  | .list xs => fexpOKL C xs
def fexpOKL (C : PCtx) : List Sexp → Bool
  | [] => true
  | .list _ :: _ => true
  | .atom h :: rest =>
    if h == "-" then fexpOKs C rest
    else
      match arithOp? h with
      | some k =>
        fexpOKs C rest && (match astFexps C rest with
          | some φs => decide ((flatList k φs).Nodup)
          | none => true)
      | none => true
def fexpOKs (C : PCtx) : List Sexp → Bool
  | [] => true
  | x :: xs => fexpOK C x && fexpOKs C xs
end

/-- names of the variables declared by a typed `?`-list are pairwise different -/
def varsNodup (vl : List Sexp) : Bool :=
  match astVars vl with
  | some vs => decide ((vs.map (·.name)).Nodup)
  | none => true

mutual
/-- side conditions on a condition (see the header); `fl` = the fluents of the problem -/
def gdOK (fl : List FluentRef) (C : PCtx) : Sexp → Bool
  | .atom _ => true
  | .list xs => gdOKL fl C xs
def gdOKL (fl : List FluentRef) (C : PCtx) : List Sexp → Bool
  | [] => true
  | .list _ :: _ => true
  | .atom h :: rest =>
    if h == "and" || h == "or" || h == "not" || h == "imply" then gdOKs fl C rest
    else if h == "exists" || h == "forall" then
      match rest with
      | [.list vl, body] => varsNodup vl && gdOK fl C body
      | _ => true
    else
      match cmpOp? h with
      | some _ => fexpOKs C rest
      | none =>
        match fl.find? (fun f => f.name == h) with
        | some f => f.ty == .bool
        | none => true
def gdOKs (fl : List FluentRef) (C : PCtx) : List Sexp → Bool
  | [] => true
  | x :: xs => gdOK fl C x && gdOKs fl C xs
end

end UPVerif.FromPddl
