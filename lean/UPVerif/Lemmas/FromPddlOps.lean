import UPVerif.Lemmas.FromPddlConv
/-!
Helper lemmas for C21, converter side (continued): the relation between the manager's constructor applied to the converted
operands and the conversion of the package's (simplified) operator node, for `And`, `Or` (any operands), `Plus`, `Times`,
`Divide` (operands that the parser does not collapse: finding D-C21a) and the unary minus.
-/
namespace UPVerif.FromPddl
open UPVerif UPVerif.Expr UPVerif.Pddl

theorem cmon_bor : CMon (fun a b : Bool => a || b) false where
  assoc := by intro a b c; cases a <;> cases b <;> cases c <;> rfl
  comm := by intro a b; cases a <;> cases b <;> rfl
  unit := by intro a; rfl
theorem cmon_band : CMon (fun a b : Bool => a && b) true where
  assoc := by intro a b c; cases a <;> cases b <;> cases c <;> rfl
  comm := by intro a b; cases a <;> cases b <;> rfl
  unit := by intro a; rfl

theorem foldO_bor_eq_true {α : Type} (g : α → Bool) : ∀ l : List α,
    foldO (fun a b : Bool => a || b) false (l.map g) = true ↔ ∃ x ∈ l, g x = true
  | [] => by simp
  | x :: l => by simp [foldO_bor_eq_true g l]

theorem foldO_band_eq_true {α : Type} (g : α → Bool) : ∀ l : List α,
    foldO (fun a b : Bool => a && b) true (l.map g) = true ↔ ∀ x ∈ l, g x = true
  | [] => by simp
  | x :: l => by simp [foldO_band_eq_true g l]

theorem exists_map_iff {α β : Type} (g : α → β) (l : List α) (P : β → Prop) :
    (∃ x, (∃ a, a ∈ l ∧ g a = x) ∧ P x) ↔ ∃ a, a ∈ l ∧ P (g a) := by
  constructor
  · rintro ⟨x, ⟨a, ha, rfl⟩, hp⟩; exact ⟨a, ha, hp⟩
  · rintro ⟨a, ha, hp⟩; exact ⟨_, ⟨a, ha, rfl⟩, hp⟩

theorem boolWF_mkAnd_eq : ∀ xs : List Expr, boolWF (mkAnd xs) = foldO (fun a b : Bool => a && b) true (xs.map boolWF)
  | [] => rfl
  | [x] => by simp [mkAnd]
  | x :: y :: r => by
    rw [show mkAnd (x :: y :: r) = .app .and (x :: y :: r) from rfl, boolWF]
    generalize x :: y :: r = l
    induction l with
    | nil => rfl
    | cons a l ih => simp [boolWFList, ih]

theorem boolWF_mkOr_eq : ∀ xs : List Expr, boolWF (mkOr xs) = foldO (fun a b : Bool => a && b) true (xs.map boolWF)
  | [] => rfl
  | [x] => by simp [mkOr]
  | x :: y :: r => by
    rw [show mkOr (x :: y :: r) = .app .or (x :: y :: r) from rfl, boolWF]
    generalize x :: y :: r = l
    induction l with
    | nil => rfl
    | cons a l ih => simp [boolWFList, ih]

section
variable (E : CEnv) (ps : List (String × Ty)) (qv : List Var)

/-! ### `And`, `Or` -/

/-- the truth value of the converted form, under an instantiation -/
def fB (σs : List Subst) (c : EvalCtx) (ρ : VEnv) (φ : Form) : Option Bool := bval c ρ (instAll σs (cv E ps qv φ))
/-- `v` is free in the converted form -/
def fV (v : Var) (φ : Form) : Bool := decide (v ∈ freeVars (cv E ps qv φ))
/-- the converted form is built like a condition -/
def fW (φ : Form) : Bool := boolWF (cv E ps qv φ)

theorem spec_and_B (σs : List Subst) (c : EvalCtx) (ρ : VEnv) : FoldSpec E ps qv .and and2 (some true) (fB E ps qv σs c ρ) where
  mon := cmon_and2
  idem := idem_and2
  node := by
    intro χs h
    unfold fB
    rw [cv_and E ps qv χs h, instAll_mkAnd, bval_mkAnd, List.map_map, List.map_map]
    rfl

theorem spec_or_B (σs : List Subst) (c : EvalCtx) (ρ : VEnv) : FoldSpec E ps qv .or or2 (some false) (fB E ps qv σs c ρ) where
  mon := cmon_or2
  idem := idem_or2
  node := by
    intro χs h
    unfold fB
    rw [cv_or E ps qv χs h, instAll_mkOr, bval_mkOr, List.map_map, List.map_map]
    rfl

theorem spec_and_V (v : Var) : FoldSpec E ps qv .and (fun a b : Bool => a || b) false (fV E ps qv v) where
  mon := cmon_bor
  idem := by intro a; cases a <;> rfl
  node := by
    intro χs h
    apply Bool.eq_iff_iff.2
    rw [foldO_bor_eq_true]
    unfold fV
    rw [cv_and E ps qv χs h, decide_eq_true_iff, mem_freeVars_mkAnd]
    simp only [List.mem_map, decide_eq_true_iff]
    exact exists_map_iff _ _ _

theorem spec_or_V (v : Var) : FoldSpec E ps qv .or (fun a b : Bool => a || b) false (fV E ps qv v) where
  mon := cmon_bor
  idem := by intro a; cases a <;> rfl
  node := by
    intro χs h
    apply Bool.eq_iff_iff.2
    rw [foldO_bor_eq_true]
    unfold fV
    rw [cv_or E ps qv χs h, decide_eq_true_iff, mem_freeVars_mkOr]
    simp only [List.mem_map, decide_eq_true_iff]
    exact exists_map_iff _ _ _

theorem spec_and_W : FoldSpec E ps qv .and (fun a b : Bool => a && b) true (fW E ps qv) where
  mon := cmon_band
  idem := by intro a; cases a <;> rfl
  node := by
    intro χs h
    unfold fW
    rw [cv_and E ps qv χs h, boolWF_mkAnd_eq, List.map_map]
    rfl

theorem spec_or_W : FoldSpec E ps qv .or (fun a b : Bool => a && b) true (fW E ps qv) where
  mon := cmon_band
  idem := by intro a; cases a <;> rfl
  node := by
    intro χs h
    unfold fW
    rw [cv_or E ps qv χs h, boolWF_mkOr_eq, List.map_map]
    rfl

/-- **`And` of the package.**  The conversion of `And(*φs)` (operands spliced, repeated operands dropped, a single
    operand returned as it is) is equivalent to the manager's `And` of the converted operands. -/
theorem gdRel_mkOp_and (φs : List Form) (hD : ∀ φ ∈ φs, Dv E ps qv φ) (hW : ∀ φ ∈ φs, boolWF (cv E ps qv φ) = true) :
    GdRel (mkAnd (φs.map (cv E ps qv))) (cv E ps qv (mkOp .and φs)) where
  wf := boolWF_mkAnd _ (by
    intro x hx
    obtain ⟨φ, hφ, rfl⟩ := List.mem_map.1 hx
    exact hW φ hφ)
  wf' := by
    have := (fold_mkOp_idem E ps qv .and (Or.inl rfl) (spec_and_W E ps qv) φs hD).1
    unfold fW at this
    rw [this, foldO_band_eq_true]
    exact hW
  fv := by
    intro v
    have := (fold_mkOp_idem E ps qv .and (Or.inl rfl) (spec_and_V E ps qv v) φs hD).1
    have h2 := foldO_bor_eq_true (fV E ps qv v) φs
    rw [← this] at h2
    unfold fV at h2
    simp only [decide_eq_true_iff] at h2
    rw [h2, mem_freeVars_mkAnd]
    simp only [List.mem_map]
    exact exists_map_iff _ _ _
  eq := by
    intro σs c ρ w
    have := (fold_mkOp_idem E ps qv .and (Or.inl rfl) (spec_and_B E ps qv σs c ρ) φs hD).1
    unfold fB at this
    rw [this, instAll_mkAnd, bval_mkAnd, List.map_map, List.map_map]
    rfl

theorem gdRel_mkOp_or (φs : List Form) (hD : ∀ φ ∈ φs, Dv E ps qv φ) (hW : ∀ φ ∈ φs, boolWF (cv E ps qv φ) = true) :
    GdRel (mkOr (φs.map (cv E ps qv))) (cv E ps qv (mkOp .or φs)) where
  wf := boolWF_mkOr _ (by
    intro x hx
    obtain ⟨φ, hφ, rfl⟩ := List.mem_map.1 hx
    exact hW φ hφ)
  wf' := by
    have := (fold_mkOp_idem E ps qv .or (Or.inr rfl) (spec_or_W E ps qv) φs hD).1
    unfold fW at this
    rw [this, foldO_band_eq_true]
    exact hW
  fv := by
    intro v
    have := (fold_mkOp_idem E ps qv .or (Or.inr rfl) (spec_or_V E ps qv v) φs hD).1
    have h2 := foldO_bor_eq_true (fV E ps qv v) φs
    rw [← this] at h2
    unfold fV at h2
    simp only [decide_eq_true_iff] at h2
    rw [h2, mem_freeVars_mkOr]
    simp only [List.mem_map]
    exact exists_map_iff _ _ _
  eq := by
    intro σs c ρ w
    have := (fold_mkOp_idem E ps qv .or (Or.inr rfl) (spec_or_B E ps qv σs c ρ) φs hD).1
    unfold fB at this
    rw [this, instAll_mkOr, bval_mkOr, List.map_map, List.map_map]
    rfl

end

end UPVerif.FromPddl
