import UPVerif.Core.Deorder
/-!
Graph side of C27: what edges the `last_modifier` / `all_required` bookkeeping of
`_to_partial_order_plan` produces (`Deorder.runSt`), that every pair of steps in write/read-or-write
conflict is connected by a path of that graph, that `nx.transitive_reduction` (`Deorder.reduce`)
keeps every edge as a path, and that a topological ordering respects paths.
-/
namespace UPVerif.Deorder

/-- `b` is reachable from `a` by a non-empty path of `E` -/
inductive Reach (E : List (Nat × Nat)) : Nat → Nat → Prop where
  | edge {a b : Nat} : (a, b) ∈ E → Reach E a b
  | step {a b c : Nat} : (a, b) ∈ E → Reach E b c → Reach E a c

theorem Reach.trans {E : List (Nat × Nat)} {a b c : Nat} (h1 : Reach E a b) (h2 : Reach E b c) : Reach E a c := by
  induction h1 with
  | edge h => exact .step h h2
  | step h _ ih => exact .step h (ih h2)

/-- a graph that contains every edge of `E` as a path contains every path of `E` -/
theorem Reach.mono {E E' : List (Nat × Nat)} (h : ∀ e ∈ E, Reach E' e.1 e.2) {a b : Nat} (r : Reach E a b) :
    Reach E' a b := by
  induction r with
  | edge he => exact h _ he
  | step he _ ih => exact (h _ he).trans ih

set_option linter.unusedSectionVars false

section graph
variable {κ : Type} [DecidableEq κ]

/-- step `i` of the plan reads / writes `k` -/
def RdAt (fps : List (Footprint κ)) (i : Nat) (k : κ) : Prop := ∃ fp, fps[i]? = some fp ∧ k ∈ fp.reads
def WrAt (fps : List (Footprint κ)) (i : Nat) (k : κ) : Prop := ∃ fp, fps[i]? = some fp ∧ k ∈ fp.writes

theorem getElem?_lt {α : Type} {l : List α} {i : Nat} {x : α} (h : l[i]? = some x) : i < l.length := by
  rcases Nat.lt_or_ge i l.length with hl | hl
  · exact hl
  · rw [List.getElem?_eq_none hl] at h; cases h

theorem RdAt.lt {fps : List (Footprint κ)} {i : Nat} {k : κ} (h : RdAt fps i k) : i < fps.length := by
  obtain ⟨fp, h1, _⟩ := h; exact getElem?_lt h1
theorem WrAt.lt {fps : List (Footprint κ)} {i : Nat} {k : κ} (h : WrAt fps i k) : i < fps.length := by
  obtain ⟨fp, h1, _⟩ := h; exact getElem?_lt h1

theorem getElem?_snoc {α : Type} (l : List α) (x y : α) (i : Nat) :
    (l ++ [x])[i]? = some y ↔ l[i]? = some y ∨ (i = l.length ∧ x = y) := by
  rcases Nat.lt_trichotomy i l.length with h | h | h
  · rw [List.getElem?_append_left h]
    constructor
    · intro h1; exact .inl h1
    · rintro (h1 | ⟨h1, _⟩)
      · exact h1
      · omega
  · subst h
    rw [List.getElem?_append_right (Nat.le_refl _)]
    simp
  · rw [List.getElem?_append_right (Nat.le_of_lt h)]
    have h2 : l[i]? = none := List.getElem?_eq_none (Nat.le_of_lt h)
    have h3 : i - l.length ≠ 0 := by omega
    constructor
    · intro h1
      cases hh : i - l.length with
      | zero => exact absurd hh h3
      | succ n => rw [hh] at h1; simp at h1
    · rintro (h1 | ⟨h1, _⟩)
      · rw [h2] at h1; cases h1
      · omega

theorem rdAt_snoc (pre : List (Footprint κ)) (fp : Footprint κ) (i : Nat) (k : κ) :
    RdAt (pre ++ [fp]) i k ↔ RdAt pre i k ∨ (i = pre.length ∧ k ∈ fp.reads) := by
  unfold RdAt
  constructor
  · rintro ⟨fp', h1, h2⟩
    rcases (getElem?_snoc pre fp fp' i).1 h1 with h | ⟨h, rfl⟩
    · exact .inl ⟨fp', h, h2⟩
    · exact .inr ⟨h, h2⟩
  · rintro (⟨fp', h1, h2⟩ | ⟨h1, h2⟩)
    · exact ⟨fp', (getElem?_snoc pre fp fp' i).2 (.inl h1), h2⟩
    · exact ⟨fp, (getElem?_snoc pre fp fp i).2 (.inr ⟨h1, rfl⟩), h2⟩

theorem wrAt_snoc (pre : List (Footprint κ)) (fp : Footprint κ) (i : Nat) (k : κ) :
    WrAt (pre ++ [fp]) i k ↔ WrAt pre i k ∨ (i = pre.length ∧ k ∈ fp.writes) := by
  unfold WrAt
  constructor
  · rintro ⟨fp', h1, h2⟩
    rcases (getElem?_snoc pre fp fp' i).1 h1 with h | ⟨h, rfl⟩
    · exact .inl ⟨fp', h, h2⟩
    · exact .inr ⟨h, h2⟩
  · rintro (⟨fp', h1, h2⟩ | ⟨h1, h2⟩)
    · exact ⟨fp', (getElem?_snoc pre fp fp' i).2 (.inl h1), h2⟩
    · exact ⟨fp, (getElem?_snoc pre fp fp i).2 (.inr ⟨h1, rfl⟩), h2⟩

/-! ### the two loops -/

theorem lastOf_cons (k' : κ) (j : Nat) (l : List (κ × Nat)) (k : κ) :
    lastOf ((k', j) :: l) k = if k' = k then some j else lastOf l k := by
  unfold lastOf
  by_cases h : k' = k
  · simp [h]
  · simp [h]

theorem mem_readersOf (l : List (κ × Nat)) (k : κ) (j i : Nat) :
    i ∈ readersOf l k j ↔ (k, i) ∈ l ∧ i ≠ j := by
  unfold readersOf
  simp only [List.mem_map, List.mem_filter, Bool.and_eq_true, decide_eq_true_eq]
  constructor
  · rintro ⟨⟨k', i'⟩, ⟨h1, h2, h3⟩, h4⟩
    simp only at h2 h3 h4
    subst h2; subst h4
    exact ⟨h1, h3⟩
  · rintro ⟨h1, h2⟩
    exact ⟨(k, i), ⟨h1, rfl, h2⟩, rfl⟩

theorem readLoop_lastMod (j : Nat) : ∀ (ks : List κ) (st : St κ), (readLoop j ks st).lastMod = st.lastMod
  | [], _ => rfl
  | _ :: ks, st => by simp only [readLoop]; rw [readLoop_lastMod j ks]

theorem readLoop_allReq (j : Nat) : ∀ (ks : List κ) (st : St κ) (p : κ × Nat),
    p ∈ (readLoop j ks st).allReq ↔ p ∈ st.allReq ∨ (p.1 ∈ ks ∧ p.2 = j)
  | [], st, p => by simp [readLoop]
  | k :: ks, st, p => by
    simp only [readLoop]
    rw [readLoop_allReq j ks]
    simp only [List.mem_cons]
    constructor
    · rintro ((h | h) | ⟨h1, h2⟩)
      · subst h; exact .inr ⟨.inl rfl, rfl⟩
      · exact .inl h
      · exact .inr ⟨.inr h1, h2⟩
    · rintro (h | ⟨h1 | h1, h2⟩)
      · exact .inl (.inr h)
      · left; left
        obtain ⟨a, b⟩ := p
        simp only at h1 h2
        rw [h1, h2]
      · exact .inr ⟨h1, h2⟩

theorem readLoop_edges (j : Nat) : ∀ (ks : List κ) (st : St κ) (e : Nat × Nat),
    e ∈ (readLoop j ks st).edges ↔
      e ∈ st.edges ∨ ∃ k ∈ ks, ∃ i, lastOf st.lastMod k = some i ∧ e = (i, j)
  | [], st, e => by simp [readLoop]
  | k :: ks, st, e => by
    simp only [readLoop]
    rw [readLoop_edges j ks]
    simp only [List.mem_cons]
    constructor
    · rintro (h | ⟨k', hk', i, h1, h2⟩)
      · cases hl : lastOf st.lastMod k with
        | none => rw [hl] at h; exact .inl h
        | some i =>
          rw [hl] at h
          simp only [List.mem_cons] at h
          rcases h with h | h
          · exact .inr ⟨k, .inl rfl, i, hl, h⟩
          · exact .inl h
      · exact .inr ⟨k', .inr hk', i, h1, h2⟩
    · rintro (h | ⟨k', hk' | hk', i, h1, h2⟩)
      · left
        cases hl : lastOf st.lastMod k with
        | none => exact h
        | some i => simp only [List.mem_cons]; exact .inr h
      · subst hk'
        left
        rw [h1]
        simp only [List.mem_cons]
        exact .inl h2
      · exact .inr ⟨k', hk', i, h1, h2⟩

theorem writeLoop_allReq (j : Nat) : ∀ (ks : List κ) (st : St κ), (writeLoop j ks st).allReq = st.allReq
  | [], _ => rfl
  | _ :: ks, st => by simp only [writeLoop]; rw [writeLoop_allReq j ks]

theorem writeLoop_lastOf (j : Nat) : ∀ (ks : List κ) (st : St κ) (k : κ),
    lastOf (writeLoop j ks st).lastMod k = if k ∈ ks then some j else lastOf st.lastMod k
  | [], st, k => by simp [writeLoop]
  | k' :: ks, st, k => by
    simp only [writeLoop]
    rw [writeLoop_lastOf j ks, lastOf_cons]
    by_cases h1 : k ∈ ks
    · simp [h1]
    · by_cases h2 : k' = k
      · subst h2; simp
      · have : ¬ k = k' := fun e => h2 e.symm
        simp [h1, h2, this]

theorem writeLoop_edges (j : Nat) : ∀ (ks : List κ) (st : St κ) (e : Nat × Nat),
    e ∈ (writeLoop j ks st).edges ↔
      e ∈ st.edges ∨ ∃ k ∈ ks, ∃ i ∈ readersOf st.allReq k j, e = (i, j)
  | [], st, e => by simp [writeLoop]
  | k :: ks, st, e => by
    simp only [writeLoop]
    rw [writeLoop_edges j ks]
    simp only [List.mem_cons, List.mem_append, List.mem_map]
    constructor
    · rintro ((⟨i, hi, rfl⟩ | h) | ⟨k', hk', i, h1, h2⟩)
      · exact .inr ⟨k, .inl rfl, i, hi, rfl⟩
      · exact .inl h
      · exact .inr ⟨k', .inr hk', i, h1, h2⟩
    · rintro (h | ⟨k', hk' | hk', i, h1, h2⟩)
      · exact .inl (.inr h)
      · subst hk'; subst h2
        exact .inl (.inl ⟨i, h1, rfl⟩)
      · exact .inr ⟨k', hk', i, h1, h2⟩

/-! ### the invariant of the outer loop -/

/-- `last_modifier` and `all_required` after the steps `pre` -/
structure Good (pre : List (Footprint κ)) (st : St κ) : Prop where
  req_of_rd : ∀ i k, RdAt pre i k → (k, i) ∈ st.allReq
  rd_of_req : ∀ k i, (k, i) ∈ st.allReq → RdAt pre i k
  mod_sound : ∀ k m, lastOf st.lastMod k = some m → WrAt pre m k ∧ ∀ i, WrAt pre i k → i ≤ m
  mod_complete : ∀ k i, WrAt pre i k → ∃ m, lastOf st.lastMod k = some m

/-- the edges after the steps `pre` -/
structure EdgeFacts (pre : List (Footprint κ)) (E : List (Nat × Nat)) : Prop where
  /-- an earlier reader is ordered before a later writer -/
  rw : ∀ i j k, i < j → RdAt pre i k → WrAt pre j k → (i, j) ∈ E
  /-- a later reader is ordered after the LAST earlier writer -/
  wr : ∀ i j k, i < j → WrAt pre i k → RdAt pre j k → ∃ m, i ≤ m ∧ m < j ∧ WrAt pre m k ∧ (m, j) ∈ E
  lt : ∀ e ∈ E, e.1 < e.2 ∧ e.2 < pre.length
  /-- every edge is caused by a write/read-or-write conflict -/
  only : ∀ e ∈ E, ∃ k, (WrAt pre e.1 k ∧ RdAt pre e.2 k) ∨ (RdAt pre e.1 k ∧ WrAt pre e.2 k)

theorem good_init : Good ([] : List (Footprint κ)) ⟨[], [], []⟩ where
  req_of_rd := by rintro i k ⟨fp, h, _⟩; simp at h
  rd_of_req := by intro k i h; simp at h
  mod_sound := by intro k m h; simp [lastOf] at h
  mod_complete := by rintro k i ⟨fp, h, _⟩; simp at h

theorem edgeFacts_init : EdgeFacts ([] : List (Footprint κ)) [] where
  rw := by rintro i j k _ ⟨fp, h, _⟩; simp at h
  wr := by rintro i j k _ ⟨fp, h, _⟩; simp at h
  lt := by intro e h; simp at h
  only := by intro e h; simp at h

theorem step_good {pre : List (Footprint κ)} {st : St κ} (fp : Footprint κ)
    (hG : Good pre st) (hE : EdgeFacts pre st.edges) :
    Good (pre ++ [fp]) (stepSt pre.length fp st) ∧ EdgeFacts (pre ++ [fp]) (stepSt pre.length fp st).edges := by
  have hreq : ∀ p : κ × Nat, p ∈ (stepSt pre.length fp st).allReq ↔
      p ∈ st.allReq ∨ (p.1 ∈ fp.reads ∧ p.2 = pre.length) := by
    intro p; unfold stepSt; rw [writeLoop_allReq, readLoop_allReq]
  have hmod : ∀ k, lastOf (stepSt pre.length fp st).lastMod k =
      if k ∈ fp.writes then some pre.length else lastOf st.lastMod k := by
    intro k; unfold stepSt; rw [writeLoop_lastOf, readLoop_lastMod]
  have hedge : ∀ e : Nat × Nat, e ∈ (stepSt pre.length fp st).edges ↔
      (e ∈ st.edges ∨ ∃ k ∈ fp.reads, ∃ i, lastOf st.lastMod k = some i ∧ e = (i, pre.length)) ∨
      ∃ k ∈ fp.writes, ∃ i, ((k, i) ∈ st.allReq ∨ (k ∈ fp.reads ∧ i = pre.length)) ∧ i ≠ pre.length ∧
        e = (i, pre.length) := by
    intro e
    unfold stepSt
    rw [writeLoop_edges, readLoop_edges]
    constructor
    · rintro (h | ⟨k, hk, i, hi, he⟩)
      · exact .inl h
      · rw [mem_readersOf, readLoop_allReq] at hi
        exact .inr ⟨k, hk, i, hi.1, hi.2, he⟩
    · rintro (h | ⟨k, hk, i, hi, hne, he⟩)
      · exact .inl h
      · refine .inr ⟨k, hk, i, ?_, he⟩
        rw [mem_readersOf, readLoop_allReq]
        exact ⟨hi, hne⟩
  constructor
  · constructor
    · intro i k h
      rw [hreq]
      rcases (rdAt_snoc pre fp i k).1 h with h | ⟨h1, h2⟩
      · exact .inl (hG.req_of_rd i k h)
      · exact .inr ⟨h2, h1⟩
    · intro k i h
      rw [hreq] at h
      rw [rdAt_snoc]
      rcases h with h | ⟨h1, h2⟩
      · exact .inl (hG.rd_of_req k i h)
      · exact .inr ⟨h2, h1⟩
    · intro k m h
      rw [hmod] at h
      by_cases hk : k ∈ fp.writes
      · rw [if_pos hk] at h
        cases h
        refine ⟨(wrAt_snoc pre fp _ k).2 (.inr ⟨rfl, hk⟩), ?_⟩
        intro i hi
        have := hi.lt
        simp at this
        omega
      · rw [if_neg hk] at h
        obtain ⟨h1, h2⟩ := hG.mod_sound k m h
        refine ⟨(wrAt_snoc pre fp _ k).2 (.inl h1), ?_⟩
        intro i hi
        rcases (wrAt_snoc pre fp i k).1 hi with hi | ⟨_, hi⟩
        · exact h2 i hi
        · exact absurd hi hk
    · intro k i h
      rw [hmod]
      by_cases hk : k ∈ fp.writes
      · exact ⟨_, if_pos hk⟩
      · rw [if_neg hk]
        rcases (wrAt_snoc pre fp i k).1 h with hi | ⟨_, hi⟩
        · exact hG.mod_complete k i hi
        · exact absurd hi hk
  · constructor
    · intro i j k hij hr hw
      rw [hedge]
      rcases (wrAt_snoc pre fp j k).1 hw with hw1 | ⟨hj, hw2⟩
      · have hjl := hw1.lt
        rcases (rdAt_snoc pre fp i k).1 hr with hr1 | ⟨hi, _⟩
        · exact .inl (.inl (hE.rw i j k hij hr1 hw1))
        · omega
      · subst hj
        rcases (rdAt_snoc pre fp i k).1 hr with hr1 | ⟨hi, _⟩
        · exact .inr ⟨k, hw2, i, .inl (hG.req_of_rd i k hr1), Nat.ne_of_lt hij, rfl⟩
        · omega
    · intro i j k hij hw hr
      rcases (rdAt_snoc pre fp j k).1 hr with hr1 | ⟨hj, hr2⟩
      · have hjl := hr1.lt
        rcases (wrAt_snoc pre fp i k).1 hw with hw1 | ⟨hi, _⟩
        · obtain ⟨m, h1, h2, h3, h4⟩ := hE.wr i j k hij hw1 hr1
          exact ⟨m, h1, h2, (wrAt_snoc pre fp m k).2 (.inl h3), (hedge _).2 (.inl (.inl h4))⟩
        · omega
      · subst hj
        rcases (wrAt_snoc pre fp i k).1 hw with hw1 | ⟨hi, _⟩
        · obtain ⟨m, hm⟩ := hG.mod_complete k i hw1
          obtain ⟨h1, h2⟩ := hG.mod_sound k m hm
          exact ⟨m, h2 i hw1, h1.lt, (wrAt_snoc pre fp m k).2 (.inl h1),
            (hedge _).2 (.inl (.inr ⟨k, hr2, m, hm, rfl⟩))⟩
        · omega
    · intro e he
      rw [hedge] at he
      simp only [List.length_append, List.length_cons, List.length_nil]
      rcases he with (he | ⟨k, _, i, hi, rfl⟩) | ⟨k, _, i, hi, hne, rfl⟩
      · have := hE.lt e he
        omega
      · have := (hG.mod_sound k i hi).1.lt
        simp only
        omega
      · rcases hi with hi | ⟨_, hi⟩
        · have := (hG.rd_of_req k i hi).lt
          simp only
          omega
        · exact absurd hi hne
    · intro e he
      rw [hedge] at he
      rcases he with (he | ⟨k, hk, i, hi, rfl⟩) | ⟨k, hk, i, hi, hne, rfl⟩
      · obtain ⟨k, h | h⟩ := hE.only e he
        · exact ⟨k, .inl ⟨(wrAt_snoc pre fp _ k).2 (.inl h.1), (rdAt_snoc pre fp _ k).2 (.inl h.2)⟩⟩
        · exact ⟨k, .inr ⟨(rdAt_snoc pre fp _ k).2 (.inl h.1), (wrAt_snoc pre fp _ k).2 (.inl h.2)⟩⟩
      · exact ⟨k, .inl ⟨(wrAt_snoc pre fp _ k).2 (.inl (hG.mod_sound k i hi).1),
          (rdAt_snoc pre fp _ k).2 (.inr ⟨rfl, hk⟩)⟩⟩
      · rcases hi with hi | ⟨_, hi⟩
        · exact ⟨k, .inr ⟨(rdAt_snoc pre fp _ k).2 (.inl (hG.rd_of_req k i hi)),
            (wrAt_snoc pre fp _ k).2 (.inr ⟨rfl, hk⟩)⟩⟩
        · exact absurd hi hne

theorem runSt_good : ∀ (rest pre : List (Footprint κ)) (st : St κ),
    Good pre st → EdgeFacts pre st.edges →
    Good (pre ++ rest) (runSt pre.length rest st) ∧ EdgeFacts (pre ++ rest) (runSt pre.length rest st).edges
  | [], pre, st, hG, hE => by simpa [runSt] using ⟨hG, hE⟩
  | fp :: rest, pre, st, hG, hE => by
    obtain ⟨hG', hE'⟩ := step_good fp hG hE
    have := runSt_good rest (pre ++ [fp]) _ hG' hE'
    simp only [List.length_append, List.length_cons, List.length_nil, Nat.zero_add, List.append_assoc,
      List.cons_append, List.nil_append] at this
    simpa [runSt] using this

/-- what the graph built by `_to_partial_order_plan` contains -/
theorem rawEdges_facts (fps : List (Footprint κ)) : EdgeFacts fps (rawEdges fps) := by
  have := (runSt_good fps [] ⟨[], [], []⟩ good_init edgeFacts_init).2
  simpa [rawEdges] using this

/-- two steps are in conflict when one writes a key the other reads or writes -/
def Conflict (A B : Footprint κ) : Prop :=
  ∃ k, (k ∈ A.writes ∧ (k ∈ B.reads ∨ k ∈ B.writes)) ∨ (k ∈ B.writes ∧ (k ∈ A.reads ∨ k ∈ A.writes))

/-- every conflicting pair of steps is connected by a path of the graph (a direct edge, or an edge
    to the last earlier writer reached through the chain of writers) -/
theorem conflict_reach (fps : List (Footprint κ))
    (hsub : ∀ fp ∈ fps, ∀ k ∈ fp.writes, k ∈ fp.reads)
    {i j : Nat} (hij : i < j) {A B : Footprint κ} (hi : fps[i]? = some A) (hj : fps[j]? = some B)
    (hc : Conflict A B) : Reach (rawEdges fps) i j := by
  have F := rawEdges_facts fps
  have hA : ∀ k ∈ A.writes, k ∈ A.reads := hsub A (List.mem_of_getElem? hi)
  have hB : ∀ k ∈ B.writes, k ∈ B.reads := hsub B (List.mem_of_getElem? hj)
  obtain ⟨k, hk⟩ := hc
  have key : (k ∈ A.writes ∧ k ∈ B.reads) ∨ (k ∈ B.writes ∧ k ∈ A.reads) := by
    rcases hk with ⟨h1, h2 | h2⟩ | ⟨h1, h2 | h2⟩
    · exact .inl ⟨h1, h2⟩
    · exact .inl ⟨h1, hB k h2⟩
    · exact .inr ⟨h1, h2⟩
    · exact .inr ⟨h1, hA k h2⟩
  rcases key with ⟨h1, h2⟩ | ⟨h1, h2⟩
  · obtain ⟨m, hm1, hm2, hm3, hm4⟩ := F.wr i j k hij ⟨A, hi, h1⟩ ⟨B, hj, h2⟩
    rcases Nat.lt_or_ge i m with h | h
    · obtain ⟨M, hM, hMk⟩ := hm3
      have hMr : k ∈ M.reads := hsub M (List.mem_of_getElem? hM) k hMk
      exact .step (F.rw i m k h ⟨A, hi, hA k h1⟩ ⟨M, hM, hMk⟩) (.edge hm4)
    · have : m = i := by omega
      subst this
      exact .edge hm4
  · exact .edge (F.rw i j k hij ⟨A, hi, h2⟩ ⟨B, hj, h1⟩)

end graph

/-! ### `nx.transitive_reduction` -/

theorem reachB_sound (E : List (Nat × Nat)) : ∀ (fuel a b : Nat), reachB E fuel a b = true → Reach E a b
  | 0, _, _, h => by simp [reachB] at h
  | fuel + 1, a, b, h => by
    simp only [reachB, List.any_eq_true, Bool.and_eq_true, Bool.or_eq_true, beq_iff_eq] at h
    obtain ⟨⟨x, y⟩, he, hx, hy⟩ := h
    simp only at hx hy
    subst hx
    rcases hy with hy | hy
    · subst hy; exact .edge he
    · exact .step he (reachB_sound E fuel y b hy)

theorem reach_lt {E : List (Nat × Nat)} (hE : ∀ e ∈ E, e.1 < e.2) {a b : Nat} (r : Reach E a b) : a < b := by
  induction r with
  | edge h => exact hE _ h
  | step h _ ih => exact Nat.lt_trans (hE _ h) ih

/-- on a graph whose edges go from smaller to larger nodes, the transitive reduction keeps every
    edge as a path -/
theorem reduce_reach (E : List (Nat × Nat)) (hE : ∀ e ∈ E, e.1 < e.2) :
    ∀ e ∈ E, Reach (reduce E) e.1 e.2 := by
  -- strong induction on the span of the edge
  have key : ∀ (n : Nat) (a b : Nat), b - a ≤ n → (a, b) ∈ E → Reach (reduce E) a b := by
    intro n
    induction n with
    | zero =>
      intro a b hn he
      have := hE _ he
      simp only at this
      omega
    | succ n ih =>
      intro a b hn he
      by_cases hk : (a, b) ∈ reduce E
      · exact .edge hk
      · unfold reduce at hk
        rw [List.mem_filter] at hk
        have hk2 : ¬ ((!(E.any (fun e' => e'.1 == (a, b).1 && e'.2 != (a, b).2 &&
            reachB E E.length e'.2 (a, b).2))) = true) := fun h => hk ⟨he, h⟩
        simp only [Bool.not_eq_true', Bool.not_eq_false, List.any_eq_true, Bool.and_eq_true,
          beq_iff_eq, bne_iff_ne, ne_eq] at hk2
        obtain ⟨⟨x, w⟩, hxw, ⟨hx, _⟩, hr⟩ := hk2
        simp only at hx hr
        subst hx
        have r2 : Reach E w b := reachB_sound E _ _ _ hr
        have h1 : x < w := hE _ hxw
        have h2 : w < b := reach_lt hE r2
        have first : Reach (reduce E) x w := ih x w (by omega) hxw
        -- every edge of the path w →* b has a smaller span
        have rest : ∀ {c d : Nat}, Reach E c d → x < c → d ≤ b → Reach (reduce E) c d := by
          intro c d r
          induction r with
          | edge h =>
            intro hc hd
            have := hE _ h
            simp only at this
            exact ih _ _ (by omega) h
          | step h r' ih' =>
            intro hc hd
            have h3 := hE _ h
            simp only at h3
            have h4 := reach_lt hE r'
            exact (ih _ _ (by omega) h).trans (ih' (by omega) hd)
        exact first.trans (rest r2 h1 (Nat.le_refl _))
  intro e he
  exact key (e.2 - e.1) e.1 e.2 (Nat.le_refl _) he

theorem reduce_sub (E : List (Nat × Nat)) : ∀ e ∈ reduce E, e ∈ E := by
  intro e he
  unfold reduce at he
  exact (List.mem_filter.1 he).1

/-! ### topological orderings -/

/-- `l` is a topological ordering of the graph `E` on the nodes `0 … n-1` -/
def IsLin (n : Nat) (E : List (Nat × Nat)) (l : List Nat) : Prop :=
  l.Perm (List.range n) ∧ ∀ e ∈ E, l.idxOf e.1 < l.idxOf e.2

theorem isLin_iff (n : Nat) (E : List (Nat × Nat)) (l : List Nat) : isLin n E l = true ↔ IsLin n E l := by
  unfold isLin IsLin
  simp only [Bool.and_eq_true, List.isPerm_iff, List.all_eq_true, decide_eq_true_eq]

/-- a topological ordering respects paths -/
theorem IsLin.before_of_reach {n : Nat} {E : List (Nat × Nat)} {l : List Nat} (h : IsLin n E l)
    {a b : Nat} (r : Reach E a b) : l.idxOf a < l.idxOf b := by
  induction r with
  | edge he => exact h.2 _ he
  | step he _ ih => exact Nat.lt_trans (h.2 _ he) ih

/-- in a list without duplicates, an element that comes first has the smaller index -/
theorem pairwise_idxOf : ∀ (l : List Nat), l.Nodup → l.Pairwise (fun x y => l.idxOf x < l.idxOf y)
  | [], _ => List.Pairwise.nil
  | a :: l, h => by
    rw [List.nodup_cons] at h
    have ih := pairwise_idxOf l h.2
    rw [List.pairwise_cons]
    constructor
    · intro y hy
      have hne : a ≠ y := fun e => h.1 (e ▸ hy)
      rw [List.idxOf_cons_self, List.idxOf_cons]
      have : (a == y) = false := by simpa using hne
      rw [this]
      simp
    · refine ih.imp_of_mem ?_
      intro x y hx hy hxy
      have h1 : a ≠ x := fun e => h.1 (e ▸ hx)
      have h2 : a ≠ y := fun e => h.1 (e ▸ hy)
      have e1 : (a == x) = false := by simpa using h1
      have e2 : (a == y) = false := by simpa using h2
      rw [List.idxOf_cons, List.idxOf_cons, e1, e2]
      simp only [cond_false]
      omega

end UPVerif.Deorder
