import UPVerif.Core.Proto
/-! helper lemmas for Props/C20.lean (protobuf codec round trips) -/
namespace UPVerif.Proto
open UPVerif

/-! ### numerals -/

theorem natStr_ne_nil (n : Nat) : natStr n ≠ [] := Nat.toDigits_ne_nil

theorem natStr_isDigit {n : Nat} {c : Char} (h : c ∈ natStr n) : c.isDigit = true :=
  Nat.isDigit_of_mem_toDigits (by decide) (by decide) h

theorem parseNat_natStr (n : Nat) : parseNat (natStr n) = some n := by
  unfold parseNat
  have h1 : natStr n ≠ [] := natStr_ne_nil n
  have h2 : (natStr n).all Char.isDigit = true := by
    rw [List.all_eq_true]; intro c hc; exact natStr_isDigit hc
  rw [if_pos ⟨h1, h2⟩]
  simp [natStr]

theorem isDigit_ne {c d : Char} (h : c.isDigit = true) (hd : d.isDigit = false) : c ≠ d := by
  intro e; subst e; rw [h] at hd; cases hd

theorem parseInt_natStr (n : Nat) : parseInt (natStr n) = some (n : Int) := by
  have hp := parseNat_natStr n
  cases hs : natStr n with
  | nil => exact absurd hs (natStr_ne_nil n)
  | cons c cs =>
    have hc : c.isDigit = true := natStr_isDigit (by rw [hs]; exact List.mem_cons_self)
    have : c ≠ '-' := isDigit_ne hc (by decide)
    rw [hs] at hp
    simp [parseInt, this, hp]

theorem parseInt_intStr (z : Int) : parseInt (intStr z) = some z := by
  cases z with
  | ofNat n => exact parseInt_natStr n
  | negSucc n =>
    simp only [intStr, parseInt, if_true, parseNat_natStr]
    rfl

/-- characters of a printed integer: digits or the sign -/
theorem intStr_chars {z : Int} {c : Char} (h : c ∈ intStr z) : c.isDigit = true ∨ c = '-' := by
  cases z with
  | ofNat n => exact Or.inl (natStr_isDigit h)
  | negSucc n =>
    simp only [intStr, List.mem_cons] at h
    rcases h with h | h
    · exact Or.inr h
    · exact Or.inl (natStr_isDigit h)

theorem intStr_ne_nil (z : Int) : intStr z ≠ [] := by
  cases z with
  | ofNat n => exact natStr_ne_nil n
  | negSucc n => simp [intStr]

theorem splitSlash_noSlash : ∀ (a : List Char), (∀ c ∈ a, c ≠ '/') → splitSlash a = (a, none)
  | [], _ => rfl
  | c :: a, h => by
    have hc : c ≠ '/' := h c List.mem_cons_self
    have ih := splitSlash_noSlash a (fun d hd => h d (List.mem_cons_of_mem _ hd))
    simp [splitSlash, hc, ih]

theorem splitSlash_append : ∀ (a b : List Char), (∀ c ∈ a, c ≠ '/') →
    splitSlash (a ++ '/' :: b) = (a, some b)
  | [], b, _ => by simp [splitSlash]
  | c :: a, b, h => by
    have hc : c ≠ '/' := h c List.mem_cons_self
    have ih := splitSlash_append a b (fun d hd => h d (List.mem_cons_of_mem _ hd))
    simp [splitSlash, hc, ih]

theorem intStr_noSlash (z : Int) : ∀ c ∈ intStr z, c ≠ '/' := by
  intro c hc
  rcases intStr_chars hc with h | h
  · exact isDigit_ne h (by decide)
  · rw [h]; decide

theorem parseRat_ratStr (r : Rat) : parseRat (ratStr r) = some r := by
  unfold ratStr parseRat
  by_cases hd : r.den = 1
  · rw [if_pos hd, splitSlash_noSlash _ (intStr_noSlash r.num)]
    simp only [parseInt_intStr, Option.map_some]
    congr 1
    exact Rat.ext (by simp) (by simp [hd])
  · rw [if_neg hd, splitSlash_append _ _ (intStr_noSlash r.num)]
    simp only [parseInt_intStr, parseNat_natStr]
    rw [if_neg r.den_nz, Rat.mkRat_self]

/-- characters of a printed fraction: digits, sign, slash -/
theorem ratStr_chars {r : Rat} {c : Char} (h : c ∈ ratStr r) : c.isDigit = true ∨ c = '-' ∨ c = '/' := by
  unfold ratStr at h
  split at h
  · rcases intStr_chars h with h | h
    · exact Or.inl h
    · exact Or.inr (Or.inl h)
  · simp only [List.mem_append, List.mem_cons] at h
    rcases h with h | h | h
    · rcases intStr_chars h with h | h
      · exact Or.inl h
      · exact Or.inr (Or.inl h)
    · exact Or.inr (Or.inr h)
    · exact Or.inl (natStr_isDigit h)

theorem ratStr_ne_nil (r : Rat) : ratStr r ≠ [] := by
  unfold ratStr
  split
  · exact intStr_ne_nil _
  · intro h
    have := congrArg List.length h
    simp at this

/-! ### type strings -/

theorem partitionSep_append : ∀ (a b : List Char), (∀ c ∈ a, c ≠ ',') →
    partitionSep (a ++ (sep ++ b)) = some (a, b)
  | [], b, _ => by simp [partitionSep, sep]
  | c :: a, b, h => by
    have hc : c ≠ ',' := h c List.mem_cons_self
    have ih := partitionSep_append a b (fun d hd => h d (List.mem_cons_of_mem _ hd))
    simp [partitionSep, hc, ih]

theorem parseBounds_enc (pre a b : List Char) (ha : ∀ c ∈ a, c ≠ ',') :
    parseBounds pre (pre ++ (a ++ (sep ++ (b ++ [']'])))) = some (a, b) := by
  unfold parseBounds
  simp only [List.drop_left]
  have e : a ++ (sep ++ (b ++ [']'])) = (a ++ (sep ++ b)) ++ [']'] := by simp
  rw [e, List.getLast?_concat, if_pos rfl, List.dropLast_concat]
  exact partitionSep_append a b ha

theorem noComma_of_chars {l : List Char}
    (h : ∀ c ∈ l, c.isDigit = true ∨ c = '-' ∨ c = '/') : ∀ c ∈ l, c ≠ ',' := by
  intro c hc
  rcases h c hc with h | h | h
  · exact isDigit_ne h (by decide)
  · rw [h]; decide
  · rw [h]; decide

theorem intStr_chars' (z : Int) : ∀ c ∈ intStr z, c.isDigit = true ∨ c = '-' ∨ c = '/' := by
  intro c hc
  rcases intStr_chars hc with h | h
  · exact Or.inl h
  · exact Or.inr (Or.inl h)

theorem negInfS_chars_bad : ¬ (∀ c ∈ negInfS, c.isDigit = true ∨ c = '-' ∨ c = '/') := by
  intro h
  have := h 'i' (by simp [negInfS])
  revert this; decide

theorem infS_chars_bad : ¬ (∀ c ∈ infS, c.isDigit = true ∨ c = '-' ∨ c = '/') := by
  intro h
  have := h 'i' (by simp [infS])
  revert this; decide

theorem intStr_ne_negInf (z : Int) : intStr z ≠ negInfS := by
  intro h; exact negInfS_chars_bad (h ▸ intStr_chars' z)
theorem intStr_ne_inf (z : Int) : intStr z ≠ infS := by
  intro h; exact infS_chars_bad (h ▸ intStr_chars' z)
theorem ratStr_ne_negInf (r : Rat) : ratStr r ≠ negInfS := by
  intro h; exact negInfS_chars_bad (h ▸ fun c hc => ratStr_chars hc)
theorem ratStr_ne_inf (r : Rat) : ratStr r ≠ infS := by
  intro h; exact infS_chars_bad (h ▸ fun c hc => ratStr_chars hc)

theorem lbStrI_noComma (lb : Option Int) : ∀ c ∈ lbStrI lb, c ≠ ',' := by
  cases lb with
  | none => intro c hc; simp [lbStrI, negInfS] at hc; rcases hc with h | h | h | h <;> rw [h] <;> decide
  | some z => exact noComma_of_chars (intStr_chars' z)

theorem lbStrR_noComma (lb : Option Rat) : ∀ c ∈ lbStrR lb, c ≠ ',' := by
  cases lb with
  | none => intro c hc; simp [lbStrR, negInfS] at hc; rcases hc with h | h | h | h <;> rw [h] <;> decide
  | some r => exact noComma_of_chars (fun c hc => ratStr_chars hc)

/-- bounds text read back: lower bound of an integer type -/
theorem lbI_back (lb : Option Int) :
    (if lbStrI lb = negInfS then some none else (parseInt (lbStrI lb)).map some) = some lb := by
  cases lb with
  | none => simp [lbStrI]
  | some z => simp [lbStrI, intStr_ne_negInf, parseInt_intStr]
theorem ubI_back (ub : Option Int) :
    (if ubStrI ub = infS then some none else (parseInt (ubStrI ub)).map some) = some ub := by
  cases ub with
  | none => simp [ubStrI]
  | some z => simp [ubStrI, intStr_ne_inf, parseInt_intStr]
theorem lbR_back (lb : Option Rat) :
    (if lbStrR lb = negInfS then some none else (parseRat (lbStrR lb)).map some) = some lb := by
  cases lb with
  | none => simp [lbStrR]
  | some z => simp [lbStrR, ratStr_ne_negInf, parseRat_ratStr]
theorem ubR_back (ub : Option Rat) :
    (if ubStrR ub = infS then some none else (parseRat (ubStrR ub)).map some) = some ub := by
  cases ub with
  | none => simp [ubStrR]
  | some z => simp [ubStrR, ratStr_ne_inf, parseRat_ratStr]

theorem isPrefixOf_append_self (a b : List Char) : a.isPrefixOf (a ++ b) = true := by
  rw [List.isPrefixOf_iff_prefix]; exact List.prefix_append a b

theorem int_dec (types : TypeNames) (x y : List Char) (lb ub : Option Int)
    (hx : ∀ c ∈ x, c ≠ ',')
    (hl : (if x = negInfS then some none else (parseInt x).map some) = some lb)
    (hu : (if y = infS then some none else (parseInt y).map some) = some ub) :
    decTyChars types (intPrefix ++ (x ++ (sep ++ (y ++ [']'])))) = some (.int lb ub) := by
  unfold decTyChars
  have h1 : intPrefix ++ (x ++ (sep ++ (y ++ [']']))) ≠ boolS := by simp [intPrefix, boolS]
  have h2 : intPrefix ++ (x ++ (sep ++ (y ++ [']']))) ≠ integerS := by
    intro h; have := congrArg List.length h; simp [intPrefix, integerS, sep] at this
  rw [if_neg h1, if_neg h2, if_pos (isPrefixOf_append_self _ _), parseBounds_enc _ _ _ hx]
  simp only [hl, hu]

theorem real_dec (types : TypeNames) (x y : List Char) (lb ub : Option Rat)
    (hx : ∀ c ∈ x, c ≠ ',')
    (hl : (if x = negInfS then some none else (parseRat x).map some) = some lb)
    (hu : (if y = infS then some none else (parseRat y).map some) = some ub) :
    decTyChars types (realPrefix ++ (x ++ (sep ++ (y ++ [']'])))) = some (.real lb ub) := by
  unfold decTyChars
  have h1 : realPrefix ++ (x ++ (sep ++ (y ++ [']']))) ≠ boolS := by simp [realPrefix, boolS]
  have h2 : realPrefix ++ (x ++ (sep ++ (y ++ [']']))) ≠ integerS := by simp [realPrefix, integerS]
  have h3 : intPrefix.isPrefixOf (realPrefix ++ (x ++ (sep ++ (y ++ [']'])))) = false := by
    simp [intPrefix, realPrefix, List.isPrefixOf]
  have h4 : realPrefix ++ (x ++ (sep ++ (y ++ [']']))) ≠ realS := by
    intro h; have := congrArg List.length h; simp [realPrefix, realS, sep] at this
  rw [if_neg h1, if_neg h2, h3]
  simp only [Bool.false_eq_true, if_false]
  rw [if_neg h4, if_pos (isPrefixOf_append_self _ _), parseBounds_enc _ _ _ hx]
  simp only [hl, hu]

theorem isPrefixOf_of_append : ∀ (a b s : List Char), (a ++ b).isPrefixOf s = true → a.isPrefixOf s = true
  | [], _, _, _ => by simp [List.isPrefixOf]
  | x :: a, b, [], h => by simp [List.isPrefixOf] at h
  | x :: a, b, y :: s, h => by
    simp only [List.cons_append, List.isPrefixOf, Bool.and_eq_true] at h ⊢
    exact ⟨h.1, isPrefixOf_of_append a b s h.2⟩

theorem user_dec (types : TypeNames) (n : String) (hr : reserved n = false) (hn : types.contains n = true) :
    decTyChars types n.toList = some (.user n) := by
  unfold decTyChars
  unfold reserved at hr
  have p1 : ∀ t : List Char, reservedPrefix.isPrefixOf t = true → n.toList ≠ t := by
    intro t ht h; rw [h, ht] at hr; cases hr
  have h1 := p1 boolS (by decide)
  have h2 := p1 integerS (by decide)
  have h4 := p1 realS (by decide)
  have h3 : intPrefix.isPrefixOf n.toList = false := by
    cases h : intPrefix.isPrefixOf n.toList with
    | false => rfl
    | true =>
      have := isPrefixOf_of_append reservedPrefix ['i', 'n', 't', 'e', 'g', 'e', 'r', '['] n.toList h
      rw [this] at hr; cases hr
  have h5 : realPrefix.isPrefixOf n.toList = false := by
    cases h : realPrefix.isPrefixOf n.toList with
    | false => rfl
    | true =>
      have := isPrefixOf_of_append reservedPrefix ['r', 'e', 'a', 'l', '['] n.toList h
      rw [this] at hr; cases hr
  rw [if_neg h1, if_neg h2, h3]
  simp only [Bool.false_eq_true, if_false]
  rw [if_neg h4, h5]
  simp only [Bool.false_eq_true, if_false]
  rw [hr]
  simp only [Bool.false_eq_true, if_false, String.ofList_toList, hn, if_true]

theorem decTyChars_enc (types : TypeNames) (t : Ty) (cs : List Char)
    (hd : tyDeclared types t = true) (he : encTyChars t = some cs) : decTyChars types cs = some t := by
  cases t with
  | bool => simp only [encTyChars, Option.some.injEq] at he; subst he; simp [decTyChars]
  | time => simp [tyDeclared] at hd
  | int lb ub =>
    cases lb with
    | none =>
      cases ub with
      | none =>
        simp only [encTyChars, Option.some.injEq] at he; subst he
        simp [decTyChars, integerS, boolS]
      | some u =>
        simp only [encTyChars, Option.some.injEq] at he; subst he
        exact int_dec types _ _ none (some u) (lbStrI_noComma none) (lbI_back none) (ubI_back (some u))
    | some l =>
      simp only [encTyChars, Option.some.injEq] at he; subst he
      exact int_dec types _ _ (some l) ub (lbStrI_noComma (some l)) (lbI_back (some l)) (ubI_back ub)
  | real lb ub =>
    cases lb with
    | none =>
      cases ub with
      | none =>
        simp only [encTyChars, Option.some.injEq] at he; subst he
        simp [decTyChars, integerS, boolS, realS, intPrefix, List.isPrefixOf]
      | some u =>
        simp only [encTyChars, Option.some.injEq] at he; subst he
        exact real_dec types _ _ none (some u) (lbStrR_noComma none) (lbR_back none) (ubR_back (some u))
    | some l =>
      simp only [encTyChars, Option.some.injEq] at he; subst he
      exact real_dec types _ _ (some l) ub (lbStrR_noComma (some l)) (lbR_back (some l)) (ubR_back ub)
  | user n =>
    simp only [encTyChars] at he
    cases hr : reserved n with
    | true => simp [hr] at he
    | false =>
      simp only [hr, Bool.false_eq_true, if_false, Option.some.injEq] at he; subst he
      exact user_dec types n hr hd

theorem decTy_enc (types : TypeNames) (t : Ty) (s : String)
    (hd : tyDeclared types t = true) (he : encTy t = some s) : decTy types s = some t := by
  unfold encTy at he
  cases hc : encTyChars t with
  | none => simp [hc] at he
  | some cs =>
    simp only [hc, Option.map_some, Option.some.injEq] at he
    subst he
    unfold decTy
    rw [String.toList_ofList]
    exact decTyChars_enc types t cs hd hc

/-! ### Real, timepoints, timings, intervals -/

theorem decReal_enc (r : Rat) (m : RealMsg) (h : encReal r = some m) : decReal m = some r := by
  unfold encReal at h
  split at h
  · simp only [Option.some.injEq] at h; subst h
    unfold decReal
    have : ((r.den : Int) = 0) = False := by simp [r.den_nz]
    simp only [this, if_false]
    rw [Rat.num_divInt_den]
  · cases h

theorem decTimepoint_enc (tp : Timepoint) (h : tp.container ≠ some "") :
    decTimepoint (encTimepoint tp) = tp := by
  cases tp with
  | mk k c =>
    cases c with
    | none => simp [encTimepoint, decTimepoint]
    | some s =>
      have : s ≠ "" := fun e => h (by simp [e])
      simp [encTimepoint, decTimepoint, this]

theorem decTiming_enc (t : Timing) (m : TimingMsg) (hc : t.tp.container ≠ some "")
    (h : encTiming t = some m) : decTiming m = some t := by
  unfold encTiming at h
  cases hr : encReal t.delay with
  | none => simp [hr] at h
  | some d =>
    simp only [hr, Option.map_some, Option.some.injEq] at h; subst h
    simp only [decTiming, decReal_enc _ _ hr, Option.map_some, decTimepoint_enc _ hc]

theorem decTimeInterval_enc (i : TimeInterval) (m : TimeIntervalMsg)
    (hl : i.lower.tp.container ≠ some "") (hu : i.upper.tp.container ≠ some "")
    (h : encTimeInterval i = some m) : decTimeInterval m = some i := by
  unfold encTimeInterval at h
  cases h1 : encTiming i.lower with
  | none => simp [h1] at h
  | some l =>
    cases h2 : encTiming i.upper with
    | none => simp [h1, h2] at h
    | some u =>
      simp only [h1, h2, Option.some.injEq] at h; subst h
      simp only [decTimeInterval, decTiming_enc _ _ hl h1, decTiming_enc _ _ hu h2]

/-! ### expressions -/

theorem opName_ne_present (o : OpK) : opName o ≠ "up:present" := by cases o <;> decide
theorem quantName_ne_present (q : QK) : quantName q ≠ "up:present" := by cases q <;> decide
theorem tpFn_ne_present (k : TPKind) : tpFn k ≠ "up:present" := by cases k <;> decide
theorem opOfName_opName (o : OpK) : opOfName (opName o) = some (.op o) := by cases o <;> rfl
theorem opOfName_quantName (q : QK) : opOfName (quantName q) = some (.quant q) := by cases q <;> rfl
theorem tpOfFn_tpFn (k : TPKind) : tpOfFn (tpFn k) = some k := by cases k <;> rfl

theorem decExprs_append (c : Ctx) : ∀ (xs ys : List PE) (as bs : List UExpr),
    decExprs c xs = some as → decExprs c ys = some bs → decExprs c (xs ++ ys) = some (as ++ bs)
  | [], ys, as, bs, h1, h2 => by
    simp only [decExprs, Option.some.injEq] at h1; subst h1; simpa using h2
  | x :: xs, ys, as, bs, h1, h2 => by
    simp only [decExprs] at h1
    cases hx : decExpr c x with
    | none => simp [hx] at h1
    | some a =>
      cases hxs : decExprs c xs with
      | none => simp [hx, hxs] at h1
      | some as' =>
        simp only [hx, hxs, Option.some.injEq] at h1; subst h1
        simp only [List.cons_append, decExprs, hx, decExprs_append c xs ys as' bs hxs h2]

theorem decExpr_var (c : Ctx) (v : Var) (m : PE) (hd : tyDeclared c.types v.ty = true)
    (he : encVar v = some m) : decExpr c m = some (.var v) := by
  unfold encVar at he
  cases ht : encTy v.ty with
  | none => simp [ht] at he
  | some ts =>
    simp only [ht, Option.map_some, Option.some.injEq] at he; subst he
    simp only [decExpr, decTy_enc _ _ _ hd ht, Option.map_some, Atom.symbolD]

theorem decExprs_vars (c : Ctx) : ∀ (vs : List Var) (ws : List PE),
    vs.all (fun v => tyDeclared c.types v.ty) = true → encVars vs = some ws →
    decExprs c ws = some (vs.map UExpr.var)
  | [], ws, _, h => by simp only [encVars, Option.some.injEq] at h; subst h; simp [decExprs]
  | v :: vs, ws, hd, h => by
    simp only [List.all_cons, Bool.and_eq_true] at hd
    simp only [encVars] at h
    cases hv : encVar v with
    | none => simp [hv] at h
    | some a =>
      cases hvs : encVars vs with
      | none => simp [hv, hvs] at h
      | some as =>
        simp only [hv, hvs, Option.some.injEq] at h; subst h
        simp only [decExprs, decExpr_var c v a hd.1 hv, decExprs_vars c vs as hd.2 hvs, List.map_cons]

theorem decVarList_map : ∀ (vs : List Var), decVarList (vs.map UExpr.var) = some vs
  | [] => rfl
  | v :: vs => by simp [decVarList, decVarList_map vs]

theorem rat_of_den_one (r : Rat) (h : r.den = 1) : ((r.num : Int) : Rat) = r :=
  Rat.ext (by simp) (by simp [h])

theorem decExpr_timing (c : Ctx) (t : Timing) (m : PE) (he : encTimingExp t = some m) :
    decExpr c m = some (.timing t) := by
  cases t with
  | mk delay tp =>
  cases tp with
  | mk k cont =>
  have e1 : ("up:plus" = "up:present") = False := by decide
  have e2 : ("up:real" = "up:integer") = False := by decide
  have e3 := tpFn_ne_present k
  have e4 := tpOfFn_tpFn k
  cases cont with
  | none =>
    by_cases h0 : delay = 0
    · simp only [encTimingExp, h0, if_true, Option.some.injEq] at he
      subst he; subst h0
      simp [decExpr, decTimingExp, fnSym, PE.atom, Atom.symbolD, e3, e4]
    · by_cases hd : delay.den = 1
      · simp only [encTimingExp, h0, if_false, encNum, hd, if_true, encInt] at he
        split at he
        · simp only [Option.map_some, Option.some.injEq] at he; subst he
          simp [decExpr, decTimingExp, fnSym, PE.atom, PE.type, PE.list, Atom.symbolD, e1, e4,
            rat_of_den_one delay hd]
        · simp at he
      · simp only [encTimingExp, h0, if_false, encNum, hd, encRealE] at he
        cases hr : encReal delay with
        | none => simp [hr] at he
        | some rm =>
          simp only [hr, Option.map_some, Option.some.injEq] at he; subst he
          simp [decExpr, decTimingExp, fnSym, PE.atom, PE.type, PE.list, Atom.symbolD, e1, e2, e4,
            decReal_enc _ _ hr]
  | some s =>
    by_cases h0 : delay = 0
    · simp only [encTimingExp, h0, if_true, Option.some.injEq] at he
      subst he; subst h0
      simp [decExpr, decTimingExp, fnSym, PE.atom, Atom.symbolD, e3, e4]
    · by_cases hd : delay.den = 1
      · simp only [encTimingExp, h0, if_false, encNum, hd, if_true, encInt] at he
        split at he
        · simp only [Option.map_some, Option.some.injEq] at he; subst he
          simp [decExpr, decTimingExp, fnSym, PE.atom, PE.type, PE.list, Atom.symbolD, e1, e4,
            rat_of_den_one delay hd]
        · simp at he
      · simp only [encTimingExp, h0, if_false, encNum, hd, encRealE] at he
        cases hr : encReal delay with
        | none => simp [hr] at he
        | some rm =>
          simp only [hr, Option.map_some, Option.some.injEq] at he; subst he
          simp [decExpr, decTimingExp, fnSym, PE.atom, PE.type, PE.list, Atom.symbolD, e1, e2, e4,
            decReal_enc _ _ hr]

theorem getLast?_append_singleton {α : Type} (l : List α) (a : α) : (l ++ [a]).getLast? = some a :=
  List.getLast?_concat

mutual
theorem decExpr_enc (c : Ctx) : ∀ (e : UExpr) (m : PE), e.wf c = true → encExpr e = some m →
    decExpr c m = some e
  | .boolC b, m, _, he => by
    simp only [encExpr, Option.some.injEq] at he; subst he
    simp [decExpr, decAtom]
  | .intC z, m, _, he => by
    simp only [encExpr, encInt] at he
    split at he
    · simp only [Option.some.injEq] at he; subst he; simp [decExpr, decAtom]
    · cases he
  | .realC r, m, _, he => by
    simp only [encExpr, encRealE] at he
    cases hr : encReal r with
    | none => simp [hr] at he
    | some rm =>
      simp only [hr, Option.map_some, Option.some.injEq] at he; subst he
      simp [decExpr, decAtom, decReal_enc _ _ hr]
  | .obj n t, m, hw, he => by
    simp only [UExpr.wf, beq_iff_eq] at hw
    simp only [encExpr] at he
    cases ht : encTy (.user t) with
    | none => simp [ht] at he
    | some ts =>
      simp only [ht, Option.map_some, Option.some.injEq] at he; subst he
      simp [decExpr, decAtom, hw]
  | .param n t, m, hw, he => by
    simp only [UExpr.wf] at hw
    simp only [encExpr] at he
    cases ht : encTy t with
    | none => simp [ht] at he
    | some ts =>
      simp only [ht, Option.map_some, Option.some.injEq] at he; subst he
      simp only [decExpr, decTy_enc _ _ _ hw ht, Option.map_some, Atom.symbolD]
  | .var v, m, hw, he => by
    simp only [UExpr.wf] at hw
    simp only [encExpr] at he
    exact decExpr_var c v m hw he
  | .timing t, m, _, he => by
    simp only [encExpr] at he
    exact decExpr_timing c t m he
  | .present s, m, _, he => by
    simp only [encExpr, Option.some.injEq] at he; subst he
    simp [decExpr, fnSym, Atom.symbolD, PE.atom]
  | .fluent f args, m, hw, he => by
    simp only [UExpr.wf, Bool.and_eq_true, beq_iff_eq] at hw
    obtain ⟨⟨⟨ho, hf⟩, hl⟩, hargs⟩ := hw
    simp only [encExpr] at he
    cases ht : encTy f.ty with
    | none => simp [ht] at he
    | some ts =>
      cases ha : encExprs args with
      | none => simp [ht, ha] at he
      | some as =>
        simp only [ht, ha, Option.some.injEq] at he; subst he
        have ih := decExprs_enc c args as hargs ha
        simp [decExpr, decAtom, ho, hf, ih, hl]
  | .op o args, m, hw, he => by
    simp only [UExpr.wf] at hw
    simp only [encExpr] at he
    cases ha : encExprs args with
    | none => simp [ha] at he
    | some as =>
      simp only [ha, Option.some.injEq] at he; subst he
      have ih := decExprs_enc c args as hw ha
      simp [decExpr, Atom.symbolD, opName_ne_present, opOfName_opName, ih]
  | .quant q vs body, m, hw, he => by
    simp only [UExpr.wf, Bool.and_eq_true] at hw
    simp only [encExpr] at he
    cases hv : encVars vs with
    | none => simp [hv] at he
    | some ws =>
      cases hb : encExpr body with
      | none => simp [hv, hb] at he
      | some b =>
        simp only [hv, hb, Option.some.injEq] at he; subst he
        have ihb := decExpr_enc c body b hw.2 hb
        have ihv := decExprs_vars c vs ws hw.1 hv
        have hall : decExprs c (ws ++ [b]) = some (vs.map UExpr.var ++ [body]) :=
          decExprs_append c ws [b] _ _ ihv (by simp [decExprs, ihb])
        simp [decExpr, Atom.symbolD, quantName_ne_present, opOfName_quantName, hall,
          decVarList_map]
theorem decExprs_enc (c : Ctx) : ∀ (es : List UExpr) (ms : List PE), UExpr.wfList c es = true →
    encExprs es = some ms → decExprs c ms = some es
  | [], ms, _, he => by simp only [encExprs, Option.some.injEq] at he; subst he; simp [decExprs]
  | e :: es, ms, hw, he => by
    simp only [UExpr.wfList, Bool.and_eq_true] at hw
    simp only [encExprs] at he
    cases h1 : encExpr e with
    | none => simp [h1] at he
    | some a =>
      cases h2 : encExprs es with
      | none => simp [h1, h2] at he
      | some as =>
        simp only [h1, h2, Option.some.injEq] at he; subst he
        simp only [decExprs, decExpr_enc c e a hw.1 h1, decExprs_enc c es as hw.2 h2]
end

/-! ### `optAll` -/

theorem optAll_map_roundtrip {α β γ : Type} (f : α → Option β) (g : β → Option γ) (h : α → γ) :
    ∀ (l : List α) (ms : List β), optAll (l.map f) = some ms →
      (∀ x ∈ l, ∀ y, f x = some y → g y = some (h x)) → optAll (ms.map g) = some (l.map h)
  | [], ms, he, _ => by simp only [List.map_nil, optAll, Option.some.injEq] at he; subst he; rfl
  | x :: l, ms, he, hx => by
    simp only [List.map_cons] at he
    cases hf : f x with
    | none => simp [hf, optAll] at he
    | some y =>
      cases hr : optAll (l.map f) with
      | none => simp [hf, hr, optAll] at he
      | some ys =>
        simp only [hf, hr, optAll, Option.map_some, Option.some.injEq] at he; subst he
        have ih := optAll_map_roundtrip f g h l ys hr (fun z hz => hx z (List.mem_cons_of_mem _ hz))
        simp only [List.map_cons, hx x List.mem_cons_self y hf, optAll, ih, Option.map_some]

theorem optAll_map_some {α β : Type} (k : α → Option β) (k' : α → β) :
    ∀ (l : List α), (∀ x ∈ l, k x = some (k' x)) → optAll (l.map k) = some (l.map k')
  | [], _ => rfl
  | x :: l, h => by
    simp only [List.map_cons, h x List.mem_cons_self, optAll,
      optAll_map_some k k' l (fun z hz => h z (List.mem_cons_of_mem _ hz)), Option.map_some]

theorem optAll_append {α : Type} : ∀ (xs ys : List (Option α)) (as bs : List α),
    optAll xs = some as → optAll ys = some bs → optAll (xs ++ ys) = some (as ++ bs)
  | [], ys, as, bs, h1, h2 => by simp only [optAll, Option.some.injEq] at h1; subst h1; simpa using h2
  | none :: xs, ys, as, bs, h1, h2 => by simp [optAll] at h1
  | some a :: xs, ys, as, bs, h1, h2 => by
    cases hr : optAll xs with
    | none => simp [optAll, hr] at h1
    | some as' =>
      simp only [optAll, hr, Option.map_some, Option.some.injEq] at h1; subst h1
      simp only [List.cons_append, optAll, optAll_append xs ys as' bs hr h2, Option.map_some]

/-- groups: every group `x` is written as a list of messages `f x`; reading all messages of all
    groups gives the concatenation of what each group reads as -/
theorem optAll_flatten_roundtrip {α β γ : Type} (f : α → Option (List β)) (g : β → Option γ)
    (h : α → List γ) : ∀ (l : List α) (gs : List (List β)), optAll (l.map f) = some gs →
      (∀ x ∈ l, ∀ ys, f x = some ys → optAll (ys.map g) = some (h x)) →
      optAll (gs.flatten.map g) = some ((l.map h).flatten)
  | [], gs, he, _ => by simp only [List.map_nil, optAll, Option.some.injEq] at he; subst he; rfl
  | x :: l, gs, he, hx => by
    simp only [List.map_cons] at he
    cases hf : f x with
    | none => simp [hf, optAll] at he
    | some ys =>
      cases hr : optAll (l.map f) with
      | none => simp [hf, hr, optAll] at he
      | some gs' =>
        simp only [hf, hr, optAll, Option.map_some, Option.some.injEq] at he; subst he
        have ih := optAll_flatten_roundtrip f g h l gs' hr (fun z hz => hx z (List.mem_cons_of_mem _ hz))
        simp only [List.flatten_cons, List.map_append, List.map_cons]
        exact optAll_append _ _ _ _ (hx x List.mem_cons_self ys hf) ih

/-! ### insertion-ordered dictionaries of lists -/

section addKV
variable {κ α : Type} [BEq κ] [LawfulBEq κ] [BEq α] [LawfulBEq α]

theorem addKV_new (dedup : Bool) (k : κ) (v : α) : ∀ (acc : List (κ × List α)),
    (∀ p ∈ acc, p.1 ≠ k) → addKV dedup k v acc = acc ++ [(k, [v])]
  | [], _ => rfl
  | (k', vs) :: rest, h => by
    have hk : (k' == k) = false := by
      have := h (k', vs) List.mem_cons_self
      simpa using this
    simp only [addKV, hk, Bool.false_eq_true, if_false, List.cons_append,
      addKV_new dedup k v rest (fun p hp => h p (List.mem_cons_of_mem _ hp))]

theorem addKV_last (dedup : Bool) (k : κ) (v : α) (vs : List α) : ∀ (acc : List (κ × List α)),
    (∀ p ∈ acc, p.1 ≠ k) → (dedup = true → v ∉ vs) →
    addKV dedup k v (acc ++ [(k, vs)]) = acc ++ [(k, vs ++ [v])]
  | [], _, hv => by
    simp only [List.nil_append, addKV, beq_self_eq_true, if_true]
    cases dedup with
    | false => simp
    | true => simp [hv rfl]
  | (k', us) :: rest, h, hv => by
    have hk : (k' == k) = false := by
      have := h (k', us) List.mem_cons_self
      simpa using this
    simp only [List.cons_append, addKV, hk, Bool.false_eq_true, if_false,
      addKV_last dedup k v vs rest (fun p hp => h p (List.mem_cons_of_mem _ hp)) hv]

/-- `(k, v)` pairs of a dictionary of lists, in iteration order -/
def flat (m : List (κ × List α)) : List (κ × α) := (m.map (fun p => p.2.map (fun v => (p.1, v)))).flatten

theorem fold_same_key (dedup : Bool) (k : κ) (acc : List (κ × List α)) (hk : ∀ p ∈ acc, p.1 ≠ k) :
    ∀ (vs us : List α), (dedup = true → (us ++ vs).Nodup) →
    (vs.map (fun v => (k, v))).foldl (fun a p => addKV dedup p.1 p.2 a) (acc ++ [(k, us)]) =
      acc ++ [(k, us ++ vs)]
  | [], us, _ => by simp
  | v :: vs, us, hd => by
    have hv : dedup = true → v ∉ us := by
      intro h
      have := hd h
      rw [List.nodup_append] at this
      intro hm
      exact this.2.2 v hm v List.mem_cons_self rfl
    simp only [List.map_cons, List.foldl_cons, addKV_last dedup k v us acc hk hv]
    have := fold_same_key dedup k acc hk vs (us ++ [v]) (by
      intro h; have := hd h; simpa [List.append_assoc] using this)
    simpa [List.append_assoc] using this

theorem group_flat (dedup : Bool) : ∀ (m acc : List (κ × List α)),
    ((acc ++ m).map (·.1)).Nodup → (∀ p ∈ m, p.2 ≠ []) → (dedup = true → ∀ p ∈ m, p.2.Nodup) →
    (flat m).foldl (fun a p => addKV dedup p.1 p.2 a) acc = acc ++ m
  | [], acc, _, _, _ => by simp [flat]
  | (k, vs) :: rest, acc, hn, hne, hdd => by
    cases vs with
    | nil => exact absurd rfl (hne (k, []) List.mem_cons_self)
    | cons v vs =>
      have hk : ∀ p ∈ acc, p.1 ≠ k := by
        intro p hp e
        simp only [List.map_append, List.map_cons] at hn
        rw [List.nodup_append] at hn
        exact hn.2.2 p.1 (List.mem_map_of_mem hp) k List.mem_cons_self e
      simp only [flat, List.map_cons, List.flatten_cons, List.cons_append, List.foldl_cons,
        List.foldl_append, addKV_new dedup k v acc hk]
      rw [fold_same_key dedup k acc hk vs [v] (by
        intro h; simpa using hdd h (k, v :: vs) List.mem_cons_self)]
      have ih := group_flat dedup rest (acc ++ [(k, v :: vs)]) (by simpa [List.append_assoc] using hn)
        (fun p hp => hne p (List.mem_cons_of_mem _ hp)) (fun h p hp => hdd h p (List.mem_cons_of_mem _ hp))
      simpa [flat, List.append_assoc] using ih

end addKV

theorem fold_addPre : ∀ (l acc : List UExpr), (acc ++ l).Nodup → (∀ e ∈ l, e ≠ .boolC true) →
    l.foldl addPre acc = acc ++ l
  | [], acc, _, _ => by simp
  | e :: l, acc, hn, ht => by
    have h1 : (e == UExpr.boolC true) = false := by simpa using ht e List.mem_cons_self
    have h2 : acc.contains e = false := by
      rw [List.nodup_append] at hn
      have : e ∉ acc := fun hm => hn.2.2 e hm e List.mem_cons_self rfl
      simpa using this
    simp only [List.foldl_cons, addPre, h1, h2, Bool.false_eq_true, if_false]
    have := fold_addPre l (acc ++ [e]) (by simpa [List.append_assoc] using hn)
      (fun x hx => ht x (List.mem_cons_of_mem _ hx))
    simpa [List.append_assoc] using this

theorem fold_addParam : ∀ (l acc : List Param), ((acc ++ l).map (·.name)).Nodup →
    l.foldl addParam acc = acc ++ l
  | [], acc, _ => by simp
  | p :: l, acc, hn => by
    have h1 : acc.any (fun q => q.name == p.name) = false := by
      simp only [List.map_append, List.map_cons] at hn
      rw [List.nodup_append] at hn
      rw [Bool.eq_false_iff]
      intro h
      rw [List.any_eq_true] at h
      obtain ⟨q, hq, he⟩ := h
      exact hn.2.2 q.name (List.mem_map_of_mem hq) p.name List.mem_cons_self (by simpa using he)
    simp only [List.foldl_cons, addParam, h1, Bool.false_eq_true, if_false]
    have := fold_addParam l (acc ++ [p]) (by simpa [List.append_assoc] using hn)
    simpa [List.append_assoc] using this

/-! ### effects, durations, actions -/

theorem decEffect_enc (c : Ctx) (e : Effect) (m : EffectMsg) (hw : e.wf c = true)
    (he : encEffect e = some m) : decEffect c m = some e := by
  cases e with
  | mk kind fl v cd fa =>
  simp only [Effect.wf, Bool.and_eq_true] at hw
  obtain ⟨⟨⟨⟨hfl, hwf⟩, hwv⟩, hwc⟩, hfa⟩ := hw
  simp only [encEffect] at he
  cases h1 : encExpr fl with
  | none => simp [h1] at he
  | some f' =>
    cases h2 : encExpr v with
    | none => simp [h1, h2] at he
    | some v' =>
      cases h3 : encExpr cd with
      | none => simp [h1, h2, h3] at he
      | some c' =>
        cases h4 : encVars fa with
        | none => simp [h1, h2, h3, h4] at he
        | some vs =>
          simp only [h1, h2, h3, h4, Option.some.injEq] at he; subst he
          simp only [decEffect, decExpr_enc c fl f' hwf h1, decExpr_enc c v v' hwv h2,
            decExpr_enc c cd c' hwc h3, decExprs_vars c fa vs hfa h4, decVarList_map, hfl, if_true]

theorem decDuration_enc (c : Ctx) (d : DurInterval) (m : DurationMsg)
    (hl : d.lower.wf c = true) (hu : d.upper.wf c = true)
    (he : encDuration d = some m) : decDuration c m = some d := by
  cases d with
  | mk lo hi lop rop =>
  simp only [encDuration] at he
  cases h1 : encExpr lo with
  | none => simp [h1] at he
  | some l =>
    cases h2 : encExpr hi with
    | none => simp [h1, h2] at he
    | some u =>
      simp only [h1, h2, Option.some.injEq] at he; subst he
      simp only [decDuration, decExpr_enc c lo l hl h1, decExpr_enc c hi u hu h2]

theorem decParams_enc (c : Ctx) (ps : List Param) (ms : List (String × String))
    (hn : (ps.map (·.name)).Nodup) (hd : ∀ p ∈ ps, tyDeclared c.types p.ty = true)
    (he : optAll (ps.map encParam) = some ms) :
    optAll (ms.map (decParam c)) = some ps ∧ ps.foldl addParam [] = ps := by
  have h := optAll_map_roundtrip encParam (decParam c) id ps ms he
    (by
      intro p hp y hy
      unfold encParam at hy
      cases ht : encTy p.ty with
      | none => simp [ht] at hy
      | some ts =>
        simp only [ht, Option.map_some, Option.some.injEq] at hy; subst hy
        simp only [decParam, decTy_enc _ _ _ (hd p hp) ht, Option.map_some, id])
  refine ⟨by simpa using h, ?_⟩
  have := fold_addParam ps [] (by simpa using hn)
  simpa using this

theorem decCondGroup_enc (c : Ctx) (p : TimeInterval × List UExpr) (ys : List CondMsg)
    (hok : p.1.ok = true) (hwf : ∀ e ∈ p.2, e.wf c = true) (hy : encCondGroup p = some ys) :
    optAll (ys.map (decCond c)) = some (p.2.map (fun e => (e, some p.1))) := by
  simp only [TimeInterval.ok, Timing.ok, Bool.and_eq_true, bne_iff_ne, ne_eq] at hok
  unfold encCondGroup at hy
  cases hi : encTimeInterval p.1 with
  | none => simp [hi] at hy
  | some sp =>
    simp only [hi] at hy
    exact optAll_map_roundtrip _ _ _ p.2 ys hy (by
      intro e hme y hye
      cases hx : encExpr e with
      | none => simp [hx] at hye
      | some x =>
        simp only [hx, Option.map_some, Option.some.injEq] at hye; subst hye
        simp only [decCond, decExpr_enc c e x (hwf e hme) hx,
          decTimeInterval_enc p.1 sp hok.1 hok.2 hi, Option.map_some])

theorem decEffGroup_enc (c : Ctx) (p : Timing × List Effect) (ys : List EffMsg)
    (hok : p.1.ok = true) (hwf : ∀ e ∈ p.2, e.wf c = true) (hy : encEffGroup p = some ys) :
    optAll (ys.map (decEff c)) = some (p.2.map (fun e => (e, some p.1))) := by
  simp only [Timing.ok, bne_iff_ne, ne_eq] at hok
  unfold encEffGroup at hy
  cases hi : encTiming p.1 with
  | none => simp [hi] at hy
  | some t =>
    simp only [hi] at hy
    exact optAll_map_roundtrip _ _ _ p.2 ys hy (by
      intro e hme y hye
      cases hx : encEffect e with
      | none => simp [hx] at hye
      | some x =>
        simp only [hx, Option.map_some, Option.some.injEq] at hye; subst hye
        simp only [decEff, decEffect_enc c e x (hwf e hme) hx, decTiming_enc p.1 t hok hi,
          Option.map_some])

/-- regrouping the `(value, some key)` pairs read from the flattened messages -/
theorem needKey_flat {κ α : Type} [BEq κ] [BEq α] (m : List (κ × List α)) :
    optAll (((m.map (fun p => p.2.map (fun e => (e, some p.1)))).flatten).map needKey) = some (flat m) := by
  induction m with
  | nil => rfl
  | cons p m ih =>
    simp only [List.map_cons, List.flatten_cons, List.map_append]
    have h1 : optAll ((p.2.map (fun e => (e, some p.1))).map needKey) = some (p.2.map (fun v => (p.1, v))) := by
      rw [List.map_map]
      exact optAll_map_some _ _ p.2 (fun x _ => rfl)
    have := optAll_append _ _ _ _ h1 ih
    simpa [flat] using this

theorem decAction_enc (c : Ctx) (a : Action) (m : ActionMsg) (hw : a.WF c)
    (he : encAction a = some m) : decAction c m = some a := by
  cases a with
  | inst name ps pre effs =>
    obtain ⟨hn, hd, hpn, hpre, heff⟩ := hw
    simp only [encAction] at he
    cases h1 : optAll (ps.map encParam) with
    | none => simp [h1] at he
    | some pm =>
      cases h2 : optAll (pre.map encExpr) with
      | none => simp [h1, h2] at he
      | some cs =>
        cases h3 : optAll (effs.map encEffect) with
        | none => simp [h1, h2, h3] at he
        | some es =>
          simp only [h1, h2, h3, Option.some.injEq] at he; subst he
          obtain ⟨hp1, hp2⟩ := decParams_enc c ps pm hn hd h1
          have hc : optAll ((cs.map (fun m => ({ cond := m, span := none } : CondMsg))).map (decCond c)) =
              some (pre.map (fun e => (e, (none : Option TimeInterval)))) := by
            rw [List.map_map]
            exact optAll_map_roundtrip encExpr _ _ pre cs h2
              (by intro e hm y hy; simp only [Function.comp, decCond, decExpr_enc c e y (hpre e hm).2 hy])
          have hef : optAll ((es.map (fun m => ({ effect := m, time := none } : EffMsg))).map (decEff c)) =
              some (effs.map (fun e => (e, (none : Option Timing)))) := by
            rw [List.map_map]
            exact optAll_map_roundtrip encEffect _ _ effs es h3
              (by intro e hm y hy; simp only [Function.comp, decEff, decEffect_enc c e y (heff e hm) hy])
          have hf := fold_addPre pre [] (by simpa using hpn) (fun e hm => (hpre e hm).1)
          simp only [List.nil_append] at hf
          simp only [decAction, hp1, hp2, hc, hef]
          simp only [List.map_map, Function.comp_def, List.map_id', hf]
  | dur name ps d conds effs =>
    obtain ⟨hn, hd, hdl, hdu, hck, hcg, hek, heg⟩ := hw
    simp only [encAction] at he
    cases h1 : optAll (ps.map encParam) with
    | none => simp [h1] at he
    | some pm =>
      cases h0 : encDuration d with
      | none => simp [h1, h0] at he
      | some dm =>
        cases h2 : encTimedConds conds with
        | none => simp [h1, h0, h2] at he
        | some cs =>
          cases h3 : encTimedEffs effs with
          | none => simp [h1, h0, h2, h3] at he
          | some es =>
            simp only [h1, h0, h2, h3, Option.some.injEq] at he; subst he
            obtain ⟨hp1, hp2⟩ := decParams_enc c ps pm hn hd h1
            unfold encTimedConds at h2
            cases hg : optAll (conds.map encCondGroup) with
            | none => simp [hg] at h2
            | some gs =>
              simp only [hg, Option.map_some, Option.some.injEq] at h2; subst h2
              have hc := optAll_flatten_roundtrip encCondGroup (decCond c)
                (fun (p : TimeInterval × List UExpr) => p.2.map (fun e => (e, some p.1))) conds gs hg
                (fun p hm ys hy => decCondGroup_enc c p ys (hcg p hm).1 (hcg p hm).2.2.2 hy)
              unfold encTimedEffs at h3
              cases hg2 : optAll (effs.map encEffGroup) with
              | none => simp [hg2] at h3
              | some gs2 =>
                simp only [hg2, Option.map_some, Option.some.injEq] at h3; subst h3
                have hef := optAll_flatten_roundtrip encEffGroup (decEff c)
                  (fun (p : Timing × List Effect) => p.2.map (fun e => (e, some p.1))) effs gs2 hg2
                  (fun p hm ys hy => decEffGroup_enc c p ys (heg p hm).1 (heg p hm).2.2 hy)
                have g1 := group_flat true conds [] (by simpa using hck) (fun p hm => (hcg p hm).2.1)
                  (fun _ p hm => (hcg p hm).2.2.1)
                have g2 := group_flat false effs [] (by simpa using hek) (fun p hm => (heg p hm).2.1)
                  (fun h => by cases h)
                simp only [List.nil_append] at g1 g2
                simp only [decAction, hp1, hp2, decDuration_enc c d dm hdl hdu h0, Option.map_some, hc, hef,
                  needKey_flat, g1, g2]

/-! ### problems -/

theorem reserved_facts (n : String) (h : reserved n = false) :
    n ≠ "up:bool" ∧ intPrefix.isPrefixOf n.toList = false ∧ realPrefix.isPrefixOf n.toList = false := by
  unfold reserved at h
  refine ⟨?_, ?_, ?_⟩
  · intro e; subst e; revert h; decide
  · cases hp : intPrefix.isPrefixOf n.toList with
    | false => rfl
    | true =>
      have := isPrefixOf_of_append reservedPrefix ['i', 'n', 't', 'e', 'g', 'e', 'r', '['] n.toList hp
      rw [this] at h; cases h
  · cases hp : realPrefix.isPrefixOf n.toList with
    | false => rfl
    | true =>
      have := isPrefixOf_of_append reservedPrefix ['r', 'e', 'a', 'l', '['] n.toList hp
      rw [this] at h; cases h

theorem encTy_user (n ts : String) (h : encTy (.user n) = some ts) : reserved n = false ∧ ts = n := by
  unfold encTy encTyChars at h
  cases hr : reserved n with
  | true => simp [hr] at h
  | false =>
    simp only [hr, Bool.false_eq_true, if_false, Option.map_some, Option.some.injEq,
      String.ofList_toList] at h
    exact ⟨rfl, h.symm⟩

theorem decTypes_enc : ∀ (types : List (String × Option String)) (ts : List (String × String))
    (acc : List (String × Option String)), optAll (types.map encTypeDecl) = some ts →
    typesOK types (acc.map (·.1)) = true → decTypes ts acc = some (acc ++ types)
  | [], ts, acc, he, _ => by
    simp only [List.map_nil, optAll, Option.some.injEq] at he; subst he; simp [decTypes]
  | (n, f) :: rest, ts, acc, he, hok => by
    simp only [List.map_cons] at he
    cases h1 : encTypeDecl (n, f) with
    | none => simp [h1, optAll] at he
    | some d =>
      cases h2 : optAll (rest.map encTypeDecl) with
      | none => simp [h1, h2, optAll] at he
      | some ds =>
        simp only [h1, h2, optAll, Option.map_some, Option.some.injEq] at he; subst he
        simp only [typesOK, Bool.and_eq_true] at hok
        unfold encTypeDecl at h1
        cases hn : encTy (.user n) with
        | none => simp [hn] at h1
        | some n' =>
          obtain ⟨hr, rfl⟩ := encTy_user n n' hn
          obtain ⟨f1, f2, f3⟩ := reserved_facts n' hr
          cases f with
          | none =>
            simp only [hn, Option.some.injEq] at h1; subst h1
            have ih := decTypes_enc rest ds (acc ++ [(n', none)]) h2 (by simpa using hok.2)
            simp only [decTypes, f1, f2, f3, Bool.false_eq_true, or_self, if_false, if_true]
            simpa [List.append_assoc] using ih
          | some fa =>
            simp only [hn] at h1
            cases hf : encTy (.user fa) with
            | none => simp [hf] at h1
            | some fa' =>
              obtain ⟨_, rfl⟩ := encTy_user fa fa' hf
              simp only [hf, Option.some.injEq] at h1; subst h1
              simp only [Bool.and_eq_true, bne_iff_ne, ne_eq] at hok
              have ih := decTypes_enc rest ds (acc ++ [(n', some fa')]) h2 (by simpa using hok.2)
              simp only [decTypes, f1, f2, f3, Bool.false_eq_true, or_self, if_false, hok.1.1, hok.1.2, if_true]
              simpa [List.append_assoc] using ih

theorem decObjects_enc (tn : TypeNames) (objects : List (String × String)) (os : List (String × String))
    (hd : ∀ o ∈ objects, tn.contains o.2 = true) (he : optAll (objects.map encObject) = some os) :
    optAll (os.map (decObject tn)) = some objects := by
  have := optAll_map_roundtrip encObject (decObject tn) id objects os he (by
    intro o hm y hy
    unfold encObject at hy
    cases ht : encTy (.user o.2) with
    | none => simp [ht] at hy
    | some ts =>
      simp only [ht, Option.map_some, Option.some.injEq] at hy; subst hy
      simp only [decObject, decTy_enc tn (.user o.2) ts (by simpa [tyDeclared] using hd o hm) ht, id])
  simpa using this

theorem wf_const_ctx (c c' : Ctx) (ho : c.objects = c'.objects) :
    ∀ (d : UExpr), d.isConst = true → d.wf c = true → d.wf c' = true
  | .boolC _, _, _ => by simp [UExpr.wf]
  | .intC _, _, _ => by simp [UExpr.wf]
  | .realC _, _, _ => by simp [UExpr.wf]
  | .obj n t, _, h => by simpa [UExpr.wf, Ctx.object?, ho] using h
  | .param _ _, h, _ => by simp [UExpr.isConst] at h
  | .var _, h, _ => by simp [UExpr.isConst] at h
  | .timing _, h, _ => by simp [UExpr.isConst] at h
  | .present _, h, _ => by simp [UExpr.isConst] at h
  | .fluent _ _, h, _ => by simp [UExpr.isConst] at h
  | .op _ _, h, _ => by simp [UExpr.isConst] at h
  | .quant _ _ _, h, _ => by simp [UExpr.isConst] at h

theorem sigNames_length (n : Nat) : (sigNames n).length = n := by simp [sigNames]

theorem decFluents_enc (tn : TypeNames) (objects : List (String × String)) (c0 : Ctx)
    (hc0 : c0.objects = objects) :
    ∀ (fluents : List (FluentRef × Option UExpr)) (fms : List FluentMsg) (acc : List (FluentRef × Option UExpr)),
    optAll (fluents.map (fun f => encFluent f (sigNames f.1.sig.length))) = some fms →
    (∀ f ∈ fluents, tyDeclared tn f.1.ty = true ∧ (∀ t ∈ f.1.sig, tyDeclared tn t = true) ∧
        ∀ d ∈ f.2.toList, d.isConst = true ∧ d.wf c0 = true) →
    fms.foldl (decFluentStep tn objects) (some acc) = some (acc ++ fluents)
  | [], fms, acc, he, _ => by
    simp only [List.map_nil, optAll, Option.some.injEq] at he; subst he; simp
  | f :: rest, fms, acc, he, hw => by
    simp only [List.map_cons] at he
    cases h1 : encFluent f (sigNames f.1.sig.length) with
    | none => simp [h1, optAll] at he
    | some fm =>
      cases h2 : optAll (rest.map (fun f => encFluent f (sigNames f.1.sig.length))) with
      | none => simp [h1, h2, optAll] at he
      | some fms' =>
        simp only [h1, h2, optAll, Option.map_some, Option.some.injEq] at he; subst he
        obtain ⟨hty, hsig, hdef⟩ := hw f List.mem_cons_self
        have ih := decFluents_enc tn objects c0 hc0 rest fms' (acc ++ [f]) h2
          (fun g hg => hw g (List.mem_cons_of_mem _ hg))
        unfold encFluent at h1
        cases e1 : encTy f.1.ty with
        | none => simp [e1] at h1
        | some vt =>
          cases e2 : optAll (((sigNames f.1.sig.length).zip f.1.sig).map (fun p => (encTy p.2).map (fun t => (p.1, t)))) with
          | none => simp [e1, e2] at h1
          | some ps =>
            have hsigdec : optAll (ps.map (fun p => decTy tn p.2)) = some f.1.sig := by
              have := optAll_map_roundtrip (fun (p : String × Ty) => (encTy p.2).map (fun t => (p.1, t)))
                (fun (p : String × String) => decTy tn p.2) (fun p => p.2) _ ps e2 (by
                  intro p hm y hy
                  cases ht : encTy p.2 with
                  | none => simp [ht] at hy
                  | some ts =>
                    simp only [ht, Option.map_some, Option.some.injEq] at hy; subst hy
                    exact decTy_enc tn p.2 ts (hsig p.2 (List.of_mem_zip hm).2) ht)
              rw [this]
              congr 1
              exact List.map_snd_zip (by rw [sigNames_length]; exact Nat.le_refl _)
            cases hd : f.2 with
            | none =>
              simp only [e1, e2, hd, Option.some.injEq] at h1; subst h1
              simp only [List.foldl_cons, decFluentStep, decTy_enc tn f.1.ty vt hty e1, hsigdec]
              have : (({ name := f.1.name, ty := f.1.ty, sig := f.1.sig } : FluentRef), (none : Option UExpr)) = f := by
                cases f with
                | mk r d => cases r; simp only at hd; subst hd; rfl
              rw [this]
              simpa [List.append_assoc] using ih
            | some d =>
              simp only [e1, e2, hd] at h1
              cases e3 : encExpr d with
              | none => simp [e3] at h1
              | some dm =>
                simp only [e3, Option.map_some, Option.some.injEq] at h1; subst h1
                obtain ⟨hconst, hwf⟩ := hdef d (by simp [hd])
                have hwf' := wf_const_ctx c0 { types := tn, objects := objects, fluents := acc.map (fun f => f.1) }
                  hc0 d hconst hwf
                simp only [List.foldl_cons, decFluentStep, decTy_enc tn f.1.ty vt hty e1, hsigdec,
                  decExpr_enc _ d dm hwf' e3, Option.map_some]
                have : (({ name := f.1.name, ty := f.1.ty, sig := f.1.sig } : FluentRef), some d) = f := by
                  cases f with
                  | mk r d' => cases r; simp only at hd; subst hd; rfl
                rw [this]
                simpa [List.append_assoc] using ih

theorem fold_setInit : ∀ (l acc : List (UExpr × UExpr)), ((acc ++ l).map (·.1)).Nodup →
    l.foldl setInit acc = acc ++ l
  | [], acc, _ => by simp
  | kv :: l, acc, hn => by
    have h1 : acc.any (fun q => q.1 == kv.1) = false := by
      simp only [List.map_append, List.map_cons] at hn
      rw [List.nodup_append] at hn
      rw [Bool.eq_false_iff]
      intro h
      rw [List.any_eq_true] at h
      obtain ⟨q, hq, he⟩ := h
      exact hn.2.2 q.1 (List.mem_map_of_mem hq) kv.1 List.mem_cons_self (by simpa using he)
    simp only [List.foldl_cons, setInit, h1, Bool.false_eq_true, if_false]
    have := fold_setInit l (acc ++ [kv]) (by simpa [List.append_assoc] using hn)
    simpa [List.append_assoc] using this

theorem filterMap_of_optAll {α β : Type} (f : α → Option β) : ∀ (l : List α) (r : List β),
    optAll (l.map f) = some r → l.filterMap f = r
  | [], r, h => by simp only [List.map_nil, optAll, Option.some.injEq] at h; subst h; rfl
  | x :: l, r, h => by
    simp only [List.map_cons] at h
    cases hx : f x with
    | none => simp [hx, optAll] at h
    | some y =>
      cases hr : optAll (l.map f) with
      | none => simp [hx, hr, optAll] at h
      | some ys =>
        simp only [hx, hr, optAll, Option.map_some, Option.some.injEq] at h; subst h
        simp [List.filterMap_cons, hx, filterMap_of_optAll f l ys hr]

theorem decTimedEffGroup_enc (c : Ctx) (p : Timing × List Effect) (ys : List (EffectMsg × TimingMsg))
    (hok : p.1.ok = true) (hwf : ∀ e ∈ p.2, e.wf c = true) (hy : encTimedEffGroup p = some ys) :
    optAll (ys.map (decTimedEff c)) = some (p.2.map (fun e => (p.1, e))) := by
  simp only [Timing.ok, bne_iff_ne, ne_eq] at hok
  unfold encTimedEffGroup at hy
  cases hi : encTiming p.1 with
  | none => simp [hi] at hy
  | some t =>
    simp only [hi] at hy
    exact optAll_map_roundtrip _ _ _ p.2 ys hy (by
      intro e hme y hye
      cases hx : encEffect e with
      | none => simp [hx] at hye
      | some x =>
        simp only [hx, Option.map_some, Option.some.injEq] at hye; subst hye
        simp only [decTimedEff, decEffect_enc c e x (hwf e hme) hx, decTiming_enc p.1 t hok hi])

theorem decTimedGoalGroup_enc (c : Ctx) (p : TimeInterval × List UExpr) (ys : List GoalMsg)
    (hok : p.1.ok = true) (hwf : ∀ e ∈ p.2, e.wf c = true) (hy : encTimedGoalGroup p = some ys) :
    optAll (ys.map (decGoal c)) = some (p.2.map (fun e => (e, some p.1))) := by
  simp only [TimeInterval.ok, Timing.ok, Bool.and_eq_true, bne_iff_ne, ne_eq] at hok
  unfold encTimedGoalGroup at hy
  cases hi : encTimeInterval p.1 with
  | none => simp [hi] at hy
  | some sp =>
    simp only [hi] at hy
    exact optAll_map_roundtrip _ _ _ p.2 ys hy (by
      intro e hme y hye
      cases hx : encExpr e with
      | none => simp [hx] at hye
      | some x =>
        simp only [hx, Option.map_some, Option.some.injEq] at hye; subst hye
        simp only [decGoal, decExpr_enc c e x (hwf e hme) hx,
          decTimeInterval_enc p.1 sp hok.1 hok.2 hi, Option.map_some])

theorem decEpsilon_enc (e : Option Rat) (m : Option RealMsg) (h : encEpsilon e = some m) :
    decEpsilon m = some e := by
  cases e with
  | none => simp only [encEpsilon, Option.some.injEq] at h; subst h; rfl
  | some q =>
    simp only [encEpsilon] at h
    cases hr : encReal q with
    | none => simp [hr] at h
    | some rm =>
      simp only [hr, Option.map_some, Option.some.injEq] at h; subst h
      simp only [decEpsilon, decReal_enc q rm hr, Option.map_some]

theorem decProblem_enc (p : Problem) (m : ProblemMsg) (hw : p.WF) (he : encProblem p = some m) :
    decProblem m = some p := by
  obtain ⟨hname, htypes, hobjs, hfl, hact, hik, hiw, htek, hteg, hg, htgk, htgg⟩ := hw
  unfold encProblem at he
  cases e1 : optAll (p.types.map encTypeDecl) with
  | none => simp [e1] at he
  | some ts =>
  cases e2 : optAll (p.fluents.map (fun f => encFluent f (sigNames f.1.sig.length))) with
  | none => simp [e1, e2] at he
  | some fs =>
  cases e3 : optAll (p.objects.map encObject) with
  | none => simp [e1, e2, e3] at he
  | some os =>
  cases e4 : optAll (p.actions.map encAction) with
  | none => simp [e1, e2, e3, e4] at he
  | some as =>
  cases e5 : optAll (p.init.map encInit) with
  | none => simp [e1, e2, e3, e4, e5] at he
  | some ini =>
  cases e6 : optAll (p.timedEffects.map encTimedEffGroup) with
  | none => simp [e1, e2, e3, e4, e5, e6] at he
  | some tes =>
  cases e7 : optAll (p.goals.map encGoal) with
  | none => simp [e1, e2, e3, e4, e5, e6, e7] at he
  | some gs =>
  cases e8 : optAll (p.timedGoals.map encTimedGoalGroup) with
  | none => simp [e1, e2, e3, e4, e5, e6, e7, e8] at he
  | some tgs =>
  cases e9 : encEpsilon p.epsilon with
  | none => simp [e1, e2, e3, e4, e5, e6, e7, e8, e9] at he
  | some eps =>
  simp only [e1, e2, e3, e4, e5, e6, e7, e8, e9, Option.map_some, Option.some.injEq] at he
  subst he
  have d1 := decTypes_enc p.types ts [] e1 (by simpa using htypes)
  simp only [List.nil_append] at d1
  have d3 := decObjects_enc (p.types.map (·.1)) p.objects os hobjs e3
  have d2 := decFluents_enc (p.types.map (·.1)) p.objects p.ctx rfl p.fluents fs [] e2 hfl
  simp only [List.nil_append] at d2
  have d4 := optAll_map_roundtrip encAction (decAction p.ctx) id p.actions as e4
    (fun a hm y hy => decAction_enc p.ctx a y (hact a hm) hy)
  have d5 := optAll_map_roundtrip encInit (decInit p.ctx) id p.init ini e5 (by
    intro a hm y hy
    unfold encInit at hy
    cases h1 : encExpr a.1 with
    | none => simp [h1] at hy
    | some x =>
      cases h2 : encExpr a.2 with
      | none => simp [h1, h2] at hy
      | some v =>
        simp only [h1, h2, Option.some.injEq] at hy; subst hy
        simp only [decInit, decExpr_enc p.ctx a.1 x (hiw a hm).1 h1, decExpr_enc p.ctx a.2 v (hiw a hm).2 h2, id])
  have d6 := optAll_flatten_roundtrip encTimedEffGroup (decTimedEff p.ctx)
    (fun (g : Timing × List Effect) => g.2.map (fun e => (g.1, e))) p.timedEffects tes e6
    (fun g hm ys hy => decTimedEffGroup_enc p.ctx g ys (hteg g hm).1 (hteg g hm).2.2 hy)
  have d7 := optAll_map_roundtrip encGoal (decGoal p.ctx) (fun e => (e, (none : Option TimeInterval))) p.goals gs e7 (by
    intro e hm y hy
    unfold encGoal at hy
    cases hx : encExpr e with
    | none => simp [hx] at hy
    | some x =>
      simp only [hx, Option.map_some, Option.some.injEq] at hy; subst hy
      simp only [decGoal, decExpr_enc p.ctx e x (hg e hm).2 hx])
  have d8 := optAll_flatten_roundtrip encTimedGoalGroup (decGoal p.ctx)
    (fun (g : TimeInterval × List UExpr) => g.2.map (fun e => (e, some g.1))) p.timedGoals tgs e8
    (fun g hm ys hy => decTimedGoalGroup_enc p.ctx g ys (htgg g hm).1 (htgg g hm).2.2.2 hy)
  have d78 := optAll_append _ _ _ _ d7 d8
  rw [← List.map_append] at d78
  have d9 := decEpsilon_enc p.epsilon eps e9
  have i1 := fold_setInit p.init [] (by simpa using hik)
  have i2 := group_flat false p.timedEffects [] (by simpa using htek) (fun g hm => (hteg g hm).2.1)
    (fun h => by cases h)
  have i3 := group_flat true p.timedGoals [] (by simpa using htgk) (fun g hm => (htgg g hm).2.1)
    (fun _ g hm => (htgg g hm).2.2.1)
  simp only [List.nil_append] at i1 i2 i3
  have hctx : ({ types := p.types.map (·.1), objects := p.objects, fluents := p.fluents.map (·.1) } : Ctx) = p.ctx := rfl
  -- plain and timed goals out of the mixed list
  have g1 : ((p.goals.map (fun e => (e, (none : Option TimeInterval)))) ++
      (p.timedGoals.map (fun g => g.2.map (fun e => (e, some g.1)))).flatten).filterMap
        (fun q => if q.2.isNone then some q.1 else none) = p.goals := by
    rw [List.filterMap_append, List.filterMap_map]
    have hB : ((p.timedGoals.map (fun g => g.2.map (fun e => (e, some g.1)))).flatten).filterMap
        (fun (q : UExpr × Option TimeInterval) => if q.2.isNone then some q.1 else none) = [] := by
      rw [List.filterMap_eq_nil_iff]
      intro x hx
      simp only [List.mem_flatten, List.mem_map] at hx
      obtain ⟨l, ⟨g, _, rfl⟩, hx⟩ := hx
      simp only [List.mem_map] at hx
      obtain ⟨e, _, rfl⟩ := hx
      rfl
    rw [hB]
    simp [Function.comp_def]
  have g2 : ((p.goals.map (fun e => (e, (none : Option TimeInterval)))) ++
      (p.timedGoals.map (fun g => g.2.map (fun e => (e, some g.1)))).flatten).filterMap needKey =
        flat p.timedGoals := by
    rw [List.filterMap_append, List.filterMap_map]
    have hA : p.goals.filterMap (needKey ∘ fun e => (e, (none : Option TimeInterval))) = [] := by
      rw [List.filterMap_eq_nil_iff]; intro x _; rfl
    rw [hA, filterMap_of_optAll needKey _ _ (needKey_flat p.timedGoals)]
    rfl
  have g3 : p.goals.filter (fun e => !(e == UExpr.boolC true)) = p.goals := by
    rw [List.filter_eq_self]
    intro e hm
    have := (hg e hm).1
    simpa using this
  unfold decProblem
  simp only [d1, d3, d2, hctx]
  simp only [d4, d5, d6, d78, d9, List.map_id_fun, id, g1, g2, g3, i1, i3]
  have hflat : (p.timedEffects.map (fun g => g.2.map (fun e => (g.1, e)))).flatten = flat p.timedEffects := rfl
  rw [hflat, i2]
  have hn : (if p.name.getD "" = "" then none else some (p.name.getD "")) = p.name := by
    cases hp : p.name with
    | none => simp
    | some s =>
      have : s ≠ "" := fun e => hname (by rw [hp, e])
      simp [this]
  rw [hn]

end UPVerif.Proto
