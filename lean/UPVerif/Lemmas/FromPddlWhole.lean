import UPVerif.Lemmas.FromPddlDecls
/-!
Helper lemmas for C21, the whole problem: the two readers on a pair of files without action costs.
-/
namespace UPVerif.FromPddl
open UPVerif UPVerif.Expr UPVerif.Pddl

/-! ### no function called `total-cost` -/

theorem readFunctions_noTC (E : REnv) (l : List Sexp) : ∀ (funs : List FluentRef), readFunctions E l = some funs →
    noTotalCost l = true → funs.any (fun f => f.name == "total-cost") = false := by
  fun_induction readFunctions E l with
  | case1 => intro funs h _; cases h; rfl
  | case2 n ps rt rest ih =>
    intro funs h hn
    simp only [Option.bind_eq_bind] at h
    rw [Option.bind_eq_some_iff] at h; obtain ⟨gs, _, h⟩ := h
    replace h := (ite_none_inv h rfl).2
    rw [Option.bind_eq_some_iff] at h; obtain ⟨sig, _, h⟩ := h
    rw [Option.bind_eq_some_iff] at h; obtain ⟨ty, _, h⟩ := h
    rw [Option.bind_eq_some_iff] at h; obtain ⟨more, hmore, h⟩ := h
    cases h
    simp only [noTotalCost, Bool.and_eq_true, bne_iff_ne, ne_eq] at hn
    simp [List.any_cons, ih more hmore hn.2, hn.1]
  | case3 n ps rest hx ih =>
    intro funs h hn
    simp only [Option.bind_eq_bind] at h
    rw [Option.bind_eq_some_iff] at h; obtain ⟨gs, _, h⟩ := h
    replace h := (ite_none_inv h rfl).2
    rw [Option.bind_eq_some_iff] at h; obtain ⟨sig, _, h⟩ := h
    rw [Option.bind_eq_some_iff] at h; obtain ⟨more, hmore, h⟩ := h
    cases h
    simp only [noTotalCost, Bool.and_eq_true, bne_iff_ne, ne_eq] at hn
    simp [List.any_cons, ih more hmore hn.2, hn.1]
  | case4 => intro funs h _; cases h

theorem astFunctions_noTC (l : List Sexp) : ∀ (funs : List (String × List TVar)), astFunctions l = some funs →
    noTotalCost l = true → funs.any (fun f => f.1 == "total-cost" && f.2.isEmpty) = false := by
  fun_induction astFunctions l with
  | case1 => intro funs h _; cases h; rfl
  | case2 n ps rest ih =>
    intro funs h hn
    simp only [Option.bind_eq_bind] at h
    rw [Option.bind_eq_some_iff] at h; obtain ⟨vs, _, h⟩ := h
    rw [Option.bind_eq_some_iff] at h; obtain ⟨more, hmore, h⟩ := h
    cases h
    simp only [noTotalCost, Bool.and_eq_true, bne_iff_ne, ne_eq] at hn
    simp [List.any_cons, ih more hmore hn.2, hn.1]
  | case3 n ps rest hx ih =>
    intro funs h hn
    simp only [Option.bind_eq_bind] at h
    rw [Option.bind_eq_some_iff] at h; obtain ⟨vs, _, h⟩ := h
    rw [Option.bind_eq_some_iff] at h; obtain ⟨more, hmore, h⟩ := h
    cases h
    simp only [noTotalCost, Bool.and_eq_true, bne_iff_ne, ne_eq] at hn
    simp [List.any_cons, ih more hmore hn.2, hn.1]
  | case4 => intro funs h _; cases h

/-! ### the statement -/

/-- the symbol table of a problem, as a reading environment -/
def envOf (P : Problem) : REnv := { types := [], fluents := P.fluents.map (·.ref), objects := P.objects, params := none }

/-- the context in which the external parser reads the domain's formulas -/
def ctxOf (A : PddlAst) : PCtx := { reqs := extendReqs A.dom.reqs, consts := some (A.dom.constants.map (·.1)) }

/-- the side conditions on the two files (their sections `D`, `Q`) -/
structure FilesOK (fl : List FluentRef) (C : PCtx) (D : DomainSecs) (Q : ProblemSecs) : Prop where
  /-- no predicate declaration is repeated verbatim (the external parser keeps them in a set) -/
  predsNodup : ∀ sk, D.predicates.mapM astSkeleton = some sk → sk.Nodup
  /-- D-C21a/b/c and the other conditions on actions -/
  acts : ∀ t ∈ D.actions, actionOK fl C t = true
  /-- no action is repeated verbatim (the external parser keeps the actions in a set) -/
  actsNodup : ∀ pas, astActions C D.actions = some pas → pas.Nodup
  /-- no `:init` item is repeated verbatim (the external parser keeps them in a set) -/
  initNodup : ∀ φs, astInit C0 Q.init = some φs → φs.Nodup
  goal : ∀ g, Q.goal = some g → gdOK fl C0 g = true
  metric : ∀ o m, Q.metric = some (o, m) → fexpOK C0 m = true

inductive MetricRel : Metric → Metric → Prop
  | minFinal {a b : Expr} : FRel a b → MetricRel (.minFinal a) (.minFinal b)
  | maxFinal {a b : Expr} : FRel a b → MetricRel (.maxFinal a) (.maxFinal b)

/-- what relates the two readers' problems -/
structure ProblemRel (P R : Problem) : Prop where
  name : P.name = R.name
  fluents : P.fluents = R.fluents
  objects : P.objects = R.objects
  init : P.init = R.init
  goals : GdRel (mkAnd P.goals) (mkAnd R.goals)
  actions : All2 (fun a a' => ActRel Expr.tt a a' none) P.actions R.actions
  metrics : All2 MetricRel P.metrics R.metrics

/-! ### assembly -/

theorem all2_fst {α β γ : Type} {R : α → β → Option γ → Prop} : ∀ {as : List α} {bs : List (β × Option γ)},
    All2 (fun a r => R a r.1 r.2) as bs → (∀ r ∈ bs, r.2 = none) → All2 (fun a b => R a b none) as (bs.map (·.1))
  | [], [], _, _ => trivial
  | a :: as, b :: bs, h, hn => by
    refine ⟨?_, all2_fst h.2 (fun r hr => hn r (List.mem_cons_of_mem _ hr))⟩
    have hb := hn b (by simp)
    obtain ⟨b1, b2⟩ := b
    simp only at hb
    subst hb
    exact h.1
  | [], _ :: _, h, _ => h.elim
  | _ :: _, [], h, _ => h.elim

theorem fluentDecl_inj {l1 l2 : List FluentRef} (h : l1.map fluentDecl = l2.map fluentDecl) : l1 = l2 := by
  have := congrArg (List.map (·.ref)) h
  simpa [List.map_map, Function.comp_def, fluentDecl] using this

theorem namesOK_congr {E E' : REnv} (hf : E'.fluents = E.fluents) (ho : E'.objects = E.objects) (h : NamesOK E) :
    NamesOK E' where
  num_fluent := by
    intro s q hq
    have := h.num_fluent s q hq
    simpa [REnv.fluent?, hf] using this
  num_object := by
    intro s q hq
    have := h.num_object s q hq
    simpa [REnv.object?, ho] using this
  obj_fluent := by
    intro s t hs
    have := h.obj_fluent s t (by simpa [REnv.object?, ho] using hs)
    simpa [REnv.fluent?, hf] using this

theorem lookup_append_some {l1 l2 : List (String × String)} {s t : String} (h : l1.lookup s = some t) :
    (l1 ++ l2).lookup s = some t := by
  rw [List.lookup_append, h]; rfl

theorem lookup_append_none {l1 l2 : List (String × String)} {s : String} (h : (l1 ++ l2).lookup s = none) :
    l1.lookup s = none := by
  cases h1 : l1.lookup s with
  | none => rfl
  | some t => rw [lookup_append_some h1] at h; cases h

theorem initItems_of_astInit {l : List Sexp} {φs : List Form} (h : astInit C0 l = some φs) : initItems l = l := by
  unfold initItems
  split
  · rename_i items
    have : astInitEl C0 (.list (.atom "and" :: items)) = none := by
      unfold astInitEl
      split
      · rename_i heq; simp at heq
      · rename_i heq; simp at heq
      · rename_i n os _ _ heq
        simp only [Sexp.list.injEq, List.cons.injEq, Sexp.atom.injEq] at heq
        obtain ⟨rfl, rfl⟩ := heq
        have : isReserved "and" = true := by decide
        simp [this]
      · rfl
    simp [astInit, this] at h
  · rfl

theorem problems_agree {dom prob : Sexp} {P R : Problem} {A : PddlAst} (hU : pddlReadLower dom prob = some P)
    (hA : astOfLower dom prob = some A) (hR : fromPddl A = some R)
    (nm : NamesOK (envOf P)) (hntc : ∀ D, splitDomain dom = some D → noTotalCost D.functions = true)
    (hok : ∀ D Q, splitDomain dom = some D → splitProblem prob = some Q → FilesOK (P.fluents.map (·.ref)) (ctxOf A) D Q) :
    ProblemRel P R := by
  obtain ⟨S⟩ := pddlReadLower_inv hU
  unfold astOfLower at hA
  simp only [Option.bind_eq_bind, Option.bind_eq_some_iff, Option.some.injEq] at hA
  obtain ⟨Dm, hDm, Pm, hPm, rfl⟩ := hA
  obtain ⟨AD⟩ := astDomain_inv hDm
  obtain ⟨AP⟩ := astProblem_inv hPm
  have hDD : AD.D = S.D := Option.some.inj (AD.hD.symm.trans S.hD)
  have hQQ : AP.Q = S.Q := Option.some.inj (AP.hQ.symm.trans S.hQ)
  have ok := hok S.D S.Q S.hD S.hQ
  have noTC := hntc S.D S.hD
  -- no action costs on either side
  have hfunsA := AD.hfuns
  rw [hDD] at hfunsA
  have hcA := astFunctions_noTC _ _ hfunsA noTC
  have hcU := readFunctions_noTC _ _ _ S.hfuns noTC
  obtain ⟨CS⟩ := fromPddl_inv hR (by simp only [hcA, Bool.false_and])
  obtain ⟨hPfl, hPacts, hPinit, hPmet⟩ := S.plain hcU
  -- the symbol tables: both readers declared the same fluents and objects
  have hid := convertTypes_id CS.htab
  obtain ⟨preds', funs', consts', objs', hcp, hcf, hcc, hco, hfeq, hoeq⟩ := CS.decls
  have hAc := AD.hconsts
  rw [hDD] at hAc
  have hAo := AP.hobjs
  rw [hQQ] at hAo
  have hAp := AD.hpreds
  rw [hDD] at hAp
  have hconsts : S.consts = consts' := objects_agree _ CS.tab hid _ _ _ _ S.decls.hconsts hAc hcc
  have hobjs : S.objs = objs' := objects_agree _ CS.tab hid _ _ _ _ S.decls.hobjs hAo hco
  have hobjects : S.consts ++ S.objs = CS.objects := by rw [hoeq, hconsts, hobjs]
  have hpreds : S.preds = preds' := by
    have hdd : Dm.predicates = AD.preds := by rw [AD.predicates, dedup_of_nodup _ (ok.predsNodup _ hAp)]
    simp only [hdd] at hcp
    exact preds_agree _ CS.tab hid _ _ _ _ S.decls.hpreds hAp hcp
  have hfunsE : S.funs = funs' := funs_agree _ CS.tab hid _ _ _ _ S.hfuns hfunsA noTC hcf
  have hfluents : S.preds ++ S.funs = CS.fluents := by rw [hfeq, hpreds, hfunsE]
  have hflref : P.fluents.map (·.ref) = S.preds ++ S.funs := by
    rw [hPfl]; simp [List.map_map, Function.comp_def, fluentDecl]
  have nm2 : NamesOK { types := S.tmap, fluents := S.preds ++ S.funs, objects := S.consts ++ S.objs, params := none } :=
    namesOK_congr (E := envOf P) (by simp [envOf, hflref]) (by simp [envOf, S.objects]) nm
  have nm1 : NamesOK { types := S.tmap, fluents := S.preds ++ S.funs, objects := S.consts, params := none } :=
    { num_fluent := nm2.num_fluent
      num_object := fun s q hq => lookup_append_none (nm2.num_object s q hq)
      obj_fluent := fun s t hs => nm2.obj_fluent s t (lookup_append_some hs) }
  have hflu : ∀ n f, CEnv.fluent? { types := CS.tab, fluents := CS.fluents, objects := CS.objects } n = some f →
      REnv.fluent? { types := S.tmap, fluents := S.preds ++ S.funs, objects := S.consts, params := none } n = some f := by
    intro n f h
    simpa [CEnv.fluent?, REnv.fluent?, hfluents] using h
  have hof : ∀ s t, (CS.objects).lookup s = some t →
      REnv.fluent? { types := S.tmap, fluents := S.preds ++ S.funs, objects := S.consts, params := none } s = none := by
    intro s t h
    rw [← hobjects] at h
    exact nm2.obj_fluent s t h
  have ag2 : EnvAgree { types := S.tmap, fluents := S.preds ++ S.funs, objects := S.consts ++ S.objs, params := none }
      { types := CS.tab, fluents := CS.fluents, objects := CS.objects } [] :=
    ⟨hflu, fun s => Or.inl (by rw [hobjects]), hof, rfl, hid⟩
  refine { name := ?_, fluents := ?_, objects := ?_, init := ?_, goals := ?_, actions := ?_, metrics := ?_ }
  · rw [S.name, CS.name, AP.name, hQQ]
  · rw [hPfl, CS.fluents_eq, hfluents]
  · rw [S.objects, CS.objects_eq, hobjects]
  · -- the initial values
    rw [hPinit, CS.init_eq]
    have hAi := AP.hinit
    rw [hQQ] at hAi
    have hUi := S.hinit
    rw [initItems_of_astInit hAi] at hUi
    have hCi := CS.hinit
    have hPmi : Pm.init = AP.init := by rw [AP.init_eq, dedup_of_nodup _ (ok.initNodup _ hAi)]
    simp only [hPmi] at hCi
    exact init_agree ag2 nm2 _ _ _ _ _ _ hUi hAi hCi
  · -- the goal
    rw [S.goals, CS.goals_eq, mkAnd_preList, mkAnd_preList]
    have ag : EnvAgree { types := S.tmap, fluents := S.preds ++ S.funs, objects := S.consts ++ S.objs, params := none }
        { types := CS.tab, fluents := CS.fluents, objects := CS.objects } [] :=
      ⟨hflu, fun s => Or.inl (by rw [hobjects]), hof, rfl, hid⟩
    have hg : AP.g = .list S.g := by
      have := AP.hg; rw [hQQ, S.hg] at this; exact (Option.some.inj this).symm
    have hgd := AP.hgoal
    rw [hg] at hgd
    have hokg := ok.goal _ S.hg
    rw [hflref] at hokg
    exact gd_agree ag nm2 C0 (.list S.g) [] [] S.goalE _ CS.goal (scope_refl []) S.hgoal hgd CS.hgoal hokg
  · -- the actions
    rw [hPacts, CS.actions_eq]
    have hacts := AD.hacts
    rw [hDD] at hacts
    have hnd := ok.actsNodup _ hacts
    have hconv := CS.hacts
    rw [AD.actions, dedup_of_nodup _ hnd] at hconv
    have hall := actions_agree (hc := false) (tc := Expr.tt) (ctxOf ⟨Dm, Pm⟩) nm1 ⟨fun h => by cases h⟩ hflu
      (fun s => by
        show S.consts.lookup s = CS.objects.lookup s ∨ S.consts.lookup s = none
        cases h1 : S.consts.lookup s with
        | none => exact Or.inr rfl
        | some t => rw [← hobjects, lookup_append_some h1]; exact Or.inl rfl)
      hof hid S.D.actions S.actions AD.acts CS.acts S.hacts hacts hconv
      (fun t ht => by have := ok.acts t ht; rw [hflref] at this; exact this)
    exact all2_fst hall (convActions_nocost hconv)
  · -- the metric
    unfold PlainMetric at hPmet
    have hAm := AP.hmetric
    rw [hQQ] at hAm
    have hCm := CS.hmetric
    unfold ConvMetric at hCm
    cases hm : S.Q.metric with
    | none =>
      rw [hm] at hPmet hAm
      simp only at hPmet hAm
      rw [hAm] at hCm
      simp only at hCm
      rw [hPmet, hCm]
      trivial
    | some om =>
      obtain ⟨opt, m⟩ := om
      rw [hm] at hPmet hAm
      simp only at hPmet hAm
      obtain ⟨ml, me, rfl, hme, hPm'⟩ := hPmet
      obtain ⟨φ, hφ, hAmet⟩ := hAm
      rw [hAmet] at hCm
      simp only at hCm
      obtain ⟨e, he, hRm⟩ := hCm
      have ag : EnvAgree { types := S.tmap, fluents := S.preds ++ S.funs, objects := S.consts ++ S.objs, params := none }
          { types := CS.tab, fluents := CS.fluents, objects := CS.objects } [] :=
        ⟨hflu, fun s => Or.inl (by rw [hobjects]), hof, rfl, hid⟩
      have hr := fexp_agree ag nm2 C0 (.list ml) [] [] me φ e (scope_refl []) hme hφ he (ok.metric opt _ hm)
      rw [hPm', hRm]
      by_cases hmin : (opt == "minimize") = true
      · simp only [hmin, if_true]; exact ⟨MetricRel.minFinal hr, trivial⟩
      · simp only [hmin]; exact ⟨MetricRel.maxFinal hr, trivial⟩

/-! ### the side conditions are decidable -/

/-- `FilesOK`, computed -/
def filesOKb (fl : List FluentRef) (C : PCtx) (D : DomainSecs) (Q : ProblemSecs) : Bool :=
  (match D.predicates.mapM astSkeleton with
    | some sk => decide sk.Nodup
    | none => true) &&
  D.actions.all (actionOK fl C) &&
  (match astActions C D.actions with
    | some pas => decide pas.Nodup
    | none => true) &&
  (match astInit C0 Q.init with
    | some φs => decide φs.Nodup
    | none => true) &&
  (match Q.goal with
    | some g => gdOK fl C0 g
    | none => true) &&
  (match Q.metric with
    | some om => fexpOK C0 om.2
    | none => true)

theorem filesOKb_sound {fl : List FluentRef} {C : PCtx} {D : DomainSecs} {Q : ProblemSecs} (h : filesOKb fl C D Q = true) :
    FilesOK fl C D Q := by
  unfold filesOKb at h
  simp only [Bool.and_eq_true] at h
  obtain ⟨⟨⟨⟨⟨h2, h3⟩, h4⟩, h5⟩, h6⟩, h7⟩ := h
  refine { predsNodup := ?_, acts := ?_, actsNodup := ?_, initNodup := ?_, goal := ?_, metric := ?_ }
  · intro sk hsk; rw [hsk] at h2; simpa using h2
  · intro t ht; exact List.all_eq_true.1 h3 t ht
  · intro pas hp; rw [hp] at h4; simpa using h4
  · intro φs hp; rw [hp] at h5; simpa using h5
  · intro g hg; rw [hg] at h6; exact h6
  · intro o m hm; rw [hm] at h7; exact h7

end UPVerif.FromPddl
