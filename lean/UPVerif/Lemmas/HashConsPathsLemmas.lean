import UPVerif.Lemmas.HashConsLemmas
import UPVerif.Core.HashConsPaths
/-! Helper lemmas for `Props/C16Paths.lean`: the construction paths of `Core/HashConsPaths.lean`
    keep the table invariant, are stable (re-issuing one later returns the same node and creates
    nothing), and keep the table free of `Not(Not x)` nodes. -/
namespace UPVerif.HashCons

/-! ### argument lists -/

theorem valid_nil {m : Mgr} : ∀ q ∈ ([] : List (PArg Arg)), q.valid m := by simp

theorem valid_cons {m : Mgr} {p : PArg Arg} {ps : List (PArg Arg)} (hp : p.valid m)
    (hps : ∀ q ∈ ps, q.valid m) : ∀ q ∈ p :: ps, q.valid m := by
  intro q hq
  rcases List.mem_cons.1 hq with h | h
  · subst h; exact hp
  · exact hps q h

theorem valid_snoc {m : Mgr} {p : PArg Arg} {ps : List (PArg Arg)} (hps : ∀ q ∈ ps, q.valid m)
    (hp : p.valid m) : ∀ q ∈ ps ++ [p], q.valid m := by
  intro q hq
  rcases List.mem_append.1 hq with h | h
  · exact hps q h
  · simp only [List.mem_singleton] at h; subst h; exact hp

theorem PArg.valid_mono {m m' : Mgr} (h : Ext m m') {p : PArg Arg} (hp : p.valid m) : p.valid m' := by
  cases p with
  | one a => exact Arg.valid_mono h hp
  | many as => exact fun a ha => Arg.valid_mono h (hp a ha)

theorem PArgs.valid_mono {m m' : Mgr} (h : Ext m m') {ps : List (PArg Arg)} (hp : ∀ p ∈ ps, p.valid m) :
    ∀ p ∈ ps, p.valid m' := fun p hq => PArg.valid_mono h (hp p hq)

/-! ### the xor family: four constructor calls in a row -/

/-- the four calls of `xorVia`, when all succeed -/
theorem xorVia_ok {m m' : Mgr} {xs : List (PArg Arg)} {r : Ref} (h : xorVia m xs = some (m', .ok r)) :
    ∃ m1 o m2 a m3 n, apply m .or xs = some (m1, .ok o) ∧ apply m1 .and xs = some (m2, .ok a) ∧
      apply m2 .not [.one (.node a)] = some (m3, .ok n) ∧
      apply m3 .and [.one (.node o), .one (.node n)] = some (m', .ok r) := by
  unfold xorVia at h
  rcases h1 : apply m .or xs with _ | ⟨m1, r1⟩
  · simp [h1] at h
  · cases r1 with
    | err e => simp [h1] at h
    | ok o =>
      simp only [h1] at h
      rcases h2 : apply m1 .and xs with _ | ⟨m2, r2⟩
      · simp [h2] at h
      · cases r2 with
        | err e => simp [h2] at h
        | ok a =>
          simp only [h2] at h
          rcases h3 : apply m2 .not [.one (.node a)] with _ | ⟨m3, r3⟩
          · simp [h3] at h
          · cases r3 with
            | err e => simp [h3] at h
            | ok n =>
              simp only [h3] at h
              exact ⟨m1, o, m2, a, m3, n, rfl, h2, h3, h⟩

theorem xorVia_good {m : Mgr} (hI : Inv m) (xs : List (PArg Arg)) (hx : ∀ p ∈ xs, p.valid m)
    {m' : Mgr} {res : Res} (h : xorVia m xs = some (m', res)) : Good m m' ∧ res.valid m' := by
  unfold xorVia at h
  rcases h1 : apply m .or xs with _ | ⟨m1, r1⟩
  · simp [h1] at h
  · obtain ⟨g1, v1⟩ := apply_good hI .or xs hx h1
    cases r1 with
    | err e =>
      simp only [h1, Option.some.injEq, Prod.mk.injEq] at h
      obtain ⟨a, b⟩ := h; subst a b; exact ⟨g1, trivial⟩
    | ok o =>
      simp only [h1] at h
      rcases h2 : apply m1 .and xs with _ | ⟨m2, r2⟩
      · simp [h2] at h
      · obtain ⟨g2, v2⟩ := apply_good g1.inv .and xs (PArgs.valid_mono g1.ext hx) h2
        cases r2 with
        | err e =>
          simp only [h2, Option.some.injEq, Prod.mk.injEq] at h
          obtain ⟨a, b⟩ := h; subst a b; exact ⟨g1.trans g2, trivial⟩
        | ok a =>
          simp only [h2] at h
          rcases h3 : apply m2 .not [.one (.node a)] with _ | ⟨m3, r3⟩
          · simp [h3] at h
          · obtain ⟨g3, v3⟩ := apply_good g2.inv .not [.one (.node a)] (valid_cons v2 valid_nil) h3
            cases r3 with
            | err e =>
              simp only [h3, Option.some.injEq, Prod.mk.injEq] at h
              obtain ⟨a, b⟩ := h; subst a b; exact ⟨(g1.trans g2).trans g3, trivial⟩
            | ok n =>
              simp only [h3] at h
              have vo : (PArg.one (Arg.node o)).valid m3 :=
                Nat.lt_of_lt_of_le v1 (g2.ext.trans g3.ext).length_le
              have vn : (PArg.one (Arg.node n)).valid m3 := v3
              obtain ⟨g4, v4⟩ := apply_good g3.inv .and _ (valid_cons vo (valid_cons vn valid_nil)) h
              exact ⟨((g1.trans g2).trans g3).trans g4, v4⟩

theorem xorVia_stable {m : Mgr} (hI : Inv m) (xs : List (PArg Arg)) (hx : ∀ p ∈ xs, p.valid m)
    {m' : Mgr} {res : Res} (h : xorVia m xs = some (m', res))
    {M : Mgr} (hM : Inv M) (hext : Ext m' M) : xorVia M xs = some (M, res) := by
  unfold xorVia at h
  rcases h1 : apply m .or xs with _ | ⟨m1, r1⟩
  · simp [h1] at h
  · obtain ⟨g1, v1⟩ := apply_good hI .or xs hx h1
    cases r1 with
    | err e =>
      simp only [h1, Option.some.injEq, Prod.mk.injEq] at h
      obtain ⟨a, b⟩ := h; subst a b
      have s1 := apply_stable hI .or xs hx h1 hM hext
      simp only [xorVia, s1]
    | ok o =>
      simp only [h1] at h
      have hx1 := PArgs.valid_mono g1.ext hx
      rcases h2 : apply m1 .and xs with _ | ⟨m2, r2⟩
      · simp [h2] at h
      · obtain ⟨g2, v2⟩ := apply_good g1.inv .and xs hx1 h2
        cases r2 with
        | err e =>
          simp only [h2, Option.some.injEq, Prod.mk.injEq] at h
          obtain ⟨a, b⟩ := h; subst a b
          have s1 := apply_stable hI .or xs hx h1 hM (g2.ext.trans hext)
          have s2 := apply_stable g1.inv .and xs hx1 h2 hM hext
          simp only [xorVia, s1, s2]
        | ok a =>
          simp only [h2] at h
          have va : (PArg.one (Arg.node a)).valid m2 := v2
          have hxa : ∀ p ∈ [PArg.one (Arg.node a)], p.valid m2 := valid_cons va valid_nil
          rcases h3 : apply m2 .not [.one (.node a)] with _ | ⟨m3, r3⟩
          · simp [h3] at h
          · obtain ⟨g3, v3⟩ := apply_good g2.inv .not [.one (.node a)] hxa h3
            cases r3 with
            | err e =>
              simp only [h3, Option.some.injEq, Prod.mk.injEq] at h
              obtain ⟨a', b⟩ := h; subst a' b
              have s1 := apply_stable hI .or xs hx h1 hM ((g2.ext.trans g3.ext).trans hext)
              have s2 := apply_stable g1.inv .and xs hx1 h2 hM (g3.ext.trans hext)
              have s3 := apply_stable g2.inv .not _ hxa h3 hM hext
              simp only [xorVia, s1, s2, s3]
            | ok n =>
              simp only [h3] at h
              have vo : (PArg.one (Arg.node o)).valid m3 :=
                Nat.lt_of_lt_of_le v1 (g2.ext.trans g3.ext).length_le
              have vn : (PArg.one (Arg.node n)).valid m3 := v3
              have hx4 : ∀ p ∈ [PArg.one (Arg.node o), PArg.one (Arg.node n)], p.valid m3 :=
                valid_cons vo (valid_cons vn valid_nil)
              obtain ⟨g4, _⟩ := apply_good g3.inv .and _ hx4 h
              have s1 := apply_stable hI .or xs hx h1 hM (((g2.ext.trans g3.ext).trans g4.ext).trans hext)
              have s2 := apply_stable g1.inv .and xs hx1 h2 hM ((g3.ext.trans g4.ext).trans hext)
              have s3 := apply_stable g2.inv .not _ hxa h3 hM (g4.ext.trans hext)
              have s4 := apply_stable g3.inv .and _ hx4 h hM hext
              simp only [xorVia, s1, s2, s3, s4]

/-! ### methods, operators, paths -/

theorem applyMeth_good {m : Mgr} (hI : Inv m) (self : Arg) (hs : self.valid m) (f : Meth)
    (os : List (PArg Arg)) (ho : ∀ p ∈ os, p.valid m)
    {m' : Mgr} {res : Res} (h : applyMeth m self f os = some (m', res)) : Good m m' ∧ res.valid m' := by
  have h1 : (PArg.one self).valid m := hs
  have h0 : (PArg.one (Arg.num (.int 0))).valid m := trivial
  unfold applyMeth at h
  split at h
  all_goals first
    | cases h
    | exact apply_good hI _ _ (valid_cons h1 ho) h
    | exact apply_good hI _ _ (valid_snoc ho h1) h
    | exact apply_good hI _ _ (valid_cons h0 (valid_cons h1 valid_nil)) h
    | exact apply_good hI _ _ (valid_cons h1 valid_nil) h
    | exact xorVia_good hI _ (valid_cons h1 ho) h
    | exact xorVia_good hI _ (valid_snoc ho h1) h

theorem applyMeth_stable {m : Mgr} (hI : Inv m) (self : Arg) (hs : self.valid m) (f : Meth)
    (os : List (PArg Arg)) (ho : ∀ p ∈ os, p.valid m)
    {m' : Mgr} {res : Res} (h : applyMeth m self f os = some (m', res))
    {M : Mgr} (hM : Inv M) (hext : Ext m' M) : applyMeth M self f os = some (M, res) := by
  have h1 : (PArg.one self).valid m := hs
  have h0 : (PArg.one (Arg.num (.int 0))).valid m := trivial
  unfold applyMeth at h ⊢
  split at h
  all_goals first
    | cases h
    | exact apply_stable hI _ _ (valid_cons h1 ho) h hM hext
    | exact apply_stable hI _ _ (valid_snoc ho h1) h hM hext
    | exact apply_stable hI _ _ (valid_cons h0 (valid_cons h1 valid_nil)) h hM hext
    | exact apply_stable hI _ _ (valid_cons h1 valid_nil) h hM hext
    | exact xorVia_stable hI _ (valid_cons h1 ho) h hM hext
    | exact xorVia_stable hI _ (valid_snoc ho h1) h hM hext

theorem applyInfix_good {m : Mgr} (hI : Inv m) (op : Infix) (l r : PArg Arg)
    (hl : l.valid m) (hr : r.valid m)
    {m' : Mgr} {res : Res} (h : applyInfix m op l r = some (m', res)) : Good m m' ∧ res.valid m' := by
  unfold applyInfix at h
  cases l with
  | many as => cases h
  | one a =>
    simp only at h
    split at h
    · exact applyMeth_good hI a hl _ _ (valid_cons hr valid_nil) h
    · cases r with
      | many bs => cases h
      | one b =>
        simp only at h
        split at h
        · exact applyMeth_good hI b hr _ _ (valid_cons hl valid_nil) h
        · cases h

theorem applyInfix_stable {m : Mgr} (hI : Inv m) (op : Infix) (l r : PArg Arg)
    (hl : l.valid m) (hr : r.valid m)
    {m' : Mgr} {res : Res} (h : applyInfix m op l r = some (m', res))
    {M : Mgr} (hM : Inv M) (hext : Ext m' M) : applyInfix M op l r = some (M, res) := by
  unfold applyInfix at h ⊢
  cases l with
  | many as => cases h
  | one a =>
    simp only at h ⊢
    split at h
    · rename_i ha
      rw [if_pos ha]
      exact applyMeth_stable hI a hl _ _ (valid_cons hr valid_nil) h hM hext
    · rename_i ha
      rw [if_neg ha]
      cases r with
      | many bs => cases h
      | one b =>
        simp only at h ⊢
        split at h
        · rename_i hb
          rw [if_pos hb]
          exact applyMeth_stable hI b hr _ _ (valid_cons hl valid_nil) h hM hext
        · cases h

theorem tupleOf_valid {m : Mgr} {as : List (PArg Arg)} {t : List Arg} (h : tupleOf as = some t)
    (ha : ∀ p ∈ as, p.valid m) : ∀ a ∈ t, a.valid m := by
  induction as generalizing t with
  | nil => simp only [tupleOf, Option.some.injEq] at h; subst h; simp
  | cons p ps ih =>
    cases p with
    | many xs => simp [tupleOf] at h
    | one a =>
      simp only [tupleOf, Option.map_eq_some_iff] at h
      obtain ⟨t', ht, e⟩ := h; subst e
      intro x hx
      rcases List.mem_cons.1 hx with h1 | h1
      · subst h1; exact ha _ (List.mem_cons_self ..)
      · exact ih ht (fun q hq => ha q (List.mem_cons_of_mem _ hq)) x h1

theorem applyPath_meth (m : Mgr) (rs : List Res) (s : SArg) (f : Meth) (as : List (PArg Arg)) :
    applyPath m rs (.meth s f) as =
      match s.resolve rs with
      | none => none
      | some self => if offers self f then applyMeth m self f as else none := rfl

theorem applyPath_infix (m : Mgr) (rs : List Res) (op : Infix) (l r : PArg Arg) :
    applyPath m rs (.infix op) [l, r] = applyInfix m op l r := rfl

theorem applyPath_unary (m : Mgr) (rs : List Res) (op : Unary) (x : Arg) :
    applyPath m rs (.unary op) [.one x] = if x.hasInfix then applyMeth m x op.meth [] else none := rfl

theorem applyPath_call (m : Mgr) (rs : List Res) (k : String) (ar : Nat) (as : List (PArg Arg)) :
    applyPath m rs (.call k ar) as =
      match tupleOf as with
      | none => none
      | some t => apply m (.fluentExp k ar) [.many t] := rfl

theorem applyPath_good {m : Mgr} (hI : Inv m) {rs : List Res} (hrs : ∀ r ∈ rs, r.valid m) (p : Path)
    (as : List (PArg Arg)) (ha : ∀ q ∈ as, q.valid m)
    {m' : Mgr} {res : Res} (h : applyPath m rs p as = some (m', res)) : Good m m' ∧ res.valid m' := by
  unfold applyPath at h
  split at h
  · exact apply_good hI _ _ ha h
  · exact apply_good hI _ _ ha h
  · split at h
    · cases h
    · rename_i self hs
      split at h
      · exact applyMeth_good hI self (resolve_valid hrs hs) _ _ ha h
      · cases h
  · rename_i l r
    exact applyInfix_good hI _ l r (ha l (by simp)) (ha r (by simp)) h
  · rename_i x
    have hx : (PArg.one x).valid m := ha _ (by simp)
    split at h
    · exact applyMeth_good hI x hx _ _ valid_nil h
    · cases h
  · split at h
    · cases h
    · rename_i t ht
      have hv : (PArg.many t).valid m := tupleOf_valid ht ha
      exact apply_good hI _ _ (valid_cons hv valid_nil) h
  · cases h

theorem applyPath_stable {m : Mgr} (hI : Inv m) {rs : List Res} (hrs : ∀ r ∈ rs, r.valid m) (p : Path)
    (as : List (PArg Arg)) (ha : ∀ q ∈ as, q.valid m)
    {m' : Mgr} {res : Res} (h : applyPath m rs p as = some (m', res))
    {M : Mgr} (hM : Inv M) (hext : Ext m' M) : applyPath M rs p as = some (M, res) := by
  unfold applyPath at h
  split at h
  · exact apply_stable hI _ _ ha h hM hext
  · exact apply_stable hI _ _ ha h hM hext
  · rw [applyPath_meth]
    split at h
    · cases h
    · rename_i self hs
      simp only [hs]
      split at h
      · rename_i ho
        rw [if_pos ho]
        exact applyMeth_stable hI self (resolve_valid hrs hs) _ _ ha h hM hext
      · cases h
  · rename_i l r
    rw [applyPath_infix]
    exact applyInfix_stable hI _ l r (ha l (by simp)) (ha r (by simp)) h hM hext
  · rename_i x
    rw [applyPath_unary]
    have hx : (PArg.one x).valid m := ha _ (by simp)
    split at h
    · rename_i hi
      rw [if_pos hi]
      exact applyMeth_stable hI x hx _ _ valid_nil h hM hext
    · cases h
  · rw [applyPath_call]
    split at h
    · cases h
    · rename_i t ht
      simp only [ht]
      have hv : (PArg.many t).valid m := tupleOf_valid ht ha
      exact apply_stable hI _ _ (valid_cons hv valid_nil) h hM hext
  · cases h

theorem resolved_valid {m : Mgr} {rs : List Res} (hrs : ∀ r ∈ rs, r.valid m) {args : List (PArg SArg)}
    {as : List (PArg Arg)} (hm : args.mapM (resolveP rs) = some as) : ∀ p ∈ as, p.valid m := by
  intro p hp
  obtain ⟨y, _, hy⟩ := mapM_option_mem hm p hp
  exact resolveP_valid hrs hy

theorem pstep_good {m : Mgr} (hI : Inv m) {rs : List Res} (hrs : ∀ r ∈ rs, r.valid m) (c : PCmd)
    {m' : Mgr} {res : Res} (h : pstep m rs c = some (m', res)) : Good m m' ∧ res.valid m' := by
  unfold pstep at h
  rcases hm : c.args.mapM (resolveP rs) with _ | as
  · simp [hm] at h
  · simp only [hm] at h
    exact applyPath_good hI hrs c.path as (resolved_valid hrs hm) h

theorem pstep_stable {m : Mgr} (hI : Inv m) {rs : List Res} (hrs : ∀ r ∈ rs, r.valid m) (c : PCmd)
    {m' : Mgr} {res : Res} (h : pstep m rs c = some (m', res))
    {M : Mgr} (hM : Inv M) (hext : Ext m' M) : pstep M rs c = some (M, res) := by
  unfold pstep at h ⊢
  rcases hm : c.args.mapM (resolveP rs) with _ | as
  · simp [hm] at h
  · simp only [hm] at h ⊢
    exact applyPath_stable hI hrs c.path as (resolved_valid hrs hm) h hM hext

theorem valid_snoc_res {m m1 : Mgr} {rs : List Res} {r : Res} (hrs : ∀ x ∈ rs, x.valid m) (he : Ext m m1)
    (v : r.valid m1) : ∀ x ∈ rs ++ [r], x.valid m1 := by
  intro x hx
  rcases List.mem_append.1 hx with h1 | h1
  · exact Res.valid_mono he (hrs x h1)
  · simp only [List.mem_singleton] at h1; subst h1; exact v

theorem prun_good {m : Mgr} (hI : Inv m) {rs : List Res} (hrs : ∀ r ∈ rs, r.valid m) (cs : List PCmd)
    {m' : Mgr} {rs' : List Res} (h : prun m rs cs = some (m', rs')) :
    Good m m' ∧ (∀ r ∈ rs', r.valid m') ∧ rs <+: rs' := by
  induction cs generalizing m rs with
  | nil =>
    simp only [prun, Option.some.injEq, Prod.mk.injEq] at h
    obtain ⟨h1, h2⟩ := h; subst h1 h2
    exact ⟨Good.refl hI, hrs, List.prefix_refl _⟩
  | cons c cs ih =>
    simp only [prun] at h
    rcases hs : pstep m rs c with _ | ⟨m1, r⟩
    · simp [hs] at h
    · simp only [hs] at h
      obtain ⟨g1, v1⟩ := pstep_good hI hrs c hs
      obtain ⟨g2, v2, p2⟩ := ih g1.inv (valid_snoc_res hrs g1.ext v1) h
      exact ⟨g1.trans g2, v2, (List.prefix_append _ _).trans p2⟩

/-- after a path history, re-issuing its k-th construction (same path, the arguments being the nodes
    they were) in any later state returns the k-th result again and changes nothing -/
theorem prun_replay {m : Mgr} (hI : Inv m) {rs : List Res} (hrs : ∀ r ∈ rs, r.valid m) (cs : List PCmd)
    {m' : Mgr} {rs' : List Res} (h : prun m rs cs = some (m', rs')) :
    ∀ k c, cs[k]? = some c → ∀ M, Inv M → Ext m' M →
      pstep M (rs'.take (rs.length + k)) c = (rs'[rs.length + k]?).map (fun r => (M, r)) := by
  induction cs generalizing m rs with
  | nil => intro k c hk; simp at hk
  | cons c0 cs ih =>
    simp only [prun] at h
    rcases hs : pstep m rs c0 with _ | ⟨m1, r0⟩
    · simp [hs] at h
    · simp only [hs] at h
      obtain ⟨g1, v1⟩ := pstep_good hI hrs c0 hs
      have hrs1 := valid_snoc_res hrs g1.ext v1
      obtain ⟨g2, _, p2⟩ := prun_good g1.inv hrs1 cs h
      intro k c hk M hM hext
      cases k with
      | zero =>
        simp only [List.getElem?_cons_zero, Option.some.injEq] at hk; subst hk
        have hp : rs <+: rs' := (List.prefix_append _ _).trans p2
        simp only [Nat.add_zero]
        rw [take_of_prefix hp, getElem?_of_prefix_snoc p2]
        exact pstep_stable hI hrs c0 hs hM (g2.ext.trans hext)
      | succ k =>
        simp only [List.getElem?_cons_succ] at hk
        have := ih g1.inv hrs1 h k c hk M hM hext
        simp only [List.length_append, List.length_singleton] at this
        rw [show rs.length + (k + 1) = rs.length + 1 + k by omega]
        exact this

/-! ### no `Not(Not x)` node is ever created -/

/-- `create_node` keeps the table free of doubly negated nodes, provided it is not asked for one -/
theorem createNode_nnn {m : Mgr} (hI : Inv m) (hN : NoNotNot m) (op : Op) (args : List Ref) (p : Payload)
    (hv : ∀ a ∈ args, a < m.heap.length)
    (hop : op = .not → ∀ x ∈ args, ∀ c : FNode, m.heap[x]? = some c → c.content.op ≠ .not) :
    NoNotNot (createNode m op args p).1 := by
  cases hl : m.expressions.lookup ⟨op, args, p⟩ with
  | some r => rw [createNode_of_some hl]; exact hN
  | none =>
    rw [createNode_of_none hl]
    intro r n hn hnot x hx c hc
    simp only at hn hc
    rcases (getElem?_snoc _ _ _ _).1 hn with h1 | ⟨h1, h2⟩
    · have hx' := hI.older r n h1 x hx
      have hr := lt_of_getElem?_some h1
      rcases (getElem?_snoc _ _ _ _).1 hc with h3 | ⟨h3, _⟩
      · exact hN r n h1 hnot x hx c h3
      · exact absurd h3 (Nat.ne_of_lt (Nat.lt_trans hx' hr))
    · subst h2
      have hxl := hv x hx
      rcases (getElem?_snoc _ _ _ _).1 hc with h3 | ⟨h3, _⟩
      · exact hop hnot x hx c h3
      · exact absurd h3 (Nat.ne_of_lt hxl)

theorem createNode_nnn_ne {m : Mgr} (hI : Inv m) (hN : NoNotNot m) (op : Op) (args : List Ref) (p : Payload)
    (hv : ∀ a ∈ args, a < m.heap.length) (hne : op ≠ .not) : NoNotNot (createNode m op args p).1 :=
  createNode_nnn hI hN op args p hv (fun h => absurd h hne)

theorem promote_nnn {m : Mgr} (hI : Inv m) (hN : NoNotNot m) (a : Arg) : NoNotNot (promote m a).1 := by
  have nil : ∀ x ∈ ([] : List Ref), x < m.heap.length := by simp
  cases a with
  | node r => exact hN
  | bool b => exact hN
  | fluent key arity =>
    simp only [promote]
    split
    · exact hN
    · exact createNode_nnn_ne hI hN _ _ _ nil (by decide)
  | param key => exact createNode_nnn_ne hI hN _ _ _ nil (by decide)
  | var key => exact createNode_nnn_ne hI hN _ _ _ nil (by decide)
  | obj key => exact createNode_nnn_ne hI hN _ _ _ nil (by decide)
  | num l =>
    simp only [promote]
    split
    · exact hN
    · exact createNode_nnn_ne hI hN _ _ _ nil (by decide)
    · exact createNode_nnn_ne hI hN _ _ _ nil (by decide)

theorem autoPromote_nnn {m : Mgr} (hI : Inv m) (hN : NoNotNot m) (args : List Arg) (ha : ∀ a ∈ args, a.valid m)
    {m' : Mgr} {res : Except Err (List Ref)} (h : autoPromote m args = (m', res)) : NoNotNot m' := by
  induction args generalizing m m' res with
  | nil =>
    simp only [autoPromote, Prod.mk.injEq] at h
    obtain ⟨h1, _⟩ := h; subst h1; exact hN
  | cons a as ih =>
    obtain ⟨g1, _⟩ := promote_good hI a (ha a (List.mem_cons_self ..))
    have n1 := promote_nnn hI hN a
    rcases hp : promote m a with ⟨m1, e | r⟩
    · rw [autoPromote_cons_err hp, Prod.mk.injEq] at h
      obtain ⟨h1, _⟩ := h; subst h1
      rw [hp] at n1; exact n1
    · rw [hp] at g1 n1
      have ha' : ∀ x ∈ as, x.valid m1 := fun x hx => Arg.valid_mono g1.ext (ha x (List.mem_cons_of_mem _ hx))
      rcases hq : autoPromote m1 as with ⟨m2, e | rs⟩
      · have n2 := ih g1.inv n1 ha' hq
        rw [autoPromote_cons_ok_err hp hq, Prod.mk.injEq] at h
        obtain ⟨h1, _⟩ := h; subst h1; exact n2
      · have n2 := ih g1.inv n1 ha' hq
        rw [autoPromote_cons_ok_ok hp hq, Prod.mk.injEq] at h
        obtain ⟨h1, _⟩ := h; subst h1; exact n2

theorem mkVia_nnn {m : Mgr} (hI : Inv m) (hN : NoNotNot m) (args : List Arg) (ha : ∀ a ∈ args, a.valid m)
    (post : List Ref → Option (Except Err Content))
    (hpost : ∀ rs c, post rs = some (.ok c) → ∀ a ∈ c.args, a ∈ rs)
    (hop : ∀ rs c, post rs = some (.ok c) → c.op ≠ .not)
    {m' : Mgr} {res : Res} (h : mkVia m args post = some (m', res)) : NoNotNot m' := by
  unfold mkVia at h
  rcases hp : autoPromote m args with ⟨m1, e | rs⟩
  · have n1 := autoPromote_nnn hI hN args ha hp
    simp only [hp, Option.some.injEq, Prod.mk.injEq] at h
    obtain ⟨h1, _⟩ := h; subst h1; exact n1
  · obtain ⟨g1, v1⟩ := autoPromote_good hI args ha hp
    have n1 := autoPromote_nnn hI hN args ha hp
    simp only [hp] at h
    rcases hq : post rs with _ | ⟨e | c⟩
    · simp [hq] at h
    · simp only [hq, Option.some.injEq, Prod.mk.injEq] at h
      obtain ⟨h1, _⟩ := h; subst h1; exact n1
    · simp only [hq, Option.some.injEq, Prod.mk.injEq] at h
      obtain ⟨h1, _⟩ := h; subst h1
      have hv : ∀ a ∈ c.args, a < m1.heap.length := fun a ha => v1 rs rfl a (hpost rs c hq a ha)
      exact createNode_nnn_ne g1.inv n1 _ _ _ hv (hop rs c hq)

/-- what the unit of an n-ary constructor must guarantee for the double-negation normal form -/
def UnitNNN (unit : Mgr → Mgr × Ref) : Prop := ∀ m, Inv m → NoNotNot m → NoNotNot (unit m).1

theorem unitTrue_nnn : UnitNNN unitTrue := fun _ _ hN => hN
theorem unitFalse_nnn : UnitNNN unitFalse := fun _ _ hN => hN
theorem unitInt_nnn (z : Int) : UnitNNN (fun m => mkInt m z) := fun _ hI hN =>
  createNode_nnn_ne hI hN _ _ _ (by simp) (by decide)

theorem naryRefs_nnn {m : Mgr} (hI : Inv m) (hN : NoNotNot m) (op : Op) (hne : op ≠ .not)
    {unit : Mgr → Mgr × Ref} (hu : UnitNNN unit) (rs : List Ref) (hv : ∀ r ∈ rs, r < m.heap.length) :
    NoNotNot (naryRefs m op unit rs).1 := by
  unfold naryRefs
  split
  · exact hu m hI hN
  · exact hN
  · exact createNode_nnn_ne hI hN _ _ _ hv hne

theorem mkNary_nnn {m : Mgr} (hI : Inv m) (hN : NoNotNot m) (op : Op) (hne : op ≠ .not)
    {unit : Mgr → Mgr × Ref} (hu : UnitNNN unit) (args : List Arg) (ha : ∀ a ∈ args, a.valid m)
    {m' : Mgr} {res : Res} (h : mkNary m op unit args = (m', res)) : NoNotNot m' := by
  unfold mkNary at h
  rcases hp : autoPromote m args with ⟨m1, e | rs⟩
  · have n1 := autoPromote_nnn hI hN args ha hp
    simp only [hp, Prod.mk.injEq] at h
    obtain ⟨h1, _⟩ := h; subst h1; exact n1
  · obtain ⟨g1, v1⟩ := autoPromote_good hI args ha hp
    have n1 := autoPromote_nnn hI hN args ha hp
    simp only [hp, Prod.mk.injEq] at h
    obtain ⟨h1, _⟩ := h; subst h1
    exact naryRefs_nnn g1.inv n1 op hne hu rs (v1 rs rfl)

/-- the heart of the matter: `Not` builds a NOT node only over a node that is not itself a NOT -/
theorem notRef_nnn {m : Mgr} (hI : Inv m) (hN : NoNotNot m) (e : Ref) {m' : Mgr} {r : Ref}
    (h : notRef m e = some (m', r)) : NoNotNot m' := by
  unfold notRef at h
  rcases hn : m.heap[e]? with _ | n
  · simp [hn] at h
  · simp only [hn] at h
    have he := lt_of_getElem?_some hn
    split at h
    · rcases hargs : n.content.args with _ | ⟨x, xs⟩
      · simp [hargs] at h
      · simp only [hargs, Option.some.injEq, Prod.mk.injEq] at h
        obtain ⟨h1, _⟩ := h; subst h1; exact hN
    · rename_i hnot
      simp only [Option.some.injEq] at h
      have hv : ∀ a ∈ [e], a < m.heap.length := by simpa using he
      have := createNode_nnn hI hN .not [e] .none hv (by
        intro _ x hx c hc
        simp only [List.mem_singleton] at hx; subst hx
        rw [hn] at hc; cases hc; exact hnot)
      rw [h] at this; exact this

theorem xorNots_nnn {m : Mgr} (hI : Inv m) (hN : NoNotNot m) (a : Ref) (os : List Ref)
    {m' : Mgr} {ns : List Ref} (h : xorNots m a os = some (m', ns)) : NoNotNot m' := by
  induction os generalizing m m' ns with
  | nil =>
    simp only [xorNots, Option.some.injEq, Prod.mk.injEq] at h
    obtain ⟨h1, _⟩ := h; subst h1; exact hN
  | cons o os ih =>
    simp only [xorNots] at h
    split at h
    · exact ih hI hN h
    · rcases hn : notRef m o with _ | ⟨m1, n⟩
      · simp [hn] at h
      · obtain ⟨g1, _⟩ := notRef_good hI o hn
        have n1 := notRef_nnn hI hN o hn
        simp only [hn] at h
        rcases hx : xorNots m1 a os with _ | ⟨m2, ns2⟩
        · simp [hx] at h
        · have n2 := ih g1.inv n1 hx
          simp only [hx, Option.some.injEq, Prod.mk.injEq] at h
          obtain ⟨h1, _⟩ := h; subst h1; exact n2

theorem xorTerms_nnn {m : Mgr} (hI : Inv m) (hN : NoNotNot m) (all : List Ref) (as : List Ref)
    (hv : ∀ a ∈ as, a < m.heap.length)
    {m' : Mgr} {ts : List Ref} (h : xorTerms m all as = some (m', ts)) : NoNotNot m' := by
  induction as generalizing m m' ts with
  | nil =>
    simp only [xorTerms, Option.some.injEq, Prod.mk.injEq] at h
    obtain ⟨h1, _⟩ := h; subst h1; exact hN
  | cons a as ih =>
    simp only [xorTerms] at h
    rcases hn : xorNots m a all with _ | ⟨m1, ns⟩
    · simp [hn] at h
    · obtain ⟨g1, v1⟩ := xorNots_good hI a all hn
      have n1 := xorNots_nnn hI hN a all hn
      simp only [hn] at h
      have hva : ∀ r ∈ a :: ns, r < m1.heap.length := by
        intro r hr
        rcases List.mem_cons.1 hr with h3 | h3
        · subst h3; exact Nat.lt_of_lt_of_le (hv _ (List.mem_cons_self ..)) g1.ext.length_le
        · exact v1 r h3
      obtain ⟨g2, _⟩ := naryRefs_good g1.inv .and unitTrue_good (a :: ns) hva
      have n2 := naryRefs_nnn g1.inv n1 .and (by decide) unitTrue_nnn (a :: ns) hva
      have g12 := g1.trans g2
      rcases hx : xorTerms (naryRefs m1 .and unitTrue (a :: ns)).1 all as with _ | ⟨m3, ts3⟩
      · simp [hx] at h
      · have hvas : ∀ r ∈ as, r < (naryRefs m1 .and unitTrue (a :: ns)).1.heap.length :=
          fun r hr => Nat.lt_of_lt_of_le (hv r (List.mem_cons_of_mem _ hr)) g12.ext.length_le
        have n3 := ih g2.inv n2 hvas hx
        simp only [hx, Option.some.injEq, Prod.mk.injEq] at h
        obtain ⟨h1, _⟩ := h; subst h1; exact n3

theorem mkNot_nnn {m : Mgr} (hI : Inv m) (hN : NoNotNot m) (args : List Arg) (ha : ∀ a ∈ args, a.valid m)
    {m' : Mgr} {res : Res} (h : mkNot m args = some (m', res)) : NoNotNot m' := by
  unfold mkNot at h
  rcases hp : autoPromote m args with ⟨m1, e | rs⟩
  · have n1 := autoPromote_nnn hI hN args ha hp
    simp only [hp, Option.some.injEq, Prod.mk.injEq] at h
    obtain ⟨h1, _⟩ := h; subst h1; exact n1
  · obtain ⟨g1, _⟩ := autoPromote_good hI args ha hp
    have n1 := autoPromote_nnn hI hN args ha hp
    simp only [hp] at h
    match rs, h with
    | [e], h =>
      simp only [Option.map_eq_some_iff] at h
      obtain ⟨⟨m2, r⟩, hn, h2⟩ := h
      simp only [Prod.mk.injEq] at h2
      obtain ⟨h3, _⟩ := h2; subst h3
      exact notRef_nnn g1.inv n1 e hn
    | [], h => simp at h
    | _ :: _ :: _, h => simp at h

theorem mkXOr_nnn {m : Mgr} (hI : Inv m) (hN : NoNotNot m) (args : List Arg) (ha : ∀ a ∈ args, a.valid m)
    {m' : Mgr} {res : Res} (h : mkXOr m args = some (m', res)) : NoNotNot m' := by
  unfold mkXOr at h
  rcases hp : autoPromote m args with ⟨m1, e | rs⟩
  · have n1 := autoPromote_nnn hI hN args ha hp
    simp only [hp, Option.some.injEq, Prod.mk.injEq] at h
    obtain ⟨h1, _⟩ := h; subst h1; exact n1
  · obtain ⟨g1, v1⟩ := autoPromote_good hI args ha hp
    have n1 := autoPromote_nnn hI hN args ha hp
    simp only [hp] at h
    match rs, h with
    | [], h =>
      simp only [Option.some.injEq, Prod.mk.injEq] at h
      obtain ⟨h1, _⟩ := h; subst h1; exact n1
    | [a], h =>
      simp only [Option.some.injEq, Prod.mk.injEq] at h
      obtain ⟨h1, _⟩ := h; subst h1; exact n1
    | a :: b :: rs, h =>
      simp only at h
      rcases hx : xorTerms m1 (a :: b :: rs) (a :: b :: rs) with _ | ⟨m2, ts⟩
      · simp [hx] at h
      · obtain ⟨g2, v2⟩ := xorTerms_good g1.inv _ _ (v1 _ rfl) hx
        have n2 := xorTerms_nnn g1.inv n1 _ _ (v1 _ rfl) hx
        simp only [hx, Option.some.injEq, Prod.mk.injEq] at h
        obtain ⟨h1, _⟩ := h; subst h1
        exact naryRefs_nnn g2.inv n2 .or (by decide) unitFalse_nnn ts v2

theorem post2_op (op : Op) (hne : op ≠ .not) : ∀ rs c, post2 op rs = some (.ok c) → c.op ≠ .not := by
  intro rs c h
  unfold post2 at h
  split at h
  · simp only [Option.some.injEq, Except.ok.injEq] at h; subst h; exact hne
  · cases h

theorem post2swap_op (op : Op) (hne : op ≠ .not) : ∀ rs c, post2swap op rs = some (.ok c) → c.op ≠ .not := by
  intro rs c h
  unfold post2swap at h
  split at h
  · simp only [Option.some.injEq, Except.ok.injEq] at h; subst h; exact hne
  · cases h

theorem postAll_op (op : Op) (p : Payload) (hne : op ≠ .not) :
    ∀ rs c, postAll op p rs = some (.ok c) → c.op ≠ .not := by
  intro rs c h
  simp only [postAll, Option.some.injEq, Except.ok.injEq] at h; subst h; exact hne

theorem postQuant_op (op : Op) (vs : List String) (hne : op ≠ .not) :
    ∀ rs c, postQuant op vs rs = some (.ok c) → c.op ≠ .not := by
  intro rs c h
  unfold postQuant at h
  split at h
  · cases h
  · simp only [Option.some.injEq, Except.ok.injEq] at h; subst h; exact hne

theorem postFluent_op (k : String) (ar : Nat) :
    ∀ rs c, postFluent k ar rs = some (.ok c) → c.op ≠ .not := by
  intro rs c h
  unfold postFluent at h
  split at h
  · cases h
  · simp only [Option.some.injEq, Except.ok.injEq] at h; subst h; intro h; cases h

/-- every modelled constructor keeps the table free of `Not(Not x)` nodes -/
theorem apply_nnn {m : Mgr} (hI : Inv m) (hN : NoNotNot m) (c : Ctor) (ps : List (PArg Arg))
    (hp : ∀ p ∈ ps, p.valid m) {m' : Mgr} {res : Res} (h : apply m c ps = some (m', res)) : NoNotNot m' := by
  have nil : ∀ x ∈ ([] : List Ref), x < m.heap.length := by simp
  unfold apply at h
  split at h
  all_goals first
    | exact mkVia_nnn hI hN _ (polymorph_valid _ hp) _ (post2_sub _) (post2_op _ (by decide)) h
    | exact mkVia_nnn hI hN _ (polymorph_valid _ hp) _ (post2swap_sub _) (post2swap_op _ (by decide)) h
    | exact mkVia_nnn hI hN _ (polymorph_valid _ hp) _ (postAll_sub _ _) (postAll_op _ _ (by decide)) h
    | exact mkVia_nnn hI hN _ (polymorph_valid _ hp) _ (postQuant_sub _ _) (postQuant_op _ _ (by decide)) h
    | exact mkVia_nnn hI hN _ (polymorph_valid _ hp) _ (postFluent_sub _ _) (postFluent_op _ _) h
    | exact mkNot_nnn hI hN _ (polymorph_valid _ hp) h
    | exact mkXOr_nnn hI hN _ (polymorph_valid _ hp) h
    | (simp only [Option.some.injEq, Prod.mk.injEq] at h
       obtain ⟨h1, _⟩ := h; subst h1
       first
         | exact hN
         | exact createNode_nnn_ne hI hN _ _ _ nil (by decide))
    | (simp only [Option.some.injEq] at h
       first
         | exact mkNary_nnn hI hN _ (by decide) unitTrue_nnn _ (polymorph_valid _ hp) h
         | exact mkNary_nnn hI hN _ (by decide) unitFalse_nnn _ (polymorph_valid _ hp) h
         | exact mkNary_nnn hI hN _ (by decide) (unitInt_nnn _) _ (polymorph_valid _ hp) h)
    | (split at h
       · cases h
       · simp only [Option.some.injEq, Prod.mk.injEq] at h
         obtain ⟨h1, _⟩ := h; subst h1
         exact createNode_nnn_ne hI hN _ _ _ nil (by decide))
    | cases h

theorem xorVia_nnn {m : Mgr} (hI : Inv m) (hN : NoNotNot m) (xs : List (PArg Arg)) (hx : ∀ p ∈ xs, p.valid m)
    {m' : Mgr} {res : Res} (h : xorVia m xs = some (m', res)) : NoNotNot m' := by
  unfold xorVia at h
  rcases h1 : apply m .or xs with _ | ⟨m1, r1⟩
  · simp [h1] at h
  · obtain ⟨g1, v1⟩ := apply_good hI .or xs hx h1
    have n1 := apply_nnn hI hN .or xs hx h1
    cases r1 with
    | err e =>
      simp only [h1, Option.some.injEq, Prod.mk.injEq] at h
      obtain ⟨a, _⟩ := h; subst a; exact n1
    | ok o =>
      simp only [h1] at h
      have hx1 := PArgs.valid_mono g1.ext hx
      rcases h2 : apply m1 .and xs with _ | ⟨m2, r2⟩
      · simp [h2] at h
      · obtain ⟨g2, v2⟩ := apply_good g1.inv .and xs hx1 h2
        have n2 := apply_nnn g1.inv n1 .and xs hx1 h2
        cases r2 with
        | err e =>
          simp only [h2, Option.some.injEq, Prod.mk.injEq] at h
          obtain ⟨a, _⟩ := h; subst a; exact n2
        | ok a =>
          simp only [h2] at h
          have va : (PArg.one (Arg.node a)).valid m2 := v2
          have hxa : ∀ p ∈ [PArg.one (Arg.node a)], p.valid m2 := valid_cons va valid_nil
          rcases h3 : apply m2 .not [.one (.node a)] with _ | ⟨m3, r3⟩
          · simp [h3] at h
          · obtain ⟨g3, v3⟩ := apply_good g2.inv .not [.one (.node a)] hxa h3
            have n3 := apply_nnn g2.inv n2 .not _ hxa h3
            cases r3 with
            | err e =>
              simp only [h3, Option.some.injEq, Prod.mk.injEq] at h
              obtain ⟨a', _⟩ := h; subst a'; exact n3
            | ok n =>
              simp only [h3] at h
              have vo : (PArg.one (Arg.node o)).valid m3 :=
                Nat.lt_of_lt_of_le v1 (g2.ext.trans g3.ext).length_le
              have vn : (PArg.one (Arg.node n)).valid m3 := v3
              exact apply_nnn g3.inv n3 .and _ (valid_cons vo (valid_cons vn valid_nil)) h

theorem applyMeth_nnn {m : Mgr} (hI : Inv m) (hN : NoNotNot m) (self : Arg) (hs : self.valid m) (f : Meth)
    (os : List (PArg Arg)) (ho : ∀ p ∈ os, p.valid m)
    {m' : Mgr} {res : Res} (h : applyMeth m self f os = some (m', res)) : NoNotNot m' := by
  have h1 : (PArg.one self).valid m := hs
  have h0 : (PArg.one (Arg.num (.int 0))).valid m := trivial
  unfold applyMeth at h
  split at h
  all_goals first
    | cases h
    | exact apply_nnn hI hN _ _ (valid_cons h1 ho) h
    | exact apply_nnn hI hN _ _ (valid_snoc ho h1) h
    | exact apply_nnn hI hN _ _ (valid_cons h0 (valid_cons h1 valid_nil)) h
    | exact apply_nnn hI hN _ _ (valid_cons h1 valid_nil) h
    | exact xorVia_nnn hI hN _ (valid_cons h1 ho) h
    | exact xorVia_nnn hI hN _ (valid_snoc ho h1) h

theorem applyInfix_nnn {m : Mgr} (hI : Inv m) (hN : NoNotNot m) (op : Infix) (l r : PArg Arg)
    (hl : l.valid m) (hr : r.valid m)
    {m' : Mgr} {res : Res} (h : applyInfix m op l r = some (m', res)) : NoNotNot m' := by
  unfold applyInfix at h
  cases l with
  | many as => cases h
  | one a =>
    simp only at h
    split at h
    · exact applyMeth_nnn hI hN a hl _ _ (valid_cons hr valid_nil) h
    · cases r with
      | many bs => cases h
      | one b =>
        simp only at h
        split at h
        · exact applyMeth_nnn hI hN b hr _ _ (valid_cons hl valid_nil) h
        · cases h

theorem applyPath_nnn {m : Mgr} (hI : Inv m) (hN : NoNotNot m) {rs : List Res} (hrs : ∀ r ∈ rs, r.valid m)
    (p : Path) (as : List (PArg Arg)) (ha : ∀ q ∈ as, q.valid m)
    {m' : Mgr} {res : Res} (h : applyPath m rs p as = some (m', res)) : NoNotNot m' := by
  unfold applyPath at h
  split at h
  · exact apply_nnn hI hN _ _ ha h
  · exact apply_nnn hI hN _ _ ha h
  · split at h
    · cases h
    · rename_i self hs
      split at h
      · exact applyMeth_nnn hI hN self (resolve_valid hrs hs) _ _ ha h
      · cases h
  · rename_i l r
    exact applyInfix_nnn hI hN _ l r (ha l (by simp)) (ha r (by simp)) h
  · rename_i x
    have hx : (PArg.one x).valid m := ha _ (by simp)
    split at h
    · exact applyMeth_nnn hI hN x hx _ _ valid_nil h
    · cases h
  · split at h
    · cases h
    · rename_i t ht
      have hv : (PArg.many t).valid m := tupleOf_valid ht ha
      exact apply_nnn hI hN _ _ (valid_cons hv valid_nil) h
  · cases h

theorem pstep_nnn {m : Mgr} (hI : Inv m) (hN : NoNotNot m) {rs : List Res} (hrs : ∀ r ∈ rs, r.valid m) (c : PCmd)
    {m' : Mgr} {res : Res} (h : pstep m rs c = some (m', res)) : NoNotNot m' := by
  unfold pstep at h
  rcases hm : c.args.mapM (resolveP rs) with _ | as
  · simp [hm] at h
  · simp only [hm] at h
    exact applyPath_nnn hI hN hrs c.path as (resolved_valid hrs hm) h

theorem prun_nnn {m : Mgr} (hI : Inv m) (hN : NoNotNot m) {rs : List Res} (hrs : ∀ r ∈ rs, r.valid m)
    (cs : List PCmd) {m' : Mgr} {rs' : List Res} (h : prun m rs cs = some (m', rs')) : NoNotNot m' := by
  induction cs generalizing m rs with
  | nil =>
    simp only [prun, Option.some.injEq, Prod.mk.injEq] at h
    obtain ⟨h1, _⟩ := h; subst h1; exact hN
  | cons c cs ih =>
    simp only [prun] at h
    rcases hs : pstep m rs c with _ | ⟨m1, r⟩
    · simp [hs] at h
    · simp only [hs] at h
      obtain ⟨g1, v1⟩ := pstep_good hI hrs c hs
      exact ih g1.inv (pstep_nnn hI hN hrs c hs) (valid_snoc_res hrs g1.ext v1) h

/-- the fresh manager holds TRUE and FALSE only -/
theorem Mgr.new_nnn : NoNotNot Mgr.new := by
  intro r n hn hnot
  rw [Mgr.new_eq] at hn
  match r, hn with
  | 0, hn => simp at hn; subst hn; cases hnot
  | 1, hn => simp at hn; subst hn; cases hnot
  | _ + 2, hn => simp at hn

end UPVerif.HashCons
