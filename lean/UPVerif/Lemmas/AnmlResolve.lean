import UPVerif.Lemmas.AnmlParse
/-!
Stage 2 of the reader on the statement trees of printed syntax: names resolve back to the renamed items,
`==` gets the right reading, and the result is the re-spelt renamed expression.
-/
namespace UPVerif.Anml
open Tok

/-! ### association lists -/

theorem lookup_map_some {α β} (k : α → String) (val : α → β) : ∀ (l : List α) (a : α), a ∈ l →
    (∀ b ∈ l, k b = k a → val b = val a) → (l.map (fun x => (k x, val x))).lookup (k a) = some (val a)
  | [], _, h, _ => by cases h
  | b :: l, a, h, hinj => by
    simp only [List.map_cons, List.lookup_cons]
    by_cases hk : k a = k b
    · simp only [hk, beq_self_eq_true]
      exact congrArg some (hinj b (by simp) hk.symm)
    · have : (k a == k b) = false := by simpa using hk
      rw [this]
      rcases List.mem_cons.1 h with rfl | h'
      · exact absurd rfl hk
      · exact lookup_map_some k val l a h' (fun c hc => hinj c (by simp [hc]))

theorem lookup_map_none {α β} (k : α → String) (val : α → β) (x : String) : ∀ (l : List α),
    (∀ b ∈ l, k b ≠ x) → (l.map (fun y => (k y, val y))).lookup x = none
  | [], _ => rfl
  | b :: l, h => by
    simp only [List.map_cons, List.lookup_cons]
    have : (x == k b) = false := by simpa using (h b (by simp)).symm
    rw [this]
    exact lookup_map_none k val x l (fun c hc => h c (by simp [hc]))

/-! ### the reader's environment for the text of `P` -/

def renScope (ρ : Ren) (vars : List Var) : List (String × Ty) :=
  vars.map (fun v => (ρ.var v.name v.ty, ρ.renTy v.ty))

/-- what the reader knows (`env`) is the renamed declarations of `P`, and the renaming is admissible -/
structure RCtx (ρ : Ren) (P : AProblem) (env : REnv) : Prop where
  good : Good ρ P
  fl : ∀ f ∈ P.fluents, env.fluents.find? (fun g => g.ref.name == ρ.fl f.ref.name) = some (ρ.renFluent f)
  flNone : ∀ x, (∀ f ∈ P.fluents, ρ.fl f.ref.name ≠ x) → env.fluents.find? (fun g => g.ref.name == x) = none
  obj : ∀ o ∈ P.objects, env.objects.lookup (ρ.obj o.1) = some (ρ.ty o.2)
  ty : ∀ t, wfTy P t = true → resolveTy env (ρ.renTy t) = some (ρ.renTy t)
  flUniq : ∀ f ∈ P.fluents, ∀ g ∈ P.fluents, f.ref.name = g.ref.name → f = g

/-- the parameters and variables in scope are items of the problem -/
structure ScopeOK (P : AProblem) (params : List (String × Ty)) (vars : List Var) : Prop where
  par : ∀ p ∈ params, Item.par p.1 p.2 ∈ P.items
  var : ∀ v ∈ vars, Item.var v.name v.ty ∈ P.items

theorem mem_items_fl {P : AProblem} {f : AFluent} (h : f ∈ P.fluents) : Item.fl f.ref.name ∈ P.items := by
  simp only [AProblem.items, List.mem_append, List.mem_map]
  exact Or.inl (Or.inl (Or.inl (Or.inl (Or.inl (Or.inr ⟨f, h, rfl⟩)))))

theorem mem_items_obj {P : AProblem} {o : String × String} (h : o ∈ P.objects) : Item.obj o.1 ∈ P.items := by
  simp only [AProblem.items, List.mem_append, List.mem_map]
  exact Or.inl (Or.inl (Or.inl (Or.inr ⟨o, h, rfl⟩)))

section
variable {ρ : Ren} {P : AProblem} {env : REnv}

theorem scope_var_lookup (C : RCtx ρ P env) {params : List (String × Ty)} {vars : List Var}
    (S : ScopeOK P params vars) (v : Var) (hv : v ∈ vars) :
    (renScope ρ vars).lookup (ρ.var v.name v.ty) = some (ρ.renTy v.ty) := by
  unfold renScope
  refine lookup_map_some (fun v => ρ.var v.name v.ty) (fun v => ρ.renTy v.ty) vars v hv ?_
  intro w hw he
  have := C.good (.var w.name w.ty) (.var v.name v.ty) (S.var w hw) (S.var v hv) he
  injection this with h1 h2
  rw [h2]

theorem scope_var_none (C : RCtx ρ P env) {params : List (String × Ty)} {vars : List Var}
    (S : ScopeOK P params vars) (i : Item) (hi : i ∈ P.items) (hne : ∀ n t, i ≠ .var n t) :
    (renScope ρ vars).lookup (ρ.name i) = none := by
  unfold renScope
  refine lookup_map_none (fun v => ρ.var v.name v.ty) (fun v => ρ.renTy v.ty) _ vars ?_
  intro w hw he
  exact hne _ _ (C.good (.var w.name w.ty) i (S.var w hw) hi he).symm

theorem scope_par_lookup (C : RCtx ρ P env) {params : List (String × Ty)} {vars : List Var}
    (S : ScopeOK P params vars) (p : String × Ty) (hp : p ∈ params) :
    (ρ.renParams params).lookup (ρ.par p.1 p.2) = some (ρ.renTy p.2) := by
  unfold Ren.renParams
  refine lookup_map_some (fun p => ρ.par p.1 p.2) (fun p => ρ.renTy p.2) params p hp ?_
  intro q hq he
  have := C.good (.par q.1 q.2) (.par p.1 p.2) (S.par q hq) (S.par p hp) he
  injection this with h1 h2
  rw [h2]

theorem scope_par_none (C : RCtx ρ P env) {params : List (String × Ty)} {vars : List Var}
    (S : ScopeOK P params vars) (i : Item) (hi : i ∈ P.items) (hne : ∀ n t, i ≠ .par n t) :
    (ρ.renParams params).lookup (ρ.name i) = none := by
  unfold Ren.renParams
  refine lookup_map_none (fun p => ρ.par p.1 p.2) (fun p => ρ.renTy p.2) _ params ?_
  intro q hq he
  exact hne _ _ (C.good (.par q.1 q.2) i (S.par q hq) hi he).symm

theorem fluents_none (C : RCtx ρ P env) (i : Item) (hi : i ∈ P.items) (hne : ∀ n, i ≠ .fl n) :
    env.fluents.find? (fun g => g.ref.name == ρ.name i) = none := by
  refine C.flNone _ ?_
  intro f hf he
  exact hne _ (C.good (.fl f.ref.name) i (mem_items_fl hf) hi he).symm

end

end UPVerif.Anml
