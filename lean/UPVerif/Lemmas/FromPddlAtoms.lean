import UPVerif.Lemmas.FromPddlArith
/-!
Helper lemmas for C21: the two readers on the leaves of a formula — numbers, names, variables, fluent applications —
under an agreement of their symbol tables.
-/
namespace UPVerif.FromPddl
open UPVerif UPVerif.Expr UPVerif.Pddl

/-! ### tokens -/

theorem parseNumber_of_numberTok {s : String} {q : Rat} (h : numberTok s = some q) : parseNumber s = some q := by
  unfold numberTok at h
  unfold parseNumber parseNumberChars
  split at h
  · cases h
  · cases h
  · rename_i cs h1 h2
    split
    · rename_i r hr; exact absurd hr (h1 r)
    · rename_i r hr; exact absurd hr (h2 r)
    · exact h

theorem digitsVal_q (r : List Char) (acc : Nat) : digitsVal? ('?' :: r) acc = none := by
  unfold digitsVal?
  have : charDigit? '?' = none := by decide
  rw [this]

theorem parseUnsigned_q (r : List Char) : parseUnsigned ('?' :: r) = none := by
  unfold parseUnsigned
  have hs : splitAtDot ('?' :: r) = (('?' :: (splitAtDot r).1), (splitAtDot r).2) := by
    rw [splitAtDot]
    · intro h; cases h
  rw [hs]
  have hp : parseNat? ('?' :: (splitAtDot r).1) = none := by
    unfold parseNat?
    simp [digitsVal_q]
  cases (splitAtDot r).2 with
  | none => simp [hp]
  | some fp => simp [hp]

theorem numberTok_eq {s : String} {q : Rat} (h : numberTok s = some q) : parseUnsigned s.toList = some q := by
  unfold numberTok at h
  split at h
  · cases h
  · cases h
  · exact h

theorem stripQ_of_numberTok {s : String} {q : Rat} (h : numberTok s = some q) : stripQ s = none := by
  have h' := numberTok_eq h
  unfold stripQ
  split
  · rename_i r hr
    rw [hr, parseUnsigned_q] at h'
    cases h'
  · rfl

theorem isReserved_of_isOperator {h : String} (ho : isOperator h = true) : isReserved h = true := by
  unfold isOperator at ho
  simp only [List.contains_iff_mem, List.mem_cons, List.mem_nil_iff, or_false] at ho
  rcases ho with rfl | rfl | rfl | rfl | rfl | rfl | rfl | rfl | rfl | rfl | rfl | rfl | rfl <;> decide

theorem isReserved_quant {h : String} (hq : (h == "exists" || h == "forall") = true) : isReserved h = true := by
  simp only [Bool.or_eq_true, beq_iff_eq] at hq
  rcases hq with rfl | rfl <;> decide

theorem alpha_ge (c : Char) (h : c.isAlpha = true) : 65 ≤ c.toNat := by
  unfold Char.isAlpha Char.isUpper Char.isLower at h
  simp only [Bool.or_eq_true, Bool.and_eq_true, decide_eq_true_eq] at h
  have : c.toNat = c.val.toNat := rfl
  rcases h with ⟨h1, _⟩ | ⟨h1, _⟩
  · rw [this]; exact UInt32.le_iff_toNat_le.1 h1
  · rw [this]
    have := UInt32.le_iff_toNat_le.1 h1
    simp at this
    omega

/-- a token that starts with a letter is not a number for the first reader -/
theorem parseNumber_alpha (s : String) (h : startsAlpha s = true) : parseNumber s = none := by
  unfold startsAlpha at h
  unfold parseNumber
  cases hs : s.toList with
  | nil => rw [hs] at h; cases h
  | cons c r =>
    rw [hs] at h
    simp only at h
    have hge := alpha_ge c h
    have hm : c ≠ '-' := by intro e; subst e; revert hge; decide
    have hp : c ≠ '+' := by intro e; subst e; revert hge; decide
    have hd : c ≠ '.' := by intro e; subst e; revert hge; decide
    have hcd : charDigit? c = none := by
      unfold charDigit?
      rw [if_neg]; omega
    unfold parseNumberChars
    split
    · rename_i r' heq; simp only [List.cons.injEq] at heq; exact absurd heq.1 hm
    · rename_i r' heq; simp only [List.cons.injEq] at heq; exact absurd heq.1 hp
    · unfold parseUnsigned
      have hs2 : splitAtDot (c :: r) = ((c :: (splitAtDot r).1), (splitAtDot r).2) := by
        rw [splitAtDot]
        · intro h'; exact hd h'
      rw [hs2]
      have hpn : parseNat? (c :: (splitAtDot r).1) = none := by
        unfold parseNat?
        simp [digitsVal?, hcd]
      cases (splitAtDot r).2 with
      | none => simp [hpn]
      | some fp => simp [hpn]

/-! ### agreement of the symbol tables -/

/-- the reading environments of the two readers describe the same declarations -/
structure EnvAgree (E : REnv) (CE : CEnv) (ps : List (String × Ty)) : Prop where
  /-- a fluent the converter knows is the same fluent for the first reader (the converse fails for `total-cost` under an
      action-cost metric: the converter does not declare it) -/
  fluents : ∀ n f, CE.fluent? n = some f → E.fluent? n = some f
  /-- the converter knows all objects; the first reader reads the actions while it knows the constants only: what it
      knows, it knows with the same type -/
  objects : ∀ s, E.objects.lookup s = CE.objects.lookup s ∨ E.objects.lookup s = none
  /-- no object of the converter is spelled like a fluent -/
  obj_fluent : ∀ s t, CE.objects.lookup s = some t → E.fluent? s = none
  params : E.params.getD [] = ps
  /-- the converter's type table maps a PDDL type name to the user type of that name -/
  types_id : ∀ t n, (CE.types.lookup t).join = some n → n = t

/-- names are names: no fluent or object is spelled like a number, and no object like a fluent -/
structure NamesOK (E : REnv) : Prop where
  num_fluent : ∀ s q, numberTok s = some q → E.fluent? s = none
  num_object : ∀ s q, numberTok s = some q → E.object? s = none
  obj_fluent : ∀ s t, E.object? s = some t → E.fluent? s = none

/-- the quantified variables in scope, by name (innermost binding first / dictionary by name) -/
def ScopeAgree (sc qv : List Var) : Prop :=
  ∀ n : String, sc.find? (fun v => v.name == n) = qv.find? (fun w => w.name == n)

/-- a fluent application the converter accepts: its fluent, as the first reader sees it -/
theorem convFluent_inv {E : REnv} {CE : CEnv} {ps : List (String × Ty)} (ag : EnvAgree E CE ps) {qv : List Var} {n : String}
    {ts : List Term} {e' : Expr} (h : convFluent CE ps qv n ts = some e') :
    ∃ f, E.fluent? n = some f ∧
      (convTerms CE ps qv ts).bind (fun as => if as.length == f.sig.length then some (.app (.fluent f) as) else none) = some e' := by
  unfold convFluent at h
  cases hc : CE.fluent? n with
  | none => simp [hc] at h
  | some f =>
    simp only [hc] at h
    exact ⟨f, ag.fluents n f hc, h⟩

/-! ### terms -/

/-- a name or variable in argument position: both readers resolve it to the same leaf -/
theorem term_agree {E : REnv} {CE : CEnv} {ps : List (String × Ty)} (ag : EnvAgree E CE ps) (nm : NamesOK E) (C : PCtx)
    {sc qv : List Var} (hs : ScopeAgree sc qv) (s : String) (e e' : Expr) (τ : Term)
    (hU : readAtom E sc s = some e) (hA : astTerm C (.atom s) = some τ) (hQ : convTerm CE ps qv τ = some e') : e = e' := by
  rw [astTerm] at hA
  cases hq : stripQ s with
  | some v =>
    simp only [hq, Option.some.injEq] at hA
    subst hA
    simp only [readAtom, hq, lookupVar, hs v] at hU
    simp only [convTerm] at hQ
    cases hf : qv.find? (fun w => w.name == v) with
    | some w =>
      simp only [hf, Option.some.injEq] at hU hQ
      rw [← hU, ← hQ]
    | none =>
      simp only [hf] at hU hQ
      rw [← ag.params] at hQ
      cases hp : E.params with
      | none => simp [hp] at hU
      | some pl =>
        simp only [hp, Option.getD_some] at hU hQ
        rw [hQ] at hU
        exact (Option.some.inj hU).symm
  | none =>
    simp only [hq] at hA
    split at hA
    · cases hA
    · rename_i hres
      have hτ : τ = .const s := by
        split at hA
        · split at hA
          · exact (Option.some.inj hA).symm
          · cases hA
        · exact (Option.some.inj hA).symm
      subst hτ
      simp only [convTerm] at hQ
      cases hc : CE.objects.lookup s with
      | none => simp [hc] at hQ
      | some t =>
        simp only [hc, Option.map_some, Option.some.injEq] at hQ
        have hfl : E.fluent? s = none := ag.obj_fluent s t hc
        rcases ag.objects s with ho | ho
        · have ho' : E.object? s = some t := by rw [REnv.object?, ho, hc]
          simp only [readAtom, hq, hfl, ho', Option.some.injEq] at hU
          rw [← hQ, ← hU]
        · -- the first reader does not know the object: the token is no number either, it is refused
          have ho' : E.object? s = none := ho
          have hal : startsAlpha s = true := by
            simp only [Bool.or_eq_true, not_or, Bool.not_eq_true] at hres
            have := hres.2
            unfold isReserved at this
            simp only [Bool.or_eq_false_iff, Bool.not_eq_false'] at this
            exact this.2
          simp [readAtom, hq, hfl, ho', parseNumber_alpha s hal] at hU

end UPVerif.FromPddl
