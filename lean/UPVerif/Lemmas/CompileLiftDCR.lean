import UPVerif.Lemmas.CompileLiftSIR
/-!
`DisjunctiveConditionsRemover` on ALL instances — problems whose goal DNF is not a disjunction (no goal action) and
whose conditional effects are not split (finding C06-dcr-overlapping-disjuncts excluded), as in the parameterless
theorems — as a forward and a backward simulation between the lifted transition systems.

The compiled variant for the disjunct `d` of `dnf(And(pre))` is the LIFTED action with preconditions
`split(simplify(d))` and every effect condition replaced by `simplify(dnf(cond))`.  Its instance asks for the
instantiated disjunct; what is needed of the two walkers is stated on the instance:
* `SimpExactOn simp σ` — the simplified expression, instantiated, evaluates like the expression, instantiated;
* `DnfSplitsOn dnfE σ` — an instantiated expression is TRUE iff some instantiated disjunct of its DNF is
  (`DnfSplits` is the case of the empty map).
-/
namespace UPVerif.Compile
open UPVerif UPVerif.Expr UPVerif.Sim UPVerif.Spec UPVerif.Simulation

/-- truth of an instantiated expression = truth of one instantiated disjunct of its DNF -/
def DnfSplitsOn (dnfE : Expr → Expr) (σ : Subst) : Prop :=
  ∀ (c : EvalCtx) (e : Expr),
    Spec.isTrue (eval c [] (substE σ e)) = (disjuncts (dnfE e)).any (fun d => Spec.isTrue (eval c [] (substE σ d)))

theorem dnfSplitsOn_nil {dnfE : Expr → Expr} : DnfSplitsOn dnfE [] ↔ DnfSplits dnfE := Iff.rfl

/-- … for ONE expression in ONE state: what the step lemmas use, and what C12 gives for the real DNF walker where the
    instance of the expression is defined -/
def DnfSplitsAt (dnfE : Expr → Expr) (c : EvalCtx) (σ : Subst) (e : Expr) : Prop :=
  Spec.isTrue (eval c [] (substE σ e)) = (disjuncts (dnfE e)).any (fun d => Spec.isTrue (eval c [] (substE σ d)))

/-- hypotheses of the lifted DisjunctiveConditionsRemover theorems on one action and one instance: the part that does
    not depend on the state (decidable) -/
structure DcrInstOK (simp dnfE : Expr → Expr) (σ : Subst) (a : Action) : Prop where
  /-- instantiation does not turn an effect condition into the constant TRUE -/
  stable : ∀ e ∈ a.effs, condStable σ e = true
  /-- conditional effects: their INSTANCE is not a forall effect and has a constant target; their condition is
      rewritten into ONE condition (no split: finding C06-dcr-overlapping-disjuncts excluded) -/
  effs : ∀ e ∈ a.effs, e.isConditional = true →
    simpleCond (substEff σ e) = true ∧ (∀ args, simp (dnfE e.cond) ≠ .app .or args)

/-- … and what is asked of the two walkers in the state `c` -/
structure DcrInstAt (simp dnfE : Expr → Expr) (c : EvalCtx) (σ : Subst) (a : Action) : Prop where
  /-- the simplifier is exact on the instances of the disjuncts of the preconditions' DNF -/
  simpD : ∀ d ∈ disjuncts (dnfE (mkAnd a.pre)), SimpExactAt simp c σ d
  /-- the instantiated preconditions are TRUE iff some instantiated disjunct of their DNF is -/
  dnf : DnfSplitsAt dnfE c σ (mkAnd a.pre)
  /-- the rewritten effect conditions, instantiated, evaluate like the original ones, instantiated -/
  effC : ∀ e ∈ a.effs, e.isConditional = true →
    eval c [] (substE σ (simp (dnfE e.cond))) = eval c [] (substE σ e.cond)

/-- hypotheses of the lifted theorems on the problem: the state-independent part -/
structure DcrLiftOK (simp dnfE : Expr → Expr) (W : World) : Prop where
  /-- the goal needs no goal action -/
  goal : ∀ args, dnfE (mkAnd W.P.goals) ≠ .app .or args
  inst : ∀ a ∈ W.P.actions, ∀ args ∈ instancesOf W.P a, DcrInstOK simp dnfE (paramSubst W.P a args) a

/-- … and what is asked of the walkers in the states of `T` -/
def DcrWalkAt (simp dnfE : Expr → Expr) (W : World) (T : St → Prop) : Prop :=
  ∀ g, T g → DnfSplitsAt dnfE (ctxOf W g) [] (mkAnd W.P.goals) ∧
    ∀ a ∈ W.P.actions, ∀ args ∈ instancesOf W.P a, DcrInstAt simp dnfE (ctxOf W g) (paramSubst W.P a args) a

/-- walkers that are exact on every instance in EVERY state (the idealisation of `Props/C06.lean`, on instances) -/
structure DcrWalkExact (simp dnfE : Expr → Expr) (W : World) : Prop where
  hsimp : SimpExactInst simp W.P
  hdnfG : DnfSplits dnfE
  hdnf : ∀ a ∈ W.P.actions, ∀ args ∈ instancesOf W.P a, DnfSplitsOn dnfE (paramSubst W.P a args)
  effC : ∀ a ∈ W.P.actions, ∀ args ∈ instancesOf W.P a, ∀ e ∈ a.effs, e.isConditional = true → ∀ c : EvalCtx,
    eval c [] (substE (paramSubst W.P a args) (simp (dnfE e.cond))) = eval c [] (substE (paramSubst W.P a args) e.cond)

theorem DcrWalkExact.at {simp dnfE : Expr → Expr} {W : World} (h : DcrWalkExact simp dnfE W) (T : St → Prop) :
    DcrWalkAt simp dnfE W T := by
  intro g _
  refine ⟨h.hdnfG (ctxOf W g) _, ?_⟩
  intro a ha args hin
  exact ⟨fun d _ => h.hsimp a ha args hin (ctxOf W g) d, h.hdnf a ha args hin (ctxOf W g) _,
    fun e he hc => h.effC a ha args hin e he hc (ctxOf W g)⟩

theorem dcrEffects_cons_cond {simp dnfE : Expr → Expr} {e : Effect} {es : List Effect} (hc : e.isConditional = true)
    (hno : ∀ args, simp (dnfE e.cond) ≠ .app .or args) :
    dcrEffects simp dnfE (e :: es) =
      (if (simp (dnfE e.cond)).isFalse then [] else [{ e with cond := simp (dnfE e.cond) }]) ++
        dcrEffects simp dnfE es := by
  unfold dcrEffects
  rw [List.flatMap_cons]
  simp only [hc, if_true]

theorem dcrEffects_cons_uncond {simp dnfE : Expr → Expr} {e : Effect} {es : List Effect} (hc : e.isConditional = false) :
    dcrEffects simp dnfE (e :: es) = e :: dcrEffects simp dnfE es := by
  unfold dcrEffects
  rw [List.flatMap_cons]
  simp only [hc, Bool.false_eq_true, if_false]
  rfl

theorem simpleCond_forall {e : Effect} (h : simpleCond e = true) : e.forall_ = [] := by
  unfold simpleCond at h
  rw [Bool.and_eq_true] at h
  simpa using h.1

/-- the effect rewriting of `_create_new_action_with_given_precond`, then instantiation, does not change what fires -/
theorem dcrEffects_inst_fired {simp dnfE : Expr → Expr} {σ : Subst} (hσ : IsParamSubst σ) (P : Problem) (c : EvalCtx) :
    ∀ (effs : List Effect), (∀ e ∈ effs, condStable σ e = true) →
    (∀ e ∈ effs, e.isConditional = true → simpleCond (substEff σ e) = true ∧
      (∀ args, simp (dnfE e.cond) ≠ .app .or args) ∧
      eval c [] (substE σ (simp (dnfE e.cond))) = eval c [] (substE σ e.cond)) →
    (expandEffs P ((dcrEffects simp dnfE effs).map (substEff σ))).all (effOk c) =
        (expandEffs P (effs.map (substEff σ))).all (effOk c) ∧
    (expandEffs P ((dcrEffects simp dnfE effs).map (substEff σ))).filterMap (effSel c) =
        (expandEffs P (effs.map (substEff σ))).filterMap (effSel c)
  | [], _, _ => ⟨rfl, rfl⟩
  | e :: es, hst, h => by
    obtain ⟨ih1, ih2⟩ := dcrEffects_inst_fired (simp := simp) (dnfE := dnfE) hσ P c es
      (fun x hx => hst x (List.mem_cons_of_mem _ hx)) (fun x hx => h x (List.mem_cons_of_mem _ hx))
    have hcons : expandEffs P ((e :: es).map (substEff σ)) =
        expandEffs P [substEff σ e] ++ expandEffs P (es.map (substEff σ)) := by
      rw [List.map_cons, show substEff σ e :: es.map (substEff σ) = [substEff σ e] ++ es.map (substEff σ) from rfl,
        expandEffs_append]
    by_cases hc : e.isConditional = true
    · obtain ⟨hs, hno, hex⟩ := h e (List.mem_cons_self ..) hc
      have hci : (substEff σ e).isConditional = true := by
        rw [substEff_isConditional (hst e (List.mem_cons_self ..))]; exact hc
      have hfa := simpleCond_forall hs
      have hone : expandEffs P [substEff σ e] = [substEff σ e] :=
        expandEffs_simple P _ (by intro x hx; simp at hx; rw [hx]; exact hfa)
      rw [dcrEffects_cons_cond hc hno, List.map_append, expandEffs_append, hcons, hone,
        List.all_append, List.all_append, List.filterMap_append, List.filterMap_append, ih1, ih2]
      by_cases hf : (simp (dnfE e.cond)).isFalse = true
      · simp only [hf, if_true, List.map_nil]
        have hev : eval c [] (substEff σ e).cond = .ok (.b false) := by
          show eval c [] (substE σ e.cond) = _
          rw [← hex, substE_of_isFalse hσ hf]; rfl
        have hnone := evalEff_cond_false hci hs hev
        have e1 : effOk c (substEff σ e) = true := by unfold effOk; rw [hnone]
        have e2 : effSel c (substEff σ e) = none := by unfold effSel; rw [hnone]
        simp [expandEffs, e1, e2]
      · have hf' : (simp (dnfE e.cond)).isFalse = false := by simpa using hf
        simp only [hf', Bool.false_eq_true, if_false, List.map_cons, List.map_nil]
        have hmap : substEff σ { e with cond := simp (dnfE e.cond) } =
            { substEff σ e with cond := substE σ (simp (dnfE e.cond)) } := rfl
        rw [hmap]
        have hone' : expandEffs P [({ substEff σ e with cond := substE σ (simp (dnfE e.cond)) } : Effect)] =
            [{ substEff σ e with cond := substE σ (simp (dnfE e.cond)) }] :=
          expandEffs_simple P _ (by intro x hx; simp at hx; rw [hx]; exact hfa)
        rw [hone']
        have hcong := evalEff_cond_congr (c := c) (e := substEff σ e) (nc := substE σ (simp (dnfE e.cond))) hci hex
        have e1 : effOk c { substEff σ e with cond := substE σ (simp (dnfE e.cond)) } = effOk c (substEff σ e) := by
          unfold effOk; rw [hcong]
        have e2 : effSel c { substEff σ e with cond := substE σ (simp (dnfE e.cond)) } = effSel c (substEff σ e) := by
          unfold effSel; rw [hcong]
        simp only [List.all_cons, List.all_nil, List.filterMap_cons, List.filterMap_nil, e1, e2]
        exact ⟨trivial, trivial⟩
    · have hc' : e.isConditional = false := by simpa using hc
      rw [dcrEffects_cons_uncond hc', hcons, show (e :: dcrEffects simp dnfE es).map (substEff σ) =
          [substEff σ e] ++ (dcrEffects simp dnfE es).map (substEff σ) from rfl, expandEffs_append,
        List.all_append, List.all_append, List.filterMap_append, List.filterMap_append, ih1, ih2]
      exact ⟨rfl, rfl⟩

theorem dcrNewAction_params {simp dnfE : Expr → Expr} {d : Expr} {a a' : Action}
    (h : dcrNewAction simp dnfE d a = some (some a')) : a'.params = a.params := by
  obtain ⟨_, rfl⟩ := dcrNewAction_some h
  rfl

theorem DcrInstOK.effsAt {simp dnfE : Expr → Expr} {c : EvalCtx} {σ : Subst} {a : Action}
    (hok : DcrInstOK simp dnfE σ a) (hat : DcrInstAt simp dnfE c σ a) :
    ∀ e ∈ a.effs, e.isConditional = true → simpleCond (substEff σ e) = true ∧
      (∀ args, simp (dnfE e.cond) ≠ .app .or args) ∧
      eval c [] (substE σ (simp (dnfE e.cond))) = eval c [] (substE σ e.cond) :=
  fun e he hc => ⟨(hok.effs e he hc).1, (hok.effs e he hc).2, hat.effC e he hc⟩

theorem dcr_inst_fired {simp dnfE : Expr → Expr} (W : World) {σ : Subst} (hσ : IsParamSubst σ) {a : Action} (g : St)
    (hok : DcrInstOK simp dnfE σ a) (hat : DcrInstAt simp dnfE (ctxOf W g) σ a) :
    fired (ctxOf W g) (expandEffs W.P ((dcrEffects simp dnfE a.effs).map (substEff σ))) =
      fired (ctxOf W g) (expandEffs W.P (a.effs.map (substEff σ))) := by
  obtain ⟨h1, h2⟩ := dcrEffects_inst_fired (simp := simp) (dnfE := dnfE) hσ W.P (ctxOf W g) a.effs hok.stable
    (hok.effsAt hat)
  rw [fired_eq, fired_eq, h1, h2]

/-- one step of the instance `σ` of a variant: the instantiated disjunct replaces the instantiated original
    preconditions, the effects fire alike -/
theorem dcr_stepI {simp dnfE : Expr → Expr} (W : World) {σ : Subst} (hσ : IsParamSubst σ) {a a' : Action} {d : Expr}
    (g : St) (hok : DcrInstOK simp dnfE σ a) (hat : DcrInstAt simp dnfE (ctxOf W g) σ a)
    (hd : d ∈ disjuncts (dnfE (mkAnd a.pre))) (hv : dcrNewAction simp dnfE d a = some (some a')) :
    stepI W g a' σ = succOf W g [substE σ d] (expandEffs W.P (a.effs.map (substEff σ))) := by
  obtain ⟨_, rfl⟩ := dcrNewAction_some hv
  unfold stepI
  dsimp only
  apply succOf_congr
  · rw [preOK_map_foldl_addPre hσ, preOK_map_splitAnd hσ, hat.simpD d hd]
    simp [preOK]
  · exact dcr_inst_fired W hσ g hok hat

/-- the goal test of the compiled problem (no goal action) -/
theorem dcr_goal_lifted {simp dnfE : Expr → Expr} (W : World) (hok : DcrLiftOK simp dnfE W) {Q : Problem}
    (hsig : SameSig Q W.P) (hg : Q.goals = addGoal [] (dnfE (mkAnd W.P.goals))) (g : St)
    (hdnf : DnfSplitsAt dnfE (ctxOf W g) [] (mkAnd W.P.goals)) :
    goalOK (withProblem W Q) g = goalOK W g := by
  unfold goalOK
  have hQ : (withProblem W Q).P = Q := rfl
  rw [hQ, hg]
  have e1 : ∀ e, holdsG (withProblem W Q) g e = Spec.isTrue (eval (ctxOf W g) [] e) := by
    intro e; unfold holdsG; rw [isTrueB_evalBool, hsig.ctxOf W rfl]
  have e2 : W.P.goals.all (holdsG W g) = preOK (ctxOf W g) W.P.goals := by
    unfold preOK; exact all_congr_mem (fun e _ => by unfold holdsG; rw [isTrueB_evalBool])
  have hdnf' : Spec.isTrue (eval (ctxOf W g) [] (mkAnd W.P.goals)) =
      (disjuncts (dnfE (mkAnd W.P.goals))).any (fun d => Spec.isTrue (eval (ctxOf W g) [] d)) := hdnf
  rw [List.all_congr rfl e1, e2, ← isTrue_mkAnd, hdnf']
  have hd : disjuncts (dnfE (mkAnd W.P.goals)) = [dnfE (mkAnd W.P.goals)] := by
    unfold disjuncts
    split
    · rename_i args hor; exact absurd hor (hok.goal args)
    · rfl
  rw [hd]
  unfold addGoal
  split
  · rename_i ht; rw [ht]; rfl
  · simp

/-- the instantiated original preconditions are TRUE iff some instantiated disjunct of their DNF is -/
theorem dcr_pre_iff {dnfE : Expr → Expr} {σ : Subst} (hσ : IsParamSubst σ) {c : EvalCtx} {pre : List Expr}
    (hd : DnfSplitsAt dnfE c σ (mkAnd pre)) :
    preOK c (pre.map (substE σ)) = true ↔
      ∃ d ∈ disjuncts (dnfE (mkAnd pre)), Spec.isTrue (eval c [] (substE σ d)) = true := by
  unfold DnfSplitsAt at hd
  rw [← isTrue_substE_mkAnd hσ, hd, List.any_eq_true]

/-- DisjunctiveConditionsRemover (no goal action, no effect split) is a FORWARD simulation on all instances.  `T`: an
    invariant of the runs of the compiled problem under which the walkers are exact. -/
theorem dcr_fwd_lifted {simp dnfE : Expr → Expr} (W : World) {c : Compiled} (hc : dcrCompile simp dnfE W.P = some c)
    (hok : DcrLiftOK simp dnfE W) (T : St → Prop)
    (hT0 : ∀ g, (tsLifted (withProblem W c.prob)).init = some g → T g)
    (hTs : ∀ g ia g', T g → (tsLifted (withProblem W c.prob)).step g ia = some g' → T g')
    (hw : DcrWalkAt simp dnfE W T) :
    Fwd (tsLifted W) (tsLifted (withProblem W c.prob)) (backLifted c) (fun gB gA => gB = gA ∧ T gA)
      (fun _ => True) := by
  obtain ⟨⟨acts, hacts⟩, hfw, _, _⟩ := dcrCompile_some hok.goal hc
  have hsig : SameSig c.prob W.P := by rw [hacts]; exact sameSig_actions_goals _ _ _
  have htr : c.prob.traj = W.P.traj := by rw [hacts]
  have hQ : (withProblem W c.prob).P = c.prob := rfl
  refine ⟨?_, fun _ _ => trivial, fun _ _ _ _ => trivial, ?_, ?_, ?_⟩
  · intro sB hB _
    refine ⟨sB, ?_, rfl, hT0 sB hB⟩
    have : (tsLifted (withProblem W c.prob)).init = initOf (withProblem W c.prob) := rfl
    rw [this, hsig.initOf W rfl htr (by rw [hacts])] at hB
    exact hB
  · rintro sB sA ⟨b, args⟩ sB' x hR hstep _ hb
    obtain ⟨rfl, hT⟩ := hR
    have hT' := hTs sB (b, args) sB' hT hstep
    obtain ⟨a', ha', hin, hst⟩ := tsLifted_step hstep
    rw [hQ] at ha' hin hst
    dsimp only at ha' hin hst
    obtain ⟨j, a, d, hbj, hao, hd, hv⟩ := hfw b a' ha'
    obtain ⟨j', hbj', rfl⟩ := backLifted_some hb
    rw [hbj] at hbj'; cases hbj'
    have hmem := List.mem_of_getElem? hao
    have hpar := dcrNewAction_params hv
    rw [hsig.stepI W rfl htr, paramSubst_congr hsig.objExpr hpar] at hst
    rw [instancesOf_congr hsig.tyDomain hpar] at hin
    have hin' := mem_instancesOf.1 hin
    have hσ := isParamSubst_paramSubst W.P a args
    have hi := hok.inst a hmem args hin'
    have hat := (hw sB hT).2 a hmem args hin'
    refine ⟨sB', ?_, rfl, hT'⟩
    rw [tsLifted_step_intro hao hin]
    rw [dcr_stepI W hσ sB hi hat hd hv] at hst
    have hpd := succOf_some_pre hst
    rw [preOK_singleton] at hpd
    have hpre : preOK (ctxOf W sB) (a.pre.map (substE (paramSubst W.P a args))) = true :=
      (dcr_pre_iff hσ hat.dnf).2 ⟨d, hd, hpd⟩
    rw [← hst]
    exact succOf_congr W sB (by rw [hpre, preOK_singleton, hpd]) rfl
  · rintro sB sA ⟨b, args⟩ sB' hR hstep _ hb
    obtain ⟨a', ha', _, _⟩ := tsLifted_step hstep
    obtain ⟨j, a, d, hbj, _⟩ := hfw b a' ha'
    rw [backLifted_none hb] at hbj; cases hbj
  · intro sB sA hR hg
    obtain ⟨rfl, hT⟩ := hR
    have : goalOK (withProblem W c.prob) sB = true := hg
    rw [dcr_goal_lifted W hok hsig (by rw [hacts]) sB (hw sB hT).1] at this
    exact this

/-- DisjunctiveConditionsRemover is a BACKWARD simulation on all instances: completeness, same plan length.  `T`: an
    invariant of the runs of the ORIGINAL problem under which the walkers are exact. -/
theorem dcr_bwd_lifted {simp dnfE : Expr → Expr} (W : World) {c : Compiled} (hc : dcrCompile simp dnfE W.P = some c)
    (hok : DcrLiftOK simp dnfE W) (hke : ∀ a ∈ W.P.actions, dcrKeepsEffects simp dnfE a = true) (T : St → Prop)
    (hT0 : ∀ g, (tsLifted W).init = some g → T g)
    (hTs : ∀ g ia g', T g → (tsLifted W).step g ia = some g' → T g')
    (hw : DcrWalkAt simp dnfE W T) :
    Bwd (tsLifted W) (tsLifted (withProblem W c.prob)) (backLifted c) (fun gB gA => gB = gA ∧ T gA) 0 := by
  obtain ⟨⟨acts, hacts⟩, _, hbw, hnr⟩ := dcrCompile_some hok.goal hc
  have hsig : SameSig c.prob W.P := by rw [hacts]; exact sameSig_actions_goals _ _ _
  have htr : c.prob.traj = W.P.traj := by rw [hacts]
  have hQ : (withProblem W c.prob).P = c.prob := rfl
  refine ⟨?_, ?_, ?_⟩
  · intro sA hA
    refine ⟨sA, ?_, rfl, hT0 sA hA⟩
    have : (tsLifted (withProblem W c.prob)).init = initOf (withProblem W c.prob) := rfl
    rw [this, hsig.initOf W rfl htr (by rw [hacts])]
    exact hA
  · rintro sB sA ⟨j, args⟩ sA' hR hstep
    obtain ⟨rfl, hT⟩ := hR
    have hT' := hTs sB (j, args) sA' hT hstep
    obtain ⟨a, ha, hin, hst⟩ := tsLifted_step hstep
    dsimp only at ha hin hst
    have hmem := List.mem_of_getElem? ha
    have hin' := mem_instancesOf.1 hin
    have hσ := isParamSubst_paramSubst W.P a args
    have hi := hok.inst a hmem args hin'
    have hat := (hw sB hT).2 a hmem args hin'
    have hst' : succOf W sB (a.pre.map (substE (paramSubst W.P a args)))
        (expandEffs W.P (a.effs.map (substEff (paramSubst W.P a args)))) = some sA' := hst
    have hpre := succOf_some_pre hst'
    obtain ⟨d, hd, hdt⟩ := (dcr_pre_iff hσ hat.dnf).1 hpre
    -- the variant of the true disjunct exists
    have hnf : (simp d).isFalse = false := by
      cases hf : (simp d).isFalse with
      | false => rfl
      | true =>
        have h1 := hat.simpD d hd
        unfold SimpExactAt at h1
        rw [substE_of_isFalse hσ hf] at h1
        rw [← h1] at hdt; cases hdt
    have hne := hnr a d hmem hd
    have hkeep := hke a hmem
    have hv : ∃ a', dcrNewAction simp dnfE d a = some (some a') := by
      unfold dcrNewAction at hne ⊢
      dsimp only at hne ⊢
      simp only [hnf, Bool.false_eq_true, if_false] at hne ⊢
      cases hsa : staticAll ⟨[], []⟩ (dcrEffects simp dnfE a.effs) with
      | none => rw [hsa] at hne; exact absurd rfl hne
      | some acc =>
        unfold dcrKeepsEffects at hkeep
        have : (dcrEffects simp dnfE a.effs).isEmpty = false := by simpa using hkeep
        simp only [this, Bool.false_eq_true, if_false]
        exact ⟨_, rfl⟩
    obtain ⟨a', hv⟩ := hv
    obtain ⟨i, hi', hbi⟩ := hbw j a a' d ha hd hv
    have hpar := dcrNewAction_params hv
    refine ⟨(i, args), sA', backLifted_intro args hbi, ?_, rfl, hT'⟩
    have hin2 : (instancesOf (withProblem W c.prob).P a').contains args = true := by
      rw [hQ, instancesOf_congr hsig.tyDomain hpar]; exact hin
    rw [tsLifted_step_intro (W := withProblem W c.prob) hi' hin2, hQ, hsig.stepI W rfl htr,
      paramSubst_congr hsig.objExpr hpar, dcr_stepI W hσ sB hi hat hd hv, ← hst']
    exact succOf_congr W sB (by rw [preOK_singleton, hdt, hpre]) rfl
  · intro sB sA hR hg
    obtain ⟨rfl, hT⟩ := hR
    refine ⟨[], sB, Nat.le_refl _, rfl, rfl, ?_⟩
    show goalOK (withProblem W c.prob) sB = true
    rw [dcr_goal_lifted W hok hsig (by rw [hacts]) sB (hw sB hT).1]
    exact hg

end UPVerif.Compile
