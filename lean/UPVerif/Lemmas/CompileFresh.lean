import UPVerif.Lemmas.CompileAgree
import UPVerif.Lemmas.SimFold
/-!
Adding one Boolean assignment on a ground fluent `K` that nothing else touches: consistency of the other
fluents, their new values and the value of `K` (used for the goal fluent of DisjunctiveConditionsRemover).
-/
namespace UPVerif.Compile
open UPVerif UPVerif.Expr UPVerif.Sim UPVerif.Spec

theorem sel_append_other {F : List Fired} {K k : GKey} {b : Bool} (hk : k ≠ K) :
    asgB (F ++ [Fired.setB K b]) k = asgB F k ∧ asgV (F ++ [Fired.setB K b]) k = asgV F k ∧
    deltas (F ++ [Fired.setB K b]) k = deltas F k := by
  have hKk : ¬ K = k := fun e => hk e.symm
  unfold asgB asgV deltas
  simp only [List.filterMap_append, List.filterMap_cons, List.filterMap_nil, selB, selV, selD, hKk, if_false,
    List.append_nil, and_self]

theorem sel_append_self {F : List Fired} {K : GKey} {b : Bool} (hF : ∀ f ∈ F, f.key ≠ K) :
    asgB (F ++ [Fired.setB K b]) K = [b] ∧ asgV (F ++ [Fired.setB K b]) K = [] ∧
    deltas (F ++ [Fired.setB K b]) K = [] := by
  obtain ⟨h1, h2, h3⟩ := untouched F K hF
  unfold asgB asgV deltas at *
  simp only [List.filterMap_append, h1, h2, h3, List.filterMap_cons, List.filterMap_nil, selB, selV, selD,
    if_true, List.nil_append, and_self]

theorem cons_append_fresh {cur cur' : GKey → Option Val} {F : List Fired} {K : GKey} {b : Bool}
    (hF : ∀ f ∈ F, f.key ≠ K) (hcur : ∀ f ∈ F, cur' f.key = cur f.key) :
    Cons cur' (F ++ [Fired.setB K b]) ↔ Cons cur F := by
  unfold Cons
  constructor
  · intro h f hf
    have := h f (List.mem_append_left _ hf)
    obtain ⟨e1, e2, e3⟩ := sel_append_other (F := F) (K := K) (b := b) (hF f hf)
    unfold ConsK at this ⊢
    rw [e1, e2, e3, hcur f hf] at this
    exact this
  · intro h f hf
    rcases List.mem_append.1 hf with hf | hf
    · obtain ⟨e1, e2, e3⟩ := sel_append_other (F := F) (K := K) (b := b) (hF f hf)
      unfold ConsK
      rw [e1, e2, e3, hcur f hf]
      exact h f hf
    · simp only [List.mem_singleton] at hf
      subst hf
      obtain ⟨e1, e2, e3⟩ := sel_append_self (b := b) hF
      unfold ConsK
      simp only [Fired.key]
      rw [e1, e2, e3]
      simp

theorem succGet_append_fresh_other {cur cur' : GKey → Option Val} {F : List Fired} {K k : GKey} {b : Bool}
    (hk : k ≠ K) (hcur : cur' k = cur k) : succGet cur' (F ++ [Fired.setB K b]) k = succGet cur F k := by
  obtain ⟨e1, e2, e3⟩ := sel_append_other (F := F) (K := K) (b := b) hk
  unfold succGet newVal
  rw [e1, e2, e3, hcur]

theorem succGet_append_fresh_self {cur' : GKey → Option Val} {F : List Fired} {K : GKey} {b : Bool}
    (hF : ∀ f ∈ F, f.key ≠ K) : succGet cur' (F ++ [Fired.setB K b]) K = some (.b b) := by
  obtain ⟨e1, e2, e3⟩ := sel_append_self (b := b) hF
  unfold succGet newVal
  rw [e1]
  simp

/-- the key of a fired effect is a ground instance of the effect's target fluent -/
theorem evalEff_key {c : EvalCtx} {e : Effect} {f : Fired} (h : evalEff c e = .ok (some f)) :
    ∃ ref args, e.fluent = .app (.fluent ref) args ∧ f.key.1 = ref := by
  obtain ⟨fl, v, cnd, k, fa⟩ := e
  unfold evalEff at h
  cases fl with
  | leaf l => simp at h
  | quant q vs b => simp at h
  | app op args =>
    cases op with
    | fluent ref =>
      refine ⟨ref, args, rfl, ?_⟩
      dsimp only at h
      cases ha : evalArgs c args with
      | error x => rw [ha] at h; simp at h
      | ok vs =>
        rw [ha] at h
        dsimp only at h
        split at h
        · cases h
        · cases h
        · split at h
          · cases h
          · rename_i w _
            split at h
            · split at h
              · split at h
                · cases h; rfl
                · cases h
              · cases h; rfl
            · split at h
              · cases h; rfl
              · cases h
            · split at h
              · cases h; rfl
              · cases h
    | _ => simp at h

/-- the fired effects of `F`-free effects never touch a ground fluent of `F` -/
theorem fired_keys {Fl : FluentRef} {c : EvalCtx} : ∀ {E : List Effect} {Fs : List Fired},
    (∀ e ∈ E, effectFree Fl e = true) → fired c E = some Fs → ∀ f ∈ Fs, f.key.1 ≠ Fl := by
  intro E Fs hE hF
  rw [fired_eq] at hF
  split at hF
  · cases hF
    intro f hf
    rw [List.mem_filterMap] at hf
    obtain ⟨e, he, hsel⟩ := hf
    unfold effSel at hsel
    cases hev : evalEff c e with
    | error x => rw [hev] at hsel; cases hsel
    | ok o =>
      cases o with
      | none => rw [hev] at hsel; cases hsel
      | some f' =>
        rw [hev] at hsel
        cases hsel
        obtain ⟨ref, args, hfl, hkey⟩ := evalEff_key hev
        rw [hkey]
        have hfree := hE e he
        unfold effectFree at hfree
        simp only [Bool.and_eq_true, Bool.not_eq_true'] at hfree
        have hm := hfree.1.1
        rw [hfl] at hm
        simp [mentions] at hm
        exact hm.1
  · cases hF

end UPVerif.Compile
