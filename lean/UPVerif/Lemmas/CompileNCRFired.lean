import UPVerif.Lemmas.CompileNCRWalk
import UPVerif.Lemmas.CompileFresh
/-!
The fired effects of an action compiled by NegativeConditionsRemover against those of the original action:
one effect at a time (`effO`: what an effect contributes, errors identified), then lists (`fired`).
-/
namespace UPVerif.Compile
open UPVerif UPVerif.Expr UPVerif.Sim UPVerif.Spec

/-- what one effect contributes: `none` = an evaluation fails, `some none` = it does not fire -/
def effO (c : EvalCtx) (e : Effect) : Option (Option Fired) := toO (evalEff c e)

/-- the fired effect for an evaluated target, kind and value (second half of `evalEff`) -/
def firedOf (f : FluentRef) (vs : List Val) (k : EffKind) (v : Val) : Option Fired :=
  match k with
  | .assign =>
    if f.ty == .bool then
      (match v with
       | .b b => some (.setB (f, vs) b)
       | _ => none)
    else some (.setV (f, vs) v)
  | .increase => (match v with
    | .n d => some (.delta (f, vs) d)
    | _ => none)
  | .decrease => (match v with
    | .n d => some (.delta (f, vs) (-d))
    | _ => none)

theorem evalArgs_toO (c : EvalCtx) : ∀ (args : List Expr), toO (evalArgs c args) = evL c [] args
  | [] => rfl
  | a :: as => by
    rw [evL_cons, ← evalArgs_toO c as]
    unfold ev
    simp only [evalArgs]
    cases eval c [] a <;> cases evalArgs c as <;> rfl

theorem isTrue_eq_tt {e : Expr} (h : e.isTrue = true) : e = Expr.tt := by
  unfold Expr.isTrue at h
  split at h
  · rfl
  · cases h

/-- `evalEff` with errors identified, in terms of the values of the target's arguments, the condition, the value -/
theorem effO_fluent (c : EvalCtx) (f : FluentRef) (args : List Expr) (v cond : Expr) (k : EffKind) (fa : List Var) :
    effO c ⟨.app (.fluent f) args, v, cond, k, fa⟩ =
      (evL c [] args).bind (fun vs => (ev c [] cond).bind (fun cv =>
        if cv = .b true then (ev c [] v).bind (fun w => (firedOf f vs k w).map some) else some none)) := by
  unfold effO evalEff
  dsimp only
  rw [← evalArgs_toO]
  cases evalArgs c args with
  | error x => rfl
  | ok vs =>
    simp only [toO, Option.bind_some]
    by_cases hc : cond.isTrue = true
    · have : cond = Expr.tt := isTrue_eq_tt hc
      subst this
      have hcv : ev c [] Expr.tt = some (.b true) := rfl
      simp only [Effect.isConditional, Expr.isTrue, Expr.tt, Bool.not_true, Bool.false_eq_true, if_false] at *
      rw [hcv]
      simp only [Option.bind_some, if_true]
      unfold ev
      cases eval c [] v with
      | error x => rfl
      | ok w =>
        simp only [toO, Option.bind_some, firedOf]
        cases k with
        | assign =>
          dsimp only
          by_cases hb : (f.ty == Ty.bool) = true
          · simp only [hb, if_true]; cases w <;> rfl
          · simp only [hb, Bool.false_eq_true, if_false]; rfl
        | increase => cases w <;> rfl
        | decrease => cases w <;> rfl
    · have hc' : (!cond.isTrue) = true := by simpa using hc
      simp only [Effect.isConditional, hc', if_true]
      unfold ev
      cases eval c [] cond with
      | error x => rfl
      | ok cv =>
        simp only [toO, Option.bind_some]
        by_cases hcv : cv = .b true
        · subst hcv
          simp only [if_true]
          have : ((Val.b true) == Val.b true) = true := by decide
          simp only [this]
          cases eval c [] v with
          | error x => rfl
          | ok w =>
            simp only [toO, Option.bind_some, firedOf]
            cases k with
            | assign =>
              dsimp only
              by_cases hb : (f.ty == Ty.bool) = true
              · simp only [hb, if_true]; cases w <;> rfl
              · simp only [hb, Bool.false_eq_true, if_false]; rfl
            | increase => cases w <;> rfl
            | decrease => cases w <;> rfl
        · have : (cv == Val.b true) = false := by simpa using hcv
          simp only [this, hcv, if_false]

/-- an effect whose target is not a fluent application always fails -/
theorem effO_nonfluent (c : EvalCtx) (e : Effect) (h : ∀ f args, e.fluent ≠ .app (.fluent f) args) : effO c e = none := by
  unfold effO evalEff
  split
  · rename_i f args heq; exact absurd heq (h f args)
  · rfl

/-- two effects on the same fluent with the same kind whose arguments, conditions and values evaluate alike contribute
    the same -/
theorem effO_congr {c' c : EvalCtx} (f : FluentRef) (k : EffKind) {args args' : List Expr} {v v' cond cond' : Expr}
    (fa fa' : List Var) (hargs : evL c' [] args' = evL c [] args) (hcond : ev c' [] cond' = ev c [] cond)
    (hv : ev c' [] v' = ev c [] v) :
    effO c' ⟨.app (.fluent f) args', v', cond', k, fa'⟩ = effO c ⟨.app (.fluent f) args, v, cond, k, fa⟩ := by
  rw [effO_fluent, effO_fluent, hargs, hcond, hv]

/-- the fired effect a complementary fluent `nf` receives for a fired assignment to its fluent -/
def mir1 (nf : FluentRef) : Fired → Option Fired
  | .setB k b => some (.setB (nf, k.2) (!b))
  | _ => none

theorem ev_mkNot_bool (c : EvalCtx) (v : Expr) : bev c [] (mkNot v) = (bev c [] v).map (!·) := (bev_view c []).mkNot v

theorem bind_firedOf_bool (f : FluentRef) (hf : f.ty = .bool) (vs : List Val) (x : Option Val) :
    x.bind (fun w => (firedOf f vs .assign w).map some) = (toB x).map (fun b => some (.setB (f, vs) b)) := by
  cases x with
  | none => rfl
  | some w =>
    simp only [Option.bind_some, firedOf, hf, beq_self_eq_true, if_true]
    cases w <;> rfl

/-- the mirrored effect `nf(args) := simplify(not v)` fires exactly when the effect does, with the negated value -/
theorem effO_mirror {simp : Expr → Expr} (hs : SimpExact simp) {c' c : EvalCtx} (f nf : FluentRef)
    (hf : f.ty = .bool) (hnf : nf.ty = .bool) {args args' : List Expr} {v cond cond' : Expr} (fa fa' : List Var)
    (hargs : evL c' [] args' = evL c [] args) (hcond : ev c' [] cond' = ev c [] cond) (hv : ev c' [] v = ev c [] v) :
    effO c' ⟨.app (.fluent nf) args', simp (mkNot v), cond', .assign, fa'⟩ =
      (effO c ⟨.app (.fluent f) args, v, cond, .assign, fa⟩).map (fun o => o.bind (mir1 nf)) := by
  rw [effO_fluent, effO_fluent, hargs, hcond]
  cases evL c [] args with
  | none => rfl
  | some vs =>
    simp only [Option.bind_some]
    cases ev c [] cond with
    | none => rfl
    | some cv =>
      simp only [Option.bind_some]
      by_cases hcv : cv = .b true
      · simp only [hcv, if_true]
        rw [bind_firedOf_bool nf hnf, bind_firedOf_bool f hf]
        have h1 : toB (ev c' [] (simp (mkNot v))) = (toB (ev c [] v)).map (!·) := by
          have : ev c' [] (simp (mkNot v)) = ev c' [] (mkNot v) := by unfold ev; rw [hs]
          rw [this, ← hv]
          exact ev_mkNot_bool c' v
        rw [h1]
        cases toB (ev c [] v) <;> rfl
      · simp only [hcv, if_false]; rfl

/-! ### lists -/

theorem fired_cons_effO (c : EvalCtx) (e : Effect) (es : List Effect) :
    fired c (e :: es) = (match effO c e, fired c es with
      | some none, some F => some F
      | some (some f), some F => some (f :: F)
      | _, _ => none) := by
  have e1 : fired c (e :: es) = (match evalEff c e, fired c es with
    | .ok none, some Fs => some Fs
    | .ok (some f), some Fs => some (f :: Fs)
    | _, _ => none) := rfl
  rw [e1]
  unfold effO
  cases evalEff c e with
  | error x => simp [toO]
  | ok o => cases o <;> cases fired c es <;> simp [toO]

theorem fired_nil (c : EvalCtx) : fired c [] = some [] := rfl

theorem ncr_fired_append (c : EvalCtx) (A B : List Effect) :
    fired c (A ++ B) = (match fired c A, fired c B with
      | some x, some y => some (x ++ y)
      | _, _ => none) := by
  induction A with
  | nil => simp only [List.nil_append, fired_nil]; cases fired c B <;> rfl
  | cons a A ih =>
    rw [List.cons_append, fired_cons_effO, fired_cons_effO, ih]
    cases effO c a with
    | none => rfl
    | some o =>
      cases o <;> cases fired c A <;> cases fired c B <;> rfl

/-- lists of effects that contribute alike, element by element, fire alike -/
theorem ncr_fired_congr {c' c : EvalCtx} {A A' : List Effect} (h : All2 (fun x x' => effO c' x' = effO c x) A A') :
    fired c' A' = fired c A := by
  induction h with
  | nil => rfl
  | cons h1 _ ih => rw [fired_cons_effO, fired_cons_effO, h1, ih]

end UPVerif.Compile
