import UPVerif.Lemmas.CompileGroundSim
/-!
Grounder (C07), part 6: completeness from ONE-DIRECTIONAL exactness of the simplifier.

For completeness the instance is known to apply, so every evaluation the documented semantics makes on it is DEFINED; the
simplifier then only has to preserve defined values (`SimpInstDefExact`: "where a closed instance of `e` evaluates to `v`,
so does the same instance of `simp e`") — the shape of what property C11 proves about the real simplifier — and a
dropped effect needs no side condition (its instance evaluates, so its condition evaluates to FALSE).

* `ground_step_def`: if the instance `instAct P a args` steps from `g` to `g'`, so does the ground action;
* `ground_bwd_def`: the backward simulation under `GroundHypC`.
-/
namespace UPVerif.Compile.Ground
open UPVerif UPVerif.Compile UPVerif.Expr UPVerif.Sim UPVerif.Spec UPVerif.Simulation

/-- the simplifier preserves every DEFINED value of every closed instance of an expression in the context `c` -/
def SimpInstDefExact (c : EvalCtx) (P : Problem) (simp : Expr → Expr) : Prop :=
  ∀ (vs : List Var) (objs : List String) (e : Expr) (v : Val), vs.length = objs.length → (∀ x ∈ freeVars e, x ∈ vs) →
    eval c [] (substE (varSubst P vs objs) e) = .ok v → eval c [] (substE (varSubst P vs objs) (simp e)) = .ok v

theorem SimpInstExact.toDef {c : EvalCtx} {P : Problem} {simp : Expr → Expr} (h : SimpInstExact c P simp) :
    SimpInstDefExact c P simp := by
  intro vs objs e v hl hcl hv
  rw [h vs objs e hl hcl]; exact hv

theorem SimpInstDefExact.closed {c : EvalCtx} {P : Problem} {simp : Expr → Expr} (h : SimpInstDefExact c P simp)
    {e : Expr} {v : Val} (hcl : freeVars e = []) (hv : eval c [] e = .ok v) : eval c [] (simp e) = .ok v :=
  h [] [] e v rfl (by rw [hcl]; intro x hx; cases hx) hv

/-! ### decidable side conditions (weaker than `groundEffOK`: nothing is asked of a dropped effect) -/

def groundEffOKc (simp : Expr → Expr) (P : Problem) (σ : Subst) (e : Effect) : Bool :=
  instClosed σ e &&
  match createEffect (groundWorld simp P) σ e with
  | .ok (some e') => decide (e'.forall_ = e.forall_)
  | _ => true

def groundInstOKc (simp : Expr → Expr) (P : Problem) (a : Action) (args : List String) : Bool :=
  decide (freeVars (mkAnd (a.pre.map (substE (paramSubst P a args)))) = []) &&
    a.effs.all (groundEffOKc simp P (paramSubst P a args))

def groundOKc (simp : Expr → Expr) (prune : Bool) (P : Problem) : Bool :=
  (groundInstances P prune).all (fun iaa => groundInstOKc simp P iaa.2.1 iaa.2.2)

theorem groundEffOK_c {simp : Expr → Expr} {P : Problem} {σ : Subst} {e : Effect} (h : groundEffOK simp P σ e = true) :
    groundEffOKc simp P σ e = true := by
  unfold groundEffOK at h
  unfold groundEffOKc
  rw [Bool.and_eq_true] at h ⊢
  refine ⟨h.1, ?_⟩
  have h2 := h.2
  split
  · rename_i e' he
    rw [he] at h2
    exact h2
  · rfl

theorem groundOK_c {simp : Expr → Expr} {prune : Bool} {P : Problem} (h : groundOK simp prune P = true) :
    groundOKc simp prune P = true := by
  unfold groundOK at h
  unfold groundOKc
  rw [List.all_eq_true] at h ⊢
  intro x hx
  have := h x hx
  unfold groundInstOK at this
  unfold groundInstOKc
  rw [Bool.and_eq_true] at this ⊢
  refine ⟨this.1, ?_⟩
  have h2 := this.2
  rw [List.all_eq_true] at h2 ⊢
  exact fun e he => groundEffOK_c (h2 e he)

/-! ### one effect -/

theorem evalEffCore_mono {ki kg : Except EvalErr GKey} {ci cg vi vg : Except EvalErr Val} {kind : EffKind}
    {r : Option Fired} (hk : ∀ k, ki = .ok k → kg = .ok k) (hc : ∀ v, ci = .ok v → cg = .ok v)
    (hv : ∀ v, vi = .ok v → vg = .ok v) (h : evalEffCore ki ci vi kind = .ok r) :
    evalEffCore kg cg vg kind = .ok r := by
  unfold evalEffCore at h ⊢
  cases ki with
  | error x => cases h
  | ok k =>
    rw [hk k rfl]
    dsimp only at h ⊢
    cases ci with
    | error x => cases h
    | ok cv =>
      rw [hc cv rfl]
      dsimp only at h ⊢
      by_cases hcv : (cv == Val.b true) = true
      · simp only [hcv, if_true] at h ⊢
        cases vi with
        | error x => cases h
        | ok v =>
          rw [hv v rfl]
          exact h
      · have : (cv == Val.b true) = false := by simpa using hcv
        simp only [this] at h ⊢
        exact h

theorem evalArgs_map_mono (c : EvalCtx) (g h : Expr → Expr) : ∀ (as : List Expr) (vs : List Val),
    (∀ x ∈ as, ∀ v, eval c [] (h x) = .ok v → eval c [] (g x) = .ok v) →
    evalArgs c (as.map h) = .ok vs → evalArgs c (as.map g) = .ok vs
  | [], vs, _, hv => hv
  | a :: as, vs, hall, hv => by
    simp only [List.map_cons, evalArgs] at hv ⊢
    cases ha : eval c [] (h a) with
    | error x => rw [ha] at hv; cases hv
    | ok v =>
      rw [ha] at hv
      rw [hall a (List.mem_cons_self ..) v ha]
      dsimp only at hv ⊢
      cases has : evalArgs c (as.map h) with
      | error x => rw [has] at hv; cases hv
      | ok ws =>
        rw [has] at hv
        rw [evalArgs_map_mono c g h as ws (fun x hx => hall x (List.mem_cons_of_mem _ hx)) has]
        exact hv

/-- a KEPT effect: whatever an instance of the effect of `instAct` evaluates to, the ground effect's instance does too -/
theorem kept_evalEff_def {simp : Expr → Expr} {P : Problem} {c : EvalCtx} (hex : SimpInstDefExact c P simp) {σ : Subst}
    {e e' : Effect} (h : createEffect (groundWorld simp P) σ e = .ok (some e')) (hfa : e'.forall_ = e.forall_)
    (hcl : instClosed σ e = true) (objs : List String) (hl : e.forall_.length = objs.length) (r : Option Fired)
    (hr : evalEff c (expInst P (instEff σ e) objs) = .ok r) : evalEff c (expInst P e' objs) = .ok r := by
  obtain ⟨hv, hc, hk, hf⟩ := createEffect_some h
  obtain ⟨hcf, hcv, hcc⟩ := instClosed_mem hcl
  rw [evalEff_core] at hr ⊢
  have e1 : (expInst P e' objs).kind = (expInst P (instEff σ e) objs).kind := hk
  rw [e1]
  refine evalEffCore_mono ?_ ?_ ?_ hr
  · intro k hk'
    show evalTarget c (substE (varSubst P e'.forall_ objs) e'.fluent) = .ok k
    have hk'' : evalTarget c (substE (varSubst P e.forall_ objs) (substE σ e.fluent)) = .ok k := hk'
    rw [hfa]
    rcases hf with ⟨f, as, h1, h2⟩ | ⟨_, h2⟩
    · rw [h1, substE_fluent (varSubst_leafKeys _ _ _), evalTarget_fluent] at hk''
      rw [h2, substE_fluent (varSubst_leafKeys _ _ _), evalTarget_fluent, List.map_map]
      cases hea : evalArgs c (as.map (substE (varSubst P e.forall_ objs))) with
      | error x => rw [hea] at hk''; cases hk''
      | ok vs =>
        rw [hea] at hk''
        have := evalArgs_map_mono c (substE (varSubst P e.forall_ objs) ∘ (groundWorld simp P).simp)
          (substE (varSubst P e.forall_ objs)) as vs (fun x hx v hxv => hex _ _ x v hl (fun y hy => hcf y (by
            rw [h1]; exact mem_freeVarsList_of_mem hx hy)) hxv) hea
        rw [this]
        exact hk''
    · rw [h2]; exact hk''
  · intro v hv'
    show eval c [] (substE (varSubst P e'.forall_ objs) e'.cond) = .ok v
    rw [hfa, hc]
    exact hex _ _ _ v hl hcc hv'
  · intro v hv'
    show eval c [] (substE (varSubst P e'.forall_ objs) e'.value) = .ok v
    rw [hfa, hv]
    exact hex _ _ _ v hl hcv hv'

/-- a DROPPED effect: an instance of the effect of `instAct` that evaluates does not fire -/
theorem dropped_evalEff_def {simp : Expr → Expr} {P : Problem} {c : EvalCtx} (hex : SimpInstDefExact c P simp)
    {σ : Subst} {e : Effect} (h : createEffect (groundWorld simp P) σ e = .ok none) (hcl : instClosed σ e = true)
    (objs : List String) (hl : e.forall_.length = objs.length) (r : Option Fired)
    (hr : evalEff c (expInst P (instEff σ e) objs) = .ok r) : r = none := by
  have hc := createEffect_none h
  obtain ⟨_, _, hcc⟩ := instClosed_mem hcl
  rw [evalEff_core] at hr
  unfold evalEffCore at hr
  cases hk : evalTarget c (expInst P (instEff σ e) objs).fluent with
  | error x => rw [hk] at hr; cases hr
  | ok k =>
    rw [hk] at hr
    dsimp only at hr
    cases hcv : eval c [] (expInst P (instEff σ e) objs).cond with
    | error x => rw [hcv] at hr; cases hr
    | ok cv =>
      rw [hcv] at hr
      dsimp only at hr
      have hcv' : eval c [] (substE (varSubst P e.forall_ objs) (substE σ e.cond)) = .ok cv := hcv
      have h2 := hex e.forall_ objs (substE σ e.cond) cv hl hcc hcv'
      have : simp (substE σ e.cond) = Expr.ff := hc
      rw [this, substE_const (varSubst_keys_nonconst _ _ _) (e := Expr.ff) rfl] at h2
      have : cv = .b false := by
        have h3 : eval c [] Expr.ff = .ok (.b false) := rfl
        rw [h3] at h2
        cases h2; rfl
      subst this
      have : (Val.b false == Val.b true) = false := by decide
      simp only [this] at hr
      cases hr; rfl

/-! ### all effects -/

theorem effOk_true {c : EvalCtx} {x : Effect} (h : effOk c x = true) : ∃ r, evalEff c x = .ok r := by
  unfold effOk at h
  split at h
  · rename_i r hr; exact ⟨r, hr⟩
  · cases h

theorem all_filterMap_map_mono {α : Type} (c : EvalCtx) (l : List α) (f g : α → Effect)
    (h : ∀ x ∈ l, ∀ r, evalEff c (g x) = .ok r → evalEff c (f x) = .ok r)
    (hg : (l.map g).all (effOk c) = true) :
    (l.map f).all (effOk c) = true ∧ (l.map f).filterMap (effSel c) = (l.map g).filterMap (effSel c) := by
  induction l with
  | nil => exact ⟨rfl, rfl⟩
  | cons x xs ih =>
    simp only [List.map_cons, List.all_cons, Bool.and_eq_true] at hg
    obtain ⟨i1, i2⟩ := ih (fun y hy => h y (List.mem_cons_of_mem _ hy)) hg.2
    obtain ⟨r, hr⟩ := effOk_true hg.1
    have hf := h x (List.mem_cons_self ..) r hr
    have a1 : effOk c (f x) = true := by unfold effOk; rw [hf]
    have a2 : effSel c (f x) = effSel c (g x) := by unfold effSel; rw [hf, hr]
    refine ⟨?_, ?_⟩
    · simp [a1, i1]
    · simp only [List.map_cons, List.filterMap_cons, a2, i2]

theorem all_filterMap_none_mono {α : Type} (c : EvalCtx) (l : List α) (g : α → Effect)
    (h : ∀ x ∈ l, ∀ r, evalEff c (g x) = .ok r → r = none) (hg : (l.map g).all (effOk c) = true) :
    (l.map g).filterMap (effSel c) = [] := by
  induction l with
  | nil => rfl
  | cons x xs ih =>
    simp only [List.map_cons, List.all_cons, Bool.and_eq_true] at hg
    have i2 := ih (fun y hy => h y (List.mem_cons_of_mem _ hy)) hg.2
    obtain ⟨r, hr⟩ := effOk_true hg.1
    have := h x (List.mem_cons_self ..) r hr
    subst this
    have a2 : effSel c (g x) = none := by unfold effSel; rw [hr]
    simp only [List.map_cons, List.filterMap_cons, a2, i2]

theorem kept_vs_inst_def {simp : Expr → Expr} {P : Problem} {c : EvalCtx} (hex : SimpInstDefExact c P simp) {σ : Subst} :
    ∀ (es : List Effect), (∀ e ∈ es, ∀ x, createEffect (groundWorld simp P) σ e ≠ .error x) →
      (∀ e ∈ es, groundEffOKc simp P σ e = true) →
      (expandEffs P (es.map (instEff σ))).all (effOk c) = true →
      (expandEffs P (keptEffs (groundWorld simp P) σ es)).all (effOk c) = true ∧
      (expandEffs P (keptEffs (groundWorld simp P) σ es)).filterMap (effSel c) =
        (expandEffs P (es.map (instEff σ))).filterMap (effSel c)
  | [], _, _, _ => ⟨rfl, rfl⟩
  | e :: es, hne, hok, hall => by
    rw [List.map_cons, expandEffs_cons, List.all_append, Bool.and_eq_true] at hall
    obtain ⟨i1, i2⟩ := kept_vs_inst_def hex es (fun e' he' => hne e' (List.mem_cons_of_mem _ he'))
      (fun e' he' => hok e' (List.mem_cons_of_mem _ he')) hall.2
    have hoke := hok e (List.mem_cons_self ..)
    have hall1 := hall.1
    rw [List.map_cons, expandEffs_cons]
    unfold groundEffOKc at hoke
    rw [Bool.and_eq_true] at hoke
    obtain ⟨hcl, hoke⟩ := hoke
    rw [expandEffect_eq P (instEff σ e)] at hall1 ⊢
    cases hce : createEffect (groundWorld simp P) σ e with
    | error x => exact absurd hce (hne e (List.mem_cons_self ..) x)
    | ok o =>
      cases o with
      | none =>
        have hk : keptEffs (groundWorld simp P) σ (e :: es) = keptEffs (groundWorld simp P) σ es := by
          simp [keptEffs, hce]
        rw [hk]
        have a2 := all_filterMap_none_mono c (cartesian ((instEff σ e).forall_.map (fun v => tyDomain P v.ty)))
          (expInst P (instEff σ e)) (fun objs hobjs r hr => by
            apply dropped_evalEff_def hex hce hcl objs _ r hr
            have := length_of_mem_cartesian hobjs
            simp only [List.length_map] at this
            exact this.symm) hall1
        rw [List.filterMap_append, a2, i2]
        exact ⟨i1, by simp⟩
      | some e' =>
        have hk : keptEffs (groundWorld simp P) σ (e :: es) = e' :: keptEffs (groundWorld simp P) σ es := by
          simp [keptEffs, hce]
        rw [hk, expandEffs_cons]
        rw [hce] at hoke
        dsimp only at hoke
        have hfa : e'.forall_ = e.forall_ := by simpa using hoke
        rw [expandEffect_eq P e']
        have hdom : (instEff σ e).forall_ = e'.forall_ := hfa.symm
        rw [hdom] at hall1 ⊢
        obtain ⟨a1, a2⟩ := all_filterMap_map_mono c (cartesian (e'.forall_.map (fun v => tyDomain P v.ty)))
          (expInst P e') (expInst P (instEff σ e)) (fun objs hobjs r hr => kept_evalEff_def hex hce hfa hcl objs (by
            have := length_of_mem_cartesian hobjs
            simp only [List.length_map] at this
            rw [← hfa]; exact this.symm) r hr) hall1
        rw [List.all_append, List.filterMap_append, List.filterMap_append, a1, a2, i1, i2]
        exact ⟨rfl, rfl⟩

/-! ### the step lemma, completeness direction -/

theorem preOK_def {simp : Expr → Expr} {c : EvalCtx} {P : Problem} (hex : SimpInstDefExact c P simp) {pre : List Expr}
    (hcl : freeVars (mkAnd pre) = []) (hp : preOK c pre = true) :
    ∃ pre', simplifyPreWith simp pre = some pre' ∧ preOK c pre' = true := by
  have h1 : eval c [] (mkAnd pre) = .ok (.b true) := by
    rw [← isTrue_eq_true, isTrue_mkAnd]; exact hp
  have hs : eval c [] (simp (mkAnd pre)) = eval c [] (mkAnd pre) := by
    rw [h1]; exact hex.closed hcl h1
  have := preOK_simplifyPre' (simp := simp) c pre hs
  rw [hp] at this
  cases hsp : simplifyPreWith simp pre with
  | none => rw [hsp] at this; cases this
  | some pre' => rw [hsp] at this; exact ⟨pre', rfl, this⟩

/-- if the instance steps, the ground action makes the same step -/
theorem ground_step_def {simp : Expr → Expr} {W : World} {g g' : St} {a : Action} {args : List String} {ga : GAction}
    (hex : SimpInstDefExact (ctxOf W g) W.P simp)
    (hg : Sim.ground (groundWorld simp W.P) a args = .ok (some ga))
    (hok : groundInstOKc simp W.P a args = true)
    (hs : stepAct W g (instAct W.P a args) = some g') :
    succOf W g ga.pre (expandEffs W.P ga.effs) = some g' := by
  unfold groundInstOKc at hok
  rw [Bool.and_eq_true, List.all_eq_true] at hok
  obtain ⟨hpc, hok⟩ := hok
  have hpc' : freeVars (mkAnd (a.pre.map (substE (paramSubst W.P a args)))) = [] := by simpa using hpc
  obtain ⟨he, hp⟩ := ground_unpack hg
  have hP : (groundWorld simp W.P).P = W.P := rfl
  rw [hP] at he hp
  obtain ⟨hr, hne⟩ := groundEffects_some a.effs _ _ _ he
  simp only [List.nil_append] at hr
  rw [stepAct_instAct, instAct_effs, instAct_pre] at hs
  have hpre := succOf_some_pre hs
  obtain ⟨F, hF, hcons, hinv, rfl⟩ := succOf_some_fired hs
  obtain ⟨pre', hsp, hpre'⟩ := preOK_def hex hpc' hpre
  rw [simplifyPre_eq] at hp
  have hp' : simplifyPreWith simp (a.pre.map (substE (paramSubst W.P a args))) = some ga.pre := hp
  rw [hp'] at hsp
  cases hsp
  rw [fired_eq] at hF
  split at hF
  · rename_i hall
    simp only [Option.some.injEq] at hF
    obtain ⟨h1, h2⟩ := kept_vs_inst_def hex a.effs hne hok hall
    apply succOf_intro hpre'
    · rw [fired_eq, hr, h1, h2, hF]; rfl
    · exact hcons
    · exact hinv
  · cases hF

/-! ### backward simulation -/

/-- the hypotheses of completeness -/
structure GroundHypC (simp : Expr → Expr) (prune : Bool) (W : World) : Prop where
  /-- in every state that agrees with the initial state on the static fluents, the simplifier preserves the DEFINED
      values of closed instances -/
  exact : ∀ g, StaticInv W g → SimpInstDefExact (ctxOf W g) W.P simp
  /-- decidable: instances are closed, no bound variable of a forall effect vanishes in the simplification -/
  effs : groundOKc simp prune W.P = true
  /-- decidable: effect targets are fluent expressions -/
  targets : effTargetsWF W.P = true

theorem GroundHyp.toC {simp : Expr → Expr} {prune : Bool} {W : World} (h : GroundHyp simp prune W) :
    GroundHypC simp prune W :=
  ⟨fun g hg => (h.exact g hg).toDef, groundOK_c h.effs, h.targets⟩

theorem groundOKc_at {simp : Expr → Expr} {prune : Bool} {P : Problem} (h : groundOKc simp prune P = true) {i : Nat}
    {a : Action} {args : List String} (ha : P.actions[i]? = some a) (hargs : args ∈ possibleParameters P prune a) :
    groundInstOKc simp P a args = true := by
  unfold groundOKc at h
  rw [List.all_eq_true] at h
  exact h (i, a, args) (mem_groundInstances.2 ⟨ha, hargs⟩)

/-- an applicable instance is visited, accepted, and its ground action makes the same step -/
theorem ground_complete_step_def {simp : Expr → Expr} {prune : Bool} {W : World} {c : GroundCompiled}
    (hyp : GroundHypC simp prune W) (hc : grounderCompile simp prune W.P = some c)
    (hnc : noStaticConflict simp prune W.P = true) (hpw : prune = true → pruneWF W.P = true)
    {g g' : St} (hinv : StaticInv W g) {i : Nat} {a : Action} {args : List String} (ha : W.P.actions[i]? = some a)
    (hs : stepInst W g a args = some g') :
    ∃ j, groundBack c j = some (i, args) ∧ (tsOf (withProblem W c.prob)).step g j = some g' := by
  obtain ⟨hmem, hstep⟩ := stepInst_some hs
  have hstep' := hstep
  rw [stepAct_instAct] at hstep'
  have hpre := succOf_some_pre hstep'
  rw [instAct_pre] at hpre
  have ham : a ∈ W.P.actions := List.mem_of_getElem? ha
  have hargs : args ∈ possibleParameters W.P prune a := by
    cases prune with
    | false => exact possibleParameters_noprune hmem
    | true => exact pruning_complete (hpw rfl) ham hinv hmem hpre
  have hiok := groundOKc_at hyp.effs ha hargs
  have hpc : freeVars (mkAnd (a.pre.map (substE (paramSubst W.P a args)))) = [] := by
    unfold groundInstOKc at hiok
    rw [Bool.and_eq_true] at hiok
    simpa using hiok.1
  cases hg : Sim.ground (groundWorld simp W.P) a args with
  | error x => exact absurd hg (ground_never_raises hc ha hargs x)
  | ok o =>
    cases o with
    | none =>
      exfalso
      rcases ground_none_cases hg with he | hp
      · unfold noStaticConflict at hnc
        rw [List.all_eq_true] at hnc
        have := hnc (i, a, args) (mem_groundInstances.2 ⟨ha, hargs⟩)
        dsimp only at this
        have he' : groundEffects (groundWorld simp W.P) (paramSubst W.P a args) a.effs ⟨[], []⟩ [] = .ok none := he
        rw [he'] at this
        cases this
      · rw [simplifyPre_eq] at hp
        have hp' : simplifyPreWith simp (a.pre.map (substE (paramSubst W.P a args))) = none := hp
        obtain ⟨pre', hsp, _⟩ := preOK_def (hyp.exact g hinv) hpc hpre
        rw [hp'] at hsp
        cases hsp
    | some gact =>
      obtain ⟨j, ga, hj, hback, h1, h2, h3⟩ := ground_has hc ha hargs hg
      refine ⟨j, hback, ?_⟩
      obtain ⟨hsig, htraj, _, _⟩ := ground_sameSig hc
      rw [tsOf_step_intro hj, hsig.stepAct W rfl htraj, stepAct_ground g h1 h2 h3]
      exact ground_step_def (hyp.exact g hinv) hg hiok hstep

theorem ground_bwd_def {simp : Expr → Expr} {prune : Bool} {W : World} {c : GroundCompiled}
    (hyp : GroundHypC simp prune W) (hc : grounderCompile simp prune W.P = some c)
    (hnc : noStaticConflict simp prune W.P = true) (hpw : prune = true → pruneWF W.P = true) :
    Bwd (tsLifted W) (tsOf (withProblem W c.prob)) (groundBack c)
      (fun sB sA => sB = sA ∧ StaticInv W sA) 0 where
  init := by
    intro sA hA
    obtain ⟨hsig, htraj, hinit, _⟩ := ground_sameSig hc
    have hA' : initOf W = some sA := hA
    refine ⟨sA, ?_, rfl, StaticInv_init hA'⟩
    show initOf (withProblem W c.prob) = some sA
    rw [hsig.initOf W rfl htraj hinit]; exact hA'
  step := by
    rintro sB sA ⟨i, args⟩ sA' ⟨rfl, hinv⟩ hs
    have hs' : (match W.P.actions[i]? with
      | some a => stepInst W sB a args
      | none => none) = some sA' := hs
    cases ha : W.P.actions[i]? with
    | none => rw [ha] at hs'; cases hs'
    | some a =>
      rw [ha] at hs'
      obtain ⟨j, hback, hstep⟩ := ground_complete_step_def hyp hc hnc hpw hinv ha hs'
      exact ⟨j, sA', hback, hstep, rfl, staticInv_step hyp.targets (List.mem_of_getElem? ha) hinv hs'⟩
  goal := by
    rintro sB sA ⟨rfl, _⟩ hg
    obtain ⟨hsig, _, _, hgoals⟩ := ground_sameSig hc
    refine ⟨[], sB, by simp, rfl, rfl, ?_⟩
    show goalOK (withProblem W c.prob) sB = true
    rw [hsig.goalOK W rfl hgoals]; exact hg

end UPVerif.Compile.Ground
