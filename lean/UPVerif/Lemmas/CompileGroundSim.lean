import UPVerif.Lemmas.CompileGroundPrune
/-!
Grounder (C06 / C07), part 5: the simulations.

* `grounderCompile_unpack`: what a successful `Grounder._compile` consists of;
* `ground_fwd`: forward simulation of the ground problem (`tsOf`, parameterless actions by position) by ALL INSTANCES of
  the original (`tsLifted`: action position × argument tuple) through `lift_action_instance` (`groundBack`), with the
  relation "same state, and the state satisfies the static invariant"  ⇒ soundness (C06);
* `ground_bwd`: backward simulation ⇒ completeness with the same plan length (C07).
-/
namespace UPVerif.Compile.Ground
open UPVerif UPVerif.Compile UPVerif.Expr UPVerif.Sim UPVerif.Spec UPVerif.Simulation

/-! ### decidable side conditions over all instances the grounder visits -/

/-- every visited instance satisfies `groundInstOK` -/
def groundOK (simp : Expr → Expr) (prune : Bool) (P : Problem) : Bool :=
  (groundInstances P prune).all (fun iaa => groundInstOK simp P iaa.2.1 iaa.2.2)

/-- NO visited instance is rejected by the static conflict check of `_add_effect_instance`
    (the cause of finding C07-static-conflict-coinciding-values) -/
def noStaticConflict (simp : Expr → Expr) (prune : Bool) (P : Problem) : Bool :=
  (groundInstances P prune).all (fun iaa =>
    match groundEffects (groundWorld simp P) (paramSubst P iaa.2.1 iaa.2.2) iaa.2.1.effs ⟨[], []⟩ [] with
    | .ok none => false
    | _ => true)

/-! ### unpacking -/

theorem groundAction_ok {simp : Expr → Expr} {P : Problem} {used : List String} {a : Action} {args : List String}
    {ga : Action} (h : groundAction simp P used a args = .ok (some ga)) :
    ∃ g, Sim.ground (groundWorld simp P) a args = .ok (some g) ∧ ga.params = [] ∧ ga.pre = g.pre ∧ ga.effs = g.effs := by
  unfold groundAction at h
  split at h
  · cases h
  · cases h
  · rename_i g hg
    simp only [Except.ok.injEq, Option.some.injEq] at h
    subst h
    exact ⟨g, hg, rfl, rfl, rfl⟩

theorem groundAction_of_ground {simp : Expr → Expr} {P : Problem} (used : List String) {a : Action} {args : List String}
    {g : GAction} (h : Sim.ground (groundWorld simp P) a args = .ok (some g)) :
    ∃ ga, groundAction simp P used a args = .ok (some ga) ∧ ga.params = [] ∧ ga.pre = g.pre ∧ ga.effs = g.effs := by
  unfold groundAction
  rw [h]
  exact ⟨_, rfl, rfl, rfl, rfl⟩

theorem groundAction_error {simp : Expr → Expr} {P : Problem} {used : List String} {a : Action} {args : List String}
    {x : EvalErr} (h : Sim.ground (groundWorld simp P) a args = .error x) :
    groundAction simp P used a args = .error x := by
  unfold groundAction; rw [h]

theorem groundAction_none {simp : Expr → Expr} {P : Problem} {used : List String} {a : Action} {args : List String}
    (h : Sim.ground (groundWorld simp P) a args = .ok none) : groundAction simp P used a args = .ok none := by
  unfold groundAction; rw [h]

/-- the loop of `_compile`: its output, element by element -/
theorem groundLoop_ok {simp : Expr → Expr} {P : Problem} :
    ∀ (l : List (Nat × Action × List String)) (used : List String) (out : List (Action × Nat × List String)),
    groundLoop simp P l used = .ok out →
    (∀ x ∈ out, ∃ a g, (x.2.1, a, x.2.2) ∈ l ∧ Sim.ground (groundWorld simp P) a x.2.2 = .ok (some g) ∧
        x.1.params = [] ∧ x.1.pre = g.pre ∧ x.1.effs = g.effs) ∧
    (∀ i a args g, (i, a, args) ∈ l → Sim.ground (groundWorld simp P) a args = .ok (some g) →
        ∃ ga, (ga, i, args) ∈ out ∧ ga.params = [] ∧ ga.pre = g.pre ∧ ga.effs = g.effs) ∧
    (∀ i a args, (i, a, args) ∈ l → ∀ x, Sim.ground (groundWorld simp P) a args ≠ .error x)
  | [], used, out, h => by
    simp only [groundLoop, Except.ok.injEq] at h
    subst h
    refine ⟨?_, ?_, ?_⟩
    · intro x hx; cases hx
    · intro i a args g hm; cases hm
    · intro i a args hm; cases hm
  | (i0, a0, args0) :: rest, used, out, h => by
    unfold groundLoop at h
    cases hga : groundAction simp P used a0 args0 with
    | error x => rw [hga] at h; cases h
    | ok o =>
      rw [hga] at h
      have hne : ∀ x, Sim.ground (groundWorld simp P) a0 args0 ≠ .error x := by
        intro x hx
        rw [groundAction_error hx] at hga
        cases hga
      cases o with
      | none =>
        dsimp only at h
        obtain ⟨h1, h2, h3⟩ := groundLoop_ok rest used out h
        refine ⟨?_, ?_, ?_⟩
        · intro x hx
          obtain ⟨a, g, hm, hr⟩ := h1 x hx
          exact ⟨a, g, List.mem_cons_of_mem _ hm, hr⟩
        · intro i a args g hm hg
          rcases List.mem_cons.1 hm with he | hm
          · injection he with e1 e2
            injection e2 with e2 e3
            subst e1; subst e2; subst e3
            rw [groundAction_of_ground used hg |>.choose_spec.1] at hga
            cases hga
          · exact h2 i a args g hm hg
        · intro i a args hm
          rcases List.mem_cons.1 hm with he | hm
          · injection he with e1 e2
            injection e2 with e2 e3
            subst e1; subst e2; subst e3
            exact hne
          · exact h3 i a args hm
      | some ga =>
        dsimp only at h
        cases hl : groundLoop simp P rest (ga.name :: used) with
        | error x => rw [hl] at h; cases h
        | ok out' =>
          rw [hl] at h
          simp only [Except.ok.injEq] at h
          subst h
          obtain ⟨h1, h2, h3⟩ := groundLoop_ok rest (ga.name :: used) out' hl
          obtain ⟨g0, hg0, hp0, hpre0, heff0⟩ := groundAction_ok hga
          refine ⟨?_, ?_, ?_⟩
          · intro x hx
            rcases List.mem_cons.1 hx with rfl | hx
            · exact ⟨a0, g0, List.mem_cons_self .., hg0, hp0, hpre0, heff0⟩
            · obtain ⟨a, g, hm, hr⟩ := h1 x hx
              exact ⟨a, g, List.mem_cons_of_mem _ hm, hr⟩
          · intro i a args g hm hg
            rcases List.mem_cons.1 hm with he | hm
            · injection he with e1 e2
              injection e2 with e2 e3
              subst e1; subst e2; subst e3
              rw [hg0] at hg
              cases hg
              exact ⟨ga, List.mem_cons_self .., hp0, hpre0, heff0⟩
            · obtain ⟨ga', hm', hr⟩ := h2 i a args g hm hg
              exact ⟨ga', List.mem_cons_of_mem _ hm', hr⟩
          · intro i a args hm
            rcases List.mem_cons.1 hm with he | hm
            · injection he with e1 e2
              injection e2 with e2 e3
              subst e1; subst e2; subst e3
              exact hne
            · exact h3 i a args hm

theorem mem_groundInstances {P : Problem} {prune : Bool} {i : Nat} {a : Action} {args : List String} :
    (i, a, args) ∈ groundInstances P prune ↔ P.actions[i]? = some a ∧ args ∈ possibleParameters P prune a := by
  unfold groundInstances
  rw [List.mem_flatMap]
  constructor
  · rintro ⟨ia, hia, hm⟩
    obtain ⟨args', hargs, he⟩ := List.mem_map.1 hm
    injection he with e1 e2
    injection e2 with e2 e3
    subst e1; subst e2; subst e3
    exact ⟨mem_zip_range0 _ _ _ hia, hargs⟩
  · rintro ⟨h1, h2⟩
    exact ⟨(i, a), zip_range_mem0 _ _ _ h1, List.mem_map.2 ⟨args, h2, rfl⟩⟩

theorem grounderCompile_unpack {simp : Expr → Expr} {prune : Bool} {P : Problem} {c : GroundCompiled}
    (h : grounderCompile simp prune P = some c) :
    ∃ out, groundLoop simp P (groundInstances P prune) [] = .ok out ∧
      c.prob = { P with name := "grounder_" ++ P.name, actions := out.map (·.1) } ∧ c.back = out.map (·.2) := by
  unfold grounderCompile at h
  split at h
  · split at h
    · cases h
    · rename_i out ho
      cases h
      exact ⟨out, ho, rfl, rfl⟩
  · cases h

theorem ground_sameSig {simp : Expr → Expr} {prune : Bool} {P : Problem} {c : GroundCompiled}
    (h : grounderCompile simp prune P = some c) :
    SameSig c.prob P ∧ c.prob.traj = P.traj ∧ c.prob.init = P.init ∧ c.prob.goals = P.goals := by
  obtain ⟨out, _, hp, _⟩ := grounderCompile_unpack h
  rw [hp]
  exact ⟨⟨rfl, rfl, rfl⟩, rfl, rfl, rfl⟩

/-- position by position: a ground action, the instance it maps back to, and the grounding that produced it -/
theorem ground_at {simp : Expr → Expr} {prune : Bool} {P : Problem} {c : GroundCompiled}
    (h : grounderCompile simp prune P = some c) {j : Nat} {ga : Action} (hj : c.prob.actions[j]? = some ga) :
    ∃ i a args g, groundBack c j = some (i, args) ∧ P.actions[i]? = some a ∧ args ∈ possibleParameters P prune a ∧
      Sim.ground (groundWorld simp P) a args = .ok (some g) ∧ ga.params = [] ∧ ga.pre = g.pre ∧ ga.effs = g.effs := by
  obtain ⟨out, ho, hp, hb⟩ := grounderCompile_unpack h
  rw [hp] at hj
  simp only [List.getElem?_map] at hj
  cases hx : out[j]? with
  | none => rw [hx] at hj; cases hj
  | some x =>
    rw [hx] at hj
    simp only [Option.map_some, Option.some.injEq] at hj
    subst hj
    obtain ⟨a, g, hm, hg, h1, h2, h3⟩ := (groundLoop_ok _ _ _ ho).1 x (List.mem_of_getElem? hx)
    obtain ⟨ha, hargs⟩ := mem_groundInstances.1 hm
    refine ⟨x.2.1, a, x.2.2, g, ?_, ha, hargs, hg, h1, h2, h3⟩
    unfold groundBack
    rw [hb, List.getElem?_map, hx]
    rfl

/-- an instance the grounder visits and accepts has its ground action -/
theorem ground_has {simp : Expr → Expr} {prune : Bool} {P : Problem} {c : GroundCompiled}
    (h : grounderCompile simp prune P = some c) {i : Nat} {a : Action} {args : List String} {g : GAction}
    (ha : P.actions[i]? = some a) (hargs : args ∈ possibleParameters P prune a)
    (hg : Sim.ground (groundWorld simp P) a args = .ok (some g)) :
    ∃ j ga, c.prob.actions[j]? = some ga ∧ groundBack c j = some (i, args) ∧
      ga.params = [] ∧ ga.pre = g.pre ∧ ga.effs = g.effs := by
  obtain ⟨out, ho, hp, hb⟩ := grounderCompile_unpack h
  obtain ⟨ga, hm, h1, h2, h3⟩ := (groundLoop_ok _ _ _ ho).2.1 i a args g (mem_groundInstances.2 ⟨ha, hargs⟩) hg
  obtain ⟨j, hj⟩ := List.mem_iff_getElem?.1 hm
  refine ⟨j, ga, ?_, ?_, h1, h2, h3⟩
  · rw [hp]
    simp only [List.getElem?_map, hj, Option.map_some]
  · unfold groundBack
    rw [hb, List.getElem?_map, hj]; rfl

theorem ground_never_raises {simp : Expr → Expr} {prune : Bool} {P : Problem} {c : GroundCompiled}
    (h : grounderCompile simp prune P = some c) {i : Nat} {a : Action} {args : List String}
    (ha : P.actions[i]? = some a) (hargs : args ∈ possibleParameters P prune a) (x : EvalErr) :
    Sim.ground (groundWorld simp P) a args ≠ .error x := by
  obtain ⟨out, ho, _, _⟩ := grounderCompile_unpack h
  exact (groundLoop_ok _ _ _ ho).2.2 i a args (mem_groundInstances.2 ⟨ha, hargs⟩) x

/-! ### the step of a ground action is the step of the instance it maps back to -/

/-- the hypotheses shared by soundness and completeness -/
structure GroundHyp (simp : Expr → Expr) (prune : Bool) (W : World) : Prop where
  /-- the grounder's simplifier is exact on closed instances in every state that agrees with the initial state on
      the static fluents (with `prune_actions` the simplifier replaces static fluents by their initial values) -/
  exact : ∀ g, StaticInv W g → SimpInstExact (ctxOf W g) W.P simp
  /-- decidable: instances are closed, no bound variable of a forall effect vanishes, dropped effects have evaluable
      targets -/
  effs : groundOK simp prune W.P = true
  /-- decidable: effect targets are fluent expressions -/
  targets : effTargetsWF W.P = true

theorem groundOK_at {simp : Expr → Expr} {prune : Bool} {P : Problem} (h : groundOK simp prune P = true) {i : Nat}
    {a : Action} {args : List String} (ha : P.actions[i]? = some a) (hargs : args ∈ possibleParameters P prune a) :
    groundInstOK simp P a args = true := by
  unfold groundOK at h
  rw [List.all_eq_true] at h
  exact h (i, a, args) (mem_groundInstances.2 ⟨ha, hargs⟩)

theorem stepInst_of_mem {W : World} {g : St} {a : Action} {args : List String} (h : args ∈ instancesOf W.P a) :
    stepInst W g a args = stepAct W g (instAct W.P a args) := by
  unfold stepInst
  have : (instancesOf W.P a).contains args = true := by simpa using h
  rw [this]; rfl

theorem stepAct_ground {W : World} (g : St) {ga : Action} {gact : GAction} (h1 : ga.params = [])
    (h2 : ga.pre = gact.pre) (h3 : ga.effs = gact.effs) :
    stepAct W g ga = succOf W g gact.pre (expandEffs W.P gact.effs) := by
  unfold stepAct
  rw [h1, h2, h3]; rfl

/-- the step of the ground action at position `j` is the step of the instance it maps back to -/
theorem ground_step_eq {simp : Expr → Expr} {prune : Bool} {W : World} {c : GroundCompiled} (hyp : GroundHyp simp prune W)
    (hc : grounderCompile simp prune W.P = some c) {g : St} (hinv : StaticInv W g) {i : Nat} {a : Action}
    {args : List String} {gact : GAction} {ga : Action} (ha : W.P.actions[i]? = some a)
    (hargs : args ∈ possibleParameters W.P prune a)
    (hg : Sim.ground (groundWorld simp W.P) a args = .ok (some gact)) (h1 : ga.params = [])
    (h2 : ga.pre = gact.pre) (h3 : ga.effs = gact.effs) :
    stepAct (withProblem W c.prob) g ga = stepInst W g a args := by
  obtain ⟨hsig, htraj, _, _⟩ := ground_sameSig hc
  rw [hsig.stepAct W rfl htraj, stepAct_ground g h1 h2 h3,
    stepInst_of_mem (possibleParameters_subset W.P prune a hargs)]
  exact ground_step (hyp.exact g hinv) hg (groundOK_at hyp.effs ha hargs)

/-! ### forward simulation: soundness -/

theorem ground_fwd {simp : Expr → Expr} {prune : Bool} {W : World} {c : GroundCompiled} (hyp : GroundHyp simp prune W)
    (hc : grounderCompile simp prune W.P = some c) :
    Fwd (tsLifted W) (tsOf (withProblem W c.prob)) (groundBack c)
      (fun sB sA => sB = sA ∧ StaticInv W sA) (fun _ => True) where
  init := by
    intro sB hB _
    obtain ⟨hsig, htraj, hinit, _⟩ := ground_sameSig hc
    have : initOf (withProblem W c.prob) = some sB := hB
    rw [hsig.initOf W rfl htraj hinit] at this
    exact ⟨sB, this, rfl, StaticInv_init this⟩
  goalV := fun _ _ => trivial
  stepV := fun _ _ _ _ => trivial
  step := by
    rintro sB sA j sB' ia ⟨rfl, hinv⟩ hs _ hb
    obtain ⟨ga, hj, hstep⟩ := tsOf_step hs
    obtain ⟨i, a, args, gact, hback, ha, hargs, hg, h1, h2, h3⟩ := ground_at hc hj
    rw [hback] at hb
    cases hb
    rw [ground_step_eq hyp hc hinv ha hargs hg h1 h2 h3] at hstep
    refine ⟨sB', ?_, rfl, staticInv_step hyp.targets (List.mem_of_getElem? ha) hinv hstep⟩
    show (match W.P.actions[i]? with
      | some a => stepInst W sB a args
      | none => none) = some sB'
    rw [ha]; exact hstep
  skip := by
    rintro sB sA j sB' ⟨rfl, _⟩ hs _ hb
    obtain ⟨ga, hj, _⟩ := tsOf_step hs
    obtain ⟨i, a, args, gact, hback, _⟩ := ground_at hc hj
    rw [hback] at hb
    cases hb
  goal := by
    rintro sB sA ⟨rfl, _⟩ hg
    obtain ⟨hsig, _, _, hgoals⟩ := ground_sameSig hc
    have : goalOK (withProblem W c.prob) sB = true := hg
    rw [hsig.goalOK W rfl hgoals] at this
    exact this

/-! ### backward simulation: completeness -/

theorem ground_none_cases {W : World} {a : Action} {args : List String} (h : Sim.ground W a args = .ok none) :
    groundEffects W (paramSubst W.P a args) a.effs ⟨[], []⟩ [] = .ok none ∨
    simplifyPre W (a.pre.map (substE (paramSubst W.P a args))) = none := by
  unfold Sim.ground at h
  dsimp only at h
  split at h
  · cases h
  · rename_i he; exact Or.inl he
  · split at h
    · rename_i hp; exact Or.inr hp
    · cases h

theorem possibleParameters_noprune {P : Problem} {a : Action} {args : List String} (h : args ∈ instancesOf P a) :
    args ∈ possibleParameters P false a := by
  unfold possibleParameters
  unfold instancesOf at h
  split
  · rename_i he
    have : a.params = [] := by simpa using he
    rw [this] at h
    simpa [cartesian] using h
  · exact h

/-- an applicable instance is visited, accepted, and its ground action makes the same step -/
theorem ground_complete_step {simp : Expr → Expr} {prune : Bool} {W : World} {c : GroundCompiled}
    (hyp : GroundHyp simp prune W) (hc : grounderCompile simp prune W.P = some c)
    (hnc : noStaticConflict simp prune W.P = true) (hpw : prune = true → pruneWF W.P = true)
    {g g' : St} (hinv : StaticInv W g) {i : Nat} {a : Action} {args : List String} (ha : W.P.actions[i]? = some a)
    (hs : stepInst W g a args = some g') :
    ∃ j, groundBack c j = some (i, args) ∧ (tsOf (withProblem W c.prob)).step g j = some g' := by
  obtain ⟨hmem, hstep⟩ := stepInst_some hs
  rw [stepAct_instAct] at hstep
  have hpre := succOf_some_pre hstep
  rw [instAct_pre] at hpre
  have ham : a ∈ W.P.actions := List.mem_of_getElem? ha
  have hargs : args ∈ possibleParameters W.P prune a := by
    cases prune with
    | false => exact possibleParameters_noprune hmem
    | true => exact pruning_complete (hpw rfl) ham hinv hmem hpre
  cases hg : Sim.ground (groundWorld simp W.P) a args with
  | error x => exact absurd hg (ground_never_raises hc ha hargs x)
  | ok o =>
    cases o with
    | none =>
      exfalso
      rcases ground_none_cases hg with he | hp
      · unfold noStaticConflict at hnc
        rw [List.all_eq_true] at hnc
        have := hnc (i, a, args) (mem_groundInstances.2 ⟨ha, hargs⟩)
        dsimp only at this
        have he' : groundEffects (groundWorld simp W.P) (paramSubst W.P a args) a.effs ⟨[], []⟩ [] = .ok none := he
        rw [he'] at this
        cases this
      · rw [simplifyPre_eq] at hp
        have hp' : simplifyPreWith simp (a.pre.map (substE (paramSubst W.P a args))) = none := hp
        have hpc : freeVars (mkAnd (a.pre.map (substE (paramSubst W.P a args)))) = [] := by
          have := groundOK_at hyp.effs ha hargs
          unfold groundInstOK at this
          rw [Bool.and_eq_true] at this
          simpa using this.1
        have := preOK_simplifyPre' (simp := simp) (ctxOf W g) (a.pre.map (substE (paramSubst W.P a args)))
          ((hyp.exact g hinv).closed hpc)
        rw [hp', hpre] at this
        cases this
    | some gact =>
      obtain ⟨j, ga, hj, hback, h1, h2, h3⟩ := ground_has hc ha hargs hg
      refine ⟨j, hback, ?_⟩
      rw [tsOf_step_intro hj, ground_step_eq hyp hc hinv ha hargs hg h1 h2 h3]
      exact hs

theorem ground_bwd {simp : Expr → Expr} {prune : Bool} {W : World} {c : GroundCompiled} (hyp : GroundHyp simp prune W)
    (hc : grounderCompile simp prune W.P = some c) (hnc : noStaticConflict simp prune W.P = true)
    (hpw : prune = true → pruneWF W.P = true) :
    Bwd (tsLifted W) (tsOf (withProblem W c.prob)) (groundBack c)
      (fun sB sA => sB = sA ∧ StaticInv W sA) 0 where
  init := by
    intro sA hA
    obtain ⟨hsig, htraj, hinit, _⟩ := ground_sameSig hc
    have hA' : initOf W = some sA := hA
    refine ⟨sA, ?_, rfl, StaticInv_init hA'⟩
    show initOf (withProblem W c.prob) = some sA
    rw [hsig.initOf W rfl htraj hinit]; exact hA'
  step := by
    rintro sB sA ⟨i, args⟩ sA' ⟨rfl, hinv⟩ hs
    have hs' : (match W.P.actions[i]? with
      | some a => stepInst W sB a args
      | none => none) = some sA' := hs
    cases ha : W.P.actions[i]? with
    | none => rw [ha] at hs'; cases hs'
    | some a =>
      rw [ha] at hs'
      obtain ⟨j, hback, hstep⟩ := ground_complete_step hyp hc hnc hpw hinv ha hs'
      exact ⟨j, sA', hback, hstep, rfl, staticInv_step hyp.targets (List.mem_of_getElem? ha) hinv hs'⟩
  goal := by
    rintro sB sA ⟨rfl, _⟩ hg
    obtain ⟨hsig, _, _, hgoals⟩ := ground_sameSig hc
    refine ⟨[], sB, by simp, rfl, rfl, ?_⟩
    show goalOK (withProblem W c.prob) sB = true
    rw [hsig.goalOK W rfl hgoals]; exact hg

end UPVerif.Compile.Ground

namespace UPVerif.Compile.Ground
open UPVerif UPVerif.Compile UPVerif.Expr UPVerif.Sim UPVerif.Spec UPVerif.Simulation

/-! ### executable validity over all instances (for the kernel-checked examples) -/

def validLB (W : World) (π : List (Nat × List String)) : Bool :=
  match initOf W with
  | none => false
  | some g =>
    match (tsLifted W).run g π with
    | none => false
    | some gf => goalOK W gf

theorem validLB_sound {W : World} {π : List (Nat × List String)} (h : validLB W π = true) : (tsLifted W).Valid π := by
  unfold validLB at h
  cases hi : initOf W with
  | none => rw [hi] at h; cases h
  | some g =>
    rw [hi] at h
    dsimp only at h
    cases hr : (tsLifted W).run g π with
    | none => rw [hr] at h; cases h
    | some gf =>
      rw [hr] at h
      exact ⟨g, gf, hi, hr, h⟩

/-- every state on a run of the original problem's instances satisfies the static invariant -/
theorem staticInv_run {W : World} (hwf : effTargetsWF W.P = true) : ∀ (π : List (Nat × List String)) (g gf : St),
    StaticInv W g → (tsLifted W).run g π = some gf → StaticInv W gf
  | [], g, gf, hinv, hr => by
    simp only [TS.run, Option.some.injEq] at hr
    subst hr; exact hinv
  | (i, args) :: π, g, gf, hinv, hr => by
    simp only [TS.run] at hr
    cases hs : (tsLifted W).step g (i, args) with
    | none => rw [hs] at hr; cases hr
    | some g' =>
      rw [hs] at hr
      have hs' : (match W.P.actions[i]? with
        | some a => stepInst W g a args
        | none => none) = some g' := hs
      cases ha : W.P.actions[i]? with
      | none => rw [ha] at hs'; cases hs'
      | some a =>
        rw [ha] at hs'
        exact staticInv_run hwf π g' gf (staticInv_step hwf (List.mem_of_getElem? ha) hinv hs') hr

end UPVerif.Compile.Ground

namespace UPVerif.Compile.Ground
open UPVerif UPVerif.Compile UPVerif.Expr UPVerif.Sim UPVerif.Spec UPVerif.Simulation

theorem validLB_complete {W : World} {π : List (Nat × List String)} (h : (tsLifted W).Valid π) : validLB W π = true := by
  obtain ⟨g, gf, hi, hr, hg⟩ := h
  unfold validLB
  have : initOf W = some g := hi
  rw [this]
  dsimp only
  rw [hr]
  exact hg

end UPVerif.Compile.Ground
