import UPVerif.Lemmas.CompileGroundStep
import UPVerif.Lemmas.CompileFresh
import UPVerif.Lemmas.SimCorollaries
/-!
Grounder (C06 / C07), part 3: static fluents.

* `StaticInv W g`: the problem has an initial state and `g` agrees with it on every ground instance of every static
  fluent (`Problem.get_static_fluents`: fluents that are the target of no effect of any action).
* `staticInv_step`: every step of every instance of every action of the problem preserves it — so it holds in every
  reachable state (effect targets must be fluent expressions: `effTargetsWF`, decidable).
* `pruning_complete`: static-fluent pruning (`_purge_items_list`) removes only instances whose preconditions are false
  in EVERY state satisfying the invariant: an instance whose preconditions hold in such a state is among
  `get_possible_parameters(action)`.  Decidable side conditions `pruneWF`: distinct parameter names, object nodes in the
  initial values carry their declared type, and — only for a pruning fluent whose default is not FALSE, where the code
  enumerates `get_all_fluent_exp` — the arguments of the pruning condition are parameters / objects of types inside
  the fluent's signature.
-/
namespace UPVerif.Compile.Ground
open UPVerif UPVerif.Compile UPVerif.Expr UPVerif.Sim UPVerif.Spec

/-! ### the invariant -/

def StaticInv (W : World) (g : St) : Prop :=
  ∃ g0, initOf W = some g0 ∧ ∀ f ∈ staticFluents W.P, ∀ vs, g (f, vs) = g0 (f, vs)

theorem StaticInv_init {W : World} {g0 : St} (h : initOf W = some g0) : StaticInv W g0 := ⟨g0, h, fun _ _ _ => rfl⟩

/-- every effect target is a fluent expression (`Effect.fluent` is a FLUENT_EXP node) -/
def effTargetsWF (P : Problem) : Bool := P.actions.all (fun a => a.effs.all (fun e => (effTarget? e).isSome))

theorem effTarget?_some {e : Effect} {r : FluentRef} (h : effTarget? e = some r) : ∃ as, e.fluent = .app (.fluent r) as := by
  unfold effTarget? at h
  split at h
  · rename_i f as hf; cases h; exact ⟨as, hf⟩
  · cases h

theorem effSel_some {c : EvalCtx} {x : Effect} {f : Fired} (h : effSel c x = some f) : evalEff c x = .ok (some f) := by
  unfold effSel at h
  split at h
  · rename_i f' hf; cases h; exact hf
  · cases h

/-- a fired effect of an instance of an action of the problem touches a WRITTEN fluent -/
theorem fired_key_written {W : World} {g : St} {a : Action} {args : List String} (hwf : effTargetsWF W.P = true)
    (ha : a ∈ W.P.actions) {F : List Fired}
    (hF : fired (ctxOf W g) (expandEffs W.P (instAct W.P a args).effs) = some F) :
    ∀ f ∈ F, isWritten W.P f.key.1 = true := by
  rw [fired_eq] at hF
  split at hF
  · simp only [Option.some.injEq] at hF
    subst hF
    intro f hf
    obtain ⟨x, hx, hsel⟩ := List.mem_filterMap.1 hf
    have hev := effSel_some hsel
    unfold expandEffs at hx
    obtain ⟨e', he', hxe⟩ := List.mem_flatMap.1 hx
    rw [instAct_effs] at he'
    obtain ⟨e, he, rfl⟩ := List.mem_map.1 he'
    rw [expandEffect_eq] at hxe
    obtain ⟨objs, _, rfl⟩ := List.mem_map.1 hxe
    unfold effTargetsWF at hwf
    rw [List.all_eq_true] at hwf
    have h1 := hwf a ha
    rw [List.all_eq_true] at h1
    have h2 := h1 e he
    cases ht : effTarget? e with
    | none => rw [ht] at h2; cases h2
    | some r =>
      obtain ⟨as, hfl⟩ := effTarget?_some ht
      obtain ⟨ref, args', hfl', hkey⟩ := evalEff_key hev
      have : (expInst W.P (instEff (paramSubst W.P a args) e) objs).fluent =
          .app (.fluent r) ((as.map (substE (paramSubst W.P a args))).map
            (substE (varSubst W.P (instEff (paramSubst W.P a args) e).forall_ objs))) := by
        show substE _ (substE _ e.fluent) = _
        rw [hfl, substE_fluent (paramSubst_leafKeys _ _ _), substE_fluent (varSubst_leafKeys _ _ _)]
      rw [this] at hfl'
      injection hfl' with h3 _
      injection h3 with h3
      rw [hkey, ← h3]
      unfold isWritten
      rw [List.any_eq_true]
      refine ⟨a, ha, ?_⟩
      rw [List.any_eq_true]
      exact ⟨e, he, by rw [ht]; simp⟩
  · cases hF

theorem not_written_of_static {P : Problem} {f : FluentRef} (h : f ∈ staticFluents P) : isWritten P f = false := by
  unfold staticFluents at h
  have := (List.mem_filter.1 h).2
  simpa using this

theorem stepInst_some {W : World} {g g' : St} {a : Action} {args : List String} (h : stepInst W g a args = some g') :
    args ∈ instancesOf W.P a ∧ stepAct W g (instAct W.P a args) = some g' := by
  unfold stepInst at h
  split at h
  · rename_i hc
    exact ⟨by simpa using hc, h⟩
  · cases h

theorem stepAct_instAct (W : World) (g : St) (a : Action) (args : List String) :
    stepAct W g (instAct W.P a args) =
      succOf W g (instAct W.P a args).pre (expandEffs W.P (instAct W.P a args).effs) := by
  unfold stepAct
  have : (instAct W.P a args).params.isEmpty = true := rfl
  rw [this]; rfl

/-- THE INVARIANT IS PRESERVED by every step of every instance -/
theorem staticInv_step {W : World} {g g' : St} {a : Action} {args : List String} (hwf : effTargetsWF W.P = true)
    (ha : a ∈ W.P.actions) (hinv : StaticInv W g) (h : stepInst W g a args = some g') : StaticInv W g' := by
  obtain ⟨g0, hg0, hall⟩ := hinv
  refine ⟨g0, hg0, ?_⟩
  intro f hf vs
  rw [← hall f hf vs]
  obtain ⟨_, hs⟩ := stepInst_some h
  rw [stepAct_instAct] at hs
  obtain ⟨F, hF, _, _, rfl⟩ := succOf_some_fired hs
  apply Sim.succGet_untouched
  intro fd hfd hk
  have hw := fired_key_written hwf ha hF fd hfd
  rw [hk] at hw
  rw [not_written_of_static hf] at hw
  cases hw

/-! ### small evaluation facts -/

theorem evalList_cons_ok {c : EvalCtx} {ρ : VEnv} {e : Expr} {es : List Expr} {ws : List Val}
    (h : evalList c ρ (e :: es) = .ok ws) :
    ∃ v vs, ws = v :: vs ∧ eval c ρ e = .ok v ∧ evalList c ρ es = .ok vs := by
  simp only [evalList] at h
  cases h1 : evalList c ρ es with
  | error x => rw [h1] at h; cases h
  | ok vs =>
    rw [h1] at h
    dsimp only at h
    cases h2 : eval c ρ e with
    | error x => rw [h2] at h; cases h
    | ok v =>
      rw [h2] at h
      cases h
      exact ⟨v, vs, rfl, rfl, rfl⟩

theorem evalList_getElem {c : EvalCtx} {ρ : VEnv} : ∀ {l : List Expr} {vs : List Val} {k : Nat} {e : Expr},
    evalList c ρ l = .ok vs → l[k]? = some e → ∃ v, vs[k]? = some v ∧ eval c ρ e = .ok v
  | [], _, k, e, _, hk => by simp at hk
  | x :: xs, ws, k, e, h, hk => by
    obtain ⟨v, vs, rfl, hv, hvs⟩ := evalList_cons_ok h
    cases k with
    | zero =>
      simp only [List.getElem?_cons_zero, Option.some.injEq] at hk
      subst hk
      exact ⟨v, by simp, hv⟩
    | succ k =>
      simp only [List.getElem?_cons_succ] at hk ⊢
      exact evalList_getElem hvs hk

theorem eval_fluent_true {c : EvalCtx} {f : FluentRef} {as : List Expr}
    (h : Spec.isTrue (eval c [] (.app (.fluent f) as)) = true) :
    ∃ vs, evalList c [] as = .ok vs ∧ c.get (f, vs) = some (.b true) := by
  rw [isTrue_eq_true] at h
  simp only [eval] at h
  cases h1 : evalList c [] as with
  | error x => rw [h1] at h; cases h
  | ok vs =>
    rw [h1] at h
    refine ⟨vs, rfl, ?_⟩
    simp only [evalOp] at h
    cases h2 : c.get (f, vs) with
    | none => rw [h2] at h; cases h
    | some v => rw [h2] at h; cases h; rfl

theorem eval_objExpr (c : EvalCtx) (P : Problem) (o : String) : eval c [] (objExpr P o) = .ok (.o o) := rfl

/-- the truth of a conjunct follows from the truth of the conjunction, through the parameter substitution -/
theorem conjunct_true {c : EvalCtx} {σ : Subst} (hσ : LeafKeys σ) {x e : Expr} (hc : Conjunct x e) :
    Spec.isTrue (eval c [] (substE σ x)) = true → Spec.isTrue (eval c [] (substE σ e)) = true := by
  induction hc with
  | refl x => exact id
  | @step as y e hy _ ih =>
    intro h
    apply ih
    by_cases he : σ.isEmpty = true
    · have hid : ∀ z, substE σ z = z := by intro z; unfold substE; rw [he]; rfl
      rw [hid] at h ⊢
      rw [eval_and_true, List.all_eq_true] at h
      exact h y hy
    · have he' : σ.isEmpty = false := by simpa using he
      have h3 : substE σ = subst σ := by funext z; unfold substE; rw [he']; rfl
      have h1 : substE σ (.app .and as) = mkAnd (as.map (substE σ)) := by
        rw [h3, subst_app_leafKeys hσ]; rfl
      rw [h1, isTrue_mkAnd] at h
      exact preOK_mem h (List.mem_map.2 ⟨y, hy, rfl⟩)

end UPVerif.Compile.Ground
