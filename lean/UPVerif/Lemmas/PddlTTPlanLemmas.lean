import UPVerif.Core.PddlTTPlan
import UPVerif.Lemmas.PddlNumLemmas
import UPVerif.Lemmas.PddlNumRat
/-!
Helper lemmas for `Props/C18TTPlan.lean`: the text written by the model of `_write_plan` is read back by the model of
`parse_plan_string` as the plan it was written from.
-/
namespace UPVerif.Pddl.TTP
open UPVerif UPVerif.Pddl

/-! ### character classes -/

/-- a character the writer can emit: a name character, a digit, or one of ` ( ) [ ] : .` -/
def isWritten (c : Char) : Bool :=
  isNameChar c || c.toNat == 32 || c.toNat == 40 || c.toNat == 41 || c.toNat == 91 || c.toNat == 93 || c.toNat == 58 ||
  c.toNat == 46

theorem toLower_of_not_upper (c : Char) (h : ¬ (65 ≤ c.toNat ∧ c.toNat ≤ 90)) : c.toLower = c := by
  unfold Char.toLower
  rw [dif_neg]
  intro ⟨h1, h2⟩
  apply h
  have e1 : ('A' : Char).val.toNat = 65 := by decide
  have e2 : ('Z' : Char).val.toNat = 90 := by decide
  have := UInt32.le_iff_toNat_le.mp h1
  have := UInt32.le_iff_toNat_le.mp h2
  simp only [Char.toNat] at *
  omega

theorem isTok_of_isNameChar {c : Char} (h : isNameChar c = true) : isTok c = true := by
  simp only [isNameChar, isTok, isDigit, Bool.or_eq_true, Bool.and_eq_true, decide_eq_true_eq, beq_iff_eq] at *
  omega

theorem isNameChar_of_isDigit {c : Char} (h : isDigit c = true) : isNameChar c = true := by
  simp only [isNameChar, isDigit, Bool.or_eq_true, Bool.and_eq_true, decide_eq_true_eq, beq_iff_eq] at *
  omega

theorem isWritten_of_isNameChar {c : Char} (h : isNameChar c = true) : isWritten c = true := by
  simp only [isWritten, h, Bool.true_or]

theorem not_space_of_isNameChar {c : Char} (h : isNameChar c = true) : isSpace c = false := by
  cases hs : isSpace c with
  | false => rfl
  | true =>
    simp only [isNameChar, isSpace, isDigit, Bool.or_eq_true, Bool.and_eq_true, decide_eq_true_eq, beq_iff_eq] at *
    omega

theorem toLower_of_isWritten {c : Char} (h : isWritten c = true) : c.toLower = c := by
  apply toLower_of_not_upper
  simp only [isWritten, isNameChar, isDigit, Bool.or_eq_true, Bool.and_eq_true, decide_eq_true_eq, beq_iff_eq] at h
  omega

theorem not_break_of_isWritten {c : Char} (h : isWritten c = true) : isBreak c = false := by
  cases hs : isBreak c with
  | false => rfl
  | true =>
    simp only [isWritten, isNameChar, isBreak, isDigit, Bool.or_eq_true, Bool.and_eq_true, decide_eq_true_eq, beq_iff_eq] at *
    omega

theorem not_digit_of_not_tok {c : Char} (h : isTok c = false) : isDigit c = false := by
  cases hd : isDigit c with
  | false => rfl
  | true => simp [isTok, hd] at h

theorem isDigit_iff_charDigit (c : Char) : isDigit c = true ↔ ∃ d, charDigit? c = some d ∧ d < 10 := by
  unfold isDigit charDigit?
  constructor
  · intro h
    simp only [Bool.and_eq_true, decide_eq_true_eq] at h
    refine ⟨c.toNat - 48, ?_, by omega⟩
    simp [h]
  · rintro ⟨d, hd, _⟩
    by_cases hc : 48 ≤ c.toNat ∧ c.toNat ≤ 57
    · simp [hc]
    · simp [hc] at hd

/-- all characters of a list are digits -/
def AllDig (cs : List Char) : Prop := ∀ c ∈ cs, isDigit c = true

theorem allDig_of_allDigits {cs : List Char} (h : allDigits cs) : AllDig cs :=
  fun c hc => (isDigit_iff_charDigit c).mpr (h c hc)

theorem allDigits_of_allDig {cs : List Char} (h : AllDig cs) : allDigits cs :=
  fun c hc => (isDigit_iff_charDigit c).mp (h c hc)

/-! ### `takeWhile` / `dropWhile` on a run followed by a stop character -/

theorem takeWhile_run {p : Char → Bool} (xs : List Char) (c : Char) (r : List Char)
    (hx : ∀ a ∈ xs, p a = true) (hc : p c = false) : (xs ++ c :: r).takeWhile p = xs := by
  rw [List.takeWhile_append_of_pos hx, List.takeWhile_cons_of_neg (by simp [hc])]
  simp

theorem dropWhile_run {p : Char → Bool} (xs : List Char) (c : Char) (r : List Char)
    (hx : ∀ a ∈ xs, p a = true) (hc : p c = false) : (xs ++ c :: r).dropWhile p = c :: r := by
  rw [List.dropWhile_append_of_pos hx, List.dropWhile_cons_of_neg (by simp [hc])]

theorem takeWhile_all {p : Char → Bool} (xs : List Char) (hx : ∀ a ∈ xs, p a = true) : xs.takeWhile p = xs := by
  have := List.takeWhile_append_of_pos (l₂ := []) hx
  simpa using this

theorem dropWhile_all {p : Char → Bool} (xs : List Char) (hx : ∀ a ∈ xs, p a = true) : xs.dropWhile p = [] := by
  have := List.dropWhile_append_of_pos (l₂ := []) hx
  simpa using this

/-! ### names and argument lists -/

/-- a written name: non-empty, characters `[a-z0-9_-]` -/
def NameOK (cs : List Char) : Prop := cs ≠ [] ∧ ∀ c ∈ cs, isNameChar c = true

theorem joinArgs_head (os : List (List Char)) (rest : List Char) :
    ∃ c r, joinArgs os ++ ')' :: rest = c :: r ∧ isTok c = false := by
  cases os with
  | nil => exact ⟨')', rest, rfl, by decide⟩
  | cons o os => exact ⟨' ', _, rfl, by decide⟩

theorem joinArgs_length (os : List (List Char)) : os.length ≤ (joinArgs os).length := by
  induction os with
  | nil => simp [joinArgs]
  | cons o os ih =>
    simp only [joinArgs, List.length_cons, List.length_append]
    omega

theorem scanParams_joinArgs (os : List (List Char)) (hos : ∀ o ∈ os, NameOK o) (rest : List Char) :
    ∀ fuel, os.length < fuel → scanParams fuel (joinArgs os ++ ')' :: rest) = some (os, rest) := by
  induction os with
  | nil =>
    intro fuel hf
    cases fuel with
    | zero => omega
    | succ f =>
      simp only [joinArgs, List.nil_append, scanParams]
      rw [List.dropWhile_cons_of_neg (by decide)]
      simp
  | cons o os ih =>
    intro fuel hf
    cases fuel with
    | zero => omega
    | succ f =>
      obtain ⟨hne, hall⟩ := hos o List.mem_cons_self
      obtain ⟨c', r', hcr, hc'⟩ := joinArgs_head os rest
      obtain ⟨h, t, ho⟩ : ∃ h t, o = h :: t := by
        cases o with
        | nil => exact absurd rfl hne
        | cons h t => exact ⟨h, t, rfl⟩
      subst ho
      have hh : isNameChar h = true := hall h List.mem_cons_self
      have hall' : ∀ a ∈ h :: t, isTok a = true := fun a ha => isTok_of_isNameChar (hall a ha)
      have hcs : joinArgs ((h :: t) :: os) ++ ')' :: rest = ' ' :: ((h :: t) ++ c' :: r') := by
        simp only [joinArgs, List.cons_append, List.append_assoc]
        rw [hcr]
      have hdw : (' ' :: ((h :: t) ++ c' :: r')).dropWhile isSpace = (h :: t) ++ c' :: r' := by
        rw [List.dropWhile_cons, if_pos (by decide)]
        simp only [List.cons_append]
        rw [List.dropWhile_cons_of_neg (by simp [not_space_of_isNameChar hh])]
      rw [hcs]
      simp only [scanParams]
      rw [hdw]
      have hne' : (h == ')') = false := by
        cases hb : h == ')' with
        | false => rfl
        | true =>
          have : h = ')' := by simpa using hb
          subst this
          revert hh
          decide
      simp only [List.cons_append, hne', Bool.false_eq_true, ↓reduceIte, isTok_of_isNameChar hh, Bool.true_and,
        List.length_cons, List.length_append]
      have hlt : decide (t.length + (r'.length + 1) + 1 < t.length + (r'.length + 1) + 1 + 1) = true := by
        simp
      rw [if_pos hlt]
      have hd := dropWhile_run (p := isTok) (h :: t) c' r' hall' hc'
      have ht := takeWhile_run (p := isTok) (h :: t) c' r' hall' hc'
      simp only [List.cons_append] at hd ht
      rw [hd, ht, ← hcr, ih (fun o ho => hos o (List.mem_cons_of_mem _ ho)) f (by simp at hf; omega)]

/-! ### the action instance -/

/-- the text `(<name> <arg> … <arg>)` -/
def instText (name : List Char) (os : List (List Char)) : List Char := '(' :: name ++ joinArgs os ++ [')']

theorem instText_append (name : List Char) (os : List (List Char)) (rest : List Char) :
    instText name os ++ rest = '(' :: (name ++ (joinArgs os ++ ')' :: rest)) := by
  simp [instText]

theorem scanInst_instText (name : List Char) (os : List (List Char)) (hn : NameOK name) (hos : ∀ o ∈ os, NameOK o)
    (rest : List Char) : scanInst (instText name os ++ rest) = some (name, os, rest) := by
  obtain ⟨hne, hall⟩ := hn
  obtain ⟨h, t, ho⟩ : ∃ h t, name = h :: t := by
    cases name with
    | nil => exact absurd rfl hne
    | cons h t => exact ⟨h, t, rfl⟩
  subst ho
  obtain ⟨c', r', hcr, hc'⟩ := joinArgs_head os rest
  have hh : isNameChar h = true := hall h List.mem_cons_self
  have hall' : ∀ a ∈ h :: t, isTok a = true := fun a ha => isTok_of_isNameChar (hall a ha)
  rw [instText_append, hcr]
  simp only [scanInst, beq_self_eq_true, ↓reduceIte]
  have hdw : ((h :: t) ++ c' :: r').dropWhile isSpace = (h :: t) ++ c' :: r' := by
    simp only [List.cons_append]
    rw [List.dropWhile_cons_of_neg (by simp [not_space_of_isNameChar hh])]
  rw [hdw, takeWhile_run _ _ _ hall' hc', dropWhile_run _ _ _ hall' hc']
  simp only [List.isEmpty_cons, Bool.false_eq_true, ↓reduceIte]
  rw [← hcr, scanParams_joinArgs os hos rest _ (by
    have := joinArgs_length os
    simp only [List.length_append, List.length_cons]
    omega)]

/-! ### numbers -/

/-- what the writer prints for a time that is not negative: `digits` or `digits.digits` -/
def TimeText (cs : List Char) : Prop :=
  (AllDig cs ∧ cs ≠ []) ∨ ∃ ip fp, cs = ip ++ '.' :: fp ∧ AllDig ip ∧ ip ≠ [] ∧ AllDig fp ∧ fp ≠ []

theorem scanNumber_timeText (num : List Char) (h : TimeText num) (c : Char) (rest : List Char)
    (hc : isDigit c = false) (hdot : c ≠ '.') : scanNumber (num ++ c :: rest) = some (num, c :: rest) := by
  rcases h with ⟨hall, hne⟩ | ⟨ip, fp, rfl, hip, hipne, hfp, _⟩
  · unfold scanNumber
    rw [takeWhile_run _ _ _ hall hc, dropWhile_run _ _ _ hall hc]
    have : num.isEmpty = false := by
      cases num with
      | nil => exact absurd rfl hne
      | cons _ _ => rfl
    simp [this, hdot]
  · unfold scanNumber
    have hd : isDigit '.' = false := by decide
    have e : ip ++ '.' :: fp ++ c :: rest = ip ++ '.' :: (fp ++ c :: rest) := by simp
    rw [e, takeWhile_run _ _ _ hip hd, dropWhile_run _ _ _ hip hd]
    have : ip.isEmpty = false := by
      cases ip with
      | nil => exact absurd rfl hipne
      | cons _ _ => rfl
    simp only [this, Bool.false_eq_true, ↓reduceIte, beq_self_eq_true]
    rw [takeWhile_run _ _ _ hfp hc, dropWhile_run _ _ _ hfp hc]

theorem timeText_head {num : List Char} (h : TimeText num) : ∃ d r, num = d :: r ∧ isDigit d = true := by
  rcases h with ⟨hall, hne⟩ | ⟨ip, fp, rfl, hip, hipne, _, _⟩
  · cases num with
    | nil => exact absurd rfl hne
    | cons d r => exact ⟨d, r, rfl, hall d List.mem_cons_self⟩
  · cases ip with
    | nil => exact absurd rfl hipne
    | cons d r => exact ⟨d, r ++ '.' :: fp, rfl, hip d List.mem_cons_self⟩

theorem not_space_of_isDigit {c : Char} (h : isDigit c = true) : isSpace c = false :=
  not_space_of_isNameChar (isNameChar_of_isDigit h)

/-! ### the optional duration -/

theorem scanDur_nil : scanDur [] = some none := rfl

theorem scanDur_bracket (dc : List Char) (h : TimeText dc) : scanDur ('[' :: dc ++ [']']) = some (some dc) := by
  obtain ⟨d, r, hd, hdig⟩ := timeText_head h
  unfold scanDur
  rw [List.cons_append, List.dropWhile_cons_of_neg (by decide)]
  simp only [beq_self_eq_true, ↓reduceIte]
  have hdw : (dc ++ [']']).dropWhile isSpace = dc ++ [']'] := by
    rw [hd, List.cons_append, List.dropWhile_cons_of_neg (by simp [not_space_of_isDigit hdig])]
  rw [hdw, scanNumber_timeText dc h ']' [] (by decide) (by decide)]
  simp only
  rw [List.dropWhile_cons_of_neg (by decide)]
  simp

/-! ### whole lines -/

theorem matchSeq_instText (name : List Char) (os : List (List Char)) (hn : NameOK name) (hos : ∀ o ∈ os, NameOK o) :
    matchSeq (instText name os) = some (name, os) := by
  unfold matchSeq
  have h1 : (instText name os).dropWhile isSpace = instText name os := by
    unfold instText
    rw [List.cons_append, List.cons_append, List.dropWhile_cons_of_neg (by decide)]
  have h2 := scanInst_instText name os hn hos []
  rw [List.append_nil] at h2
  rw [h1, h2]
  simp

/-- a line that starts with a digit is not a sequential step -/
theorem matchSeq_digit (d : Char) (r : List Char) (hd : isDigit d = true) : matchSeq (d :: r) = none := by
  unfold matchSeq
  rw [List.dropWhile_cons_of_neg (by simp [not_space_of_isDigit hd])]
  have : (d == '(') = false := by
    cases hb : d == '(' with
    | false => rfl
    | true =>
      have : d = '(' := by simpa using hb
      subst this
      revert hd
      decide
  simp [scanInst, this]

/-- the text of one timed step: `<start>: (<name> <arg>…)` followed by nothing or by `[<duration>]` -/
def durText : Option (List Char) → List Char
  | none => []
  | some dc => '[' :: dc ++ [']']

theorem scanDur_durText (d : Option (List Char)) (h : ∀ dc, d = some dc → TimeText dc) : scanDur (durText d) = some d := by
  cases d with
  | none => rfl
  | some dc => exact scanDur_bracket dc (h dc rfl)

theorem matchTT_line (st : List Char) (name : List Char) (os : List (List Char)) (d : Option (List Char))
    (hst : TimeText st) (hn : NameOK name) (hos : ∀ o ∈ os, NameOK o) (hd : ∀ dc, d = some dc → TimeText dc) :
    matchTT (st ++ ':' :: ' ' :: instText name os ++ durText d) = some (st, name, os, d) := by
  obtain ⟨d0, r0, hd0, hdig⟩ := timeText_head hst
  unfold matchTT
  have h1 : (st ++ ':' :: ' ' :: instText name os ++ durText d).dropWhile isSpace
      = st ++ ':' :: (' ' :: instText name os ++ durText d) := by
    rw [hd0]
    simp only [List.cons_append, List.append_assoc]
    rw [List.dropWhile_cons_of_neg (by simp [not_space_of_isDigit hdig])]
  rw [h1, scanNumber_timeText st hst ':' _ (by decide) (by decide)]
  simp only
  rw [List.dropWhile_cons_of_neg (by decide)]
  simp only [beq_self_eq_true, ↓reduceIte]
  have h2 : (' ' :: instText name os ++ durText d).dropWhile isSpace = instText name os ++ durText d := by
    rw [List.cons_append, List.dropWhile_cons, if_pos (by decide)]
    unfold instText
    rw [List.cons_append, List.cons_append, List.cons_append, List.dropWhile_cons_of_neg (by decide)]
  rw [h2, scanInst_instText name os hn hos]
  simp only
  rw [scanDur_durText d hd]

/-! ### the texts of times -/

theorem decimalBody_shape (N scale : Nat) :
    let digits := rjustZeros (scale + 1) (natDigits N)
    let ip := digits.take (digits.length - scale)
    let fp := digits.drop (digits.length - scale)
    let fp' := if fp.isEmpty then ['0'] else fp
    allDigits ip ∧ ip ≠ [] ∧ allDigits fp' ∧ fp' ≠ [] := by
  intro digits ip fp fp'
  obtain ⟨hne, hall, hval⟩ := natDigits_spec N
  have hdall : allDigits digits := allDigits_append (allDigits_replicate_zero _) hall
  have hlen : scale + 1 ≤ digits.length := by
    show scale + 1 ≤ (List.replicate _ '0' ++ natDigits N).length
    simp only [List.length_append, List.length_replicate]
    omega
  have hsplit : ip ++ fp = digits := List.take_append_drop _ _
  have hipall : allDigits ip := allDigits_of_append_left (hsplit ▸ hdall)
  have hfpall : allDigits fp := allDigits_of_append_right (hsplit ▸ hdall)
  have hiplen : 0 < ip.length := by
    show 0 < (digits.take _).length
    rw [List.length_take]
    omega
  refine ⟨hipall, ?_, ?_, ?_⟩
  · intro h
    rw [h] at hiplen
    simp at hiplen
  · show allDigits (if fp.isEmpty then ['0'] else fp)
    split
    · exact allDigits_cons charDigit_zero (by omega) allDigits_nil
    · exact hfpall
  · show (if fp.isEmpty then ['0'] else fp) ≠ []
    split
    · simp
    · rename_i h
      intro h'
      rw [h'] at h
      simp at h

theorem decimalChars_shape (r : Rat) (cs : List Char) (hr : ¬ r < 0) (h : decimalChars r = some cs) :
    ∃ ip fp, cs = ip ++ '.' :: fp ∧ allDigits ip ∧ ip ≠ [] ∧ allDigits fp ∧ fp ≠ [] := by
  unfold decimalChars at h
  cases h2 : stripFactor 2 r.den r.den with
  | mk e2 d2 =>
    rw [h2] at h
    dsimp only at h
    cases h5 : stripFactor 5 d2 d2 with
    | mk e5 d5 =>
      rw [h5] at h
      dsimp only at h
      by_cases hd5 : (d5 == 1) = true
      · simp only [hd5, ↓reduceIte, Option.some.injEq, hr, List.nil_append] at h
        obtain ⟨h1, h2', h3, h4⟩ := decimalBody_shape (r.num.natAbs * 10 ^ (max e2 e5) / r.den) (max e2 e5)
        refine ⟨_, _, ?_, h1, h2', h3, h4⟩
        rw [← h]
        simp
      · simp [hd5] at h

theorem intChars_nonneg {z : Int} (hz : 0 ≤ z) : intChars z = natDigits z.natAbs := by
  unfold intChars
  simp [Int.not_lt.mpr hz]

theorem rat_of_den_one (t : Rat) (h : t.den = 1) (h0 : 0 ≤ t) : ((t.num.natAbs : Nat) : Rat) = t := by
  have hn : 0 ≤ t.num := Rat.num_nonneg.mpr h0
  have h1 : ((t.num.natAbs : Nat) : Rat) = (t.num : Rat) := by
    rw [← Int.cast_natCast, Int.natAbs_of_nonneg hn]
  rw [h1]
  conv => rhs; rw [← Rat.num_div_den t]
  rw [h]
  simp

/-- a non-negative time that the writer prints exactly is printed as `digits` or `digits.digits`, and `Fraction` of
    that text is the time -/
theorem timeChars_spec (t : Rat) (cs : List Char) (h0 : 0 ≤ t) (h : timeChars t = some cs) :
    TimeText cs ∧ fractionOf cs = some t := by
  unfold timeChars at h
  by_cases hden : (t.den == 1) = true
  · simp only [hden, ↓reduceIte, Option.some.injEq] at h
    have hn : 0 ≤ t.num := Rat.num_nonneg.mpr h0
    rw [intChars_nonneg hn] at h
    subst h
    obtain ⟨hne, hall, _⟩ := natDigits_spec t.num.natAbs
    refine ⟨Or.inl ⟨allDig_of_allDigits hall, hne⟩, ?_⟩
    unfold fractionOf
    rw [splitAtDot_digits _ hall]
    simp only
    rw [parseUnsigned_natDigits, rat_of_den_one t (by simpa using hden) h0]
  · simp only [hden, Bool.false_eq_true, ↓reduceIte] at h
    have hr : ¬ t < 0 := not_lt.mpr h0
    obtain ⟨ip, fp, rfl, hip, hipne, hfp, hfpne⟩ := decimalChars_shape t cs hr h
    refine ⟨Or.inr ⟨ip, fp, rfl, allDig_of_allDigits hip, hipne, allDig_of_allDigits hfp, hfpne⟩, ?_⟩
    have hparse := parseNumberChars_decimalChars t _ h
    obtain ⟨c, r, hc⟩ : ∃ c r, ip = c :: r := by
      cases ip with
      | nil => exact absurd rfl hipne
      | cons c r => exact ⟨c, r, rfl⟩
    obtain ⟨d, hd, _⟩ := hip c (by rw [hc]; exact List.mem_cons_self)
    have hhead := parseNumberChars_of_head (c := c) (cs := r ++ '.' :: fp) (charDigit_ne hd).2.1 (charDigit_ne hd).2.2
    unfold fractionOf
    rw [splitAtDot_digits_dot _ _ hip]
    cases fp with
    | nil => exact absurd rfl hfpne
    | cons f fs =>
      simp only
      rw [hc, List.cons_append] at hparse ⊢
      rw [← hhead, hparse]

/-! ### the renaming -/

/-- What the round trip needs of the writer's renaming `ρ` (`otn_renamings`) and of `get_item_named` (`nto_renamings`):
    the second inverts the first on actions and objects, and the new names of actions and objects are non-empty words
    over `[a-z0-9_-]` (C38: `pddl_lookups_inverse`, `pddl_names_valid`). -/
structure RenOK (ρ : Ren) (inv : Inv) : Prop where
  inv_action : ∀ a s, ρ (.action a) = some s → inv s = some (.action a)
  inv_obj : ∀ o s, ρ (.obj o) = some s → inv s = some (.obj o)
  name_action : ∀ a s, ρ (.action a) = some s → NameOK s.toList
  name_obj : ∀ o s, ρ (.obj o) = some s → NameOK s.toList

/-- the `ActionInstance` constructor accepts the step (arity and parameter types): true of every entry of a plan object -/
def WellTyped (sig : PlanSig) (a : String) (args : List String) : Prop := mkInstance sig a args = .ok (a, args)

theorem resolveObjs_mapM {ρ : Ren} {inv : Inv} (ok : RenOK ρ inv) :
    ∀ (args : List String) (os : List (List Char)),
      args.mapM (fun o => (ρ (.obj o)).map String.toList) = some os →
      resolveObjs inv os = .ok args ∧ ∀ o ∈ os, NameOK o
  | [], os, h => by
    simp at h
    subst h
    exact ⟨rfl, by simp⟩
  | a :: args, os, h => by
    simp only [List.mapM_cons, Option.bind_eq_bind, Option.bind_eq_some_iff, Option.map_eq_some_iff, Option.pure_def,
      Option.some.injEq] at h
    obtain ⟨t, ⟨s, hs, rfl⟩, rest, hrest, rfl⟩ := h
    obtain ⟨ih1, ih2⟩ := resolveObjs_mapM ok args rest hrest
    refine ⟨?_, ?_⟩
    · simp only [resolveObjs, String.ofList_toList, ok.inv_obj a s hs, ih1]
    · intro o ho
      rcases List.mem_cons.mp ho with rfl | ho
      · exact ok.name_obj a s hs
      · exact ih2 o ho

theorem fmtInstance_spec {ρ : Ren} {inv : Inv} (ok : RenOK ρ inv) (sig : PlanSig) (a : String) (args : List String)
    (inst : List Char) (hty : WellTyped sig a args) (h : fmtInstance ρ a args = some inst) :
    ∃ name os, inst = instText name os ∧ NameOK name ∧ (∀ o ∈ os, NameOK o) ∧
      resolveInstance inv sig name os = .ok (a, args) := by
  unfold fmtInstance at h
  simp only [Option.bind_eq_bind, Option.bind_eq_some_iff, Option.some.injEq] at h
  obtain ⟨an, han, os, hos, rfl⟩ := h
  obtain ⟨h1, h2⟩ := resolveObjs_mapM ok args os hos
  refine ⟨an.toList, os, ?_, ok.name_action a an han, h2, ?_⟩
  · simp [instText]
  · simp only [resolveInstance, String.ofList_toList, ok.inv_action a an han, h1]
    exact hty

/-! ### written characters -/

theorem written_timeText {cs : List Char} (h : TimeText cs) : ∀ c ∈ cs, isWritten c = true := by
  have hdot : isWritten '.' = true := by decide
  rcases h with ⟨hall, _⟩ | ⟨ip, fp, rfl, hip, _, hfp, _⟩
  · exact fun c hc => isWritten_of_isNameChar (isNameChar_of_isDigit (hall c hc))
  · intro c hc
    simp only [List.mem_append, List.mem_cons] at hc
    rcases hc with hc | rfl | hc
    · exact isWritten_of_isNameChar (isNameChar_of_isDigit (hip c hc))
    · exact hdot
    · exact isWritten_of_isNameChar (isNameChar_of_isDigit (hfp c hc))

theorem written_joinArgs (os : List (List Char)) (hos : ∀ o ∈ os, NameOK o) : ∀ c ∈ joinArgs os, isWritten c = true := by
  induction os with
  | nil => simp [joinArgs]
  | cons o os ih =>
    intro c hc
    simp only [joinArgs, List.mem_cons, List.mem_append] at hc
    rcases hc with (rfl | hc) | hc
    · decide
    · exact isWritten_of_isNameChar ((hos o List.mem_cons_self).2 c hc)
    · exact ih (fun o ho => hos o (List.mem_cons_of_mem _ ho)) c hc

theorem written_instText (name : List Char) (os : List (List Char)) (hn : NameOK name) (hos : ∀ o ∈ os, NameOK o) :
    ∀ c ∈ instText name os, isWritten c = true := by
  intro c hc
  simp only [instText, List.mem_cons, List.mem_append, List.not_mem_nil, or_false] at hc
  rcases hc with ((rfl | hc) | hc) | rfl
  · decide
  · exact isWritten_of_isNameChar (hn.2 c hc)
  · exact written_joinArgs os hos c hc
  · decide

theorem written_durText (d : Option (List Char)) (hd : ∀ dc, d = some dc → TimeText dc) :
    ∀ c ∈ durText d, isWritten c = true := by
  cases d with
  | none => simp [durText]
  | some dc =>
    intro c hc
    simp only [durText, List.mem_cons, List.mem_append, List.not_mem_nil, or_false] at hc
    rcases hc with (rfl | hc) | rfl
    · decide
    · exact written_timeText (hd dc rfl) c hc
    · decide

theorem map_toLower_written (cs : List Char) (h : ∀ c ∈ cs, isWritten c = true) : cs.map Char.toLower = cs := by
  induction cs with
  | nil => rfl
  | cons c cs ih =>
    rw [List.map_cons, toLower_of_isWritten (h c List.mem_cons_self), ih (fun a ha => h a (List.mem_cons_of_mem _ ha))]

/-! ### one line -/

/-- the facts about one written line that the loop needs -/
structure LineOK (inv : Inv) (sig : PlanSig) (line : List Char) (isTT' : Bool) (en : Entry) (canFollowTT : Bool) : Prop where
  written : ∀ c ∈ line, isWritten c = true
  notBlank : isBlankOrComment line = false
  read : ∀ isTT, (isTT = true → canFollowTT = true) → readLine inv sig isTT line = .ok (isTT', en)

theorem fmtTStep_lineOK {ρ : Ren} {inv : Inv} (ok : RenOK ρ inv) (sig : PlanSig) (s : TStep) (line : List Char)
    (hty : WellTyped sig s.act s.args) (h0 : 0 ≤ s.start) (hd0 : ∀ d, s.dur = some d → 0 ≤ d)
    (h : fmtTStep ρ s = .ok line) : LineOK inv sig line true (.t s) true := by
  unfold fmtTStep at h
  cases hi : fmtInstance ρ s.act s.args with
  | none => simp [hi] at h
  | some inst =>
    obtain ⟨name, os, rfl, hn, hos, hres⟩ := fmtInstance_spec ok sig s.act s.args inst hty hi
    cases hs : timeChars s.start with
    | none => simp [hi, hs] at h
    | some st =>
      obtain ⟨hst, hfst⟩ := timeChars_spec s.start st h0 hs
      -- the duration part
      have key : ∃ d : Option (List Char), line = st ++ ':' :: ' ' :: instText name os ++ durText d ∧
          (∀ dc, d = some dc → TimeText dc) ∧
          durOf d = some s.dur := by
        cases hdur : s.dur with
        | none =>
          simp only [hi, hs, hdur, Except.ok.injEq] at h
          exact ⟨none, by simp [durText, ← h], by simp, rfl⟩
        | some d =>
          cases hdc : timeChars d with
          | none => simp [hi, hs, hdur, hdc] at h
          | some dc =>
            simp only [hi, hs, hdur, hdc, Except.ok.injEq] at h
            obtain ⟨hdt, hfd⟩ := timeChars_spec d dc (hd0 d hdur) hdc
            refine ⟨some dc, by simp [durText, ← h], ?_, by simp [durOf, hfd]⟩
            intro dc' e
            cases e
            exact hdt
      obtain ⟨d, rfl, hdt, hfd⟩ := key
      obtain ⟨c0, r0, hc0, hdig⟩ := timeText_head hst
      have hw : ∀ c ∈ st ++ ':' :: ' ' :: instText name os ++ durText d, isWritten c = true := by
        intro c hc
        simp only [List.mem_append, List.mem_cons] at hc
        rcases hc with (hc | rfl | rfl | hc) | hc
        · exact written_timeText hst c hc
        · decide
        · decide
        · exact written_instText name os hn hos c hc
        · exact written_durText d hdt c hc
      refine ⟨hw, ?_, ?_⟩
      · unfold isBlankOrComment
        rw [hc0]
        simp only [List.cons_append]
        rw [List.dropWhile_cons_of_neg (by simp [not_space_of_isDigit hdig])]
        simp only
        cases hb : c0 == ';' with
        | false => rfl
        | true =>
          have : c0 = ';' := by simpa using hb
          subst this
          revert hdig
          decide
      · intro isTT _
        unfold readLine
        simp only [map_toLower_written _ hw]
        have hseq : matchSeq (st ++ ':' :: ' ' :: instText name os ++ durText d) = none := by
          rw [hc0]
          simp only [List.cons_append]
          exact matchSeq_digit c0 _ hdig
        rw [hseq]
        simp only
        rw [matchTT_line st name os d hst hn hos hdt]
        simp only [hfst, hfd, hres]

theorem fmtInstance_lineOK {ρ : Ren} {inv : Inv} (ok : RenOK ρ inv) (sig : PlanSig) (a : String) (args : List String)
    (line : List Char) (hty : WellTyped sig a args) (h : fmtInstance ρ a args = some line) :
    LineOK inv sig line false (.s a args) false := by
  obtain ⟨name, os, rfl, hn, hos, hres⟩ := fmtInstance_spec ok sig a args line hty h
  have hw := written_instText name os hn hos
  refine ⟨hw, ?_, ?_⟩
  · unfold isBlankOrComment instText
    rw [List.cons_append, List.cons_append, List.dropWhile_cons_of_neg (by decide)]
    rfl
  · intro isTT hTT
    have hf : isTT = false := by
      cases isTT with
      | false => rfl
      | true => exact absurd (hTT rfl) (by decide)
    subst hf
    unfold readLine
    simp only [map_toLower_written _ hw, matchSeq_instText name os hn hos, hres]
    rfl

/-! ### lines -/

theorem unlines_length (lines : List (List Char)) : lines.length ≤ (unlines lines).length := by
  induction lines with
  | nil => simp [unlines]
  | cons l ls ih =>
    simp only [unlines, List.length_cons, List.length_append]
    omega

theorem splitLines_unlines (lines : List (List Char)) (hl : ∀ l ∈ lines, ∀ c ∈ l, isWritten c = true) :
    ∀ fuel, lines.length ≤ fuel → splitLines fuel (unlines lines) = lines := by
  induction lines with
  | nil =>
    intro fuel _
    cases fuel <;> simp [splitLines, unlines]
  | cons l ls ih =>
    intro fuel hf
    cases fuel with
    | zero => simp at hf
    | succ f =>
      have hx : ∀ a ∈ l, (fun c => !isBreak c) a = true := by
        intro a ha
        simp [not_break_of_isWritten (hl l List.mem_cons_self a ha)]
      have hc : (fun c => !isBreak c) '\n' = false := by decide
      have hne : (l ++ '\n' :: unlines ls).isEmpty = false := by
        cases l <;> rfl
      simp only [unlines, splitLines, hne, Bool.false_eq_true, ↓reduceIte]
      rw [takeWhile_run l '\n' _ hx hc, dropWhile_run l '\n' _ hx hc]
      simp only
      have : ('\n' == '\r') = false := by decide
      rw [this]
      simp only [Bool.false_eq_true, ↓reduceIte]
      rw [ih (fun l' hl' => hl l' (List.mem_cons_of_mem _ hl')) f (by simp at hf; omega)]

/-! ### the loop -/

theorem readLines_tt {ρ : Ren} {inv : Inv} (ok : RenOK ρ inv) (sig : PlanSig) :
    ∀ (π : List TStep) (lines : List (List Char)),
      (∀ s ∈ π, WellTyped sig s.act s.args) → (∀ s ∈ π, 0 ≤ s.start ∧ ∀ d, s.dur = some d → 0 ≤ d) →
      mapExcept (fmtTStep ρ) π = .ok lines →
      (∀ l ∈ lines, ∀ c ∈ l, isWritten c = true) ∧
      ∀ b acc, readLines inv sig b acc lines = .ok (b || !π.isEmpty, acc ++ π.map Entry.t)
  | [], lines, _, _, h => by
    simp only [mapExcept, Except.ok.injEq] at h
    subst h
    exact ⟨by simp, fun b acc => by simp [readLines]⟩
  | s :: π, lines, hty, h0, h => by
    simp only [mapExcept] at h
    cases hl : fmtTStep ρ s with
    | error e => simp [hl] at h
    | ok l =>
      cases hls : mapExcept (fmtTStep ρ) π with
      | error e => simp [hl, hls] at h
      | ok ls =>
        simp only [hl, hls, Except.ok.injEq] at h
        subst h
        have L := fmtTStep_lineOK ok sig s l (hty s List.mem_cons_self) (h0 s List.mem_cons_self).1
          (h0 s List.mem_cons_self).2 hl
        obtain ⟨ihw, ih⟩ := readLines_tt ok sig π ls (fun s' hs' => hty s' (List.mem_cons_of_mem _ hs'))
          (fun s' hs' => h0 s' (List.mem_cons_of_mem _ hs')) hls
        refine ⟨?_, ?_⟩
        · intro l' hl'
          rcases List.mem_cons.mp hl' with rfl | hl'
          · exact L.written
          · exact ihw l' hl'
        · intro b acc
          simp only [readLines, L.notBlank, Bool.false_eq_true, ↓reduceIte, L.read b (fun _ => rfl), ih]
          simp

theorem readLines_seq {ρ : Ren} {inv : Inv} (ok : RenOK ρ inv) (sig : PlanSig) :
    ∀ (π : List (String × List String)) (lines : List (List Char)),
      (∀ s ∈ π, WellTyped sig s.1 s.2) →
      π.mapM (fun s => fmtInstance ρ s.1 s.2) = some lines →
      (∀ l ∈ lines, ∀ c ∈ l, isWritten c = true) ∧
      ∀ acc, readLines inv sig false acc lines = .ok (false, acc ++ π.map (fun s => Entry.s s.1 s.2))
  | [], lines, _, h => by
    simp at h
    subst h
    exact ⟨by simp, fun acc => by simp [readLines]⟩
  | s :: π, lines, hty, h => by
    simp only [List.mapM_cons, Option.bind_eq_bind, Option.bind_eq_some_iff, Option.pure_def, Option.some.injEq] at h
    obtain ⟨l, hl, ls, hls, rfl⟩ := h
    have L := fmtInstance_lineOK ok sig s.1 s.2 l (hty s List.mem_cons_self) hl
    obtain ⟨ihw, ih⟩ := readLines_seq ok sig π ls (fun s' hs' => hty s' (List.mem_cons_of_mem _ hs')) hls
    refine ⟨?_, ?_⟩
    · intro l' hl'
      rcases List.mem_cons.mp hl' with rfl | hl'
      · exact L.written
      · exact ihw l' hl'
    · intro acc
      simp only [readLines, L.notBlank, Bool.false_eq_true, ↓reduceIte, L.read false (by simp), ih]
      simp

theorem allTimed_map (π : List TStep) : allTimed (π.map Entry.t) = some π := by
  induction π with
  | nil => rfl
  | cons s π ih => simp [allTimed, ih]

theorem allSeq_map (π : List (String × List String)) : allSeq (π.map (fun s => Entry.s s.1 s.2)) = some π := by
  induction π with
  | nil => rfl
  | cons s π ih => simp [allSeq, ih]

/-! ### the plan -/

theorem parsePlanString_writePlan_tt {ρ : Ren} {inv : Inv} (ok : RenOK ρ inv) (sig : PlanSig) (π : List TStep)
    (text : List Char) (hne : π ≠ []) (hty : ∀ s ∈ π, WellTyped sig s.act s.args)
    (h0 : ∀ s ∈ π, 0 ≤ s.start ∧ ∀ d, s.dur = some d → 0 ≤ d)
    (hw : writePlan ρ (.tt π) = .ok text) : parsePlanString inv sig text = .ok (.tt π) := by
  simp only [writePlan] at hw
  cases hls : mapExcept (fmtTStep ρ) π with
  | error e => simp [hls] at hw
  | ok lines =>
    simp only [hls, Except.ok.injEq] at hw
    subst hw
    obtain ⟨hwr, hread⟩ := readLines_tt ok sig π lines hty h0 hls
    unfold parsePlanString
    rw [splitLines_unlines lines hwr _ (by have := unlines_length lines; omega), hread]
    have : π.isEmpty = false := by
      cases π with
      | nil => exact absurd rfl hne
      | cons _ _ => rfl
    simp [this, allTimed_map]

theorem parsePlanString_writePlan_seq {ρ : Ren} {inv : Inv} (ok : RenOK ρ inv) (sig : PlanSig)
    (π : List (String × List String)) (text : List Char) (hty : ∀ s ∈ π, WellTyped sig s.1 s.2)
    (hw : writePlan ρ (.seq π) = .ok text) : parsePlanString inv sig text = .ok (.seq π) := by
  simp only [writePlan] at hw
  cases hls : π.mapM (fun s => fmtInstance ρ s.1 s.2) with
  | none => simp [hls] at hw
  | some lines =>
    simp only [hls, Except.ok.injEq] at hw
    subst hw
    obtain ⟨hwr, hread⟩ := readLines_seq ok sig π lines hty hls
    unfold parsePlanString
    rw [splitLines_unlines lines hwr _ (by have := unlines_length lines; omega), hread]
    simp [allSeq_map]

/-! ### which times have an exact text -/

/-- the rational has a finite decimal expansion: its (reduced) denominator is `2^a * 5^b` -/
def FiniteDecimal (t : Rat) : Prop := ∃ a b, t.den = 2 ^ a * 5 ^ b

theorem stripFactor_pow (p m : Nat) (hp : 2 ≤ p) (hm : m % p ≠ 0) :
    ∀ e fuel, e ≤ fuel → stripFactor p fuel (p ^ e * m) = (e, m) := by
  have hm0 : m ≠ 0 := by
    intro h
    subst h
    simp at hm
  intro e
  induction e with
  | zero =>
    intro fuel _
    cases fuel with
    | zero => simp [stripFactor]
    | succ f =>
      simp only [Nat.pow_zero, Nat.one_mul, stripFactor]
      have : (m % p == 0) = false := by simpa using hm
      simp [this]
  | succ e ih =>
    intro fuel hf
    cases fuel with
    | zero => omega
    | succ f =>
      have hpos : 0 < p := by omega
      have hn : p ^ (e + 1) * m = p * (p ^ e * m) := by
        rw [Nat.pow_succ, Nat.mul_comm (p ^ e) p, Nat.mul_assoc]
      have h1 : (p ^ (e + 1) * m) % p = 0 := by
        rw [hn]
        exact Nat.mul_mod_right p _
      have h2 : p ^ (e + 1) * m ≠ 0 := Nat.mul_ne_zero (Nat.ne_of_gt (Nat.pow_pos hpos)) hm0
      have h3 : p ^ (e + 1) * m / p = p ^ e * m := by
        rw [hn]
        exact Nat.mul_div_cancel_left _ hpos
      have h2' : (p ^ (e + 1) * m != 0) = true := by simpa using h2
      simp only [stripFactor, h1, beq_self_eq_true, h2', Bool.and_self, ↓reduceIte, h3, ih f (by omega)]

theorem pow5_mod2 (b : Nat) : 5 ^ b % 2 ≠ 0 := by
  rw [Nat.pow_mod]
  simp

theorem lt_two_pow_mul (a b : Nat) : a ≤ 2 ^ a * 5 ^ b := by
  have h1 : a < 2 ^ a := Nat.lt_two_pow_self
  have h2 : 0 < 5 ^ b := Nat.pow_pos (by omega)
  calc a ≤ 2 ^ a := Nat.le_of_lt h1
    _ = 2 ^ a * 1 := by simp
    _ ≤ 2 ^ a * 5 ^ b := Nat.mul_le_mul_left _ h2

theorem le_five_pow (b : Nat) : b ≤ 5 ^ b := Nat.le_of_lt (Nat.lt_pow_self (by omega))

/-- **the writer's printability condition**: a time has an exact text iff its decimal expansion is finite -/
theorem timeChars_isSome_iff (t : Rat) : (timeChars t).isSome = true ↔ FiniteDecimal t := by
  constructor
  · intro h
    unfold timeChars at h
    by_cases hden : (t.den == 1) = true
    · exact ⟨0, 0, by simpa using hden⟩
    · simp only [hden, Bool.false_eq_true, ↓reduceIte] at h
      unfold decimalChars at h
      have s2 := stripFactor_spec 2 t.den t.den
      cases h2 : stripFactor 2 t.den t.den with
      | mk e2 d2 =>
        rw [h2] at h s2
        dsimp only at h s2
        have s5 := stripFactor_spec 5 d2 d2
        cases h5 : stripFactor 5 d2 d2 with
        | mk e5 d5 =>
          rw [h5] at h s5
          dsimp only at h s5
          by_cases hd5 : (d5 == 1) = true
          · have : d5 = 1 := by simpa using hd5
            refine ⟨e2, e5, ?_⟩
            rw [s2, s5, this]
            simp
          · simp [hd5] at h
  · rintro ⟨a, b, hab⟩
    unfold timeChars
    by_cases hden : (t.den == 1) = true
    · simp [hden]
    · simp only [hden, Bool.false_eq_true, ↓reduceIte]
      unfold decimalChars
      have e2 : stripFactor 2 t.den t.den = (a, 5 ^ b) := by
        conv => lhs; rw [hab]
        exact stripFactor_pow 2 (5 ^ b) (by omega) (pow5_mod2 b) a _ (lt_two_pow_mul a b)
      have e5 : stripFactor 5 (5 ^ b) (5 ^ b) = (b, 1) := by
        have := stripFactor_pow 5 1 (by omega) (by decide) b (5 ^ b) (le_five_pow b)
        simpa using this
      rw [e2]
      dsimp only
      rw [e5]
      simp

theorem mapM_isSome {α β : Type} (f : α → Option β) : ∀ (l : List α), (∀ a ∈ l, (f a).isSome = true) → (l.mapM f).isSome = true
  | [], _ => by simp
  | a :: l, h => by
    have ha := h a List.mem_cons_self
    have hl := mapM_isSome f l (fun b hb => h b (List.mem_cons_of_mem _ hb))
    cases hfa : f a with
    | none => simp [hfa] at ha
    | some b =>
      cases hfl : l.mapM f with
      | none => simp [hfl] at hl
      | some bs => simp [List.mapM_cons, hfa, hfl]

/-- the names of a step are in the domain of the renaming -/
def InDomain (ρ : Ren) (a : String) (args : List String) : Prop :=
  (ρ (.action a)).isSome = true ∧ ∀ o ∈ args, (ρ (.obj o)).isSome = true

theorem fmtInstance_isSome (ρ : Ren) (a : String) (args : List String) (h : InDomain ρ a args) :
    (fmtInstance ρ a args).isSome = true := by
  obtain ⟨ha, ho⟩ := h
  unfold fmtInstance
  cases hρ : ρ (.action a) with
  | none => simp [hρ] at ha
  | some an =>
    have := mapM_isSome (fun o => (ρ (.obj o)).map String.toList) args (fun o hmem => by simpa using ho o hmem)
    cases hm : args.mapM (fun o => (ρ (.obj o)).map String.toList) with
    | none => simp [hm] at this
    | some os => simp

theorem mapExcept_ok {ε α β : Type} (f : α → Except ε β) :
    ∀ (l : List α), (∀ a ∈ l, ∃ b, f a = .ok b) → ∃ bs, mapExcept f l = .ok bs
  | [], _ => ⟨[], rfl⟩
  | a :: l, h => by
    obtain ⟨b, hb⟩ := h a List.mem_cons_self
    obtain ⟨bs, hbs⟩ := mapExcept_ok f l (fun x hx => h x (List.mem_cons_of_mem _ hx))
    exact ⟨b :: bs, by simp [mapExcept, hb, hbs]⟩

/-- a time-triggered plan whose names are in the domain of the renaming and whose times have finite decimal
    expansions has a text -/
theorem writePlan_tt_ok (ρ : Ren) (π : List TStep) (hdom : ∀ s ∈ π, InDomain ρ s.act s.args)
    (hfin : ∀ s ∈ π, FiniteDecimal s.start ∧ ∀ d, s.dur = some d → FiniteDecimal d) :
    ∃ text, writePlan ρ (.tt π) = .ok text := by
  have hstep : ∀ s ∈ π, ∃ l, fmtTStep ρ s = .ok l := by
    intro s hs
    have h1 := fmtInstance_isSome ρ s.act s.args (hdom s hs)
    have h2 := (timeChars_isSome_iff s.start).mpr (hfin s hs).1
    unfold fmtTStep
    cases hi : fmtInstance ρ s.act s.args with
    | none => simp [hi] at h1
    | some inst =>
      cases hst : timeChars s.start with
      | none => simp [hst] at h2
      | some st =>
        cases hd : s.dur with
        | none => exact ⟨_, rfl⟩
        | some d =>
          have h3 := (timeChars_isSome_iff d).mpr ((hfin s hs).2 d hd)
          cases hdc : timeChars d with
          | none => simp [hdc] at h3
          | some dc => exact ⟨st ++ ':' :: ' ' :: inst ++ '[' :: dc ++ [']'], by simp only [hdc]⟩
  obtain ⟨ls, hls⟩ := mapExcept_ok (fmtTStep ρ) π hstep
  exact ⟨unlines ls, by simp [writePlan, hls]⟩

/-! ### the hypothesis on the renaming is decidable on a table -/

theorem mem_of_lookup {α β : Type} [BEq α] [LawfulBEq α] (k : α) (v : β) :
    ∀ (tbl : List (α × β)), tbl.lookup k = some v → (k, v) ∈ tbl
  | [], h => by simp at h
  | (k', v') :: tbl, h => by
    by_cases hk : (k == k') = true
    · have : k = k' := by simpa using hk
      subst this
      simp [List.lookup] at h
      subst h
      exact List.mem_cons_self
    · have hk' : (k == k') = false := by simpa using hk
      simp only [List.lookup, hk'] at h
      exact List.mem_cons_of_mem _ (mem_of_lookup k v tbl h)

theorem nameOK_of_bool {cs : List Char} (h1 : (!cs.isEmpty) = true) (h2 : cs.all isNameChar = true) : NameOK cs := by
  refine ⟨?_, ?_⟩
  · intro h
    subst h
    simp at h1
  · intro c hc
    exact List.all_eq_true.mp h2 c hc

/-- a table that passes the decidable check satisfies the hypothesis of the round trip -/
theorem renOK_of_tableOK (tbl : List (NameKey × String)) (h : tableOK tbl = true) :
    RenOK (renOfTable tbl) (invOfTable tbl) := by
  unfold tableOK at h
  rw [List.all_eq_true] at h
  have ha : ∀ a s, renOfTable tbl (.action a) = some s →
      invOfTable tbl s = some (.action a) ∧ NameOK s.toList := by
    intro a s hs
    have := h _ (mem_of_lookup _ _ tbl hs)
    simp only [Bool.and_eq_true, beq_iff_eq] at this
    exact ⟨this.1.1, nameOK_of_bool this.1.2 this.2⟩
  have ho : ∀ o s, renOfTable tbl (.obj o) = some s →
      invOfTable tbl s = some (.obj o) ∧ NameOK s.toList := by
    intro o s hs
    have := h _ (mem_of_lookup _ _ tbl hs)
    simp only [Bool.and_eq_true, beq_iff_eq] at this
    exact ⟨this.1.1, nameOK_of_bool this.1.2 this.2⟩
  exact ⟨fun a s hs => (ha a s hs).1, fun o s hs => (ho o s hs).1, fun a s hs => (ha a s hs).2,
    fun o s hs => (ho o s hs).2⟩

end UPVerif.Pddl.TTP
