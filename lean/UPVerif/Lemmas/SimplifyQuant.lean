import UPVerif.Lemmas.SimplifyWF
/-!
Helper lemmas for `Props/C11.lean`, part 6: structure of the `Exists` elimination (`findElim`,
`elimLoop`) independent of any particular invariant, and the instance of "simplification only
rearranges" for `allB` (`simpF_allB`).  No Mathlib.
-/
namespace UPVerif.Simp
open Expr

/-! ### what `elimCandidate` / `findElim` return -/

theorem isVarIn_some {vars : List Var} {e : Expr} {x : Var} (h : isVarIn vars e = some x) :
    x ∈ vars ∧ e = .leaf (.var x) := by
  unfold isVarIn at h
  split at h
  · split at h
    · rename_i hm
      simp only [Option.some.injEq] at h; subst h
      exact ⟨by simpa using hm, rfl⟩
    · cases h
  · cases h

theorem elimCandidate_some {vars : List Var} {c : Expr} {x : Var} {value : Expr}
    (h : elimCandidate vars c = some (x, value)) :
    x ∈ vars ∧ (c = .app .eq [.leaf (.var x), value] ∨ c = .app .eq [value, .leaf (.var x)]) := by
  unfold elimCandidate at h
  split at h
  · rename_i a b
    split at h
    · rename_i y hy
      simp only [Option.some.injEq, Prod.mk.injEq] at h
      obtain ⟨rfl, rfl⟩ := h
      obtain ⟨hm, rfl⟩ := isVarIn_some hy
      exact ⟨hm, .inl rfl⟩
    · split at h
      · rename_i y hy
        simp only [Option.some.injEq, Prod.mk.injEq] at h
        obtain ⟨rfl, rfl⟩ := h
        obtain ⟨hm, rfl⟩ := isVarIn_some hy
        exact ⟨hm, .inr rfl⟩
      · cases h
  · cases h

theorem findElim_some {cfg : SimpCfg} {vars : List Var} :
    ∀ {cs pre : List Expr} {x : Var} {value rest : Expr},
      findElim cfg vars pre cs = some (x, value, rest) →
      ∃ pre' c post, pre ++ cs = pre' ++ c :: post ∧ rest = mkAnd (pre' ++ post) ∧
        elimCandidate vars c = some (x, value) ∧ eligible cfg x value rest = true
  | [], pre, x, value, rest, h => by simp [findElim] at h
  | c :: post, pre, x, value, rest, h => by
    simp only [findElim] at h
    split at h
    · rename_i y val hc
      split at h
      · rename_i hel
        simp only [Option.some.injEq, Prod.mk.injEq] at h
        obtain ⟨rfl, rfl, rfl⟩ := h
        exact ⟨pre, c, post, rfl, rfl, hc, hel⟩
      · obtain ⟨pre', c', post', heq, hr, hcand, hel⟩ := findElim_some h
        exact ⟨pre', c', post', by simpa using heq, hr, hcand, hel⟩
    · obtain ⟨pre', c', post', heq, hr, hcand, hel⟩ := findElim_some h
      exact ⟨pre', c', post', by simpa using heq, hr, hcand, hel⟩

/-- generic invariant rule for the `while` loop of `walk_exists` -/
theorem elimLoop_inv {cfg : SimpCfg} {resimp : Expr → Except SimpErr Expr}
    (Inv : List Var → Expr → Prop)
    (hstep : ∀ vars cs x value rest e', Inv vars (.app .and cs) →
      findElim cfg vars [] cs = some (x, value, rest) →
      resimp (subst [(.leaf (.var x), value)] rest) = .ok e' →
      Inv ((vars.filter (fun v => v != x)).filter (fun v => (freeVars e').contains v)) e') :
    ∀ (n : Nat) (vars : List Var) (e : Expr) (vars' : List Var) (e' : Expr),
      Inv vars e → elimLoop cfg resimp n vars e = .ok (vars', e') → Inv vars' e'
  | 0, vars, e, vars', e', hinv, h => by
    simp only [elimLoop, pure, Except.pure, Except.ok.injEq, Prod.mk.injEq] at h
    obtain ⟨rfl, rfl⟩ := h; exact hinv
  | n + 1, vars, e, vars', e', hinv, h => by
    unfold elimLoop at h
    split at h
    · rename_i cs
      split at h
      · simp only [pure, Except.pure, Except.ok.injEq, Prod.mk.injEq] at h
        obtain ⟨rfl, rfl⟩ := h; exact hinv
      · rename_i x value rest hf
        split at h
        · cases h
        · rename_i e1 hr
          exact elimLoop_inv Inv hstep n _ e1 vars' e' (hstep vars cs x value rest e1 hinv hf hr) h
    · simp only [pure, Except.pure, Except.ok.injEq, Prod.mk.injEq] at h
      obtain ⟨rfl, rfl⟩ := h; exact hinv

/-- `walk_exists` in terms of the final state of the loop -/
theorem walkExists_ok {cfg : SimpCfg} {resimp : Expr → Except SimpErr Expr} {vs : List Var}
    {b e' : Expr} (h : walkExists cfg resimp vs b = .ok e') :
    ∃ vars' b', elimLoop cfg resimp (vs.filter (fun v => (freeVars b).contains v)).length
        (vs.filter (fun v => (freeVars b).contains v)) b = .ok (vars', b') ∧
      e' = if vars'.isEmpty then b' else .quant .ex vars' b' := by
  unfold walkExists at h
  simp only [] at h
  split at h
  · cases h
  · rename_i vars' b' hl
    simp only [pure, Except.pure, Except.ok.injEq] at h
    exact ⟨vars', b', hl, h.symm⟩

/-! ### `allB` is compositional and preserved -/

theorem comp_allB {pl : Leaf → Bool} {pv : Var → Bool}
    (hc : (∀ b, pl (.boolC b) = true) ∧ (∀ z, pl (.intC z) = true) ∧ (∀ r, pl (.realC r) = true)) :
    Comp (fun e => allB pl pv e = true) where
  bool b := by simp [allB, hc.1]
  int z := by simp [allB, hc.2.1]
  real r := by simp [allB, hc.2.2]
  app op l := by
    simp only [allB]
    induction l with
    | nil => simp [allBList]
    | cons e es ih => simp [allBList, ih]

mutual
theorem subst_comp_quant {P : Expr → Prop} (hc : Comp P)
    (hq : ∀ q vs b b', P (.quant q vs b) → (P b → P b') → P (.quant q vs b')) :
    ∀ (e : Expr) (σ : Subst), (∀ kv, kv ∈ σ → P kv.2) → P e →
      (∀ q vs b, P (.quant q vs b) → P b) → P (subst σ e)
  | .leaf l, σ, hσ, he, _ => by
    cases hl : σ.lookup (.leaf l) with
    | some v => rw [subst_of_lookup_some _ _ _ hl]; exact hσ _ (mem_of_lookup_eq_some _ _ _ hl)
    | none => rw [subst_leaf_none _ _ hl]; exact he
  | .app op args, σ, hσ, he, hb => by
    cases hl : σ.lookup (.app op args) with
    | some v => rw [subst_of_lookup_some _ _ _ hl]; exact hσ _ (mem_of_lookup_eq_some _ _ _ hl)
    | none =>
      rw [subst_app_none _ _ _ hl]
      exact hc.rebuild (substList_comp_quant hc hq args σ hσ ((hc.app _ _).1 he) hb)
  | .quant q vs b, σ, hσ, he, hb => by
    cases hl : σ.lookup (.quant q vs b) with
    | some v => rw [subst_of_lookup_some _ _ _ hl]; exact hσ _ (mem_of_lookup_eq_some _ _ _ hl)
    | none =>
      rw [subst_quant_none _ _ _ _ hl]
      refine hq q vs b _ he (fun hpb => ?_)
      split
      · exact hpb
      · exact subst_comp_quant hc hq b (keptUnder vs σ)
          (fun kv hkv => hσ kv ((List.mem_filter.1 hkv).1)) hpb hb
theorem substList_comp_quant {P : Expr → Prop} (hc : Comp P)
    (hq : ∀ q vs b b', P (.quant q vs b) → (P b → P b') → P (.quant q vs b')) :
    ∀ (es : List Expr) (σ : Subst), (∀ kv, kv ∈ σ → P kv.2) → (∀ e, e ∈ es → P e) →
      (∀ q vs b, P (.quant q vs b) → P b) → ∀ e, e ∈ substList σ es → P e
  | [], σ, _, _, _ => by rw [substList_nil]; intro e he; cases he
  | a :: as, σ, hσ, hes, hb => by
    rw [substList_cons]
    intro e he
    rcases List.mem_cons.1 he with rfl | he
    · exact subst_comp_quant hc hq a σ hσ (hes a (by simp)) hb
    · exact substList_comp_quant hc hq as σ hσ (fun e' he' => hes e' (List.mem_cons_of_mem _ he')) hb e he
end

theorem All₂.forall_right {α β : Type} {R : α → β → Prop} {Q : α → Prop} {Q' : β → Prop}
    (himp : ∀ a b, R a b → Q a → Q' b) :
    ∀ {as : List α} {bs : List β}, All₂ R as bs → (∀ a, a ∈ as → Q a) → ∀ b, b ∈ bs → Q' b
  | _, _, .nil, _, b, hb => by cases hb
  | _, _, .cons hab hrest, hq, b, hb => by
    rcases List.mem_cons.1 hb with rfl | hb
    · exact himp _ _ hab (hq _ (by simp))
    · exact All₂.forall_right himp hrest (fun a ha => hq a (List.mem_cons_of_mem _ ha)) b hb

theorem lookup_some_mem {α β : Type} [BEq α] {k : α} {v : β} :
    ∀ {l : List (α × β)}, l.lookup k = some v → ∃ k', (k', v) ∈ l
  | [], h => by simp [List.lookup] at h
  | (k', v') :: l, h => by
    simp only [List.lookup] at h
    split at h
    · simp only [Option.some.injEq] at h; subst h; exact ⟨k', by simp⟩
    · obtain ⟨k'', hk⟩ := lookup_some_mem h
      exact ⟨k'', List.mem_cons_of_mem _ hk⟩

theorem allB_const_irrel {pl : Leaf → Bool} {pv pv' : Var → Bool} {v : Expr} (hv : v.isConstant = true)
    (h : allB pl pv v = true) : allB pl pv' v = true := by
  unfold isConstant at hv
  split at hv <;> first | (simpa [allB] using h) | cases hv

/-- the tables of `cfg` only contain expressions satisfying the leaf predicate -/
theorem tablesOK_allB {cfg : SimpCfg} {pl : Leaf → Bool} {pv : Var → Bool}
    (hc : (∀ b, pl (.boolC b) = true) ∧ (∀ z, pl (.intC z) = true) ∧ (∀ r, pl (.realC r) = true))
    (hct : cfg.constTables = true) (ht : cfg.tablesAll pl = true) :
    TablesOK cfg (fun e => allB pl pv e = true) where
  init f args v hv := by
    simp only [SimpCfg.constTables, Bool.and_eq_true, List.all_eq_true] at hct
    simp only [SimpCfg.tablesAll, Bool.and_eq_true, List.all_eq_true] at ht
    unfold SimpCfg.initialValue at hv
    split at hv
    · rename_i w hw
      simp only [Option.some.injEq] at hv; subst hv
      obtain ⟨k', hk⟩ := lookup_some_mem hw
      exact allB_const_irrel (hct.1 _ hk) (ht.1.1 _ hk)
    · obtain ⟨k', hk⟩ := lookup_some_mem hv
      exact allB_const_irrel (hct.2 _ hk) (ht.1.2 _ hk)
  funs g vs r e' hr hconv := by
    simp only [SimpCfg.tablesAll, Bool.and_eq_true, List.all_eq_true] at ht
    unfold SimpCfg.funLookup at hr
    rw [Option.map_eq_some_iff] at hr
    obtain ⟨ent, hent, rfl⟩ := hr
    have hr' := ht.2 _ (List.mem_of_find?_eq_some hent)
    unfold convResult at hconv
    split at hconv <;> simp only [pure, Except.pure, Except.ok.injEq, reduceCtorEq] at hconv <;>
      subst hconv
    · simp [Expr.bool, allB, hc.1]
    · simp [Expr.int, allB, hc.2.1]
    · simp [Expr.real, allB, hc.2.2]
    · simp [Expr.real, allB, hc.2.2]
    · rename_i heq
      rw [heq] at hr'
      simpa [allB] using hr'

section steps
variable {cfg : SimpCfg} {pl : Leaf → Bool} {pv : Var → Bool}
  (hc : (∀ b, pl (.boolC b) = true) ∧ (∀ z, pl (.intC z) = true) ∧ (∀ r, pl (.realC r) = true))
  (hct : cfg.constTables = true) (ht : cfg.tablesAll pl = true)
include hc hct ht

theorem allB_step_app {op : Op} {args as : List Expr} {e' : Expr}
    (hall : All₂ (fun e e' => allB pl pv e = true → allB pl pv e' = true) args as)
    (hw : walkApp cfg op as = .ok e') (he : allB pl pv (.app op args) = true) :
    allB pl pv e' = true := by
  have hcomp := comp_allB (pv := pv) hc
  exact walkApp_comp hcomp (tablesOK_allB (pv := pv) hc hct ht)
    (All₂.forall_right (fun a b hab ha => hab ha) hall ((hcomp.app _ _).1 he)) hw

omit hc hct ht in
theorem allB_step_all {vs : List Var} {b b' : Expr}
    (hb : allB pl pv b = true → allB pl pv b' = true) (he : allB pl pv (.quant .all vs b) = true) :
    allB pl pv (walkForall vs b') = true := by
  simp only [allB, Bool.and_eq_true, List.all_eq_true] at he
  have hb' := hb he.2
  unfold walkForall
  simp only []
  split
  · exact hb'
  · simp only [allB, Bool.and_eq_true, List.all_eq_true, List.mem_filter]
    exact ⟨fun v hv => he.1 v hv.1, hb'⟩

omit hct ht in
/-- the substituted body of one elimination round -/
theorem allB_elim_subst {vars : List Var} {cs : List Expr} {x : Var} {value rest : Expr}
    (hI : allB pl pv (.app .and cs) = true) (hf : findElim cfg vars [] cs = some (x, value, rest)) :
    allB pl pv (subst [(.leaf (.var x), value)] rest) = true := by
  have hcomp := comp_allB (pv := pv) hc
  obtain ⟨pre', c, post, hcs, hrest, hcand, _⟩ := findElim_some hf
  simp only [List.nil_append] at hcs
  obtain ⟨_, hcform⟩ := elimCandidate_some hcand
  have hall := (hcomp.app _ _).1 hI
  have hcA : allB pl pv c = true := hall c (by rw [hcs]; simp)
  have hval : allB pl pv value = true := by
    rcases hcform with rfl | rfl <;> exact (hcomp.app _ _).1 hcA _ (by simp)
  have hrestA : allB pl pv rest = true := by
    rw [hrest]
    refine hcomp.mkAnd (fun e he => hall e ?_)
    rw [hcs]
    rcases List.mem_append.1 he with he | he
    · exact List.mem_append_left _ he
    · exact List.mem_append_right _ (List.mem_cons_of_mem _ he)
  refine subst_comp_quant hcomp ?_ rest _ ?_ hrestA ?_
  · intro q vs' b0 b1 hq himp
    simp only [allB, Bool.and_eq_true] at hq ⊢
    exact ⟨hq.1, himp hq.2⟩
  · intro kv hkv
    simp only [List.mem_singleton] at hkv; subst hkv; exact hval
  · intro q vs' b0 hq
    simp only [allB, Bool.and_eq_true] at hq
    exact hq.2

omit hct ht in
theorem allB_step_ex {vs : List Var} {b b' e' : Expr} {resimp : Expr → Except SimpErr Expr}
    (hb : allB pl pv b = true → allB pl pv b' = true)
    (hres : ∀ x y, resimp x = .ok y → allB pl pv x = true → allB pl pv y = true)
    (hw : walkExists cfg resimp vs b' = .ok e') (he : allB pl pv (.quant .ex vs b) = true) :
    allB pl pv e' = true := by
  simp only [allB, Bool.and_eq_true, List.all_eq_true] at he
  obtain ⟨vars', b'', hloop, rfl⟩ := walkExists_ok hw
  have hinv := elimLoop_inv (cfg := cfg) (resimp := resimp)
    (fun vars e => allB pl pv e = true ∧ ∀ v, v ∈ vars → pv v = true) ?_ _ _ _ _ _
    ⟨hb he.2, fun v hv => he.1 v (List.mem_filter.1 hv).1⟩ hloop
  · split
    · exact hinv.1
    · simp only [allB, Bool.and_eq_true, List.all_eq_true]
      exact ⟨hinv.2, hinv.1⟩
  · intro vars cs x value rest e1 hI hf hr
    exact ⟨hres _ _ hr (allB_elim_subst hc hI.1 hf),
      fun v hv => hI.2 v (List.mem_filter.1 (List.mem_filter.1 hv).1).1⟩

end steps

/-- simplification only rearranges: leaves and bound variables of the result satisfy whatever all
    leaves / bound variables of the input (and of the tables) satisfy -/
theorem simpF_allB (cfg : SimpCfg) (pl : Leaf → Bool) (pv : Var → Bool)
    (hc : (∀ b, pl (.boolC b) = true) ∧ (∀ z, pl (.intC z) = true) ∧ (∀ r, pl (.realC r) = true))
    (hct : cfg.constTables = true) (ht : cfg.tablesAll pl = true) :
    ∀ n e e', simpF cfg n e = .ok e' → allB pl pv e = true → allB pl pv e' = true := by
  apply simpF_induct cfg (fun e e' => allB pl pv e = true → allB pl pv e' = true)
  · intro l h; exact h
  · intro op args as e' hall hw he; exact allB_step_app hc hct ht hall hw he
  · intro vs b b' hb he; exact allB_step_all hb he
  · intro vs b b' e' resimp hb hres hw he; exact allB_step_ex hc hb hres hw he

end UPVerif.Simp
