import UPVerif.Lemmas.FromPddlAtoms
/-!
Helper lemmas for C21: numeric expressions.  By structural induction on the token tree, what the first reader builds
(`readExpr`) and what the converter builds from the external parser's object (`convExpr ∘ astFexp`) are related by
`FRel`: same free variables, same value under every instantiation in every state.
-/
namespace UPVerif.FromPddl
open UPVerif UPVerif.Expr UPVerif.Pddl

/-! ### inversion of the list functions -/

theorem readExprs_cons_inv {E : REnv} {sc : List Var} {x : Sexp} {xs : List Sexp} {r : List Expr}
    (h : readExprs E sc (x :: xs) = some r) : ∃ e es, readExpr E sc x = some e ∧ readExprs E sc xs = some es ∧ r = e :: es := by
  rw [readExprs] at h
  simp only [Option.bind_eq_bind, Option.bind_eq_some_iff, Option.some.injEq] at h
  obtain ⟨e, he, es, hes, rfl⟩ := h
  exact ⟨e, es, he, hes, rfl⟩

theorem readExprs_nil_inv {E : REnv} {sc : List Var} {r : List Expr} (h : readExprs E sc [] = some r) : r = [] := by
  rw [readExprs] at h; exact (Option.some.inj h).symm

theorem readExprs_length {E : REnv} {sc : List Var} : ∀ {xs : List Sexp} {r : List Expr}, readExprs E sc xs = some r →
    r.length = xs.length
  | [], r, h => by rw [readExprs_nil_inv h]; rfl
  | x :: xs, r, h => by
    obtain ⟨e, es, _, hes, rfl⟩ := readExprs_cons_inv h
    simp [readExprs_length hes]

theorem astFexps_cons_inv {C : PCtx} {x : Sexp} {xs : List Sexp} {r : List Form}
    (h : astFexps C (x :: xs) = some r) : ∃ a as, astFexp C x = some a ∧ astFexps C xs = some as ∧ r = a :: as := by
  rw [astFexps] at h
  simp only [Option.bind_eq_bind, Option.bind_eq_some_iff, Option.some.injEq] at h
  obtain ⟨e, he, es, hes, rfl⟩ := h
  exact ⟨e, es, he, hes, rfl⟩

theorem astFexps_nil_inv {C : PCtx} {r : List Form} (h : astFexps C [] = some r) : r = [] := by
  rw [astFexps] at h; exact (Option.some.inj h).symm

theorem astFexps_length {C : PCtx} : ∀ {xs : List Sexp} {r : List Form}, astFexps C xs = some r → r.length = xs.length
  | [], r, h => by rw [astFexps_nil_inv h]; rfl
  | x :: xs, r, h => by
    obtain ⟨e, es, _, hes, rfl⟩ := astFexps_cons_inv h
    simp [astFexps_length hes]

theorem astTerms_cons_inv {C : PCtx} {x : Sexp} {xs : List Sexp} {r : List Term}
    (h : astTerms C (x :: xs) = some r) : ∃ a as, astTerm C x = some a ∧ astTerms C xs = some as ∧ r = a :: as := by
  rw [astTerms] at h
  simp only [Option.bind_eq_bind, Option.bind_eq_some_iff, Option.some.injEq] at h
  obtain ⟨e, he, es, hes, rfl⟩ := h
  exact ⟨e, es, he, hes, rfl⟩

theorem convTerms_cons_inv {CE : CEnv} {ps : List (String × Ty)} {qv : List Var} {x : Term} {xs : List Term} {r : List Expr}
    (h : convTerms CE ps qv (x :: xs) = some r) :
    ∃ a as, convTerm CE ps qv x = some a ∧ convTerms CE ps qv xs = some as ∧ r = a :: as := by
  rw [convTerms] at h
  simp only [Option.bind_eq_bind, Option.bind_eq_some_iff, Option.some.injEq] at h
  obtain ⟨e, he, es, hes, rfl⟩ := h
  exact ⟨e, es, he, hes, rfl⟩

section
variable {E : REnv} {CE : CEnv} {ps : List (String × Ty)} (ag : EnvAgree E CE ps) (nm : NamesOK E) (C : PCtx)
include ag nm

/-- the arguments of a fluent application -/
theorem terms_agree {sc qv : List Var} (hs : ScopeAgree sc qv) : ∀ (ts : List Sexp) (es : List Expr) (τs : List Term)
    (es' : List Expr), readExprs E sc ts = some es → astTerms C ts = some τs → convTerms CE ps qv τs = some es' → es = es'
  | [], es, τs, es', hU, hA, hQ => by
    rw [astTerms] at hA
    cases hA
    rw [convTerms] at hQ
    cases hQ
    exact readExprs_nil_inv hU
  | t :: ts, es, τs, es', hU, hA, hQ => by
    obtain ⟨e, er, he, her, rfl⟩ := readExprs_cons_inv hU
    obtain ⟨a, ar, ha, har, rfl⟩ := astTerms_cons_inv hA
    obtain ⟨e', er', he', her', rfl⟩ := convTerms_cons_inv hQ
    cases t with
    | list l => rw [astTerm] at ha; cases ha
    | atom s =>
      rw [readExpr] at he
      rw [term_agree ag nm C hs s e e' a he ha he', terms_agree hs ts er ar er' her har her']

/-- `(f t…)`: both readers apply the same declared fluent to the same arguments -/
theorem fluent_app_agree {sc qv : List Var} (hs : ScopeAgree sc qv) (h : String) (rest : List Sexp) (τs : List Term)
    (es : List Expr) (e' : Expr) (f : FluentRef) (hf : E.fluent? h = some f)
    (hU : readExprs E sc rest = some es)
    (hA : astTerms C rest = some τs) (hQ : convFluent CE ps qv h τs = some e') : e' = .app (.fluent f) es := by
  obtain ⟨f', hf', hQ⟩ := convFluent_inv ag hQ
  rw [hf] at hf'
  cases hf'
  simp only [Option.bind_eq_some_iff] at hQ
  obtain ⟨as, has, hif⟩ := hQ
  have := terms_agree ag nm C hs rest es τs as hU hA has
  subst this
  split at hif
  · exact (Option.some.inj hif).symm
  · cases hif

end

/-! ### the branches of the two readers on a parenthesised numeric expression -/

theorem arithOp_cases {h : String} {k : OpK} (hk : arithOp? h = some k) :
    (h = "+" ∧ k = .plus) ∨ (h = "*" ∧ k = .times) ∨ (h = "/" ∧ k = .divide) := by
  unfold arithOp? at hk
  split at hk
  · rename_i h1; exact Or.inl ⟨by simpa using h1, (Option.some.inj hk).symm⟩
  · split at hk
    · rename_i h1; exact Or.inr (Or.inl ⟨by simpa using h1, (Option.some.inj hk).symm⟩)
    · split at hk
      · rename_i h1; exact Or.inr (Or.inr ⟨by simpa using h1, (Option.some.inj hk).symm⟩)
      · cases hk

theorem readList_neg (E : REnv) (sc : List Var) (x : Sexp) :
    readList E sc [.atom "-", x] = (readExprs E sc [x]).bind negate := by
  rw [readList.eq_def]; simp

theorem readList_op (E : REnv) (sc : List Var) (h : String) (rest : List Sexp)
    (hneg : (h == "-" && rest.length == 1) = false) (hop : isOperator h = true) :
    readList E sc (.atom h :: rest) = (readExprs E sc rest).bind (applyOp h) := by
  rw [readList.eq_def]; simp [hneg, hop]

theorem readList_fluent (E : REnv) (sc : List Var) (h : String) (rest : List Sexp) (f : FluentRef)
    (hneg : (h == "-" && rest.length == 1) = false) (hop : isOperator h = false)
    (hq : (h == "exists" || h == "forall") = false) (ht : isTrajOp h = false) (hf : E.fluent? h = some f) :
    readList E sc (.atom h :: rest) =
      (readExprs E sc rest).bind (fun as => if as.length == f.sig.length then some (.app (.fluent f) as) else none) := by
  rw [readList.eq_def]; simp [hneg, hop, hq, ht, hf]

theorem readList_nofluent (E : REnv) (sc : List Var) (h : String) (rest : List Sexp)
    (hneg : (h == "-" && rest.length == 1) = false) (hop : isOperator h = false)
    (hq : (h == "exists" || h == "forall") = false) (hf : E.fluent? h = none) (hr : rest ≠ []) :
    readList E sc (.atom h :: rest) = none := by
  rw [readList.eq_def]
  cases ht : isTrajOp h <;> simp [hneg, hop, hq, ht, hf, hr]

theorem astFexpL_neg (C : PCtx) (x : Sexp) : astFexpL C [.atom "-", x] = (astFexp C x).map (fun a => mkOp .minus [a]) := by
  rw [astFexpL.eq_def]; simp

theorem astFexpL_neg_other (C : PCtx) (rest : List Sexp) (h : rest.length ≠ 1) : astFexpL C (.atom "-" :: rest) = none := by
  rw [astFexpL.eq_def]
  match rest, h with
  | [], _ => simp
  | _ :: _ :: _, _ => simp

theorem astFexpL_arith (C : PCtx) (h : String) (rest : List Sexp) (k : OpK) (hk : arithOp? h = some k) :
    astFexpL C (.atom h :: rest) =
      if rest.length < 2 || (k == .divide && rest.length != 2) then none else (astFexps C rest).map (mkOp k) := by
  have hm : (h == "-") = false := by
    rcases arithOp_cases hk with ⟨rfl, _⟩ | ⟨rfl, _⟩ | ⟨rfl, _⟩ <;> rfl
  rw [astFexpL.eq_def]; simp [hm, hk]

theorem astFexpL_fn (C : PCtx) (h : String) (rest : List Sexp) (hm : (h == "-") = false) (hk : arithOp? h = none) :
    astFexpL C (.atom h :: rest) = if isReserved h then none else (astTerms C rest).map (.fn h) := by
  rw [astFexpL.eq_def]; simp [hm, hk]

theorem mkOp_minus1 (a : Form) : mkOp .minus [a] = .op .minus [a] := by
  unfold mkOp simplifyOperands
  simp [OpK.isMeta, OpK.idem]

theorem conv_minus1 (CE : CEnv) (ps : List (String × Ty)) (qv : List Var) (a : Form) :
    convExpr CE ps qv (.op .minus [a]) = (convExpr CE ps qv a).map negateConv := by
  rw [convExpr, convExprs, convExprs]
  cases convExpr CE ps qv a with
  | none => rfl
  | some x => rfl

end UPVerif.FromPddl
