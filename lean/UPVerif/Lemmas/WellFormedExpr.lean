import UPVerif.Core.WellFormed
import UPVerif.Core.Compile.Common
import UPVerif.Lemmas.SubstBasic
/-!
Helper lemmas for `Props/C08Models.lean`, part 1: the node-local predicates `holds N` (`Core/WellFormed.lean`) through
the expression constructors and walkers the compilers use — `mkAnd` / `mkOr` / `mkNot`, `rebuild`, the substituter,
`removeQuantifiers`, `splitAnd`, `addPre` / `addGoal`, `check_and_simplify_preconditions`.  No Mathlib.
-/
namespace UPVerif.WF
open UPVerif UPVerif.Expr UPVerif.Declared UPVerif.Sim UPVerif.Compile

/-! ### `holds` -/

theorem holdsList_iff (N : NodePred) : ∀ l : List Expr, holdsList N l = true ↔ ∀ e ∈ l, holds N e = true
  | [] => by simp [holdsList]
  | e :: es => by simp [holdsList, holdsList_iff N es]

theorem holds_leaf (N : NodePred) (l : Leaf) : holds N (.leaf l) = N.leaf l := by rw [holds]

theorem holds_app (N : NodePred) (op : Op) (args : List Expr) :
    holds N (.app op args) = true ↔ N.op op args.length = true ∧ ∀ e ∈ args, holds N e = true := by
  rw [holds, Bool.and_eq_true, holdsList_iff]

theorem holds_quant (N : NodePred) (q : Quant) (vs : List Var) (b : Expr) :
    holds N (.quant q vs b) = true ↔ N.quant q vs = true ∧ holds N b = true := by
  rw [holds, Bool.and_eq_true]

/-- a weaker test passes wherever a stronger one does -/
theorem holds_imp {N N' : NodePred} (hl : ∀ l, N.leaf l = true → N'.leaf l = true)
    (ho : ∀ o n, N.op o n = true → N'.op o n = true) (hq : ∀ q vs, N.quant q vs = true → N'.quant q vs = true) :
    ∀ e, holds N e = true → holds N' e = true
  | .leaf l, h => by rw [holds_leaf] at *; exact hl l h
  | .app op args, h => by
    rw [holds_app] at *
    exact ⟨ho _ _ h.1, fun e he => holds_imp hl ho hq e (h.2 e he)⟩
  | .quant q vs b, h => by
    rw [holds_quant] at *
    exact ⟨hq _ _ h.1, holds_imp hl ho hq b h.2⟩

/-- the numeric and Boolean constants pass -/
structure NodePred.Consts (N : NodePred) : Prop where
  bool : ∀ b, N.leaf (.boolC b) = true
  int : ∀ z, N.leaf (.intC z) = true
  real : ∀ r, N.leaf (.realC r) = true

theorem holds_tt {N : NodePred} (hc : N.Consts) : holds N Expr.tt = true := by rw [Expr.tt, holds_leaf]; exact hc.bool _
theorem holds_ff {N : NodePred} (hc : N.Consts) : holds N Expr.ff = true := by rw [Expr.ff, holds_leaf]; exact hc.bool _

theorem holds_mkAnd {N : NodePred} (hc : N.Consts) {l : List Expr} (hop : N.op .and l.length = true)
    (h : ∀ e ∈ l, holds N e = true) : holds N (mkAnd l) = true := by
  match l, hop, h with
  | [], _, _ => exact holds_tt hc
  | [x], _, h => exact h x (by simp)
  | x :: y :: r, hop, h => show holds N (.app .and (x :: y :: r)) = true; rw [holds_app]; exact ⟨hop, h⟩

theorem holds_mkOr {N : NodePred} (hc : N.Consts) {l : List Expr} (hop : N.op .or l.length = true)
    (h : ∀ e ∈ l, holds N e = true) : holds N (mkOr l) = true := by
  match l, hop, h with
  | [], _, _ => exact holds_ff hc
  | [x], _, h => exact h x (by simp)
  | x :: y :: r, hop, h => show holds N (.app .or (x :: y :: r)) = true; rw [holds_app]; exact ⟨hop, h⟩

theorem holds_mkNot {N : NodePred} (hop : N.op .not 1 = true) {e : Expr} (h : holds N e = true) :
    holds N (mkNot e) = true := by
  unfold mkNot
  split
  · rename_i x
    rw [holds_app] at h
    exact h.2 x (by simp)
  · rw [holds_app]; exact ⟨hop, by simpa using h⟩

theorem holds_of_mkAnd_mem {N : NodePred} {l : List Expr} (h : holds N (mkAnd l) = true) (hl : 2 ≤ l.length) :
    ∀ e ∈ l, holds N e = true := by
  match l, hl, h with
  | x :: y :: r, _, h => have h' : holds N (.app .and (x :: y :: r)) = true := h; rw [holds_app] at h'; exact h'.2

/-- `IdentityDagWalker.walk_<op>`: the node is rebuilt with the same operator and as many arguments, or collapses -/
theorem holds_rebuild {N : NodePred} (hc : N.Consts) {op : Op} {as : List Expr} (hop : N.op op as.length = true)
    (h : ∀ a ∈ as, holds N a = true) : holds N (rebuild op as) = true := by
  unfold rebuild
  split
  · exact holds_mkAnd hc hop h
  · exact holds_mkOr hc hop h
  · exact holds_mkNot hop (h _ (by simp))
  · unfold mkPlus
    split
    · rw [Expr.int, holds_leaf]; exact hc.int _
    · exact h _ (by simp)
    · rw [holds_app]; exact ⟨hop, h⟩
  · unfold mkTimes
    split
    · rw [Expr.int, holds_leaf]; exact hc.int _
    · exact h _ (by simp)
    · rw [holds_app]; exact ⟨hop, h⟩
  · rw [holds_app]; exact ⟨hop, h⟩

/-! ### the substituter -/

theorem substList_length (σ : Subst) : ∀ es : List Expr, (substList σ es).length = es.length
  | [] => by rw [substList_nil]
  | e :: es => by rw [substList_cons, List.length_cons, List.length_cons, substList_length σ es]

mutual
theorem holds_subst {N : NodePred} (hc : N.Consts) : ∀ (e : Expr) (σ : Subst), (∀ kv ∈ σ, holds N kv.2 = true) →
    holds N e = true → holds N (subst σ e) = true
  | .leaf l, σ, hσ, h => by
    cases hl : σ.lookup (.leaf l) with
    | some v => rw [subst_of_lookup_some _ _ _ hl]; exact hσ _ (mem_of_lookup_eq_some _ _ _ hl)
    | none => rw [subst_leaf_none _ _ hl]; exact h
  | .app op args, σ, hσ, h => by
    cases hl : σ.lookup (.app op args) with
    | some v => rw [subst_of_lookup_some _ _ _ hl]; exact hσ _ (mem_of_lookup_eq_some _ _ _ hl)
    | none =>
      rw [subst_app_none _ _ _ hl]
      rw [holds_app] at h
      exact holds_rebuild hc (by rw [substList_length]; exact h.1) (holdsList_subst hc args σ hσ h.2)
  | .quant q vs b, σ, hσ, h => by
    cases hl : σ.lookup (.quant q vs b) with
    | some v => rw [subst_of_lookup_some _ _ _ hl]; exact hσ _ (mem_of_lookup_eq_some _ _ _ hl)
    | none =>
      rw [subst_quant_none _ _ _ _ hl]
      rw [holds_quant] at *
      refine ⟨h.1, ?_⟩
      split
      · exact h.2
      · exact holds_subst hc b _ (fun kv hkv => hσ kv (List.mem_filter.1 hkv).1) h.2
theorem holdsList_subst {N : NodePred} (hc : N.Consts) : ∀ (es : List Expr) (σ : Subst), (∀ kv ∈ σ, holds N kv.2 = true) →
    (∀ e ∈ es, holds N e = true) → ∀ e' ∈ substList σ es, holds N e' = true
  | [], σ, _, _ => by rw [substList_nil]; intro e' he'; cases he'
  | e :: es, σ, hσ, h => by
    rw [substList_cons]
    intro e' he'
    rcases List.mem_cons.1 he' with rfl | he'
    · exact holds_subst hc e σ hσ (h e (by simp))
    · exact holdsList_subst hc es σ hσ (fun x hx => h x (List.mem_cons_of_mem _ hx)) e' he'
end

theorem holds_substE {N : NodePred} (hc : N.Consts) (σ : Subst) (hσ : ∀ kv ∈ σ, holds N kv.2 = true) (e : Expr)
    (h : holds N e = true) : holds N (substE σ e) = true := by
  unfold substE
  split
  · exact h
  · exact holds_subst hc e σ hσ h

/-! ### objects, instances -/

theorem mem_cartesian {α : Type} : ∀ (ds : List (List α)) (l : List α), l ∈ cartesian ds →
    l.length = ds.length ∧ ∀ x ∈ l, ∃ d ∈ ds, x ∈ d
  | [], l, h => by
    simp only [cartesian, List.mem_singleton] at h
    subst h
    exact ⟨rfl, fun x hx => by cases hx⟩
  | d :: ds, l, h => by
    simp only [cartesian, List.mem_flatMap, List.mem_map] at h
    obtain ⟨x, hx, r, hr, rfl⟩ := h
    obtain ⟨hlen, hmem⟩ := mem_cartesian ds r hr
    refine ⟨by simp [hlen], fun y hy => ?_⟩
    rcases List.mem_cons.1 hy with rfl | hy
    · exact ⟨d, by simp, hx⟩
    · obtain ⟨d', hd', hyd⟩ := hmem y hy
      exact ⟨d', List.mem_cons_of_mem _ hd', hyd⟩

theorem lookup_of_mem_fst {α β : Type} [BEq α] [LawfulBEq α] : ∀ (l : List (α × β)) (a : α), a ∈ l.map (·.1) →
    ∃ b, l.lookup a = some b ∧ (a, b) ∈ l
  | [], a, h => by cases h
  | (a', b') :: l, a, h => by
    by_cases hk : (a == a') = true
    · have : a = a' := by simpa using hk
      subst this
      exact ⟨b', by simp [List.lookup], by simp⟩
    · have hk' : (a == a') = false := by simpa using hk
      have hne : a ≠ a' := by simpa using hk'
      simp only [List.map_cons, List.mem_cons] at h
      rcases h with h | h
      · exact absurd h hne
      · obtain ⟨b, hb, hm⟩ := lookup_of_mem_fst l a h
        exact ⟨b, by simp [List.lookup, hk', hb], List.mem_cons_of_mem _ hm⟩

/-- an object of a parameter / variable domain is a declared object, and `ObjectExp` of it names that declaration -/
theorem objExpr_declared (P : Problem) {ty : Ty} {o : String} (h : o ∈ tyDomain P ty) :
    ∃ t, objExpr P o = .leaf (.obj o t) ∧ (o, t) ∈ P.objects := by
  have hmem : o ∈ P.objects.map (·.1) := by
    cases ty with
    | user t =>
      simp only [tyDomain, Problem.objectsOf, List.mem_map, List.mem_filter] at h
      obtain ⟨ot, ⟨hot, _⟩, rfl⟩ := h
      exact List.mem_map.2 ⟨ot, hot, rfl⟩
    | _ => simp [tyDomain] at h
  obtain ⟨t, hl, hm⟩ := lookup_of_mem_fst P.objects o hmem
  exact ⟨t, by simp [objExpr, hl], hm⟩

/-- the test accepts `ObjectExp` of every object of every domain of `P` -/
def NodePred.Objs (N : NodePred) (P : Problem) : Prop :=
  ∀ (ty : Ty) (o : String), o ∈ tyDomain P ty → holds N (objExpr P o) = true

/-! ### `ExpressionQuantifiersRemover.remove_quantifiers` -/

theorem noQuant_consts {N : NodePred} (hc : N.Consts) : N.noQuant.Consts := ⟨hc.bool, hc.int, hc.real⟩

theorem holds_of_noQuant {N : NodePred} : ∀ e, holds N.noQuant e = true → holds N e = true :=
  holds_imp (fun _ h => h) (fun _ _ h => h) (fun _ _ h => by simp [NodePred.noQuant] at h)

theorem removeQuantifiersList_length (P : Problem) : ∀ es : List Expr, (removeQuantifiersList P es).length = es.length
  | [] => by rw [removeQuantifiersList]
  | e :: es => by rw [removeQuantifiersList, List.length_cons, List.length_cons, removeQuantifiersList_length P es]

mutual
/-- the expansion of the quantifiers leaves no quantifier, and nothing that was not there except the domains' objects
    and the AND / OR nodes of the expansion -/
theorem holds_removeQuantifiers {N : NodePred} (hc : N.Consts) (P : Problem) (hobj : N.Objs P)
    (hand : ∀ n, N.op .and n = true) (hor : ∀ n, N.op .or n = true) :
    ∀ e, holds N e = true → holds N.noQuant (removeQuantifiers P e) = true
  | .leaf l, h => by rw [removeQuantifiers]; rw [holds_leaf] at *; exact h
  | .app op args, h => by
    rw [removeQuantifiers]
    rw [holds_app] at h
    exact holds_rebuild (noQuant_consts hc) (by rw [removeQuantifiersList_length]; exact h.1)
      (holdsList_removeQuantifiers hc P hobj hand hor args h.2)
  | .quant q vs b, h => by
    rw [holds_quant] at h
    have hb := holds_removeQuantifiers hc P hobj hand hor b h.2
    simp only [removeQuantifiers]
    have hinst : ∀ x ∈ (cartesian (vs.map (fun v => tyDomain P v.ty))).map (fun objs =>
        substE (((vs.zip objs).map (fun vo => (Expr.leaf (.var vo.1), objExpr P vo.2))).reverse)
          (removeQuantifiers P b)), holds N.noQuant x = true := by
      intro x hx
      obtain ⟨objs, hobjs, rfl⟩ := List.mem_map.1 hx
      apply holds_substE (noQuant_consts hc) _ _ _ hb
      intro kv hkv
      obtain ⟨vo, hvo, rfl⟩ := List.mem_map.1 (List.mem_reverse.1 hkv)
      obtain ⟨d, hd, hod⟩ := (mem_cartesian _ _ hobjs).2 vo.2 (List.of_mem_zip hvo).2
      obtain ⟨v, _, rfl⟩ := List.mem_map.1 hd
      have := hobj v.ty vo.2 hod
      obtain ⟨t, ht, _⟩ := objExpr_declared P hod
      rw [ht, holds_leaf] at this ⊢
      exact this
    cases q with
    | ex => exact holds_mkOr (noQuant_consts hc) (hor _) hinst
    | all => exact holds_mkAnd (noQuant_consts hc) (hand _) hinst
theorem holdsList_removeQuantifiers {N : NodePred} (hc : N.Consts) (P : Problem) (hobj : N.Objs P)
    (hand : ∀ n, N.op .and n = true) (hor : ∀ n, N.op .or n = true) :
    ∀ es, (∀ e ∈ es, holds N e = true) → ∀ e' ∈ removeQuantifiersList P es, holds N.noQuant e' = true
  | [], _ => by rw [removeQuantifiersList]; intro e' he'; cases he'
  | e :: es, h => by
    rw [removeQuantifiersList]
    intro e' he'
    rcases List.mem_cons.1 he' with rfl | he'
    · exact holds_removeQuantifiers hc P hobj hand hor e (h e (by simp))
    · exact holdsList_removeQuantifiers hc P hobj hand hor es (fun x hx => h x (List.mem_cons_of_mem _ hx)) e' he'
end

/-! ### the conjunct lists of the compilers -/

theorem holds_splitAnd {N : NodePred} {e : Expr} (h : holds N e = true) : ∀ x ∈ splitAnd e, holds N x = true := by
  unfold splitAnd
  split
  · rw [holds_app] at h; exact h.2
  · intro x hx; simp at hx; subst hx; exact h

theorem mem_foldl_addPre : ∀ (l acc : List Expr) (x : Expr), x ∈ l.foldl addPre acc → x ∈ acc ∨ x ∈ l
  | [], acc, x, h => .inl h
  | e :: l, acc, x, h => by
    rw [List.foldl_cons] at h
    rcases mem_foldl_addPre l _ x h with h | h
    · unfold addPre at h
      split at h
      · exact .inl h
      · split at h
        · exact .inl h
        · rcases List.mem_append.1 h with h | h
          · exact .inl h
          · simp at h; subst h; exact .inr (by simp)
    · exact .inr (List.mem_cons_of_mem _ h)

theorem mem_addPre {pre : List Expr} {e x : Expr} (h : x ∈ addPre pre e) : x ∈ pre ∨ x = e := by
  have := mem_foldl_addPre [e] pre x (by simpa using h)
  simpa using this

theorem mem_foldl_addGoal : ∀ (l acc : List Expr) (x : Expr), x ∈ l.foldl addGoal acc → x ∈ acc ∨ x ∈ l
  | [], acc, x, h => .inl h
  | e :: l, acc, x, h => by
    rw [List.foldl_cons] at h
    rcases mem_foldl_addGoal l _ x h with h | h
    · unfold addGoal at h
      split at h
      · exact .inl h
      · rcases List.mem_append.1 h with h | h
        · exact .inl h
        · simp at h; subst h; exact .inr (by simp)
    · exact .inr (List.mem_cons_of_mem _ h)

theorem mem_addGoal {gs : List Expr} {e x : Expr} (h : x ∈ addGoal gs e) : x ∈ gs ∨ x = e := by
  have := mem_foldl_addGoal [e] gs x (by simpa using h)
  simpa using this

/-- `check_and_simplify_preconditions`: the new preconditions are conjuncts of the simplified conjunction -/
theorem holds_simplifyPreWith {N : NodePred} (hc : N.Consts) (hand : ∀ n, N.op .and n = true) {simp : Expr → Expr}
    (hs : ∀ e, holds N e = true → holds N (simp e) = true) {pre pre' : List Expr}
    (h : simplifyPreWith simp pre = some pre') (hp : ∀ e ∈ pre, holds N e = true) : ∀ x ∈ pre', holds N x = true := by
  unfold simplifyPreWith at h
  split at h
  · simp only [Option.some.injEq] at h; subst h; intro x hx; cases hx
  · have hall := hs _ (holds_mkAnd hc (hand _) hp)
    split at h
    · split at h
      · simp only [Option.some.injEq] at h; subst h; intro x hx; cases hx
      · cases h
    · rename_i as heq
      simp only [Option.some.injEq] at h; subst h
      rw [heq, holds_app] at hall
      exact hall.2
    · simp only [Option.some.injEq] at h; subst h
      intro x hx; simp at hx; subst hx; exact hall

end UPVerif.WF
