import UPVerif.Core.Result
/-! helper lemmas for C08 (CompilerResult): composition of map-back functions -/
namespace UPVerif.Result

theorem foldl_bind_none {α : Type} (fs : List (α → Option α)) :
    fs.foldl (fun acc f => acc.bind f) (none : Option α) = none := by
  induction fs with
  | nil => rfl
  | cons f fs ih => simpa [List.foldl] using ih

theorem composeBack_cons {α : Type} (f : α → Option α) (fs : List (α → Option α)) (a : α) :
    composeBack (f :: fs) a = (f a).bind (composeBack fs) := by
  unfold composeBack
  simp only [List.foldl, Option.bind_some]
  cases h : f a with
  | none => simp [foldl_bind_none]
  | some b => simp

/-- mapping a plan back through the composed function = mapping it back stage by stage -/
theorem filterMap_composeBack {α : Type} : ∀ (fs : List (α → Option α)) (plan : List α),
    plan.filterMap (composeBack fs) = fs.foldl (fun p f => p.filterMap f) plan
  | [], plan => by
    have : composeBack ([] : List (α → Option α)) = some := by funext a; rfl
    simp [this]
  | f :: fs, plan => by
    have : composeBack (f :: fs) = fun a => (f a).bind (composeBack fs) := by
      funext a; exact composeBack_cons f fs a
    rw [this, List.foldl, ← filterMap_composeBack fs (plan.filterMap f), List.filterMap_filterMap]

end UPVerif.Result
