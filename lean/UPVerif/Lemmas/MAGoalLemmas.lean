import UPVerif.Lemmas.MASem
import UPVerif.Lemmas.DenLemmas
import UPVerif.Lemmas.MADisjLemmas
/-!
Helper lemmas for `Props/C37.lean`, goal side: an agent reads an expression that mentions none of
its own fluents bare exactly as the global name space does; effects that reset fake fluents.
-/
namespace UPVerif.MA
open UPVerif UPVerif.Expr UPVerif.Sim UPVerif.MASpec

/-- the fluent an operator applies -/
def opFluent : Op → List FluentRef
  | .fluent f => [f]
  | _ => []

mutual
/-- fluents applied anywhere in an expression -/
def fluentRefs : Expr → List FluentRef
  | .leaf _ => []
  | .app op args => opFluent op ++ fluentRefsList args
  | .quant _ _ b => fluentRefs b
def fluentRefsList : List Expr → List FluentRef
  | [] => []
  | e :: es => fluentRefs e ++ fluentRefsList es
end

theorem denOp_congr (ι ι' : Interp) (hfn : ι'.fn = ι.fn) (op : Op) (vs : List Val)
    (h : ∀ f, op = .fluent f → ι'.fl f vs = ι.fl f vs) : denOp ι' op vs = denOp ι op vs := by
  cases op with
  | fluent f => simp only [denOp]; exact h f rfl
  | ifun g => simp only [denOp, hfn]
  | _ => first | rfl | (unfold denOp; split <;> first | rfl | simp_all)

mutual
/-- `den` depends on the interpretation of fluents only through the fluents the expression applies -/
theorem den_congr_fl (ι ι' : Interp) (hfn : ι'.fn = ι.fn) (hpar : ι'.par = ι.par) (hdom : ι'.dom = ι.dom) :
    ∀ (e : Expr) (ρ : VEnv), (∀ f ∈ fluentRefs e, ∀ vs, ι'.fl f vs = ι.fl f vs) → den ι' ρ e = den ι ρ e
  | .leaf l, ρ, _ => by
    rw [den_leaf, den_leaf]
    cases l <;> simp [denLeaf, hpar]
  | .app op as, ρ, h => by
    rw [den_app, den_app, denList_congr_fl ι ι' hfn hpar hdom as ρ
      (fun f hf vs => h f (by rw [fluentRefs]; exact List.mem_append_right _ hf) vs)]
    cases denList ι ρ as with
    | none => rfl
    | some vs =>
      simp only [Option.bind_some]
      apply denOp_congr ι ι' hfn
      intro f hf
      subst hf
      exact h f (by rw [fluentRefs]; simp [opFluent]) vs
  | .quant q vs b, ρ, h => by
    rw [den_quant, den_quant, assignments_congr ι ι' hdom]
    congr 2
    apply List.map_congr_left
    intro a _
    exact den_congr_fl ι ι' hfn hpar hdom b _ (fun f hf => h f (by rw [fluentRefs]; exact hf))
theorem denList_congr_fl (ι ι' : Interp) (hfn : ι'.fn = ι.fn) (hpar : ι'.par = ι.par) (hdom : ι'.dom = ι.dom) :
    ∀ (es : List Expr) (ρ : VEnv), (∀ f ∈ fluentRefsList es, ∀ vs, ι'.fl f vs = ι.fl f vs) →
      denList ι' ρ es = denList ι ρ es
  | [], _, _ => by rw [denList_nil, denList_nil]
  | e :: es, ρ, h => by
    rw [denList_cons, denList_cons,
      den_congr_fl ι ι' hfn hpar hdom e ρ (fun f hf => h f (by rw [fluentRefsList]; exact List.mem_append_left _ hf)),
      denList_congr_fl ι ι' hfn hpar hdom es ρ (fun f hf => h f (by rw [fluentRefsList]; exact List.mem_append_right _ hf))]
end

/-- an agent reads an expression that applies none of its own fluents as the global name space does -/
theorem bval_goalView {V : View} {g : GState} {e : Expr} (h : ∀ f ∈ fluentRefs e, f ∉ V.own) :
    bval V g e = bval goalView g e := by
  unfold bval bden
  congr 1
  apply den_congr_fl (goalView.interp g) (V.interp g) rfl rfl rfl
  intro f hf vs
  have hn : f ∉ V.own := h f hf
  simp [View.interp, View.key, hn, goalView]

theorem holds_goalView {V : View} {g : GState} {e : Expr} (h : ∀ f ∈ fluentRefs e, f ∉ V.own) :
    holds V g e = goalHolds g e := by
  unfold goalHolds
  rw [holds_eq_lval, holds_eq_lval]
  unfold lval
  have := bval_goalView (g := g) h
  unfold bval at this
  rw [this]

/-! ### effects that reset fake fluents -/

/-- what the reset effects fire as -/
def resetsOf (K : List GKey) : List Fired := K.map (fun k => Fired.setB k false)

theorem asg_resets (K : List GKey) (k : GKey) :
    Spec.asgB (resetsOf K) k = List.replicate (K.count k) false ∧
    Spec.asgV (resetsOf K) k = [] ∧ Spec.deltas (resetsOf K) k = [] := by
  induction K with
  | nil => simp [resetsOf]
  | cons k' K ih =>
    have e : resetsOf (k' :: K) = Fired.setB k' false :: resetsOf K := rfl
    rw [e, asgB_cons, asgV_cons, deltas_cons, ih.1, ih.2.1, ih.2.2]
    by_cases hk : k' = k
    · subst hk
      simp [Spec.asgB, Spec.asgV, Spec.deltas, Spec.selB, Spec.selV, Spec.selD, List.replicate_succ]
    · simp [Spec.asgB, Spec.asgV, Spec.deltas, Spec.selB, Spec.selV, Spec.selD, hk]

/-- fired effects that do not touch the keys `K`, followed by resets of `K`: consistency is
    unchanged, the keys of `K` end false, every other key is as without the resets -/
theorem succ_with_resets {g : GState} {F : List Fired} {K : List GKey} (hfresh : ∀ f ∈ F, f.key ∉ K) :
    (Spec.Cons g (F ++ resetsOf K) ↔ Spec.Cons g F) ∧
    ∀ k, Spec.succGet g (F ++ resetsOf K) k = if k ∈ K then some (.b false) else Spec.succGet g F k := by
  have hK : ∀ k, k ∈ K → Spec.asgB F k = [] ∧ Spec.asgV F k = [] ∧ Spec.deltas F k = [] := by
    intro k hk
    exact untouched F k (fun f hf e => hfresh f hf (e ▸ hk))
  have hnK : ∀ k, k ∉ K → Spec.asgB (resetsOf K) k = [] ∧ Spec.asgV (resetsOf K) k = [] ∧ Spec.deltas (resetsOf K) k = [] := by
    intro k hk
    have := asg_resets K k
    rw [List.count_eq_zero_of_not_mem hk] at this
    simpa using this
  constructor
  · rw [cons_iff, cons_iff]
    apply forall_congr'
    intro k
    by_cases hk : k ∈ K
    · obtain ⟨h1, h2, h3⟩ := hK k hk
      obtain ⟨r1, r2, r3⟩ := asg_resets K k
      unfold Spec.ConsK
      simp [h1, h2, h3, r2, r3]
    · obtain ⟨r1, r2, r3⟩ := hnK k hk
      unfold Spec.ConsK
      simp [r1, r2, r3]
  · intro k
    unfold Spec.succGet Spec.newVal
    by_cases hk : k ∈ K
    · obtain ⟨h1, h2, h3⟩ := hK k hk
      obtain ⟨r1, r2, r3⟩ := asg_resets K k
      have hpos : 0 < K.count k := List.count_pos_iff.2 hk
      obtain ⟨n, hn⟩ := Nat.exists_eq_succ_of_ne_zero (Nat.pos_iff_ne_zero.1 hpos)
      simp [h1, r1, hk, hn, List.replicate_succ]
    · obtain ⟨r1, r2, r3⟩ := hnK k hk
      simp [r1, r2, r3, hk]

theorem resetEffect_evalEff (V : View) (g : GState) (f : FluentRef) (hb : f.ty = .bool) :
    MASpec.evalEff V g (resetEffect f) = some (some (.setB (V.key (f, [])) false)) := by
  have ht : target V g (resetEffect f) = some (V.key (f, [])) := by
    simp [target, resetEffect, mkFluent, denList]
  have hc : (resetEffect f).isConditional = false := by
    simp [resetEffect, Effect.isConditional, Expr.isTrue, tt]
  have hv : value V g (resetEffect f).value = some (.b false) := by
    simp [resetEffect, value, ff, den, denLeaf]
  unfold MASpec.evalEff
  rw [ht]
  simp only [hc, Bool.false_eq_true, if_false]
  unfold firing
  rw [hv]
  simp [resetEffect, targetIsBool, mkFluent, hb]

theorem fired_resets (V : View) (g : GState) : ∀ (fakes : List FluentRef), (∀ f ∈ fakes, f.ty = .bool) →
    fired V g (fakes.map resetEffect) = some (resetsOf (fakes.map (fun f => V.key (f, []))))
  | [], _ => rfl
  | f :: fs, h => by
    have ih := fired_resets V g fs (fun x hx => h x (List.mem_cons_of_mem _ hx))
    simp only [List.map_cons, fired, resetEffect_evalEff V g f (h f (List.mem_cons_self ..)), ih]
    rfl

/-- a split action with the resets appended: the successor is the one without the resets, except
    that every fake fluent ends false -/
theorem successor_resets {V : View} {g : GState} {pre : List Expr} {E : List Effect} {F : List Fired}
    {fakes : List FluentRef} (hb : ∀ f ∈ fakes, f.ty = .bool) (hF : fired V g E = some F)
    (hfresh : ∀ f ∈ F, f.key ∉ fakes.map (fun f => V.key (f, []))) :
    successor V g pre (E ++ fakes.map resetEffect) =
      (successor V g pre E).map (fun s k => if k ∈ fakes.map (fun f => V.key (f, [])) then some (.b false) else s k) := by
  unfold successor
  rw [fired_append, hF, fired_resets V g fakes hb]
  obtain ⟨h1, h2⟩ := succ_with_resets (g := g) hfresh
  split
  · simp only
    by_cases hc : Spec.Cons g F
    · simp only [h1.2 hc, hc, if_true, Option.map_some]
      congr 1
      funext k
      exact h2 k
    · have : ¬ Spec.Cons g (F ++ resetsOf (fakes.map (fun f => V.key (f, [])))) := fun x => hc (h1.1 x)
      simp [hc, this]
  · rfl

/-! ### fake actions -/

theorem fakeEffect_evalEff (V : View) (g : GState) (n : String) :
    MASpec.evalEff V g (fakeEffect n) = some (some (.setB (V.key (fakeRef n, [])) true)) := by
  have ht : target V g (fakeEffect n) = some (V.key (fakeRef n, [])) := by
    simp [target, fakeEffect, fakeExp, mkFluent, denList]
  have hc : (fakeEffect n).isConditional = false := by
    simp [fakeEffect, Effect.isConditional, Expr.isTrue, tt]
  have hv : value V g (fakeEffect n).value = some (.b true) := by
    simp [fakeEffect, value, tt, den, denLeaf]
  unfold MASpec.evalEff
  rw [ht]
  simp only [hc, Bool.false_eq_true, if_false]
  unfold firing
  rw [hv]
  simp [fakeEffect, fakeExp, targetIsBool, mkFluent, fakeRef]

/-- a fake action changes its fake fluent, and nothing else -/
theorem successor_fake (V : View) (g : GState) (pre : List Expr) (n : String) :
    successor V g pre [fakeEffect n] =
      if pre.all (holds V g) then
        some (fun k => if k = V.key (fakeRef n, []) then some (.b true) else g k)
      else none := by
  unfold successor
  split
  · simp only [fired, fakeEffect_evalEff]
    have hc : Spec.Cons g [Fired.setB (V.key (fakeRef n, [])) true] := by
      intro f hf
      have : f = Fired.setB (V.key (fakeRef n, [])) true := by simpa using hf
      subst this
      simp [Spec.ConsK, Spec.asgB, Spec.asgV, Spec.deltas, Spec.selB, Spec.selV, Spec.selD, Fired.key]
    simp only [hc, if_true]
    congr 1
    funext k
    unfold Spec.succGet Spec.newVal
    by_cases hk : k = V.key (fakeRef n, [])
    · subst hk
      simp [Spec.asgB, Spec.selB]
    · have hk' : ¬ V.key (fakeRef n, []) = k := fun e => hk e.symm
      have hv : List.filterMap (Spec.selV k) [Fired.setB (V.key (fakeRef n, [])) true] = [] := by
        simp [Spec.selV]
      simp [Spec.asgB, Spec.asgV, Spec.deltas, Spec.selB, Spec.selD, hk, hk', hv]
  · rfl

theorem staticAdd_fake (n : String) : staticAdd [fakeEffect n] ⟨[], []⟩ = some ⟨[], []⟩ := by
  simp [staticAdd, staticStep, fakeEffect, fakeExp, mkFluent, fluentIsBool, fakeRef, Effect.isConditional, Expr.isTrue, tt]

theorem splitEffects_fake (simp dnfOf : Expr → Expr) (n : String) :
    splitEffects simp dnfOf [fakeEffect n] ⟨[], []⟩ [] = some [fakeEffect n] := by
  have hc : (fakeEffect n).isConditional = false := by
    simp [fakeEffect, Effect.isConditional, Expr.isTrue, tt]
  have : splitEffect simp dnfOf (fakeEffect n) = [fakeEffect n] := by
    simp [splitEffect, hc]
  simp [splitEffects, this, staticAdd_fake]

end UPVerif.MA
