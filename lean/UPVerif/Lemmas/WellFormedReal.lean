import UPVerif.Drv.C06
import UPVerif.Lemmas.WellFormedSimp
import UPVerif.Lemmas.WellFormedDnf
/-!
Helper lemmas for `Props/C08Models.lean`, part 12: the simplifier the checks hand to the compiler models
(`Drv.C06.simpTotal`: property C11's `simplify` configured like `env.simplifier`, i.e. without a problem) discharges
the hypotheses "introduces no new symbol" and "creates no quantifier" of the well-formedness theorems.  No Mathlib.
-/
namespace UPVerif.WF
open UPVerif UPVerif.Expr UPVerif.Compile UPVerif.SimpF

theorem simpTotal_holds {N : NodePred} (hc : N.Consts) (ho : OpenOps N) (hq : QuantMono N)
    (htm : ∀ s, N.leaf (.timing s) = true) (E : TypeEnv) {e : Expr} (he : holds N e = true) :
    holds N (Drv.C06.simpTotal (SimpCfg.empty E) e) = true := by
  unfold Drv.C06.simpTotal
  split
  · rename_i e' h
    exact simplify_holds hc ho hq E h he
  · rw [holds_leaf]; exact htm _

theorem simpTotal_SimpWF (E : TypeEnv) : SimpWF (Drv.C06.simpTotal (SimpCfg.empty E)) :=
  fun D ps _ h => simpTotal_holds (wfNode_consts D ps) (openOps_wfNode D ps) (quantMono_wfNode D ps) (fun _ => rfl) E h

theorem simpTotal_SimpQF (E : TypeEnv) : SimpQF (Drv.C06.simpTotal (SimpCfg.empty E)) :=
  fun _ h => simpTotal_holds (noQuant_consts anyNode_consts) openOps_noQuant quantMono_noQuant (fun _ => rfl) E h

end UPVerif.WF
