import UPVerif.Lemmas.TTMerge
/-!
Helper lemmas for `Props/C05.lean` / `Props/C04.lean`: `_apply_effects` (evaluation interleaved with
the accumulator loop) succeeds exactly when the instant has a successor in the sense of
`Spec/Temporal.lean`, and then produces a state that reads as that successor.
-/
namespace UPVerif.TT
open UPVerif UPVerif.Expr UPVerif.Sim UPVerif.Spec UPVerif.Spec.Temporal

/-- whatever `_apply_effect` yields is what the effect instance evaluates to in the pre-state -/
theorem evalEffS_of_evalEff {c : EvalCtx} {upd : List (GKey × Val)} {σ : Subst} {e : Effect} {r : Option Fired}
    (h : evalEff c upd σ e = .ok r) : evalEffS c σ e = .ok r := by
  unfold evalEff at h
  unfold evalEffS
  cases hfl : substE σ e.fluent with
  | leaf l => rw [hfl] at h; cases h
  | quant q vs b => rw [hfl] at h; cases h
  | app op args =>
    rw [hfl] at h
    cases op with
    | fluent f =>
      simp only at h ⊢
      cases hvs : evalArgs c args with
      | error x => rw [hvs] at h; cases h
      | ok vs =>
        rw [hvs] at h
        simp only at h ⊢
        cases hc : evalBool c (substE σ e.cond) with
        | error x => rw [hc] at h; cases h
        | ok b =>
          rw [hc] at h
          cases b with
          | false => simpa using h
          | true =>
            simp only at h ⊢
            generalize e.kind = kind at h ⊢
            generalize eval c [] (substE σ e.value) = ev at h ⊢
            generalize curVal c.get upd (f, vs) = cv at h
            cases kind with
            | assign => exact h
            | increase =>
              cases cv with
              | none => cases h
              | some w =>
                cases w with
                | n q =>
                  simp only at h
                  cases ev with
                  | error x => cases h
                  | ok v => cases v <;> simp_all
                | b x => cases h
                | o x => cases h
            | decrease =>
              cases cv with
              | none => cases h
              | some w =>
                cases w with
                | n q =>
                  simp only at h
                  cases ev with
                  | error x => cases h
                  | ok v => cases v <;> simp_all
                | b x => cases h
                | o x => cases h
    | _ => cases h

/-- … and conversely, provided an increased fluent has a numeric current value -/
theorem evalEff_of_evalEffS {c : EvalCtx} {upd : List (GKey × Val)} {σ : Subst} {e : Effect} {r : Option Fired}
    (h : evalEffS c σ e = .ok r)
    (hd : ∀ k d, r = some (.delta k d) → ∃ q, curVal c.get upd k = some (.n q)) :
    evalEff c upd σ e = .ok r := by
  unfold evalEffS at h
  unfold evalEff
  cases hfl : substE σ e.fluent with
  | leaf l => rw [hfl] at h; cases h
  | quant q vs b => rw [hfl] at h; cases h
  | app op args =>
    rw [hfl] at h
    cases op with
    | fluent f =>
      simp only at h ⊢
      cases hvs : evalArgs c args with
      | error x => rw [hvs] at h; cases h
      | ok vs =>
        rw [hvs] at h
        simp only at h ⊢
        cases hc : evalBool c (substE σ e.cond) with
        | error x => rw [hc] at h; cases h
        | ok b =>
          rw [hc] at h
          cases b with
          | false => simpa using h
          | true =>
            simp only at h ⊢
            generalize e.kind = kind at h ⊢
            generalize eval c [] (substE σ e.value) = ev at h ⊢
            cases ev with
            | error x => cases h
            | ok v =>
              simp only at h
              cases kind with
              | assign => exact h
              | increase =>
                cases v with
                | n d =>
                  simp only at h
                  cases h
                  obtain ⟨q, hq⟩ := hd _ _ rfl
                  simp [hq]
                | b x => cases h
                | o x => cases h
              | decrease =>
                cases v with
                | n d =>
                  simp only at h
                  cases h
                  obtain ⟨q, hq⟩ := hd _ _ rfl
                  simp [hq]
                | b x => cases h
                | o x => cases h
    | _ => cases h

theorem deltaStep_cur {cur : GKey → Option Val} {acc a : TAcc} {k : GKey} {d : Rat}
    (h : deltaStep cur acc k d = .ok a) : ∃ q, curVal cur acc.upd k = some (.n q) := by
  unfold deltaStep at h
  split at h
  · cases h
  · split at h
    · rename_i q hq; exact ⟨q, hq⟩
    · cases h

/-- the interleaved loop over the instances of one event = evaluate everything in the pre-state, then fold -/
theorem foldInsts_ok_iff {c : EvalCtx} {σ : Subst} {tag : Option Nat} : ∀ (E : List Effect) (acc acc' : TAcc),
    foldInsts c σ tag E acc = .ok acc' ↔ ∃ F, firedInsts c σ tag E = some F ∧ foldT c.get F acc = .ok acc'
  | [], acc, acc' => by
    simp only [foldInsts, firedInsts]
    constructor
    · intro h; exact ⟨[], rfl, by simpa [foldT] using h⟩
    · rintro ⟨F, hF, h⟩; cases hF; simpa [foldT] using h
  | e :: es, acc, acc' => by
    simp only [foldInsts, firedInsts]
    constructor
    · intro h
      split at h
      · cases h
      · rename_i h1
        rw [evalEffS_of_evalEff h1]
        obtain ⟨F, hF, hf⟩ := (foldInsts_ok_iff es acc acc').1 h
        exact ⟨F, by simp [hF], hf⟩
      · rename_i f h1
        rw [evalEffS_of_evalEff h1]
        split at h
        · cases h
        · rename_i a1 hs
          obtain ⟨F, hF, hf⟩ := (foldInsts_ok_iff es a1 acc').1 h
          exact ⟨(tag, f) :: F, by simp [hF], by simp [foldT, hs, hf]⟩
    · rintro ⟨F, hF, hf⟩
      cases hS : evalEffS c σ e with
      | error x => rw [hS] at hF; cases hF
      | ok r =>
        rw [hS] at hF
        cases r with
        | none =>
          cases hr : firedInsts c σ tag es with
          | none => rw [hr] at hF; cases hF
          | some F' =>
            rw [hr] at hF; cases hF
            rw [evalEff_of_evalEffS hS (by intro k d hk; cases hk)]
            exact (foldInsts_ok_iff es acc acc').2 ⟨F, hr, hf⟩
        | some f =>
          cases hr : firedInsts c σ tag es with
          | none => rw [hr] at hF; cases hF
          | some F' =>
            rw [hr] at hF; cases hF
            simp only [foldT] at hf
            split at hf
            · cases hf
            · rename_i a1 hs
              have he : evalEff c acc.upd σ e = .ok (some f) := by
                apply evalEff_of_evalEffS hS
                intro k d hk; cases hk
                exact deltaStep_cur (by simpa [step] using hs)
              rw [he]
              simp only [hs]
              exact (foldInsts_ok_iff es a1 acc').2 ⟨F', hr, hf⟩

theorem foldT_append (cur : GKey → Option Val) : ∀ (F G : List TFired) (acc : TAcc),
    foldT cur (F ++ G) acc = match foldT cur F acc with
      | .error x => .error x
      | .ok a => foldT cur G a
  | [], G, acc => by simp [foldT]
  | (tag, f) :: F, G, acc => by
    simp only [List.cons_append, foldT]
    cases step cur tag acc f with
    | error x => rfl
    | ok a => exact foldT_append cur F G a

/-- … and over all the events of the instant -/
theorem foldGroups_ok_iff {P : Problem} {c : EvalCtx} : ∀ (gs : List Group) (acc acc' : TAcc),
    foldGroups P c gs acc = .ok acc' ↔ ∃ TF, firedGroups P c gs = some TF ∧ foldT c.get TF acc = .ok acc'
  | [], acc, acc' => by
    simp only [foldGroups, firedGroups]
    constructor
    · intro h; exact ⟨[], rfl, by simpa [foldT] using h⟩
    · rintro ⟨F, hF, h⟩; cases hF; simpa [foldT] using h
  | g :: gs, acc, acc' => by
    simp only [foldGroups, firedGroups]
    constructor
    · intro h
      split at h
      · cases h
      · rename_i a1 h1
        obtain ⟨F, hF, hf⟩ := (foldInsts_ok_iff _ acc a1).1 h1
        obtain ⟨G, hG, hg⟩ := (foldGroups_ok_iff gs a1 acc').1 h
        exact ⟨F ++ G, by simp [hF, hG], by rw [foldT_append, hf]; exact hg⟩
    · rintro ⟨TF, hTF, hf⟩
      cases h1 : firedInsts c g.σ g.tag (g.effs.flatMap (expandEffect P)) with
      | none => rw [h1] at hTF; cases hTF
      | some F =>
        rw [h1] at hTF
        cases h2 : firedGroups P c gs with
        | none => rw [h2] at hTF; cases hTF
        | some G =>
          rw [h2] at hTF; cases hTF
          rw [foldT_append] at hf
          split at hf
          · cases hf
          · rename_i a1 hf1
            rw [(foldInsts_ok_iff _ acc a1).2 ⟨F, h1, hf1⟩]
            exact (foldGroups_ok_iff gs a1 acc').2 ⟨G, h2, hf⟩

/-! ### what is fired is well sorted -/

theorem evalEffS_sorted {c : EvalCtx} {σ : Subst} {e : Effect} {f : Fired}
    (h : evalEffS c σ e = .ok (some f)) : SortedF f := by
  unfold evalEffS at h
  split at h
  · split at h
    · cases h
    · simp only at h
      split at h
      · cases h
      · cases h
      · split at h
        · cases h
        · split at h
          · split at h
            · rename_i hb
              split at h
              · cases h; simpa [SortedF] using hb
              · cases h
            · rename_i hb
              cases h; simpa [SortedF] using hb
          · split at h
            · cases h; trivial
            · cases h
          · split at h
            · cases h; trivial
            · cases h
  · cases h

theorem firedInsts_sorted {c : EvalCtx} {σ : Subst} {tag : Option Nat} :
    ∀ {E : List Effect} {F : List TFired}, firedInsts c σ tag E = some F → Sorted (F.map (·.2))
  | [], F, h => by
    simp [firedInsts] at h; subst h
    intro f hf; cases hf
  | e :: E, F, h => by
    simp only [firedInsts] at h
    split at h
    · rename_i F' h1 h2
      cases h
      exact firedInsts_sorted h2
    · rename_i f F' h1 h2
      cases h
      intro g hg
      simp only [List.map_cons, List.mem_cons] at hg
      rcases hg with rfl | hg
      · exact evalEffS_sorted h1
      · exact firedInsts_sorted h2 g hg
    · cases h

theorem firedGroups_sorted {P : Problem} {c : EvalCtx} :
    ∀ {gs : List Group} {TF : List TFired}, firedGroups P c gs = some TF → Sorted (TF.map (·.2))
  | [], TF, h => by
    simp [firedGroups] at h; subst h
    intro f hf; cases hf
  | g :: gs, TF, h => by
    simp only [firedGroups] at h
    split at h
    · rename_i F G h1 h2
      cases h
      intro f hf
      simp only [List.map_append, List.mem_append] at hf
      rcases hf with hf | hf
      · exact firedInsts_sorted h1 f hf
      · exact firedGroups_sorted h2 f hf
    · cases h

/-! ### `_apply_effects` = the successor of the instant -/

theorem ctxOf_get (W : World) (s : SimState) : ctxOf W (s.get W.P) = ctx W s := rfl

/-- `_apply_effects` returns a state exactly when the instant has a successor, and the state reads as it -/
theorem applyEffects_ok {W : World} {s s' : SimState} {gs : List Group} (h : applyEffects W s gs = .ok s') :
    instantSucc W (s.get W.P) gs = some (s'.get W.P) := by
  unfold applyEffects at h
  split at h
  · cases h
  · rename_i acc hacc
    cases h
    obtain ⟨TF, hTF, hf⟩ := (foldGroups_ok_iff gs TAcc.empty acc).1 hacc
    have hS := firedGroups_sorted hTF
    have hspec := foldT_spec (cur := (ctx W s).get) hS
    rw [hf] at hspec
    obtain ⟨hc, hx, hv⟩ := hspec
    unfold instantSucc
    rw [ctxOf_get, hTF]
    simp only
    rw [if_pos ⟨hc, hx⟩]
    congr 1
    exact (child_get (W := W) (s := s) (acc := toAcc acc) (fun k => hv k)).symm

theorem applyEffects_of_succ {W : World} {s : SimState} {gs : List Group} {σ' : SMap}
    (h : instantSucc W (s.get W.P) gs = some σ') : ∃ s', applyEffects W s gs = .ok s' ∧ s'.get W.P = σ' := by
  unfold instantSucc at h
  rw [ctxOf_get] at h
  split at h
  · cases h
  · rename_i TF hTF
    split at h
    · rename_i hcx
      cases h
      have hS := firedGroups_sorted hTF
      have hspec := foldT_spec (cur := (ctx W s).get) hS
      cases hf : foldT (ctx W s).get TF TAcc.empty with
      | error x =>
        rw [hf] at hspec
        exact absurd hcx hspec
      | ok acc =>
        rw [hf] at hspec
        have hacc := (foldGroups_ok_iff gs TAcc.empty acc).2 ⟨TF, hTF, hf⟩
        refine ⟨s.child acc.upd, by simp [applyEffects, hacc], ?_⟩
        exact child_get (W := W) (s := s) (acc := toAcc acc) (fun k => hspec.2.2 k)
    · cases h

end UPVerif.TT
