import UPVerif.Lemmas.CompileLiftDen
import UPVerif.Lemmas.CompileLiftDCRGoal
import UPVerif.Lemmas.SimplifyElim
import UPVerif.Lemmas.DnfLemmas
import UPVerif.Drv.C06
/-!
The walker hypotheses of the lifted compiler theorems discharged from what C11 / C12 PROVE about the real walker
models — "exact where the expression is defined" — instead of assumed in every evaluation context:

* `simpExactAt_of_den`: the simplifier model the driver hands to the compiler models (`Drv.C06.simpTotal cfg`,
  i.e. C11's `simplify`) is exact on the instance `σ` of `e` in the state `c` (`SimpExactAt`) as soon as `e` is DEFINED
  under the interpretation "state `c`, parameters valued by `σ`" and C11's hypotheses hold there (`WalkOK`): by
  `simpF_sound` (C11) and the bridge `eval_substE_of_den`.
* `dnfSplitsAt_of_den`: C12's DNF model `Expr.dnf simp` splits the truth of the instance of `e` (`DnfSplitsAt`) where
  `e` denotes a Boolean, given C12's own hypothesis on the simplifier (`SimpSound`, which is C11's theorem): by
  `dnfWalk_sem` (C12) and the bridge.
-/
namespace UPVerif.Compile
open UPVerif UPVerif.Expr UPVerif.Sim UPVerif.Spec UPVerif.Simp

/-- the valuation of the parameters a substitution parameter ↦ object denotes (first pair of that name) -/
def parOf (σ : Subst) (n : String) : Option Val :=
  (σ.find? (fun kv => match kv.1 with
    | .leaf (.param m _) => m == n
    | _ => false)).bind (fun kv => constVal? kv.2)

/-- C11's hypotheses for the instance `σ` of `e` in the state `c`, plus definedness there and the (decidable) side
    conditions of the bridge -/
structure WalkOK (cfg : SimpCfg) (c : EvalCtx) (σ : Subst) (oty : String → Option String) (e : Expr) : Prop where
  /-- the state is within the declared types (C11's `Respects`) -/
  resp : Respects cfg (interpOf c (parOf σ)) oty
  ct : cfg.constTables = true
  wf : WF (interpOf c (parOf σ)) oty e
  qi : QuantInhabited (interpOf c (parOf σ)) e
  /-- the simplifier does not raise on `e` -/
  noraise : ∃ e', simplify cfg e = .ok e'
  /-- every parameter leaf of `e` and of its simplification is a parameter of the instance; no quantifier binds a
      variable twice -/
  ok : bridgeOK σ (parOf σ) e = true
  okS : bridgeOK σ (parOf σ) (Drv.C06.simpTotal cfg e) = true
  /-- the instance is DEFINED in the state (reference denotation: strict) -/
  defined : ∃ w, den (interpOf c (parOf σ)) [] e = some w

/-- where the instance of `e` is defined, C11's simplifier is exact on it -/
theorem simpExactAt_of_den {cfg : SimpCfg} {c : EvalCtx} {σ : Subst} (hσ : IsParamSubst σ) {oty : String → Option String}
    {e : Expr} (h : WalkOK cfg c σ oty e) : SimpExactAt (Drv.C06.simpTotal cfg) c σ e := by
  obtain ⟨e', he'⟩ := h.noraise
  obtain ⟨w, hw⟩ := h.defined
  have hst : Drv.C06.simpTotal cfg e = e' := by unfold Drv.C06.simpTotal; rw [he']
  have hsound := (simpF_sound h.resp h.ct _ e e' he' h.wf h.qi).2.2 [] w (by intro x v hx; cases hx) hw
  unfold SimpExactAt
  have hokS := h.okS
  rw [hst] at hokS ⊢
  rw [eval_substE_of_den c (parOf σ) hσ e' [] w hokS hsound, eval_substE_of_den c (parOf σ) hσ e [] w h.ok hw]

/-- the decidable part of `WalkOK`, for kernel-checked instances -/
def walkChk (cfg : SimpCfg) (c : EvalCtx) (σ : Subst) (oty : String → Option String) (e : Expr) : Bool :=
  cfg.constTables &&
  allB (leafOK (interpOf c (parOf σ)) oty) (fun _ => true) e &&
  allB (fun _ => true) (fun x => !((interpOf c (parOf σ)).dom x.ty).isEmpty) e &&
  (match simplify cfg e with | .ok _ => true | .error _ => false) &&
  bridgeOK σ (parOf σ) e && bridgeOK σ (parOf σ) (Drv.C06.simpTotal cfg e) &&
  (den (interpOf c (parOf σ)) [] e).isSome

theorem walkOK_of_chk {cfg : SimpCfg} {c : EvalCtx} {σ : Subst} {oty : String → Option String} {e : Expr}
    (resp : Respects cfg (interpOf c (parOf σ)) oty) (h : walkChk cfg c σ oty e = true) : WalkOK cfg c σ oty e := by
  unfold walkChk at h
  simp only [Bool.and_eq_true] at h
  obtain ⟨⟨⟨⟨⟨⟨h1, h2⟩, h3⟩, h4⟩, h5⟩, h6⟩, h7⟩ := h
  refine ⟨resp, h1, h2, h3, ?_, h5, h6, Option.isSome_iff_exists.1 h7⟩
  cases hs : simplify cfg e with
  | ok e' => exact ⟨e', rfl⟩
  | error x => rw [hs] at h4; cases h4

/-! ### the DNF walker -/

/-- C12's `dnf_equiv` (restated from the lemmas of `Props/C12.lean`) -/
theorem bden_dnf {ι : Interp} {ρ : VEnv} {simp : Expr → Expr} (hs : SimpSound ι ρ simp) {e : Expr} {v : Bool}
    (h : bden ι ρ e = some v) : bden ι ρ (dnf simp e) = some v := by
  have hn : bden ι ρ (nnf true e) = some v := by rw [(bden_nnf_both ι ρ).1 true e, h]; rfl
  obtain ⟨hdef, hval⟩ := (dnfWalk_sem hs).1 (nnf true e) v hn
  unfold dnf
  rw [bden_dnfExpr hdef, hval]

theorem any_of_denList (c : EvalCtx) (par : String → Option Val) {σ : Subst} (hσ : IsParamSubst σ) :
    ∀ (args : List Expr) (vs : List Val) (bs : List Bool),
      denList (interpOf c par) [] args = some vs → allBools vs = some bs →
      (∀ d ∈ args, bridgeOK σ par d = true) →
      args.any (fun d => Spec.isTrue (eval c [] (substE σ d))) = bs.any id
  | [], vs, bs, h1, h2, _ => by
    rw [denList_nil] at h1; cases h1
    simp only [allBools, Option.some.injEq] at h2
    subst h2; rfl
  | d :: args, vs, bs, h1, h2, hok => by
    rw [denList_cons] at h1
    cases hd : den (interpOf c par) [] d with
    | none => rw [hd] at h1; cases h1
    | some v =>
      cases hr : denList (interpOf c par) [] args with
      | none => rw [hd, hr] at h1; cases h1
      | some ws =>
        rw [hd, hr] at h1
        cases h1
        cases v with
        | b x =>
          simp only [allBools] at h2
          cases hb : allBools ws with
          | none => rw [hb] at h2; cases h2
          | some bs' =>
            rw [hb] at h2
            simp only [Option.map_some, Option.some.injEq] at h2
            subst h2
            have ih := any_of_denList c par hσ args ws bs' hr hb (fun d' hd' => hok d' (List.mem_cons_of_mem _ hd'))
            have he := eval_substE_of_den c par hσ d [] (.b x) (hok d (List.mem_cons_self ..)) hd
            rw [List.any_cons, List.any_cons, ih, he]
            cases x <;> rfl
        | n q => simp [allBools] at h2
        | o s => simp [allBools] at h2

/-- where the instance of `e` denotes a Boolean, C12's DNF splits its truth -/
theorem dnfSplitsAt_of_den (c : EvalCtx) (par : String → Option Val) {σ : Subst} (hσ : IsParamSubst σ)
    {simp : Expr → Expr} (hs : SimpSound (interpOf c par) [] simp) {e : Expr} {v : Bool}
    (hdef : bden (interpOf c par) [] e = some v) (hok : bridgeOK σ par e = true)
    (hokD : ∀ d ∈ disjuncts (dnf simp e), bridgeOK σ par d = true) : DnfSplitsAt (dnf simp) c σ e := by
  unfold DnfSplitsAt
  have hl := eval_substE_of_den c par hσ e [] (.b v) hok (bden_eq_some.1 hdef)
  rw [hl]
  have hD := bden_eq_some.1 (bden_dnf hs hdef)
  by_cases hor : ∃ args, dnf simp e = .app .or args
  · obtain ⟨args, hargs⟩ := hor
    rw [hargs] at hD hokD ⊢
    have hdis : disjuncts (.app .or args) = args := rfl
    rw [hdis] at hokD ⊢
    rw [den_app] at hD
    cases hvs : denList (interpOf c par) [] args with
    | none => rw [hvs] at hD; cases hD
    | some vs =>
      rw [hvs] at hD
      have hD' : (allBools vs).map (fun bs => Val.b (bs.any id)) = some (.b v) := hD
      cases hbs : allBools vs with
      | none => rw [hbs] at hD'; cases hD'
      | some bs =>
        rw [hbs] at hD'
        simp only [Option.map_some, Option.some.injEq, Val.b.injEq] at hD'
        rw [any_of_denList c par hσ args vs bs hvs hbs hokD, hD']
        cases v <;> rfl
  · have hdis : disjuncts (dnf simp e) = [dnf simp e] := by
      unfold disjuncts
      split
      · rename_i args h; exact absurd ⟨args, h⟩ hor
      · rfl
    rw [hdis] at hokD ⊢
    have he := eval_substE_of_den c par hσ (dnf simp e) [] (.b v) (hokD _ (List.mem_cons_self ..)) hD
    rw [List.any_cons, List.any_nil, Bool.or_false, he]

/-! ### the hypotheses of the lifted theorems, from `WalkOK` -/

/-- ConditionalEffectsRemover: `WalkOK` on the conjunctions of the variants' preconditions -/
theorem cerSimpAt_of_walkOK {cfg : SimpCfg} {W : World} {T : St → Prop}
    (h : ∀ g, T g → ∀ a ∈ W.P.actions, ∀ args ∈ instancesOf W.P a, ∀ p, ∃ oty,
      WalkOK cfg (ctxOf W g) (paramSubst W.P a args) oty (cerPreExpr (cerExpand W.P a) p)) :
    CerSimpAt (Drv.C06.simpTotal cfg) W T := by
  intro g hT a ha args hin p
  obtain ⟨oty, hw⟩ := h g hT a ha args hin p
  exact simpExactAt_of_den (isParamSubst_paramSubst _ _ _) hw

/-- StateInvariantsRemover: `WalkOK` on the four kinds of conjunctions the compile-time simplifier is applied to, and
    exactness of the simulator's simplifier on the invariants -/
structure SirWalkOK (cfg : SimpCfg) (W : World) (g : St) : Prop where
  inv : ∃ oty, WalkOK cfg (ctxOf W g) [] oty (mkAnd (stateInvariants W.P))
  goal : ∃ oty, WalkOK cfg (ctxOf W g) [] oty
    (mkAnd (W.P.goals.map id ++ [sirCond (Drv.C06.simpTotal cfg) W.P]))
  acts : ∀ a ∈ W.P.actions, ∀ args ∈ instancesOf W.P a,
    (∃ oty, WalkOK cfg (ctxOf W g) (paramSubst W.P a args) oty
      (mkAnd (a.pre.map id ++ [sirCond (Drv.C06.simpTotal cfg) W.P]))) ∧
    (∃ oty, WalkOK cfg (ctxOf W g) (paramSubst W.P a args) oty (mkAnd (stateInvariants W.P)))
  wsimp : ∀ si ∈ stateInvariants W.P, eval (ctxOf W g) [] (W.simp si) = eval (ctxOf W g) [] si

theorem sirWalkAt_of_walkOK {cfg : SimpCfg} {W : World} {T : St → Prop} (h : ∀ g, T g → SirWalkOK cfg W g) :
    SirWalkAt (Drv.C06.simpTotal cfg) W T := by
  intro g hT
  have hg := h g hT
  obtain ⟨o1, h1⟩ := hg.inv
  obtain ⟨o2, h2⟩ := hg.goal
  refine ⟨simpExactAt_of_den isParamSubst_nil h1, simpExactAt_of_den isParamSubst_nil h2, ?_, hg.wsimp⟩
  intro a ha args hin
  obtain ⟨⟨o3, h3⟩, ⟨o4, h4⟩⟩ := hg.acts a ha args hin
  exact ⟨simpExactAt_of_den (isParamSubst_paramSubst _ _ _) h3, simpExactAt_of_den (isParamSubst_paramSubst _ _ _) h4⟩

/-- DisjunctiveConditionsRemover with C12's DNF walker `Expr.dnf simp`, on one action and one instance in one state:
    the preconditions and the effect conditions denote Booleans there; C12's hypothesis on the simplifier
    (`SimpSound`: C11's theorem, proved there for well-formed expressions with inhabited quantifier domains); the
    simplifier is exact on the instances of the expressions the compiler applies it to (`SimpExactAt`: for C11's
    model, `simpExactAt_of_den`) -/
structure DcrWalkOK (simp : Expr → Expr) (c : EvalCtx) (σ : Subst) (a : Action) : Prop where
  sound : SimpSound (interpOf c (parOf σ)) [] simp
  preDef : ∃ v, bden (interpOf c (parOf σ)) [] (mkAnd a.pre) = some v
  preOk : bridgeOK σ (parOf σ) (mkAnd a.pre) = true
  disjOk : ∀ d ∈ disjuncts (dnf simp (mkAnd a.pre)), bridgeOK σ (parOf σ) d = true
  disjS : ∀ d ∈ disjuncts (dnf simp (mkAnd a.pre)), SimpExactAt simp c σ d
  condDef : ∀ e ∈ a.effs, e.isConditional = true → ∃ v, bden (interpOf c (parOf σ)) [] e.cond = some v
  condOk : ∀ e ∈ a.effs, e.isConditional = true → bridgeOK σ (parOf σ) e.cond = true
  condDOk : ∀ e ∈ a.effs, e.isConditional = true → bridgeOK σ (parOf σ) (dnf simp e.cond) = true
  condS : ∀ e ∈ a.effs, e.isConditional = true → SimpExactAt simp c σ (dnf simp e.cond)

theorem dcrInstAt_of_walkOK {simp : Expr → Expr} {c : EvalCtx} {σ : Subst} (hσ : IsParamSubst σ) {a : Action}
    (h : DcrWalkOK simp c σ a) : DcrInstAt simp (dnf simp) c σ a := by
  refine ⟨h.disjS, ?_, ?_⟩
  · obtain ⟨v, hv⟩ := h.preDef
    exact dnfSplitsAt_of_den c (parOf σ) hσ h.sound hv h.preOk h.disjOk
  · intro e he hc
    obtain ⟨v, hv⟩ := h.condDef e he hc
    have h1 := h.condS e he hc
    unfold SimpExactAt at h1
    rw [h1, eval_substE_of_den c (parOf σ) hσ _ [] (.b v) (h.condDOk e he hc) (bden_eq_some.1 (bden_dnf h.sound hv)),
      eval_substE_of_den c (parOf σ) hσ _ [] (.b v) (h.condOk e he hc) (bden_eq_some.1 hv)]

/-- … and on the problem, in one state -/
structure DcrWalkOKIn (simp : Expr → Expr) (W : World) (g : St) : Prop where
  sound : SimpSound (interpOf (ctxOf W g) (parOf [])) [] simp
  goalDef : ∃ v, bden (interpOf (ctxOf W g) (parOf [])) [] (mkAnd W.P.goals) = some v
  goalOk : bridgeOK [] (parOf []) (mkAnd W.P.goals) = true
  goalD : ∀ d ∈ disjuncts (dnf simp (mkAnd W.P.goals)), bridgeOK [] (parOf []) d = true
  acts : ∀ a ∈ W.P.actions, ∀ args ∈ instancesOf W.P a, DcrWalkOK simp (ctxOf W g) (paramSubst W.P a args) a

theorem dcrWalkAt_of_walkOK {simp : Expr → Expr} {W : World} {T : St → Prop} (h : ∀ g, T g → DcrWalkOKIn simp W g) :
    DcrWalkAt simp (dnf simp) W T := by
  intro g hT
  have hg := h g hT
  obtain ⟨v, hv⟩ := hg.goalDef
  refine ⟨dnfSplitsAt_of_den (ctxOf W g) (parOf []) isParamSubst_nil hg.sound hv hg.goalOk hg.goalD, ?_⟩
  intro a ha args hin
  exact dcrInstAt_of_walkOK (isParamSubst_paramSubst _ _ _) (hg.acts a ha args hin)

end UPVerif.Compile
