import UPVerif.Lemmas.KS0Plans
/-!
Helper lemmas for `Props/C30.lean`, part 3: the relevance relation, domination, and the reduction of the
possible initial states to a basis (and their de-duplication).
-/
set_option linter.unusedSectionVars false
namespace UPVerif.KS0
open UPVerif.Conformant

variable {α : Type} [DecidableEq α]

/-- every literal of the problem is over its ground fluents (Python: the dictionaries keyed by the
ground fluent expressions would raise `KeyError` otherwise) -/
def WF (P : NProblem α) : Prop :=
  (∀ a ∈ P.actions, (∀ l ∈ a.pre, l.atom ∈ P.atoms) ∧
      ∀ r ∈ a.rules, r.target.atom ∈ P.atoms ∧ ∀ c ∈ r.cond, c.atom ∈ P.atoms) ∧
  ∀ g ∈ P.goals, g.atom ∈ P.atoms

theorem mem_allLits {atoms : List α} {l : Lit α} : l ∈ allLits atoms ↔ l.atom ∈ atoms := by
  cases l with
  | mk x p =>
    simp only [allLits, List.mem_flatMap, List.mem_cons, Lit.mk.injEq, List.not_mem_nil, or_false]
    constructor
    · rintro ⟨y, hy, h | h⟩ <;> (rw [h.1]; exact hy)
    · intro h
      refine ⟨x, h, ?_⟩
      cases p <;> simp

theorem neg_mem_allLits {atoms : List α} {l : Lit α} : l.neg ∈ allLits atoms ↔ l ∈ allLits atoms := by
  simp [mem_allLits, Lit.neg]

/-! ### the relation used by the reduction is closed -/

/-- what the domination argument needs from the relevance relation `R` over the literals `U` -/
structure RelOK (P : NProblem α) (R : Rel α) : Prop where
  refl : ∀ l ∈ allLits P.atoms, R l l = true
  edge : ∀ a ∈ P.actions, ∀ r ∈ a.rules, ∀ c ∈ r.cond, R c r.target = true
  trans : ∀ l ∈ allLits P.atoms, ∀ i ∈ allLits P.atoms, ∀ x ∈ allLits P.atoms,
    R l i = true → R i x = true → R l x = true
  compl : ∀ l ∈ allLits P.atoms, ∀ x ∈ allLits P.atoms, R l.neg x.neg = true → R l x = true

theorem relOK_of_closed {P : NProblem α} {R : Rel α} (h : relClosed P R = true) : RelOK P R := by
  simp only [relClosed, Bool.and_eq_true, List.all_eq_true, Bool.or_eq_true, Bool.not_eq_true',
    Bool.and_eq_false_iff] at h
  obtain ⟨⟨⟨h1, h2⟩, h3⟩, h4⟩ := h
  refine ⟨h1, h2, ?_, ?_⟩
  · intro l hl i hi x hx a b
    rcases h3 l hl i hi x hx with (h | h) | h
    · rw [a] at h; cases h
    · rw [b] at h; cases h
    · exact h
  · intro l hl x hx a
    rcases h4 l hl x hx with h | h
    · rw [a] at h; cases h
    · exact h

theorem row_total (U : List (Lit α)) (V : List (Lit α)) {l : Lit α} (hl : l ∈ V) :
    RelMap.row (V.map (fun k => (k, U))) l = U := by
  induction V with
  | nil => cases hl
  | cons k V ih =>
    simp only [List.map_cons, RelMap.row]
    by_cases e : k = l
    · simp [e]
    · simp only [e, if_false]
      rcases List.mem_cons.1 hl with h | h
      · exact absurd h.symm e
      · exact ih h

theorem relOK_relevance {P : NProblem α} (wf : WF P) : RelOK P (relevanceMap P).rel := by
  unfold relevanceMap
  by_cases h : relClosed P (relFix P).rel = true
  · simp only [h, if_true]; exact relOK_of_closed h
  · simp only [h]
    have tot : ∀ l ∈ allLits P.atoms, ∀ x ∈ allLits P.atoms,
        RelMap.rel ((allLits P.atoms).map (fun k => (k, allLits P.atoms))) l x = true := by
      intro l hl x hx
      simp only [RelMap.rel, row_total _ _ hl]
      exact List.contains_iff_mem.2 hx
    refine ⟨fun l hl => tot l hl l hl, ?_, fun l hl _ _ x hx _ _ => tot l hl x hx,
      fun l hl x hx _ => tot l hl x hx⟩
    intro a ha r hr c hc
    obtain ⟨h1, h2⟩ := (wf.1 a ha).2 r hr
    exact tot c (mem_allLits.2 (h2 c hc)) r.target (mem_allLits.2 h1)

/-! ### domination -/

/-- `σ₂` dominates `σ₁` for target `T`: every literal relevant to `T` that holds in `σ₁` holds in `σ₂` -/
def Dom (P : NProblem α) (R : Rel α) (T : Lit α) (σ₁ σ₂ : State α) : Prop :=
  ∀ M ∈ allLits P.atoms, R M T = true → holds σ₁ M = true → holds σ₂ M = true

theorem dom_step {P : NProblem α} {R : Rel α} (wf : WF P) (ok : RelOK P R) {a : Action α}
    (ha : a ∈ P.actions) (hc : Consistent a) {T : Lit α} (hT : T ∈ allLits P.atoms)
    {σ₁ σ₂ : State α} (h : Dom P R T σ₁ σ₂) : Dom P R T (step a σ₁) (step a σ₂) := by
  intro M hM hR hold
  rw [holds_step hc] at hold ⊢
  have wfa := (wf.1 a ha).2
  rcases hold with ⟨r, hr, hf, ht⟩ | ⟨hn, hh⟩
  · left
    refine ⟨r, hr, ?_, ht⟩
    simp only [fires, List.all_eq_true] at hf ⊢
    intro c hcm
    have hcU : c ∈ allLits P.atoms := mem_allLits.2 ((wfa r hr).2 c hcm)
    have e := ok.edge a ha r hr c hcm
    rw [ht] at e
    exact h c hcU (ok.trans c hcU M hM T hT e hR) (hf c hcm)
  · right
    refine ⟨?_, h M hM hR hh⟩
    rintro ⟨r, hr, hf, ht⟩
    -- `r` targets `¬M` and fires in `σ₂`; it did not fire in `σ₁`, so some condition `c` was false there
    have hnf : fires σ₁ r = false := by
      cases hq : fires σ₁ r
      · rfl
      · exact absurd ⟨r, hr, hq, ht⟩ hn
    simp only [fires, List.all_eq_false] at hnf
    obtain ⟨c, hcm, hcf⟩ := hnf
    have hcU : c ∈ allLits P.atoms := mem_allLits.2 ((wfa r hr).2 c hcm)
    have hcnU : c.neg ∈ allLits P.atoms := neg_mem_allLits.2 hcU
    have e := ok.edge a ha r hr c hcm
    rw [ht] at e
    -- c → ¬M, hence ¬c → M, hence ¬c → T
    have e2 : R c.neg M = true := ok.compl c.neg hcnU M hM (by simpa using e)
    have e3 := ok.trans c.neg hcnU M hM T hT e2 hR
    have h1 : holds σ₁ c.neg = true := by
      rw [holds_neg]; simpa using hcf
    have h2 := h c.neg hcnU e3 h1
    simp only [fires, List.all_eq_true] at hf
    rw [holds_neg, hf c hcm] at h2
    cases h2

/-- the plan's preconditions and the goals are merge targets, so validity transfers from dominating
states: if for every merge target `T` some state `σ₁` with `Dom T σ₁ σ₂` admits the plan, so does `σ₂` -/
theorem valid_transfer {P : NProblem α} {R : Rel α} (wf : WF P) (ok : RelOK P R)
    (hcons : ∀ a ∈ P.actions, Consistent a) (π : List (Action α)) :
    (∀ a ∈ π, a ∈ P.actions) → ∀ σ₂ : State α,
      (∀ T ∈ mergeTargets P, ∃ σ₁, Dom P R T σ₁ σ₂ ∧ validFrom P.goals π σ₁ = true) →
      validFrom P.goals π σ₂ = true := by
  induction π with
  | nil =>
    intro _ σ₂ h
    simp only [validFrom, executable, run, Bool.true_and, List.all_eq_true]
    intro g hg
    obtain ⟨σ₁, hd, hv⟩ := h g (mem_mergeTargets.2 (Or.inr hg))
    simp only [validFrom, executable, run, Bool.true_and, List.all_eq_true] at hv
    have hgU : g ∈ allLits P.atoms := mem_allLits.2 (wf.2 g hg)
    exact hd g hgU (ok.refl g hgU) (hv g hg)
  | cons a π ih =>
    intro hπ σ₂ h
    have ha : a ∈ P.actions := hπ a List.mem_cons_self
    have happ : applicable a σ₂ = true := by
      simp only [applicable, List.all_eq_true]
      intro l hl
      obtain ⟨σ₁, hd, hv⟩ := h l (mem_mergeTargets.2 (Or.inl ⟨a, ha, hl⟩))
      simp only [validFrom, executable, applicable, Bool.and_eq_true, List.all_eq_true] at hv
      have hlU : l ∈ allLits P.atoms := mem_allLits.2 ((wf.1 a ha).1 l hl)
      exact hd l hlU (ok.refl l hlU) (hv.1.1 l hl)
    have hrec : validFrom P.goals π (step a σ₂) = true := by
      apply ih (fun b hb => hπ b (List.mem_cons_of_mem _ hb))
      intro T hT
      obtain ⟨σ₁, hd, hv⟩ := h T hT
      have hTU : T ∈ allLits P.atoms := by
        rcases mem_mergeTargets.1 hT with ⟨b, hb, hl⟩ | hg
        · exact mem_allLits.2 ((wf.1 b hb).1 T hl)
        · exact mem_allLits.2 (wf.2 T hg)
      refine ⟨step a σ₁, dom_step wf ok ha (hcons a ha) hTU hd, ?_⟩
      simp only [validFrom, executable, run, Bool.and_eq_true] at hv ⊢
      exact ⟨hv.1.2, hv.2⟩
    simp only [validFrom, executable, run, Bool.and_eq_true] at hrec ⊢
    exact ⟨⟨happ, hrec.1⟩, hrec.2⟩

/-- conformance transfers from a sub-list `S'` of states to `S` when every state of `S` is dominated,
for every merge target, by a state of `S'` -/
theorem conformant_of_dominating {P : NProblem α} {R : Rel α} (wf : WF P) (ok : RelOK P R)
    (hcons : ∀ a ∈ P.actions, Consistent a) {S S' : List (State α)}
    (hdom : ∀ s ∈ S, ∀ T ∈ mergeTargets P, ∃ s' ∈ S', Dom P R T s' s)
    {π : List (Action α)} (h : Conformant P S' π) : Conformant P S π := by
  refine ⟨h.1, ?_⟩
  intro s hs
  apply valid_transfer wf ok hcons π h.1 s
  intro T hT
  obtain ⟨s', hs', hd⟩ := hdom s hs T hT
  exact ⟨s', hd, h.2 s' hs'⟩

theorem conformant_of_subset {P : NProblem α} {S S' : List (State α)} (hsub : ∀ s ∈ S', s ∈ S)
    {π : List (Action α)} (h : Conformant P S π) : Conformant P S' π :=
  ⟨h.1, fun s hs => h.2 s (hsub s hs)⟩

/-! ### the loop that keeps the minimal relevant-literal sets -/

theorem subl_iff {a b : List (Lit α)} : subl a b = true ↔ ∀ x ∈ a, x ∈ b := by
  simp [subl, List.all_eq_true]

theorem subl_refl (a : List (Lit α)) : subl a a = true := subl_iff.2 (fun _ h => h)

theorem subl_trans {a b c : List (Lit α)} (h1 : subl a b = true) (h2 : subl b c = true) :
    subl a c = true :=
  subl_iff.2 (fun x hx => subl_iff.1 h2 x (subl_iff.1 h1 x hx))

theorem minStep_mem {acc : List (Nat × List (Lit α))} {e x : Nat × List (Lit α)}
    (h : x ∈ minStep acc e) : x ∈ acc ∨ x = e := by
  unfold minStep at h
  split at h
  · exact Or.inl h
  · rcases List.mem_append.1 h with h | h
    · exact Or.inl (List.mem_filter.1 h).1
    · exact Or.inr (by simpa using h)

/-- after one step, whatever was dominated by the accumulator still is, and so is the new entry -/
theorem minStep_dom (acc : List (Nat × List (Lit α))) (e : Nat × List (Lit α)) (r : List (Lit α))
    (h : (∃ x ∈ acc, subl x.2 r = true) ∨ subl e.2 r = true) :
    ∃ x ∈ minStep acc e, subl x.2 r = true := by
  unfold minStep
  by_cases hd : acc.any (fun x => subl x.2 e.2) = true
  · simp only [hd, if_true]
    rcases h with h | h
    · exact h
    · obtain ⟨x, hx, hs⟩ := List.any_eq_true.1 hd
      exact ⟨x, hx, subl_trans hs h⟩
  · simp only [hd]
    rcases h with ⟨x, hx, hs⟩ | h
    · by_cases hk : subl e.2 x.2 = true
      · exact ⟨e, by simp, subl_trans hk hs⟩
      · refine ⟨x, ?_, hs⟩
        apply List.mem_append_left
        exact List.mem_filter.2 ⟨hx, by simpa using hk⟩
    · exact ⟨e, by simp, h⟩

theorem foldl_minStep (L : List (Nat × List (Lit α))) :
    ∀ acc : List (Nat × List (Lit α)),
      (∀ x ∈ L.foldl minStep acc, x ∈ acc ∨ x ∈ L) ∧
      (∀ r, ((∃ x ∈ acc, subl x.2 r = true) ∨ ∃ e ∈ L, subl e.2 r = true) →
        ∃ x ∈ L.foldl minStep acc, subl x.2 r = true) := by
  induction L with
  | nil =>
    intro acc
    refine ⟨fun x hx => Or.inl hx, ?_⟩
    rintro r (h | ⟨e, he, _⟩)
    · exact h
    · cases he
  | cons e L ih =>
    intro acc
    obtain ⟨i1, i2⟩ := ih (minStep acc e)
    simp only [List.foldl_cons]
    refine ⟨?_, ?_⟩
    · intro x hx
      rcases i1 x hx with h | h
      · rcases minStep_mem h with h | h
        · exact Or.inl h
        · exact Or.inr (by simp [h])
      · exact Or.inr (List.mem_cons_of_mem _ h)
    · intro r h
      apply i2 r
      rcases h with h | ⟨e', he', hs⟩
      · exact Or.inl (minStep_dom acc e r (Or.inl h))
      · rcases List.mem_cons.1 he' with rfl | he'
        · exact Or.inl (minStep_dom acc e' r (Or.inr hs))
        · exact Or.inr ⟨e', he', hs⟩

/-- every state is dominated by a kept one: its relevant-literal set contains a minimal one -/
theorem minimalFor_spec (atoms : List α) (m : RelMap α) (S : List (State α)) (T : Lit α) :
    (∀ x ∈ minimalFor atoms m S T, ∃ h : x.1 < S.length, x.2 = relLits atoms m T S[x.1]) ∧
    (∀ j (h : j < S.length), ∃ x ∈ minimalFor atoms m S T,
        subl x.2 (relLits atoms m T S[j]) = true) := by
  unfold minimalFor
  obtain ⟨f1, f2⟩ := foldl_minStep (S.zipIdx.map (fun p => (p.2, relLits atoms m T p.1))) []
  refine ⟨?_, ?_⟩
  · intro x hx
    rcases f1 x hx with h | h
    · cases h
    · simp only [List.mem_map] at h
      obtain ⟨p, hp, rfl⟩ := h
      have := List.mem_zipIdx_iff_getElem?.1 hp
      obtain ⟨hlt, heq⟩ := List.getElem?_eq_some_iff.1 this
      exact ⟨hlt, by simp [heq]⟩
  · intro j hj
    apply f2
    right
    refine ⟨(j, relLits atoms m T S[j]), ?_, subl_refl _⟩
    simp only [List.mem_map]
    refine ⟨(S[j], j), ?_, rfl⟩
    exact List.mem_zipIdx_iff_getElem?.2 (by simp [List.getElem?_eq_getElem hj])

/-- containment of relevant-literal sets is domination -/
theorem dom_of_subl {P : NProblem α} {m : RelMap α} {T : Lit α} {s₁ s₂ : State α}
    (h : subl (relLits P.atoms m T s₁) (relLits P.atoms m T s₂) = true) : Dom P m.rel T s₁ s₂ := by
  intro M hM hR hh
  have hx : M.atom ∈ P.atoms := mem_allLits.1 hM
  have hM1 : M ∈ relLits P.atoms m T s₁ := by
    simp only [relLits, List.mem_filter, List.mem_map]
    refine ⟨⟨M.atom, hx, ?_⟩, hR⟩
    cases M with
    | mk x p => simp only [holds, beq_iff_eq] at hh; simp [hh]
  have hM2 := subl_iff.1 h M hM1
  simp only [relLits, List.mem_filter, List.mem_map] at hM2
  obtain ⟨⟨y, _, hy⟩, _⟩ := hM2
  rw [← hy]; simp [holds]

theorem dom_refl (P : NProblem α) (R : Rel α) (T : Lit α) (s : State α) : Dom P R T s s :=
  fun _ _ _ h => h

theorem basis_subset (P : NProblem α) (S : List (State α)) : ∀ s ∈ basis P S, s ∈ S := by
  intro s hs
  simp only [basis, List.mem_filterMap] at hs
  obtain ⟨i, _, hi⟩ := hs
  exact List.mem_iff_getElem?.2 ⟨i, hi⟩

/-- every possible initial state is dominated, for every merge target, by a state of the basis -/
theorem basis_dominates (P : NProblem α) (S : List (State α)) :
    ∀ s ∈ S, ∀ T ∈ mergeTargets P, ∃ s' ∈ basis P S, Dom P (relevanceMap P).rel T s' s := by
  intro s hs T hT
  obtain ⟨j, hj, rfl⟩ := List.mem_iff_getElem.1 hs
  unfold basis basisIdx
  by_cases h1 : S.length ≤ 1
  · simp only [h1, if_true]
    refine ⟨S[j], ?_, dom_refl _ _ _ _⟩
    simp only [List.mem_filterMap, List.mem_range]
    exact ⟨j, hj, List.getElem?_eq_getElem hj⟩
  · simp only [h1, if_false]
    by_cases h2 : (mergeTargets P).isEmpty = true
    · rw [List.isEmpty_iff.1 h2] at hT; cases hT
    · have h2' : (mergeTargets P).isEmpty = false := by simpa using h2
      simp only [h2', Bool.false_eq_true, if_false]
      obtain ⟨m1, m2⟩ := minimalFor_spec P.atoms (relevanceMap P) S T
      obtain ⟨x, hx, hsub⟩ := m2 j hj
      obtain ⟨hlt, heq⟩ := m1 x hx
      refine ⟨S[x.1], ?_, ?_⟩
      · simp only [List.mem_filterMap, List.mem_filter, List.mem_range]
        refine ⟨x.1, ⟨hlt, ?_⟩, List.getElem?_eq_getElem hlt⟩
        apply List.contains_iff_mem.2
        simp only [List.mem_flatMap, List.mem_map]
        exact ⟨T, hT, x, hx, rfl⟩
      · apply dom_of_subl
        rw [← heq]; exact hsub

/-! ### de-duplication -/

theorem dedupStates_subset (atoms : List α) (S : List (State α)) :
    ∀ s ∈ dedupStates atoms S, s ∈ S := by
  induction S with
  | nil => intro s hs; cases hs
  | cons t S ih =>
    intro s hs
    simp only [dedupStates, List.mem_cons, List.mem_filter] at hs
    rcases hs with rfl | ⟨h, _⟩
    · exact List.mem_cons_self
    · exact List.mem_cons_of_mem _ (ih s h)

theorem dedupStates_covers (atoms : List α) (S : List (State α)) :
    ∀ s ∈ S, ∃ s' ∈ dedupStates atoms S, signature atoms s' = signature atoms s := by
  induction S with
  | nil => intro s hs; cases hs
  | cons t S ih =>
    intro s hs
    rcases List.mem_cons.1 hs with rfl | hs
    · exact ⟨s, by simp [dedupStates], rfl⟩
    · obtain ⟨s', hs', he⟩ := ih s hs
      by_cases hq : signature atoms s' = signature atoms t
      · exact ⟨t, by simp [dedupStates], by rw [← hq, he]⟩
      · refine ⟨s', ?_, he⟩
        simp only [dedupStates, List.mem_cons, List.mem_filter]
        exact Or.inr ⟨hs', by simpa using hq⟩

theorem dom_of_signature {P : NProblem α} (R : Rel α) (T : Lit α) {s₁ s₂ : State α}
    (h : signature P.atoms s₁ = signature P.atoms s₂) : Dom P R T s₁ s₂ := by
  intro M hM _ hh
  have hx : M.atom ∈ P.atoms := mem_allLits.1 hM
  have : s₁ M.atom = s₂ M.atom := by
    simp only [signature] at h
    exact List.map_inj_left.1 h M.atom hx
  simpa [holds, this] using hh

end UPVerif.KS0
