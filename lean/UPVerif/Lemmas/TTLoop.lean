import UPVerif.Lemmas.TTTimes
import UPVerif.Lemmas.TTApply
/-!
Helper lemmas for `Props/C05.lean` / `Props/C04.lean`: the main loop of `_validate` (start the next
action instance / pop and apply every event scheduled at the least time) ends normally exactly when
every action instance can be started and every instant — the distinct event times in ascending
order — has its events applied together successfully; it then holds all the conditions and the
trace of the states after each instant.  Fuel: `measure L + 1` iterations suffice.
-/
namespace UPVerif.TT
open UPVerif UPVerif.Expr UPVerif.Sim UPVerif.Spec UPVerif.Spec.Temporal

/-- the states after each of the given instants, computed with `_apply_effects` -/
def timelineS (W : World) (E : List Sched) : SimState → List Rat → Option (List (Rat × SimState))
  | _, [] => some []
  | s, t :: ts =>
    match applyEffects W s (eventsAt E t) with
    | .ok s' => (timelineS W E s' ts).map (fun r => (t, s') :: r)
    | .error _ => none

/-- `trace[t] = s` for each instant -/
def traceAfter (tr : Trace) (tl : List (Rat × SimState)) : Trace := tl.foldl (fun tr p => tr.set p.1 p.2) tr

def lastAfter (s : SimState) : List (Rat × SimState) → SimState
  | [] => s
  | (_, s') :: r => lastAfter s' r

/-- what the loop ends with -/
def finalLoop (L : Loop) (C' : List DCond) (tl : List (Rat × SimState)) : Loop :=
  { acts := [], sched := [], conds := L.conds ++ C', last := lastAfter L.last tl, trace := traceAfter L.trace tl }

/-- iterations still to make (minus the last one) -/
def measure (L : Loop) : Nat := L.acts.length + (L.acts.map (fun a => pushes a.1)).sum + L.sched.length

def ActsSorted (acts : List (Step × Nat)) : Prop := acts.Pairwise (fun a b => a.1.start ≤ b.1.start)

/-- no event of an action instance is scheduled before the start of the instance -/
def WellTimed (W : World) (acts : List (Step × Nat)) : Prop :=
  ∀ a ∈ acts, ∀ ev cs, stepItems W a.1 a.2 = .ok (some (ev, cs)) → ∀ x ∈ ev, a.1.start ≤ x.time

/-! ### the heap top -/

theorem minTime_none {l : List Sched} : minTime l = none ↔ l = [] := by
  cases l with
  | nil => simp [minTime]
  | cons x xs =>
    simp only [minTime]
    cases minTime xs <;> simp

theorem minTime_some : ∀ {l : List Sched} {m : Rat}, minTime l = some m →
    (∃ x ∈ l, x.time = m) ∧ ∀ x ∈ l, m ≤ x.time
  | [], m, h => by simp [minTime] at h
  | x :: xs, m, h => by
    simp only [minTime] at h
    cases hm : minTime xs with
    | none =>
      rw [hm] at h
      cases h
      have := minTime_none.1 hm
      subst this
      exact ⟨⟨x, by simp, rfl⟩, by intro y hy; simp at hy; subst hy; grind⟩
    | some m' =>
      rw [hm] at h
      simp only [Option.some.injEq] at h
      obtain ⟨⟨y, hy, hym⟩, hall⟩ := minTime_some hm
      by_cases hc : x.time ≤ m'
      · rw [if_pos hc] at h
        subst h
        refine ⟨⟨x, by simp, rfl⟩, ?_⟩
        intro z hz
        simp only [List.mem_cons] at hz
        rcases hz with rfl | hz
        · grind
        · have := hall z hz; grind
      · rw [if_neg hc] at h
        subst h
        refine ⟨⟨y, by simp [hy], hym⟩, ?_⟩
        intro z hz
        simp only [List.mem_cons] at hz
        rcases hz with rfl | hz
        · grind
        · exact hall z hz

/-! ### what starting an action instance pushes -/

theorem schedDurEffs_length {σ : Subst} {tag : Nat} {start : Rat} {dur : Option Rat} :
    ∀ {l : List (Timing × List Effect)} {r : List Sched}, schedDurEffs σ tag start dur l = .ok r → r.length = l.length
  | [], r, h => by simp [schedDurEffs] at h; subst h; rfl
  | (t, effs) :: l, r, h => by
    simp only [schedDurEffs] at h
    split at h
    · cases h
    · cases h
    · split at h
      · cases h
      · rename_i l' hl
        cases h
        simp [schedDurEffs_length hl]

theorem stepItems_length {W : World} {st : Step} {idx : Nat} {ev : List Sched} {cs : List DCond}
    (h : stepItems W st idx = .ok (some (ev, cs))) : ev.length = pushes st := by
  unfold stepItems at h
  unfold pushes
  split at h
  · rename_i d hd
    rw [hd]
    split at h
    · cases h
    · simp only at h
      split at h
      · cases h
      · rename_i p hp
        split at h
        · cases h
        · cases h
          exact schedDurEffs_length hp
  · rename_i a ha
    rw [ha]
    split at h
    · cases h
    · cases h
    · cases h; rfl

theorem stepsItems_mem {W : World} : ∀ {acts : List (Step × Nat)} {E : List Sched} {C : List DCond},
    stepsItems W acts = some (E, C) →
      ∀ x ∈ E, ∃ a ∈ acts, ∃ ev cs, stepItems W a.1 a.2 = .ok (some (ev, cs)) ∧ x ∈ ev
  | [], E, C, h => by
    simp [stepsItems] at h
    obtain ⟨rfl, rfl⟩ := h
    intro x hx; cases hx
  | (st, idx) :: r, E, C, h => by
    simp only [stepsItems] at h
    split at h
    · rename_i ev cs E' C' h1 h2
      cases h
      intro x hx
      simp only [List.mem_append] at hx
      rcases hx with hx | hx
      · exact ⟨(st, idx), by simp, ev, cs, h1, hx⟩
      · obtain ⟨a, ha, ev', cs', h3, h4⟩ := stepsItems_mem h2 x hx
        exact ⟨a, by simp [ha], ev', cs', h3, h4⟩
    · cases h

/-! ### events of one instant -/

theorem eventsAt_append (A B : List Sched) (t : Rat) : eventsAt (A ++ B) t = eventsAt A t ++ eventsAt B t := by
  simp [eventsAt]

theorem eventsAt_nil_of_ne {B : List Sched} {t : Rat} (h : ∀ x ∈ B, x.time ≠ t) : eventsAt B t = [] := by
  simp only [eventsAt, List.map_eq_nil_iff, List.filter_eq_nil_iff]
  intro x hx
  simpa using h x hx

theorem eventsAt_later {A : List Sched} {m t : Rat} (h : t ≠ m) :
    eventsAt (A.filter (fun x => x.time ≠ m)) t = eventsAt A t := by
  simp only [eventsAt, List.filter_filter]
  congr 1
  apply List.filter_congr
  intro x _
  by_cases e : x.time = t
  · simp [e, h]
  · simp [e]

theorem timelineS_congr {W : World} {E E' : List Sched} : ∀ {ts : List Rat} {s : SimState},
    (∀ t ∈ ts, eventsAt E t = eventsAt E' t) → timelineS W E s ts = timelineS W E' s ts
  | [], _, _ => rfl
  | t :: ts, s, h => by
    simp only [timelineS]
    rw [h t (by simp)]
    cases applyEffects W s (eventsAt E' t) with
    | error x => rfl
    | ok s' =>
      simp only
      rw [timelineS_congr (fun t' ht' => h t' (by simp [ht']))]

/-- the least scheduled time is the first instant, and the other instants are those of what remains -/
theorem happenings_pop {A B : List Sched} {m : Rat} (hm : ∃ x ∈ A, x.time = m) (hle : ∀ x ∈ A, m ≤ x.time)
    (hB : ∀ x ∈ B, m < x.time) :
    happenings (A ++ B) = m :: happenings (A.filter (fun x => x.time ≠ m) ++ B) := by
  apply strictAsc_ext (strictAsc_happenings _)
  · unfold StrictAsc
    rw [List.pairwise_cons]
    refine ⟨?_, strictAsc_happenings _⟩
    intro t ht
    rw [mem_happenings] at ht
    obtain ⟨ev, hev, rfl⟩ := ht
    simp only [List.mem_append, List.mem_filter] at hev
    rcases hev with hev | hev
    · have h1 := hle ev hev.1
      have h2 : ev.time ≠ m := by simpa using hev.2
      grind
    · exact hB ev hev
  · intro t
    simp only [List.mem_cons, mem_happenings, List.mem_append, List.mem_filter]
    constructor
    · rintro ⟨ev, hev, rfl⟩
      by_cases e : ev.time = m
      · exact Or.inl e
      · right
        rcases hev with hev | hev
        · exact ⟨ev, Or.inl ⟨hev, by simpa using e⟩, rfl⟩
        · exact ⟨ev, Or.inr hev, rfl⟩
    · rintro (rfl | ⟨ev, hev, rfl⟩)
      · obtain ⟨x, hx, hxm⟩ := hm
        exact ⟨x, Or.inl hx, hxm⟩
      · rcases hev with hev | hev
        · exact ⟨ev, Or.inl hev.1, rfl⟩
        · exact ⟨ev, Or.inr hev, rfl⟩

/-! ### the loop -/

theorem cont_iff {r : Except Err (Verdict ⊕ Loop)} {k : Loop → Except Err (Verdict ⊕ Loop)} {Lf : Loop} :
    (match r with
      | .ok (.inr L') => k L'
      | r => r) = .ok (.inr Lf) ↔ ∃ L', r = .ok (.inr L') ∧ k L' = .ok (.inr Lf) := by
  cases r with
  | error e => simp
  | ok x =>
    cases x with
    | inl v => simp
    | inr L' => simp

theorem startStep_inr {W : World} {L L' : Loop} {st : Step} {idx : Nat} {rest : List (Step × Nat)} :
    startStep W L st idx rest = .ok (.inr L') ↔
      ∃ ev cs, stepItems W st idx = .ok (some (ev, cs)) ∧
        L' = { L with acts := rest, sched := L.sched ++ ev, conds := L.conds ++ cs } := by
  unfold startStep
  cases h : stepItems W st idx with
  | error x => simp
  | ok o =>
    cases o with
    | none => simp
    | some p =>
      obtain ⟨ev, cs⟩ := p
      simp only [Except.ok.injEq, Sum.inr.injEq, Option.some.injEq, Prod.mk.injEq]
      constructor
      · intro h'; exact ⟨ev, cs, ⟨rfl, rfl⟩, h'.symm⟩
      · rintro ⟨ev', cs', ⟨rfl, rfl⟩, h'⟩; exact h'.symm

theorem effectsStep_inr {W : World} {L L' : Loop} {m : Rat} :
    effectsStep W L m = .ok (.inr L') ↔
      ∃ s', applyEffects W L.last (eventsAt L.sched m) = .ok s' ∧
        L' = { L with sched := L.sched.filter (fun x => x.time ≠ m), last := s', trace := L.trace.set m s' } := by
  unfold effectsStep
  simp only
  show (match applyEffects W L.last (eventsAt L.sched m) with
    | .error .conflict => _
    | .error (.eval .missing) => _
    | .error .invalid => _
    | .error (.eval x) => _
    | .ok s' => _) = _ ↔ _
  cases h : applyEffects W L.last (eventsAt L.sched m) with
  | error e =>
    cases e with
    | conflict => simp
    | invalid => simp
    | eval x => cases x <;> simp
  | ok s' =>
    simp only [Except.ok.injEq, Sum.inr.injEq]
    constructor
    · intro h'; exact ⟨s', rfl, h'.symm⟩
    · rintro ⟨s'', h1, h2⟩; cases h1; exact h2.symm

theorem finalLoop_start (L : Loop) (rest : List (Step × Nat)) (ev : List Sched) (cs C : List DCond)
    (tl : List (Rat × SimState)) :
    finalLoop { L with acts := rest, sched := L.sched ++ ev, conds := L.conds ++ cs } C tl = finalLoop L (cs ++ C) tl := by
  simp [finalLoop, List.append_assoc]

theorem finalLoop_effects (L : Loop) (later : List Sched) (m : Rat) (s' : SimState) (C : List DCond)
    (tl : List (Rat × SimState)) :
    finalLoop { L with sched := later, last := s', trace := L.trace.set m s' } C tl = finalLoop L C ((m, s') :: tl) := by
  simp [finalLoop, lastAfter, traceAfter]

/-- the start branch of one iteration -/
theorem start_case {W : World} {L : Loop} {st : Step} {idx : Nat} {rest : List (Step × Nat)} {fuel : Nat}
    (hacts : L.acts = (st, idx) :: rest) (Lf : Loop)
    (ih : ∀ L', L'.acts = rest → (∀ ev cs, stepItems W st idx = .ok (some (ev, cs)) → L'.sched = L.sched ++ ev →
      (run W fuel L' = .ok (.inr Lf) ↔
        ∃ E' C' tl, stepsItems W L'.acts = some (E', C') ∧
          timelineS W (L'.sched ++ E') L'.last (happenings (L'.sched ++ E')) = some tl ∧ Lf = finalLoop L' C' tl))) :
    (match startStep W L st idx rest with
      | .ok (.inr L') => run W fuel L'
      | r => r) = .ok (.inr Lf) ↔
    ∃ E' C' tl, stepsItems W L.acts = some (E', C') ∧
      timelineS W (L.sched ++ E') L.last (happenings (L.sched ++ E')) = some tl ∧ Lf = finalLoop L C' tl := by
  rw [cont_iff]
  constructor
  · rintro ⟨L', hs, hr⟩
    obtain ⟨ev, cs, hi, rfl⟩ := startStep_inr.1 hs
    obtain ⟨E', C', tl, h1, h2, h3⟩ := (ih _ rfl ev cs hi rfl).1 hr
    refine ⟨ev ++ E', cs ++ C', tl, ?_, ?_, ?_⟩
    · rw [hacts]; simp only [stepsItems, hi]
      simp only at h1
      rw [h1]
    · simpa [List.append_assoc] using h2
    · rw [h3, finalLoop_start]
  · rintro ⟨E', C', tl, h1, h2, h3⟩
    rw [hacts] at h1
    simp only [stepsItems] at h1
    split at h1
    · rename_i ev cs E'' C'' hi hr
      cases h1
      refine ⟨_, startStep_inr.2 ⟨ev, cs, hi, rfl⟩, ?_⟩
      apply (ih _ rfl ev cs hi rfl).2
      refine ⟨E'', C'', tl, hr, ?_, ?_⟩
      · simpa [List.append_assoc] using h2
      · rw [h3, finalLoop_start]
    · cases h1

/-- the effects branch of one iteration -/
theorem effects_case {W : World} {L : Loop} {m : Rat} {fuel : Nat}
    (hm : minTime L.sched = some m)
    (hlate : ∀ E' C', stepsItems W L.acts = some (E', C') → ∀ x ∈ E', m < x.time) (Lf : Loop)
    (ih : ∀ L', L'.acts = L.acts → L'.sched = L.sched.filter (fun x => x.time ≠ m) →
      (run W fuel L' = .ok (.inr Lf) ↔
        ∃ E' C' tl, stepsItems W L'.acts = some (E', C') ∧
          timelineS W (L'.sched ++ E') L'.last (happenings (L'.sched ++ E')) = some tl ∧ Lf = finalLoop L' C' tl)) :
    (match effectsStep W L m with
      | .ok (.inr L') => run W fuel L'
      | r => r) = .ok (.inr Lf) ↔
    ∃ E' C' tl, stepsItems W L.acts = some (E', C') ∧
      timelineS W (L.sched ++ E') L.last (happenings (L.sched ++ E')) = some tl ∧ Lf = finalLoop L C' tl := by
  obtain ⟨hex, hle⟩ := minTime_some hm
  have key : ∀ E' C', stepsItems W L.acts = some (E', C') → ∀ s : SimState,
      happenings (L.sched ++ E') = m :: happenings (L.sched.filter (fun x => x.time ≠ m) ++ E') ∧
      eventsAt (L.sched ++ E') m = eventsAt L.sched m ∧
      timelineS W (L.sched ++ E') s (happenings (L.sched.filter (fun x => x.time ≠ m) ++ E')) =
        timelineS W (L.sched.filter (fun x => x.time ≠ m) ++ E') s (happenings (L.sched.filter (fun x => x.time ≠ m) ++ E')) := by
    intro E' C' hE s
    have hB := hlate E' C' hE
    refine ⟨happenings_pop hex hle hB, ?_, ?_⟩
    · rw [eventsAt_append, eventsAt_nil_of_ne (B := E') (fun x hx => by have := hB x hx; grind)]
      simp
    · apply timelineS_congr
      intro t ht
      have htm : t ≠ m := by
        rw [mem_happenings] at ht
        obtain ⟨ev, hev, rfl⟩ := ht
        simp only [List.mem_append, List.mem_filter] at hev
        rcases hev with hev | hev
        · simpa using hev.2
        · have := hB ev hev; grind
      rw [eventsAt_append, eventsAt_append, eventsAt_later htm]
  rw [cont_iff]
  constructor
  · rintro ⟨L', hs, hr⟩
    obtain ⟨s', ha, rfl⟩ := effectsStep_inr.1 hs
    obtain ⟨E', C', tl, h1, h2, h3⟩ :=
      (ih { L with sched := L.sched.filter (fun x => x.time ≠ m), last := s', trace := L.trace.set m s' } rfl rfl).1 hr
    simp only at h1 h2
    obtain ⟨k1, k2, k3⟩ := key E' C' h1 s'
    refine ⟨E', C', (m, s') :: tl, h1, ?_, ?_⟩
    · rw [k1]
      simp only [timelineS, k2, ha, k3, h2, Option.map_some]
    · rw [h3, finalLoop_effects]
  · rintro ⟨E', C', tl, h1, h2, h3⟩
    obtain ⟨k1, k2, _⟩ := key E' C' h1 L.last
    rw [k1] at h2
    simp only [timelineS, k2] at h2
    cases ha : applyEffects W L.last (eventsAt L.sched m) with
    | error e => rw [ha] at h2; cases h2
    | ok s' =>
      rw [ha] at h2
      simp only at h2
      obtain ⟨_, _, k3⟩ := key E' C' h1 s'
      rw [k3] at h2
      cases htl : timelineS W (L.sched.filter (fun x => x.time ≠ m) ++ E') s'
          (happenings (L.sched.filter (fun x => x.time ≠ m) ++ E')) with
      | none => rw [htl] at h2; cases h2
      | some tl' =>
        rw [htl] at h2
        simp only [Option.map_some, Option.some.injEq] at h2
        subst h2
        refine ⟨_, effectsStep_inr.2 ⟨s', ha, rfl⟩, ?_⟩
        apply (ih { L with sched := L.sched.filter (fun x => x.time ≠ m), last := s', trace := L.trace.set m s' } rfl rfl).2
        exact ⟨E', C', tl', h1, htl, by rw [h3, finalLoop_effects]⟩

theorem length_filter_lt {α : Type} {p : α → Bool} : ∀ {l : List α}, (∃ x ∈ l, p x = false) →
    (l.filter p).length < l.length
  | [], h => by obtain ⟨x, hx, _⟩ := h; cases hx
  | y :: ys, h => by
    simp only [List.filter]
    cases hp : p y with
    | false =>
      simp only [List.length_cons]
      have := List.length_filter_le p ys
      omega
    | true =>
      simp only [List.length_cons]
      obtain ⟨x, hx, hpx⟩ := h
      simp only [List.mem_cons] at hx
      rcases hx with rfl | hx
      · rw [hp] at hpx; cases hpx
      · have := length_filter_lt (l := ys) ⟨x, hx, hpx⟩
        omega

theorem late_of_sorted {W : World} {acts : List (Step × Nat)} {m : Rat}
    (hw : WellTimed W acts) (hlt : ∀ a ∈ acts, m < a.1.start) :
    ∀ E' C', stepsItems W acts = some (E', C') → ∀ x ∈ E', m < x.time := by
  intro E' C' hE x hx
  obtain ⟨a, ha, ev, cs, hi, hxe⟩ := stepsItems_mem hE x hx
  have h1 := hw a ha ev cs hi x hxe
  have h2 := hlt a ha
  grind

/-- THE LOOP LEMMA -/
theorem run_spec (W : World) : ∀ (fuel : Nat) (L : Loop), measure L < fuel → ActsSorted L.acts → WellTimed W L.acts →
    ∀ Lf, (run W fuel L = .ok (.inr Lf) ↔
      ∃ E' C' tl, stepsItems W L.acts = some (E', C') ∧
        timelineS W (L.sched ++ E') L.last (happenings (L.sched ++ E')) = some tl ∧ Lf = finalLoop L C' tl)
  | 0, L, h, _, _, _ => by omega
  | fuel + 1, L, hm, hs, hw, Lf => by
    have startIH : ∀ st idx rest, L.acts = (st, idx) :: rest →
        ∀ L', L'.acts = rest → (∀ ev cs, stepItems W st idx = .ok (some (ev, cs)) → L'.sched = L.sched ++ ev →
          (run W fuel L' = .ok (.inr Lf) ↔
            ∃ E' C' tl, stepsItems W L'.acts = some (E', C') ∧
              timelineS W (L'.sched ++ E') L'.last (happenings (L'.sched ++ E')) = some tl ∧ Lf = finalLoop L' C' tl)) := by
      intro st idx rest hacts L' hL' ev cs hi hsch
      have hlen := stepItems_length hi
      apply run_spec W fuel L' _ _ _ Lf
      · unfold measure at hm ⊢
        rw [hacts] at hm
        rw [hL', hsch]
        simp only [List.length_cons, List.map_cons, List.sum_cons, List.length_append] at hm ⊢
        omega
      · rw [hL']; rw [hacts] at hs
        exact (List.pairwise_cons.1 hs).2
      · rw [hL']; rw [hacts] at hw
        intro a ha; exact hw a (by simp [ha])
    have effIH : ∀ m, minTime L.sched = some m →
        ∀ L', L'.acts = L.acts → L'.sched = L.sched.filter (fun x => x.time ≠ m) →
          (run W fuel L' = .ok (.inr Lf) ↔
            ∃ E' C' tl, stepsItems W L'.acts = some (E', C') ∧
              timelineS W (L'.sched ++ E') L'.last (happenings (L'.sched ++ E')) = some tl ∧ Lf = finalLoop L' C' tl) := by
      intro m hmin L' hL' hsch
      obtain ⟨⟨x, hx, hxm⟩, _⟩ := minTime_some hmin
      apply run_spec W fuel L' _ _ _ Lf
      · unfold measure at hm ⊢
        rw [hL', hsch]
        have := length_filter_lt (p := fun x : Sched => decide (x.time ≠ m)) (l := L.sched) ⟨x, hx, by simp [hxm]⟩
        omega
      · rw [hL']; exact hs
      · rw [hL']; exact hw
    unfold run
    split
    · -- nothing left
      rename_i hacts hmin
      have hsch := minTime_none.1 hmin
      constructor
      · intro h
        simp only [Except.ok.injEq, Sum.inr.injEq] at h
        subst h
        refine ⟨[], [], [], by rw [hacts]; rfl, by rw [hsch]; rfl, ?_⟩
        cases L
        simp only at hacts hsch
        subst hacts; subst hsch
        simp [finalLoop, lastAfter, traceAfter]
      · rintro ⟨E', C', tl, h1, h2, h3⟩
        rw [hacts] at h1
        simp only [stepsItems, Option.some.injEq, Prod.mk.injEq] at h1
        obtain ⟨rfl, rfl⟩ := h1
        rw [hsch] at h2
        simp only [List.append_nil, happenings, List.foldr_nil, timelineS, Option.some.injEq] at h2
        subst h2
        rw [h3]
        cases L
        simp only at hacts hsch
        subst hacts; subst hsch
        simp [finalLoop, lastAfter, traceAfter]
    · rename_i st idx rest hacts hmin
      exact start_case hacts Lf (startIH st idx rest hacts)
    · rename_i m hacts hmin
      refine effects_case hmin ?_ Lf (effIH m hmin)
      intro E' C' hE
      rw [hacts] at hE
      simp only [stepsItems, Option.some.injEq, Prod.mk.injEq] at hE
      obtain ⟨rfl, rfl⟩ := hE
      intro x hx; cases hx
    · rename_i st idx rest m hacts hmin
      split
      · exact start_case hacts Lf (startIH st idx rest hacts)
      · rename_i hlt
        refine effects_case hmin (late_of_sorted hw ?_) Lf (effIH m hmin)
        intro a ha
        rw [hacts] at ha hs
        simp only [List.mem_cons] at ha
        rcases ha with rfl | ha
        · show m < st.start; grind
        · have := (List.pairwise_cons.1 hs).1 a ha
          have : st.start ≤ a.1.start := this
          grind

end UPVerif.TT
