import UPVerif.Lemmas.CompileNCRAct
/-!
`NegativeConditionsRemover` (model: Core/Compile/NCR.lean) as a forward AND a backward simulation between the transition
systems of the original and of the compiled problem, with the relation `StRel M` (`M` = the final fluent mapping):

  the compiled state restricted to the original fluents is the original state, and every complementary fluent holds
  the negation of its fluent on every ground instance.

`ncrOK` collects the decidable hypotheses (what they mean and why each is there: `Props/C06NCR.lean`).
-/
namespace UPVerif.Compile
open UPVerif UPVerif.Expr UPVerif.Sim UPVerif.Spec UPVerif.Simulation

/-! ### lists -/

theorem All2.comp {α β γ : Type} {R : α → β → Prop} {S : β → γ → Prop} : ∀ {l1 : List α} {l2 : List β} {l3 : List γ},
    All2 R l1 l2 → All2 S l2 l3 → All2 (fun a c => ∃ b, R a b ∧ S b c) l1 l3
  | _, _, _, .nil, .nil => .nil
  | _, _, _, .cons h1 t1, .cons h2 t2 => .cons ⟨_, h1, h2⟩ (All2.comp t1 t2)

theorem mapOpt_all2 {α β : Type} {f : α → Option β} : ∀ {l : List α} {l' : List β}, mapOpt f l = some l' →
    All2 (fun a b => f a = some b) l l'
  | [], l', h => by simp [mapOpt] at h; subst h; exact .nil
  | x :: xs, l', h => by
    obtain ⟨y, ys, hy, hys, rfl⟩ := mapOpt_cons h
    exact .cons hy (mapOpt_all2 hys)

theorem All2.getElem? {α β : Type} {R : α → β → Prop} : ∀ {l : List α} {l' : List β}, All2 R l l' → ∀ (i : Nat),
    (l[i]? = none ∧ l'[i]? = none) ∨ ∃ a b, l[i]? = some a ∧ l'[i]? = some b ∧ R a b
  | _, _, .nil, i => Or.inl ⟨rfl, rfl⟩
  | _, _, .cons h t, 0 => Or.inr ⟨_, _, rfl, rfl, h⟩
  | _, _, .cons _ t, i + 1 => by
    simp only [List.getElem?_cons_succ]
    exact All2.getElem? t i

theorem mapM_eq_mapOpt {α β : Type} (f : α → Option β) : ∀ (l : List α), l.mapM f = mapOpt f l
  | [] => rfl
  | x :: xs => by
    rw [List.mapM_cons, mapM_eq_mapOpt f xs]
    simp only [mapOpt]
    cases f x <;> cases mapOpt f xs <;> rfl

/-! ### unpacking `_compile` -/

theorem ncrTraj_le {simp : Expr → Expr} {P : Problem} {m m' : NMap} {e e' : Expr} (h : ncrTraj simp P m e = some (e', m')) :
    NMap.le m m' := by
  unfold ncrTraj at h
  cases hr : nfrRemove simp P m e with
  | none => rw [hr] at h; cases h
  | some r =>
    obtain ⟨t, m1⟩ := r
    rw [hr] at h
    dsimp only at h
    split at h
    · injection h with h; injection h with _ h2; subst h2
      exact nfrRemove_le hr
    · cases h

theorem ncrMetric1_le {simp : Expr → Expr} {P : Problem} {m m' : NMap} {q q' : Metric}
    (h : ncrMetric1 simp P m q = some (q', m')) : NMap.le m m' := by
  unfold ncrMetric1 at h
  split at h
  · rename_i goals
    cases hr : mapAccum (fun m (gw : Expr × Rat) => (nfrRemove simp P m gw.1).map (fun r => ((r.1, gw.2), r.2))) m goals with
    | none => rw [hr] at h; cases h
    | some r =>
      obtain ⟨gs, m1⟩ := r
      rw [hr] at h
      injection h with h; injection h with _ h2; subst h2
      refine (mapAccum_spec ?_ goals m gs m1 hr).1
      intro mi x y mi' hxy
      cases hn : nfrRemove simp P mi x.1 with
      | none => rw [hn] at hxy; cases hxy
      | some r2 =>
        rw [hn] at hxy
        simp only [Option.map_some, Option.some.injEq, Prod.mk.injEq] at hxy
        rw [← hxy.2]
        exact nfrRemove_le hn
  · injection h with h; injection h with _ h2; subst h2
    exact NMap.le_refl m

theorem ncrAction1_spec {simp : Expr → Expr} {P : Problem} {m m' : NMap} {a a1 : Action}
    (h : ncrAction1 simp P m a = some (a1, m')) :
    NMap.le m m' ∧ ∃ pres effs1,
      All2 (fun p p' => ∃ mi mi', nfrRemove simp P mi p = some (p', mi') ∧ NMap.le mi' m') a.pre pres ∧
      All2 (EffRel1 simp P m') a.effs effs1 ∧
      a1 = { a with pre := pres.foldl addPre [], effs := effs1 } := by
  unfold ncrAction1 at h
  cases hp : mapAccum (nfrRemove simp P) m a.pre with
  | none => rw [hp] at h; cases h
  | some r =>
    obtain ⟨pres, mA⟩ := r
    rw [hp] at h
    dsimp only at h
    cases he : mapAccum (ncrEffCond simp P) mA a.effs with
    | none => rw [he] at h; cases h
    | some r2 =>
      obtain ⟨effs1, mB⟩ := r2
      rw [he] at h
      injection h with h; injection h with h1 h2; subst h2
      obtain ⟨hle1, hall1⟩ := mapAccum_spec (fun _ _ _ _ hh => nfrRemove_le hh) a.pre m pres mA hp
      obtain ⟨hle2, hall2⟩ := mapAccum_spec (fun _ _ _ _ hh => ncrEffCond_le hh) a.effs mA effs1 mB he
      refine ⟨NMap.le_trans hle1 hle2, pres, effs1, ?_, hall2, h1.symm⟩
      exact hall1.imp (fun p p' ⟨mi, mi', hr, hl⟩ => ⟨mi, mi', hr, NMap.le_trans hl hle2⟩)

theorem ncrAction2_spec {simp : Expr → Expr} {M : NMap} {a1 a2 : Action} (h : ncrAction2 simp M a1 = some a2) :
    ∃ ms, mapOpt (ncrMirror simp M) a1.effs = some ms ∧ a2 = { a1 with effs := a1.effs ++ ms.filterMap id } := by
  unfold ncrAction2 at h
  cases hm : mapOpt (ncrMirror simp M) a1.effs with
  | none => rw [hm] at h; cases h
  | some ms =>
    rw [hm] at h
    injection h with h
    exact ⟨ms, rfl, h.symm⟩

/-- what `ncrCompile = some c` says -/
structure NcrOut (simp : Expr → Expr) (P : Problem) (c : Compiled) (M : NMap) (goalsR : List Expr) : Prop where
  types : c.prob.types = P.types
  objects : c.prob.objects = P.objects
  fluents : c.prob.fluents = ncrFluents M P.fluents
  init : ncrInit M (ncrInitialValues P) = some c.prob.init
  goals : c.prob.goals = goalsR.foldl addGoal []
  goalsRel : All2 (fun p p' => ∃ mi mi', nfrRemove simp P mi p = some (p', mi') ∧ NMap.le mi' M) P.goals goalsR
  traj : P.traj = [] → c.prob.traj = []
  acts : All2 (ActRel simp P M) P.actions c.prob.actions
  back : c.back = (List.range P.actions.length).map some
  map : (ncrPass1 simp P).map (·.map) = some M

theorem ncrCompile_some {simp : Expr → Expr} {P : Problem} {c : Compiled} (h : ncrCompile simp P = some c) :
    ∃ M goalsR, NcrOut simp P c M goalsR := by
  unfold ncrCompile at h
  cases hp1 : ncrPass1 simp P with
  | none => rw [hp1] at h; cases h
  | some p1 =>
    rw [hp1] at h
    dsimp only at h
    cases hi : ncrInit p1.map (ncrInitialValues P) with
    | none => rw [hi] at h; cases h
    | some init =>
      rw [hi] at h
      dsimp only at h
      cases ha : mapOpt (ncrAction2 simp p1.map) p1.acts with
      | none => rw [ha] at h; cases h
      | some acts =>
        rw [ha] at h
        injection h with h
        subst h
        -- the first pass
        have hmap : (ncrPass1 simp P).map (·.map) = some p1.map := by rw [hp1]; rfl
        unfold ncrPass1 at hp1
        cases h1 : mapAccum (ncrAction1 simp P) [] P.actions with
        | none => rw [h1] at hp1; cases hp1
        | some r1 =>
          obtain ⟨acts1, m1⟩ := r1
          rw [h1] at hp1
          dsimp only at hp1
          cases h2 : mapAccum (nfrRemove simp P) m1 P.goals with
          | none => rw [h2] at hp1; cases hp1
          | some r2 =>
            obtain ⟨goals, m2⟩ := r2
            rw [h2] at hp1
            dsimp only at hp1
            cases h3 : mapAccum (ncrTraj simp P) m2 P.traj with
            | none => rw [h3] at hp1; cases hp1
            | some r3 =>
              obtain ⟨traj, m3⟩ := r3
              rw [h3] at hp1
              dsimp only at hp1
              cases h4 : mapAccum (ncrMetric1 simp P) m3 P.metrics with
              | none => rw [h4] at hp1; cases hp1
              | some r4 =>
                obtain ⟨metrics, M⟩ := r4
                rw [h4] at hp1
                injection hp1 with hp1
                subst hp1
                obtain ⟨_, hA⟩ := mapAccum_spec (fun _ _ _ _ hh => (ncrAction1_spec hh).1) P.actions [] acts1 m1 h1
                obtain ⟨hle2, hG⟩ := mapAccum_spec (fun _ _ _ _ hh => nfrRemove_le hh) P.goals m1 goals m2 h2
                obtain ⟨hle3, _⟩ := mapAccum_spec (fun _ _ _ _ hh => ncrTraj_le hh) P.traj m2 traj m3 h3
                obtain ⟨hle4, _⟩ := mapAccum_spec (fun _ _ _ _ hh => ncrMetric1_le hh) P.metrics m3 metrics M h4
                have h2M : NMap.le m2 M := NMap.le_trans hle3 hle4
                have h1M : NMap.le m1 M := NMap.le_trans hle2 h2M
                refine ⟨M, goals, ⟨rfl, rfl, rfl, hi, rfl, ?_, ?_, ?_, rfl, hmap⟩⟩
                · exact hG.imp (fun p p' ⟨mi, mi', hr, hl⟩ => ⟨mi, mi', hr, NMap.le_trans hl h2M⟩)
                · intro ht
                  rw [ht] at h3
                  simp [mapAccum] at h3
                  show traj = []
                  exact h3.1
                · -- the two loops over the actions, composed
                  have hB := mapOpt_all2 ha
                  have hAB := All2.comp hA hB
                  refine hAB.imp ?_
                  intro a a2 ⟨a1, ⟨mi, mi', h1a, hle⟩, h2a⟩
                  obtain ⟨_, pres, effs1, hpre, heff, rfl⟩ := ncrAction1_spec h1a
                  obtain ⟨ms, hms, rfl⟩ := ncrAction2_spec h2a
                  have hmM : NMap.le mi' M := NMap.le_trans hle h1M
                  exact ⟨rfl,
                    ⟨pres, hpre.imp (fun p p' ⟨ni, ni', hr, hl⟩ => ⟨ni, ni', hr, NMap.le_trans hl hmM⟩), rfl⟩,
                    ⟨effs1, ms, heff.imp (fun e e1 ⟨ni, ni', hr, hl⟩ => ⟨ni, ni', hr, NMap.le_trans hl hmM⟩), hms, rfl⟩⟩

/-! ### the decidable hypotheses -/

/-- decidable form of `MapOK` -/
def mapOKB (M : NMap) : Bool :=
  decide ((M.map (·.1)).Nodup) && decide ((M.map (·.2)).Nodup) &&
    M.all (fun kv => decide (kv.1.ty = .bool) && decide (kv.2.ty = .bool))

theorem mapOK_of {M : NMap} (h : mapOKB M = true) : MapOK M := by
  unfold mapOKB at h
  simp only [Bool.and_eq_true, decide_eq_true_eq, List.all_eq_true] at h
  exact ⟨h.1.1, h.1.2, fun kv hkv => h.2 kv hkv⟩

/-- an explicit initial value is not given to a complementary fluent -/
def targetFree (M : NMap) (fv : Expr × Expr) : Bool :=
  match fv.1 with
  | .app (.fluent f) _ => !decide (f ∈ M.fresh)
  | _ => true

/-- the hypotheses of the NegativeConditionsRemover theorems on a problem, given the final mapping -/
def ncrOKWith (simp : Expr → Expr) (P : Problem) (M : NMap) : Bool :=
  mapOKB M && P.traj.isEmpty && P.fluents.all (fun d => d.default.isNone) &&
    P.actions.all (fun a => !a.params.isEmpty || actOK simp P M a) && P.goals.all (condOK simp M) &&
    (boundInvs P).all (fun si => !mentionsAny M.fresh si) && P.init.all (targetFree M)

/-- … with the mapping the compilation computes (`false` when the compiler raises) -/
def ncrOK (simp : Expr → Expr) (P : Problem) : Bool :=
  match ncrPass1 simp P with
  | none => false
  | some p1 => ncrOKWith simp P p1.map

structure NcrHyp (simp : Expr → Expr) (P : Problem) (M : NMap) : Prop where
  map : MapOK M
  traj : P.traj = []
  noDefaults : ∀ d ∈ P.fluents, d.default = none
  acts : ∀ a ∈ P.actions, a.params.isEmpty = true → actOK simp P M a = true
  goals : ∀ g ∈ P.goals, condOK simp M g = true
  invFree : ∀ si ∈ boundInvs P, mentionsAny M.fresh si = false
  initFree : ∀ fv ∈ P.init, targetFree M fv = true

theorem ncrHyp_of {simp : Expr → Expr} {P : Problem} {M : NMap} (h : ncrOKWith simp P M = true) : NcrHyp simp P M := by
  unfold ncrOKWith at h
  simp only [Bool.and_eq_true, List.all_eq_true, List.isEmpty_iff, Option.isNone_iff_eq_none, Bool.or_eq_true,
    Bool.not_eq_true'] at h
  obtain ⟨⟨⟨⟨⟨⟨h1, h2⟩, h3⟩, h4⟩, h5⟩, h6⟩, h7⟩ := h
  refine ⟨mapOK_of h1, h2, h3, ?_, h5, h6, h7⟩
  intro a ha hp
  rcases h4 a ha with h | h
  · rw [hp] at h; cases h
  · exact h

theorem ncrHyp_of_ok {simp : Expr → Expr} {P : Problem} {c : Compiled} {M : NMap} {gs : List Expr}
    (hout : NcrOut simp P c M gs) (h : ncrOK simp P = true) : NcrHyp simp P M := by
  unfold ncrOK at h
  have hm := hout.map
  cases hp : ncrPass1 simp P with
  | none => rw [hp] at h; cases h
  | some p1 =>
    rw [hp] at h hm
    simp only [Option.map_some, Option.some.injEq] at hm
    subst hm
    exact ncrHyp_of h

/-! ### what a step reads of the compiled problem -/

theorem invariants_traj_nil {W : World} (h : W.P.traj = []) : invariants W = boundInvs W.P := by
  unfold invariants boundInvs Sim.stateInvariants
  rw [h]
  rfl

/-- the bounds of one declared fluent, as `invariants` lists them -/
def bndOf (Q : Problem) (d : FluentDecl) : List Expr :=
  let (lb, ub) := boundsOf d.ref.ty
  (match lb with
    | some l => (allFluentExps Q d.ref).map (fun fe => mkLE l fe)
    | none => []) ++
  (match ub with
    | some u => (allFluentExps Q d.ref).map (fun fe => mkLE fe u)
    | none => [])

theorem boundInvs_eq (Q : Problem) : boundInvs Q = Q.fluents.flatMap (bndOf Q) := rfl

theorem bndOf_bool (Q : Problem) (d : FluentDecl) (h : d.ref.ty = .bool) : bndOf Q d = [] := by
  unfold bndOf
  rw [h]
  rfl

theorem flatMap_ncrFluents {β : Type} (M : NMap) (g : FluentDecl → List β) : ∀ (fl : List FluentDecl),
    (ncrFluents M fl).flatMap g = fl.flatMap (fun d => g ⟨d.ref, none⟩ ++ (match M.lookup d.ref with
      | some nf => g ⟨nf, none⟩
      | none => []))
  | [] => rfl
  | d :: fl => by
    have ih := flatMap_ncrFluents M g fl
    unfold ncrFluents at ih ⊢
    simp only [List.flatMap_cons, List.flatMap_append, ih]
    cases M.lookup d.ref <;> simp

theorem ncr_flatMap_congr {α β : Type} {f g : α → List β} : ∀ {l : List α}, (∀ x ∈ l, f x = g x) → l.flatMap f = l.flatMap g
  | [], _ => rfl
  | x :: xs, h => by
    rw [List.flatMap_cons, List.flatMap_cons, h x (List.mem_cons_self ..),
        ncr_flatMap_congr (fun y hy => h y (List.mem_cons_of_mem _ hy))]

theorem probRel_of {simp : Expr → Expr} {W : World} {c : Compiled} {M : NMap} {gs : List Expr}
    (hout : NcrOut simp W.P c M gs) (hh : NcrHyp simp W.P M) : ProbRel M W c.prob := by
  have hty := hout.types
  have hobj := hout.objects
  have hobjs : c.prob.objectsOf = W.P.objectsOf := by
    funext t; simp [Problem.objectsOf, hty, hobj]
  have h1 : tyDomain c.prob = tyDomain W.P := by
    funext t
    cases t <;> simp [Sim.tyDomain, hobjs]
  have h2 : objExpr c.prob = objExpr W.P := by
    funext o; simp [Sim.objExpr, hobj]
  refine ⟨hty, hobj, ?_, ?_⟩
  · have e1 : (withProblem W c.prob).P.traj = [] := hout.traj hh.traj
    rw [invariants_traj_nil e1, invariants_traj_nil hh.traj, boundInvs_eq, boundInvs_eq]
    have e2 : (withProblem W c.prob).P = c.prob := rfl
    rw [e2, hout.fluents, flatMap_ncrFluents]
    apply ncr_flatMap_congr
    intro d _
    have e3 : bndOf c.prob ⟨d.ref, none⟩ = bndOf W.P d := by
      unfold bndOf Sim.allFluentExps
      rw [h1, h2]
    rw [e3]
    cases hl : M.lookup d.ref with
    | none => simp
    | some nf =>
      dsimp only
      rw [bndOf_bool c.prob ⟨nf, none⟩ (hh.map.bool (d.ref, nf) (nmap_lookup_mem hl)).2, List.append_nil]
  · rw [invariants_traj_nil hh.traj]
    exact hh.invFree

/-! ### goals -/

theorem all_all2 {α : Type} {f f' : α → Bool} {l l' : List α} (h : All2 (fun x x' => f' x' = f x) l l') :
    l'.all f' = l.all f := by
  induction h with
  | nil => rfl
  | cons h1 _ ih => rw [List.all_cons, List.all_cons, h1, ih]

theorem holdsG_isTrue (W : World) (g : St) (e : Expr) : holdsG W g e = Spec.isTrue (eval (ctxOf W g) [] e) := by
  unfold holdsG; rw [isTrueB_evalBool]

theorem ncr_goal {simp : Expr → Expr} (hs : SimpExact simp) {W : World} {c : Compiled} {M : NMap} {gs : List Expr}
    (hout : NcrOut simp W.P c M gs) (hh : NcrHyp simp W.P M) {g' g : St} (hR : StRel M g' g) :
    goalOK (withProblem W c.prob) g' = goalOK W g := by
  have hQ := probRel_of hout hh
  have hc := hQ.ctx hR
  unfold goalOK
  have e2 : (withProblem W c.prob).P = c.prob := rfl
  rw [e2, hout.goals, all_foldl_addGoal _ (by rw [holdsG_isTrue]; rfl)]
  simp only [List.all_nil, Bool.true_and]
  apply all_all2
  have := pre_all2 hs hc hout.goalsRel hh.goals
  refine this.imp ?_
  intro p p' hp
  rw [holdsG_isTrue, holdsG_isTrue]
  exact isTrue_of_ev hp

/-! ### initial states -/

/-- one explicit initial value as a binding of the initial state (`Sim.initialState?`) -/
def kv? (fv : Expr × Expr) : Option (GKey × Val) := do
  let k ← keyOf? fv.1
  let v ← constVal? fv.2
  some (k, v)

theorem ncr_initialState?_eq (P : Problem) : initialState? P = (mapOpt kv? P.init).map (fun l => ⟨l⟩) := by
  unfold initialState?
  rw [mapM_eq_mapOpt]
  rfl

theorem kv?_fluent (f : FluentRef) (args : List Expr) (v : Expr) :
    kv? (.app (.fluent f) args, v) =
      (args.mapM constVal?).bind (fun vs => (constVal? v).map (fun w => ((f, vs), w))) := by
  unfold kv?
  show ((List.mapM constVal? args).map (fun vs => (f, vs))).bind (fun k => (constVal? v).bind (fun w => some (k, w))) = _
  cases List.mapM constVal? args <;> cases constVal? v <;> rfl

/-- the bindings of the compiled initial state against those of the original one -/
structure InitRel (M : NMap) (l' l : List (GKey × Val)) : Prop where
  agree : ∀ k : GKey, k.1 ∉ M.fresh → l'.lookup k = l.lookup k
  mirror : ∀ f nf, M.lookup f = some nf → ∀ vs, MirrorAt (l'.lookup (nf, vs)) (l.lookup (f, vs))

theorem ncr_lookup_cons_ne {k k1 : GKey} {v : Val} {l : List (GKey × Val)} (h : k ≠ k1) :
    ((k1, v) :: l).lookup k = l.lookup k := by
  simp only [List.lookup]
  have : (k == k1) = false := by simpa using h
  rw [this]

theorem ncr_lookup_cons_self {k : GKey} {v : Val} {l : List (GKey × Val)} : ((k, v) :: l).lookup k = some v := by
  simp [List.lookup]

theorem ncrInit_rel {M : NMap} (hM : MapOK M) : ∀ {L L' : List (Expr × Expr)}, (∀ fv ∈ L, targetFree M fv = true) →
    ncrInit M L = some L' → OptRel (InitRel M) (mapOpt kv? L') (mapOpt kv? L)
  | [], L', _, h => by
    simp [ncrInit] at h; subst h
    simp only [mapOpt, OptRel]
    exact ⟨fun _ _ => rfl, fun _ _ _ _ => Or.inl ⟨rfl, rfl⟩⟩
  | (fl, v) :: rest, L', hfree, h => by
    simp only [ncrInit] at h
    cases hr : ncrInit M rest with
    | none => rw [hr] at h; cases h
    | some out =>
      rw [hr] at h
      dsimp only at h
      have ih := ncrInit_rel hM (fun fv hfv => hfree fv (List.mem_cons_of_mem _ hfv)) hr
      have hfr := hfree (fl, v) (List.mem_cons_self ..)
      cases fl with
      | leaf l => cases h
      | quant q vs b => cases h
      | app op args =>
        cases op with
        | fluent f =>
          dsimp only at h
          have hfnf : f ∉ M.fresh := by simpa [targetFree] using hfr
          cases hl : M.lookup f with
          | none =>
            rw [hl] at h
            injection h with h; subst h
            simp only [mapOpt]
            cases hk : kv? (.app (.fluent f) args, v) with
            | none => simp [OptRel]
            | some kw =>
              -- the key of this binding
              have hkey : kw.1.1 = f := by
                rw [kv?_fluent] at hk
                cases hx : args.mapM constVal? with
                | none => rw [hx] at hk; cases hk
                | some vs =>
                  rw [hx] at hk
                  cases hv : constVal? v with
                  | none => rw [hv] at hk; cases hk
                  | some w => rw [hv] at hk; cases hk; rfl
              cases h1 : mapOpt kv? out with
              | none =>
                cases h2 : mapOpt kv? rest with
                | none => simp [OptRel]
                | some l => rw [h1, h2] at ih; exact absurd ih (by simp [OptRel])
              | some l' =>
                cases h2 : mapOpt kv? rest with
                | none => rw [h1, h2] at ih; exact absurd ih (by simp [OptRel])
                | some l =>
                  rw [h1, h2] at ih
                  simp only [OptRel] at ih ⊢
                  obtain ⟨kk, w⟩ := kw
                  constructor
                  · intro k hk'
                    by_cases hkk : k = kk
                    · subst hkk; rw [ncr_lookup_cons_self, ncr_lookup_cons_self]
                    · rw [ncr_lookup_cons_ne hkk, ncr_lookup_cons_ne hkk]; exact ih.agree k hk'
                  · intro f0 nf0 hl0 vs0
                    have hne1 : (nf0, vs0) ≠ kk := by
                      intro e
                      apply hfnf
                      rw [← hkey, ← e]
                      exact MapOK.fresh_of_lookup hl0
                    have hne2 : (f0, vs0) ≠ kk := by
                      intro e
                      simp only at hkey
                      rw [← e] at hkey
                      simp only at hkey
                      rw [hkey, hl] at hl0
                      cases hl0
                    rw [ncr_lookup_cons_ne hne1, ncr_lookup_cons_ne hne2]
                    exact ih.mirror f0 nf0 hl0 vs0
          | some nf =>
            rw [hl] at h
            dsimp only at h
            cases v with
            | leaf lf =>
              cases lf with
              | boolC b =>
                dsimp only at h
                injection h with h; subst h
                simp only [mapOpt]
                rw [kv?_fluent, kv?_fluent]
                cases hx : args.mapM constVal? with
                | none => simp [OptRel]
                | some vs =>
                  have hv1 : constVal? (.leaf (.boolC b)) = some (.b b) := rfl
                  have hv2 : constVal? (Expr.bool (!b)) = some (.b (!b)) := rfl
                  simp only [Option.bind_some, hv1, hv2, Option.map_some]
                  cases h1 : mapOpt kv? out with
                  | none =>
                    cases h2 : mapOpt kv? rest with
                    | none => simp [OptRel]
                    | some l => rw [h1, h2] at ih; exact absurd ih (by simp [OptRel])
                  | some l' =>
                    cases h2 : mapOpt kv? rest with
                    | none => rw [h1, h2] at ih; exact absurd ih (by simp [OptRel])
                    | some l =>
                      rw [h1, h2] at ih
                      simp only [OptRel] at ih ⊢
                      have hnfr : nf ∈ M.fresh := MapOK.fresh_of_lookup hl
                      constructor
                      · intro k hk'
                        by_cases hkk : k = (f, vs)
                        · subst hkk; rw [ncr_lookup_cons_self, ncr_lookup_cons_self]
                        · have hk2 : k ≠ (nf, vs) := by
                            intro e; subst e; exact hk' hnfr
                          rw [ncr_lookup_cons_ne hkk, ncr_lookup_cons_ne hk2, ncr_lookup_cons_ne hkk]
                          exact ih.agree k hk'
                      · intro f0 nf0 hl0 vs0
                        have hne1 : (nf0, vs0) ≠ (f, vs) := by
                          intro e
                          injection e with e1 _
                          apply hfnf
                          rw [← e1]
                          exact MapOK.fresh_of_lookup hl0
                        rw [ncr_lookup_cons_ne hne1]
                        by_cases hsame : (nf0, vs0) = (nf, vs)
                        · injection hsame with e1 e2
                          subst e1; subst e2
                          have hf0 : f0 = f := hM.inj hl0 hl
                          subst hf0
                          rw [ncr_lookup_cons_self, ncr_lookup_cons_self]
                          exact Or.inr ⟨b, rfl, rfl⟩
                        · have hne2 : (f0, vs0) ≠ (f, vs) := by
                            intro e
                            injection e with e1 e2
                            subst e1; subst e2
                            rw [hl] at hl0
                            injection hl0 with hl0
                            subst hl0
                            exact hsame rfl
                          rw [ncr_lookup_cons_ne hsame, ncr_lookup_cons_ne hne2]
                          exact ih.mirror f0 nf0 hl0 vs0
              | _ => cases h
            | app op2 as2 => cases h
            | quant q vs b => cases h
        | _ => cases h

theorem defaultOf_none {P : Problem} (h : ∀ d ∈ P.fluents, d.default = none) (f : FluentRef) : defaultOf P f = none := by
  unfold defaultOf
  cases hf : P.fluents.find? (fun d => d.ref == f) with
  | none => rfl
  | some d =>
    have hd := List.mem_of_find?_eq_some hf
    simp [h d hd]

theorem ncrFluents_default (M : NMap) : ∀ (fl : List FluentDecl), ∀ d ∈ ncrFluents M fl, d.default = none
  | [], d, hd => by simp [ncrFluents] at hd
  | x :: fl, d, hd => by
    unfold ncrFluents at hd
    simp only [List.flatMap_cons, List.mem_append, List.mem_cons] at hd
    rcases hd with hd | hd
    · rcases hd with hd | hd
      · rw [hd]
      · cases hl : M.lookup x.ref with
        | none => rw [hl] at hd; simp at hd
        | some nf => rw [hl] at hd; simp at hd; rw [hd]
    · exact ncrFluents_default M fl d hd

theorem get_of_noDefault {P : Problem} (h : ∀ d ∈ P.fluents, d.default = none) (s : SimState) (k : GKey) :
    s.get P k = s.vals.lookup k := by
  unfold SimState.get
  cases s.vals.lookup k with
  | some v => rfl
  | none => exact defaultOf_none h k.1

theorem initialValues_noDefault {P : Problem} (h : ∀ d ∈ P.fluents, d.default = none) : ncrInitialValues P = P.init := by
  unfold ncrInitialValues
  have : P.fluents.flatMap (fun d => (allFluentExps P d.ref).filterMap (fun fe =>
      if (P.init.lookup fe).isSome then none else d.default.map (fun v => (fe, v)))) = [] := by
    rw [List.flatMap_eq_nil_iff]
    intro d hd
    rw [List.filterMap_eq_nil_iff]
    intro fe _
    rw [h d hd]
    split <;> rfl
  rw [this, List.append_nil]

/-- the initial states are related (or neither problem has one) -/
theorem ncr_init {simp : Expr → Expr} {W : World} {c : Compiled} {M : NMap} {gs : List Expr}
    (hout : NcrOut simp W.P c M gs) (hh : NcrHyp simp W.P M) :
    OptRel (StRel M) (initOf (withProblem W c.prob)) (initOf W) := by
  have hQ := probRel_of hout hh
  have hinit := hout.init
  rw [initialValues_noDefault hh.noDefaults] at hinit
  have hrel := ncrInit_rel hh.map hh.initFree hinit
  have e2 : (withProblem W c.prob).P = c.prob := rfl
  have hd' : ∀ d ∈ c.prob.fluents, d.default = none := by
    rw [hout.fluents]; exact ncrFluents_default M _
  unfold initOf
  rw [e2, ncr_initialState?_eq, ncr_initialState?_eq]
  cases h1 : mapOpt kv? c.prob.init with
  | none =>
    cases h2 : mapOpt kv? W.P.init with
    | none => simp [OptRel]
    | some l => rw [h1, h2] at hrel; exact absurd hrel (by simp [OptRel])
  | some l' =>
    cases h2 : mapOpt kv? W.P.init with
    | none => rw [h1, h2] at hrel; exact absurd hrel (by simp [OptRel])
    | some l =>
      rw [h1, h2] at hrel
      simp only [OptRel] at hrel
      simp only [Option.map_some]
      have hst : StRel M ((⟨l'⟩ : SimState).get c.prob) ((⟨l⟩ : SimState).get W.P) := by
        constructor
        · intro k hk
          rw [get_of_noDefault hd', get_of_noDefault hh.noDefaults]
          exact hrel.agree k hk
        · intro f nf hl vs
          rw [get_of_noDefault hd', get_of_noDefault hh.noDefaults]
          exact hrel.mirror f nf hl vs
      rw [hQ.invOK hst]
      by_cases hi : invOK W (ctxOf W ((⟨l⟩ : SimState).get W.P)) = true
      · simp only [hi, if_true, OptRel]
        exact hst
      · simp [hi, OptRel]

/-! ### the two simulations -/

/-- the final fluent mapping of the compilation (`[]` when the compiler raises) -/
def ncrMap (simp : Expr → Expr) (P : Problem) : NMap := ((ncrPass1 simp P).map (·.map)).getD []

theorem ncrMap_eq {simp : Expr → Expr} {P : Problem} {c : Compiled} {M : NMap} {gs : List Expr}
    (hout : NcrOut simp P c M gs) : ncrMap simp P = M := by
  unfold ncrMap; rw [hout.map]; rfl

theorem backOf_ncr {c : Compiled} {n : Nat} (hb : c.back = (List.range n).map some) (i : Nat) :
    backOf c i = if i < n then some i else none := by
  unfold backOf
  rw [hb, List.getElem?_map]
  by_cases h : i < n
  · rw [List.getElem?_range h, if_pos h]; rfl
  · rw [if_neg h]
    have : (List.range n)[i]? = none := by
      rw [List.getElem?_eq_none_iff, List.length_range]; omega
    rw [this]; rfl

/-- one step of the two transition systems, action by position -/
theorem ncr_ts_step {simp : Expr → Expr} (hs : SimpExact simp) {W : World} {c : Compiled} {M : NMap} {gs : List Expr}
    (hout : NcrOut simp W.P c M gs) (hh : NcrHyp simp W.P M) {g' g : St} (hR : StRel M g' g) (i : Nat) :
    OptRel (StRel M) ((tsOf (withProblem W c.prob)).step g' i) ((tsOf W).step g i) ∧
      ((tsOf W).step g i ≠ none → i < W.P.actions.length) := by
  have hQ := probRel_of hout hh
  rcases hout.acts.getElem? i with ⟨h1, h2⟩ | ⟨a, a', h1, h2, hrel⟩
  · have e1 : (tsOf W).step g i = none := by
      unfold tsOf; dsimp only; rw [h1]
    have e2 : (tsOf (withProblem W c.prob)).step g' i = none := by
      unfold tsOf; dsimp only
      have : (withProblem W c.prob).P = c.prob := rfl
      rw [this, h2]
    rw [e1, e2]
    exact ⟨by simp [OptRel], fun h => absurd rfl h⟩
  · have hlt : i < W.P.actions.length := by
      have := List.getElem?_eq_some_iff.1 h1
      exact this.1
    refine ⟨?_, fun _ => hlt⟩
    rw [tsOf_step_intro h1, tsOf_step_intro (W := withProblem W c.prob) h2]
    by_cases hp : a.params.isEmpty = true
    · exact ncr_step hs hh.map hQ hrel (hh.acts a (List.mem_of_getElem? h1) hp) hR
    · unfold stepAct
      rw [hrel.params]
      simp [hp, OptRel]

/-- NegativeConditionsRemover is a FORWARD simulation: soundness -/
theorem ncr_fwd {simp : Expr → Expr} (hs : SimpExact simp) (W : World) {c : Compiled} (hc : ncrCompile simp W.P = some c)
    (hok : ncrOK simp W.P = true) :
    Fwd (tsOf W) (tsOf (withProblem W c.prob)) (backOf c) (StRel (ncrMap simp W.P)) (fun _ => True) := by
  obtain ⟨M, gs, hout⟩ := ncrCompile_some hc
  have hh := ncrHyp_of_ok hout hok
  rw [ncrMap_eq hout]
  refine ⟨?_, fun _ _ => trivial, fun _ _ _ _ => trivial, ?_, ?_, ?_⟩
  · intro sB hB _
    have hi := ncr_init hout hh
    have hB' : initOf (withProblem W c.prob) = some sB := hB
    rw [hB'] at hi
    cases hA : initOf W with
    | none => rw [hA] at hi; exact absurd hi (by simp [OptRel])
    | some sA =>
      rw [hA] at hi
      exact ⟨sA, hA, hi⟩
  · intro sB sA b sB' a hR hstep _ hb
    obtain ⟨hrel, _⟩ := ncr_ts_step hs hout hh hR b
    rw [hstep] at hrel
    cases hA : (tsOf W).step sA b with
    | none => rw [hA] at hrel; exact absurd hrel (by simp [OptRel])
    | some sA' =>
      rw [hA] at hrel
      have hlt : b < W.P.actions.length := (ncr_ts_step hs hout hh hR b).2 (by rw [hA]; simp)
      rw [backOf_ncr hout.back, if_pos hlt] at hb
      injection hb with hb
      subst hb
      exact ⟨sA', hA, hrel⟩
  · intro sB sA b sB' hR hstep _ hb
    obtain ⟨hrel, hlt⟩ := ncr_ts_step hs hout hh hR b
    rw [hstep] at hrel
    cases hA : (tsOf W).step sA b with
    | none => rw [hA] at hrel; exact absurd hrel (by simp [OptRel])
    | some sA' =>
      have := hlt (by rw [hA]; simp)
      rw [backOf_ncr hout.back, if_pos this] at hb
      cases hb
  · intro sB sA hR hg
    have := ncr_goal hs hout hh hR
    show goalOK W sA = true
    rw [← this]; exact hg

/-- … and a BACKWARD simulation with the same plan length: completeness -/
theorem ncr_bwd {simp : Expr → Expr} (hs : SimpExact simp) (W : World) {c : Compiled} (hc : ncrCompile simp W.P = some c)
    (hok : ncrOK simp W.P = true) :
    Bwd (tsOf W) (tsOf (withProblem W c.prob)) (backOf c) (StRel (ncrMap simp W.P)) 0 := by
  obtain ⟨M, gs, hout⟩ := ncrCompile_some hc
  have hh := ncrHyp_of_ok hout hok
  rw [ncrMap_eq hout]
  refine ⟨?_, ?_, ?_⟩
  · intro sA hA
    have hi := ncr_init hout hh
    have hA' : initOf W = some sA := hA
    rw [hA'] at hi
    cases hB : initOf (withProblem W c.prob) with
    | none => rw [hB] at hi; exact absurd hi (by simp [OptRel])
    | some sB =>
      rw [hB] at hi
      exact ⟨sB, hB, hi⟩
  · intro sB sA a sA' hR hstep
    obtain ⟨hrel, hlt⟩ := ncr_ts_step hs hout hh hR a
    rw [hstep] at hrel
    have hlt' := hlt (by rw [hstep]; simp)
    cases hB : (tsOf (withProblem W c.prob)).step sB a with
    | none => rw [hB] at hrel; exact absurd hrel (by simp [OptRel])
    | some sB' =>
      rw [hB] at hrel
      refine ⟨a, sB', ?_, hB, hrel⟩
      rw [backOf_ncr hout.back, if_pos hlt']
  · intro sB sA hR hg
    refine ⟨[], sB, Nat.le_refl _, rfl, rfl, ?_⟩
    have := ncr_goal hs hout hh hR
    show goalOK (withProblem W c.prob) sB = true
    rw [this]; exact hg

/-! ### the compiled plan IS the original plan (positions) -/

theorem ncr_run {simp : Expr → Expr} (hs : SimpExact simp) {W : World} {c : Compiled} {M : NMap} {gs : List Expr}
    (hout : NcrOut simp W.P c M gs) (hh : NcrHyp simp W.P M) : ∀ (π : List Nat) {g' g : St}, StRel M g' g →
    OptRel (StRel M) ((tsOf (withProblem W c.prob)).run g' π) ((tsOf W).run g π)
  | [], g', g, hR => by simp only [TS.run, OptRel]; exact hR
  | i :: π, g', g, hR => by
    have hstep := (ncr_ts_step hs hout hh hR i).1
    simp only [TS.run]
    cases hB : (tsOf (withProblem W c.prob)).step g' i with
    | none =>
      cases hA : (tsOf W).step g i with
      | none => simp [OptRel]
      | some sA => rw [hB, hA] at hstep; exact absurd hstep (by simp [OptRel])
    | some sB =>
      cases hA : (tsOf W).step g i with
      | none => rw [hB, hA] at hstep; exact absurd hstep (by simp [OptRel])
      | some sA =>
        rw [hB, hA] at hstep
        exact ncr_run hs hout hh π hstep

/-- a sequence of action positions is a valid plan of the compiled problem iff it is one of the original problem -/
theorem ncr_valid_iff {simp : Expr → Expr} (hs : SimpExact simp) (W : World) {c : Compiled}
    (hc : ncrCompile simp W.P = some c) (hok : ncrOK simp W.P = true) (π : List Nat) :
    (tsOf (withProblem W c.prob)).Valid π ↔ (tsOf W).Valid π := by
  obtain ⟨M, gs, hout⟩ := ncrCompile_some hc
  have hh := ncrHyp_of_ok hout hok
  have hi := ncr_init hout hh
  constructor
  · rintro ⟨s0, sf, hinit, hrun, hg⟩
    have hinit' : initOf (withProblem W c.prob) = some s0 := hinit
    rw [hinit'] at hi
    cases hA : initOf W with
    | none => rw [hA] at hi; exact absurd hi (by simp [OptRel])
    | some sA =>
      rw [hA] at hi
      have hr := ncr_run hs hout hh π hi
      rw [hrun] at hr
      cases hrA : (tsOf W).run sA π with
      | none => rw [hrA] at hr; exact absurd hr (by simp [OptRel])
      | some sfA =>
        rw [hrA] at hr
        refine ⟨sA, sfA, hA, hrA, ?_⟩
        show goalOK W sfA = true
        rw [← ncr_goal hs hout hh hr]; exact hg
  · rintro ⟨s0, sf, hinit, hrun, hg⟩
    have hinit' : initOf W = some s0 := hinit
    rw [hinit'] at hi
    cases hB : initOf (withProblem W c.prob) with
    | none => rw [hB] at hi; exact absurd hi (by simp [OptRel])
    | some sB =>
      rw [hB] at hi
      have hr := ncr_run hs hout hh π hi
      rw [hrun] at hr
      cases hrB : (tsOf (withProblem W c.prob)).run sB π with
      | none => rw [hrB] at hr; exact absurd hr (by simp [OptRel])
      | some sfB =>
        rw [hrB] at hr
        refine ⟨sB, sfB, hB, hrB, ?_⟩
        show goalOK (withProblem W c.prob) sfB = true
        rw [ncr_goal hs hout hh hr]; exact hg

end UPVerif.Compile
