import UPVerif.Core.PddlTTPlan
import UPVerif.Lemmas.PddlTTPlanLemmas
/-! A concrete renaming, signature and time-triggered plan meeting every hypothesis of `Props/C18TTPlan.lean`
    (non-vacuity of the round-trip theorems). -/
namespace UPVerif.C18
open UPVerif UPVerif.Pddl UPVerif.Pddl.TTP

namespace TTExample

def tbl : List (NameKey × String) :=
  [(.problem, "kitchen"), (.ty "Dish", "dish"), (.fluent "hot", "hot"), (.obj "O1", "o1"), (.obj "o-2", "o-2"),
   (.action "Heat", "heat"), (.action "serve", "serve"), (.action "and", "and_")]

def ρ0 : Ren := renOfTable tbl
def inv0 : Inv := invOfTable tbl

def sig0 : PlanSig where
  types := { fathers := [("Dish", none)] }
  objType := fun o => [("O1", "Dish"), ("o-2", "Dish")].lookup o
  actParams := fun a => [("Heat", ["Dish"]), ("serve", ["Dish"]), ("and", [])].lookup a

/-- `0: (heat o1)[5]` / `6.00001: (serve o1)` / `6.5: (and_)[0.125]` -/
def π0 : List TStep :=
  [{ start := 0, act := "Heat", args := ["O1"], dur := some 5 },
   { start := (600001 : Rat) / 100000, act := "serve", args := ["O1"], dur := none },
   { start := (13 : Rat) / 2, act := "and", args := [], dur := some ((1 : Rat) / 8) }]

theorem renOK : RenOK ρ0 inv0 := renOK_of_tableOK tbl (by decide +kernel)

theorem wellTyped : ∀ s ∈ π0, WellTyped sig0 s.act s.args := by
  intro s hs
  simp only [π0, List.mem_cons, List.not_mem_nil, or_false] at hs
  rcases hs with rfl | rfl | rfl <;> (unfold WellTyped; decide +kernel)

theorem nonneg : ∀ s ∈ π0, 0 ≤ s.start ∧ ∀ d, s.dur = some d → 0 ≤ d := by
  intro s hs
  simp only [π0, List.mem_cons, List.not_mem_nil, or_false] at hs
  rcases hs with rfl | rfl | rfl
  · exact ⟨by decide +kernel, fun d hd => by cases hd; decide +kernel⟩
  · exact ⟨by decide +kernel, fun d hd => by cases hd⟩
  · exact ⟨by decide +kernel, fun d hd => by cases hd; decide +kernel⟩

theorem printed : printTTPlan ρ0 π0 = some "0: (heat o1)[5]\n6.00001: (serve o1)\n6.5: (and_)[0.125]\n".toList := by
  decide +kernel

end TTExample

end UPVerif.C18
