import UPVerif.Lemmas.TTMain
import UPVerif.Lemmas.SimApply
import UPVerif.Lemmas.SimQueries
/-!
Helper lemmas for `Props/C04.lean`: for instantaneous action instances with pairwise distinct start
times, validity in the sense of `Spec/Temporal.lean` and the verdict VALID of the model of
`SequentialPlanValidator` are both equivalent to a step-by-step chain over the plan in start-time
order (ground, preconditions in the state before, effects, invariants in the state after; goals at
the end).
-/
namespace UPVerif.TT
open UPVerif UPVerif.Expr UPVerif.Sim UPVerif.Spec UPVerif.Spec.Temporal

/-! ### strict (time-triggered) and lenient (simulator) evaluation of one effect -/

theorem substE_nil (e : Expr) : substE [] e = e := by simp [substE]

/-- an effect condition never evaluates to a non-Boolean (the library's typing discipline:
    `add_effect` only accepts Boolean conditions) -/
def BoolCond (c : EvalCtx) (e : Effect) : Prop := ∀ v, eval c [] e.cond = .ok v → ∃ b, v = .b b

theorem evalBool_tt (c : EvalCtx) : evalBool c Expr.tt = .ok true := by
  simp [evalBool, eval, evalLeaf, Expr.tt]

theorem isTrue_eq {e : Expr} (h : e.isTrue = true) : e = Expr.tt := by
  unfold Expr.isTrue at h
  split at h
  · rfl
  · cases h

/-- what the time-triggered validator fires, the simulator fires -/
theorem evalEff_of_evalEffS_nil {c : EvalCtx} {e : Effect} {r : Option Fired}
    (h : evalEffS c [] e = .ok r) : Sim.evalEff c e = .ok r := by
  unfold evalEffS at h
  unfold Sim.evalEff
  simp only [substE_nil] at h
  cases hfl : e.fluent with
  | leaf l => rw [hfl] at h; cases h
  | quant q vs b => rw [hfl] at h; cases h
  | app op args =>
    rw [hfl] at h
    cases op with
    | fluent f =>
      simp only at h ⊢
      cases hvs : evalArgs c args with
      | error x => rw [hvs] at h; cases h
      | ok vs =>
        rw [hvs] at h
        simp only at h ⊢
        cases hc : evalBool c e.cond with
        | error x => rw [hc] at h; cases h
        | ok b =>
          rw [hc] at h
          have hrest : (match (Except.ok b : Except EvalErr Bool) with
              | .error x => .error x
              | .ok false => .ok none
              | .ok true =>
                match eval c [] e.value with
                | .error x => .error x
                | .ok v =>
                  match e.kind with
                  | .assign =>
                    if f.ty == .bool then
                      match v with
                      | .b b => .ok (some (.setB (f, vs) b))
                      | _ => .error .other
                    else .ok (some (.setV (f, vs) v))
                  | .increase => (match v with
                    | .n d => .ok (some (.delta (f, vs) d))
                    | _ => .error .other)
                  | .decrease => (match v with
                    | .n d => .ok (some (.delta (f, vs) (-d)))
                    | _ => .error .other) : Except EvalErr (Option Fired)) = .ok r := by
            cases b with
            | false => simpa using h
            | true =>
              simp only at h ⊢
              cases hv : eval c [] e.value with
              | error x => rw [hv] at h; cases h
              | ok v =>
                rw [hv] at h
                simp only at h ⊢
                cases hk : e.kind <;> (rw [hk] at h; simp only at h ⊢; exact h)
          by_cases hcond : e.isConditional = true
          · simp only [hcond, ↓reduceIte]
            unfold evalBool at hc
            cases hv : eval c [] e.cond with
            | error x => rw [hv] at hc; cases hc
            | ok v =>
              rw [hv] at hc
              cases v with
              | b b' =>
                simp only [Except.ok.injEq] at hc
                subst hc
                have : (Val.b b' == Val.b true) = b' := by cases b' <;> rfl
                simp only [this]
                exact hrest
              | n q => cases hc
              | o x => cases hc
          · simp only [hcond, Bool.false_eq_true, ↓reduceIte]
            have : e.cond.isTrue = true := by simpa [Effect.isConditional] using hcond
            rw [isTrue_eq this, evalBool_tt] at hc
            cases hc
            exact hrest
    | _ => cases h

/-- … and conversely when the condition is Boolean-valued -/
theorem evalEffS_nil_of_evalEff {c : EvalCtx} {e : Effect} {r : Option Fired}
    (h : Sim.evalEff c e = .ok r) (hb : BoolCond c e) : evalEffS c [] e = .ok r := by
  unfold Sim.evalEff at h
  unfold evalEffS
  simp only [substE_nil]
  cases hfl : e.fluent with
  | leaf l => rw [hfl] at h; cases h
  | quant q vs b => rw [hfl] at h; cases h
  | app op args =>
    rw [hfl] at h
    cases op with
    | fluent f =>
      simp only at h ⊢
      cases hvs : evalArgs c args with
      | error x => rw [hvs] at h; cases h
      | ok vs =>
        rw [hvs] at h
        simp only at h ⊢
        have hrest : ∀ b, (match (Except.ok b : Except EvalErr Bool) with
              | .error x => .error x
              | .ok false => .ok none
              | .ok true =>
                match eval c [] e.value with
                | .error x => .error x
                | .ok v =>
                  match e.kind with
                  | .assign =>
                    if f.ty == .bool then
                      match v with
                      | .b b => .ok (some (.setB (f, vs) b))
                      | _ => .error .other
                    else .ok (some (.setV (f, vs) v))
                  | .increase => (match v with
                    | .n d => .ok (some (.delta (f, vs) d))
                    | _ => .error .other)
                  | .decrease => (match v with
                    | .n d => .ok (some (.delta (f, vs) (-d)))
                    | _ => .error .other) : Except EvalErr (Option Fired)) = .ok r →
            (match (Except.ok b : Except EvalErr Bool) with
              | .error x => .error x
              | .ok false => .ok none
              | .ok true =>
                match eval c [] e.value with
                | .error x => .error x
                | .ok v =>
                  match e.kind with
                  | .assign =>
                    if f.ty == .bool then
                      match v with
                      | .b b => .ok (some (.setB (f, vs) b))
                      | _ => .error .other
                    else .ok (some (.setV (f, vs) v))
                  | .increase => (match v with
                    | .n d => .ok (some (.delta (f, vs) d))
                    | _ => .error .other)
                  | .decrease => (match v with
                    | .n d => .ok (some (.delta (f, vs) (-d)))
                    | _ => .error .other) : Except EvalErr (Option Fired)) = .ok r := by
          intro b hh
          cases b with
          | false => simpa using hh
          | true =>
            simp only at hh ⊢
            cases hv : eval c [] e.value with
            | error x => rw [hv] at hh; cases hh
            | ok v =>
              rw [hv] at hh
              simp only at hh ⊢
              cases hk : e.kind <;> (rw [hk] at hh; simp only at hh ⊢; exact hh)
        by_cases hcond : e.isConditional = true
        · simp only [hcond, ↓reduceIte] at h
          cases hv : eval c [] e.cond with
          | error x => rw [hv] at h; cases h
          | ok v =>
            rw [hv] at h
            obtain ⟨b', rfl⟩ := hb v hv
            have : (Val.b b' == Val.b true) = b' := by cases b' <;> rfl
            simp only [this] at h
            have hc : evalBool c e.cond = .ok b' := by unfold evalBool; rw [hv]
            rw [hc]
            exact hrest b' h
        · simp only [hcond, Bool.false_eq_true, ↓reduceIte] at h
          have : e.cond.isTrue = true := by simpa [Effect.isConditional] using hcond
          rw [isTrue_eq this, evalBool_tt]
          exact hrest true h
    | _ => cases h

theorem fired_of_firedInsts {c : EvalCtx} {tag : Option Nat} : ∀ {E : List Effect} {TF : List TFired},
    firedInsts c [] tag E = some TF → fired c E = some (TF.map (·.2)) ∧ ∀ x ∈ TF, x.1 = tag
  | [], TF, h => by
    simp [firedInsts] at h; subst h
    exact ⟨rfl, by intro x hx; cases hx⟩
  | e :: E, TF, h => by
    simp only [firedInsts] at h
    split at h
    · rename_i F h1 h2
      cases h
      obtain ⟨ih1, ih2⟩ := fired_of_firedInsts h2
      exact ⟨by simp [fired, evalEff_of_evalEffS_nil h1, ih1], ih2⟩
    · rename_i f F h1 h2
      cases h
      obtain ⟨ih1, ih2⟩ := fired_of_firedInsts h2
      refine ⟨by simp [fired, evalEff_of_evalEffS_nil h1, ih1], ?_⟩
      intro x hx
      simp only [List.mem_cons] at hx
      rcases hx with rfl | hx
      · rfl
      · exact ih2 x hx
    · cases h

theorem firedInsts_of_fired {c : EvalCtx} {tag : Option Nat} : ∀ {E : List Effect} {F : List Fired},
    fired c E = some F → (∀ e ∈ E, BoolCond c e) →
      ∃ TF, firedInsts c [] tag E = some TF ∧ TF.map (·.2) = F ∧ ∀ x ∈ TF, x.1 = tag
  | [], F, h, _ => by
    simp [fired] at h; subst h
    exact ⟨[], rfl, rfl, by intro x hx; cases hx⟩
  | e :: E, F, h, hb => by
    simp only [fired] at h
    split at h
    · rename_i F' h1 h2
      cases h
      obtain ⟨TF, i1, i2, i3⟩ := firedInsts_of_fired (tag := tag) h2 (fun e' he' => hb e' (by simp [he']))
      exact ⟨TF, by simp [firedInsts, evalEffS_nil_of_evalEff h1 (hb e (by simp)), i1], i2, i3⟩
    · rename_i f F' h1 h2
      cases h
      obtain ⟨TF, i1, i2, i3⟩ := firedInsts_of_fired (tag := tag) h2 (fun e' he' => hb e' (by simp [he']))
      refine ⟨(tag, f) :: TF, by simp [firedInsts, evalEffS_nil_of_evalEff h1 (hb e (by simp)), i1], by simp [i2], ?_⟩
      intro x hx
      simp only [List.mem_cons] at hx
      rcases hx with rfl | hx
      · rfl
      · exact i3 x hx
    · cases h

theorem exclusive_of_one_tag {TF : List TFired} {tag : Option Nat} (h : ∀ x ∈ TF, x.1 = tag) : Exclusive TF :=
  fun x hx y hy _ _ _ => (h x hx).trans (h y hy).symm

/-- one grounded instantaneous action instance alone at an instant: the successor of
    `Spec/Temporal.lean` is the successor of `Spec/Successor.lean` without its invariants -/
theorem instantSucc_single {W : World} {σ σ' : SMap} {g : GAction} {tag : Option Nat}
    (h : instantSucc W σ [⟨g.effs, [], tag⟩] = some σ') :
    ∃ F, fired (ctxOf W σ) (expandAll W.P g) = some F ∧ Cons σ F ∧ σ' = succGet σ F := by
  unfold instantSucc at h
  simp only [firedGroups] at h
  cases hf : firedInsts (ctxOf W σ) [] tag (g.effs.flatMap (expandEffect W.P)) with
  | none => simp [hf] at h
  | some TF =>
    simp only [hf, List.append_nil] at h
    split at h
    · rename_i hc
      cases h
      obtain ⟨h1, _⟩ := fired_of_firedInsts hf
      exact ⟨_, h1, hc.1, rfl⟩
    · cases h

theorem instantSucc_single_of {W : World} {σ : SMap} {g : GAction} {tag : Option Nat} {F : List Fired}
    (hF : fired (ctxOf W σ) (expandAll W.P g) = some F) (hc : Cons σ F)
    (hb : ∀ e ∈ expandAll W.P g, BoolCond (ctxOf W σ) e) :
    instantSucc W σ [⟨g.effs, [], tag⟩] = some (succGet σ F) := by
  obtain ⟨TF, h1, h2, h3⟩ := firedInsts_of_fired (tag := tag) hF hb
  unfold instantSucc
  simp only [firedGroups]
  have : firedInsts (ctxOf W σ) [] tag (g.effs.flatMap (expandEffect W.P)) = some TF := h1
  simp only [this, List.append_nil]
  rw [h2, if_pos ⟨hc, exclusive_of_one_tag h3⟩]

/-! ### the specification's time line -/

theorem timeline_congr {W : World} {E E' : List Sched} : ∀ {ts : List Rat} {σ : SMap},
    (∀ t ∈ ts, eventsAt E t = eventsAt E' t) → timeline W E σ ts = timeline W E' σ ts
  | [], _, _ => rfl
  | t :: ts, σ, h => by
    simp only [timeline]
    rw [h t (by simp)]
    cases instantSucc W σ (eventsAt E' t) with
    | none => rfl
    | some σ' =>
      simp only
      rw [timeline_congr (fun t' ht' => h t' (by simp [ht']))]

theorem timeline_keys {W : World} {E : List Sched} : ∀ {ts : List Rat} {σ : SMap} {tl : List (Rat × SMap)},
    timeline W E σ ts = some tl → tl.map (·.1) = ts
  | [], _, tl, h => by simp [timeline] at h; subst h; rfl
  | t :: ts, σ, tl, h => by
    simp only [timeline] at h
    split at h
    · cases h
    · rename_i σ' _
      cases hr : timeline W E σ' ts with
      | none => rw [hr] at h; cases h
      | some r =>
        rw [hr] at h
        simp only [Option.map_some, Option.some.injEq] at h
        subst h
        simp [timeline_keys hr]

theorem stateAt_before {σ0 : SMap} : ∀ {tl : List (Rat × SMap)} {p : Rat}, (∀ x ∈ tl, p ≤ x.1) → stateAt σ0 tl p = σ0
  | [], _, _ => rfl
  | (t, σ) :: r, p, h => by
    have : ¬ t < p := by have := h (t, σ) (by simp); grind
    simp [stateAt, this]

theorem stateAt_mem {σ0 : SMap} : ∀ {tl : List (Rat × SMap)} {σ0 : SMap} (p : Rat),
    stateAt σ0 tl p = σ0 ∨ ∃ x ∈ tl, stateAt σ0 tl p = x.2
  | [], _, _ => Or.inl rfl
  | (t, σ) :: r, σ0, p => by
    simp only [stateAt]
    by_cases h : t < p
    · rw [if_pos h]
      rcases stateAt_mem (tl := r) (σ0 := σ) p with h' | ⟨x, hx, h'⟩
      · exact Or.inr ⟨(t, σ), by simp, h'⟩
      · exact Or.inr ⟨x, by simp [hx], h'⟩
    · rw [if_neg h]; exact Or.inl rfl

theorem stateAt_reach : ∀ {tl : List (Rat × SMap)} {σ0 : SMap}, StrictAsc (tl.map (·.1)) →
    ∀ x ∈ tl, ∃ p, x.1 < p ∧ stateAt σ0 tl p = x.2
  | [], _, _, x, hx => by cases hx
  | (t1, σ1) :: r, σ0, hasc, x, hx => by
    unfold StrictAsc at hasc
    simp only [List.map_cons] at hasc
    rw [List.pairwise_cons] at hasc
    simp only [List.mem_cons] at hx
    rcases hx with rfl | hx
    · cases r with
      | nil => exact ⟨t1 + 1, by show t1 < t1 + 1; grind, by
          have : t1 < t1 + 1 := by grind
          simp [stateAt, this]⟩
      | cons y r' =>
        obtain ⟨t2, σ2⟩ := y
        have h12 : t1 < t2 := hasc.1 t2 (by simp)
        refine ⟨(t1 + t2) / 2, by show t1 < (t1 + t2) / 2; grind, ?_⟩
        have a : t1 < (t1 + t2) / 2 := by grind
        have b : ¬ t2 < (t1 + t2) / 2 := by grind
        simp [stateAt, a, b]
    · obtain ⟨p, hp1, hp2⟩ := stateAt_reach (σ0 := σ1) hasc.2 x hx
      have h1x : t1 < x.1 := hasc.1 x.1 (List.mem_map.2 ⟨x, hx, rfl⟩)
      refine ⟨p, hp1, ?_⟩
      have : t1 < p := by grind
      simp [stateAt, this, hp2]

/-- a property holds in the state in force at every time point from 0 on iff it holds in the initial
    state and after every instant -/
theorem stateAt_all {tl : List (Rat × SMap)} {σ0 : SMap} {φ : SMap → Prop}
    (hasc : StrictAsc (tl.map (·.1))) (hpos : ∀ x ∈ tl, 0 ≤ x.1) :
    (∀ p, 0 ≤ p → φ (stateAt σ0 tl p)) ↔ φ σ0 ∧ ∀ x ∈ tl, φ x.2 := by
  constructor
  · intro h
    refine ⟨?_, ?_⟩
    · have := h 0 (by grind)
      rwa [stateAt_before (fun x hx => hpos x hx)] at this
    · intro x hx
      obtain ⟨p, hp1, hp2⟩ := stateAt_reach (σ0 := σ0) hasc x hx
      have := h p (by have := hpos x hx; grind)
      rwa [hp2] at this
  · rintro ⟨h0, hall⟩ p _
    rcases stateAt_mem (tl := tl) (σ0 := σ0) p with h | ⟨x, hx, h⟩
    · rw [h]; exact h0
    · rw [h]; exact hall x hx

/-! ### instantaneous action instances at pairwise distinct times -/

def AllInst (A : List (Step × Nat)) : Prop := ∀ a ∈ A, ∃ act, a.1.act = .inst act

def StartsAsc (A : List (Step × Nat)) : Prop := A.Pairwise (fun a b => a.1.start < b.1.start)

/-- the event of a grounded instantaneous instance -/
def evOf (a : Step × Nat) (g : GAction) : Sched := ⟨a.1.start, ⟨g.effs, [], some a.2⟩⟩

/-- its preconditions as conditions at its start -/
def preOf (a : Step × Nat) (g : GAction) : List DCond :=
  g.pre.map (fun c => ⟨a.1.start, some a.1.start, false, false, c, some a.2⟩)

theorem stepItems_inst {W : World} {st : Step} {idx : Nat} {act : Action} (h : st.act = .inst act) :
    stepItems W st idx = match ground W act st.args with
      | .error x => .error x
      | .ok none => .ok none
      | .ok (some g) => .ok (some ([evOf (st, idx) g], preOf (st, idx) g)) := by
  unfold stepItems
  rw [h]
  rfl

/-- the step-by-step reading of `Spec/Temporal.lean` for such plans -/
def ChainS (W : World) : List (Step × Nat) → SMap → Prop
  | [], σ => ∀ g ∈ W.P.goals, HoldsIn W σ g
  | a :: r, σ => ∃ act g σ', a.1.act = .inst act ∧ ground W act a.1.args = .ok (some g) ∧
      (∀ c ∈ g.pre, HoldsIn W σ c) ∧ instantSucc W σ [⟨g.effs, [], some a.2⟩] = some σ' ∧
      (∀ inv ∈ invariants W, HoldsIn W σ' inv) ∧ ChainS W r σ'

theorem inst_items_times {W : World} : ∀ {A : List (Step × Nat)} {E : List Sched} {C : List DCond},
    AllInst A → stepsItems W A = some (E, C) →
      E.map (·.time) = A.map (·.1.start) ∧ ∀ dc ∈ C, ∃ b ∈ A, dc.start = b.1.start ∧ dc.end = some b.1.start ∧
        dc.lopen = false ∧ dc.ropen = false
  | [], E, C, _, h => by
    simp [stepsItems] at h
    obtain ⟨rfl, rfl⟩ := h
    exact ⟨rfl, by intro dc hdc; cases hdc⟩
  | (st, idx) :: r, E, C, hA, h => by
    obtain ⟨act, hact⟩ := hA (st, idx) (by simp)
    simp only [stepsItems] at h
    split at h
    · rename_i ev cs E' C' h1 h2
      cases h
      rw [stepItems_inst hact] at h1
      cases hg : ground W act st.args with
      | error x => rw [hg] at h1; cases h1
      | ok o =>
        cases o with
        | none => rw [hg] at h1; cases h1
        | some g =>
          rw [hg] at h1
          simp only [Except.ok.injEq, Option.some.injEq, Prod.mk.injEq] at h1
          obtain ⟨rfl, rfl⟩ := h1
          obtain ⟨i1, i2⟩ := inst_items_times (fun a ha => hA a (by simp [ha])) h2
          refine ⟨by simp [evOf, i1], ?_⟩
          intro dc hdc
          simp only [List.mem_append] at hdc
          rcases hdc with hdc | hdc
          · simp only [preOf, List.mem_map] at hdc
            obtain ⟨c, _, rfl⟩ := hdc
            exact ⟨(st, idx), by simp, rfl, rfl, rfl, rfl⟩
          · obtain ⟨b, hb, hb'⟩ := i2 dc hdc
            exact ⟨b, by simp [hb], hb'⟩
    · cases h

theorem chainS_iff (W : World) : ∀ (A : List (Step × Nat)) (σ0 : SMap), AllInst A → StartsAsc A →
    ((∃ E C tl, stepsItems W A = some (E, C) ∧ timeline W E σ0 (A.map (·.1.start)) = some tl ∧
        (∀ dc ∈ C, HoldsIn W (stateAt σ0 tl dc.start) dc.cond) ∧
        (∀ inv ∈ invariants W, ∀ x ∈ tl, HoldsIn W x.2 inv) ∧
        (∀ g ∈ W.P.goals, HoldsIn W (lastState σ0 tl) g)) ↔ ChainS W A σ0)
  | [], σ0, _, _ => by
    simp only [stepsItems, List.map_nil, timeline, ChainS]
    constructor
    · rintro ⟨E, C, tl, h1, h2, _, _, h5⟩
      cases h2
      exact h5
    · intro h
      exact ⟨[], [], [], rfl, rfl, (by intro dc hdc; cases hdc), (by intro _ _ x hx; cases hx), h⟩
  | (st, idx) :: r, σ0, hA, hS => by
    obtain ⟨act, hact⟩ := hA (st, idx) (by simp)
    have hAr : AllInst r := fun a ha => hA a (by simp [ha])
    unfold StartsAsc at hS
    rw [List.pairwise_cons] at hS
    have ih := fun σ' => chainS_iff W r σ' hAr hS.2
    -- facts about the tail's events and conditions
    have tailFacts : ∀ {E_r : List Sched} {C_r : List DCond}, stepsItems W r = some (E_r, C_r) →
        ∀ (g : GAction),
        eventsAt (evOf (st, idx) g :: E_r) st.start = [⟨g.effs, [], some idx⟩] ∧
        (∀ σ', timeline W (evOf (st, idx) g :: E_r) σ' (r.map (·.1.start)) = timeline W E_r σ' (r.map (·.1.start))) ∧
        (∀ dc ∈ C_r, st.start < dc.start) := by
      intro E_r C_r hr g
      obtain ⟨i1, i2⟩ := inst_items_times hAr hr
      have hlate : ∀ x ∈ E_r, st.start < x.time := by
        intro x hx
        have : x.time ∈ E_r.map (·.time) := List.mem_map.2 ⟨x, hx, rfl⟩
        rw [i1] at this
        obtain ⟨b, hb, hbt⟩ := List.mem_map.1 this
        rw [← hbt]; exact hS.1 b hb
      refine ⟨?_, ?_, ?_⟩
      · have e1 : evOf (st, idx) g :: E_r = [evOf (st, idx) g] ++ E_r := rfl
        rw [e1, eventsAt_append, eventsAt_nil_of_ne (B := E_r) (fun x hx => by have := hlate x hx; grind)]
        simp [eventsAt, evOf]
      · intro σ'
        apply timeline_congr
        intro t ht
        obtain ⟨b, hb, hbt⟩ := List.mem_map.1 ht
        have hne : st.start ≠ t := by have := hS.1 b hb; rw [← hbt]; grind
        have e1 : evOf (st, idx) g :: E_r = [evOf (st, idx) g] ++ E_r := rfl
        rw [e1, eventsAt_append]
        have : eventsAt [evOf (st, idx) g] t = [] := by
          apply eventsAt_nil_of_ne
          intro x hx
          simp only [List.mem_singleton] at hx
          subst hx
          exact hne
        rw [this]; rfl
      · intro dc hdc
        obtain ⟨b, hb, hb', _⟩ := i2 dc hdc
        rw [hb']; exact hS.1 b hb
    simp only [ChainS, List.map_cons]
    constructor
    · rintro ⟨E, C, tl, h1, h2, h3, h4, h5⟩
      simp only [stepsItems] at h1
      split at h1
      · rename_i ev cs E_r C_r hi hr
        cases h1
        rw [stepItems_inst hact] at hi
        cases hg : ground W act st.args with
        | error x => rw [hg] at hi; cases hi
        | ok o =>
          cases o with
          | none => rw [hg] at hi; cases hi
          | some g =>
            rw [hg] at hi
            simp only [Except.ok.injEq, Option.some.injEq, Prod.mk.injEq] at hi
            obtain ⟨rfl, rfl⟩ := hi
            obtain ⟨f1, f2, f3⟩ := tailFacts hr g
            simp only [List.singleton_append, timeline, f1] at h2
            cases hσ : instantSucc W σ0 [⟨g.effs, [], some idx⟩] with
            | none => rw [hσ] at h2; cases h2
            | some σ' =>
              rw [hσ] at h2
              simp only [f2] at h2
              cases htl : timeline W E_r σ' (r.map (·.1.start)) with
              | none => rw [htl] at h2; cases h2
              | some tl_r =>
                rw [htl] at h2
                simp only [Option.map_some, Option.some.injEq] at h2
                subst h2
                refine ⟨act, g, σ', hact, hg, ?_, hσ, ?_, ?_⟩
                · intro c hc
                  have := h3 ⟨st.start, some st.start, false, false, c, some idx⟩
                    (by simp only [List.mem_append]; left; simp only [preOf, List.mem_map]; exact ⟨c, hc, rfl⟩)
                  simpa [stateAt] using this
                · intro inv hinv
                  exact h4 inv hinv (st.start, σ') (by simp)
                · apply (ih σ').1
                  refine ⟨E_r, C_r, tl_r, hr, htl, ?_, ?_, ?_⟩
                  · intro dc hdc
                    have := h3 dc (by simp [hdc])
                    have hlt := f3 dc hdc
                    simpa [stateAt, hlt] using this
                  · intro inv hinv x hx
                    exact h4 inv hinv x (by simp [hx])
                  · simpa [lastState] using h5
      · cases h1
    · rintro ⟨act', g, σ', hact', hg, hpre, hσ, hinv, hchain⟩
      rw [hact] at hact'; cases hact'
      obtain ⟨E_r, C_r, tl_r, hr, htl, c3, c4, c5⟩ := (ih σ').2 hchain
      obtain ⟨f1, f2, f3⟩ := tailFacts hr g
      refine ⟨evOf (st, idx) g :: E_r, preOf (st, idx) g ++ C_r, (st.start, σ') :: tl_r, ?_, ?_, ?_, ?_, ?_⟩
      · simp only [stepsItems, stepItems_inst hact, hg, hr]
        rfl
      · simp only [timeline, f1, hσ, f2, htl, Option.map_some]
      · intro dc hdc
        simp only [List.mem_append] at hdc
        rcases hdc with hdc | hdc
        · simp only [preOf, List.mem_map] at hdc
          obtain ⟨c, hc, rfl⟩ := hdc
          simpa [stateAt] using hpre c hc
        · have hlt := f3 dc hdc
          simpa [stateAt, hlt] using c3 dc hdc
      · intro inv hi x hx
        simp only [List.mem_cons] at hx
        rcases hx with rfl | hx
        · exact hinv inv hi
        · exact c4 inv hi x hx
      · simpa [lastState] using c5

theorem startsAsc_strictAsc {A : List (Step × Nat)} (h : StartsAsc A) : StrictAsc (A.map (·.1.start)) := by
  unfold StartsAsc at h
  unfold StrictAsc
  rw [List.pairwise_map]
  exact h

theorem inInterval_point {s p : Rat} : InInterval s (some s) false false p ↔ p = s := by
  simp only [InInterval, Bool.false_eq_true, ↓reduceIte]
  constructor
  · rintro ⟨h1, h2⟩; grind
  · rintro rfl; exact ⟨by grind, by grind⟩

theorem inInterval_from0 {p : Rat} : InInterval 0 none false false p ↔ 0 ≤ p := by
  simp [InInterval]

/-- `Spec/Temporal.lean` on instantaneous instances at distinct non-negative times, step by step -/
theorem validOf_inst_iff (W : World) (A : List (Step × Nat)) (hA : AllInst A) (hS : StartsAsc A)
    (hpos : ∀ a ∈ A, 0 ≤ a.1.start) :
    ValidOf W TProblem.empty A ↔
      ∃ s0, initialState? W.P = some s0 ∧ (∀ inv ∈ invariants W, HoldsIn W (s0.get W.P) inv) ∧
        ChainS W A (s0.get W.P) := by
  unfold ValidOf itemsOf
  simp only [TProblem.empty, timedSched, timedGoalConds, List.nil_append]
  constructor
  · rintro ⟨E, C, s0, hitems, hs0, tl, htl, hconds, hgoals⟩
    cases hE : stepsItems W A with
    | none => simp [hE] at hitems
    | some EC =>
      obtain ⟨E', C'⟩ := EC
      simp only [hE, Option.some.injEq, Prod.mk.injEq] at hitems
      obtain ⟨rfl, rfl⟩ := hitems
      simp only [List.nil_append] at htl hconds
      obtain ⟨i1, i2⟩ := inst_items_times hA hE
      have hhap : happenings E' = A.map (·.1.start) := by
        apply strictAsc_ext (strictAsc_happenings _) (startsAsc_strictAsc hS)
        intro t
        rw [mem_happenings, ← i1]
        simp only [List.mem_map]
      rw [hhap] at htl
      have hkeys := timeline_keys htl
      have hasc : StrictAsc (tl.map (·.1)) := by rw [hkeys]; exact startsAsc_strictAsc hS
      have hp : ∀ x ∈ tl, 0 ≤ x.1 := by
        intro x hx
        have : x.1 ∈ tl.map (·.1) := List.mem_map.2 ⟨x, hx, rfl⟩
        rw [hkeys] at this
        obtain ⟨a, ha, hat⟩ := List.mem_map.1 this
        rw [← hat]; exact hpos a ha
      have hinv : ∀ inv ∈ invariants W, HoldsIn W (s0.get W.P) inv ∧ ∀ x ∈ tl, HoldsIn W x.2 inv := by
        intro inv hi
        apply (stateAt_all (φ := fun σ => HoldsIn W σ inv) hasc hp).1
        intro p hp0
        have := hconds ⟨0, none, false, false, inv, none⟩
          (by simp only [List.mem_append]; left; simp only [invariantConds, List.mem_map]; exact ⟨inv, hi, rfl⟩)
          p (inInterval_from0.2 hp0)
        exact this
      refine ⟨s0, hs0, fun inv hi => (hinv inv hi).1, ?_⟩
      apply (chainS_iff W A (s0.get W.P) hA hS).1
      refine ⟨E', C', tl, hE, htl, ?_, fun inv hi => (hinv inv hi).2, hgoals⟩
      intro dc hdc
      obtain ⟨b, _, hb1, hb2, hb3, hb4⟩ := i2 dc hdc
      have := hconds dc (by simp [hdc]) dc.start (by rw [hb2, hb3, hb4, hb1]; exact inInterval_point.2 rfl)
      exact this
  · rintro ⟨s0, hs0, hinv0, hchain⟩
    obtain ⟨E, C, tl, hE, htl, c3, c4, c5⟩ := (chainS_iff W A (s0.get W.P) hA hS).2 hchain
    obtain ⟨i1, i2⟩ := inst_items_times hA hE
    have hhap : happenings E = A.map (·.1.start) := by
      apply strictAsc_ext (strictAsc_happenings _) (startsAsc_strictAsc hS)
      intro t
      rw [mem_happenings, ← i1]
      simp only [List.mem_map]
    have hkeys := timeline_keys htl
    have hasc : StrictAsc (tl.map (·.1)) := by rw [hkeys]; exact startsAsc_strictAsc hS
    have hp : ∀ x ∈ tl, 0 ≤ x.1 := by
      intro x hx
      have : x.1 ∈ tl.map (·.1) := List.mem_map.2 ⟨x, hx, rfl⟩
      rw [hkeys] at this
      obtain ⟨a, ha, hat⟩ := List.mem_map.1 this
      rw [← hat]; exact hpos a ha
    refine ⟨E, invariantConds W ++ C, s0, by simp [hE], hs0, tl, by rw [hhap]; exact htl, ?_, c5⟩
    intro dc hdc p hp'
    simp only [List.mem_append] at hdc
    rcases hdc with hdc | hdc
    · simp only [invariantConds, List.mem_map] at hdc
      obtain ⟨inv, hi, rfl⟩ := hdc
      have := (stateAt_all (φ := fun σ => HoldsIn W σ inv) (σ0 := s0.get W.P) hasc hp).2
        ⟨hinv0 inv hi, fun x hx => c4 inv hi x hx⟩ p (inInterval_from0.1 hp')
      exact this
    · obtain ⟨b, _, hb1, hb2, hb3, hb4⟩ := i2 dc hdc
      rw [hb2, hb3, hb4, ← hb1] at hp'
      have := inInterval_point.1 hp'
      subst this
      exact c3 dc hdc

/-! ### the sequential validator, step by step -/

/-- the step-by-step reading of `SequentialPlanValidator._validate` returning VALID -/
def ChainQ (W : World) : List (Action × List String) → SimState → Prop
  | [], s => ∀ g ∈ W.P.goals, evalBool (ctx W s) g = .ok true
  | (a, args) :: r, s => ∃ g s', ground W a args = .ok (some g) ∧
      (∀ c ∈ g.pre, eval (ctx W s) [] c = .ok (.b true)) ∧ applyUnsafe W s g = .ok s' ∧ ChainQ W r s'

theorem unsatPre_nil {c : EvalCtx} : ∀ (ps : List Expr) (i : Nat),
    unsatPre c false ps i = .ok [] ↔ ∀ p ∈ ps, eval c [] p = .ok (.b true)
  | [], _ => by simp [unsatPre]
  | p :: ps, i => by
    simp only [unsatPre, List.mem_cons, forall_eq_or_imp]
    rw [← unsatPre_nil ps (i + 1)]
    cases hp : eval c [] p with
    | error x => simp
    | ok v =>
      cases v with
      | b b =>
        cases b with
        | true => simp
        | false =>
          simp only [Bool.false_eq_true, ↓reduceIte]
          cases unsatPre c false ps (i + 1) <;> simp
      | n q =>
        simp only [Bool.false_eq_true, ↓reduceIte]
        cases unsatPre c false ps (i + 1) <;> simp
      | o x =>
        simp only [Bool.false_eq_true, ↓reduceIte]
        cases unsatPre c false ps (i + 1) <;> simp

theorem seqStep_inr {W : World} {s s' : SimState} {i : Nat} {a : Action} {args : List String} :
    seqStep W s i a args = .ok (.inr s') ↔
      ∃ g, ground W a args = .ok (some g) ∧ (∀ c ∈ g.pre, eval (ctx W s) [] c = .ok (.b true)) ∧
        applyUnsafe W s g = .ok s' := by
  unfold seqStep
  cases hg : ground W a args with
  | error x => simp
  | ok o =>
    cases o with
    | none => simp
    | some g =>
      simp only [Except.ok.injEq, Option.some.injEq, exists_eq_left']
      rw [← unsatPre_nil g.pre 0]
      cases hu : unsatPre (ctx W s) false g.pre 0 with
      | error x => cases x <;> simp
      | ok l =>
        cases l with
        | cons j js => simp
        | nil =>
          simp only [true_and]
          cases ha : applyUnsafe W s g with
          | error e =>
            cases e with
            | conflict => simp
            | invalid => simp
            | eval x => cases x <;> simp
          | ok s'' => simp

theorem seqStep_inl {W : World} {s : SimState} {i : Nat} {a : Action} {args : List String} {v : Verdict}
    (h : seqStep W s i a args = .ok (.inl v)) : v ≠ .valid := by
  unfold seqStep at h
  split at h
  · cases h
  · cases h; simp
  · split at h
    · cases h; simp
    · cases h
    · cases h; simp
    · split at h
      · cases h; simp
      · cases h; simp
      · cases h; simp
      · cases h
      · cases h

theorem seqLoop_spec {W : World} : ∀ (plan : List (Action × List String)) (i : Nat) (s : SimState),
    (∀ v, seqLoop W plan i s = .ok (.inl v) → v ≠ .valid) ∧
    ((∃ sf, seqLoop W plan i s = .ok (.inr sf) ∧ ∀ g ∈ W.P.goals, evalBool (ctx W sf) g = .ok true) ↔ ChainQ W plan s)
  | [], i, s => by
    refine ⟨by intro v h; simp [seqLoop] at h, ?_⟩
    simp only [seqLoop, ChainQ, Except.ok.injEq, Sum.inr.injEq, exists_eq_left']
  | (a, args) :: r, i, s => by
    refine ⟨?_, ?_⟩
    · intro v h
      simp only [seqLoop] at h
      cases hs : seqStep W s i a args with
      | error e => rw [hs] at h; cases h
      | ok x =>
        rw [hs] at h
        cases x with
        | inl v' =>
          simp only [Except.ok.injEq, Sum.inl.injEq] at h
          subst h
          exact seqStep_inl hs
        | inr s' => exact (seqLoop_spec r (i + 1) s').1 v h
    · simp only [seqLoop, ChainQ]
      constructor
      · rintro ⟨sf, h, hg⟩
        cases hs : seqStep W s i a args with
        | error e => rw [hs] at h; cases h
        | ok x =>
          rw [hs] at h
          cases x with
          | inl v' => cases h
          | inr s' =>
            obtain ⟨g, h1, h2, h3⟩ := seqStep_inr.1 hs
            exact ⟨g, s', h1, h2, h3, ((seqLoop_spec r (i + 1) s').2).1 ⟨sf, h, hg⟩⟩
      · rintro ⟨g, s', h1, h2, h3, hc⟩
        obtain ⟨sf, h, hg⟩ := ((seqLoop_spec r (i + 1) s').2).2 hc
        refine ⟨sf, ?_, hg⟩
        rw [seqStep_inr.2 ⟨g, h1, h2, h3⟩]
        exact h

theorem getInitialState_go {W : World} {s0 : SimState} : ∀ (l : List Expr),
    getInitialState.go W s0 l = .ok (some s0) ↔ ∀ inv ∈ l, evalBool (ctx W s0) inv = .ok true
  | [] => by simp [getInitialState.go]
  | si :: sis => by
    simp only [getInitialState.go, List.mem_cons, forall_eq_or_imp]
    rw [← getInitialState_go sis]
    cases h : evalBool (ctx W s0) si with
    | error x => cases x <;> simp
    | ok b => cases b <;> simp

theorem getInitialState_go_state {W : World} {s0 s : SimState} : ∀ (l : List Expr),
    getInitialState.go W s0 l = .ok (some s) → s = s0
  | [], h => by simp [getInitialState.go] at h; exact h.symm
  | si :: sis, h => by
    simp only [getInitialState.go] at h
    split at h
    · cases h
    · cases h
    · cases h
    · exact getInitialState_go_state sis h

theorem getInitialState_some {W : World} {s0 : SimState} :
    getInitialState W = .ok (some s0) ↔
      initialState? W.P = some s0 ∧ ∀ inv ∈ invariants W, evalBool (ctx W s0) inv = .ok true := by
  unfold getInitialState
  cases h : initialState? W.P with
  | none => simp
  | some s =>
    simp only [Option.some.injEq]
    constructor
    · intro hg
      have := getInitialState_go_state _ hg
      subst this
      exact ⟨rfl, (getInitialState_go _).1 hg⟩
    · rintro ⟨rfl, hall⟩
      exact (getInitialState_go _).2 hall

/-- `SequentialPlanValidator._validate` returns VALID exactly on the chains -/
theorem seqValidate_valid_iff (W : World) (plan : List (Action × List String)) :
    seqValidate W plan = .ok .valid ↔ ∃ s0, getInitialState W = .ok (some s0) ∧ ChainQ W plan s0 := by
  unfold seqValidate
  cases hi : getInitialState W with
  | error x => simp
  | ok o =>
    cases o with
    | none => simp
    | some s0 =>
      simp only [Except.ok.injEq, Option.some.injEq, exists_eq_left']
      rw [← ((seqLoop_spec plan 0 s0).2)]
      cases hl : seqLoop W plan 0 s0 with
      | error e => simp
      | ok x =>
        cases x with
        | inl v =>
          have := (seqLoop_spec plan 0 s0).1 v hl
          simp only [Except.ok.injEq, reduceCtorEq, false_and, exists_false, iff_false]
          exact this
        | inr sf =>
          simp only [Except.ok.injEq, Sum.inr.injEq, exists_eq_left']
          unfold unsatisfiedGoals
          have key := unsatInv_nil (c := ctx W sf) false W.P.goals 0
          have hall : (W.P.goals.all (fun e => isTrueB (evalBool (ctx W sf) e)) = true) ↔
              ∀ g ∈ W.P.goals, evalBool (ctx W sf) g = .ok true := by
            rw [List.all_eq_true]
            constructor
            · intro h g hg
              have := h g hg
              unfold isTrueB at this
              split at this
              · assumption
              · cases this
            · intro h g hg
              rw [h g hg]; rfl
          rw [← hall, ← key]
          cases hu : unsatInv (ctx W sf) false W.P.goals 0 with
          | error x => cases x <;> simp
          | ok l => cases l <;> simp

/-! ### the two chains are the same chain -/

/-- the instantaneous action instances, as the sequential plan -/
def planOf (A : List (Step × Nat)) : List (Action × List String) :=
  A.filterMap (fun x => match x.1.act with
    | .inst a => some (a, x.1.args)
    | .dur _ => none)

theorem seqPlanOf_eq (π : List Step) : seqPlanOf π = planOf (procOrder (indexed π)) := rfl

/-- the effect's condition evaluates to a Boolean (or fails to evaluate) -/
def boolCondB (c : EvalCtx) (e : Effect) : Bool :=
  match eval c [] e.cond with
  | .ok (.b _) => true
  | .ok _ => false
  | .error _ => true

theorem boolCond_of_B {c : EvalCtx} {e : Effect} (h : boolCondB c e = true) : BoolCond c e := by
  intro v hv
  unfold boolCondB at h
  rw [hv] at h
  cases v with
  | b b => exact ⟨b, rfl⟩
  | n q => cases h
  | o x => cases h

/-- along the sequential execution of the plan from `s`, every effect condition of the action instance
    being applied evaluates to a Boolean (the library's typing discipline: `add_effect` accepts only
    Boolean conditions, states store Booleans in Boolean fluents) -/
def condsOK (W : World) : List (Action × List String) → SimState → Bool
  | [], _ => true
  | (a, args) :: r, s =>
    match ground W a args with
    | .ok (some g) =>
      (expandAll W.P g).all (boolCondB (ctx W s)) &&
        (match applyUnsafe W s g with
          | .ok s' => condsOK W r s'
          | .error _ => true)
    | _ => true

/-- … from the initial state -/
def condsBoolean (W : World) (plan : List (Action × List String)) : Bool :=
  match getInitialState W with
  | .ok (some s0) => condsOK W plan s0
  | _ => true

theorem all_isTrueB {c : EvalCtx} {l : List Expr} :
    l.all (fun si => isTrueB (evalBool c si)) = true ↔ ∀ e ∈ l, evalBool c e = .ok true := by
  rw [List.all_eq_true]
  constructor
  · intro h g hg
    have := h g hg
    unfold isTrueB at this
    split at this
    · assumption
    · cases this
  · intro h g hg
    rw [h g hg]; rfl

/-- `apply_unsafe` succeeds on a consistent set of fired effects whose successor satisfies the invariants -/
theorem applyUnsafe_of_spec {W : World} {s : SimState} {g : GAction} {F : List Fired}
    (hF : fired (ctx W s) (expandAll W.P g) = some F) (hc : Cons (ctx W s).get F)
    (hinv : ∀ inv ∈ invariants W, evalBool (ctxOf W (succGet (ctx W s).get F)) inv = .ok true) :
    ∃ s', applyUnsafe W s g = .ok s' ∧ s'.get W.P = succGet (ctx W s).get F := by
  unfold applyUnsafe
  rw [foldEffects_of_fired Acc.empty hF]
  have hspec := foldFired_spec (cur := (ctx W s).get) (fired_sorted hF)
  cases hf : foldFired (ctx W s).get F Acc.empty with
  | error x => rw [hf] at hspec; exact absurd hc hspec
  | ok acc =>
    rw [hf] at hspec
    have hget : (s.child acc.upd).get W.P = succGet (ctx W s).get F := child_get hspec.2
    have hctx : ctx W (s.child acc.upd) = ctxOf W (succGet (ctx W s).get F) := by
      rw [← hget]; rfl
    simp only
    have : checkInvariants (ctx W (s.child acc.upd)) (invariants W) = .ok true := by
      rw [checkInvariants_true, all_isTrueB, hctx]
      exact hinv
    rw [this]
    exact ⟨_, rfl, hget⟩

theorem holdsIn_iff_eval {W : World} {s : SimState} {c : Expr} :
    HoldsIn W (s.get W.P) c ↔ eval (ctx W s) [] c = .ok (.b true) := by
  unfold HoldsIn evalBool
  rw [ctxOf_get]
  cases h : eval (ctx W s) [] c with
  | error x => simp
  | ok v => cases v <;> simp

/-- the specification's chain gives the sequential validator's chain -/
theorem chainQ_of_chainS {W : World} : ∀ (A : List (Step × Nat)) (s : SimState),
    ChainS W A (s.get W.P) → ChainQ W (planOf A) s
  | [], s, h => by
    simp only [planOf, List.filterMap_nil, ChainQ]
    intro g hg
    have := h g hg
    unfold HoldsIn at this
    rwa [ctxOf_get] at this
  | a :: r, s, h => by
    obtain ⟨act, g, σ', hact, hg, hpre, hσ, hinv, hch⟩ := h
    obtain ⟨F, hF, hc, rfl⟩ := instantSucc_single hσ
    rw [ctxOf_get] at hF
    obtain ⟨s', ha, hs'⟩ := applyUnsafe_of_spec (W := W) (s := s) hF hc (fun inv hi => hinv inv hi)
    have e : planOf (a :: r) = (act, a.1.args) :: planOf r := by
      simp [planOf, hact]
    rw [e]
    refine ⟨g, s', hg, fun c hc' => holdsIn_iff_eval.1 (hpre c hc'), ha, ?_⟩
    apply chainQ_of_chainS r s'
    rw [hs']; exact hch

/-- … and conversely, when effect conditions are Boolean-valued along the execution -/
theorem chainS_of_chainQ {W : World} : ∀ (A : List (Step × Nat)) (s : SimState), AllInst A →
    condsOK W (planOf A) s = true → ChainQ W (planOf A) s → ChainS W A (s.get W.P)
  | [], s, _, _, h => by
    simp only [planOf, List.filterMap_nil, ChainQ] at h
    intro g hg
    unfold HoldsIn
    rw [ctxOf_get]
    exact h g hg
  | a :: r, s, hA, hB, h => by
    obtain ⟨act, hact⟩ := hA a (by simp)
    have e : planOf (a :: r) = (act, a.1.args) :: planOf r := by
      simp [planOf, hact]
    rw [e] at h hB
    obtain ⟨g, s', hg, hpre, ha, hch⟩ := h
    simp only [condsOK, hg, ha, Bool.and_eq_true, List.all_eq_true] at hB
    have hspec := applyUnsafe_spec W s g
    rw [ha] at hspec
    obtain ⟨F, hF, hc, hget, hinv⟩ := hspec
    have hb : ∀ e ∈ expandAll W.P g, BoolCond (ctxOf W (s.get W.P)) e := by
      intro e he
      rw [ctxOf_get]
      exact boolCond_of_B (hB.1 e he)
    have hσ := instantSucc_single_of (W := W) (σ := s.get W.P) (g := g) (tag := some a.2)
      (by rw [ctxOf_get]; exact hF) hc hb
    refine ⟨act, g, s'.get W.P, hact, hg, fun c hc' => holdsIn_iff_eval.2 (hpre c hc'), ?_, ?_, ?_⟩
    · rw [hσ, hget]; rfl
    · intro inv hi
      have := all_isTrueB.1 hinv inv hi
      unfold HoldsIn
      rw [hget]
      exact this
    · exact chainS_of_chainQ r s' (fun x hx => hA x (by simp [hx])) hB.2 hch

/-! ### the plan in processing order -/

theorem mem_indexed {π : List Step} {a : Step × Nat} (h : a ∈ indexed π) : a.1 ∈ π := by
  have : a.1 ∈ (indexed π).map (·.1) := List.mem_map.2 ⟨a, h, rfl⟩
  rwa [indexed_map_fst] at this

theorem mem_procOrder {π : List Step} {a : Step × Nat} (h : a ∈ procOrder (indexed π)) : a.1 ∈ π :=
  mem_indexed ((procOrder_perm _).mem_iff.1 h)

theorem procOrder_starts_nodup {π : List Step} (h : (π.map (·.start)).Nodup) :
    ((procOrder (indexed π)).map (·.1.start)).Nodup := by
  have hp := (procOrder_perm (indexed π)).map (fun a : Step × Nat => a.1.start)
  rw [hp.nodup_iff]
  have : (indexed π).map (fun a => a.1.start) = ((indexed π).map (·.1)).map (·.start) := by simp
  rw [this, indexed_map_fst]
  exact h

theorem startsAsc_of_sorted_nodup : ∀ {A : List (Step × Nat)}, ActsSorted A → (A.map (·.1.start)).Nodup → StartsAsc A
  | [], _, _ => List.Pairwise.nil
  | a :: r, hs, hn => by
    unfold ActsSorted at hs
    unfold StartsAsc
    rw [List.pairwise_cons] at hs ⊢
    simp only [List.map_cons, List.nodup_cons] at hn
    refine ⟨?_, startsAsc_of_sorted_nodup hs.2 hn.2⟩
    intro b hb
    have h1 : a.1.start ≤ b.1.start := hs.1 b hb
    have h2 : a.1.start ≠ b.1.start := by
      intro e
      exact hn.1 (List.mem_map.2 ⟨b, hb, e.symm⟩)
    grind

theorem wellTimed_inst {W : World} {A : List (Step × Nat)} (hA : AllInst A) : WellTimed W A := by
  intro a ha ev cs hi x hx
  obtain ⟨act, hact⟩ := hA a ha
  rw [stepItems_inst hact] at hi
  cases hg : ground W act a.1.args with
  | error e => rw [hg] at hi; cases hi
  | ok o =>
    cases o with
    | none => rw [hg] at hi; cases hi
    | some g =>
      rw [hg] at hi
      simp only [Except.ok.injEq, Option.some.injEq, Prod.mk.injEq] at hi
      obtain ⟨rfl, _⟩ := hi
      simp only [List.mem_singleton] at hx
      subst hx
      show a.1.start ≤ a.1.start
      grind

theorem saneItems_inst {W : World} {A : List (Step × Nat)} (hA : AllInst A) (hpos : ∀ a ∈ A, 0 ≤ a.1.start) :
    ∀ E C, itemsOf W TProblem.empty A = some (E, C) → SaneItems E C := by
  intro E C h
  unfold itemsOf at h
  simp only [TProblem.empty, timedSched, timedGoalConds, List.nil_append] at h
  cases hE : stepsItems W A with
  | none => simp [hE] at h
  | some EC =>
    obtain ⟨E', C'⟩ := EC
    simp only [hE, Option.some.injEq, Prod.mk.injEq] at h
    obtain ⟨rfl, rfl⟩ := h
    obtain ⟨i1, i2⟩ := inst_items_times hA hE
    refine ⟨?_, ?_⟩
    · intro ev hev
      have : ev.time ∈ E'.map (·.time) := List.mem_map.2 ⟨ev, hev, rfl⟩
      rw [i1] at this
      obtain ⟨a, ha, hat⟩ := List.mem_map.1 this
      rw [← hat]; exact hpos a ha
    · intro dc hdc
      simp only [List.nil_append, List.mem_append] at hdc
      rcases hdc with hdc | hdc
      · simp only [invariantConds, List.mem_map] at hdc
        obtain ⟨inv, _, hdc'⟩ := hdc
        rw [← hdc']
        refine ⟨?_, ?_⟩
        · show (0 : Rat) ≤ 0
          grind
        · show Proper 0 none false false
          trivial
      · obtain ⟨b, hb, hb1, hb2, hb3, hb4⟩ := i2 dc hdc
        refine ⟨by rw [hb1]; exact hpos b hb, ?_⟩
        rw [hb2, hb3, hb4]
        exact Or.inr ⟨hb1, rfl, rfl⟩

/-- THE AGREEMENT: on instantaneous action instances with pairwise distinct, non-negative start times
    the two validators accept the same plans -/
theorem agree (W : World) (π : List Step)
    (hinst : ∀ st ∈ π, ∃ act, st.act = .inst act)
    (hdist : (π.map (·.start)).Nodup) (hpos : ∀ st ∈ π, 0 ≤ st.start)
    (hbool : condsBoolean W (seqPlanOf π) = true) :
    validate W TProblem.empty π = .ok .valid ↔ seqValidate W (seqPlanOf π) = .ok .valid := by
  have hA : AllInst (procOrder (indexed π)) := fun a ha => hinst a.1 (mem_procOrder ha)
  have hS : StartsAsc (procOrder (indexed π)) :=
    startsAsc_of_sorted_nodup (procOrder_sorted _) (procOrder_starts_nodup hdist)
  have hP : ∀ a ∈ procOrder (indexed π), 0 ≤ a.1.start := fun a ha => hpos a.1 (mem_procOrder ha)
  rw [validate_valid_iff W TProblem.empty π (wellTimed_inst hA) (saneItems_inst hA hP),
    validOf_inst_iff W _ hA hS hP, seqValidate_valid_iff, seqPlanOf_eq]
  constructor
  · rintro ⟨s0, h1, h2, h3⟩
    refine ⟨s0, getInitialState_some.2 ⟨h1, ?_⟩, chainQ_of_chainS _ s0 h3⟩
    intro inv hi
    have := h2 inv hi
    unfold HoldsIn at this
    rwa [ctxOf_get] at this
  · rintro ⟨s0, h1, h2⟩
    obtain ⟨g1, g2⟩ := getInitialState_some.1 h1
    have hb : condsOK W (planOf (procOrder (indexed π))) s0 = true := by
      unfold condsBoolean at hbool
      rw [h1] at hbool
      exact hbool
    refine ⟨s0, g1, ?_, chainS_of_chainQ _ s0 hA hb h2⟩
    intro inv hi
    unfold HoldsIn
    rw [ctxOf_get]
    exact g2 inv hi

end UPVerif.TT
