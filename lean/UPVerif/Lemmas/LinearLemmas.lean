import UPVerif.Lemmas.LinearSpec
import UPVerif.Lemmas.SimplifyArith
import UPVerif.Lemmas.SimplifySound
import UPVerif.Props.C15
import Mathlib.Tactic.Linarith
import Mathlib.Algebra.Order.Field.Rat
/-!
Helper lemmas for `Props/C17.lean`, part 1: the walker `linWalk` against `den`.
For a fixed pair of interpretations `ι ≤_k ι'` (`Bump`), every node function of the linear checker
maps results that are `Sound` for the children to a result that is `Sound` for the node, where
`Sound` is the claim the two reported sets make about the ground fluent `k` (`Claim`).
The sign decisions of `walk_times` / `walk_div` are justified by `C15.C15_sound_interval`.
-/
namespace UPVerif.Lin
open Expr Simp

/-! ### sets as duplicate-free lists -/

theorem mem_union {a b : List Expr} {x : Expr} : x ∈ union a b ↔ x ∈ a ∨ x ∈ b := by
  unfold union
  simp only [List.mem_append, List.mem_filter, Bool.not_eq_eq_eq_not, Bool.not_true]
  constructor
  · rintro (h | ⟨h, _⟩)
    · exact .inl h
    · exact .inr h
  · rintro (h | h)
    · exact .inl h
    · by_cases hx : x ∈ a
      · exact .inl hx
      · refine .inr ⟨h, ?_⟩
        simpa using hx

theorem hasKey_iff {k : GFluent} {l : List Expr} : hasKey k l = true ↔ ∃ h, h ∈ l ∧ key? h = some k := by
  simp [hasKey, List.any_eq_true]

theorem hasKey_nil (k : GFluent) : hasKey k [] = false := rfl

theorem hasKey_union (k : GFluent) (a b : List Expr) :
    hasKey k (union a b) = (hasKey k a || hasKey k b) := by
  rw [Bool.eq_iff_iff]
  simp only [Bool.or_eq_true, hasKey_iff, mem_union]
  constructor
  · rintro ⟨h, hm | hm, hk⟩
    · exact .inl ⟨h, hm, hk⟩
    · exact .inr ⟨h, hm, hk⟩
  · rintro (⟨h, hm, hk⟩ | ⟨h, hm, hk⟩)
    · exact ⟨h, .inl hm, hk⟩
    · exact ⟨h, .inr hm, hk⟩

theorem union_nil_left (b : List Expr) : union [] b = b := by
  simp [union]

theorem union_eq_nil {a b : List Expr} : union a b = [] ↔ a = [] ∧ b = [] := by
  constructor
  · intro h
    have ha : a = [] := by
      cases a with
      | nil => rfl
      | cons x xs => simp [union] at h
    subst ha
    rw [union_nil_left] at h
    exact ⟨rfl, h⟩
  · rintro ⟨rfl, rfl⟩; rfl

/-- for a nullary fluent `g`, "no member of `l` denotes `g()`" is plain non-membership -/
theorem hasKey_nullary_of_not_mem {g : FluentRef} {l : List Expr} (h : .app (.fluent g) [] ∉ l) :
    hasKey (g, []) l = false := by
  rw [Bool.eq_false_iff]
  intro hk
  obtain ⟨x, hx, hkx⟩ := hasKey_iff.1 hk
  apply h
  cases x with
  | app op args =>
    cases op with
    | fluent f =>
      simp only [key?, Option.map_eq_some_iff] at hkx
      obtain ⟨vs, hvs, heq⟩ := hkx
      simp only [Prod.mk.injEq] at heq
      obtain ⟨rfl, rfl⟩ := heq
      cases args with
      | nil => exact hx
      | cons a as =>
        exfalso
        simp only [constVals?] at hvs
        split at hvs
        · simp at hvs
        · cases hvs
    | _ => simp [key?] at hkx
  | leaf _ => simp [key?] at hkx
  | quant _ _ _ => simp [key?] at hkx

/-! ### the claims -/

theorem claim_none {q q' : Rat} : Claim false false q q' ↔ q = q' := by
  unfold Claim
  constructor
  · rintro ⟨h1, h2⟩; exact le_antisymm (h1 rfl) (h2 rfl)
  · rintro rfl; exact ⟨fun _ => le_refl _, fun _ => le_refl _⟩

theorem claim_add {p1 n1 p2 n2 : Bool} {a a' b b' : Rat} (h1 : Claim p1 n1 a a') (h2 : Claim p2 n2 b b') :
    Claim (p1 || p2) (n1 || n2) (a + b) (a' + b') := by
  unfold Claim at *
  simp only [Bool.or_eq_false_iff]
  constructor
  · rintro ⟨x, y⟩; have := h1.1 x; have := h2.1 y; linarith
  · rintro ⟨x, y⟩; have := h1.2 x; have := h2.2 y; linarith

theorem claim_sub {p1 n1 p2 n2 : Bool} {a a' b b' : Rat} (h1 : Claim p1 n1 a a') (h2 : Claim p2 n2 b b') :
    Claim (p1 || n2) (n1 || p2) (a - b) (a' - b') := by
  unfold Claim at *
  simp only [Bool.or_eq_false_iff]
  constructor
  · rintro ⟨x, y⟩; have := h1.1 x; have := h2.2 y; linarith
  · rintro ⟨x, y⟩; have := h1.2 x; have := h2.1 y; linarith

theorem claim_scale_pos {p n : Bool} {c u u' : Rat} (hc : 0 < c) (h : Claim p n u u') :
    Claim p n (c * u) (c * u') := by
  unfold Claim at *
  constructor
  · intro x; exact mul_le_mul_of_nonneg_left (h.1 x) (le_of_lt hc)
  · intro x; exact mul_le_mul_of_nonneg_left (h.2 x) (le_of_lt hc)

theorem claim_scale_neg {p n : Bool} {c u u' : Rat} (hc : c < 0) (h : Claim p n u u') :
    Claim n p (c * u) (c * u') := by
  unfold Claim at *
  constructor
  · intro x; exact mul_le_mul_of_nonpos_left (h.2 x) (le_of_lt hc)
  · intro x; exact mul_le_mul_of_nonpos_left (h.1 x) (le_of_lt hc)

theorem claim_scale_unknown {p n : Bool} {c u u' : Rat} (h : Claim p n u u') :
    Claim (p || n) (p || n) (c * u) (c * u') := by
  have key : (p || n) = false → c * u = c * u' := by
    intro hpn
    simp only [Bool.or_eq_false_iff] at hpn
    obtain ⟨rfl, rfl⟩ := hpn
    rw [claim_none.1 h]
  unfold Claim
  exact ⟨fun x => le_of_eq (key x), fun x => le_of_eq (key x).symm⟩

/-- the claim of `bySign` for a product `c * u` whose factor `c` has the sign `s` -/
theorem claim_bySign {s : Sign} {P N : List Expr} {k : GFluent} {c u u' : Rat}
    (hpos : s = .pos → 0 < c) (hneg : s = .neg → c < 0)
    (h : Claim (hasKey k P) (hasKey k N) u u') :
    Claim (hasKey k (bySign s P N).pos) (hasKey k (bySign s P N).neg) (c * u) (c * u') := by
  cases s with
  | pos => exact claim_scale_pos (hpos rfl) h
  | neg => exact claim_scale_neg (hneg rfl) h
  | unknown =>
    simp only [bySign, hasKey_union]
    exact claim_scale_unknown h

/-! ### signs from inferred types -/

theorem signOfTy_pos {t : Ty} (h : signOfTy t = some .pos) : ∃ l, t.lb = some l ∧ 0 < l := by
  unfold signOfTy at h
  split at h
  · cases h
  · split at h
    · rename_i l u hl hu
      split at h
      · exact ⟨l, hl, by assumption⟩
      · split at h <;> cases h
    · cases h

theorem signOfTy_neg {t : Ty} (h : signOfTy t = some .neg) : ∃ u, t.ub = some u ∧ u < 0 := by
  unfold signOfTy at h
  split at h
  · cases h
  · split at h
    · rename_i l u hl hu
      split at h
      · cases h
      · split at h
        · exact ⟨u, hu, by assumption⟩
        · cases h
    · cases h

section
variable {E : TypeEnv} {O : String → Option String} {ι ι' : Interp} {ρ : VEnv} {k : GFluent}

/-- a sign read off the inferred type is the sign of the value (C15) -/
theorem signOf_sound (hI : InterpOK E O ι) (hρ : VEnvOK E O ρ) {a : Expr} {s : Sign} {w : Rat}
    (hl : LeavesOK E O ι a) (hs : signOf E a = .ok s) (hd : den ι ρ a = some (.n w)) :
    (s = .pos → 0 < w) ∧ (s = .neg → w < 0) := by
  unfold signOf at hs
  split at hs
  · cases hs
  · rename_i t ht
    split at hs
    · cases hs
    · rename_i s' hs'
      simp only [Except.ok.injEq] at hs
      subst hs
      obtain ⟨_, hlo, hhi, _⟩ := C15.C15_sound_interval hI hρ a t w hl ht hd
      constructor
      · rintro rfl
        obtain ⟨l, hl1, hl2⟩ := signOfTy_pos hs'
        exact lt_of_lt_of_le hl2 (hlo l hl1)
      · rintro rfl
        obtain ⟨u, hu1, hu2⟩ := signOfTy_neg hs'
        exact lt_of_le_of_lt (hhi u hu1) hu2

/-! ### soundness of a result for an expression -/

/-- the claim a result makes about the ground fluent `k`, for `ι ≤_k ι'` -/
def Sound (k : GFluent) (ι ι' : Interp) (ρ : VEnv) (e : Expr) (r : LinRes) : Prop :=
  r.lin = true → ∀ q q', den ι ρ e = some (.n q) → den ι' ρ e = some (.n q') →
    Claim (hasKey k r.pos) (hasKey k r.neg) q q'

theorem denLeaf_bump (hB : Bump k ι ι') (l : Leaf) : denLeaf ι' ρ l = denLeaf ι ρ l := by
  cases l <;> simp [denLeaf, hB.par]

theorem leaf_sound (hB : Bump k ι ι') (l : Leaf) : Sound k ι ι' ρ (.leaf l) (walkDefault []) := by
  intro _ q q' h1 h2
  simp only [walkDefault, List.map_nil, unions, hasKey_nil]
  rw [claim_none]
  rw [Simp.den_leaf] at h1 h2
  rw [denLeaf_bump hB, h1] at h2
  simpa using h2

theorem constVals_of_all : ∀ {args : List Expr}, args.all isConstant = true → ∃ vs, constVals? args = some vs
  | [], _ => ⟨[], rfl⟩
  | a :: as, h => by
    simp only [List.all_cons, Bool.and_eq_true] at h
    obtain ⟨vs, hvs⟩ := constVals_of_all h.2
    have : ∃ v, constVal? a = some v := by
      rcases isConstant_cases h.1 with ⟨b, rfl⟩ | ⟨z, rfl⟩ | ⟨r, rfl⟩ | ⟨n, t, rfl⟩ <;> simp [constVal?]
    obtain ⟨v, hv⟩ := this
    exact ⟨v :: vs, by simp [constVals?, hv, hvs]⟩

theorem fluent_sound (hB : Bump k ι ι') {f : FluentRef} {args : List Expr} {rs : List LinRes}
    (hc : args.all isConstant = true) :
    Sound k ι ι' ρ (.app (.fluent f) args) (walkFluent (.app (.fluent f) args) rs) := by
  intro _ q q' h1 h2
  obtain ⟨vs, hvs⟩ := constVals_of_all hc
  have hk : key? (.app (.fluent f) args) = some (f, vs) := by simp [key?, hvs]
  rw [Simp.den_app, denList_constVals hvs] at h1 h2
  simp only [Option.bind_some, denOp] at h1 h2
  simp only [walkFluent, hasKey_nil]
  by_cases hkk : (f, vs) = k
  · subst hkk
    have : hasKey (f, vs) [.app (.fluent f) args] = true := hasKey_iff.2 ⟨_, by simp, hk⟩
    rw [this]
    exact ⟨fun _ => hB.up q q' h1 h2, fun h => by cases h⟩
  · have : hasKey k [.app (.fluent f) args] = false := by
      rw [Bool.eq_false_iff]
      intro h
      obtain ⟨h', hm, hk'⟩ := hasKey_iff.1 h
      simp only [List.mem_singleton] at hm
      subst hm
      rw [hk] at hk'
      exact hkk (by simpa using hk')
    rw [this, claim_none]
    rw [hB.others f vs hkk, h1] at h2
    simpa using h2

/-! ### `walk_default` on PLUS -/

theorem plus_claims : ∀ {args : List Expr} {rs : List LinRes} {qs qs' : List Rat},
    List.Forall₂ (Sound k ι ι' ρ) args rs → rs.all (·.lin) = true →
    denNums ι ρ args = some qs → denNums ι' ρ args = some qs' →
    Claim (hasKey k (unions (rs.map (·.pos)))) (hasKey k (unions (rs.map (·.neg)))) (sumQ qs) (sumQ qs')
  | _, _, qs, qs', .nil, _, h1, h2 => by
    rw [denNums_nil] at h1 h2
    cases h1; cases h2
    simp only [List.map_nil, unions, hasKey_nil, claim_none]
  | _, _, qs, qs', .cons (a := a) (b := r) (l₁ := as) (l₂ := rs) hs hrest, hlin, h1, h2 => by
    obtain ⟨x, xs, hx, hxs, rfl⟩ := denNums_cons.1 h1
    obtain ⟨x', xs', hx', hxs', rfl⟩ := denNums_cons.1 h2
    simp only [List.all_cons, Bool.and_eq_true] at hlin
    simp only [List.map_cons, unions, hasKey_union, sumQ]
    exact claim_add (hs hlin.1 x x' hx hx') (plus_claims hrest hlin.2 hxs hxs')

theorem plus_sound {args : List Expr} {rs : List LinRes}
    (h : List.Forall₂ (Sound k ι ι' ρ) args rs) : Sound k ι ι' ρ (.app .plus args) (walkDefault rs) := by
  intro hlin q q' h1 h2
  obtain ⟨qs, hqs, hq⟩ := den_plus_some.1 h1
  obtain ⟨qs', hqs', hq'⟩ := den_plus_some.1 h2
  cases hq; cases hq'
  exact plus_claims h hlin hqs hqs'

/-! ### `walk_minus` -/

theorem den_minus_num {ι : Interp} {a b : Expr} {q : Rat} (h : den ι ρ (.app .minus [a, b]) = some (.n q)) :
    ∃ x y, den ι ρ a = some (.n x) ∧ den ι ρ b = some (.n y) ∧ q = x - y := by
  obtain ⟨va, vb, ha, hb, hop⟩ := den_app2_some.1 h
  cases va <;> cases vb <;> simp [denOp] at hop
  exact ⟨_, _, ha, hb, hop.symm⟩

theorem minus_sound {args : List Expr} {rs : List LinRes} {r : LinRes}
    (h : List.Forall₂ (Sound k ι ι' ρ) args rs) (hw : walkMinus rs = .ok r) :
    Sound k ι ι' ρ (.app .minus args) r := by
  unfold walkMinus at hw
  split at hw
  · rename_i ra rb
    cases h with
    | cons ha hrest =>
      cases hrest with
      | cons hb hnil =>
        cases hnil
        split at hw
        · simp only [Except.ok.injEq] at hw; subst hw
          intro hl; cases hl
        · rename_i hlin
          simp only [Bool.not_eq_true, Bool.not_eq_false'] at hlin
          simp only [Bool.and_eq_true] at hlin
          simp only [Except.ok.injEq] at hw; subst hw
          intro _ q q' h1 h2
          obtain ⟨x, y, hx, hy, rfl⟩ := den_minus_num h1
          obtain ⟨x', y', hx', hy', rfl⟩ := den_minus_num h2
          simp only [hasKey_union]
          exact claim_sub (ha hlin.1 x x' hx hx') (hb hlin.2 y y' hy hy')
  · cases hw

/-! ### `walk_div` -/

theorem den_div_num {ι : Interp} {a b : Expr} {q : Rat} (h : den ι ρ (.app .div [a, b]) = some (.n q)) :
    ∃ x y, den ι ρ a = some (.n x) ∧ den ι ρ b = some (.n y) ∧ y ≠ 0 ∧ q = x / y := by
  obtain ⟨va, vb, ha, hb, hop⟩ := den_app2_some.1 h
  cases va <;> cases vb <;> simp [denOp] at hop
  exact ⟨_, _, ha, hb, hop.1, hop.2.symm⟩

theorem isEmpty_eq_nil {l : List Expr} (h : l.isEmpty = true) : l = [] := by
  cases l <;> simp_all

theorem div_sound (hI : InterpOK E O ι) (hρ : VEnvOK E O ρ) {args : List Expr} {rs : List LinRes} {r : LinRes}
    (hl : ∀ a, a ∈ args → LeavesOK E O ι a)
    (h : List.Forall₂ (Sound k ι ι' ρ) args rs) (hw : walkDiv E args rs = .ok r) :
    Sound k ι ι' ρ (.app .div args) r := by
  unfold walkDiv at hw
  split at hw
  · rename_i a d rn rd
    cases h with
    | cons ha hrest =>
      cases hrest with
      | cons hd hnil =>
        cases hb : (rn.lin && rd.lin && rd.pos.isEmpty && rd.neg.isEmpty) with
        | false =>
          simp only [hb, Bool.not_false, ↓reduceIte, Except.ok.injEq] at hw; subst hw
          intro hl; cases hl
        | true =>
          simp only [hb, Bool.not_true, Bool.false_eq_true, ↓reduceIte] at hw
          simp only [Bool.and_eq_true] at hb
          obtain ⟨⟨⟨hln, hld⟩, hdp⟩, hdn⟩ := hb
          have hdp' := isEmpty_eq_nil hdp
          have hdn' := isEmpty_eq_nil hdn
          split at hw
          · cases hw
          · rename_i s hs
            simp only [Except.ok.injEq] at hw; subst hw
            intro _ q q' h1 h2
            obtain ⟨x, y, hx, hy, hy0, rfl⟩ := den_div_num h1
            obtain ⟨x', y', hx', hy', _, rfl⟩ := den_div_num h2
            have hyy : y = y' := by
              have := hd hld y y' hy hy'
              rw [hdp', hdn', hasKey_nil, claim_none] at this
              exact this
            subst hyy
            have hsign := signOf_sound hI hρ (hl d (by simp)) hs hy
            have hn := ha hln x x' hx hx'
            have e1 : x / y = y⁻¹ * x := by rw [div_eq_mul_inv, mul_comm]
            have e2 : x' / y = y⁻¹ * x' := by rw [div_eq_mul_inv, mul_comm]
            rw [e1, e2]
            refine claim_bySign (fun hp => inv_pos.2 (hsign.1 hp)) (fun hp => inv_lt_zero.2 (hsign.2 hp)) ?_
            rw [hdp', hdn']
            simpa [hasKey_union, hasKey_nil] using hn
  · cases hw

end
end UPVerif.Lin
