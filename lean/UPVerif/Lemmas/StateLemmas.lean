import UPVerif.Core.State
/-! Helper lemmas for `Props/C36.lean`: association lists as Python dicts, the father chain,
the heap invariant and its preservation. -/
namespace UPVerif.State

/-- the keys of a Python dict are pairwise distinct -/
def NodupKeys (d : Dict) : Prop := (d.map (·.1)).Nodup

instance (d : Dict) : Decidable (NodupKeys d) := inferInstanceAs (Decidable (d.map (·.1)).Nodup)

/-! ### dicts -/

theorem dget_eq_none_iff {d : Dict} {k : FExp} : dget d k = none ↔ k ∉ d.map (·.1) := by
  induction d with
  | nil => simp [dget]
  | cons kv r ih =>
    obtain ⟨k', v⟩ := kv
    simp only [dget, List.map_cons, List.mem_cons, not_or]
    by_cases h : k' = k
    · simp [h]
    · simp only [h, if_false, ih]
      constructor
      · intro hn; exact ⟨fun e => h e.symm, hn⟩
      · intro hn; exact hn.2

theorem dget_some_mem {d : Dict} {k : FExp} {v : Value} (h : dget d k = some v) : (k, v) ∈ d := by
  induction d with
  | nil => simp [dget] at h
  | cons kv r ih =>
    obtain ⟨k', v'⟩ := kv
    simp only [dget] at h
    by_cases e : k' = k
    · simp only [e, if_true, Option.some.injEq] at h
      subst e; subst h; exact List.mem_cons_self
    · simp only [e, if_false] at h
      exact List.mem_cons_of_mem _ (ih h)

theorem mem_dget_of_nodup {d : Dict} {k : FExp} {v : Value} (hn : NodupKeys d) (h : (k, v) ∈ d) :
    dget d k = some v := by
  induction d with
  | nil => cases h
  | cons kv r ih =>
    obtain ⟨k', v'⟩ := kv
    simp only [NodupKeys, List.map_cons, List.nodup_cons] at hn
    simp only [dget]
    rcases List.mem_cons.1 h with e | hr
    · cases e; simp
    · have : k' ≠ k := by
        intro e; subst e
        exact hn.1 (List.mem_map.2 ⟨(k', v), hr, rfl⟩)
      simp only [this, if_false]
      exact ih hn.2 hr

theorem dget_append (a b : Dict) (k : FExp) :
    dget (a ++ b) k = (dget a k).or (dget b k) := by
  induction a with
  | nil => simp [dget]
  | cons kv r ih =>
    obtain ⟨k', v'⟩ := kv
    simp only [List.cons_append, dget]
    by_cases e : k' = k
    · simp [e]
    · simp [e, ih]

theorem dget_setdefault (d : Dict) (k k' : FExp) (v : Value) :
    dget (setdefault d k v) k' = (dget d k').or (if k = k' then some v else none) := by
  unfold setdefault
  cases h : dget d k with
  | some x =>
    simp only
    by_cases e : k = k'
    · subst e; simp [h]
    · simp [e]
  | none =>
    simp only [dget_append, dget]

theorem dget_mergeInto (acc vals : Dict) (k : FExp) :
    dget (mergeInto acc vals) k = (dget acc k).or (dget vals k) := by
  unfold mergeInto
  induction vals generalizing acc with
  | nil => simp [dget]
  | cons kv r ih =>
    obtain ⟨k0, v0⟩ := kv
    simp only [List.foldl_cons, ih, dget_setdefault, dget]
    cases dget acc k <;> by_cases e : k0 = k <;> simp [e]

theorem dget_foldl_mergeInto (ch : List Dict) (acc : Dict) (k : FExp) :
    dget (ch.foldl mergeInto acc) k = (dget acc k).or (firstFound ch k) := by
  induction ch generalizing acc with
  | nil => simp [firstFound]
  | cons d r ih =>
    simp only [List.foldl_cons, ih, dget_mergeInto, firstFound]
    cases dget acc k <;> cases dget d k <;> simp

theorem nodupKeys_setdefault {d : Dict} (k : FExp) (v : Value) (h : NodupKeys d) :
    NodupKeys (setdefault d k v) := by
  unfold setdefault
  cases e : dget d k with
  | some x => exact h
  | none =>
    simp only [NodupKeys, List.map_append, List.map_cons, List.map_nil]
    rw [List.nodup_append]
    refine ⟨h, by simp, ?_⟩
    intro a ha b hb
    simp only [List.mem_singleton] at hb
    subst hb
    intro e'; subst e'
    exact (dget_eq_none_iff.1 e) ha

theorem nodupKeys_mergeInto {acc : Dict} (vals : Dict) (h : NodupKeys acc) :
    NodupKeys (mergeInto acc vals) := by
  unfold mergeInto
  induction vals generalizing acc with
  | nil => exact h
  | cons kv r ih => exact ih (nodupKeys_setdefault _ _ h)

theorem nodupKeys_foldl_mergeInto (ch : List Dict) {acc : Dict} (h : NodupKeys acc) :
    NodupKeys (ch.foldl mergeInto acc) := by
  induction ch generalizing acc with
  | nil => exact h
  | cons d r ih => exact ih (nodupKeys_mergeInto d h)

theorem nodupKeys_filter {d : Dict} (p : FExp × Value → Bool) (h : NodupKeys d) :
    NodupKeys (d.filter p) := by
  unfold NodupKeys at *
  exact List.Nodup.sublist (List.Sublist.map _ List.filter_sublist) h

theorem dget_filter {d : Dict} (p : FExp × Value → Bool) (h : NodupKeys d) (k : FExp) :
    dget (d.filter p) k = (dget d k).filter (fun v => p (k, v)) := by
  induction d with
  | nil => simp [dget]
  | cons kv r ih =>
    obtain ⟨k', v'⟩ := kv
    simp only [NodupKeys, List.map_cons, List.nodup_cons] at h
    have ih' := ih h.2
    by_cases e : k' = k
    · subst e
      have hr : dget r k' = none := dget_eq_none_iff.2 h.1
      by_cases hp : p (k', v') = true
      · simp [hp, dget, Option.filter]
      · simp [hp, dget, ih', hr, Option.filter]
    · by_cases hp : p (k', v') = true
      · simp [hp, dget, e, ih']
      · simp [hp, dget, e, ih']

/-! ### the father chain -/

/-- a father is an older object -/
def FatherLt (ns : List Node) : Prop :=
  ∀ (i : Nat) (n : Node), ns[i]? = some n → ∀ j, n.father = some j → j < i

theorem chain_none (fuel : Nat) (ns : List Node) : chain fuel ns none = [] := by
  cases fuel <;> rfl

theorem chain_fuel {ns : List Node} (h : FatherLt ns) :
    ∀ fuel fuel' i, i < fuel → i < fuel' → chain fuel ns (some i) = chain fuel' ns (some i) := by
  intro fuel
  induction fuel with
  | zero => intro _ _ h0; omega
  | succ fuel ih =>
    intro fuel' i h1 h2
    cases fuel' with
    | zero => omega
    | succ fuel' =>
      simp only [chain]
      cases hn : ns[i]? with
      | none => rfl
      | some n =>
        simp only
        cases hf : n.father with
        | none => rw [chain_none, chain_none]
        | some j =>
          have hj := h i n hn j hf
          rw [ih fuel' j (by omega) (by omega)]

theorem chainOf_unfold {st : Store} (h : FatherLt st.nodes) {i : Nat} {n : Node}
    (hi : st.nodes[i]? = some n) :
    chainOf st i = n.values :: (match n.father with
      | some j => chainOf st j
      | none => []) := by
  unfold chainOf
  have e : chain (i + 1) st.nodes (some i) = n.values :: chain i st.nodes n.father := by
    simp only [chain, hi]
  rw [e]
  cases hf : n.father with
  | none => rw [chain_none]
  | some j =>
    have hj := h i n hi j hf
    simp only
    rw [chain_fuel h i (j + 1) j hj (by omega)]

theorem chainOf_invalid {st : Store} {i : Nat} (hi : st.nodes[i]? = none) : chainOf st i = [] := by
  unfold chainOf; simp [chain, hi]

theorem abs_eq (st : Store) (i : Nat) (f : FExp) :
    abs st i f = (firstFound (chainOf st i) f).or (defaultOf st.defaults f) := by
  unfold abs
  cases firstFound (chainOf st i) f <;> simp

theorem abs_unfold {st : Store} (h : FatherLt st.nodes) {i : Nat} {n : Node}
    (hi : st.nodes[i]? = some n) (f : FExp) :
    abs st i f = (dget n.values f).or (match n.father with
      | some j => abs st j f
      | none => defaultOf st.defaults f) := by
  rw [abs_eq, chainOf_unfold h hi]
  simp only [firstFound]
  cases hf : n.father with
  | none => cases dget n.values f <;> simp [firstFound]
  | some j => cases dget n.values f <;> simp [abs_eq]

theorem lt_length_of_getElem? {α : Type} {l : List α} {i : Nat} {a : α} (h : l[i]? = some a) :
    i < l.length := by
  obtain ⟨h', _⟩ := List.getElem?_eq_some_iff.1 h
  exact h'

/-- frame lemma: if every object of `st` is, in `st'`, either unchanged in `_values`/`_father`,
    or father-less with `_values` (completed by the defaults) giving its old map, then every object
    gives the same map in `st'` -/
theorem abs_congr {st st' : Store} (h : FatherLt st.nodes) (h' : FatherLt st'.nodes)
    (hd : st'.defaults = st.defaults)
    (hn : ∀ (j : Nat) (n : Node), st.nodes[j]? = some n → ∃ n', st'.nodes[j]? = some n' ∧
      ((n'.values = n.values ∧ n'.father = n.father) ∨
       (n'.father = none ∧ ∀ f, (dget n'.values f).or (defaultOf st.defaults f) = abs st j f))) :
    ∀ j, j < st.nodes.length → ∀ f, abs st' j f = abs st j f := by
  intro j
  induction j using Nat.strongRecOn with
  | _ j ih =>
    intro hj f
    have hjn : st.nodes[j]? = some st.nodes[j] := by simp [hj]
    obtain ⟨n', hn', hcase⟩ := hn j _ hjn
    rcases hcase with ⟨hv, hf⟩ | ⟨hf, hv⟩
    · rw [abs_unfold h' hn', abs_unfold h hjn, hv, hf, hd]
      cases hfa : (st.nodes[j]).father with
      | none => rfl
      | some k =>
        have hk := h j _ hjn k hfa
        simp only
        rw [ih k hk (by omega)]
    · rw [abs_unfold h' hn', hf, hd]
      exact hv f

theorem filter_nondefault_or (ds : Defaults) (f : FExp) (o : Option Value) :
    (o.filter (fun v => isNondefault ds f v)).or (defaultOf ds f) = o.or (defaultOf ds f) := by
  cases o with
  | none => simp
  | some v =>
    unfold isNondefault
    cases hd : defaultOf ds f with
    | none => simp [Option.filter]
    | some d =>
      by_cases e : d = v
      · subst e; simp [Option.filter]
      · simp [Option.filter, e]

/-! ### the heap invariant -/

structure Inv (st : Store) : Prop where
  /-- a father is an older object -/
  fatherLt : FatherLt st.nodes
  /-- `_values` is a dict -/
  nodup : ∀ (i : Nat) (n : Node), st.nodes[i]? = some n → NodupKeys n.values
  /-- "a UPState without a _father only stores non-default values" (state.py:97) -/
  rootNondef : ∀ (i : Nat) (n : Node), st.nodes[i]? = some n → n.father = none →
    ∀ k v, (k, v) ∈ n.values → isNondefault st.defaults k v = true
  /-- a cached hash was computed on a condensed object from its current `_values` -/
  hashOk : ∀ (i : Nat) (n : Node), st.nodes[i]? = some n → ∀ h, n.hash = some h → n.father = none ∧ h = n.values

/-- replacing object `i` by a father-less object that gives the same map keeps the invariant and
    the map of every object (used for `_condense_state` and for caching the hash) -/
theorem set_root {st : Store} (hI : Inv st) {i : Nat} {n n' : Node} (hi : st.nodes[i]? = some n)
    (hf : n'.father = none) (hnd : NodupKeys n'.values)
    (hnon : ∀ k v, (k, v) ∈ n'.values → isNondefault st.defaults k v = true)
    (hh : ∀ h, n'.hash = some h → h = n'.values)
    (habs : ∀ f, (dget n'.values f).or (defaultOf st.defaults f) = abs st i f) :
    Inv { st with nodes := st.nodes.set i n' } ∧
    ∀ j, j < st.nodes.length → ∀ f, abs { st with nodes := st.nodes.set i n' } j f = abs st j f := by
  have hil : i < st.nodes.length := lt_length_of_getElem? hi
  have look : ∀ j, (st.nodes.set i n')[j]? = if i = j then some n' else st.nodes[j]? := by
    intro j; rw [List.getElem?_set]; simp [hil]
  have hFL : FatherLt (st.nodes.set i n') := by
    intro j m hm k hk
    rw [look] at hm
    by_cases e : i = j
    · simp only [e, if_true, Option.some.injEq] at hm; subst hm; rw [hf] at hk; cases hk
    · simp only [e, if_false] at hm; exact hI.fatherLt j m hm k hk
  refine ⟨⟨hFL, ?_, ?_, ?_⟩, ?_⟩
  · intro j m hm
    simp only [look] at hm
    by_cases e : i = j
    · simp only [e, if_true, Option.some.injEq] at hm; subst hm; exact hnd
    · simp only [e, if_false] at hm; exact hI.nodup j m hm
  · intro j m hm hfm k v hkv
    simp only [look] at hm
    by_cases e : i = j
    · simp only [e, if_true, Option.some.injEq] at hm; subst hm; exact hnon k v hkv
    · simp only [e, if_false] at hm; exact hI.rootNondef j m hm hfm k v hkv
  · intro j m hm h hmh
    simp only [look] at hm
    by_cases e : i = j
    · simp only [e, if_true, Option.some.injEq] at hm; subst hm; exact ⟨hf, hh h hmh⟩
    · simp only [e, if_false] at hm; exact hI.hashOk j m hm h hmh
  · apply abs_congr (st' := { st with nodes := st.nodes.set i n' }) hI.fatherLt hFL rfl
    intro j m hm
    by_cases e : i = j
    · subst e
      refine ⟨n', by simp [look], Or.inr ⟨hf, habs⟩⟩
    · exact ⟨m, by simp [look, e, hm], Or.inl ⟨rfl, rfl⟩⟩

/-! ### `_condense_state` -/

theorem condense_defaults (st : Store) (i : Nat) : (condense st i).defaults = st.defaults := by
  unfold condense
  split
  · rfl
  · split <;> rfl

theorem condense_baseLimit (st : Store) (i : Nat) : (condense st i).baseLimit = st.baseLimit := by
  unfold condense
  split
  · rfl
  · split <;> rfl

theorem condense_length (st : Store) (i : Nat) : (condense st i).nodes.length = st.nodes.length := by
  unfold condense
  split
  · rfl
  · split <;> simp

theorem condense_other (st : Store) {i j : Nat} (h : i ≠ j) :
    (condense st i).nodes[j]? = st.nodes[j]? := by
  unfold condense
  split
  · rfl
  · split <;> simp [h]

/-- what `_condense_state` does to object `i`, and that nothing observable changes -/
theorem condense_spec {st : Store} (hI : Inv st) {i : Nat} {n : Node} (hi : st.nodes[i]? = some n) :
    Inv (condense st i) ∧
    (∀ j, j < st.nodes.length → ∀ f, abs (condense st i) j f = abs st j f) ∧
    ∃ n', (condense st i).nodes[i]? = some n' ∧ n'.father = none ∧ n'.hash = n.hash ∧
      n'.limit = n.limit ∧ ∀ f, (dget n'.values f).or (defaultOf st.defaults f) = abs st i f := by
  have hil : i < st.nodes.length := lt_length_of_getElem? hi
  cases hf : n.father with
  | none =>
    have e : condense st i = st := by unfold condense; simp [hi, hf]
    rw [e]
    refine ⟨hI, fun _ _ _ => rfl, n, hi, hf, rfl, rfl, ?_⟩
    intro f; rw [abs_unfold hI.fatherLt hi, hf]
  | some j =>
    let vals := ((chainOf st i).foldl mergeInto []).filter
      (fun kv => isNondefault st.defaults kv.1 kv.2)
    let n' : Node := { n with values := vals, ancestors := 0, father := none }
    have e : condense st i = { st with nodes := st.nodes.set i n' } := by
      unfold condense; simp [hi, hf, n', vals]
    have hnd0 : NodupKeys ((chainOf st i).foldl mergeInto []) :=
      nodupKeys_foldl_mergeInto _ (by simp [NodupKeys])
    have habs : ∀ f, (dget n'.values f).or (defaultOf st.defaults f) = abs st i f := by
      intro f
      show (dget vals f).or _ = _
      rw [show dget vals f = _ from dget_filter _ hnd0 f, dget_foldl_mergeInto]
      simp only [dget, Option.none_or]
      rw [filter_nondefault_or, abs_eq]
    have hhash : n.hash = none := by
      cases hh : n.hash with
      | none => rfl
      | some h => have := (hI.hashOk i n hi h hh).1; rw [hf] at this; cases this
    have := set_root hI hi (n' := n') rfl (nodupKeys_filter _ hnd0)
      (by intro k v hkv; exact (List.mem_filter.1 hkv).2)
      (by intro h hh; simp [n', hhash] at hh) habs
    rw [e]
    refine ⟨this.1, this.2, n', ?_, rfl, rfl, rfl, habs⟩
    simp [hil]

/-! ### `__init__` and `make_child` -/

theorem initNode_eq_some {ds : Defaults} {limit : Option Nat} {vals : Dict}
    {father : Option (Nat × Node)} {c : Node} (h : initNode ds limit vals father = some c) :
    limitOk limit = true ∧
    c.values = vals.filter (fun kv => father.isSome || isNondefault ds kv.1 kv.2) ∧
    c.father = father.map (·.1) ∧ c.hash = none ∧ c.limit = limit := by
  unfold initNode at h
  cases hl : limitOk limit with
  | false => simp [hl] at h
  | true =>
    simp only [hl, Bool.not_true, Bool.false_eq_true, if_false, Option.some.injEq] at h
    subst h
    exact ⟨rfl, rfl, rfl, rfl, rfl⟩

theorem initNode_isSome {ds : Defaults} {limit : Option Nat} (vals : Dict)
    (father : Option (Nat × Node)) (h : limitOk limit = true) :
    (initNode ds limit vals father).isSome = true := by
  unfold initNode; simp [h]

/-- appending a fresh object whose father (if any) exists -/
theorem append_node {st : Store} (hI : Inv st) {c : Node}
    (hfa : ∀ j, c.father = some j → j < st.nodes.length) (hnd : NodupKeys c.values)
    (hnon : c.father = none → ∀ k v, (k, v) ∈ c.values → isNondefault st.defaults k v = true)
    (hh : c.hash = none) :
    Inv { st with nodes := st.nodes ++ [c] } ∧
    ∀ j, j < st.nodes.length → ∀ f, abs { st with nodes := st.nodes ++ [c] } j f = abs st j f := by
  have look : ∀ (j : Nat) (m : Node), (st.nodes ++ [c])[j]? = some m →
      (j < st.nodes.length ∧ st.nodes[j]? = some m) ∨ (j = st.nodes.length ∧ m = c) := by
    intro j m hm
    by_cases hj : j < st.nodes.length
    · rw [List.getElem?_append_left hj] at hm; exact Or.inl ⟨hj, hm⟩
    · rw [List.getElem?_append_right (by omega)] at hm
      rw [List.getElem?_singleton] at hm
      by_cases e : j - st.nodes.length = 0
      · simp only [e, if_true, Option.some.injEq] at hm
        exact Or.inr ⟨by omega, hm.symm⟩
      · simp [e] at hm
  have hFL : FatherLt (st.nodes ++ [c]) := by
    intro j m hm k hk
    rcases look j m hm with ⟨_, h1⟩ | ⟨h1, h2⟩
    · exact hI.fatherLt j m h1 k hk
    · subst h2; rw [h1]; exact hfa k hk
  refine ⟨⟨hFL, ?_, ?_, ?_⟩, ?_⟩
  · intro j m hm
    rcases look j m hm with ⟨_, h1⟩ | ⟨_, h2⟩
    · exact hI.nodup j m h1
    · subst h2; exact hnd
  · intro j m hm hfm k v hkv
    rcases look j m hm with ⟨_, h1⟩ | ⟨_, h2⟩
    · exact hI.rootNondef j m h1 hfm k v hkv
    · subst h2; exact hnon hfm k v hkv
  · intro j m hm h hmh
    rcases look j m hm with ⟨_, h1⟩ | ⟨_, h2⟩
    · exact hI.hashOk j m h1 h hmh
    · subst h2; rw [hh] at hmh; cases hmh
  · apply abs_congr (st' := { st with nodes := st.nodes ++ [c] }) hI.fatherLt hFL rfl
    intro j m hm
    refine ⟨m, ?_, Or.inl ⟨rfl, rfl⟩⟩
    show (st.nodes ++ [c])[j]? = some m
    rw [List.getElem?_append_left (lt_length_of_getElem? hm)]; exact hm

theorem makeChild_spec {st : Store} (hI : Inv st) {i : Nat} {u : Dict} {st' : Store} {k : Nat}
    (hu : NodupKeys u) (h : makeChild st i u = some (st', k)) :
    k = st.nodes.length ∧ st'.nodes.length = st.nodes.length + 1 ∧
    st'.defaults = st.defaults ∧ st'.baseLimit = st.baseLimit ∧ Inv st' ∧
    (∀ j, j < st.nodes.length → ∀ f, abs st' j f = abs st j f) ∧
    (∀ f, abs st' k f = (dget u f).or (abs st i f)) := by
  unfold makeChild at h
  cases hi : st.nodes[i]? with
  | none => simp [hi] at h
  | some n =>
    have hil : i < st.nodes.length := lt_length_of_getElem? hi
    simp only [hi] at h
    by_cases hfl : mustFlatten n = true
    · -- past the limit: a fresh father-less state holding the non-default part of the full map
      simp only [hfl, if_true] at h
      cases hc : initNode st.defaults st.baseLimit
          (((chainOf st i).foldl mergeInto u).filter
            (fun kv => isNondefault st.defaults kv.1 kv.2)) none with
      | none => simp [hc] at h
      | some c =>
        simp only [hc, Option.some.injEq, Prod.mk.injEq] at h
        obtain ⟨hst, hk⟩ := h
        subst hst; subst hk
        obtain ⟨_, hv, hf, hh, _⟩ := initNode_eq_some hc
        simp only [Option.isSome_none, Bool.false_or, List.filter_filter, Bool.and_self] at hv
        simp only [Option.map_none] at hf
        have hnd0 : NodupKeys ((chainOf st i).foldl mergeInto u) := nodupKeys_foldl_mergeInto _ hu
        have hA := append_node hI (c := c) (by intro j hj; rw [hf] at hj; cases hj)
          (by rw [hv]; exact nodupKeys_filter _ hnd0)
          (by intro _ k v hkv; rw [hv] at hkv; exact (List.mem_filter.1 hkv).2) hh
        refine ⟨rfl, by simp, rfl, rfl, hA.1, hA.2, ?_⟩
        intro f
        have hlook : (st.nodes ++ [c])[st.nodes.length]? = some c := List.getElem?_concat_length
        rw [abs_unfold (st := { st with nodes := st.nodes ++ [c] }) hA.1.fatherLt hlook, hf, hv]
        simp only
        rw [dget_filter _ hnd0, dget_foldl_mergeInto, filter_nondefault_or, abs_eq, Option.or_assoc]
    · -- otherwise: a state that stores the update as given and points to its father
      have hfl' : mustFlatten n = false := by simpa using hfl
      simp only [hfl', Bool.false_eq_true, if_false] at h
      cases hc : initNode st.defaults st.baseLimit u (some (i, n)) with
      | none => simp [hc] at h
      | some c =>
        simp only [hc, Option.some.injEq, Prod.mk.injEq] at h
        obtain ⟨hst, hk⟩ := h
        subst hst; subst hk
        obtain ⟨_, hv, hf, hh, _⟩ := initNode_eq_some hc
        simp only [Option.isSome_some, Bool.true_or] at hv
        have hv : c.values = u := by
          rw [hv]; exact List.filter_eq_self.2 (fun _ _ => rfl)
        simp only [Option.map_some] at hf
        have hA := append_node hI (c := c)
          (by intro j hj; rw [hf] at hj; cases hj; exact hil)
          (by rw [hv]; exact hu)
          (by intro h0; rw [hf] at h0; cases h0) hh
        refine ⟨rfl, by simp, rfl, rfl, hA.1, hA.2, ?_⟩
        intro f
        have hlook : (st.nodes ++ [c])[st.nodes.length]? = some c := List.getElem?_concat_length
        rw [abs_unfold (st := { st with nodes := st.nodes ++ [c] }) hA.1.fatherLt hlook, hf, hv]
        simp only
        rw [hA.2 i hil f]

theorem makeChild_isSome {st : Store} {i : Nat} (u : Dict) (hi : i < st.nodes.length)
    (hb : limitOk st.baseLimit = true) : (makeChild st i u).isSome = true := by
  unfold makeChild
  have : st.nodes[i]? = some st.nodes[i] := by simp [hi]
  simp only [this]
  split
  · have := initNode_isSome (ds := st.defaults)
      (((chainOf st i).foldl mergeInto u).filter (fun kv => isNondefault st.defaults kv.1 kv.2))
      none hb
    cases hc : initNode st.defaults st.baseLimit
      (((chainOf st i).foldl mergeInto u).filter (fun kv => isNondefault st.defaults kv.1 kv.2))
      none with
    | none => rw [hc] at this; cases this
    | some c => rfl
  · have := initNode_isSome (ds := st.defaults) u (some (i, st.nodes[i])) hb
    cases hc : initNode st.defaults st.baseLimit u (some (i, st.nodes[i])) with
    | none => rw [hc] at this; cases this
    | some c => rfl

theorem makeChild_invalid {st : Store} {i : Nat} (u : Dict) (hi : st.nodes.length ≤ i) :
    makeChild st i u = none := by
  unfold makeChild
  have : st.nodes[i]? = none := List.getElem?_eq_none_iff.2 hi
  simp [this]

/-! ### calls that only mutate: what they may change -/

/-- `st'` has the same objects as `st`, each giving the same map, and is a legal heap -/
structure Frame (st st' : Store) : Prop where
  inv : Inv st'
  length : st'.nodes.length = st.nodes.length
  defaults : st'.defaults = st.defaults
  baseLimit : st'.baseLimit = st.baseLimit
  abs : ∀ j, j < st.nodes.length → ∀ f, abs st' j f = abs st j f

theorem Frame.refl {st : Store} (hI : Inv st) : Frame st st :=
  ⟨hI, rfl, rfl, rfl, fun _ _ _ => rfl⟩

theorem Frame.trans {a b c : Store} (h1 : Frame a b) (h2 : Frame b c) : Frame a c :=
  ⟨h2.inv, h2.length.trans h1.length, h2.defaults.trans h1.defaults,
   h2.baseLimit.trans h1.baseLimit,
   fun j hj f => (h2.abs j (by rw [h1.length]; exact hj) f).trans (h1.abs j hj f)⟩

theorem condense_frame {st : Store} (hI : Inv st) (i : Nat) : Frame st (condense st i) := by
  cases hi : st.nodes[i]? with
  | none =>
    have e : condense st i = st := by unfold condense; simp [hi]
    rw [e]; exact Frame.refl hI
  | some n =>
    obtain ⟨h1, h2, _⟩ := condense_spec hI hi
    exact ⟨h1, condense_length st i, condense_defaults st i, condense_baseLimit st i, h2⟩

theorem getValue_spec {st : Store} (hI : Inv st) (i : Nat) (f : FExp) :
    Frame st (getValue st i f).1 ∧ (getValue st i f).2 = abs st i f := by
  unfold getValue abs
  cases firstFound (chainOf st i) f with
  | some v => exact ⟨Frame.refl hI, rfl⟩
  | none =>
    cases defaultOf st.defaults f with
    | some d => exact ⟨Frame.refl hI, rfl⟩
    | none => exact ⟨condense_frame hI i, rfl⟩

theorem reprOp_frame {st : Store} (hI : Inv st) (i : Nat) : Frame st (reprOp st i).1 :=
  condense_frame hI i

/-- object `i` is condensed and its cached hash is `h`, computed from its current `_values` -/
def HashedRoot (st : Store) (i : Nat) (h : Dict) : Prop :=
  ∃ n, st.nodes[i]? = some n ∧ n.father = none ∧ n.hash = some h ∧ h = n.values

theorem hashOf_cached {st : Store} (hI : Inv st) {i : Nat} {n : Node} {h : Dict}
    (hi : st.nodes[i]? = some n) (hh : n.hash = some h) : hashOf st i = (st, h) := by
  have hf := (hI.hashOk i n hi h hh).1
  have e : condense st i = st := by unfold condense; simp [hi, hf]
  unfold hashOf
  simp [e, hi, hh]

theorem hashOf_other (st : Store) {i j : Nat} (h : i ≠ j) :
    (hashOf st i).1.nodes[j]? = st.nodes[j]? := by
  unfold hashOf
  simp only
  split
  · exact condense_other st h
  · split
    · exact condense_other st h
    · simp only [List.getElem?_set, h, if_false]; exact condense_other st h

theorem hashOf_spec {st : Store} (hI : Inv st) {i : Nat} {n : Node} (hi : st.nodes[i]? = some n) :
    Frame st (hashOf st i).1 ∧ HashedRoot (hashOf st i).1 i (hashOf st i).2 := by
  obtain ⟨hI1, habs1, n1, hn1, hf1, _, _, hmap1⟩ := condense_spec hI hi
  have hF1 : Frame st (condense st i) := condense_frame hI i
  unfold hashOf
  simp only [hn1]
  cases hh : n1.hash with
  | some h =>
    simp only
    exact ⟨hF1, n1, hn1, hf1, hh, (hI1.hashOk i n1 hn1 h hh).2⟩
  | none =>
    simp only
    have hS := set_root hI1 hn1 (n' := { n1 with hash := some n1.values }) hf1
      (hI1.nodup i n1 hn1) (hI1.rootNondef i n1 hn1 hf1) (by intro h hh'; cases hh'; rfl)
      (by intro f; rw [abs_unfold hI1.fatherLt hn1, hf1])
    have hil : i < (condense st i).nodes.length := lt_length_of_getElem? hn1
    refine ⟨Frame.trans hF1 ⟨hS.1, by simp, rfl, rfl, hS.2⟩, { n1 with hash := some n1.values }, ?_,
      hf1, rfl, rfl⟩
    simp [hil]

/-- the two `hash()` calls made by `__eq__` -/
theorem hash_twice {st : Store} (hI : Inv st) {i j : Nat} (hi : i < st.nodes.length)
    (hj : j < st.nodes.length) :
    Frame st (hashOf (hashOf st i).1 j).1 ∧
    HashedRoot (hashOf (hashOf st i).1 j).1 i (hashOf st i).2 ∧
    HashedRoot (hashOf (hashOf st i).1 j).1 j (hashOf (hashOf st i).1 j).2 := by
  have hin : st.nodes[i]? = some st.nodes[i] := by simp [hi]
  obtain ⟨hF1, n1, hn1, hf1, hh1, hv1⟩ := hashOf_spec hI hin
  have hj1 : j < (hashOf st i).1.nodes.length := by rw [hF1.length]; exact hj
  have hjn : (hashOf st i).1.nodes[j]? = some (hashOf st i).1.nodes[j] := by simp [hj1]
  obtain ⟨hF2, hR2⟩ := hashOf_spec hF1.inv hjn
  refine ⟨Frame.trans hF1 hF2, ?_, hR2⟩
  by_cases e : j = i
  · subst e
    rw [hashOf_cached hF1.inv hn1 hh1]
    exact ⟨n1, hn1, hf1, hh1, hv1⟩
  · refine ⟨n1, ?_, hf1, hh1, hv1⟩
    rw [hashOf_other _ e]; exact hn1

theorem itemsEq_iff {a b : Dict} (ha : NodupKeys a) (hb : NodupKeys b) :
    itemsEq a b = true ↔ ∀ k, dget a k = dget b k := by
  unfold itemsEq
  simp only [Bool.and_eq_true, List.all_eq_true, beq_iff_eq]
  constructor
  · rintro ⟨h1, h2⟩ k
    cases hka : dget a k with
    | some v => exact (h1 (k, v) (dget_some_mem hka)).symm
    | none =>
      cases hkb : dget b k with
      | none => rfl
      | some v => have := h2 (k, v) (dget_some_mem hkb); simp only at this; rw [hka] at this; cases this
  · intro h
    constructor
    · rintro ⟨k, v⟩ hkv; simp only; rw [← h k]; exact mem_dget_of_nodup ha hkv
    · rintro ⟨k, v⟩ hkv; simp only; rw [h k]; exact mem_dget_of_nodup hb hkv

/-- two condensed objects store the same items iff they give every fluent the same value -/
theorem roots_same_items_iff {st : Store} (hI : Inv st) {i j : Nat} {ni nj : Node}
    (hi : st.nodes[i]? = some ni) (hj : st.nodes[j]? = some nj)
    (hfi : ni.father = none) (hfj : nj.father = none) :
    itemsEq ni.values nj.values = true ↔ ∀ f, abs st i f = abs st j f := by
  rw [itemsEq_iff (hI.nodup i ni hi) (hI.nodup j nj hj)]
  have ui : ∀ f, abs st i f = (dget ni.values f).or (defaultOf st.defaults f) := by
    intro f; rw [abs_unfold hI.fatherLt hi, hfi]
  have uj : ∀ f, abs st j f = (dget nj.values f).or (defaultOf st.defaults f) := by
    intro f; rw [abs_unfold hI.fatherLt hj, hfj]
  have key : ∀ (n : Node) (m : Nat), st.nodes[m]? = some n → n.father = none →
      ∀ f v, dget n.values f = some v → defaultOf st.defaults f ≠ some v := by
    intro n m hm hf f v hv hd
    have := hI.rootNondef m n hm hf f v (dget_some_mem hv)
    unfold isNondefault at this
    rw [hd] at this
    simp at this
  constructor
  · intro h f; rw [ui, uj, h f]
  · intro h f
    have hf := h f
    rw [ui, uj] at hf
    cases hvi : dget ni.values f with
    | some v =>
      cases hvj : dget nj.values f with
      | some w => rw [hvi, hvj] at hf; simpa using hf
      | none =>
        rw [hvi, hvj] at hf
        simp only [Option.none_or] at hf
        exact absurd hf.symm (key ni i hi hfi f v hvi)
    | none =>
      cases hvj : dget nj.values f with
      | none => rfl
      | some w =>
        rw [hvi, hvj] at hf
        simp only [Option.none_or] at hf
        exact absurd hf (key nj j hj hfj f w hvj)

theorem valuesOf_eq {st : Store} {i : Nat} {n : Node} (h : st.nodes[i]? = some n) :
    valuesOf st i = n.values := by
  unfold valuesOf; simp [h]

theorem eqOp_spec {st : Store} (hI : Inv st) {i j : Nat} (hi : i < st.nodes.length)
    (hj : j < st.nodes.length) :
    Frame st (eqOp st i j).1 ∧ ((eqOp st i j).2 = true ↔ ∀ f, abs st i f = abs st j f) := by
  obtain ⟨hF, ⟨ni, hni, hfi, _, hvi⟩, ⟨nj, hnj, hfj, _, hvj⟩⟩ := hash_twice hI hi hj
  have hst : (eqOp st i j).1 = (hashOf (hashOf st i).1 j).1 := by
    unfold eqOp; simp only; split <;> rfl
  have hres : (eqOp st i j).2 = itemsEq ni.values nj.values := by
    unfold eqOp
    simp only [valuesOf_eq hni, valuesOf_eq hnj, hvi, hvj]
    cases itemsEq ni.values nj.values <;> simp
  rw [hst, hres]
  refine ⟨hF, ?_⟩
  rw [roots_same_items_iff hF.inv hni hnj hfi hfj]
  constructor
  · intro h f; rw [← hF.abs i hi f, ← hF.abs j hj f]; exact h f
  · intro h f; rw [hF.abs i hi f, hF.abs j hj f]; exact h f

theorem hashEqOp_spec {st : Store} (hI : Inv st) {i j : Nat} (hi : i < st.nodes.length)
    (hj : j < st.nodes.length) :
    Frame st (hashEqOp st i j).1 ∧
    ((hashEqOp st i j).2 = true ↔ ∀ f, abs st i f = abs st j f) := by
  obtain ⟨hF, ⟨ni, hni, hfi, _, hvi⟩, ⟨nj, hnj, hfj, _, hvj⟩⟩ := hash_twice hI hi hj
  unfold hashEqOp
  simp only [hvi, hvj]
  refine ⟨hF, ?_⟩
  rw [roots_same_items_iff hF.inv hni hnj hfi hfj]
  constructor
  · intro h f; rw [← hF.abs i hi f, ← hF.abs j hj f]; exact h f
  · intro h f; rw [hF.abs i hi f, hF.abs j hj f]; exact h f

theorem hashOf_frame {st : Store} (hI : Inv st) (i : Nat) : Frame st (hashOf st i).1 := by
  cases hi : st.nodes[i]? with
  | some n => exact (hashOf_spec hI hi).1
  | none =>
    have e : condense st i = st := by unfold condense; simp [hi]
    unfold hashOf
    simp only [e, hi]
    exact Frame.refl hI

theorem eqOp_frame {st : Store} (hI : Inv st) (i j : Nat) : Frame st (eqOp st i j).1 := by
  have hst : (eqOp st i j).1 = (hashOf (hashOf st i).1 j).1 := by
    unfold eqOp; simp only; split <;> rfl
  rw [hst]
  exact Frame.trans (hashOf_frame hI i) (hashOf_frame (hashOf_frame hI i).inv j)

theorem hashEqOp_frame {st : Store} (hI : Inv st) (i j : Nat) : Frame st (hashEqOp st i j).1 :=
  Frame.trans (hashOf_frame hI i) (hashOf_frame (hashOf_frame hI i).inv j)

/-! ### histories -/

/-- updates are Python dicts -/
def Op.WF : Op → Prop
  | .child _ u => NodupKeys u
  | _ => True

instance : (op : Op) → Decidable op.WF
  | .child _ u => inferInstanceAs (Decidable (NodupKeys u))
  | .get _ _ => isTrue trivial
  | .hash _ => isTrue trivial
  | .eq _ _ => isTrue trivial
  | .hasheq _ _ => isTrue trivial
  | .repr _ => isTrue trivial

/-- every call other than `make_child` leaves all objects and their maps as they are -/
theorem exec_frame {st : Store} (hI : Inv st) (op : Op) (hc : ∀ i u, op ≠ .child i u) :
    Frame st (exec st op).1 := by
  cases op with
  | child i u => exact absurd rfl (hc i u)
  | get i f =>
    have := (getValue_spec hI i f).1
    have e : (exec st (.get i f)).1 = (getValue st i f).1 := by
      simp only [exec]
      cases hg : getValue st i f with
      | mk s o => cases o <;> rfl
    rw [e]; exact this
  | hash i => exact hashOf_frame hI i
  | eq i j => exact eqOp_frame hI i j
  | hasheq i j => exact hashEqOp_frame hI i j
  | repr i => exact reprOp_frame hI i

/-- the heap represents the list of finite maps `ms` -/
def Sim (st : Store) (ms : List FMap) : Prop :=
  st.nodes.length = ms.length ∧ ∀ (k : Nat) (m : FMap), ms[k]? = some m → ∀ f, abs st k f = m f

theorem Sim.of_frame {st st' : Store} {ms : List FMap} (hF : Frame st st') (hs : Sim st ms) :
    Sim st' ms := by
  refine ⟨hF.length.trans hs.1, ?_⟩
  intro k m hk f
  rw [hF.abs k (by rw [hs.1]; exact lt_length_of_getElem? hk) f]
  exact hs.2 k m hk f

theorem exec_sim {st : Store} {ms : List FMap} (hI : Inv st) (hb : limitOk st.baseLimit = true)
    (hs : Sim st ms) (op : Op) (hop : op.WF) :
    Inv (exec st op).1 ∧ limitOk (exec st op).1.baseLimit = true ∧
    Sim (exec st op).1 (specExec ms op) := by
  by_cases hc : ∀ i u, op ≠ .child i u
  · have hF := exec_frame hI op hc
    refine ⟨hF.inv, by rw [hF.baseLimit]; exact hb, ?_⟩
    have : specExec ms op = ms := by
      cases op with
      | child i u => exact absurd rfl (hc i u)
      | _ => rfl
    rw [this]; exact Sim.of_frame hF hs
  · have : ∃ i u, op = .child i u := by
      cases op with
      | child i u => exact ⟨i, u, rfl⟩
      | get i f => exact absurd (fun _ _ h => Op.noConfusion h) hc
      | hash i => exact absurd (fun _ _ h => Op.noConfusion h) hc
      | eq i j => exact absurd (fun _ _ h => Op.noConfusion h) hc
      | hasheq i j => exact absurd (fun _ _ h => Op.noConfusion h) hc
      | repr i => exact absurd (fun _ _ h => Op.noConfusion h) hc
    obtain ⟨i, u, rfl⟩ := this
    by_cases hi : i < st.nodes.length
    · have hsome := makeChild_isSome u hi hb
      cases hm : makeChild st i u with
      | none => rw [hm] at hsome; cases hsome
      | some r =>
        obtain ⟨st', k⟩ := r
        obtain ⟨hk, hlen, _, hbl, hI', hold, hnew⟩ := makeChild_spec hI hop hm
        have hil : i < ms.length := by rw [← hs.1]; exact hi
        have hmi : ms[i]? = some ms[i] := by simp [hil]
        have e1 : (exec st (.child i u)).1 = st' := by unfold exec; simp [hm]
        have e2 : specExec ms (.child i u) = ms ++ [(ms[i]).update u] := by
          unfold specExec; simp [hmi]
        rw [e1, e2]
        refine ⟨hI', by rw [hbl]; exact hb, by simp [hlen, hs.1], ?_⟩
        intro j m hj f
        by_cases hjl : j < ms.length
        · rw [List.getElem?_append_left hjl] at hj
          rw [hold j (by rw [hs.1]; exact hjl) f]
          exact hs.2 j m hj f
        · rw [List.getElem?_append_right (by omega), List.getElem?_singleton] at hj
          by_cases e : j - ms.length = 0
          · simp only [e, if_true, Option.some.injEq] at hj
            have : j = k := by rw [hk, hs.1]; omega
            subst this; subst hj
            rw [hnew f, hs.2 i _ hmi f]
            unfold FMap.update
            cases dget u f <;> rfl
          · simp [e] at hj
    · have hm : makeChild st i u = none := makeChild_invalid u (by omega)
      have hmi : ms[i]? = none := List.getElem?_eq_none_iff.2 (by rw [← hs.1]; omega)
      have e1 : (exec st (.child i u)).1 = st := by unfold exec; simp [hm]
      have e2 : specExec ms (.child i u) = ms := by unfold specExec; simp [hmi]
      rw [e1, e2]; exact ⟨hI, hb, hs⟩

theorem run_sim {ops : List Op} : ∀ {st : Store} {ms : List FMap}, Inv st →
    limitOk st.baseLimit = true → Sim st ms → (∀ op ∈ ops, op.WF) →
    Inv (run st ops) ∧ Sim (run st ops) (specRun ms ops) := by
  induction ops with
  | nil => intro st ms hI _ hs _; exact ⟨hI, hs⟩
  | cons op rest ih =>
    intro st ms hI hb hs hw
    obtain ⟨h1, h2, h3⟩ := exec_sim hI hb hs op (hw op List.mem_cons_self)
    exact ih h1 h2 h3 (fun o ho => hw o (List.mem_cons_of_mem _ ho))

theorem mkRoot_spec {ds : Defaults} {rl bl : Option Nat} {vals : Dict} {st : Store}
    (hv : NodupKeys vals) (h : mkRoot ds rl bl vals = some st) :
    Inv st ∧ st.baseLimit = bl ∧ st.defaults = ds ∧ limitOk rl = true ∧
    Sim st [FMap.root ds vals] := by
  unfold mkRoot at h
  cases hc : initNode ds rl vals none with
  | none => simp [hc] at h
  | some c =>
    simp only [hc, Option.some.injEq] at h
    subst h
    obtain ⟨hl, hvals, hf, hh, _⟩ := initNode_eq_some hc
    simp only [Option.isSome_none, Bool.false_or] at hvals
    simp only [Option.map_none] at hf
    have look : ∀ (j : Nat) (m : Node), [c][j]? = some m → j = 0 ∧ m = c := by
      intro j m hm
      rw [List.getElem?_singleton] at hm
      by_cases e : j = 0
      · simp only [e, if_true, Option.some.injEq] at hm; exact ⟨e, hm.symm⟩
      · simp [e] at hm
    have hI : Inv { defaults := ds, baseLimit := bl, nodes := [c] } := by
      refine ⟨?_, ?_, ?_, ?_⟩
      · intro j m hm k hk; obtain ⟨_, rfl⟩ := look j m hm; rw [hf] at hk; cases hk
      · intro j m hm; obtain ⟨_, rfl⟩ := look j m hm; rw [hvals]; exact nodupKeys_filter _ hv
      · intro j m hm _ k v hkv
        obtain ⟨_, rfl⟩ := look j m hm
        rw [hvals] at hkv; exact (List.mem_filter.1 hkv).2
      · intro j m hm h hmh; obtain ⟨_, rfl⟩ := look j m hm; rw [hh] at hmh; cases hmh
    refine ⟨hI, rfl, rfl, hl, rfl, ?_⟩
    intro k m hk f
    rw [List.getElem?_singleton] at hk
    by_cases e : k = 0
    · simp only [e, if_true, Option.some.injEq] at hk
      subst hk; subst e
      have h0 : ({ defaults := ds, baseLimit := bl, nodes := [c] } : Store).nodes[0]? = some c := rfl
      rw [abs_unfold hI.fatherLt h0, hf, hvals]
      simp only
      rw [dget_filter _ hv, filter_nondefault_or]
      unfold FMap.root
      cases dget vals f <;> rfl
    · simp [e] at hk

end UPVerif.State
