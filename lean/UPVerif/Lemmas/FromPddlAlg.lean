import UPVerif.Core.FromPddl
/-!
Helper lemmas for C21: what the operand simplification of the external parser (`dedup`, `flatList`,
`simplifyOperands`, `mkOp` of Core/FromPddl.lean) does to any quantity that is a fold over the operands in a
commutative (idempotent) monoid — truth values of a conjunction / disjunction, sums, products, sets of free variables.
No Mathlib.
-/
namespace UPVerif.FromPddl

/-! ### equations of `flat` -/

theorem flat_op (k k' : OpK) (xs : List Form) :
    flat k (.op k' xs) = if k' = k then flatList k xs else [.op k' xs] := by rw [flat]
theorem flat_nonop (k : OpK) (φ : Form) (h : ∀ k' xs, φ ≠ .op k' xs) : flat k φ = [φ] := by
  cases φ with
  | op k' xs => exact absurd rfl (h k' xs)
  | num _ => simp [flat]
  | not _ => simp [flat]
  | pred _ _ => simp [flat]
  | fn _ _ => simp [flat]
  | eqT _ _ => simp [flat]
  | quant _ _ _ => simp [flat]
  | «when» _ _ => simp [flat]
  | forallE _ _ => simp [flat]

/-! ### `dedup` -/

theorem mem_dedupAcc {α : Type} [DecidableEq α] (x : α) : ∀ (l seen : List α), x ∈ dedupAcc seen l ↔ x ∈ l ∧ x ∉ seen
  | [], seen => by simp [dedupAcc]
  | y :: l, seen => by
    unfold dedupAcc
    by_cases hy : y ∈ seen
    · rw [if_pos hy, mem_dedupAcc x l seen]
      constructor
      · rintro ⟨h1, h2⟩; exact ⟨List.mem_cons_of_mem _ h1, h2⟩
      · rintro ⟨h1, h2⟩
        rcases List.mem_cons.1 h1 with rfl | h
        · exact absurd hy h2
        · exact ⟨h, h2⟩
    · rw [if_neg hy, List.mem_cons, mem_dedupAcc x l (y :: seen)]
      constructor
      · rintro (rfl | ⟨h1, h2⟩)
        · exact ⟨List.mem_cons_self .., hy⟩
        · exact ⟨List.mem_cons_of_mem _ h1, fun h => h2 (List.mem_cons_of_mem _ h)⟩
      · rintro ⟨h1, h2⟩
        by_cases hxy : x = y
        · exact Or.inl hxy
        · right
          rcases List.mem_cons.1 h1 with rfl | h
          · exact absurd rfl hxy
          · refine ⟨h, fun hm => ?_⟩
            rcases List.mem_cons.1 hm with rfl | h'
            · exact hxy rfl
            · exact h2 h'

theorem mem_dedup {α : Type} [DecidableEq α] (x : α) (l : List α) : x ∈ dedup l ↔ x ∈ l := by
  unfold dedup
  rw [mem_dedupAcc]
  simp

theorem dedupAcc_of_nodup {α : Type} [DecidableEq α] : ∀ (l seen : List α), l.Nodup → (∀ x ∈ l, x ∉ seen) →
    dedupAcc seen l = l
  | [], _, _, _ => rfl
  | y :: l, seen, hn, hs => by
    unfold dedupAcc
    rw [if_neg (hs y (List.mem_cons_self ..))]
    have hn' := List.nodup_cons.1 hn
    rw [dedupAcc_of_nodup l (y :: seen) hn'.2 (fun x hx hm => by
      rcases List.mem_cons.1 hm with rfl | h
      · exact hn'.1 hx
      · exact hs x (List.mem_cons_of_mem _ hx) h)]

theorem dedup_of_nodup {α : Type} [DecidableEq α] (l : List α) (h : l.Nodup) : dedup l = l :=
  dedupAcc_of_nodup l [] h (fun _ _ hm => by cases hm)

theorem dedup_length_le {α : Type} [DecidableEq α] : ∀ (l seen : List α), (dedupAcc seen l).length ≤ l.length
  | [], _ => by simp [dedupAcc]
  | y :: l, seen => by
    unfold dedupAcc
    split
    · exact Nat.le_succ_of_le (dedup_length_le l seen)
    · simp only [List.length_cons]
      exact Nat.succ_le_succ (dedup_length_le l (y :: seen))

/-! ### folds in a commutative monoid -/

structure CMon {M : Type} (op : M → M → M) (u : M) : Prop where
  assoc : ∀ a b c, op (op a b) c = op a (op b c)
  comm : ∀ a b, op a b = op b a
  unit : ∀ a, op u a = a

def foldO {M : Type} (op : M → M → M) (u : M) (l : List M) : M := l.foldr op u

section
variable {M : Type} {op : M → M → M} {u : M}

theorem CMon.unit' (h : CMon op u) (a : M) : op a u = a := by rw [h.comm, h.unit]

@[simp] theorem foldO_nil : foldO op u [] = u := rfl
@[simp] theorem foldO_cons (a : M) (l : List M) : foldO op u (a :: l) = op a (foldO op u l) := rfl

theorem foldO_append (h : CMon op u) : ∀ (l1 l2 : List M), foldO op u (l1 ++ l2) = op (foldO op u l1) (foldO op u l2)
  | [], l2 => by simp [h.unit]
  | a :: l1, l2 => by simp [foldO_append h l1 l2, h.assoc]

theorem foldO_singleton (h : CMon op u) (a : M) : foldO op u [a] = a := by simp [h.unit']

/-- an element of the list is absorbed by the fold when the operation is idempotent -/
theorem foldO_absorb {α : Type} (h : CMon op u) (idem : ∀ a, op a a = a) (f : α → M) (x : α) :
    ∀ seen : List α, x ∈ seen → op (foldO op u (seen.map f)) (f x) = foldO op u (seen.map f)
  | y :: r, hm => by
    simp only [List.map_cons, foldO_cons]
    rcases List.mem_cons.1 hm with rfl | hr
    · rw [h.comm (f x) _, h.assoc, idem, ]
    · rw [h.assoc, foldO_absorb h idem f x r hr]

theorem foldO_dedupAcc {α : Type} [DecidableEq α] (h : CMon op u) (idem : ∀ a, op a a = a) (f : α → M) :
    ∀ (l seen : List α), op (foldO op u (seen.map f)) (foldO op u ((dedupAcc seen l).map f)) =
      op (foldO op u (seen.map f)) (foldO op u (l.map f))
  | [], _ => rfl
  | x :: l, seen => by
    unfold dedupAcc
    by_cases hx : x ∈ seen
    · rw [if_pos hx, foldO_dedupAcc h idem f l seen]
      simp only [List.map_cons, foldO_cons]
      rw [← h.assoc, foldO_absorb h idem f x seen hx]
    · rw [if_neg hx]
      have ih := foldO_dedupAcc h idem f l (x :: seen)
      simp only [List.map_cons, foldO_cons] at ih ⊢
      rw [← h.assoc, h.comm _ (f x), ih, h.comm (f x) _, h.assoc]

theorem foldO_dedup {α : Type} [DecidableEq α] (h : CMon op u) (idem : ∀ a, op a a = a) (f : α → M) (l : List α) :
    foldO op u ((dedup l).map f) = foldO op u (l.map f) := by
  have := foldO_dedupAcc h idem f l []
  simpa [h.unit, dedup] using this

/-! ### `flatList`: splicing the operands of same-class operands -/

mutual
theorem foldO_flat (k : OpK) (f : Form → M) (good : Form → Prop) (h : CMon op u)
    (hf : ∀ χs, good (.op k χs) → f (.op k χs) = foldO op u (χs.map f) ∧ ∀ χ ∈ χs, good χ) :
    ∀ φ : Form, good φ → foldO op u ((flat k φ).map f) = f φ
  | .op k' xs, hg => by
    by_cases hk : k = k'
    · subst hk
      rw [flat_op, if_pos rfl, (hf xs hg).1]
      exact foldO_flatList k f good h hf xs (hf xs hg).2
    · rw [flat_op, if_neg (fun e => hk e.symm)]
      exact foldO_singleton h _
  | .num _, _ => by rw [flat_nonop k _ (by intro _ _ h; cases h)]; exact foldO_singleton h _
  | .not _, _ => by rw [flat_nonop k _ (by intro _ _ h; cases h)]; exact foldO_singleton h _
  | .pred _ _, _ => by rw [flat_nonop k _ (by intro _ _ h; cases h)]; exact foldO_singleton h _
  | .fn _ _, _ => by rw [flat_nonop k _ (by intro _ _ h; cases h)]; exact foldO_singleton h _
  | .eqT _ _, _ => by rw [flat_nonop k _ (by intro _ _ h; cases h)]; exact foldO_singleton h _
  | .quant _ _ _, _ => by rw [flat_nonop k _ (by intro _ _ h; cases h)]; exact foldO_singleton h _
  | .when _ _, _ => by rw [flat_nonop k _ (by intro _ _ h; cases h)]; exact foldO_singleton h _
  | .forallE _ _, _ => by rw [flat_nonop k _ (by intro _ _ h; cases h)]; exact foldO_singleton h _
theorem foldO_flatList (k : OpK) (f : Form → M) (good : Form → Prop) (h : CMon op u)
    (hf : ∀ χs, good (.op k χs) → f (.op k χs) = foldO op u (χs.map f) ∧ ∀ χ ∈ χs, good χ) :
    ∀ l : List Form, (∀ φ ∈ l, good φ) → foldO op u ((flatList k l).map f) = foldO op u (l.map f)
  | [], _ => rfl
  | x :: xs, hg => by
    rw [flatList, List.map_append, foldO_append h, foldO_flat k f good h hf x (hg x (List.mem_cons_self ..)),
      foldO_flatList k f good h hf xs (fun φ hφ => hg φ (List.mem_cons_of_mem _ hφ))]
    rfl
end

end

/-! ### membership in a flattened list -/

mutual
/-- going down: a property that the operands of a `k`-node inherit holds of every spliced operand -/
theorem good_flat (k : OpK) (good : Form → Prop) (hdown : ∀ χs, good (.op k χs) → ∀ χ ∈ χs, good χ) :
    ∀ φ : Form, good φ → ∀ ψ ∈ flat k φ, good ψ
  | .op k' xs, hg, ψ, hm => by
    by_cases hk : k = k'
    · subst hk
      rw [flat_op, if_pos rfl] at hm
      exact good_flatList k good hdown xs (hdown xs hg) ψ hm
    · rw [flat_op, if_neg (fun e => hk e.symm)] at hm
      rw [List.mem_singleton.1 hm]; exact hg
  | .num _, hg, ψ, hm => by rw [flat_nonop k _ (by intro _ _ h; cases h)] at hm; rw [List.mem_singleton.1 hm]; exact hg
  | .not _, hg, ψ, hm => by rw [flat_nonop k _ (by intro _ _ h; cases h)] at hm; rw [List.mem_singleton.1 hm]; exact hg
  | .pred _ _, hg, ψ, hm => by rw [flat_nonop k _ (by intro _ _ h; cases h)] at hm; rw [List.mem_singleton.1 hm]; exact hg
  | .fn _ _, hg, ψ, hm => by rw [flat_nonop k _ (by intro _ _ h; cases h)] at hm; rw [List.mem_singleton.1 hm]; exact hg
  | .eqT _ _, hg, ψ, hm => by rw [flat_nonop k _ (by intro _ _ h; cases h)] at hm; rw [List.mem_singleton.1 hm]; exact hg
  | .quant _ _ _, hg, ψ, hm => by rw [flat_nonop k _ (by intro _ _ h; cases h)] at hm; rw [List.mem_singleton.1 hm]; exact hg
  | .when _ _, hg, ψ, hm => by rw [flat_nonop k _ (by intro _ _ h; cases h)] at hm; rw [List.mem_singleton.1 hm]; exact hg
  | .forallE _ _, hg, ψ, hm => by rw [flat_nonop k _ (by intro _ _ h; cases h)] at hm; rw [List.mem_singleton.1 hm]; exact hg
theorem good_flatList (k : OpK) (good : Form → Prop) (hdown : ∀ χs, good (.op k χs) → ∀ χ ∈ χs, good χ) :
    ∀ l : List Form, (∀ φ ∈ l, good φ) → ∀ ψ ∈ flatList k l, good ψ
  | [], _, ψ, hm => by rw [flatList] at hm; cases hm
  | x :: xs, hg, ψ, hm => by
    rw [flatList, List.mem_append] at hm
    rcases hm with hm | hm
    · exact good_flat k good hdown x (hg x (List.mem_cons_self ..)) ψ hm
    · exact good_flatList k good hdown xs (fun φ hφ => hg φ (List.mem_cons_of_mem _ hφ)) ψ hm
end

mutual
/-- going up: a property that a well-formed `k`-node gets from its operands holds of a form as soon as it holds of
    every spliced operand -/
theorem good_of_flat (k : OpK) (good wf : Form → Prop)
    (hwf : ∀ χs, wf (.op k χs) → ∀ χ ∈ χs, wf χ)
    (hup : ∀ χs, wf (.op k χs) → (∀ χ ∈ χs, good χ) → good (.op k χs)) :
    ∀ φ : Form, wf φ → (∀ ψ ∈ flat k φ, good ψ) → good φ
  | .op k' xs, hw, h => by
    by_cases hk : k = k'
    · subst hk
      rw [flat_op, if_pos rfl] at h
      exact hup xs hw (good_of_flatList k good wf hwf hup xs (hwf xs hw) h)
    · rw [flat_op, if_neg (fun e => hk e.symm)] at h
      exact h _ (List.mem_singleton.2 rfl)
  | .num _, _, h => by rw [flat_nonop k _ (by intro _ _ h; cases h)] at h; exact h _ (List.mem_singleton.2 rfl)
  | .not _, _, h => by rw [flat_nonop k _ (by intro _ _ h; cases h)] at h; exact h _ (List.mem_singleton.2 rfl)
  | .pred _ _, _, h => by rw [flat_nonop k _ (by intro _ _ h; cases h)] at h; exact h _ (List.mem_singleton.2 rfl)
  | .fn _ _, _, h => by rw [flat_nonop k _ (by intro _ _ h; cases h)] at h; exact h _ (List.mem_singleton.2 rfl)
  | .eqT _ _, _, h => by rw [flat_nonop k _ (by intro _ _ h; cases h)] at h; exact h _ (List.mem_singleton.2 rfl)
  | .quant _ _ _, _, h => by rw [flat_nonop k _ (by intro _ _ h; cases h)] at h; exact h _ (List.mem_singleton.2 rfl)
  | .when _ _, _, h => by rw [flat_nonop k _ (by intro _ _ h; cases h)] at h; exact h _ (List.mem_singleton.2 rfl)
  | .forallE _ _, _, h => by rw [flat_nonop k _ (by intro _ _ h; cases h)] at h; exact h _ (List.mem_singleton.2 rfl)
theorem good_of_flatList (k : OpK) (good wf : Form → Prop)
    (hwf : ∀ χs, wf (.op k χs) → ∀ χ ∈ χs, wf χ)
    (hup : ∀ χs, wf (.op k χs) → (∀ χ ∈ χs, good χ) → good (.op k χs)) :
    ∀ l : List Form, (∀ φ ∈ l, wf φ) → (∀ ψ ∈ flatList k l, good ψ) → ∀ φ ∈ l, good φ
  | [], _, _, φ, hm => by cases hm
  | x :: xs, hw, h, φ, hm => by
    rw [flatList] at h
    rcases List.mem_cons.1 hm with he | hm
    · rw [he]
      exact good_of_flat k good wf hwf hup x (hw x (List.mem_cons_self ..))
        (fun ψ hψ => h ψ (List.mem_append.2 (Or.inl hψ)))
    · exact good_of_flatList k good wf hwf hup xs (fun φ hφ => hw φ (List.mem_cons_of_mem _ hφ))
        (fun ψ hψ => h ψ (List.mem_append.2 (Or.inr hψ))) φ hm
end

mutual
/-- a flattened list has at least as many elements as the list, when every `k`-node has an operand -/
theorem flat_length_pos (k : OpK) (wf : Form → Prop) (hwf : ∀ χs, wf (.op k χs) → χs ≠ [] ∧ ∀ χ ∈ χs, wf χ) :
    ∀ φ : Form, wf φ → 1 ≤ (flat k φ).length
  | .op k' xs, hw => by
    by_cases hk : k = k'
    · subst hk
      rw [flat_op, if_pos rfl]
      have := hwf xs hw
      cases xs with
      | nil => exact absurd rfl this.1
      | cons x r =>
        have h1 := flatList_length_le k wf hwf (x :: r) this.2
        simp at h1
        omega
    · rw [flat_op, if_neg (fun e => hk e.symm)]; simp
  | .num _, _ => by rw [flat_nonop k _ (by intro _ _ h; cases h)]; simp
  | .not _, _ => by rw [flat_nonop k _ (by intro _ _ h; cases h)]; simp
  | .pred _ _, _ => by rw [flat_nonop k _ (by intro _ _ h; cases h)]; simp
  | .fn _ _, _ => by rw [flat_nonop k _ (by intro _ _ h; cases h)]; simp
  | .eqT _ _, _ => by rw [flat_nonop k _ (by intro _ _ h; cases h)]; simp
  | .quant _ _ _, _ => by rw [flat_nonop k _ (by intro _ _ h; cases h)]; simp
  | .when _ _, _ => by rw [flat_nonop k _ (by intro _ _ h; cases h)]; simp
  | .forallE _ _, _ => by rw [flat_nonop k _ (by intro _ _ h; cases h)]; simp
theorem flatList_length_le (k : OpK) (wf : Form → Prop) (hwf : ∀ χs, wf (.op k χs) → χs ≠ [] ∧ ∀ χ ∈ χs, wf χ) :
    ∀ l : List Form, (∀ φ ∈ l, wf φ) → l.length ≤ (flatList k l).length
  | [], _ => by simp [flatList]
  | x :: xs, hw => by
    rw [flatList, List.length_append, List.length_cons]
    have h1 := flat_length_pos k wf hwf x (hw x (List.mem_cons_self ..))
    have h2 := flatList_length_le k wf hwf xs (fun φ hφ => hw φ (List.mem_cons_of_mem _ hφ))
    omega
end

end UPVerif.FromPddl
